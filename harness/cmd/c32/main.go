// C32 harness: the real cleanup (cmd/zoekt-sourcegraph-indexserver, through its verif driver) on index directories
// materialised from generated abstract states — real simple shards (ShardBuilder), real compound shards (index.Merge,
// then a `.meta` sidecar naming the repositories, which is how the reader learns ids, names and tombstones), real trash
// directory, mtimes by Chtimes — over short sequences of cleanups with changing assigned sets and clocks.  The resulting
// directory is read back and (a) diffed with the Lean model, (b) judged by the Lean statement, (c) judged by the
// set-based oracle below, and (d) on a sample, loaded by the real directory searcher to see which repositories it lists.
package main

import (
	"context"
	"encoding/json"
	"fmt"
	"os"
	"path/filepath"
	"sort"
	"strconv"
	"strings"
	"time"

	"github.com/sourcegraph/zoekt"
	"github.com/sourcegraph/zoekt/index"
	"github.com/sourcegraph/zoekt/query"
	"github.com/sourcegraph/zoekt/search"

	"verifharness/gen"
)

const baseUnix = 1_700_000_000 // model time 0 = this Unix second

type repo struct {
	ID, Name int
	Tomb     bool
	Date     int64
}

type file struct {
	Compound bool
	Key      int
	Mtime    int64
	Repos    []repo
	Meta     bool // simple shards only: also write a .meta sidecar
	// Sidecar: 0 = as above (a compound shard's repositories are given by its .meta sidecar over a template shard);
	// 1 = the repositories are embedded in the shard itself (a compound shard really built by index.Merge from these
	//     repositories, all alive, commit date 0) and there is no sidecar;
	// 2 = like 1 (for simple shards: like Meta=false) plus a ZERO-LENGTH sidecar — what a crash between writing and
	//     syncing the sidecar leaves; the shard reader ignores an empty sidecar and uses the embedded metadata
	Sidecar int `json:",omitempty"`
}

type dirState struct {
	Index, Trash []file
	Tmps         int
}

func baseName(f file) string {
	if f.Compound {
		return fmt.Sprintf("compound-%03d_v17.00000.zoekt", f.Key)
	}
	return fmt.Sprintf("s%03d_v16.00000.zoekt", f.Key)
}

func parseBase(n string) (compound bool, key int, ok bool) {
	var k int
	if _, err := fmt.Sscanf(n, "compound-%03d_v17.00000.zoekt", &k); err == nil {
		return true, k, true
	}
	if _, err := fmt.Sscanf(n, "s%03d_v16.00000.zoekt", &k); err == nil {
		return false, k, true
	}
	return false, 0, false
}

func tm(sec int64) time.Time { return time.Unix(baseUnix+sec, 0) }

// ---------- materialisation ----------

var templates = map[int][]byte{} // compound shard with k repositories

func must(err error) {
	if err != nil {
		panic(err)
	}
}

var simpleCache = map[[2]int][]byte{} // simple shard for (id, name)

// simpleBytes builds (once per id/name pair: ShardBuilder is slow) a real one-repository shard
func simpleBytes(id, name int, scratch string) []byte {
	k := [2]int{id, name}
	if b, ok := simpleCache[k]; ok {
		return b
	}
	b, err := index.NewShardBuilder(&zoekt.Repository{ID: uint32(id), Name: fmt.Sprintf("repo%d", name), LatestCommitDate: tm(0)})
	must(err)
	must(b.AddFile("F", []byte("hello needle"+strconv.Itoa(id))))
	p := filepath.Join(scratch, fmt.Sprintf("simple-%d-%d.tmpl", id, name))
	f, err := os.Create(p)
	must(err)
	must(b.Write(f))
	must(f.Close())
	bs, err := os.ReadFile(p)
	must(err)
	os.Remove(p)
	simpleCache[k] = bs
	return bs
}

func template(k int, scratch string) []byte {
	if t, ok := templates[k]; ok {
		return t
	}
	dir, err := os.MkdirTemp(scratch, "tmpl")
	must(err)
	defer os.RemoveAll(dir)
	var files []index.IndexFile
	for i := 0; i < k; i++ {
		p := filepath.Join(dir, fmt.Sprintf("t%d.zoekt", i))
		must(os.WriteFile(p, simpleBytes(1000+i, 1000+i, scratch), 0o644))
		f, err := os.Open(p)
		must(err)
		inf, err := index.NewIndexFile(f)
		must(err)
		defer inf.Close()
		files = append(files, inf)
	}
	tmp, _, err := index.Merge(dir, files...)
	must(err)
	b, err := os.ReadFile(tmp)
	must(err)
	templates[k] = b
	return b
}

func metaJSON(path string, rs []repo) []byte {
	repos, _, err := index.ReadMetadataPath(path)
	must(err)
	if len(repos) != len(rs) {
		panic("template arity")
	}
	for i, r := range rs {
		repos[i].ID = uint32(r.ID)
		repos[i].Name = fmt.Sprintf("repo%d", r.Name)
		repos[i].Tombstone = r.Tomb
		repos[i].LatestCommitDate = tm(r.Date)
	}
	b, err := json.Marshal(repos)
	must(err)
	return b
}

var mergedCache = map[string][]byte{}

// mergedBytes: a real compound shard of exactly these repositories (index.Merge over real simple shards), cached
func mergedBytes(rs []repo, scratch string) []byte {
	key := ""
	for _, r := range rs {
		key += fmt.Sprintf("%d.%d/", r.ID, r.Name)
	}
	if b, ok := mergedCache[key]; ok {
		return b
	}
	dir, err := os.MkdirTemp(scratch, "merge")
	must(err)
	defer os.RemoveAll(dir)
	var files []index.IndexFile
	for i, r := range rs {
		p := filepath.Join(dir, fmt.Sprintf("m%d.zoekt", i))
		must(os.WriteFile(p, simpleBytes(r.ID, r.Name, scratch), 0o644))
		f, err := os.Open(p)
		must(err)
		inf, err := index.NewIndexFile(f)
		must(err)
		defer inf.Close()
		files = append(files, inf)
	}
	tmp, _, err := index.Merge(dir, files...)
	must(err)
	b, err := os.ReadFile(tmp)
	must(err)
	mergedCache[key] = b
	return b
}

func writeFile(dir string, f file, scratch string) {
	p := filepath.Join(dir, baseName(f))
	if f.Sidecar > 0 {
		if f.Compound {
			must(os.WriteFile(p, mergedBytes(f.Repos, scratch), 0o644))
		} else {
			must(os.WriteFile(p, simpleBytes(f.Repos[0].ID, f.Repos[0].Name, scratch), 0o644))
		}
		if f.Sidecar == 2 {
			must(os.WriteFile(p+".meta", nil, 0o644))
		}
		must(os.Chtimes(p, tm(f.Mtime), tm(f.Mtime)))
		return
	}
	if f.Compound {
		must(os.WriteFile(p, template(len(f.Repos), scratch), 0o644))
		must(os.WriteFile(p+".meta", metaJSON(p, f.Repos), 0o644))
	} else {
		must(os.WriteFile(p, simpleBytes(f.Repos[0].ID, f.Repos[0].Name, scratch), 0o644))
		if f.Meta {
			b, err := json.Marshal(&zoekt.Repository{ID: uint32(f.Repos[0].ID), Name: fmt.Sprintf("repo%d", f.Repos[0].Name), LatestCommitDate: tm(f.Repos[0].Date)})
			must(err)
			must(os.WriteFile(p+".meta", b, 0o644))
		}
	}
	must(os.Chtimes(p, tm(f.Mtime), tm(f.Mtime)))
}

// leftoverName: the names killed writers leave behind — os.CreateTemp patterns of the sidecar writer and of the shard
// writer, and fixed ".tmp" suffixes. All end in ".tmp": cleanup removes them at the end of a run.
func leftoverName(base string, kind int) string {
	switch kind % 8 {
	case 6, 7:
		return base + ".meta.tmp"
	case 0:
		return base + ".meta.tmp"
	case 1:
		return base + ".meta.1234567.tmp"
	case 2:
		return base + ".tmp"
	case 3:
		return base + ".987654321.tmp"
	case 4:
		return base + ".meta.tmp.tmp"
	}
	return "lost+found-" + strconv.Itoa(kind) + ".tmp"
}

func materialise(root string, s dirState, scratch string) {
	must(os.MkdirAll(filepath.Join(root, ".trash"), 0o755))
	for _, f := range s.Index {
		writeFile(root, f, scratch)
	}
	for _, f := range s.Trash {
		writeFile(filepath.Join(root, ".trash"), f, scratch)
	}
	for i := 0; i < s.Tmps; i++ {
		must(os.WriteFile(filepath.Join(root, fmt.Sprintf("crash%d.zoekt.tmp", i)), []byte("x"), 0o644))
	}
}

// applyEvent performs what another component of the server does to the index directory; it reports whether anything
// changed. Sidecar rewrites go through the real writers (index.SetTombstone / UnsetTombstone) or, for renames, write the
// .meta the way mergeMeta does (temp file + rename); the .zoekt file is never touched, so its size and mtime stay.
func applyEvent(root string, ev event, scratch string, embedded map[int]bool) bool {
	cur, _ := readFiles(root)
	changed := false
	switch ev.Kind {
	case "reindex", "tomb":
		for _, f := range cur {
			if f.Compound && alive(f, ev.ID) {
				// (a writer that fails, e.g. on a leftover temporary file, gives up: the event is then a no-op)
				if index.SetTombstone(filepath.Join(root, baseName(f)), uint32(ev.ID)) == nil {
					changed = true
				}
			}
		}
		if ev.Kind == "reindex" {
			nf := file{Key: ev.ID*10 + ev.N, Mtime: 0, Repos: []repo{{ID: ev.ID, Name: ev.ID}}}
			if find(cur, false, nf.Key) == nil {
				// the new shard is as old as the newest file around (mtimes only matter in the trash)
				for _, f := range cur {
					if f.Mtime > nf.Mtime {
						nf.Mtime = f.Mtime
					}
				}
				writeFile(root, nf, scratch)
				changed = true
			}
		}
	case "untomb":
		for _, f := range cur {
			if !f.Compound {
				continue
			}
			for _, rp := range f.Repos {
				if rp.ID == ev.ID && rp.Tomb {
					if index.UnsetTombstone(filepath.Join(root, baseName(f)), uint32(ev.ID)) == nil {
						changed = true
					}
					break
				}
			}
		}
	case "rename":
		for _, f := range cur {
			if !alive(f, ev.ID) {
				continue
			}
			p := filepath.Join(root, baseName(f))
			repos, _, err := index.ReadMetadataPath(p)
			must(err)
			for _, rp := range repos {
				if int(rp.ID) == ev.ID {
					rp.Name = fmt.Sprintf("repo%d", ev.NewName)
				}
			}
			var b []byte
			if f.Compound {
				b, err = json.Marshal(repos)
			} else {
				b, err = json.Marshal(repos[0])
			}
			must(err)
			must(os.WriteFile(p+".meta.tmp-verif", b, 0o644))
			must(os.Rename(p+".meta.tmp-verif", p+".meta"))
			changed = true
			if ev.One {
				break
			}
		}
	case "truncmeta":
		for _, f := range cur {
			if f.Compound && !embedded[f.Key] {
				continue // template shard: its sidecar is what defines the repositories
			}
			for _, rp := range f.Repos {
				if rp.ID == ev.ID {
					must(os.WriteFile(filepath.Join(root, baseName(f))+".meta", nil, 0o644))
					changed = true
					break
				}
			}
		}
	case "leftover":
		for _, f := range cur {
			for _, rp := range f.Repos {
				if rp.ID == ev.ID {
					must(os.WriteFile(filepath.Join(root, leftoverName(baseName(f), ev.N)), []byte("{"), 0o600))
					changed = true
					break
				}
			}
		}
	case "rmshard":
		for _, f := range cur {
			if !f.Compound && alive(f, ev.ID) {
				p := filepath.Join(root, baseName(f))
				os.Remove(p)
				os.Remove(p + ".meta")
				changed = true
			}
		}
	}
	return changed
}

// ---------- reading a directory back (own code; only the shard metadata reader of the index package is reused) ----------

func readFiles(dir string) (fs []file, anomalies []string) {
	ents, err := os.ReadDir(dir)
	if err != nil {
		return nil, []string{"unreadable " + dir}
	}
	have := map[string]bool{}
	for _, e := range ents {
		have[e.Name()] = true
	}
	for _, e := range ents {
		n := e.Name()
		if e.IsDir() {
			continue
		}
		if strings.HasSuffix(n, ".zoekt.meta") {
			if !have[strings.TrimSuffix(n, ".meta")] {
				anomalies = append(anomalies, "orphan-meta "+filepath.Join(dir, n))
			}
			continue
		}
		if !strings.HasSuffix(n, ".zoekt") {
			continue
		}
		c, k, ok := parseBase(n)
		if !ok {
			anomalies = append(anomalies, "unknown-shard-name")
			continue
		}
		st, err := os.Stat(filepath.Join(dir, n))
		must(err)
		repos, _, err := index.ReadMetadataPath(filepath.Join(dir, n))
		if err != nil {
			anomalies = append(anomalies, "unreadable-shard")
			continue
		}
		f := file{Compound: c, Key: k, Mtime: st.ModTime().Unix() - baseUnix}
		if st.ModTime().Nanosecond() != 0 {
			anomalies = append(anomalies, "subsecond-mtime")
		}
		for _, r := range repos {
			var name int
			fmt.Sscanf(r.Name, "repo%d", &name)
			f.Repos = append(f.Repos, repo{ID: int(r.ID), Name: name, Tomb: r.Tombstone, Date: r.LatestCommitDate.Unix() - baseUnix})
		}
		fs = append(fs, f)
	}
	sort.Slice(fs, func(i, j int) bool {
		if fs[i].Compound != fs[j].Compound {
			return fs[i].Compound
		}
		return fs[i].Key < fs[j].Key
	})
	return fs, anomalies
}

func readDir(root string) (dirState, []string) {
	var s dirState
	var a1, a2 []string
	s.Index, a1 = readFiles(root)
	s.Trash, a2 = readFiles(filepath.Join(root, ".trash"))
	if tmps, _ := filepath.Glob(filepath.Join(root, "*.tmp")); tmps != nil {
		for _, t := range tmps {
			if st, err := os.Stat(t); err == nil && !st.IsDir() {
				s.Tmps++
			}
		}
	}
	return s, append(a1, a2...)
}

func showFiles(fs []file) string {
	if len(fs) == 0 {
		return "-"
	}
	var parts []string
	for _, f := range fs {
		var rs []string
		for _, r := range f.Repos {
			t := 0
			if r.Tomb {
				t = 1
			}
			rs = append(rs, fmt.Sprintf("%d.%d.%d.%d", r.ID, r.Name, t, r.Date))
		}
		rj := "-"
		if len(rs) > 0 {
			rj = strings.Join(rs, "/")
		}
		c := "s"
		if f.Compound {
			c = "c"
		}
		parts = append(parts, fmt.Sprintf("%s%d@%d:%s", c, f.Key, f.Mtime, rj))
	}
	return strings.Join(parts, ",")
}

func showDir(s dirState) string {
	return fmt.Sprintf("index=%s trash=%s tmps=%d", showFiles(s.Index), showFiles(s.Trash), s.Tmps)
}

// ---------- the statement, evaluated on (pre, assigned, now, post) with sets ----------

func alive(f file, id int) bool {
	for _, r := range f.Repos {
		if r.ID == id && !r.Tomb {
			return true
		}
	}
	return false
}

func searchable(fs []file, id int) bool {
	for _, f := range fs {
		if alive(f, id) {
			return true
		}
	}
	return false
}

func find(fs []file, c bool, k int) *file {
	for i := range fs {
		if fs[i].Compound == c && fs[i].Key == k {
			return &fs[i]
		}
	}
	return nil
}

func oracle(pre dirState, assigned []int, now int64, merging bool, post dirState) string {
	isAssigned := map[int]bool{}
	for _, id := range assigned {
		isAssigned[id] = true
	}
	oldTrash := func(id int) bool {
		for _, f := range pre.Trash {
			if alive(f, id) && f.Mtime < now-86400 {
				return true
			}
		}
		return false
	}
	// names under which each repository is alive in the index: a repository "disagrees on its name" if there are two
	namesOf := map[int]map[int]bool{}
	aliveCount := map[int]int{}
	for _, f := range pre.Index {
		for _, r := range f.Repos {
			if !r.Tomb {
				aliveCount[r.ID]++
				if namesOf[r.ID] == nil {
					namesOf[r.ID] = map[int]bool{}
				}
				namesOf[r.ID][r.Name] = true
			}
		}
	}
	// a loss is one of the two known classes only if the lost file itself held, alive, a repository that had to leave it
	// (unassigned or inconsistently named; only a compound shard can), or shares its name with a trashed file
	lossKey := ""
	for _, id := range assigned {
		if len(namesOf[id]) > 1 {
			continue // its shards disagree on the repository name
		}
		for _, f := range pre.Index {
			if !alive(f, id) {
				continue
			}
			if g := find(post.Index, f.Compound, f.Key); g == nil || !alive(*g, id) {
				// the known class: the file also held a repository that had to leave it AND that the code cannot tombstone
				// (shard merging off; or merging on and the unassigned repository has a second shard)
				foreign := false
				for _, r := range f.Repos {
					if r.Tomb {
						continue
					}
					if !merging && (!isAssigned[r.ID] || len(namesOf[r.ID]) > 1) {
						foreign = true
					}
					if merging && !isAssigned[r.ID] && len(namesOf[r.ID]) <= 1 && aliveCount[r.ID] >= 2 {
						foreign = true
					}
				}
				k := "assigned-lost"
				switch {
				case foreign && f.Compound:
					k = "assigned-lost-compound-shard-deleted"
				case foreign:
					k = "assigned-lost-shared-simple-shard"
				case find(pre.Trash, f.Compound, f.Key) != nil:
					k = "assigned-lost-basename-collision"
				}
				if lossKey == "" || k == "assigned-lost" {
					lossKey = k
				}
			}
		}
	}
	if lossKey != "" {
		return lossKey
	}
	for _, id := range assigned {
		if searchable(pre.Index, id) || !searchable(pre.Trash, id) || oldTrash(id) {
			continue
		}
		for _, f := range pre.Trash {
			if alive(f, id) {
				if g := find(post.Index, f.Compound, f.Key); g == nil || !alive(*g, id) {
					if find(pre.Index, f.Compound, f.Key) != nil {
						return "assigned-not-restored-basename-collision"
					}
					return "assigned-not-restored"
				}
			}
		}
	}
	for _, f := range post.Index {
		for _, r := range f.Repos {
			if !r.Tomb && !isAssigned[r.ID] {
				return "unassigned-still-searchable"
			}
		}
	}
	for _, f := range pre.Trash {
		if g := find(post.Trash, f.Compound, f.Key); g != nil && fmt.Sprint(g.Repos) == fmt.Sprint(f.Repos) {
			continue
		}
		if g := find(post.Index, f.Compound, f.Key); g != nil && fmt.Sprint(g.Repos) == fmt.Sprint(f.Repos) {
			continue
		}
		justified := false
		for _, r := range f.Repos {
			if !r.Tomb && (oldTrash(r.ID) || searchable(pre.Index, r.ID)) {
				justified = true
			}
		}
		if !justified {
			if find(pre.Index, f.Compound, f.Key) != nil {
				return "trash-deleted-early-basename-collision"
			}
			return "trash-deleted-early"
		}
	}
	if post.Tmps != 0 {
		return "tmp-files-left"
	}
	return ""
}

// staleSidecar: is some shard of dir served under repository ids that are not its own? For every shard whose
// repositories are embedded in the .zoekt file (simple shards; compound shards built by index.Merge) the ids the reader
// reports (embedded metadata overlaid with the .meta sidecar) must be the ids embedded in the file: every writer of a
// sidecar (mergeMeta, SetTombstone, UnsetTombstone) keeps them, so a difference means the sidecar of ANOTHER shard got
// attached to this one.
func staleSidecar(dir string, embedded map[int]bool, scratch string) string {
	ents, _ := os.ReadDir(dir)
	for _, e := range ents {
		c, k, ok := parseBase(e.Name())
		if !ok || e.IsDir() || (c && !embedded[k]) {
			continue
		}
		p := filepath.Join(dir, e.Name())
		// the shard's own metadata: read a copy that has no sidecar next to it (the reader overlays <name>.meta by itself)
		bs, err := os.ReadFile(p)
		if err != nil {
			continue
		}
		cp := filepath.Join(scratch, "own-metadata.zoekt")
		must(os.WriteFile(cp, bs, 0o644))
		own, _, err := index.ReadMetadataPath(cp)
		os.Remove(cp)
		if err != nil {
			continue
		}
		seen, _, err := index.ReadMetadataPath(p)
		if err != nil {
			continue
		}
		a, b := []uint32{}, []uint32{}
		for _, r := range own {
			a = append(a, r.ID)
		}
		for _, r := range seen {
			b = append(b, r.ID)
		}
		if fmt.Sprint(a) != fmt.Sprint(b) {
			return fmt.Sprintf("%s holds repositories %v but is served as %v", e.Name(), a, b)
		}
	}
	return ""
}

// newAnomalies: the anomalies of the post state that the pre state did not have already (a planted orphan sidecar that
// cleanup had no reason to touch is not cleanup's doing)
func newAnomalies(pre, post []string) []string {
	had := map[string]bool{}
	for _, a := range pre {
		had[a] = true
	}
	var out []string
	for _, a := range post {
		if !had[a] {
			out = append(out, strings.Fields(a)[0])
		}
	}
	return out
}

// ---------- generator ----------

// leftover: a temporary file a killed writer left next to shard number Of of Init.Index (Of = -1: unrelated name)
type leftover struct {
	Of   int
	Kind int // see leftoverName
}

// orphan: a `.meta` sidecar without its shard (a crash between the two removes of a shard's files, or a builder that was
// killed while deleting): base name of shard (Compound, Key), in the index directory or in the trash, naming repository
// ID (name Name). It belongs to nobody; the point is what happens when cleanup moves a same-named shard next to it.
type orphan struct {
	Trash    bool
	Compound bool
	Key      int
	ID, Name int
}

type scenario struct {
	Orphans   []orphan   `json:",omitempty"`
	Leftovers []leftover `json:",omitempty"`
	Init     dirState
	Merging  bool
	Steps    []step
	Collide  bool
	Shape    string `json:",omitempty"` // "" = random layout and assigned lists; "lifecycle" = see genLifecycle
}

type step struct {
	Assigned []int
	Now      int64
	Add      []file  // shards "indexed" into the index directory before this cleanup
	Events   []event // what other actors of the same server do to the directory before this cleanup
}

// event: something another component does between two cleanups, resolved against the directory as it is then.
//
//	reindex  the builder with shard merging on: tombstones ID in every compound shard listing it alive (it rewrites only
//	         the .meta sidecar; the .zoekt file keeps its size and mtime) and writes a new simple shard for ID
//	tomb / untomb   SetTombstone / UnsetTombstone of ID in the compound shards, by another writer of the sidecar
//	rename   mergeMeta: the .meta of the shards of ID gets a new repository name (all of them, or only the first)
//	rmshard  the indexer removed the simple shards of ID
//	truncmeta a crash between writing and syncing the sidecar: the .meta of the shards listing ID (shards whose repositories
//	         are embedded in the shard itself only) is left with length zero; the reader then uses the embedded metadata
//	leftover a writer of the sidecar or of the shard of ID was killed: its temporary file (name kind N) stays next to every
//	         shard listing ID
//	scan     listIndexed (the same process scans the directory, as the server loop does before every cleanup)
type event struct {
	Kind    string
	ID      int
	NewName int  `json:",omitempty"`
	One     bool `json:",omitempty"`
	N       int  `json:",omitempty"`
}

func mtimeNear(r *gen.Rand, now int64) int64 {
	return now + gen.Pick(r, []int64{-30 * 3600, -25 * 3600, -86400 - 1, -86400, -86400 + 1, -3600, -60, 0, 1, 3600, -2 * 86400})
}

func genScenario(r *gen.Rand) scenario {
	var sc scenario
	sc.Merging = r.Bool()
	sc.Collide = r.Chance(1, 5)
	nids := r.Range(2, 6)
	now := int64(r.Range(100, 200)) * 86400
	ckey := 0
	// a simple shard's basename is a function of the repository *name* and the shard number, as in zoekt
	simple := func(id, name, n int, mtime int64) file {
		f := file{Key: name*10 + n, Mtime: mtime, Repos: []repo{{ID: id, Name: name}}, Meta: r.Chance(1, 3)}
		if !f.Meta && r.Chance(1, 5) {
			f.Sidecar = 2 // empty sidecar next to a simple shard
		}
		return f
	}
	has := func(fs []file, k int) bool {
		for _, f := range fs {
			if !f.Compound && f.Key == k {
				return true
			}
		}
		return false
	}
	for id := 1; id <= nids; id++ {
		if r.Chance(3, 5) {
			for n := r.Range(1, 2) - 1; n >= 0; n-- {
				sc.Init.Index = append(sc.Init.Index, simple(id, id, n, mtimeNear(r, now)))
			}
			if r.Chance(1, 7) { // renamed repository: a shard under the old name is still around
				sc.Init.Index = append(sc.Init.Index, simple(id, id+10, 0, mtimeNear(r, now)))
			}
		}
	}
	for c := r.Intn(3); c > 0; c-- {
		ckey++
		f := file{Compound: true, Key: ckey, Mtime: mtimeNear(r, now)}
		want := r.Range(1, 3)
		seen := map[int]bool{}
		for tries := 0; len(f.Repos) < want && tries < 20; tries++ {
			id := r.Range(1, nids+1)
			if seen[id] {
				continue
			}
			seen[id] = true
			nm := id
			if r.Chance(1, 10) {
				nm = id + 10
			}
			f.Repos = append(f.Repos, repo{ID: id, Name: nm, Tomb: r.Chance(3, 10), Date: int64(r.Range(0, 50))})
		}
		if r.Chance(1, 3) && len(f.Repos) > 0 { // a compound shard as the merger left it: no sidecar, or an empty one after a crash
			f.Sidecar = r.Range(1, 2)
			for i := range f.Repos {
				f.Repos[i].Tomb, f.Repos[i].Date = false, 0
			}
		}
		sc.Init.Index = append(sc.Init.Index, f)
	}
	// trash: simple shards only (cleanup never moves a compound shard there)
	for id := 1; id <= nids+1; id++ {
		if r.Chance(2, 5) {
			nm := id
			if sc.Collide && r.Chance(1, 2) {
				nm = r.Range(1, nids) // trashed under a name that another repository may carry now
			}
			for n := r.Range(1, 2) - 1; n >= 0; n-- {
				if !has(sc.Init.Trash, nm*10+n) {
					sc.Init.Trash = append(sc.Init.Trash, simple(id, nm, n, mtimeNear(r, now)))
				}
			}
		}
	}
	sc.Init.Tmps = gen.Pick(r, []int{0, 0, 1, 2})
	for k := gen.Pick(r, []int{0, 0, 1, 2}); k > 0 && len(sc.Init.Index) > 0; k-- {
		sc.Leftovers = append(sc.Leftovers, leftover{Of: r.Intn(len(sc.Init.Index)+1) - 1, Kind: r.Intn(8)})
	}
	for s := r.Range(1, 3); s > 0; s-- {
		var st step
		for id := 1; id <= nids+1; id++ {
			if r.Chance(1, 2) {
				st.Assigned = append(st.Assigned, id)
			}
		}
		if r.Chance(1, 10) {
			st.Assigned = append(st.Assigned, 99)
		}
		gen.Shuffle(r, st.Assigned)
		st.Now = now
		if len(sc.Steps) > 0 && r.Chance(1, 3) && len(st.Assigned) > 0 {
			id := gen.Pick(r, st.Assigned)
			if id != 99 {
				st.Add = append(st.Add, simple(id, id, 2+len(sc.Steps), now-5)) // the indexer wrote a new shard
			}
		}
		// other actors between the cleanups (and a directory scan before the first one, as the server loop does)
		if r.Chance(1, 3) {
			st.Events = append(st.Events, event{Kind: "scan"})
		}
		if len(sc.Steps) > 0 {
			for k := r.Intn(3); k > 0; k-- {
				st.Events = append(st.Events, genEvent(r, r.Range(1, nids+1), 5+len(sc.Steps)))
			}
		}
		sc.Steps = append(sc.Steps, st)
		now += gen.Pick(r, []int64{0, 60, 3600, 23 * 3600, 25 * 3600, 49 * 3600})
	}
	return sc
}

func genEvent(r *gen.Rand, id, n int) event {
	switch r.Intn(10) {
	case 0, 1, 2:
		return event{Kind: "reindex", ID: id, N: n}
	case 3, 4:
		return event{Kind: "tomb", ID: id}
	case 5:
		return event{Kind: "untomb", ID: id}
	case 6, 7:
		return event{Kind: "rename", ID: id, NewName: id + 10, One: r.Bool()}
	case 8:
		switch r.Intn(3) {
		case 0:
			return event{Kind: "leftover", ID: id, N: r.Intn(8)}
		case 1:
			return event{Kind: "truncmeta", ID: id}
		}
		return event{Kind: "rmshard", ID: id}
	}
	return event{Kind: "scan"}
}

// genStale: moves whose DESTINATION already holds files under the shard's base name. A source shard without a sidecar
// (or with a zero-length one), in the index directory and about to be trashed, or in the trash and about to be restored;
// at the destination a shard of the same base name but of another repository id (a repository deleted and re-created
// under its old name) WITH a sidecar, or only an orphan sidecar. One or two such pairs, in either direction, simple
// shards and compound shards (a compound source is deleted rather than moved, the destination is cleared all the same),
// other shards around, and a second cleanup in which the moved repository changes sides again.
func genStale(r *gen.Rand) scenario {
	var sc scenario
	sc.Shape = "stale"
	sc.Merging = r.Bool()
	now := int64(r.Range(100, 200)) * 86400
	var first, second []int
	used := map[int]bool{}
	for pairs := r.Range(1, 2); pairs > 0; pairs-- {
		name := r.Range(1, 5)
		if used[name] {
			continue
		}
		used[name] = true
		a, b := name, name+20 // source repository, and the one that left files at the destination
		if r.Chance(1, 4) {
			a, b = b, a
		}
		src := file{Key: name*10 + r.Intn(2), Repos: []repo{{ID: a, Name: name}}}
		if r.Chance(1, 4) {
			src.Sidecar = 2
		}
		dst := file{Key: src.Key, Repos: []repo{{ID: b, Name: name, Date: int64(r.Range(0, 50))}}, Meta: true}
		toTrash := r.Bool()
		useOrphan := r.Chance(1, 3)
		if toTrash {
			src.Mtime, dst.Mtime = mtimeNear(r, now), now-int64(r.Range(1, 20))*3600
			sc.Init.Index = append(sc.Init.Index, src)
			if useOrphan {
				sc.Orphans = append(sc.Orphans, orphan{Trash: true, Key: src.Key, ID: b, Name: name})
			} else {
				sc.Init.Trash = append(sc.Init.Trash, dst)
			}
			if r.Chance(1, 5) {
				first = append(first, a)
			} else {
				second = append(second, a) // trashed now, wanted again at the next cleanup
			}
			if r.Bool() {
				first = append(first, b)
			}
		} else {
			src.Mtime, dst.Mtime = now-int64(r.Range(1, 20))*3600, mtimeNear(r, now)
			sc.Init.Trash = append(sc.Init.Trash, src)
			if useOrphan {
				sc.Orphans = append(sc.Orphans, orphan{Key: src.Key, ID: b, Name: name})
			} else {
				sc.Init.Index = append(sc.Init.Index, dst)
			}
			if !r.Chance(1, 5) {
				first = append(first, a) // restored now …
			}
			if r.Bool() {
				second = append(second, a) // … and kept, or trashed again
			}
			if r.Bool() {
				first = append(first, b)
			}
			if r.Bool() {
				second = append(second, b)
			}
		}
	}
	if r.Chance(1, 3) { // a compound shard as the merger left it, about to lose a member; an orphan sidecar of its name in the trash
		c := file{Compound: true, Key: 1, Mtime: mtimeNear(r, now), Sidecar: 1, Repos: []repo{{ID: 6, Name: 6}, {ID: 7, Name: 7}}}
		sc.Init.Index = append(sc.Init.Index, c)
		sc.Orphans = append(sc.Orphans, orphan{Trash: true, Compound: true, Key: 1, ID: 26, Name: 6})
		first = append(first, 6)
		second = append(second, 6, 7)
	}
	for id := 8; id <= 9; id++ { // bystanders
		if r.Bool() {
			sc.Init.Index = append(sc.Init.Index, file{Key: id * 10, Mtime: mtimeNear(r, now), Repos: []repo{{ID: id, Name: id}}, Meta: r.Bool()})
		} else if r.Bool() {
			sc.Init.Trash = append(sc.Init.Trash, file{Key: id * 10, Mtime: mtimeNear(r, now), Repos: []repo{{ID: id, Name: id}}})
		}
		if r.Bool() {
			first = append(first, id)
		}
		if r.Bool() {
			second = append(second, id)
		}
	}
	gen.Shuffle(r, first)
	gen.Shuffle(r, second)
	sc.Steps = append(sc.Steps, step{Assigned: first, Now: now})
	if r.Chance(1, 3) {
		sc.Steps[0].Events = append(sc.Steps[0].Events, event{Kind: "scan"})
	}
	now += gen.Pick(r, []int64{60, 3600, 23 * 3600, 25 * 3600})
	sc.Steps = append(sc.Steps, step{Assigned: second, Now: now})
	return sc
}

// genLifecycle: the life of a compound shard inside one server process. A compound shard of 2-3 alive repositories
// (plus simple shards and trash around it); a first cleanup with *everything* assigned, so that the shard is scanned and
// left alone; then another actor touches one member x of the shard (re-index, external tombstone, rename by metadata
// merge, untombstone of a dead member …) without touching the .zoekt file; then cleanups in which x is dropped from the
// assigned list (or not), the other members staying assigned.
func genLifecycle(r *gen.Rand) scenario {
	var sc scenario
	sc.Shape = "lifecycle"
	sc.Merging = r.Chance(2, 3)
	nids := r.Range(3, 6)
	now := int64(r.Range(100, 200)) * 86400
	members := r.Range(2, 3)
	c := file{Compound: true, Key: 1, Mtime: mtimeNear(r, now)}
	for id := 1; id <= members; id++ {
		c.Repos = append(c.Repos, repo{ID: id, Name: id, Date: int64(r.Range(0, 50))})
	}
	if r.Chance(1, 3) { // a member that is already dead in the shard
		c.Repos[len(c.Repos)-1].Tomb = true
	} else if r.Chance(1, 2) { // the shard as the merger left it: no sidecar, or an empty one after a crash
		c.Sidecar = r.Range(1, 2)
		for i := range c.Repos {
			c.Repos[i].Date = 0
		}
	}
	sc.Init.Index = append(sc.Init.Index, c)
	for id := members + 1; id <= nids; id++ {
		if r.Chance(1, 2) {
			sc.Init.Index = append(sc.Init.Index, file{Key: id * 10, Mtime: mtimeNear(r, now), Repos: []repo{{ID: id, Name: id}}, Meta: r.Chance(1, 3)})
		} else if r.Chance(1, 2) {
			sc.Init.Trash = append(sc.Init.Trash, file{Key: id * 10, Mtime: mtimeNear(r, now), Repos: []repo{{ID: id, Name: id}}})
		}
	}
	all := func() []int {
		var l []int
		for id := 1; id <= nids; id++ {
			l = append(l, id)
		}
		gen.Shuffle(r, l)
		return l
	}
	first := step{Assigned: all(), Now: now}
	if r.Chance(1, 2) {
		first.Events = append(first.Events, event{Kind: "scan"})
	}
	sc.Steps = append(sc.Steps, first)
	x := r.Range(1, members)
	for k := r.Range(1, 2); k > 0; k-- {
		now += gen.Pick(r, []int64{60, 3600, 25 * 3600})
		st := step{Now: now}
		ev := gen.Pick(r, []event{
			{Kind: "reindex", ID: x, N: 5 + len(sc.Steps)}, {Kind: "reindex", ID: x, N: 5 + len(sc.Steps)},
			{Kind: "tomb", ID: x}, {Kind: "untomb", ID: members}, {Kind: "rename", ID: x, NewName: x + 10, One: r.Bool()},
			{Kind: "truncmeta", ID: x},
		})
		if r.Chance(1, 3) {
			st.Events = append(st.Events, event{Kind: "scan"})
		}
		if r.Chance(1, 2) { // some writer of the compound shard's sidecar was killed since the last cleanup
			st.Events = append(st.Events, event{Kind: "leftover", ID: r.Range(1, members), N: r.Intn(8)})
		}
		st.Events = append(st.Events, ev)
		switch r.Intn(5) {
		case 0:
			st.Assigned = all()
		case 1:
			for id := 1; id <= nids; id++ {
				if r.Bool() {
					st.Assigned = append(st.Assigned, id)
				}
			}
		default: // x is no longer assigned, everything else is
			for _, id := range all() {
				if id != x {
					st.Assigned = append(st.Assigned, id)
				}
			}
		}
		sc.Steps = append(sc.Steps, st)
	}
	return sc
}

// ---------- end-to-end: which repositories does the real searcher list for this directory? ----------

func listed(root string) (map[int]bool, error) {
	ss, err := search.NewDirectorySearcher(root)
	if err != nil {
		return nil, err
	}
	defer ss.Close()
	ctx, cancel := context.WithTimeout(context.Background(), 20*time.Second)
	defer cancel()
	rl, err := ss.List(ctx, &query.Const{Value: true}, nil)
	if err != nil {
		return nil, err
	}
	out := map[int]bool{}
	for _, e := range rl.Repos {
		out[int(e.Repository.ID)] = true
	}
	return out, nil
}

func main() {
	f := gen.ParseFlags()
	w := gen.NewWriter(f.Out)
	defer w.Close()
	bin := gen.BuildIndexserver("c32")
	proc := gen.StartIxsLineProc(bin, "ZOEKT_VERIF_DRIVER=c32")
	defer proc.Close()
	scratch, err := os.MkdirTemp(gen.IxsWorkDir(), "c32")
	must(err)
	defer os.RemoveAll(scratch)

	runScenario := func(sc scenario, tag string, e2e bool, detail func(i int) json.RawMessage) {
		root, err := os.MkdirTemp(scratch, "idx")
		must(err)
		defer os.RemoveAll(root)
		materialise(root, sc.Init, scratch)
		embedded := map[int]bool{}
		for _, f := range sc.Init.Index {
			if f.Compound && f.Sidecar > 0 {
				embedded[f.Key] = true
			}
			if f.Sidecar > 0 {
				w.Count(fmt.Sprintf("shards-with-sidecar-state-%d-compound-%v", f.Sidecar, f.Compound), 1)
			}
		}
		for _, lo := range sc.Leftovers {
			base := "unrelated"
			if lo.Of >= 0 && lo.Of < len(sc.Init.Index) {
				base = baseName(sc.Init.Index[lo.Of])
			}
			must(os.WriteFile(filepath.Join(root, leftoverName(base, lo.Kind)), []byte("{"), 0o600))
			w.Count("leftover-temp-files", 1)
		}
		for _, o := range sc.Orphans {
			dir := root
			if o.Trash {
				dir = filepath.Join(root, ".trash")
			}
			rp := &zoekt.Repository{ID: uint32(o.ID), Name: fmt.Sprintf("repo%d", o.Name), LatestCommitDate: tm(0)}
			var b []byte
			if o.Compound {
				b, err = json.Marshal([]*zoekt.Repository{rp})
			} else {
				b, err = json.Marshal(rp)
			}
			must(err)
			must(os.WriteFile(filepath.Join(dir, baseName(file{Compound: o.Compound, Key: o.Key}))+".meta", b, 0o644))
			w.Count(fmt.Sprintf("orphan-sidecars-trash-%v-compound-%v", o.Trash, o.Compound), 1)
		}
		for i, st := range sc.Steps {
			for _, a := range st.Add {
				writeFile(root, a, scratch)
			}
			rewrote := false
			for j, ev := range st.Events {
				if ev.Kind == "scan" {
					// listIndexed in the same process: must report exactly the repositories alive in the index directory
					cur, _ := readDir(root)
					ans, ok := proc.Do("list " + root)
					if !ok || !strings.HasPrefix(ans, "ids=") {
						fmt.Fprintln(os.Stderr, "driver died", ans)
						os.Exit(4)
					}
					got := strings.TrimPrefix(ans, "ids=")
					want := map[int]bool{}
					for _, f := range cur.Index {
						for _, rp := range f.Repos {
							if !rp.Tomb {
								want[rp.ID] = true
							}
						}
					}
					var wl []int
					for id := range want {
						wl = append(wl, id)
					}
					sort.Ints(wl)
					ws := make([]string, len(wl))
					for k, id := range wl {
						ws[k] = strconv.Itoa(id)
					}
					wantS := "-"
					if len(ws) > 0 {
						wantS = strings.Join(ws, ",")
					}
					c := gen.Case{In: "list index=" + showFiles(cur.Index), Impl: got, Class: "listIndexed", Detail: detail(i)}
					if got != wantS {
						c.Go, c.Key = fmt.Sprintf("%s: listIndexed before cleanup %d (event %d) returned %s, alive in the directory: %s", tag, i, j, got, wantS), "listindexed-not-the-alive-repositories"
					}
					w.Emit(c)
					continue
				}
				if applyEvent(root, ev, scratch, embedded) {
					rewrote = true
					w.Count("event-"+ev.Kind, 1)
				} else {
					w.Count("event-"+ev.Kind+"-noop", 1)
				}
			}
			if rewrote && i > 0 {
				w.Count("cleanup-after-external-change-in-same-process", 1)
			}
			pre, preAnomalies := readDir(root)
			if i == 0 {
				if s := staleSidecar(root, embedded, scratch) + staleSidecar(filepath.Join(root, ".trash"), embedded, scratch); s != "" {
					panic("materialisation: " + s)
				}
			}
			var anomalies []string
			for _, a := range preAnomalies {
				if !(len(sc.Orphans) > 0 && strings.HasPrefix(a, "orphan-meta")) { // planted on purpose
					anomalies = append(anomalies, a)
				}
			}
			if len(anomalies) > 0 {
				if i == 0 {
					panic(fmt.Sprint("materialisation: ", anomalies))
				}
				// left behind by the previous cleanup (already reported on that case): carry on with what is there
				w.Count("pre-state-with-anomaly-from-previous-cleanup", 1)
			}
			m := 0
			if sc.Merging {
				m = 1
			}
			ids := make([]string, len(st.Assigned))
			for j, id := range st.Assigned {
				ids[j] = strconv.Itoa(id)
			}
			asg := "-"
			if len(ids) > 0 {
				asg = strings.Join(ids, ",")
			}
			ans, ok := proc.Do(fmt.Sprintf("cleanup %s %s %d %d", root, asg, (baseUnix+st.Now)*1e9, m))
			if !ok || ans != "ok" {
				w.Emit(gen.Case{Go: tag + ": cleanup crashed: " + ans, Key: "crash", Detail: detail(i)})
				fmt.Fprintln(os.Stderr, "driver died", ans)
				os.Exit(4)
			}
			post, postAnomalies := readDir(root)
			anomalies = newAnomalies(preAnomalies, postAnomalies)
			verdict := oracle(pre, st.Assigned, st.Now, sc.Merging, post)
			// first of all: no shard may come out of a cleanup wearing another shard's sidecar (this key is never a known
			// finding, whatever else happened to the shard's repositories in the same cleanup)
			staleWhy := staleSidecar(root, embedded, scratch)
			if staleWhy == "" {
				staleWhy = staleSidecar(filepath.Join(root, ".trash"), embedded, scratch)
			}
			if staleWhy != "" {
				verdict = "shard-served-under-another-shards-sidecar"
			}
			if verdict == "" && len(anomalies) > 0 {
				verdict = anomalies[0]
			}
			if verdict == "" && e2e {
				// the real searcher must list exactly the repositories the metadata says are alive in the index directory
				got, err := listed(root)
				if err != nil {
					verdict = "searcher-failed"
				} else {
					for id := range got {
						assignedNow := false
						for _, a := range st.Assigned {
							assignedNow = assignedNow || a == id
						}
						if !assignedNow {
							verdict = "unassigned-still-searchable"
						}
					}
					for _, a := range st.Assigned {
						if searchable(post.Index, a) && !got[a] {
							verdict = "assigned-not-listed-by-searcher"
						}
					}
				}
				w.Count("e2e-searcher-checks", 1)
			}
			class := "merging-off"
			if sc.Merging {
				class = "merging-on"
			}
			nComp := 0
			for _, x := range pre.Index {
				if x.Compound {
					nComp++
				}
			}
			c := gen.Case{
				In:         fmt.Sprintf("cleanup %d %d %s %s", m, st.Now, asg, showDir(pre)),
				Impl:       showDir(post),
				Class:      class,
				Nontrivial: showDir(pre) != showDir(post),
				Detail:     detail(i),
			}
			if verdict != "" {
				c.Go, c.Key = tag+": "+verdict, verdict
				if staleWhy != "" {
					c.Go += " (" + staleWhy + ")"
				}
			}
			w.Emit(c)
			if sc.Shape == "stale" {
				for _, f := range pre.Index {
					if g := find(pre.Trash, f.Compound, f.Key); g != nil {
						w.Count("cleanups-with-one-base-name-in-index-and-trash", 1)
						break
					}
				}
			}
			w.Count(fmt.Sprintf("compound-shards-%d", nComp), 1)
			w.Count(fmt.Sprintf("trash-files-%d", min(len(pre.Trash), 4)), 1)
			if showDir(pre) == showDir(post) {
				w.Count("fixpoint", 1)
			}
		}
	}

	if files, _ := filepath.Glob(filepath.Join(f.Corpus, "*.json")); len(files) > 0 {
		sort.Strings(files)
		for _, p := range files {
			b, _ := os.ReadFile(p)
			var sc scenario
			if err := json.Unmarshal(b, &sc); err != nil {
				fmt.Fprintln(os.Stderr, "bad corpus file", p, err)
				os.Exit(5)
			}
			runScenario(sc, "corpus "+filepath.Base(p), true, func(i int) json.RawMessage {
				return gen.Detail(map[string]any{"corpus": filepath.Base(p), "step": i})
			})
		}
	}
	if f.Replay != "" {
		var rp struct {
			Case struct {
				Detail struct {
					Scenario *scenario `json:"scenario"`
				} `json:"detail"`
			} `json:"case"`
		}
		b, err := os.ReadFile(f.Replay)
		if err == nil && json.Unmarshal(b, &rp) == nil && rp.Case.Detail.Scenario != nil {
			sc := *rp.Case.Detail.Scenario
			runScenario(sc, "replay", true, func(i int) json.RawMessage { return gen.Detail(map[string]any{"scenario": sc, "step": i}) })
		}
		return
	}
	r := gen.NewRand(f.Seed)
	n := f.N(160, 2500)
	for k := 0; k < n; k++ {
		sc := genScenario(r)
		if k%3 == 2 {
			sc = genLifecycle(r)
			w.Count("lifecycle-scenarios", 1)
		}
		runScenario(sc, fmt.Sprintf("scenario %d", k), k%10 == 0, func(i int) json.RawMessage {
			return gen.Detail(map[string]any{"scenario": sc, "step": i})
		})
	}
	// moves onto an occupied destination: a stream of its own, so that the scenarios above stay what they were
	rs := gen.NewRand(f.Seed*7919 + 32)
	for k := 0; k < n/4; k++ {
		sc := genStale(rs)
		w.Count("stale-destination-scenarios", 1)
		runScenario(sc, fmt.Sprintf("stale scenario %d", k), k%10 == 0, func(i int) json.RawMessage {
			return gen.Detail(map[string]any{"scenario": sc, "step": i})
		})
	}
}
