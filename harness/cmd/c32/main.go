// C32 harness: the real cleanup (cmd/zoekt-sourcegraph-indexserver, through its verif driver) on index directories
// materialised from generated abstract states — real simple shards (ShardBuilder), real compound shards (index.Merge,
// then a `.meta` sidecar naming the repositories, which is how the reader learns ids, names and tombstones), real trash
// directory, mtimes by Chtimes — over short sequences of cleanups with changing assigned sets and clocks.  The resulting
// directory is read back and (a) diffed with the Lean model, (b) judged by the Lean statement, (c) judged by the
// set-based oracle below, and (d) on a sample, loaded by the real directory searcher to see which repositories it lists.
package main

import (
	"context"
	"encoding/json"
	"fmt"
	"os"
	"path/filepath"
	"sort"
	"strconv"
	"strings"
	"time"

	"github.com/sourcegraph/zoekt"
	"github.com/sourcegraph/zoekt/index"
	"github.com/sourcegraph/zoekt/query"
	"github.com/sourcegraph/zoekt/search"

	"verifharness/gen"
)

const baseUnix = 1_700_000_000 // model time 0 = this Unix second

type repo struct {
	ID, Name int
	Tomb     bool
	Date     int64
}

type file struct {
	Compound bool
	Key      int
	Mtime    int64
	Repos    []repo
	Meta     bool // simple shards only: also write a .meta sidecar
}

type dirState struct {
	Index, Trash []file
	Tmps         int
}

func baseName(f file) string {
	if f.Compound {
		return fmt.Sprintf("compound-%03d_v17.00000.zoekt", f.Key)
	}
	return fmt.Sprintf("s%03d_v16.00000.zoekt", f.Key)
}

func parseBase(n string) (compound bool, key int, ok bool) {
	var k int
	if _, err := fmt.Sscanf(n, "compound-%03d_v17.00000.zoekt", &k); err == nil {
		return true, k, true
	}
	if _, err := fmt.Sscanf(n, "s%03d_v16.00000.zoekt", &k); err == nil {
		return false, k, true
	}
	return false, 0, false
}

func tm(sec int64) time.Time { return time.Unix(baseUnix+sec, 0) }

// ---------- materialisation ----------

var templates = map[int][]byte{} // compound shard with k repositories

func must(err error) {
	if err != nil {
		panic(err)
	}
}

var simpleCache = map[[2]int][]byte{} // simple shard for (id, name)

// simpleBytes builds (once per id/name pair: ShardBuilder is slow) a real one-repository shard
func simpleBytes(id, name int, scratch string) []byte {
	k := [2]int{id, name}
	if b, ok := simpleCache[k]; ok {
		return b
	}
	b, err := index.NewShardBuilder(&zoekt.Repository{ID: uint32(id), Name: fmt.Sprintf("repo%d", name), LatestCommitDate: tm(0)})
	must(err)
	must(b.AddFile("F", []byte("hello needle"+strconv.Itoa(id))))
	p := filepath.Join(scratch, fmt.Sprintf("simple-%d-%d.tmpl", id, name))
	f, err := os.Create(p)
	must(err)
	must(b.Write(f))
	must(f.Close())
	bs, err := os.ReadFile(p)
	must(err)
	os.Remove(p)
	simpleCache[k] = bs
	return bs
}

func template(k int, scratch string) []byte {
	if t, ok := templates[k]; ok {
		return t
	}
	dir, err := os.MkdirTemp(scratch, "tmpl")
	must(err)
	defer os.RemoveAll(dir)
	var files []index.IndexFile
	for i := 0; i < k; i++ {
		p := filepath.Join(dir, fmt.Sprintf("t%d.zoekt", i))
		must(os.WriteFile(p, simpleBytes(1000+i, 1000+i, scratch), 0o644))
		f, err := os.Open(p)
		must(err)
		inf, err := index.NewIndexFile(f)
		must(err)
		defer inf.Close()
		files = append(files, inf)
	}
	tmp, _, err := index.Merge(dir, files...)
	must(err)
	b, err := os.ReadFile(tmp)
	must(err)
	templates[k] = b
	return b
}

func metaJSON(path string, rs []repo) []byte {
	repos, _, err := index.ReadMetadataPath(path)
	must(err)
	if len(repos) != len(rs) {
		panic("template arity")
	}
	for i, r := range rs {
		repos[i].ID = uint32(r.ID)
		repos[i].Name = fmt.Sprintf("repo%d", r.Name)
		repos[i].Tombstone = r.Tomb
		repos[i].LatestCommitDate = tm(r.Date)
	}
	b, err := json.Marshal(repos)
	must(err)
	return b
}

func writeFile(dir string, f file, scratch string) {
	p := filepath.Join(dir, baseName(f))
	if f.Compound {
		must(os.WriteFile(p, template(len(f.Repos), scratch), 0o644))
		must(os.WriteFile(p+".meta", metaJSON(p, f.Repos), 0o644))
	} else {
		must(os.WriteFile(p, simpleBytes(f.Repos[0].ID, f.Repos[0].Name, scratch), 0o644))
		if f.Meta {
			b, err := json.Marshal(&zoekt.Repository{ID: uint32(f.Repos[0].ID), Name: fmt.Sprintf("repo%d", f.Repos[0].Name), LatestCommitDate: tm(f.Repos[0].Date)})
			must(err)
			must(os.WriteFile(p+".meta", b, 0o644))
		}
	}
	must(os.Chtimes(p, tm(f.Mtime), tm(f.Mtime)))
}

func materialise(root string, s dirState, scratch string) {
	must(os.MkdirAll(filepath.Join(root, ".trash"), 0o755))
	for _, f := range s.Index {
		writeFile(root, f, scratch)
	}
	for _, f := range s.Trash {
		writeFile(filepath.Join(root, ".trash"), f, scratch)
	}
	for i := 0; i < s.Tmps; i++ {
		must(os.WriteFile(filepath.Join(root, fmt.Sprintf("crash%d.zoekt.tmp", i)), []byte("x"), 0o644))
	}
}

// ---------- reading a directory back (own code; only the shard metadata reader of the index package is reused) ----------

func readFiles(dir string) (fs []file, anomalies []string) {
	ents, err := os.ReadDir(dir)
	if err != nil {
		return nil, []string{"unreadable " + dir}
	}
	have := map[string]bool{}
	for _, e := range ents {
		have[e.Name()] = true
	}
	for _, e := range ents {
		n := e.Name()
		if e.IsDir() {
			continue
		}
		if strings.HasSuffix(n, ".zoekt.meta") {
			if !have[strings.TrimSuffix(n, ".meta")] {
				anomalies = append(anomalies, "orphan-meta")
			}
			continue
		}
		if !strings.HasSuffix(n, ".zoekt") {
			continue
		}
		c, k, ok := parseBase(n)
		if !ok {
			anomalies = append(anomalies, "unknown-shard-name")
			continue
		}
		st, err := os.Stat(filepath.Join(dir, n))
		must(err)
		repos, _, err := index.ReadMetadataPath(filepath.Join(dir, n))
		if err != nil {
			anomalies = append(anomalies, "unreadable-shard")
			continue
		}
		f := file{Compound: c, Key: k, Mtime: st.ModTime().Unix() - baseUnix}
		if st.ModTime().Nanosecond() != 0 {
			anomalies = append(anomalies, "subsecond-mtime")
		}
		for _, r := range repos {
			var name int
			fmt.Sscanf(r.Name, "repo%d", &name)
			f.Repos = append(f.Repos, repo{ID: int(r.ID), Name: name, Tomb: r.Tombstone, Date: r.LatestCommitDate.Unix() - baseUnix})
		}
		fs = append(fs, f)
	}
	sort.Slice(fs, func(i, j int) bool {
		if fs[i].Compound != fs[j].Compound {
			return fs[i].Compound
		}
		return fs[i].Key < fs[j].Key
	})
	return fs, anomalies
}

func readDir(root string) (dirState, []string) {
	var s dirState
	var a1, a2 []string
	s.Index, a1 = readFiles(root)
	s.Trash, a2 = readFiles(filepath.Join(root, ".trash"))
	if tmps, _ := filepath.Glob(filepath.Join(root, "*.tmp")); tmps != nil {
		for _, t := range tmps {
			if st, err := os.Stat(t); err == nil && !st.IsDir() {
				s.Tmps++
			}
		}
	}
	return s, append(a1, a2...)
}

func showFiles(fs []file) string {
	if len(fs) == 0 {
		return "-"
	}
	var parts []string
	for _, f := range fs {
		var rs []string
		for _, r := range f.Repos {
			t := 0
			if r.Tomb {
				t = 1
			}
			rs = append(rs, fmt.Sprintf("%d.%d.%d.%d", r.ID, r.Name, t, r.Date))
		}
		rj := "-"
		if len(rs) > 0 {
			rj = strings.Join(rs, "/")
		}
		c := "s"
		if f.Compound {
			c = "c"
		}
		parts = append(parts, fmt.Sprintf("%s%d@%d:%s", c, f.Key, f.Mtime, rj))
	}
	return strings.Join(parts, ",")
}

func showDir(s dirState) string {
	return fmt.Sprintf("index=%s trash=%s tmps=%d", showFiles(s.Index), showFiles(s.Trash), s.Tmps)
}

// ---------- the statement, evaluated on (pre, assigned, now, post) with sets ----------

func alive(f file, id int) bool {
	for _, r := range f.Repos {
		if r.ID == id && !r.Tomb {
			return true
		}
	}
	return false
}

func searchable(fs []file, id int) bool {
	for _, f := range fs {
		if alive(f, id) {
			return true
		}
	}
	return false
}

func find(fs []file, c bool, k int) *file {
	for i := range fs {
		if fs[i].Compound == c && fs[i].Key == k {
			return &fs[i]
		}
	}
	return nil
}

func oracle(pre dirState, assigned []int, now int64, post dirState) string {
	isAssigned := map[int]bool{}
	for _, id := range assigned {
		isAssigned[id] = true
	}
	oldTrash := func(id int) bool {
		for _, f := range pre.Trash {
			if alive(f, id) && f.Mtime < now-86400 {
				return true
			}
		}
		return false
	}
	for _, id := range assigned {
		names := map[int]bool{}
		for _, f := range pre.Index {
			for _, r := range f.Repos {
				if r.ID == id && !r.Tomb {
					names[r.Name] = true
				}
			}
		}
		if len(names) > 1 {
			continue // its shards disagree on the repository name
		}
		for _, f := range pre.Index {
			if !alive(f, id) {
				continue
			}
			if g := find(post.Index, f.Compound, f.Key); g == nil || !alive(*g, id) {
				if f.Compound {
					return "assigned-lost-compound-shard-deleted"
				}
				for _, f2 := range pre.Index {
					if alive(f2, id) && f2.Compound {
						return "assigned-lost-compound-shard-deleted"
					}
				}
				for _, f2 := range pre.Index {
					if alive(f2, id) && find(pre.Trash, f2.Compound, f2.Key) != nil {
						return "assigned-lost-basename-collision"
					}
				}
				return "assigned-lost"
			}
		}
	}
	for _, id := range assigned {
		if searchable(pre.Index, id) || !searchable(pre.Trash, id) || oldTrash(id) {
			continue
		}
		for _, f := range pre.Trash {
			if alive(f, id) {
				if g := find(post.Index, f.Compound, f.Key); g == nil || !alive(*g, id) {
					if find(pre.Index, f.Compound, f.Key) != nil {
						return "assigned-not-restored-basename-collision"
					}
					return "assigned-not-restored"
				}
			}
		}
	}
	for _, f := range post.Index {
		for _, r := range f.Repos {
			if !r.Tomb && !isAssigned[r.ID] {
				return "unassigned-still-searchable"
			}
		}
	}
	for _, f := range pre.Trash {
		if g := find(post.Trash, f.Compound, f.Key); g != nil && fmt.Sprint(g.Repos) == fmt.Sprint(f.Repos) {
			continue
		}
		if g := find(post.Index, f.Compound, f.Key); g != nil && fmt.Sprint(g.Repos) == fmt.Sprint(f.Repos) {
			continue
		}
		justified := false
		for _, r := range f.Repos {
			if !r.Tomb && (oldTrash(r.ID) || searchable(pre.Index, r.ID)) {
				justified = true
			}
		}
		if !justified {
			if find(pre.Index, f.Compound, f.Key) != nil {
				return "trash-deleted-early-basename-collision"
			}
			return "trash-deleted-early"
		}
	}
	if post.Tmps != 0 {
		return "tmp-files-left"
	}
	return ""
}

// ---------- generator ----------

type scenario struct {
	Init     dirState
	Merging  bool
	Steps    []step
	Collide  bool
}

type step struct {
	Assigned []int
	Now      int64
	Add      []file // shards "indexed" into the index directory before this cleanup
}

func mtimeNear(r *gen.Rand, now int64) int64 {
	return now + gen.Pick(r, []int64{-30 * 3600, -25 * 3600, -86400 - 1, -86400, -86400 + 1, -3600, -60, 0, 1, 3600, -2 * 86400})
}

func genScenario(r *gen.Rand) scenario {
	var sc scenario
	sc.Merging = r.Bool()
	sc.Collide = r.Chance(1, 5)
	nids := r.Range(2, 6)
	now := int64(r.Range(100, 200)) * 86400
	ckey := 0
	// a simple shard's basename is a function of the repository *name* and the shard number, as in zoekt
	simple := func(id, name, n int, mtime int64) file {
		return file{Key: name*10 + n, Mtime: mtime, Repos: []repo{{ID: id, Name: name}}, Meta: r.Chance(1, 3)}
	}
	has := func(fs []file, k int) bool {
		for _, f := range fs {
			if !f.Compound && f.Key == k {
				return true
			}
		}
		return false
	}
	for id := 1; id <= nids; id++ {
		if r.Chance(3, 5) {
			for n := r.Range(1, 2) - 1; n >= 0; n-- {
				sc.Init.Index = append(sc.Init.Index, simple(id, id, n, mtimeNear(r, now)))
			}
			if r.Chance(1, 7) { // renamed repository: a shard under the old name is still around
				sc.Init.Index = append(sc.Init.Index, simple(id, id+10, 0, mtimeNear(r, now)))
			}
		}
	}
	for c := r.Intn(3); c > 0; c-- {
		ckey++
		f := file{Compound: true, Key: ckey, Mtime: mtimeNear(r, now)}
		want := r.Range(1, 3)
		seen := map[int]bool{}
		for tries := 0; len(f.Repos) < want && tries < 20; tries++ {
			id := r.Range(1, nids+1)
			if seen[id] {
				continue
			}
			seen[id] = true
			nm := id
			if r.Chance(1, 10) {
				nm = id + 10
			}
			f.Repos = append(f.Repos, repo{ID: id, Name: nm, Tomb: r.Chance(3, 10), Date: int64(r.Range(0, 50))})
		}
		sc.Init.Index = append(sc.Init.Index, f)
	}
	// trash: simple shards only (cleanup never moves a compound shard there)
	for id := 1; id <= nids+1; id++ {
		if r.Chance(2, 5) {
			nm := id
			if sc.Collide && r.Chance(1, 2) {
				nm = r.Range(1, nids) // trashed under a name that another repository may carry now
			}
			for n := r.Range(1, 2) - 1; n >= 0; n-- {
				if !has(sc.Init.Trash, nm*10+n) {
					sc.Init.Trash = append(sc.Init.Trash, simple(id, nm, n, mtimeNear(r, now)))
				}
			}
		}
	}
	sc.Init.Tmps = gen.Pick(r, []int{0, 0, 1, 2})
	for s := r.Range(1, 3); s > 0; s-- {
		var st step
		for id := 1; id <= nids+1; id++ {
			if r.Chance(1, 2) {
				st.Assigned = append(st.Assigned, id)
			}
		}
		if r.Chance(1, 10) {
			st.Assigned = append(st.Assigned, 99)
		}
		gen.Shuffle(r, st.Assigned)
		st.Now = now
		if len(sc.Steps) > 0 && r.Chance(1, 3) && len(st.Assigned) > 0 {
			id := gen.Pick(r, st.Assigned)
			if id != 99 {
				st.Add = append(st.Add, simple(id, id, 2+len(sc.Steps), now-5)) // the indexer wrote a new shard
			}
		}
		sc.Steps = append(sc.Steps, st)
		now += gen.Pick(r, []int64{0, 60, 3600, 23 * 3600, 25 * 3600, 49 * 3600})
	}
	return sc
}

// ---------- end-to-end: which repositories does the real searcher list for this directory? ----------

func listed(root string) (map[int]bool, error) {
	ss, err := search.NewDirectorySearcher(root)
	if err != nil {
		return nil, err
	}
	defer ss.Close()
	ctx, cancel := context.WithTimeout(context.Background(), 20*time.Second)
	defer cancel()
	rl, err := ss.List(ctx, &query.Const{Value: true}, nil)
	if err != nil {
		return nil, err
	}
	out := map[int]bool{}
	for _, e := range rl.Repos {
		out[int(e.Repository.ID)] = true
	}
	return out, nil
}

func main() {
	f := gen.ParseFlags()
	w := gen.NewWriter(f.Out)
	defer w.Close()
	bin := gen.BuildIndexserver("c32")
	proc := gen.StartIxsLineProc(bin, "ZOEKT_VERIF_DRIVER=c32")
	defer proc.Close()
	scratch, err := os.MkdirTemp(gen.IxsWorkDir(), "c32")
	must(err)
	defer os.RemoveAll(scratch)

	runScenario := func(sc scenario, tag string, e2e bool, detail func(i int) json.RawMessage) {
		root, err := os.MkdirTemp(scratch, "idx")
		must(err)
		defer os.RemoveAll(root)
		materialise(root, sc.Init, scratch)
		for i, st := range sc.Steps {
			for _, a := range st.Add {
				writeFile(root, a, scratch)
			}
			pre, anomalies := readDir(root)
			if len(anomalies) > 0 {
				panic(fmt.Sprint("materialisation: ", anomalies))
			}
			m := 0
			if sc.Merging {
				m = 1
			}
			ids := make([]string, len(st.Assigned))
			for j, id := range st.Assigned {
				ids[j] = strconv.Itoa(id)
			}
			asg := "-"
			if len(ids) > 0 {
				asg = strings.Join(ids, ",")
			}
			ans, ok := proc.Do(fmt.Sprintf("cleanup %s %s %d %d", root, asg, (baseUnix+st.Now)*1e9, m))
			if !ok || ans != "ok" {
				w.Emit(gen.Case{Go: tag + ": cleanup crashed: " + ans, Key: "crash", Detail: detail(i)})
				fmt.Fprintln(os.Stderr, "driver died", ans)
				os.Exit(4)
			}
			post, anomalies := readDir(root)
			verdict := oracle(pre, st.Assigned, st.Now, post)
			if verdict == "" && len(anomalies) > 0 {
				verdict = anomalies[0]
			}
			if verdict == "" && e2e {
				// the real searcher must list exactly the repositories the metadata says are alive in the index directory
				got, err := listed(root)
				if err != nil {
					verdict = "searcher-failed"
				} else {
					for id := range got {
						assignedNow := false
						for _, a := range st.Assigned {
							assignedNow = assignedNow || a == id
						}
						if !assignedNow {
							verdict = "unassigned-still-searchable"
						}
					}
					for _, a := range st.Assigned {
						if searchable(post.Index, a) && !got[a] {
							verdict = "assigned-not-listed-by-searcher"
						}
					}
				}
				w.Count("e2e-searcher-checks", 1)
			}
			class := "merging-off"
			if sc.Merging {
				class = "merging-on"
			}
			nComp := 0
			for _, x := range pre.Index {
				if x.Compound {
					nComp++
				}
			}
			c := gen.Case{
				In:         fmt.Sprintf("cleanup %d %d %s %s", m, st.Now, asg, showDir(pre)),
				Impl:       showDir(post),
				Class:      class,
				Nontrivial: showDir(pre) != showDir(post),
				Detail:     detail(i),
			}
			if verdict != "" {
				c.Go, c.Key = tag+": "+verdict, verdict
			}
			w.Emit(c)
			w.Count(fmt.Sprintf("compound-shards-%d", nComp), 1)
			w.Count(fmt.Sprintf("trash-files-%d", min(len(pre.Trash), 4)), 1)
			if showDir(pre) == showDir(post) {
				w.Count("fixpoint", 1)
			}
		}
	}

	if files, _ := filepath.Glob(filepath.Join(f.Corpus, "*.json")); len(files) > 0 {
		sort.Strings(files)
		for _, p := range files {
			b, _ := os.ReadFile(p)
			var sc scenario
			if err := json.Unmarshal(b, &sc); err != nil {
				fmt.Fprintln(os.Stderr, "bad corpus file", p, err)
				os.Exit(5)
			}
			runScenario(sc, "corpus "+filepath.Base(p), true, func(i int) json.RawMessage {
				return gen.Detail(map[string]any{"corpus": filepath.Base(p), "step": i})
			})
		}
	}
	if f.Replay != "" {
		var rp struct {
			Case struct {
				Detail struct {
					Scenario *scenario `json:"scenario"`
				} `json:"detail"`
			} `json:"case"`
		}
		b, err := os.ReadFile(f.Replay)
		if err == nil && json.Unmarshal(b, &rp) == nil && rp.Case.Detail.Scenario != nil {
			sc := *rp.Case.Detail.Scenario
			runScenario(sc, "replay", true, func(i int) json.RawMessage { return gen.Detail(map[string]any{"scenario": sc, "step": i}) })
		}
		return
	}
	r := gen.NewRand(f.Seed)
	n := f.N(200, 2500)
	for k := 0; k < n; k++ {
		sc := genScenario(r)
		runScenario(sc, fmt.Sprintf("scenario %d", k), k%10 == 0, func(i int) json.RawMessage {
			return gen.Detail(map[string]any{"scenario": sc, "step": i})
		})
	}
}
