// C16 harness: real index.Merge / index.Explode on generated shard sets.
//
//   - correspondence: the tables of every input and output shard are dumped (hook index.VerifDumpShard16) and the Lean
//     model of merge/explode/addDocument/ShardBuilder.Add must predict the output tables exactly;
//     the Lean spec (multiset of decoded documents and repositories preserved) is evaluated on the real output;
//   - end to end (Go oracle, no model): the same searches and List are run over the input shards and over the
//     output shard(s) through the public Searcher API and compared field by field.
package main

import (
	"bytes"
	"context"
	"crypto/sha1"
	"encoding/hex"
	"encoding/json"
	"errors"
	"fmt"
	"os"
	"os/exec"
	"path/filepath"
	"sort"
	"strconv"
	"strings"
	"sync"
	"time"
	"unicode/utf8"

	"github.com/sourcegraph/zoekt"
	"github.com/sourcegraph/zoekt/index"
	"github.com/sourcegraph/zoekt/query"

	"verifharness/gen"
)

// ---------------------------------------------------------------- generated input

type docSpec struct {
	Name     string   `json:"name"`
	Content  []byte   `json:"content"`
	Branches []string `json:"branches"`
	SubRepo  string   `json:"subrepo,omitempty"`
	Language string   `json:"language,omitempty"`
	Skip     int      `json:"skip,omitempty"` // index.SkipReason
	Syms     []symSpec `json:"syms,omitempty"`
}

type symSpec struct {
	Start, End       uint32
	Kind, Parent, PK string
	NoMeta           bool
}

type repoSpec struct {
	Name     string    `json:"name"`
	ID       uint32    `json:"id"`
	Prio     int       `json:"prio"`
	Branches []string  `json:"branches"`
	SubRepos []string  `json:"subrepos,omitempty"`
	Docs     []docSpec `json:"docs"`
	ViaBuilder bool    `json:"via_builder,omitempty"` // built with index.Builder instead of ShardBuilder
	Tomb     bool      `json:"tomb,omitempty"`        // tombstoned after building
	FileTombs []string `json:"file_tombstones,omitempty"` // Repository.FileTombstones, written into the .meta sidecar (as a delta build does)
}

type caseSpec struct {
	Repos    []repoSpec `json:"repos"`
	Compound [][]int    `json:"compound,omitempty"` // groups of repo indices pre-merged into compound input shards
	Order    []int      `json:"order,omitempty"`    // order of the input shards on the merge call
	Class    string     `json:"class"`
	CmdPath  bool       `json:"cmd_path,omitempty"` // additionally drive the real zoekt-merge-index binary: merge, re-merge, explode
}

var exts = []string{".go", ".py", ".txt", ".h", ".md", ".xyz", "", ".json", ".c"}
var langsExplicit = []string{"", "", "", "", "Go", "Weird", "Python"}

func genDoc(r *gen.Rand, i int, branches []string, subs []string) docSpec {
	d := docSpec{}
	base := fmt.Sprintf("%s%d%s", gen.Pick(r, []string{"f", "main", "lib/util", "a b", "日本", "x_"}), i, gen.Pick(r, exts))
	if len(subs) > 0 && r.Chance(1, 2) {
		d.SubRepo = gen.Pick(r, subs)
		base = d.SubRepo + "/" + base
	}
	d.Name = base
	switch r.Intn(12) {
	case 0:
		d.Content = nil
	case 1:
		d.Content = append(gen.Text(r, 10, false), 0, 1, 2) // binary: skipped by the builder
	default:
		d.Content = gen.Text(r, r.Range(1, 60), false)
		d.Content = bytes.ReplaceAll(d.Content, []byte{0}, []byte{' '})
		if r.Chance(1, 2) {
			d.Content = append(d.Content, []byte(fmt.Sprintf("\nneedle%d common\n", r.Intn(5)))...)
		}
	}
	// branches: non-empty subset
	for _, b := range branches {
		if r.Chance(1, 2) {
			d.Branches = append(d.Branches, b)
		}
	}
	if len(d.Branches) == 0 {
		d.Branches = []string{gen.Pick(r, branches)}
	}
	d.Language = gen.Pick(r, langsExplicit)
	if r.Chance(1, 15) {
		d.Skip = gen.Pick(r, []int{int(index.SkipReasonTooLarge), int(index.SkipReasonTooManyTrigrams)})
	}
	// symbols: identifiers of the content, on rune boundaries, non-overlapping
	if d.Skip == 0 && bytes.IndexByte(d.Content, 0) < 0 && utf8.Valid(d.Content) && r.Chance(2, 3) {
		pos := 0
		for pos < len(d.Content) && len(d.Syms) < 6 {
			// next identifier start
			for pos < len(d.Content) && !isIdent(d.Content[pos]) {
				pos++
			}
			st := pos
			for pos < len(d.Content) && isIdent(d.Content[pos]) {
				pos++
			}
			if pos > st && r.Chance(1, 2) {
				d.Syms = append(d.Syms, symSpec{Start: uint32(st), End: uint32(pos),
					Kind: gen.Pick(r, []string{"function", "class", "var", ""}), Parent: gen.Pick(r, []string{"", "Outer", "pkg"}),
					PK: gen.Pick(r, []string{"", "class", "package"})})
			}
		}
	}
	return d
}

func isIdent(b byte) bool {
	return b == '_' || (b >= 'a' && b <= 'z') || (b >= 'A' && b <= 'Z') || (b >= '0' && b <= '9')
}

// branch names are drawn from one small pool and listed in a shuffled order, so that repositories of one case
// routinely share a branch name at DIFFERENT positions of their branch lists (and hence different mask bits):
// whatever merge keeps per builder instead of per repository then shows.
var branchPool = []string{"HEAD", "main", "release", "dev", "b1", "b2"}

func genRepo(r *gen.Rand, idx int, manyBranches bool, forceBranches []string) repoSpec {
	rs := repoSpec{
		Name: gen.Pick(r, []string{"repo", "github.com/org/proj", "r", "x-y.z"}) + strconv.Itoa(idx),
		ID:   uint32(100 + idx), Prio: r.Intn(4),
	}
	switch {
	case forceBranches != nil:
		rs.Branches = append(rs.Branches, forceBranches...)
	case manyBranches:
		nb := r.Range(33, 40)
		for i := 0; i < nb; i++ {
			rs.Branches = append(rs.Branches, fmt.Sprintf("b%d", i))
		}
		// the pool's names sit at high, shuffled positions
		gen.Shuffle(r, rs.Branches)
		rs.Branches[nb-1], rs.Branches[nb-2] = "HEAD", "main"
	default:
		pool := append([]string(nil), branchPool...)
		gen.Shuffle(r, pool)
		rs.Branches = pool[:r.Range(1, 4)]
	}
	if r.Chance(1, 3) {
		rs.SubRepos = []string{"sub"}
		if r.Bool() {
			rs.SubRepos = append(rs.SubRepos, "vendor/x")
		}
	}
	nd := r.Range(0, 6)
	if r.Chance(1, 10) {
		nd = 0
	}
	for i := 0; i < nd; i++ {
		rs.Docs = append(rs.Docs, genDoc(r, i, rs.Branches, rs.SubRepos))
	}
	if manyBranches && nd > 0 {
		// make sure a document sits on a high branch
		rs.Docs[0].Branches = []string{rs.Branches[len(rs.Branches)-1], rs.Branches[1]}
	}
	rs.ViaBuilder = r.Chance(1, 8) && len(rs.SubRepos) == 0
	// the older shard of a delta-indexed repository: some of its files are superseded (FileTombstones in the sidecar)
	if len(rs.Docs) >= 2 && r.Chance(1, 4) {
		rs.FileTombs = []string{rs.Docs[r.Intn(len(rs.Docs))].Name}
		if r.Bool() {
			rs.FileTombs = append(rs.FileTombs, "gone/long-ago.txt") // a path the shard does not even hold
		}
	}
	return rs
}

// genCase: case i of the run. The first cases cover every class whatever the seed (the quick tier runs only a few):
// 0 several simple shards, 1 a compound input with a tombstoned member, 2 a repository with more than 32 branches.
func genCase(r *gen.Rand, i int) caseSpec {
	cs := caseSpec{Class: "simple"}
	n := r.Range(1, 5)
	many := i%9 == 8 || i == 2
	if i == 0 {
		n = r.Range(3, 4)
	}
	// the command path runs on a late case: the binary is being built in the background since the start of the run
	cs.CmdPath = i%10 == 6
	if cs.CmdPath && n < 3 {
		n = 3 // the vacuum step of the command path needs a compound shard with at least two repositories
	}
	if i == 1 {
		n = 4
	}
	for k := 0; k < n; k++ {
		var force []string
		if i == 0 && k < 2 {
			// every run: two simple shards whose repositories list the same branches in opposite order
			force = [][]string{{"main", "release", "HEAD"}, {"HEAD", "release", "main"}}[k]
		}
		rs := genRepo(r, k, many && k == 0, force)
		if force != nil {
			// one document on a single shared branch, one on two of them
			for len(rs.Docs) < 2 {
				rs.Docs = append(rs.Docs, genDoc(r, len(rs.Docs), rs.Branches, rs.SubRepos))
			}
			rs.Docs[0].Branches = []string{"main"}
			rs.Docs[1].Branches = []string{"release", "HEAD"}
			if k == 0 {
				rs.FileTombs = []string{rs.Docs[1].Name} // every run: a repository with a superseded file
			}
		}
		cs.Repos = append(cs.Repos, rs)
	}
	if many {
		cs.Class = "many-branches"
	}
	if cs.CmdPath {
		for k := 0; k < 2; k++ {
			for len(cs.Repos[k].Docs) == 0 {
				cs.Repos[k].Docs = append(cs.Repos[k].Docs, genDoc(r, 0, cs.Repos[k].Branches, cs.Repos[k].SubRepos))
			}
		}
	}
	// sometimes pre-merge a group into a compound input and tombstone members
	if n >= 3 && (r.Chance(1, 3) || i == 1) && !many {
		cs.Compound = [][]int{{0, 1, 2}}
		cs.Class = "compound-input"
		for _, k := range []int{0, 1, 2} {
			if r.Chance(1, 3) {
				cs.Repos[k].Tomb = true
			}
		}
		if i == 1 {
			// make sure the tombstone path is exercised: a member with documents is tombstoned, another one stays
			for len(cs.Repos[1].Docs) == 0 {
				cs.Repos[1].Docs = append(cs.Repos[1].Docs, genDoc(r, 0, cs.Repos[1].Branches, cs.Repos[1].SubRepos))
			}
			for len(cs.Repos[0].Docs) == 0 {
				cs.Repos[0].Docs = append(cs.Repos[0].Docs, genDoc(r, 0, cs.Repos[0].Branches, cs.Repos[0].SubRepos))
			}
			cs.Repos[1].Tomb, cs.Repos[0].Tomb = true, false
			cs.Repos[0].FileTombs = []string{cs.Repos[0].Docs[0].Name}
		}
		// where the tombstoned repository sits inside the compound shard matters to anything that looks at
		// repoMetaData[0] only (the priority of the input, "is this shard dead?"): every run (case 1) and half of the
		// random compound inputs tombstone the repository that is stored FIRST (highest priority) and keep a later one
		if i == 1 || r.Bool() {
			first := -1
			for _, k := range []int{1, 0, 2} {
				if len(cs.Repos[k].Docs) > 0 && (i != 1 || k == 1) {
					first = k
					break
				}
			}
			live := -1
			for _, k := range []int{0, 2, 1} {
				if k != first && len(cs.Repos[k].Docs) > 0 {
					live = k
					break
				}
			}
			if first >= 0 && live >= 0 {
				cs.Repos[first].Prio, cs.Repos[first].Tomb = 9, true
				cs.Repos[live].Tomb = false
			}
		}
	}
	// the order of the inputs on the call: merge must not depend on it (beyond ties in priority)
	nIn := n
	if len(cs.Compound) > 0 {
		nIn = n - 2
	}
	if r.Bool() {
		cs.Order = make([]int, nIn)
		for k := range cs.Order {
			cs.Order[k] = k
		}
		gen.Shuffle(r, cs.Order)
	}
	// (index.SetTombstone is only meaningful for compound shards: on a v16 shard it writes a JSON array that the
	// v16 reader cannot parse, so simple inputs are never tombstoned here)
	return cs
}

// ---------------------------------------------------------------- building shards

func repoMeta(rs repoSpec) zoekt.Repository {
	repo := zoekt.Repository{
		Name: rs.Name, ID: rs.ID, URL: "https://example.com/" + rs.Name,
		RawConfig:            map[string]string{"repoid": strconv.Itoa(int(rs.ID)), "priority": strconv.Itoa(rs.Prio), "public": "1"},
		FileURLTemplate:      "{{.URL}}/blob/{{.Version}}/{{.Path}}",
		LineFragmentTemplate: "#L{{.LineNumber}}",
		Rank:                 uint16(rs.Prio * 100),
		Metadata:             map[string]string{"k": rs.Name},
	}
	for i, b := range rs.Branches {
		repo.Branches = append(repo.Branches, zoekt.RepositoryBranch{Name: b, Version: fmt.Sprintf("%s-v%d", rs.Name, i)})
	}
	if len(rs.SubRepos) > 0 {
		repo.SubRepoMap = map[string]*zoekt.Repository{}
		for _, s := range rs.SubRepos {
			repo.SubRepoMap[s] = &zoekt.Repository{Name: rs.Name + "/" + s, URL: "https://example.com/sub/" + s,
				Branches: repo.Branches}
		}
	}
	return repo
}

func toDocument(d docSpec) index.Document {
	doc := index.Document{Name: d.Name, Content: append([]byte(nil), d.Content...), Branches: d.Branches,
		SubRepositoryPath: d.SubRepo, Language: d.Language, SkipReason: index.SkipReason(d.Skip)}
	noMeta := len(d.Syms) > 0 && d.Syms[0].NoMeta
	for _, s := range d.Syms {
		doc.Symbols = append(doc.Symbols, index.DocumentSection{Start: s.Start, End: s.End})
		if !noMeta {
			doc.SymbolsMetaData = append(doc.SymbolsMetaData, &zoekt.Symbol{Sym: string(d.Content[s.Start:s.End]), Kind: s.Kind, Parent: s.Parent, ParentKind: s.PK})
		}
	}
	return doc
}

func buildSimple(dir string, rs repoSpec) (string, error) {
	repo := repoMeta(rs)
	if rs.ViaBuilder {
		opts := index.Options{IndexDir: dir, RepositoryDescription: repo, DisableCTags: true}
		b, err := index.NewBuilder(opts)
		if err != nil {
			return "", err
		}
		for _, d := range rs.Docs {
			if err := b.Add(toDocument(d)); err != nil {
				return "", err
			}
		}
		if err := b.Finish(); err != nil {
			return "", err
		}
		shards := opts.FindAllShards()
		if len(shards) != 1 {
			return "", fmt.Errorf("builder produced %d shards", len(shards))
		}
		return shards[0], nil
	}
	sb, err := index.NewShardBuilder(&repo)
	if err != nil {
		return "", err
	}
	for _, d := range rs.Docs {
		if err := sb.Add(toDocument(d)); err != nil {
			return "", fmt.Errorf("Add %q: %w", d.Name, err)
		}
	}
	p := filepath.Join(dir, fmt.Sprintf("%s_v16.00000.zoekt", strings.NewReplacer("/", "%2F").Replace(rs.Name)))
	f, err := os.Create(p)
	if err != nil {
		return "", err
	}
	defer f.Close()
	if err := sb.Write(f); err != nil {
		return "", err
	}
	return p, f.Close()
}

// setFileTombstones writes Repository.FileTombstones of repository `name` into the shard's .meta sidecar, the way a delta
// build does for the older shards of a repository (index.Builder.Finish: JsonMarshalRepoMetaTemp + rename).
func setFileTombstones(shard, name string, paths []string) error {
	repos, md, err := index.ReadMetadataPath(shard)
	if err != nil {
		return err
	}
	found := false
	for _, r := range repos {
		if r.Name == name {
			found = true
			if r.FileTombstones == nil {
				r.FileTombstones = map[string]struct{}{}
			}
			for _, p := range paths {
				r.FileTombstones[p] = struct{}{}
			}
		}
	}
	if !found {
		return nil // the repository is not in this shard (e.g. dropped as empty)
	}
	var payload any = repos
	if md.IndexFormatVersion < 17 {
		payload = repos[0] // a v16 sidecar holds one repository object
	}
	tmp, final, err := index.JsonMarshalRepoMetaTemp(shard, payload)
	if err != nil {
		return err
	}
	return os.Rename(tmp, final)
}

type opened struct {
	path string
	s    zoekt.Searcher
}

func open(path string) (*opened, error) {
	f, err := os.Open(path)
	if err != nil {
		return nil, err
	}
	inf, err := index.NewIndexFile(f)
	if err != nil {
		f.Close()
		return nil, err
	}
	s, err := index.NewSearcher(inf)
	if err != nil {
		inf.Close()
		return nil, err
	}
	return &opened{path, s}, nil
}

func realMerge(dir string, paths []string) (string, error) {
	var files []index.IndexFile
	var closers []func()
	defer func() {
		for _, c := range closers {
			c()
		}
	}()
	for _, p := range paths {
		f, err := os.Open(p)
		if err != nil {
			return "", err
		}
		inf, err := index.NewIndexFile(f)
		if err != nil {
			f.Close()
			return "", err
		}
		closers = append(closers, inf.Close)
		files = append(files, inf)
	}
	tmp, dst, err := safeMerge(dir, files)
	if err != nil {
		return "", err
	}
	return dst, os.Rename(tmp, dst)
}

func safeMerge(dir string, files []index.IndexFile) (tmp, dst string, err error) {
	defer func() {
		if r := recover(); r != nil {
			err = fmt.Errorf("PANIC in index.Merge: %v", r)
		}
	}()
	return index.Merge(dir, files...)
}

func safeExplode(dir, path string) (err error) {
	defer func() {
		if r := recover(); r != nil {
			err = fmt.Errorf("PANIC in index.Explode: %v", r)
		}
	}()
	return index.Explode(dir, path)
}

// ---------------------------------------------------------------- dump → line protocol

func hx(s string) string { return gen.Hex([]byte(s)) }

func list(xs []string) string {
	if len(xs) == 0 {
		return "_"
	}
	return strings.Join(xs, ",")
}

func redetect(name string, content []byte) string {
	d := index.Document{Name: name, Content: content}
	index.DetermineLanguageIfUnknown(&d)
	return d.Language
}

func encodeShard(d *index.VerifShard16, withRedetect bool) (string, error) {
	var rs, ds []string
	for _, r := range d.Repos {
		js, err := json.Marshal(r.Meta)
		if err != nil {
			return "", err
		}
		h := sha1.Sum(js)
		var bs, sp []string
		for _, b := range r.BranchNames {
			bs = append(bs, hx(b))
		}
		for _, p := range r.SubRepoPaths {
			sp = append(sp, hx(p))
		}
		t := "0"
		if r.Meta.Tombstone {
			t = "1"
		}
		if r.Priority != float64(int(r.Priority)) {
			return "", fmt.Errorf("non-integer priority %v", r.Priority)
		}
		rs = append(rs, fmt.Sprintf("%s:%s:%d:%s:%s:%s", hx(r.Meta.Name), t, int(r.Priority), list(bs), list(sp), hex.EncodeToString(h[:8])))
	}
	for _, doc := range d.Docs {
		var secs, syms []string
		for _, s := range doc.Sections {
			secs = append(secs, fmt.Sprintf("%d-%d", s.Start, s.End))
		}
		for _, s := range doc.Symbols {
			if s == nil {
				syms = append(syms, "nil")
			} else {
				syms = append(syms, hx(s.Kind)+"."+hx(s.Parent)+"."+hx(s.ParentKind))
			}
		}
		e := fmt.Sprintf("%d:%s:%s:%d:%d:%d:%d:%s:%s", doc.Repo, gen.Hex(doc.Name), gen.Hex(doc.Content), doc.BranchMask, doc.SubRepo,
			doc.Language, doc.Category, list(secs), list(syms))
		if withRedetect {
			e += ":" + hx(redetect(string(doc.Name), doc.Content))
		}
		ds = append(ds, e)
	}
	// language table: codes must be dense
	langs := make([]string, len(d.LanguageMap))
	for code, name := range d.LanguageMap {
		if int(code) >= len(langs) {
			return "", fmt.Errorf("language codes are not dense: %v", d.LanguageMap)
		}
		langs[code] = hx(name)
	}
	join := func(xs []string) string {
		if len(xs) == 0 {
			return "_"
		}
		return strings.Join(xs, ";")
	}
	return join(rs) + "~" + join(ds) + "~" + list(langs), nil
}

func dumpPath(path string, withRedetect bool) (string, *index.VerifShard16, error) {
	o, err := open(path)
	if err != nil {
		return "", nil, err
	}
	defer o.s.Close()
	d, err := index.VerifDumpShard16(o.s)
	if err != nil {
		return "", nil, err
	}
	e, err := encodeShard(d, withRedetect)
	return e, d, err
}

// ---------------------------------------------------------------- end-to-end oracle

type fileView struct {
	Repo, File, SubName, SubPath, Version, Language string
	Branches                                        []string
	Content, Checksum                               string
	RepoID                                          uint32
	RepoPrio                                        float64
	Chunks                                          []string
}

func viewOf(fm zoekt.FileMatch) fileView {
	v := fileView{Repo: fm.Repository, File: fm.FileName, SubName: fm.SubRepositoryName, SubPath: fm.SubRepositoryPath,
		Version: fm.Version, Language: fm.Language, Branches: fm.Branches, Content: hex.EncodeToString(fm.Content),
		Checksum: hex.EncodeToString(fm.Checksum), RepoID: fm.RepositoryID, RepoPrio: fm.RepositoryPriority}
	for _, c := range fm.ChunkMatches {
		var rs []string
		for _, r := range c.Ranges {
			rs = append(rs, fmt.Sprintf("%d:%d:%d-%d:%d:%d", r.Start.ByteOffset, r.Start.LineNumber, r.Start.Column, r.End.ByteOffset, r.End.LineNumber, r.End.Column))
		}
		var si []string
		for _, s := range c.SymbolInfo {
			if s == nil {
				si = append(si, "nil")
			} else {
				si = append(si, fmt.Sprintf("%s/%s/%s/%s", s.Sym, s.Kind, s.Parent, s.ParentKind))
			}
		}
		v.Chunks = append(v.Chunks, fmt.Sprintf("%x@%d:%d fn=%v %v %v", c.Content, c.ContentStart.ByteOffset, c.ContentStart.LineNumber, c.FileName, rs, si))
	}
	return v
}

// skip: results of this repository are left out (the expectation after it has been tombstoned); "" = none
func searchAll(ss []zoekt.Searcher, q query.Q, skip string) ([]string, error) {
	var out []string
	for _, s := range ss {
		res, err := s.Search(context.Background(), q, &zoekt.SearchOptions{Whole: true, ChunkMatches: true})
		if err != nil {
			return nil, err
		}
		for _, f := range res.Files {
			if skip != "" && f.Repository == skip {
				continue
			}
			b, _ := json.Marshal(viewOf(f))
			out = append(out, string(b))
		}
	}
	sort.Strings(out)
	return out, nil
}

type repoView struct {
	Repo  zoekt.Repository
	Docs  int
	Bytes int64
	NL    uint64
	NLd   uint64
	NLo   uint64
}

func listAll(ss []zoekt.Searcher, skip string) ([]string, error) {
	var out []string
	for _, s := range ss {
		rl, err := s.List(context.Background(), &query.Const{Value: true}, nil)
		if err != nil {
			return nil, err
		}
		for _, e := range rl.Repos {
			if e.Stats.Documents == 0 || (skip != "" && e.Repository.Name == skip) {
				continue // repositories without documents are outside the property
			}
			b, _ := json.Marshal(repoView{e.Repository, e.Stats.Documents, e.Stats.ContentBytes, e.Stats.NewLinesCount,
				e.Stats.DefaultBranchNewLinesCount, e.Stats.OtherBranchesNewLinesCount})
			out = append(out, string(b))
		}
	}
	sort.Strings(out)
	return out, nil
}

func queries(cs caseSpec) []query.Q {
	qs := []query.Q{
		&query.Const{Value: true},
		&query.Substring{Pattern: "needle", Content: true},
		&query.Substring{Pattern: "common", Content: true, CaseSensitive: true},
		&query.Substring{Pattern: "foo"},
		&query.Substring{Pattern: "main", FileName: true},
		&query.Substring{Pattern: "sub/", FileName: true},
		&query.Substring{Pattern: "NOT-INDEXED", Content: true, CaseSensitive: true},
		&query.Branch{Pattern: "b1"},
		&query.Branch{Pattern: "HEAD", Exact: true},
		&query.Branch{Pattern: "main", Exact: true},
		&query.Branch{Pattern: "release"},
		&query.Branch{Pattern: "dev"},
		&query.Language{Language: "Go"},
		&query.Language{Language: "Weird"},
		&query.Language{Language: "Text"},
		&query.Symbol{Expr: &query.Substring{Pattern: "a", Content: true}},
		&query.Symbol{Expr: &query.Substring{Pattern: "foo", Content: true}},
	}
	if re, err := query.Parse("ba[rz] file:\\.(go|py)$"); err == nil {
		qs = append(qs, re)
	}
	if re, err := query.Parse("r:org bar"); err == nil {
		qs = append(qs, re)
	}
	if len(cs.Repos) > 0 && len(cs.Repos[0].Branches) > 33 {
		qs = append(qs, &query.Branch{Pattern: cs.Repos[0].Branches[len(cs.Repos[0].Branches)-1], Exact: true})
	}
	for _, src := range []string{"r:proj", "lang:python", "sym:bar", "foo -file:\\.txt$", "branch:b2 needle", "case:yes Foo", "f:lib/ main"} {
		if q, err := query.Parse(src); err == nil {
			qs = append(qs, q)
		}
	}
	return qs
}

func diff(a, b []string) string {
	if len(a) != len(b) {
		return fmt.Sprintf("%d results before, %d after%s", len(a), len(b), firstDiff(a, b))
	}
	for i := range a {
		if a[i] != b[i] {
			return fmt.Sprintf("result %d differs: before %s after %s", i, clip(a[i]), clip(b[i]))
		}
	}
	return ""
}

func firstDiff(a, b []string) string {
	in := map[string]int{}
	for _, x := range a {
		in[x]++
	}
	for _, x := range b {
		in[x]--
	}
	for k, v := range in {
		if v > 0 {
			return "; only before: " + clip(k)
		}
		if v < 0 {
			return "; only after: " + clip(k)
		}
	}
	return ""
}

func clip(s string) string {
	if len(s) > 500 {
		return s[:500] + "…"
	}
	return s
}

// compare searches and List over two shard sets
func e2e(cs caseSpec, before, after []string, tombstoned ...string) (msg string, key string) {
	skip := ""
	if len(tombstoned) > 0 {
		skip = tombstoned[0] // a repository tombstoned since `before` was written: expected to be gone afterwards
	}
	// a search over a corrupted output shard may panic inside the searcher: that is a finding, not a harness failure
	defer func() {
		if r := recover(); r != nil {
			msg, key = fmt.Sprintf("PANIC while searching / listing: %v", r), "e2e-panic"
		}
	}()
	openAll := func(paths []string) ([]zoekt.Searcher, error) {
		var ss []zoekt.Searcher
		for _, p := range paths {
			o, err := open(p)
			if err != nil {
				return nil, fmt.Errorf("%s: %w", filepath.Base(p), err)
			}
			ss = append(ss, o.s)
		}
		return ss, nil
	}
	bs, err := openAll(before)
	if err != nil {
		return "cannot load input: " + err.Error(), "e2e-load"
	}
	defer func() {
		for _, s := range bs {
			s.Close()
		}
	}()
	as, err := openAll(after)
	if err != nil {
		return "cannot load output: " + err.Error(), "e2e-load"
	}
	defer func() {
		for _, s := range as {
			s.Close()
		}
	}()
	lb, err1 := listAll(bs, skip)
	la, err2 := listAll(as, "")
	if err1 != nil || err2 != nil {
		return fmt.Sprintf("List failed: %v %v", err1, err2), "e2e-list"
	}
	if d := diff(lb, la); d != "" {
		return "List: " + d, "e2e-list"
	}
	for _, q := range queries(cs) {
		rb, err1 := searchAll(bs, q, skip)
		ra, err2 := searchAll(as, q, "")
		if err1 != nil || err2 != nil {
			return fmt.Sprintf("Search %s failed: %v %v", q, err1, err2), "e2e-search"
		}
		if d := diff(rb, ra); d != "" {
			return fmt.Sprintf("Search %s: %s", q, d), "e2e-search"
		}
	}
	return "", ""
}

// ---------------------------------------------------------------- one case

func runCase(work string, cs caseSpec, id int) ([]gen.Case, error) {
	dir := filepath.Join(work, fmt.Sprintf("c%05d", id))
	os.RemoveAll(dir)
	defer os.RemoveAll(dir)
	var out []gen.Case
	// 1. simple shards, each in its own directory (names may collide across builders otherwise)
	paths := make([]string, len(cs.Repos))
	for i, rs := range cs.Repos {
		sub := filepath.Join(dir, fmt.Sprintf("s%d", i))
		if err := os.MkdirAll(sub, 0o755); err != nil {
			return nil, err
		}
		p, err := buildSimple(sub, rs)
		if err != nil {
			return nil, fmt.Errorf("building %s: %w", rs.Name, err)
		}
		paths[i] = p
	}
	// 2. inputs: compound groups are pre-merged with the library
	var inputs []string
	used := map[int]bool{}
	for gi, g := range cs.Compound {
		var ps []string
		for _, k := range g {
			ps = append(ps, paths[k])
			used[k] = true
		}
		sub := filepath.Join(dir, fmt.Sprintf("g%d", gi))
		os.MkdirAll(sub, 0o755)
		c, err := realMerge(sub, ps)
		if err != nil {
			// the set-up merge is the code under test too: report it as a failing case instead of aborting
			key := "merge-error"
			if strings.Contains(err.Error(), "no branch found") {
				key = "merge-error-no-branch-found"
			}
			return []gen.Case{{Class: "merge/" + cs.Class + "/setup", Go: "merge of the compound input failed: " + err.Error(),
				Key: key, Detail: gen.Detail(cs)}}, nil
		}
		if o, err := open(c); err != nil && errors.Is(err, index.ErrEmptyShard) {
			// every member was empty: the compound shard has no repositories and cannot be an input of anything
			continue
		} else if err == nil {
			o.s.Close()
		}
		for _, k := range g {
			if len(cs.Repos[k].FileTombs) > 0 {
				if err := setFileTombstones(c, cs.Repos[k].Name, cs.Repos[k].FileTombs); err != nil {
					return nil, err
				}
			}
			if cs.Repos[k].Tomb && len(cs.Repos[k].Docs) > 0 {
				if err := index.SetTombstone(c, cs.Repos[k].ID); err != nil {
					return nil, err
				}
			}
		}
		inputs = append(inputs, c)
	}
	for i := range cs.Repos {
		if used[i] {
			continue
		}
		if len(cs.Repos[i].FileTombs) > 0 {
			if err := setFileTombstones(paths[i], cs.Repos[i].Name, cs.Repos[i].FileTombs); err != nil {
				return nil, err
			}
		}
		inputs = append(inputs, paths[i])
	}
	if len(cs.Order) == len(inputs) {
		re := make([]string, len(inputs))
		for i, k := range cs.Order {
			re[i] = inputs[k]
		}
		inputs = re
	}
	detail := gen.Detail(cs)
	if len(inputs) == 0 {
		return nil, nil
	}

	// 3. merge
	var inDumps []string
	for _, p := range inputs {
		e, _, err := dumpPath(p, true)
		if err != nil {
			return nil, fmt.Errorf("dump %s: %w", p, err)
		}
		inDumps = append(inDumps, e)
	}
	mdir := filepath.Join(dir, "merged")
	os.MkdirAll(mdir, 0o755)
	merged, merr := realMerge(mdir, inputs)
	mc := gen.Case{In: "merge " + strings.Join(inDumps, "#"), Class: "merge/" + cs.Class, Detail: detail, Nontrivial: len(inputs) > 1}
	if merr != nil {
		mc.Impl = "err"
		mc.Go = "merge failed: " + merr.Error()
		mc.Key = "merge-error"
		if strings.Contains(merr.Error(), "no branch found") {
			mc.Key = "merge-error-no-branch-found"
		}
		if strings.Contains(merr.Error(), "PANIC") {
			mc.Key = "merge-panic"
			for _, rs := range cs.Repos {
				for _, d := range rs.Docs {
					if len(d.Syms) > 0 && d.Syms[0].NoMeta {
						mc.Key = "merge-panic-sections-without-metadata"
					}
				}
			}
		}
		out = append(out, mc)
		return out, nil
	}
	mdump, _, err := dumpPath(merged, false)
	if err != nil && errors.Is(err, index.ErrEmptyShard) {
		// every input repository was empty or tombstoned: index.merge wrote a shard without repositories, which no
		// reader loads. Nothing had to be preserved; the model's answer is the empty shard.
		mc.Impl = "ok _~_~_"
		mc.Class += "/empty-output"
		out = append(out, mc)
		return out, nil
	}
	if err != nil {
		mc.Impl = "err"
		mc.Go = "merged shard does not load: " + err.Error()
		mc.Key = "merged-unloadable"
		out = append(out, mc)
		return out, nil
	}
	mc.Impl = "ok " + mdump
	if g, k := e2e(cs, inputs, []string{merged}); g != "" {
		mc.Go, mc.Key = "merge: "+g, "merge-"+k
	}
	out = append(out, mc)

	// 4. explode the merged shard
	ec, err := explodeCase(cs, merged, filepath.Join(dir, "exploded"), "explode/"+cs.Class, inputs, detail)
	if err != nil {
		return nil, err
	}
	out = append(out, ec)

	// 5. explode a compound *input* directly: its tombstones come from the .meta sidecar
	if len(cs.Compound) > 0 && len(inputs) > 0 {
		for _, p := range inputs {
			if strings.HasPrefix(filepath.Base(p), "compound-") {
				dc, err := explodeCase(cs, p, filepath.Join(dir, "exploded-input"), "explode/compound-input-direct", nil, detail)
				if err != nil {
					return nil, err
				}
				out = append(out, dc)
				break
			}
		}
	}

	// 6. the command: zoekt-merge-index merge / merge again (onto its own name) / explode, in one index directory
	if cs.CmdPath {
		t0 := time.Now()
		out = append(out, cmdCases(cs, inputs, filepath.Join(dir, "cmd"), detail)...)
		fmt.Fprintf(os.Stderr, "c16: command path (build + merge, re-merge, tombstone + vacuum, explode): %v\n", time.Since(t0).Round(time.Millisecond))
	}
	return out, nil
}

var (
	binOnce sync.Once
	binPath string
	binErr  error
)

// mergeIndexBinary builds the real command from the working tree (once per run; the Go build cache makes it cheap).
func mergeIndexBinary() (string, error) {
	binOnce.Do(func() {
		root, work := os.Getenv("VERIF_ROOT"), os.Getenv("VERIF_WORK")
		if root == "" || work == "" {
			binErr = fmt.Errorf("VERIF_ROOT / VERIF_WORK not set")
			return
		}
		binPath = filepath.Join(work, "c16-zoekt-merge-index")
		cmd := exec.Command("go", "build", "-tags", "verif", "-o", binPath, "github.com/sourcegraph/zoekt/cmd/zoekt-merge-index")
		cmd.Dir = filepath.Join(root, "harness")
		if out, err := cmd.CombinedOutput(); err != nil {
			binErr = fmt.Errorf("building zoekt-merge-index: %v: %s", err, out)
		}
	})
	return binPath, binErr
}

func zoektFiles(dir string) []string {
	ents, _ := os.ReadDir(dir)
	var ps []string
	for _, e := range ents {
		if strings.HasSuffix(e.Name(), ".zoekt") {
			ps = append(ps, filepath.Join(dir, e.Name()))
		}
	}
	return ps
}

// cmdCases: the end-to-end path through the command. The input shards (and sidecars) are hard-linked into a pristine
// directory (the "before" side of every comparison) and into an index directory on which the real binary runs
//   merge <all inputs>;  merge <the compound shard>  (a re-merge: without tombstones the name does not change);  explode.
// After each step every *.zoekt file of the index directory must show exactly what the inputs showed.
func cmdCases(cs caseSpec, inputs []string, dir string, detail json.RawMessage) []gen.Case {
	mk := func(step, g, k string) gen.Case {
		c := gen.Case{Class: "cmd/" + step, Detail: detail, Nontrivial: true}
		if g != "" {
			c.Go, c.Key = "zoekt-merge-index "+step+": "+g, "cmd-"+step+"-"+k
		}
		return c
	}
	bin, err := mergeIndexBinary()
	if err != nil {
		return []gen.Case{mk("setup", err.Error(), "build")}
	}
	orig, idx := filepath.Join(dir, "orig"), filepath.Join(dir, "index")
	os.MkdirAll(orig, 0o755)
	os.MkdirAll(idx, 0o755)
	var before, args []string
	for i, p := range inputs {
		// inputs of one case live in different directories and may share a file name only if they share a repository name
		name := filepath.Base(p)
		for _, d := range []string{orig, idx} {
			if err := os.Link(p, filepath.Join(d, name)); err != nil {
				return []gen.Case{mk("setup", fmt.Sprintf("input %d: %v", i, err), "link")}
			}
			if _, err := os.Stat(p + ".meta"); err == nil {
				os.Link(p+".meta", filepath.Join(d, name+".meta"))
			}
		}
		before = append(before, filepath.Join(orig, name))
		args = append(args, filepath.Join(idx, name))
	}
	run := func(a ...string) (string, string, error) {
		ctx, cancel := context.WithTimeout(context.Background(), 3*time.Minute)
		defer cancel()
		cmd := exec.CommandContext(ctx, bin, a...)
		var so, se bytes.Buffer
		cmd.Stdout, cmd.Stderr = &so, &se
		err := cmd.Run()
		return strings.TrimSpace(so.String()), se.String(), err
	}
	dead := ""
	compare := func(step string) gen.Case {
		after := zoektFiles(idx)
		if g, k := e2e(cs, before, after, dead); g != "" {
			return mk(step, fmt.Sprintf("%s (index directory now holds %d shard file(s))", g, len(after)), k)
		}
		ents, _ := os.ReadDir(idx)
		for _, e := range ents {
			if !strings.HasSuffix(e.Name(), ".zoekt") && !strings.HasSuffix(e.Name(), ".zoekt.meta") {
				return mk(step, "left "+e.Name()+" behind", "leftover")
			}
		}
		return mk(step, "", "")
	}
	var out []gen.Case
	// merge
	printed, stderr, err := run(append([]string{"merge"}, args...)...)
	if err != nil {
		// a merge that fails must leave the inputs alone
		c := compare("merge-failed")
		if c.Go == "" && !strings.Contains(stderr, "need 1 or more") {
			c.Go, c.Key = "zoekt-merge-index merge failed: "+clip(stderr), "cmd-merge-error"
		}
		return append(out, c)
	}
	out = append(out, compare("merge"))
	if _, serr := os.Stat(printed); serr != nil {
		// every input repository was empty: nothing to continue with
		return out
	}
	if _, _, oerr := dumpPath(printed, false); oerr != nil {
		return out // compound shard without repositories (all inputs empty): not loadable, nothing to re-merge
	}
	// merge again: the compound shard alone. The name of a compound shard is a hash of the live repository names of its
	// inputs, so re-merging a compound shard that has neither tombstoned nor empty repositories writes the new shard
	// under the name of its own input. The first merge may still have seen empty repositories (they count for the name
	// but are not copied); repeat until the name is stable, so that every run covers the same-name re-merge.
	printed2 := printed
	for round := 1; round <= 3; round++ {
		prev := printed2
		var stderr string
		printed2, stderr, err = run("merge", prev)
		if err != nil {
			c := compare("remerge-failed")
			if c.Go == "" {
				c.Go, c.Key = "zoekt-merge-index merge <compound> failed: "+clip(stderr), "cmd-remerge-error"
			}
			return append(out, c)
		}
		step := "remerge"
		if printed2 == prev {
			step = "remerge-same-name"
		}
		c := compare(step)
		if c.Go == "" {
			if _, serr := os.Stat(printed2); serr != nil {
				c.Go, c.Key = "the printed compound shard "+filepath.Base(printed2)+" does not exist", "cmd-"+step+"-missing-output"
			}
		}
		out = append(out, c)
		if c.Go != "" {
			return out
		}
		if printed2 == prev {
			break
		}
	}
	// vacuum (indexserver's removeTombstones): tombstone the repository stored FIRST in the compound shard and merge the
	// compound shard with itself; every other repository must survive, the tombstoned one must be gone
	if repos, _, rerr := index.ReadMetadataPath(printed2); rerr == nil && len(repos) >= 2 {
		if err := index.SetTombstone(printed2, repos[0].ID); err != nil {
			return append(out, mk("vacuum-setup", err.Error(), "tombstone"))
		}
		dead = repos[0].Name
		out = append(out, compare("tombstone-first"))
		printed3, stderr, err := run("merge", printed2)
		if err != nil {
			c := compare("vacuum-failed")
			if c.Go == "" {
				c.Go, c.Key = "zoekt-merge-index merge <compound with tombstone> failed: "+clip(stderr), "cmd-vacuum-error"
			}
			return append(out, c)
		}
		c := compare("vacuum")
		out = append(out, c)
		if c.Go != "" {
			return out
		}
		printed2 = printed3
	}
	// explode
	if _, stderr, err := run("explode", printed2); err != nil {
		c := compare("explode-failed")
		if c.Go == "" {
			c.Go, c.Key = "zoekt-merge-index explode failed: "+clip(stderr), "cmd-explode-error"
		}
		return append(out, c)
	}
	return append(out, compare("explode"))
}

// explodeCase copies the compound shard src (and its sidecar) into edir, runs the real index.Explode there and
// compares tables (model) and searches/List (end to end) before and after. alsoBefore: an additional shard set that
// must show the same content (the inputs the compound shard was merged from).
func explodeCase(cs caseSpec, src, edir, class string, alsoBefore []string, detail json.RawMessage) (gen.Case, error) {
	if err := os.MkdirAll(edir, 0o755); err != nil {
		return gen.Case{}, err
	}
	// the untouched original stays available for the "before" searches
	ecopy := filepath.Join(edir, filepath.Base(src))
	if err := os.Link(src, ecopy); err != nil {
		return gen.Case{}, err
	}
	if _, err := os.Stat(src + ".meta"); err == nil {
		if err := os.Link(src+".meta", ecopy+".meta"); err != nil {
			return gen.Case{}, err
		}
	}
	edump, stables, err := dumpPath(ecopy, true)
	if err != nil {
		return gen.Case{}, err
	}
	ec := gen.Case{In: "explode " + edump, Class: class, Detail: detail, Nontrivial: len(stables.Repos) > 1}
	if err := safeExplode(edir, ecopy); err != nil {
		ec.Impl = "err"
		ec.Go = "explode failed: " + err.Error()
		ec.Key = "explode-error"
		return ec, nil
	}
	ents, _ := os.ReadDir(edir)
	type od struct{ key, dump string }
	var ods []od
	var epaths []string
	for _, e := range ents {
		if !strings.HasSuffix(e.Name(), ".zoekt") {
			ec.Go, ec.Key = "explode left "+e.Name()+" behind", "explode-leftover"
			continue
		}
		p := filepath.Join(edir, e.Name())
		d, t, err := dumpPath(p, false)
		if err != nil {
			ec.Go, ec.Key = "exploded shard does not load: "+err.Error(), "exploded-unloadable"
			continue
		}
		k := ""
		if len(t.Repos) > 0 {
			k = hx(t.Repos[0].Meta.Name)
		}
		ods = append(ods, od{k, d})
		epaths = append(epaths, p)
	}
	// the model lists the output shards in the compound shard's repository order
	orderIdx := map[string]int{}
	for i, r := range stables.Repos {
		orderIdx[hx(r.Meta.Name)] = i
	}
	sort.SliceStable(ods, func(a, b int) bool { return orderIdx[ods[a].key] < orderIdx[ods[b].key] })
	var ds []string
	for _, o := range ods {
		ds = append(ds, o.dump)
	}
	if len(ds) == 0 {
		ec.Impl = "ok -"
	} else {
		ec.Impl = "ok " + strings.Join(ds, "#")
	}
	if ec.Go == "" {
		if g, k := e2e(cs, []string{src}, epaths); g != "" {
			ec.Go, ec.Key = "explode: "+g, "explode-"+k
		} else if alsoBefore != nil {
			if g, k := e2e(cs, alsoBefore, epaths); g != "" {
				ec.Go, ec.Key = "explode∘merge: "+g, "roundtrip-"+k
			}
		}
	}
	return ec, nil
}

func main() {
	f := gen.ParseFlags()
	w := gen.NewWriter(f.Out)
	defer w.Close()
	work := os.Getenv("VERIF_WORK")
	if work == "" {
		work = os.TempDir()
	}
	work = filepath.Join(work, "c16")
	os.RemoveAll(work)
	os.MkdirAll(work, 0o755)
	defer os.RemoveAll(work)

	run := func(cs caseSpec, id int) {
		cases, err := runCase(work, cs, id)
		if err != nil {
			fmt.Fprintln(os.Stderr, "c16: harness error:", err)
			os.Exit(3)
		}
		for _, c := range cases {
			w.Emit(c)
		}
		// distribution of what the generated inputs exercise
		for _, g := range cs.Compound {
			// the member stored first: highest priority among those with documents (ties keep the input order)
			first, others := -1, false
			for _, k := range g {
				if len(cs.Repos[k].Docs) == 0 {
					continue
				}
				if first < 0 || cs.Repos[k].Prio > cs.Repos[first].Prio {
					first = k
				}
			}
			for _, k := range g {
				if k != first && len(cs.Repos[k].Docs) > 0 && !cs.Repos[k].Tomb {
					others = true
				}
			}
			if first >= 0 && cs.Repos[first].Tomb && others {
				w.Count("compound-inputs-whose-first-repository-is-tombstoned-and-a-later-one-is-live", 1)
			}
		}
		pos := map[string]int{}
		shared := false
		for _, rs := range cs.Repos {
			for i, b := range rs.Branches {
				if j, ok := pos[b]; ok && j != i {
					shared = true
				}
				pos[b] = i
			}
		}
		if shared {
			w.Count("cases-with-a-branch-name-at-different-positions-in-two-repositories", 1)
		}
		for _, rs := range cs.Repos {
			w.Count("repos", 1)
			if rs.Tomb {
				w.Count("repos-tombstoned", 1)
			}
			if len(rs.Docs) == 0 {
				w.Count("repos-empty", 1)
			}
			if rs.ViaBuilder {
				w.Count("repos-via-index.Builder", 1)
			}
			if len(rs.FileTombs) > 0 {
				w.Count("repos-with-file-tombstones", 1)
			}
			if len(rs.SubRepos) > 0 {
				w.Count("repos-with-subrepos", 1)
			}
			if len(rs.Branches) > 32 {
				w.Count("repos-over-32-branches", 1)
			}
			for _, d := range rs.Docs {
				w.Count("docs", 1)
				if d.Skip != 0 || bytes.IndexByte(d.Content, 0) >= 0 {
					w.Count("docs-skipped", 1)
				}
				if d.SubRepo != "" {
					w.Count("docs-in-subrepo", 1)
				}
				if len(d.Syms) > 0 {
					w.Count("docs-with-symbols", 1)
				}
				if d.Language != "" {
					w.Count("docs-language-preset", 1)
				}
				if len(d.Branches) > 1 {
					w.Count("docs-on-several-branches", 1)
				}
			}
		}
	}
	load := func(path string) (caseSpec, error) {
		var rf struct {
			Case struct {
				Detail caseSpec `json:"detail"`
			} `json:"case"`
			Spec *caseSpec `json:"spec"`
		}
		b, err := os.ReadFile(path)
		if err != nil {
			return caseSpec{}, err
		}
		if err := json.Unmarshal(b, &rf); err != nil {
			return caseSpec{}, err
		}
		if rf.Spec != nil {
			return *rf.Spec, nil
		}
		return rf.Case.Detail, nil
	}
	id := 0
	if f.Replay != "" {
		cs, err := load(f.Replay)
		if err != nil {
			panic(err)
		}
		run(cs, id)
		return
	}
	if f.Corpus != "" {
		files, _ := filepath.Glob(filepath.Join(f.Corpus, "*.json"))
		sort.Strings(files)
		for _, cf := range files {
			cs, err := load(cf)
			if err != nil {
				fmt.Fprintln(os.Stderr, "c16: corpus:", err)
				os.Exit(3)
			}
			run(cs, id)
			id++
		}
	}
	r := gen.NewRand(f.Seed)
	n := f.N(7, 220)
	t0 := time.Now()
	go mergeIndexBinary() // linked while the first cases run
	for i := 0; i < n; i++ {
		run(genCase(r, i), id)
		id++
	}
	fmt.Fprintf(os.Stderr, "c16: %d generated cases in %v\n", n, time.Since(t0).Round(time.Millisecond))
}
