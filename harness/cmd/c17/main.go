// C17 harness: real compound shards (index.Merge of real simple shards) and a real delta-built shard with file
// tombstones; random histories of index.SetTombstone / index.UnsetTombstone executed by a child process whose sidecar
// renames fail periodically (strace inject, no source change); after every operation the shard is re-read from disk
// (index.ReadMetadataPath, index.NewSearcher, search.NewDirectorySearcher) and searched / listed with generated queries.
//   - `step`/`hist` cases: the set/unset state machine against the Lean model, checkStep/checkHist on the real state
//   - `search`/`list` cases: per-shard results against the model and checkSearch/checkList
//   - Go oracle (no zoekt code): a naive evaluator over the harness's own corpus says which (repo, file) pairs and which
//     repositories a directory searcher must return given the operations that *reported success*.
package main

import (
	"context"
	"encoding/json"
	"fmt"
	"io"
	"log"
	"os"
	"path/filepath"
	"regexp"
	"regexp/syntax"
	"runtime"
	"runtime/pprof"
	"sort"
	"strings"
	"sync"
	"syscall"

	gregexp "github.com/grafana/regexp"
	"github.com/sourcegraph/zoekt"
	"github.com/sourcegraph/zoekt/index"
	"github.com/sourcegraph/zoekt/query"
	"github.com/sourcegraph/zoekt/search"

	"verifharness/f1util"
	"verifharness/gen"
)

func init() {
	if len(os.Args) > 1 && os.Args[1] == "child" {
		runtime.LockOSThread()
	}
}

type tombReq struct {
	Op      string // "" = set/unset a tombstone; "load" = open the shard and load it
	Shard   string
	ID      uint32
	Set     bool
	Exhaust bool // load: no file descriptor is available while the metadata is parsed (the sidecar cannot be opened)
}

type loadReply struct {
	Err    string
	Repos  []*zoekt.Repository // metadata as parsed (index.ReadMetadata)
	Listed []uint32            // IDs returned by List(Const true) of the loaded searcher
	Files  [][2]string         // (repository, file) returned by Search(Const true)
	FileID []uint32            // repository ID of each of them
}

// childLoad opens the shard the way search.loadShard does and then parses its metadata / loads it while (Exhaust) the
// process cannot open another file: the sidecar is intact on disk but momentarily unreadable (EMFILE).
func childLoad(r tombReq) loadReply {
	f, err := os.Open(r.Shard)
	if err != nil {
		return loadReply{Err: "open: " + err.Error()}
	}
	inf, err := index.NewIndexFile(f)
	if err != nil {
		f.Close()
		return loadReply{Err: "mmap: " + err.Error()}
	}
	var old syscall.Rlimit
	if r.Exhaust {
		syscall.Getrlimit(syscall.RLIMIT_NOFILE, &old)
		syscall.Setrlimit(syscall.RLIMIT_NOFILE, &syscall.Rlimit{Cur: 0, Max: old.Max})
	}
	repos, _, merr := index.ReadMetadata(inf)
	s, serr := index.NewSearcher(inf)
	if r.Exhaust {
		syscall.Setrlimit(syscall.RLIMIT_NOFILE, &old)
	}
	if merr != nil || serr != nil {
		if serr == nil {
			s.Close()
		} else {
			inf.Close()
		}
		return loadReply{Err: fmt.Sprintf("metadata: %v; searcher: %v", merr, serr)}
	}
	defer s.Close()
	rep := loadReply{Repos: repos}
	ctx := context.Background()
	if rl, err := s.List(ctx, &query.Const{Value: true}, nil); err == nil {
		for _, e := range rl.Repos {
			rep.Listed = append(rep.Listed, e.Repository.ID)
		}
	}
	if res, err := s.Search(ctx, &query.Const{Value: true}, &zoekt.SearchOptions{}); err == nil {
		for _, fm := range res.Files {
			rep.Files = append(rep.Files, [2]string{fm.Repository, fm.FileName})
			rep.FileID = append(rep.FileID, fm.RepositoryID)
		}
	}
	return rep
}

func childMain() {
	f1util.ChildMain(func(req json.RawMessage) any {
		var r tombReq
		if err := json.Unmarshal(req, &r); err != nil {
			return map[string]string{"err": "bad request"}
		}
		if r.Op == "load" {
			return childLoad(r)
		}
		var err error
		if r.Set {
			err = index.SetTombstone(r.Shard, r.ID)
		} else {
			err = index.UnsetTombstone(r.Shard, r.ID)
		}
		if err != nil {
			return map[string]string{"err": err.Error()}
		}
		return map[string]string{"err": ""}
	})
}

func must(err error) {
	if err != nil {
		panic(err)
	}
}

// ---------------------------------------------------------------- corpus

type cdoc struct {
	repo    string
	name    string
	content string
	rid     uint32 // repository ID (two entries of a shard may share a name)
}

type crepo struct {
	name string
	id   uint32
}

var words = []string{"alpha", "beta", "gamma", "delta", "omega", "kappa", "sigma", "lambda"}

type world struct {
	dir      string
	compound string // path of the compound shard
	repos    []crepo
	docs     []cdoc              // every document of the directory that should be visible when nothing is tombstoned
	hiddenBy map[string][]string // repo -> file-tombstoned paths (old versions live in the older shard)
	allDocs  []cdoc              // including old versions of changed files (shard-level corpus)
	believed map[uint32]bool     // tombstone flag according to the operations that reported success
	deltaID  uint32
	part     map[string]int // repo\x00file -> which simple shard of its repository the document was built into
	splitID  uint32         // the repository that was built as several shards before the merge (0 = none)
	twinIDs  [2]uint32      // old and new ID of the repository that was re-created under its old name (0,0 = none)
}

func mkContent(r *gen.Rand, name string) string {
	var sb strings.Builder
	sb.WriteString("file " + name + "\n")
	for i := 0; i < 2+r.Intn(4); i++ {
		sb.WriteString(gen.Pick(r, words))
		if r.Bool() {
			sb.WriteString(" ")
		} else {
			sb.WriteString("\n")
		}
	}
	sb.WriteString("\n")
	return sb.String()
}

func buildWorld(root string, r *gen.Rand, n int) *world {
	w := &world{dir: filepath.Join(root, fmt.Sprintf("world%d", n)), believed: map[uint32]bool{}, hiddenBy: map[string][]string{}, part: map[string]int{}}
	stage := w.dir + ".stage"
	must(os.MkdirAll(w.dir, 0o755))
	must(os.MkdirAll(stage, 0o755))
	k := 3 + r.Intn(3)
	// in 3 of 5 worlds (always in world 0) one repository is large enough to be built as two or three simple shards:
	// after the merge the compound shard holds that repository ID in several entries
	split := -1
	if n == 0 || r.Chance(3, 5) {
		split = r.Intn(k)
	}
	for i := 0; i < k; i++ {
		rp := crepo{name: fmt.Sprintf("org/r%d", i+1), id: uint32(i + 1)}
		if r.Chance(1, 4) {
			rp.name = fmt.Sprintf("org/r%d-%s", i+1, gen.Pick(r, words))
		}
		w.repos = append(w.repos, rp)
		var docs []f1util.Doc
		nd := 2 + r.Intn(3)
		if i == split {
			nd = 4 + r.Intn(2)
		}
		for j := 0; j < nd; j++ {
			name := fmt.Sprintf("%s/f%d.%s", gen.Pick(r, []string{"src", "lib", "cmd"}), j, gen.Pick(r, []string{"go", "txt"}))
			d := cdoc{repo: rp.name, name: name, content: mkContent(r, name), rid: rp.id}
			if j == 0 {
				d.content += fmt.Sprintf("uniq%dtoken\n", rp.id) // occurs in this repository only
			}
			w.docs = append(w.docs, d)
			w.allDocs = append(w.allDocs, d)
			docs = append(docs, f1util.Doc{Name: d.name, Content: d.content})
		}
		shardMax := 1 << 20
		if i == split {
			shardMax = len(docs[0].Name) + len(docs[0].Content) + len(docs[1].Name) + len(docs[1].Content) - 1
			w.splitID = rp.id
		}
		for pi, part := range f1util.PredictShards(docs, shardMax, false) {
			for _, d := range part {
				w.part[rp.name+"\x00"+d.Name] = pi
			}
		}
		must(f1util.RunBuild(f1util.BuildSpec{Dir: stage, RepoName: rp.name, RepoID: rp.id, Gen: 1, ShardMax: shardMax, Docs: docs}))
	}
	// in half of the worlds (always in world 1) one repository was deleted and re-created: the compound shard holds a
	// second entry with the same name under a new ID, with its own files
	stages := []string{stage}
	if n == 1 || r.Chance(1, 2) {
		orig := w.repos[r.Intn(k)]
		rp := crepo{name: orig.name, id: 100 + orig.id}
		w.repos = append(w.repos, rp)
		w.twinIDs = [2]uint32{orig.id, rp.id}
		var docs []f1util.Doc
		for j := 0; j < 2+r.Intn(2); j++ {
			name := fmt.Sprintf("re/g%d.go", j)
			d := cdoc{repo: rp.name, name: name, content: mkContent(r, name), rid: rp.id}
			if j == 0 {
				d.content += fmt.Sprintf("uniq%dtoken\n", rp.id)
			}
			w.docs = append(w.docs, d)
			w.allDocs = append(w.allDocs, d)
			docs = append(docs, f1util.Doc{Name: d.name, Content: d.content})
		}
		stage2 := w.dir + ".stage2" // same shard file name as the original: built in a directory of its own
		must(os.MkdirAll(stage2, 0o755))
		must(f1util.RunBuild(f1util.BuildSpec{Dir: stage2, RepoName: rp.name, RepoID: rp.id, Gen: 1, ShardMax: 1 << 20, Docs: docs}))
		stages = append(stages, stage2)
	}
	// merge the simple shards into one compound shard
	var files []index.IndexFile
	for _, st := range stages {
		es, _ := os.ReadDir(st)
		for _, e := range es {
			f, err := os.Open(filepath.Join(st, e.Name()))
			must(err)
			inf, err := index.NewIndexFile(f)
			must(err)
			files = append(files, inf)
		}
		defer os.RemoveAll(st)
	}
	tmp, dst, err := index.Merge(w.dir, files...)
	must(err)
	must(os.Rename(tmp, dst))
	for _, f := range files {
		f.Close()
	}
	os.RemoveAll(stage)
	w.compound = dst
	// a simple repository indexed in full and then by a delta run: its older shard carries file tombstones
	if r.Chance(3, 4) {
		rp := crepo{name: "org/delta", id: 50}
		w.deltaID = rp.id
		w.repos = append(w.repos, rp)
		var docs []f1util.Doc
		var old []cdoc
		for j := 0; j < 3+r.Intn(2); j++ {
			name := fmt.Sprintf("pkg/d%d.go", j)
			d := cdoc{repo: rp.name, name: name, content: mkContent(r, name), rid: rp.id}
			old = append(old, d)
			docs = append(docs, f1util.Doc{Name: d.name, Content: d.content})
		}
		must(f1util.RunBuild(f1util.BuildSpec{Dir: w.dir, RepoName: rp.name, RepoID: rp.id, Gen: 1, ShardMax: 1 << 20, Docs: docs}))
		// delta: change the first file, remove the second
		changed := cdoc{repo: rp.name, rid: rp.id, name: old[0].name, content: mkContent(r, old[0].name) + "changed " + gen.Pick(r, words) + "\n"}
		must(f1util.RunBuild(f1util.BuildSpec{Dir: w.dir, RepoName: rp.name, RepoID: rp.id, Gen: 2, Delta: true, ShardMax: 1 << 20,
			Docs: []f1util.Doc{{Name: changed.name, Content: changed.content}}, Changed: []string{old[0].name, old[1].name}}))
		w.hiddenBy[rp.name] = []string{old[0].name, old[1].name}
		w.allDocs = append(w.allDocs, old...)
		w.allDocs = append(w.allDocs, changed)
		w.docs = append(w.docs, changed)
		w.docs = append(w.docs, old[2:]...)
	}
	return w
}

// ---------------------------------------------------------------- queries: own AST, naive evaluation, translation

type qn struct {
	kind  string // const sub file re repo repoids reposet branchesrepos and or not
	b     bool
	pat   string
	ids   []uint32
	names []string
	kids  []*qn
}

func (q *qn) String() string {
	switch q.kind {
	case "const":
		return fmt.Sprintf("const(%v)", q.b)
	case "sub", "file", "re", "repo":
		return q.kind + "(" + q.pat + ")"
	case "repoids", "branchesrepos":
		return fmt.Sprintf("%s%v", q.kind, q.ids)
	case "reposet":
		return fmt.Sprintf("reposet%v", q.names)
	}
	var ks []string
	for _, k := range q.kids {
		ks = append(ks, k.String())
	}
	return q.kind + "(" + strings.Join(ks, ",") + ")"
}

func (q *qn) toZoekt() query.Q {
	switch q.kind {
	case "const":
		return &query.Const{Value: q.b}
	case "sub":
		return &query.Substring{Pattern: q.pat, Content: true, CaseSensitive: true}
	case "file":
		return &query.Substring{Pattern: q.pat, FileName: true, CaseSensitive: true}
	case "re":
		re, err := syntax.Parse(q.pat, syntax.Perl)
		must(err)
		return &query.Regexp{Regexp: re, Content: true, CaseSensitive: true}
	case "repo":
		return &query.Repo{Regexp: gregexp.MustCompile(q.pat)}
	case "repoids":
		return query.NewRepoIDs(q.ids...)
	case "reposet":
		return query.NewRepoSet(q.names...)
	case "branchesrepos":
		return query.NewSingleBranchesRepos("HEAD", q.ids...)
	case "not":
		return &query.Not{Child: q.kids[0].toZoekt()}
	}
	var ks []query.Q
	for _, k := range q.kids {
		ks = append(ks, k.toZoekt())
	}
	if q.kind == "and" {
		return query.NewAnd(ks...)
	}
	return query.NewOr(ks...)
}

// eval: does the document match, tombstones ignored (the harness's own reading of the query language)
func (q *qn) eval(w *world, d cdoc) bool {
	id := d.rid
	if id == 0 {
		for _, r := range w.repos {
			if r.name == d.repo {
				id = r.id
			}
		}
	}
	switch q.kind {
	case "const":
		return q.b
	case "sub":
		return strings.Contains(d.content, q.pat)
	case "file":
		return strings.Contains(d.name, q.pat)
	case "re":
		return regexp.MustCompile(q.pat).MatchString(d.content)
	case "repo":
		return regexp.MustCompile(q.pat).MatchString(d.repo)
	case "repoids", "branchesrepos":
		for _, i := range q.ids {
			if i == id {
				return true
			}
		}
		return false
	case "reposet":
		for _, n := range q.names {
			if n == d.repo {
				return true
			}
		}
		return false
	case "not":
		return !q.kids[0].eval(w, d)
	case "and":
		for _, k := range q.kids {
			if !k.eval(w, d) {
				return false
			}
		}
		return true
	}
	for _, k := range q.kids {
		if k.eval(w, d) {
			return true
		}
	}
	return false
}

func (q *qn) repoLevel() bool { return q.kind == "repo" || q.kind == "repoids" || q.kind == "reposet" }

func genAtom(r *gen.Rand, w *world) *qn {
	switch r.Intn(10) {
	case 0:
		return &qn{kind: "const", b: r.Chance(3, 4)}
	case 1, 2:
		return &qn{kind: "sub", pat: gen.Pick(r, append(words, "file", "changed", "pha\nbe", "zzzz"))}
	case 3:
		return &qn{kind: "file", pat: gen.Pick(r, []string{"src/", "lib", ".go", "f1", "pkg/d", "d0", "nope"})}
	case 4:
		return &qn{kind: "re", pat: gen.Pick(r, []string{"al.ha", "(beta|gamma) ", "f[0-9]\\.go", "om+ega", "sig.a\\n"})}
	case 5:
		return &qn{kind: "repo", pat: gen.Pick(r, []string{"org/r", "r1", "r[23]", "delta", "org/", "nomatch", gen.Pick(r, w.repos).name})}
	case 6, 7:
		var ids []uint32
		for _, rp := range w.repos {
			if r.Chance(1, 2) {
				ids = append(ids, rp.id)
			}
		}
		if r.Chance(1, 6) {
			ids = append(ids, 999)
		}
		kind := "repoids"
		if r.Chance(1, 3) {
			kind = "branchesrepos"
		}
		return &qn{kind: kind, ids: ids}
	default:
		var names []string
		for _, rp := range w.repos {
			if r.Chance(1, 2) {
				names = append(names, rp.name)
			}
		}
		return &qn{kind: "reposet", names: names}
	}
}

func genQuery(r *gen.Rand, w *world, depth int) *qn {
	if depth == 0 || r.Chance(2, 5) {
		return genAtom(r, w)
	}
	switch r.Intn(4) {
	case 0:
		return &qn{kind: "not", kids: []*qn{genQuery(r, w, depth-1)}}
	case 1:
		return &qn{kind: "or", kids: []*qn{genQuery(r, w, depth-1), genQuery(r, w, depth-1)}}
	default:
		return &qn{kind: "and", kids: []*qn{genQuery(r, w, depth-1), genQuery(r, w, depth-1)}}
	}
}

// ---------------------------------------------------------------- shard-level observation

type shardView struct {
	path  string
	repos []*zoekt.Repository // as loaded (sidecar first)
	docs  []cdoc              // in shard order
	ridx  []int               // repository index of each document
}

type interner map[string]int

func (in interner) id(s string) int {
	if v, ok := in[s]; ok {
		return v
	}
	in[s] = len(in)
	return in[s]
}

func loadSearcher(path string) zoekt.Searcher {
	f, err := os.Open(path)
	must(err)
	inf, err := index.NewIndexFile(f)
	must(err)
	s, err := index.NewSearcher(inf)
	must(err)
	return s
}

// docOrder: the documents of the shard in shard order, found with every tombstone cleared in a scratch copy
func docOrder(w *world, path string, scratch string) ([]cdoc, []string) {
	os.MkdirAll(scratch, 0o755)
	cp := filepath.Join(scratch, filepath.Base(path))
	b, err := os.ReadFile(path)
	must(err)
	must(os.WriteFile(cp, b, 0o644))
	os.Remove(cp + ".meta")
	s := loadSearcher(cp)
	defer s.Close()
	res, err := s.Search(context.Background(), &query.Const{Value: true}, &zoekt.SearchOptions{Whole: true})
	must(err)
	var out []cdoc
	var repos []string
	for _, fm := range res.Files {
		out = append(out, cdoc{repo: fm.Repository, name: fm.FileName, content: string(fm.Content), rid: fm.RepositoryID})
		repos = append(repos, fm.Repository)
	}
	return out, repos
}

func (w *world) shardView(path string, scratch string, docOrderCache map[string][]cdoc) *shardView {
	repos, _, err := index.ReadMetadataPath(path)
	must(err)
	sv := &shardView{path: path, repos: repos}
	docs, ok := docOrderCache[path]
	if !ok {
		docs, _ = docOrder(w, path, scratch)
		docOrderCache[path] = docs
	}
	sv.docs = docs
	// documents are contiguous per repository entry; a repository built as several shards has one entry per shard
	ri, prev := -1, ""
	for _, d := range docs {
		key := fmt.Sprintf("%s\x00%d\x00%d", d.repo, d.rid, w.part[d.repo+"\x00"+d.name])
		if key != prev {
			ri++
			prev = key
		}
		if ri >= len(repos) || repos[ri].Name != d.repo || repos[ri].ID != d.rid {
			panic(fmt.Sprintf("shard %s: document %s:%s does not line up with repository entry %d", path, d.repo, d.name, ri))
		}
		sv.ridx = append(sv.ridx, ri)
	}
	if ri+1 != len(repos) {
		panic(fmt.Sprintf("shard %s: %d repository entries, %d document groups", path, len(repos), ri+1))
	}
	return sv
}

func reposField(repos []*zoekt.Repository, names, files interner) string {
	if len(repos) == 0 {
		return "-"
	}
	var out []string
	for _, r := range repos {
		var ft []string
		var fts []string
		for f := range r.FileTombstones {
			fts = append(fts, f)
		}
		sort.Strings(fts)
		for _, f := range fts {
			ft = append(ft, fmt.Sprint(files.id(f)))
		}
		fs := "-"
		if len(ft) > 0 {
			fs = strings.Join(ft, ".")
		}
		t := 0
		if r.Tombstone {
			t = 1
		}
		out = append(out, fmt.Sprintf("%d:%d:%d:%s", r.ID, names.id(r.Name), t, fs))
	}
	return strings.Join(out, ",")
}

func natList(xs []int) string {
	if len(xs) == 0 {
		return "-"
	}
	var s []string
	for _, x := range xs {
		s = append(s, fmt.Sprint(x))
	}
	return strings.Join(s, ",")
}

// ---------------------------------------------------------------- the run

// sink buffers the cases of one world (worlds run in parallel, cases are written in world order)
type sink struct {
	cases  []gen.Case
	counts map[string]int
}

func (s *sink) Emit(c gen.Case) { s.cases = append(s.cases, c) }
func (s *sink) Count(k string, n int) {
	if s.counts == nil {
		s.counts = map[string]int{}
	}
	s.counts[k] += n
}

type runner struct {
	w        *sink
	r        *gen.Rand
	root     string
	child    *f1util.Session
	names    interner
	files    interner
	docOrder map[string][]cdoc
	worker   int
	probe    *f1util.Session                // a child without injected faults, for the load probes
	embedded map[string][]*zoekt.Repository // shard -> the repository metadata embedded in the shard file
}

// probeLoad (re)loads a shard in the probe child — with `exhaust`, while no file descriptor is available, so that the
// intact sidecar cannot be read — and checks what comes back: a failed load is fine, a successful one must show the
// sidecar's metadata (model: Shard.loadIO, checkLoad) and must not list or return anything tombstoned (Go oracle).
func (rn *runner) probeLoad(w *world, shard string, exhaust bool, scratch string, after string) {
	req, _ := json.Marshal(tombReq{Op: "load", Shard: shard, Exhaust: exhaust})
	reply, _, died, err := rn.probe.Do(string(req), nil)
	if err != nil || died {
		panic(fmt.Sprintf("probe child broke: %v", err))
	}
	var rep loadReply
	must(json.Unmarshal([]byte(reply), &rep))
	base, ok := rn.embedded[shard]
	if !ok {
		os.MkdirAll(filepath.Join(scratch, "emb"), 0o755)
		cp := filepath.Join(scratch, "emb", filepath.Base(shard))
		b, err := os.ReadFile(shard)
		must(err)
		must(os.WriteFile(cp, b, 0o644))
		os.Remove(cp + ".meta")
		base, _, err = index.ReadMetadataPath(cp)
		must(err)
		os.Remove(cp)
		rn.embedded[shard] = base
	}
	side := "none"
	var sideRepos []*zoekt.Repository
	if b, err := os.ReadFile(shard + ".meta"); err == nil && len(b) > 0 {
		if b[0] == '[' {
			must(json.Unmarshal(b, &sideRepos))
		} else {
			var one zoekt.Repository
			must(json.Unmarshal(b, &one))
			sideRepos = []*zoekt.Repository{&one}
		}
		side = reposField(sideRepos, rn.names, rn.files)
	}
	impl := "res=e"
	if rep.Err == "" {
		impl = "res=o repos=" + reposField(rep.Repos, rn.names, rn.files)
	}
	class := "reload:sidecar-readable"
	if exhaust {
		class = "reload:sidecar-unreadable"
	}
	if side == "none" {
		class += ":no-sidecar"
	}
	rn.w.Emit(gen.Case{
		In:         fmt.Sprintf("loadf %s %s %s", reposField(base, rn.names, rn.files), side, map[bool]string{true: "0", false: "1"}[exhaust]),
		Impl:       impl,
		Class:      class,
		Nontrivial: exhaust && side != "none",
		Detail:     gen.Detail(map[string]any{"shard": filepath.Base(shard), "exhaust": exhaust, "after": after, "err": rep.Err}),
	})
	// Go oracle on what the loaded shard serves
	verdict, key := "", ""
	if rep.Err == "" {
		tombID := func(id uint32) bool { return w.believed[id] }
		for _, id := range rep.Listed {
			if tombID(id) {
				verdict, key = fmt.Sprintf("a shard loaded while its sidecar was unreadable lists the tombstoned repository %d", id), "e2e:reload-shows-tombstoned-repository"
			}
		}
		for fi, f := range rep.Files {
			for _, rp := range w.repos {
				if rp.id == rep.FileID[fi] && w.believed[rp.id] {
					verdict, key = fmt.Sprintf("a shard loaded while its sidecar was unreadable returns %s:%s of a tombstoned repository", f[0], f[1]), "e2e:reload-shows-tombstoned-repository"
				}
			}
			for _, h := range w.hiddenBy[f[0]] {
				if h == f[1] && filepath.Base(shard) == "org%2Fdelta_v16.00000.zoekt" {
					verdict, key = fmt.Sprintf("a shard loaded while its sidecar was unreadable returns the tombstoned path %s:%s", f[0], f[1]), "e2e:reload-shows-tombstoned-path"
				}
			}
		}
	}
	rn.w.Emit(gen.Case{Go: verdict, Key: key, Class: "e2e-" + class, Nontrivial: exhaust && rep.Err == "",
		Detail: gen.Detail(map[string]any{"shard": filepath.Base(shard), "exhaust": exhaust, "after": after, "err": rep.Err})})
}

func (rn *runner) docsField(sv *shardView) string {
	if len(sv.docs) == 0 {
		return "-"
	}
	var out []string
	for i, d := range sv.docs {
		out = append(out, fmt.Sprintf("%d:%d", sv.ridx[i], rn.files.id(d.name)))
	}
	return strings.Join(out, ",")
}

// queryShard: one query against one shard, re-loaded from disk: search + list cases for the model.
func (rn *runner) queryShard(w *world, sv *shardView, s zoekt.Searcher, q *qn) {
	ctx := context.Background()
	zq := q.toZoekt()
	var matching []int
	for i, d := range sv.docs {
		if q.eval(w, d) {
			matching = append(matching, i)
		}
	}
	res, err := s.Search(ctx, zq, &zoekt.SearchOptions{})
	must(err)
	var hits []int
	for _, fm := range res.Files {
		found := -1
		for i, d := range sv.docs {
			if d.repo == fm.Repository && d.name == fm.FileName && hitsFree(hits, i) {
				found = i
				break
			}
		}
		if found < 0 {
			found = 9999 // a document the shard should not have
		}
		hits = append(hits, found)
	}
	sort.Ints(hits)
	reposF := reposField(sv.repos, rn.names, rn.files)
	docsF := rn.docsField(sv)
	anyTomb := false
	for _, r := range sv.repos {
		if r.Tombstone || len(r.FileTombstones) > 0 {
			anyTomb = true
		}
	}
	rn.w.Emit(gen.Case{
		In:         fmt.Sprintf("search %s %s %s", reposF, docsF, natList(matching)),
		Impl:       "hits=" + natList(hits),
		Class:      "search:" + q.kind,
		Nontrivial: anyTomb && len(matching) > 0,
		Detail:     gen.Detail(map[string]any{"query": q.String(), "shard": filepath.Base(sv.path)}),
	})
	// the same search with a per-repository limit (ShardRepoMaxMatchCount): the loop skips the rest of a repository
	// once the limit is reached and must still apply every guard to the document it reaches next
	weight := map[int]int{}
	total := 0
	for _, fm := range res.Files {
		for i, d := range sv.docs {
			if d.repo == fm.Repository && d.name == fm.FileName {
				weight[i] = len(fm.LineMatches)
				for _, cm := range fm.ChunkMatches {
					weight[i] += len(cm.Ranges)
				}
				total += weight[i]
			}
		}
	}
	if total > 0 {
		var ws []string
		for _, i := range matching {
			wt, ok := weight[i]
			if !ok {
				wt = 1 // hidden document: never consulted
			}
			ws = append(ws, fmt.Sprintf("%d:%d", i, wt))
		}
		for _, limit := range []int{1, 2 + rn.r.Intn(2)} {
			lres, err := s.Search(ctx, zq, &zoekt.SearchOptions{ShardRepoMaxMatchCount: limit})
			must(err)
			var lhits []int
			for _, fm := range lres.Files {
				found := 9999
				for i, d := range sv.docs {
					if d.repo == fm.Repository && d.name == fm.FileName && hitsFree(lhits, i) {
						found = i
						break
					}
				}
				lhits = append(lhits, found)
			}
			sort.Ints(lhits)
			// layout counter: an alive entry that exceeds the limit, directly followed by a tombstoned entry whose first
			// document matches
			layout := false
			for e := 0; e+1 < len(sv.repos); e++ {
				if sv.repos[e].Tombstone || !sv.repos[e+1].Tombstone {
					continue
				}
				nm, firstNext := 0, -1
				for i := range sv.docs {
					if sv.ridx[i] == e {
						if _, ok := weight[i]; ok {
							nm++
						}
					}
					if sv.ridx[i] == e+1 && firstNext < 0 {
						firstNext = i
					}
				}
				for _, m := range matching {
					if m == firstNext && nm >= 2 && limit == 1 {
						layout = true
					}
				}
			}
			if layout {
				rn.w.Count("limited-search:skip-lands-on-tombstoned-repository", 1)
			}
			rn.w.Emit(gen.Case{
				In:         fmt.Sprintf("searchlim %s %s %s %d", reposF, docsF, strings.Join(ws, ","), limit),
				Impl:       "hits=" + natList(lhits),
				Class:      "searchlim:" + q.kind,
				Nontrivial: anyTomb && len(lhits) < len(hits),
				Detail:     gen.Detail(map[string]any{"query": q.String(), "shard": filepath.Base(sv.path), "limit": limit}),
			})
		}
	}
	// List
	qf := ""
	switch {
	case q.kind == "const" && q.b:
		qf = "c1"
	case q.kind == "const":
		qf = "c0"
	case q.repoLevel():
		var idx []int
		for i, rp := range sv.repos {
			if q.eval(w, cdoc{repo: rp.Name, rid: rp.ID}) {
				idx = append(idx, i)
			}
		}
		qf = "rp:" + natList(idx)
	default:
		qf = "dp:" + natList(matching)
	}
	if !strings.HasPrefix(qf, "c") {
		// layout counter: a tombstoned entry that shares its name with a live entry which has a live matching document
		namesake := false
		for i, dead := range sv.repos {
			if !dead.Tombstone {
				continue
			}
			for j, live := range sv.repos {
				if i == j || live.Tombstone || live.Name != dead.Name {
					continue
				}
				for _, m := range matching {
					if sv.ridx[m] == j {
						namesake = true
					}
				}
			}
		}
		if namesake {
			rn.w.Count("list:tombstoned-namesake-of-a-found-live-entry", 1)
		}
	}
	rl, err := s.List(ctx, zq, nil)
	must(err)
	// entries come in shard order; an ID may occur in several entries
	var listed []int
	next := 0
	for _, e := range rl.Repos {
		j := next
		for j < len(sv.repos) && (sv.repos[j].ID != e.Repository.ID || sv.repos[j].Tombstone != e.Repository.Tombstone) {
			j++
		}
		if j == len(sv.repos) {
			listed = append(listed, 9999) // an entry the shard should not have (or out of order)
			continue
		}
		listed = append(listed, j)
		next = j + 1
	}
	sort.Ints(listed)
	rn.w.Emit(gen.Case{
		In:         fmt.Sprintf("list %s %s %s", reposF, docsF, qf),
		Impl:       "repos=" + natList(listed),
		Class:      "list:" + qf[:2],
		Nontrivial: anyTomb,
		Detail:     gen.Detail(map[string]any{"query": q.String(), "shard": filepath.Base(sv.path)}),
	})
}

func hitsFree(hits []int, i int) bool {
	for _, h := range hits {
		if h == i {
			return false
		}
	}
	return true
}

// e2e: the whole directory through search.NewDirectorySearcher, against the harness's own expectation.
func (rn *runner) e2e(w *world, ss zoekt.Streamer, q *qn, after string) {
	ctx := context.Background()
	zq := q.toZoekt()
	tombID := func(id uint32) bool { return w.believed[id] }
	// a name is tombstoned when every entry that carries it is (a re-created repository keeps the name under a new ID)
	tomb := func(repo string) bool {
		n, dead := 0, 0
		for _, rp := range w.repos {
			if rp.name == repo {
				n++
				if w.believed[rp.id] {
					dead++
				}
			}
		}
		return n > 0 && n == dead
	}
	want := map[string]bool{}
	wantRepos := map[string]bool{}
	for _, d := range w.docs {
		if !tombID(d.rid) && q.eval(w, d) {
			want[d.repo+"\x00"+d.name+"\x00"+d.content] = true
			wantRepos[d.repo] = true
		}
	}
	res, err := ss.Search(ctx, zq, &zoekt.SearchOptions{Whole: true})
	must(err)
	verdict, key := "", ""
	got := map[string]bool{}
	for _, fm := range res.Files {
		got[fm.Repository+"\x00"+fm.FileName+"\x00"+string(fm.Content)] = true
		if tombID(fm.RepositoryID) {
			verdict, key = fmt.Sprintf("search returned %s:%s of a tombstoned repository", fm.Repository, fm.FileName), "e2e:tombstoned-repository-in-results"
		}
		for _, h := range w.hiddenBy[fm.Repository] {
			if h == fm.FileName {
				// the path is tombstoned in the older shard; the newer shard may hold a new version
				isNew := false
				for _, d := range w.docs {
					if d.repo == fm.Repository && d.name == fm.FileName && d.content == string(fm.Content) {
						isNew = true
					}
				}
				if !isNew {
					verdict, key = fmt.Sprintf("search returned the tombstoned path %s:%s", fm.Repository, fm.FileName), "e2e:tombstoned-path-in-results"
				}
			}
		}
	}
	if verdict == "" {
		for k := range want {
			if !got[k] {
				verdict, key = "search misses a live matching document: "+strings.ReplaceAll(k, "\x00", "|")[:40], "e2e:results-differ"
			}
		}
		for k := range got {
			if !want[k] {
				verdict, key = "search returns an unexpected document: "+strings.ReplaceAll(k, "\x00", "|")[:40], "e2e:results-differ"
			}
		}
	}
	// the same query with a per-repository limit through the directory searcher: never anything hidden, never
	// anything that the unlimited search would not return
	for _, limit := range []int{1, 2} {
		lres, err := ss.Search(ctx, zq, &zoekt.SearchOptions{Whole: true, ShardRepoMaxMatchCount: limit})
		must(err)
		lv, lk := "", ""
		for _, fm := range lres.Files {
			if tombID(fm.RepositoryID) {
				lv, lk = fmt.Sprintf("search with ShardRepoMaxMatchCount=%d returned %s:%s of a tombstoned repository", limit, fm.Repository, fm.FileName), "e2e:tombstoned-repository-in-limited-results"
			} else if !want[fm.Repository+"\x00"+fm.FileName+"\x00"+string(fm.Content)] {
				lv, lk = fmt.Sprintf("search with ShardRepoMaxMatchCount=%d returned unexpected %s:%s", limit, fm.Repository, fm.FileName), "e2e:limited-results-differ"
			}
		}
		gotRepo := map[string]bool{}
		for _, fm := range lres.Files {
			gotRepo[fm.Repository] = true
		}
		for rp := range wantRepos {
			if lv == "" && !gotRepo[rp] {
				lv, lk = fmt.Sprintf("search with ShardRepoMaxMatchCount=%d lost repository %s", limit, rp), "e2e:limited-results-differ"
			}
		}
		rn.w.Emit(gen.Case{Go: lv, Key: lk, Class: "e2e-search-limited", Nontrivial: len(lres.Files) < len(res.Files),
			Detail: gen.Detail(map[string]any{"query": q.String(), "after": after, "limit": limit})})
	}
	urlLeak := ""
	for name := range res.RepoURLs {
		if tomb(name) {
			urlLeak = name
		}
	}
	rn.w.Emit(gen.Case{Go: verdict, Key: key, Class: "e2e-search", Nontrivial: len(want) > 0,
		Detail: gen.Detail(map[string]any{"query": q.String(), "after": after, "files": len(res.Files)})})
	if len(res.Files) > 0 || urlLeak != "" {
		c := gen.Case{Class: "e2e-repourls", Detail: gen.Detail(map[string]any{"query": q.String(), "after": after})}
		if urlLeak != "" {
			c.Go = "SearchResult.RepoURLs names the tombstoned repository " + urlLeak
			c.Key = "e2e:repourls-name-tombstoned-repository"
		}
		rn.w.Emit(c)
	}
	// List
	rl, err := ss.List(ctx, zq, nil)
	must(err)
	verdict, key = "", ""
	gotRepos := map[string]bool{}
	for _, e := range rl.Repos {
		gotRepos[e.Repository.Name] = true
		if tombID(e.Repository.ID) {
			verdict, key = fmt.Sprintf("List returned the tombstoned repository %s (ID %d)", e.Repository.Name, e.Repository.ID), "e2e:tombstoned-repository-listed"
		}
	}
	if verdict == "" {
		for n := range wantRepos {
			if !gotRepos[n] {
				verdict, key = "List misses "+n, "e2e:list-differs"
			}
		}
		for n := range gotRepos {
			if !wantRepos[n] {
				verdict, key = "List returns unexpected "+n, "e2e:list-differs"
			}
		}
	}
	rn.w.Emit(gen.Case{Go: verdict, Key: key, Class: "e2e-list", Nontrivial: len(wantRepos) > 0,
		Detail: gen.Detail(map[string]any{"query": q.String(), "after": after})})
}

func opsField(ops []string) string {
	if len(ops) == 0 {
		return "-"
	}
	return strings.Join(ops, ",")
}

// witnessOps: the history of corpus/C17/w01 — with every third sidecar rename failing (2nd, 5th, …) the second and the
// fifth operation hit a failing rename.
var witnessOps = []struct {
	repo int
	set  bool
}{{0, true}, {1, true}, {0, true}, {0, false}, {2, true}, {1, true}, {1, false}}

func (rn *runner) runWorld(n int, nOps int, nQueries int) {
	r := rn.r
	w := buildWorld(rn.root, r, n)
	scratch := filepath.Join(rn.root, fmt.Sprintf("scratch%d", rn.worker))
	var shards []string
	es, _ := os.ReadDir(w.dir)
	for _, e := range es {
		if strings.HasSuffix(e.Name(), ".zoekt") {
			shards = append(shards, filepath.Join(w.dir, e.Name()))
		}
	}
	queryAll := func(after string, extra ...*qn) {
		// everything is re-loaded from disk for every state: per-shard searchers and the directory searcher
		var svs []*shardView
		var ss []zoekt.Searcher
		for _, sp := range shards {
			svs = append(svs, w.shardView(sp, scratch, rn.docOrder))
			ss = append(ss, loadSearcher(sp))
		}
		ds, err := search.NewDirectorySearcher(w.dir)
		must(err)
		// "file " occurs once in every document: with a limit of one match per repository every repository is cut short
		// and the loop lands on the first document of the next one
		qs := append([]*qn{{kind: "sub", pat: "file "}}, extra...)
		for i := 0; i < nQueries; i++ {
			qs = append(qs, genQuery(r, w, 2))
		}
		for _, q := range qs {
			for i := range shards {
				rn.queryShard(w, svs[i], ss[i], q)
			}
			rn.e2e(w, ds, q, after)
		}
		ds.Close()
		for _, s := range ss {
			s.Close()
		}
	}
	queryAll("initial")
	initial, _, err := index.ReadMetadataPath(w.compound)
	must(err)
	var hist []string
	for i := 0; i < nOps; i++ {
		rp := gen.Pick(r, w.repos[:len(w.repos)-btoi(w.deltaID != 0)])
		id := rp.id
		if w.twinIDs[0] != 0 && r.Chance(1, 3) {
			id = w.twinIDs[r.Intn(2)] // the deleted-and-re-created repository: usually one of its two entries is dead
		}
		if r.Chance(1, 8) {
			id = 999 // not in the shard
		}
		set := r.Chance(3, 5)
		if n == 0 && i < len(witnessOps) {
			id, set = w.repos[witnessOps[i].repo].id, witnessOps[i].set
		}
		// idempotence: often repeat the previous kind of operation on the same repository
		before, _, err := index.ReadMetadataPath(w.compound)
		must(err)
		req, _ := json.Marshal(tombReq{Shard: w.compound, ID: id, Set: set})
		reply, ops, died, err := rn.child.Do(string(req), nil)
		if err != nil || died {
			panic(fmt.Sprintf("child broke: %v", err))
		}
		var rep struct{ Err string }
		json.Unmarshal([]byte(reply), &rep)
		renameOK, sawRename := true, false
		for _, op := range ops {
			if op.Kind == "rename" && strings.HasSuffix(op.Dst, ".meta") {
				sawRename = true
				renameOK = op.OK
			}
		}
		if !sawRename {
			// the call failed before it got to the rename (the shard, the sidecar or the temp file could not be opened):
			// for the state machine that is a call whose rename did not happen
			renameOK = false
			rn.w.Count("calls-failing-before-the-rename", 1)
		}
		if rep.Err == "" {
			w.believed[id] = set
		}
		after, _, err := index.ReadMetadataPath(w.compound) // reload from disk
		must(err)
		su, mark := "u", "!"
		if set {
			su = "s"
		}
		if renameOK {
			mark = "+"
		}
		res := "o"
		if rep.Err != "" {
			res = "e"
		}
		class := "step:rename-ok"
		if !sawRename {
			class = "step:fails-before-rename"
		} else if !renameOK {
			class = "step:rename-fails"
			rn.w.Count("sidecar-rename-failures", 1)
		}
		rn.w.Emit(gen.Case{
			In:         fmt.Sprintf("step %s %s %d %s", reposField(before, rn.names, rn.files), su, id, map[bool]string{true: "1", false: "0"}[renameOK]),
			Impl:       fmt.Sprintf("res=%s after=%s", res, reposField(after, rn.names, rn.files)),
			Class:      class,
			Nontrivial: true,
			Detail:     gen.Detail(map[string]any{"op": su, "id": id, "renameOK": renameOK, "world": n}),
		})
		hist = append(hist, fmt.Sprintf("%s%d%s", su, id, mark))
		rn.w.Emit(gen.Case{
			In:         fmt.Sprintf("hist %s %s", reposField(initial, rn.names, rn.files), opsField(hist)),
			Impl:       "after=" + reposField(after, rn.names, rn.files),
			Class:      "hist",
			Nontrivial: len(hist) > 1,
		})
		// a term that occurs only in the repository just operated on, and that repository by ID
		queryAll(opsField(hist), &qn{kind: "sub", pat: fmt.Sprintf("uniq%dtoken", id)}, &qn{kind: "repoids", ids: []uint32{id}})
		// reloads with and without a sidecar read fault: the compound shard, and the shard with file tombstones
		for _, sp := range shards {
			rn.probeLoad(w, sp, true, scratch, opsField(hist))
		}
		rn.probeLoad(w, w.compound, false, scratch, opsField(hist))
	}
	os.RemoveAll(w.dir)
}

func btoi(b bool) int {
	if b {
		return 1
	}
	return 0
}

func main() {
	if len(os.Args) > 1 && os.Args[1] == "child" {
		childMain()
		return
	}
	f := gen.ParseFlags()
	if f.Replay != "" {
		// a replay re-runs the run that produced the failing case (same seed and tier: every choice derives from them)
		var rp struct {
			Seed uint64
			Tier string
		}
		if b, err := os.ReadFile(f.Replay); err == nil && json.Unmarshal(b, &rp) == nil && rp.Tier != "" {
			f.Seed, f.Tier = rp.Seed, rp.Tier
		}
	}
	f1util.QuietGC()
	if pf := os.Getenv("VERIF_CPUPROFILE"); pf != "" {
		fh, _ := os.Create(pf)
		pprof.StartCPUProfile(fh)
		defer pprof.StopCPUProfile()
	}
	log.SetOutput(io.Discard)
	w := gen.NewWriter(f.Out)
	defer w.Close()
	work := os.Getenv("VERIF_WORK")
	if work == "" {
		work = os.TempDir()
	}
	root := filepath.Join(work, "c17fs")
	os.RemoveAll(root)
	must(os.MkdirAll(root, 0o755))
	if os.Getenv("VERIF_KEEP") == "" {
		defer os.RemoveAll(root)
	}
	self, err := os.Executable()
	must(err)
	// worlds run on a few workers in parallel, each with its own child (under strace a call mostly waits for the tracer)
	top := gen.NewRand(f.Seed)
	nWorlds := f.N(4, 40)
	rands := make([]*gen.Rand, nWorlds)
	for i := range rands {
		rands[i] = top.Fork()
	}
	sinks := make([]*sink, nWorlds)
	jobs := make(chan int)
	var wg sync.WaitGroup
	var firstPanic any
	var pmu sync.Mutex
	for wk := 0; wk < 4; wk++ {
		wg.Add(1)
		go func(wk int) {
			defer wg.Done()
			// every third sidecar rename of the child fails with EIO, every thirteenth openat with EMFILE (shard, sidecar or temp file)
			child, err := f1util.Start(f1util.Mode{RenameFail: "2+3", OpenFail: "11+13"}, filepath.Join(root, fmt.Sprintf("child%d.log", wk)), nil, self, "child")
			must(err)
			defer child.Close()
			probe, err := f1util.Start(f1util.Mode{}, filepath.Join(root, fmt.Sprintf("probe%d.log", wk)), nil, self, "child")
			must(err)
			defer probe.Close()
			for i := range jobs {
				func() {
					defer func() {
						if p := recover(); p != nil {
							pmu.Lock()
							if firstPanic == nil {
								firstPanic = fmt.Sprintf("world %d: %v", i, p)
							}
							pmu.Unlock()
						}
					}()
					rn := &runner{w: &sink{}, r: rands[i], root: root, child: child, names: interner{}, files: interner{}, docOrder: map[string][]cdoc{}, worker: wk, probe: probe, embedded: map[string][]*zoekt.Repository{}}
					sinks[i] = rn.w
					rn.runWorld(i, f.N(7, 12), f.N(2, 5))
				}()
			}
		}(wk)
	}
	for i := 0; i < nWorlds; i++ {
		jobs <- i
	}
	close(jobs)
	wg.Wait()
	for _, sk := range sinks {
		if sk == nil {
			continue
		}
		for _, c := range sk.cases {
			w.Emit(c)
		}
		for k, n := range sk.counts {
			w.Count(k, n)
		}
	}
	if firstPanic != nil {
		w.Close()
		fmt.Fprintln(os.Stderr, "harness failure:", firstPanic)
		os.Exit(3)
	}
}
