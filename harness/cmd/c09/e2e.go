package main

import (
	"bytes"
	"fmt"
	"os"
	"path/filepath"
	"sort"
	"strings"
	"unicode/utf8"

	"github.com/sourcegraph/zoekt"
	"github.com/sourcegraph/zoekt/index"

	"verifharness/gen"
)

type buildOpts struct {
	SizeMax     int      `json:"sizeMax"`
	TrigramMax  int      `json:"trigramMax"`
	ShardMax    int      `json:"shardMax"`
	Parallelism int      `json:"parallelism"`
	LargeFiles  []string `json:"largeFiles"`
}

// naive skip rule of the statement: too large, too small, binary, too many (distinct) trigrams
func naiveSkip(d docSpec, o buildOpts) index.SkipReason {
	allow := false
	for _, p := range o.LargeFiles {
		if m, _ := filepath.Match(p, string(d.Name)); m {
			allow = true
		}
	}
	c := d.Content
	switch {
	case len(c) > o.SizeMax && !allow:
		return index.SkipReasonTooLarge
	case len(c) == 0:
		return d.Skip
	case len(c) < 3:
		return index.SkipReasonTooSmall
	case bytes.IndexByte(c, 0) >= 0:
		return index.SkipReasonBinary
	case allow:
		return d.Skip
	}
	var rs []rune
	for i := 0; i < len(c); {
		r, sz := utf8.DecodeRune(c[i:])
		rs = append(rs, r)
		i += sz
	}
	seen := map[[3]rune]bool{}
	for i := 0; i+3 <= len(rs); i++ {
		seen[[3]rune{rs[i], rs[i+1], rs[i+2]}] = true
	}
	if len(seen) > o.TrigramMax {
		return index.SkipReasonTooManyTrigrams
	}
	return d.Skip
}

func loadShardFile(path string) (zoekt.Searcher, *index.VerifShard, error) {
	f, err := os.Open(path)
	if err != nil {
		return nil, nil, err
	}
	inf, err := index.NewIndexFile(f)
	if err != nil {
		return nil, nil, err
	}
	s, err := index.NewSearcher(inf)
	if err != nil {
		inf.Close()
		return nil, nil, err
	}
	sh, err := index.VerifDumpShard(s)
	if err != nil {
		s.Close()
		return nil, nil, err
	}
	return s, sh, nil
}

// builderCase: the real index.Builder (skip decisions, flushing, sorting) writing real files; every added document must
// be found in exactly one shard, field by field; rejected ones with the explanation.
func (h *harness) builderCase(rp repoSpec, docs []docSpec, o buildOpts, class string) {
	h.seq++
	dir := filepath.Join(h.tmp, fmt.Sprintf("b%d", h.seq))
	defer os.RemoveAll(dir)
	c := gen.Case{Class: class, Detail: gen.Detail(detail{Kind: "builder", Repo: &rp, Docs: docs, Opts: &o}), Nontrivial: len(docs) >= 2}
	emit := func(v, k string) {
		c.Go, c.Key = v, k
		h.w.Emit(c)
	}
	repo := rp.repository()
	opts := index.Options{IndexDir: dir, RepositoryDescription: *repo, SubRepositories: repo.SubRepoMap, SizeMax: o.SizeMax,
		TrigramMax: o.TrigramMax, ShardMax: o.ShardMax, Parallelism: o.Parallelism, DisableCTags: true, LargeFiles: o.LargeFiles}
	b, err := index.NewBuilder(opts)
	if err != nil {
		emit("NewBuilder: "+err.Error(), "build-failed")
		return
	}
	for _, d := range docs {
		if err := b.Add(d.document()); err != nil {
			emit("Builder.Add: "+err.Error(), "build-failed")
			return
		}
	}
	if err := b.Finish(); err != nil {
		emit("Builder.Finish: "+err.Error(), "build-failed")
		return
	}
	// expected documents: the skip reason the statement prescribes
	byName := map[string]docSpec{}
	for _, d := range docs {
		e := d
		e.Skip = naiveSkip(d, o)
		if e.Skip != index.SkipReasonNone {
			h.w.Count(fmt.Sprintf("builder-skip-%d", int(e.Skip)), 1)
		}
		e.Category = index.FileCategoryDefault // Builder.Add classifies: no NUL re-check in ShardBuilder.Add
		byName[string(d.Name)] = e
	}
	repo.HasSymbols = false
	opts.SetDefaults()
	repo.IndexOptions = opts.GetHash()
	files, _ := filepath.Glob(filepath.Join(dir, "*.zoekt"))
	sort.Strings(files)
	seen := map[string]int{}
	h.w.Count("builder-shards", len(files))
	for _, fn := range files {
		s, sh, err := loadShardFile(fn)
		if err != nil {
			emit("load "+filepath.Base(fn)+": "+err.Error(), "load-failed")
			return
		}
		var sub []docSpec
		for _, d := range sh.Docs {
			e, ok := byName[string(d.Name)]
			if !ok {
				s.Close()
				emit(fmt.Sprintf("document %q read back but never added", d.Name), "name")
				return
			}
			seen[string(d.Name)]++
			sub = append(sub, e)
		}
		v, k := oracle(s, sh, rp, repo, sub, false, metaExpect{formatVersion: index.IndexFormatVersion})
		if v == "" {
			v, k = symbolOracle(s, rp, sub)
		}
		s.Close()
		if v != "" {
			emit(filepath.Base(fn)+": "+v, k)
			return
		}
	}
	for _, d := range docs {
		if seen[string(d.Name)] != 1 {
			emit(fmt.Sprintf("document %q present %d times in the written shards", d.Name, seen[string(d.Name)]), "doc-lost")
			return
		}
	}
	emit("", "")
}

func (h *harness) builderCases(r *gen.Rand, n int) {
	for i := 0; i < n; i++ {
		rp := genRepo(r, fmt.Sprintf("brepo%d", i))
		o := buildOpts{SizeMax: gen.Pick(r, []int{50, 200, 1000}), TrigramMax: gen.Pick(r, []int{5, 20, 60, 20000}),
			ShardMax: gen.Pick(r, []int{1, 300, 2000, 100 << 20}), Parallelism: gen.Pick(r, []int{1, 2, 4})}
		if r.Chance(1, 3) {
			o.LargeFiles = []string{"*-big.txt"}
		}
		var docs []docSpec
		nd := gen.Pick(r, []int{0, 1, 5, 20, 40})
		for j := 0; j < nd; j++ {
			d := genDoc(r, rp, j, gen.Pick(r, []int{3, 20, 80}), 0, false)
			d.Skip = index.SkipReasonNone
			if r.Chance(1, 8) {
				d.Skip = index.SkipReasonMissing // a reason given by the caller must survive
				d.Content = nil
			}
			d.Category = index.FileCategoryMissing
			if r.Chance(1, 6) && d.SubRepo == "" {
				d.Name = hexString(fmt.Sprintf("%d-big.txt", j))
			}
			if r.Chance(1, 8) && len(d.Content) > 0 { // binary
				d.Content[r.Intn(len(d.Content))] = 0
				d.Symbols, d.Meta = nil, nil
			}
			// symbols only survive for accepted documents; keep them valid for the content
			if r.Chance(1, 4) {
				// a long document with few distinct trigrams: accepted however small TrigramMax is — also right after a
				// document the same Builder rejected for too many trigrams (the Builder's DocChecker is reused)
				d.Content = lowEntropy(r, o.TrigramMax%200+3)
				d.Symbols, d.Meta = nil, nil
				if len(d.Content) <= o.SizeMax {
					h.w.Count("builder-long-low-entropy-docs", 1)
				}
			}
			docs = append(docs, d)
		}
		h.builderCase(rp, docs, o, "builder")
	}
}

// compoundCase: one simple shard per repository (real ShardBuilder), merged with index.Merge into a compound shard;
// every document of every repository must be read back from the compound shard.
func (h *harness) compoundCase(repos []repoDocs, class string) {
	h.seq++
	dir := filepath.Join(h.tmp, fmt.Sprintf("c%d", h.seq))
	os.MkdirAll(dir, 0o755)
	defer os.RemoveAll(dir)
	c := gen.Case{Class: class, Detail: gen.Detail(detail{Kind: "compound", Repos: repos}), Nontrivial: len(repos) >= 2}
	emit := func(v, k string) {
		c.Go, c.Key = v, k
		h.w.Emit(c)
	}
	var files []index.IndexFile
	defer func() {
		for _, f := range files {
			f.Close()
		}
	}()
	for i, rd := range repos {
		file, failIdx, failClass := buildShard(rd.Repo, rd.Docs)
		if file == nil {
			emit(fmt.Sprintf("simple shard %d: %s@%d", i, failClass, failIdx), "build-failed")
			return
		}
		fn := filepath.Join(dir, fmt.Sprintf("simple%d_v16.00000.zoekt", i))
		if err := os.WriteFile(fn, file, 0o644); err != nil {
			panic(err)
		}
		f, err := os.Open(fn)
		if err != nil {
			panic(err)
		}
		inf, err := index.NewIndexFile(f)
		if err != nil {
			panic(err)
		}
		files = append(files, inf)
	}
	res := safely(func() string {
		tmpName, dstName, err := index.Merge(dir, files...)
		if err != nil {
			return "err:" + err.Error()
		}
		if err := os.Rename(tmpName, dstName); err != nil {
			return "err:" + err.Error()
		}
		return "ok:" + dstName
	})
	if res[:2] != "ok" {
		key := "merge-failed"
		if res == "panic" {
			key = "merge-panic"
		}
		for _, rd := range repos {
			for _, d := range rd.Docs {
				for _, br := range d.Branches {
					for bi, b := range rd.Repo.Branches {
						if b == br && bi >= 32 && res != "panic" {
							key = "merge-branch-index-ge-32"
						}
					}
				}
				if d.effSkip() == index.SkipReasonNone && len(d.Symbols) > 0 && d.Meta == nil && res == "panic" {
					key = "merge-panic-symbols-without-metadata"
				}
			}
		}
		emit("index.Merge of loadable shards: "+res, key)
		return
	}
	s, sh, err := loadShardFile(res[3:])
	if err != nil {
		emit("load compound: "+err.Error(), "load-failed")
		return
	}
	defer s.Close()
	// repositories without documents are dropped by merge (documented TODO); expect the others
	var reps []repoExpect
	for _, rd := range repos {
		if len(rd.Docs) == 0 {
			continue
		}
		re := repoExpect{spec: rd.Repo, repo: rd.Repo.repository()}
		for _, d := range rd.Docs {
			re.exp = append(re.exp, expected(rd.Repo, d))
		}
		reps = append(reps, re)
	}
	if len(sh.Repos) != len(reps) {
		emit(fmt.Sprintf("compound shard has %d repositories, want %d", len(sh.Repos), len(reps)), "compound-repos")
		return
	}
	if sharedBranchAtDifferentIndex(repos) {
		h.w.Count("compound-shared-branch-at-different-index", 1)
	}
	// branch masks of the compound shard against the Lean model (`cmask`): repositories in shard order, documents in shard order
	{
		specByName := map[string]repoSpec{}
		docBranches := map[string][]string{}
		for _, rd := range repos {
			specByName[rd.Repo.Name] = rd.Repo
			for _, d := range rd.Docs {
				docBranches[rd.Repo.Name+"\x00"+string(d.Name)] = d.Branches
			}
		}
		var rparts, dparts []string
		var masks []uint64
		for _, r := range sh.Repos {
			rparts = append(rparts, hexList(specByName[r.Name].Branches))
		}
		for _, d := range sh.Docs {
			rn := ""
			if int(d.Repo) < len(sh.Repos) {
				rn = sh.Repos[d.Repo].Name
			}
			dparts = append(dparts, fmt.Sprintf("%d:%s", d.Repo, hexList(docBranches[rn+"\x00"+string(d.Name)])))
			masks = append(masks, d.BranchMask)
		}
		if len(dparts) > 0 {
			c.In = "cmask " + strings.Join(rparts, "|") + " " + strings.Join(dparts, "|")
			c.Impl = gen.NatList(masks)
		}
	}
	start := uint32(0)
	pos := 0
	for ri, r := range sh.Repos {
		var re *repoExpect
		for k := range reps {
			if reps[k].spec.Name == r.Name {
				re = &reps[k]
			}
		}
		if re == nil {
			emit("unknown repository "+r.Name, "compound-repos")
			return
		}
		var sub []index.VerifDoc
		for pos < len(sh.Docs) && int(sh.Docs[pos].Repo) == ri {
			sub = append(sub, sh.Docs[pos])
			pos++
		}
		// merged documents carry the effective content; expectations computed from the original specs still apply
		if v, k := checkDocFields(sub, re.exp, &start, re.spec.Branches); v != "" {
			emit(fmt.Sprintf("repo %s: %s", r.Name, v), "compound-"+k)
			return
		}
	}
	if pos != len(sh.Docs) {
		emit("documents out of repository order", "compound-order")
		return
	}
	if v, k := checkGlobal(sh); v != "" {
		emit(v, "compound-"+k)
		return
	}
	var av, ak string
	if p := safely(func() string {
		av, ak = checkAPI(s, reps, metaExpect{formatVersion: index.NextIndexFormatVersion})
		return "ok"
	}); p == "panic" {
		av, ak = "searching the compound shard panics", "search-panic"
	}
	if av != "" {
		emit(av, "compound-"+ak)
		return
	}
	emit("", "")
}

func (h *harness) compoundCases(r *gen.Rand, n int) {
	for i := 0; i < n; i++ {
		nr := gen.Pick(r, []int{1, 2, 2, 3, 4})
		var repos []repoDocs
		for j := 0; j < nr; j++ {
			rp := genRepo(r, fmt.Sprintf("crepo%d", j))
			if j > 0 && len(rp.Branches) < 2 {
				// later repositories of a compound shard: at least two branches, so that shared names can sit at other positions
				rp.Branches = append([]string(nil), branchPool[:2+r.Intn(4)]...)
			}
			if j > 0 && r.Chance(3, 4) {
				k := 1 + r.Intn(len(rp.Branches)-1)
				rp.Branches = append(append([]string(nil), rp.Branches[k:]...), rp.Branches[:k]...)
			}
			for p, b := range rp.Branches {
				// zoekt reads the query branch "HEAD" as "the first branch": the name stays on the first one
				if b == "HEAD" && p > 0 {
					rp.Branches[0], rp.Branches[p] = rp.Branches[p], rp.Branches[0]
				}
			}
			rp.ID = uint32(100*i + j + 1)
			rp.Priority = gen.Pick(r, []string{"", "1", "5", "2.5"})
			var docs []docSpec
			nd := gen.Pick(r, []int{1, 2, 5, 12})
			runes := 0
			for k := 0; k < nd; k++ {
				d := genDocM(r, rp, k, 25, runes, false, i%5 == 4)
				runes += countRunes(d.Content)
				docs = append(docs, d)
			}
			repos = append(repos, repoDocs{rp, docs})
		}
		h.compoundCase(repos, "compound")
	}
}
