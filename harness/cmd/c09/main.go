// C09 harness: a written shard reads back every document and all metadata.
//
//   - component correspondence: the real coders (toSizedDeltas/fromSizedDeltas, 16-bit, fromDeltas, doc sections),
//     DocChecker.Check, crc, the real postingsBuilder (newSearchableString / reset / writePostings) against the Lean model
//   - shard correspondence: real ShardBuilder.Add* → Write → NewSearcher → dump, against the model's file bytes and
//     read-back documents; the Lean `checkP` is evaluated on what the implementation read back
//   - Go oracles (share no code with the implementation) on the same shards and on larger ones, through the public API:
//     Search(Const true, Whole), List, symbol search; postings vs a naive trigram scan; rune-offset samples;
//     Builder-level skip reasons; compound shards via index.Merge
package main

import (
	"bytes"
	"context"
	"encoding/json"
	"fmt"
	"os"
	"strings"

	"github.com/sourcegraph/zoekt"
	"github.com/sourcegraph/zoekt/index"

	"verifharness/gen"
)

func main() {
	f := gen.ParseFlags()
	w := gen.NewWriter(f.Out)
	defer w.Close()
	r := gen.NewRand(f.Seed)
	tmp, err := os.MkdirTemp(os.Getenv("VERIF_WORK"), "c09-")
	if err != nil {
		panic(err)
	}
	defer os.RemoveAll(tmp)
	h := &harness{w: w, tmp: tmp, f: f}

	if f.Replay != "" {
		h.replay(f.Replay)
		return
	}
	h.corpus(f.Corpus)

	h.coderCases(r.Fork(), f.N(400, 10000))
	h.checkCases(r.Fork(), f.N(150, 3000))
	h.checkSeqCases(r.Fork(), f.N(80, 2000))
	h.pbCases(r.Fork(), f.N(150, 2000))
	h.shardCases(r.Fork(), f.N(120, 1500))
	h.bigShardCases(r.Fork(), f.N(8, 60))
	h.builderCases(r.Fork(), f.N(6, 60))
	h.compoundCases(r.Fork(), f.N(8, 60))
}

type harness struct {
	w   *gen.Writer
	tmp string
	f   gen.Flags
	seq int
}

// ---------------------------------------------------------------- replay / corpus

type replayFile struct {
	Case struct {
		Detail json.RawMessage `json:"detail"`
	} `json:"case"`
	Detail json.RawMessage `json:"detail"`
}

type detail struct {
	Kind   string     `json:"kind"`
	Repo   *repoSpec  `json:"repo,omitempty"`
	Docs   []docSpec  `json:"docs,omitempty"`
	Repos  []repoDocs `json:"repos,omitempty"`
	Opts   *buildOpts `json:"opts,omitempty"`
	Script string     `json:"script,omitempty"`
	Op     string     `json:"op,omitempty"`
}

type repoDocs struct {
	Repo repoSpec  `json:"repo"`
	Docs []docSpec `json:"docs"`
}

func (h *harness) runDetail(d detail, class string) {
	switch d.Kind {
	case "shard":
		h.shardCase(*d.Repo, d.Docs, class, true)
	case "bigshard":
		h.shardCase(*d.Repo, d.Docs, class, false)
	case "builder":
		h.builderCase(*d.Repo, d.Docs, *d.Opts, class)
	case "compound":
		h.compoundCase(d.Repos, class)
	case "pb":
		h.pbScript(d.Script, class)
	case "op":
		h.opCase(d.Op, class)
	default:
		panic("unknown replay kind " + d.Kind)
	}
}

func (h *harness) replay(path string) {
	b, err := os.ReadFile(path)
	if err != nil {
		panic(err)
	}
	var rf replayFile
	if err := json.Unmarshal(b, &rf); err != nil {
		panic(err)
	}
	raw := rf.Case.Detail
	if len(raw) == 0 {
		raw = rf.Detail
	}
	var d detail
	if err := json.Unmarshal(raw, &d); err != nil {
		panic(err)
	}
	h.runDetail(d, "replay")
}

func (h *harness) corpus(dir string) {
	ents, err := os.ReadDir(dir)
	if err != nil {
		return
	}
	for _, e := range ents {
		if !strings.HasSuffix(e.Name(), ".json") {
			continue
		}
		b, err := os.ReadFile(dir + "/" + e.Name())
		if err != nil {
			panic(err)
		}
		var rf replayFile
		if err := json.Unmarshal(b, &rf); err != nil {
			panic(fmt.Sprintf("corpus %s: %v", e.Name(), err))
		}
		raw := rf.Case.Detail
		if len(raw) == 0 {
			raw = rf.Detail
		}
		var d detail
		if err := json.Unmarshal(raw, &d); err != nil {
			panic(fmt.Sprintf("corpus %s: %v", e.Name(), err))
		}
		h.runDetail(d, "corpus")
	}
}

// ---------------------------------------------------------------- in-memory index file

type memFile struct {
	data []byte
	name string
}

func (m *memFile) Read(off, sz uint32) ([]byte, error) {
	if uint64(off)+uint64(sz) > uint64(len(m.data)) {
		return nil, fmt.Errorf("out of bounds: %d+%d > %d", off, sz, len(m.data))
	}
	return m.data[off : off+sz], nil
}
func (m *memFile) Size() (uint32, error) { return uint32(len(m.data)), nil }
func (m *memFile) Close()                {}
func (m *memFile) Name() string          { return m.name }

func (h *harness) mem(data []byte) *memFile {
	h.seq++
	return &memFile{data: data, name: fmt.Sprintf("%s/mem-%d.zoekt", h.tmp, h.seq)}
}

func searchAll(s zoekt.Searcher) (*zoekt.SearchResult, error) {
	return s.Search(context.Background(), constTrue(), &zoekt.SearchOptions{Whole: true})
}

var _ = bytes.Equal
var _ = index.IndexFormatVersion
