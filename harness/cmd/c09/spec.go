package main

import (
	"encoding/json"
	"fmt"
	"sort"
	"strings"
	"time"
	"unicode/utf8"

	"github.com/grafana/regexp"
	"github.com/sourcegraph/zoekt"
	"github.com/sourcegraph/zoekt/index"
	"github.com/sourcegraph/zoekt/languages"
	"github.com/sourcegraph/zoekt/query"

	"verifharness/gen"
)

func constTrue() query.Q { return &query.Const{Value: true} }

type symSpec struct {
	Kind       string `json:"k"`
	Parent     string `json:"p"`
	ParentKind string `json:"pk"`
}

// hexString is a string that survives JSON even when it is not valid UTF-8.
type hexString string

func (h hexString) MarshalJSON() ([]byte, error) { return json.Marshal(gen.Hex([]byte(h))) }
func (h *hexString) UnmarshalJSON(b []byte) error {
	var s string
	if err := json.Unmarshal(b, &s); err != nil {
		return err
	}
	*h = hexString(gen.UnHex(s))
	return nil
}

type docSpec struct {
	Name     hexString               `json:"name"`
	Content  []byte                  `json:"content"`
	Branches []string                `json:"branches"`
	SubRepo  string                  `json:"subrepo"`
	Language string                  `json:"language"`
	Category index.FileCategory      `json:"category"`
	Skip     index.SkipReason        `json:"skip"`
	Symbols  []index.DocumentSection `json:"symbols"`
	Meta     []symSpec               `json:"meta"` // nil = no metadata at all
}

type repoSpec struct {
	Name     string   `json:"name"`
	ID       uint32   `json:"id"`
	Branches []string `json:"branches"`
	SubRepos []string `json:"subrepos"`
	Priority string   `json:"priority,omitempty"`
}

func (r repoSpec) repository() *zoekt.Repository {
	repo := &zoekt.Repository{
		Name:                 r.Name,
		ID:                   r.ID,
		URL:                  "https://example.com/" + r.Name,
		Source:               "/src/" + r.Name,
		CommitURLTemplate:    "{{.Version}}",
		FileURLTemplate:      "{{URLJoinPath \"https://example.com\" .Path}}",
		LineFragmentTemplate: "#L{{.LineNumber}}",
		RawConfig:            map[string]string{"public": "1", "weird": "a\"b\\c\n"},
		Metadata:             map[string]string{"k": "v é"},
		Rank:                 7,
		IndexOptions:         "opts",
		LatestCommitDate:     time.Unix(1700000000, 0).UTC(),
	}
	if r.Priority != "" {
		repo.RawConfig["priority"] = r.Priority
	}
	for i, b := range r.Branches {
		repo.Branches = append(repo.Branches, zoekt.RepositoryBranch{Name: b, Version: fmt.Sprintf("v%d", i)})
	}
	if len(r.SubRepos) > 0 {
		repo.SubRepoMap = map[string]*zoekt.Repository{}
		for _, p := range r.SubRepos {
			sr := &zoekt.Repository{Name: "sub-" + p, URL: "https://example.com/sub/" + p}
			for i, b := range r.Branches {
				sr.Branches = append(sr.Branches, zoekt.RepositoryBranch{Name: b, Version: fmt.Sprintf("s%d", i)})
			}
			repo.SubRepoMap[p] = sr
		}
	}
	return repo
}

func (d docSpec) document() index.Document {
	doc := index.Document{
		Name: string(d.Name), Content: append([]byte(nil), d.Content...), Branches: append([]string(nil), d.Branches...),
		SubRepositoryPath: d.SubRepo, Language: d.Language, Category: d.Category, SkipReason: d.Skip,
		Symbols: append([]index.DocumentSection(nil), d.Symbols...),
	}
	if d.Meta != nil {
		doc.SymbolsMetaData = make([]*zoekt.Symbol, len(d.Meta))
		for i, m := range d.Meta {
			doc.SymbolsMetaData[i] = &zoekt.Symbol{Kind: m.Kind, Parent: m.Parent, ParentKind: m.ParentKind}
		}
	}
	return doc
}

// effSkip: the reason ShardBuilder.Add will index the document under (NUL bytes make an unclassified document binary).
func (d docSpec) effSkip() index.SkipReason {
	if d.Category == index.FileCategoryMissing && strings.IndexByte(string(d.Content), 0) >= 0 {
		return index.SkipReasonBinary
	}
	return d.Skip
}

// langHint / catHint: what go-enry says (the model takes these as inputs).
func (d docSpec) langHint() string {
	var content []byte
	if d.effSkip() == index.SkipReasonNone {
		content = d.Content
	}
	if l := languages.GetLanguagesFromContent(string(d.Name), content); len(l) > 0 {
		return l[0]
	}
	return ""
}

func (d docSpec) catHint() index.FileCategory {
	c := index.Document{Name: string(d.Name), Content: d.Content, SkipReason: d.effSkip()}
	index.DetermineFileCategory(&c)
	return c.Category
}

// ---- line protocol encoding

func hexS(s string) string { return gen.Hex([]byte(s)) }

func hexList(l []string) string {
	if len(l) == 0 {
		return "_"
	}
	p := make([]string, len(l))
	for i, s := range l {
		p[i] = hexS(s)
	}
	return strings.Join(p, ",")
}

func pairs(secs []index.DocumentSection) string {
	if len(secs) == 0 {
		return "-"
	}
	p := make([]string, len(secs))
	for i, s := range secs {
		p[i] = fmt.Sprintf("%d:%d", s.Start, s.End)
	}
	return strings.Join(p, ",")
}

func symStr(k, p, pk string) string { return hexS(k) + "." + hexS(p) + "." + hexS(pk) }

func (d docSpec) line() string {
	metas := "_"
	if len(d.Meta) > 0 {
		p := make([]string, len(d.Meta))
		for i, m := range d.Meta {
			p[i] = symStr(m.Kind, m.Parent, m.ParentKind)
		}
		metas = strings.Join(p, ",")
	}
	return strings.Join([]string{hexS(string(d.Name)), gen.Hex(d.Content), hexList(d.Branches), hexS(d.SubRepo), hexS(d.Language),
		hexS(d.langHint()), fmt.Sprint(int(d.Category)), fmt.Sprint(int(d.catHint())), fmt.Sprint(int(d.Skip)),
		pairs(d.Symbols), metas}, ";")
}

func docsLine(ds []docSpec) string {
	if len(ds) == 0 {
		return "_"
	}
	p := make([]string, len(ds))
	for i, d := range ds {
		p[i] = d.line()
	}
	return strings.Join(p, "|")
}

func (r repoSpec) line() string { return hexList(r.Branches) + ";" + hexList(r.SubRepos) }

// ---- generators

var multi = []string{"é", "€", "𝄞", "ß", "日本語", "İ", "́"}
var invalid = []string{"\xff", "\xe2\x82", "\xc0\x80", "\xed\xa0\x80", "\xf4\x90\x80\x80", "\x80"}

// genContent makes source-like text; when boundary is set it places multi-byte runes (or invalid bytes) so that a
// rune index of 99, 100 or 101 of the *corpus* (startRune runes precede this content) falls on them.
func genContent(r *gen.Rand, maxTokens int, malformed bool, startRune int, boundary bool) []byte {
	b := gen.Text(r, maxTokens, malformed)
	b = []byte(strings.ReplaceAll(string(b), "\x00", " "))
	if boundary {
		// pad with ASCII so that the next rune index is 98..101 modulo 100, then add a cluster of wide runes
		n := utf8.RuneCount(b) + startRune
		want := 98 + r.Intn(4)
		pad := ((want-n)%100 + 100) % 100
		for i := 0; i < pad; i++ {
			b = append(b, byte('a'+r.Intn(26)))
		}
		for i := 0; i < 1+r.Intn(4); i++ {
			if malformed && r.Chance(1, 3) {
				b = append(b, gen.Pick(r, invalid)...)
			} else {
				b = append(b, gen.Pick(r, multi)...)
			}
		}
		b = append(b, gen.Text(r, 6, malformed)...)
		b = []byte(strings.ReplaceAll(string(b), "\x00", " "))
	}
	return b
}

// runeStarts: byte offsets at which Go's decoding starts a rune, plus len(b).
func runeStarts(b []byte) []int {
	var out []int
	for i := 0; i < len(b); {
		out = append(out, i)
		_, sz := utf8.DecodeRune(b[i:])
		i += sz
	}
	return append(out, len(b))
}

var kinds = []string{"function", "class", "", "method", "var", "é-kind"}
var parents = []string{"", "Foo", "pkg", "main", "Bar.baz", "日本"}

func genSymbols(r *gen.Rand, content []byte, max int, bad bool) ([]index.DocumentSection, []symSpec) {
	rs := runeStarts(content)
	n := r.Intn(max + 1)
	if n == 0 || len(content) == 0 {
		return nil, nil
	}
	// choose 2n boundaries, sorted; sections are consecutive pairs (possibly empty, possibly touching)
	idx := make([]int, 2*n)
	for i := range idx {
		idx[i] = rs[r.Intn(len(rs))]
	}
	sort.Ints(idx)
	var secs []index.DocumentSection
	var meta []symSpec
	for i := 0; i < n; i++ {
		secs = append(secs, index.DocumentSection{Start: uint32(idx[2*i]), End: uint32(idx[2*i+1])})
		meta = append(meta, symSpec{gen.Pick(r, kinds), gen.Pick(r, parents), gen.Pick(r, kinds)})
	}
	// distinct starts keep the (unstable) sort deterministic
	dedup := secs[:0]
	var dm []symSpec
	for i, s := range secs {
		if i > 0 && s.Start == secs[i-1].Start {
			continue
		}
		dedup = append(dedup, s)
		dm = append(dm, meta[i])
	}
	secs, meta = dedup, dm
	if bad && len(secs) > 0 {
		i := r.Intn(len(secs))
		switch r.Intn(5) {
		case 0: // not on a rune boundary
			secs[i].End++
		case 1: // past the end
			secs[i].End = uint32(len(content) + 1 + r.Intn(3))
		case 2: // overlap with the next
			if i+1 < len(secs) {
				secs[i].End = secs[i+1].Start + 1
			}
		case 3: // inverted
			secs[i].Start, secs[i].End = secs[i].End, secs[i].Start
		case 4: // inverted, starting at the end of the content
			secs = secs[:i+1]
			meta = meta[:i+1]
			secs[i] = index.DocumentSection{Start: uint32(len(content)), End: uint32(rs[r.Intn(len(rs))])}
		}
	}
	// shuffled input order: Add sorts
	if r.Chance(1, 2) && len(secs) <= 12 {
		perm := make([]int, len(secs))
		for i := range perm {
			perm[i] = i
		}
		gen.Shuffle(r, perm)
		s2 := make([]index.DocumentSection, len(secs))
		m2 := make([]symSpec, len(secs))
		for i, p := range perm {
			s2[i], m2[i] = secs[p], meta[p]
		}
		secs, meta = s2, m2
	}
	return secs, meta
}

var langs = []string{"Go", "Python", "", "C++", "Zoekt-Lang-é"}
var fileNames = []string{"main.go", "a/b/c.py", "README.md", "é/日本.txt", "vendor/x/y.go", "foo_test.go", ".gitignore", "Makefile", "x", "dir/sp ace.c", "a\xffb.txt"}

// branchPool: branch names shared by all generated repositories, so that repositories of one compound shard have
// branches of the same name at *different* positions of their branch lists (each repository takes a prefix of the pool
// and, half of the time, shuffles it).
var branchPool = func() []string {
	p := []string{"main", "dev", "release", "stable", "feature/x"}
	for i := len(p); i < 64; i++ {
		p = append(p, fmt.Sprintf("b%d", i))
	}
	return p
}()

func genRepo(r *gen.Rand, name string) repoSpec {
	rp := repoSpec{Name: name, ID: uint32(1 + r.Intn(1000))}
	nb := gen.Pick(r, []int{0, 1, 1, 2, 3, 5, 31, 32, 33, 63, 64})
	rp.Branches = append(rp.Branches, branchPool[:nb]...)
	switch r.Intn(4) {
	case 0, 1:
		gen.Shuffle(r, rp.Branches)
	case 2: // rotate: every shared name moves
		if nb > 1 {
			k := 1 + r.Intn(nb-1)
			rp.Branches = append(append([]string(nil), rp.Branches[k:]...), rp.Branches[:k]...)
		}
	}
	if nb > 0 && r.Chance(1, 4) {
		// zoekt reads the query branch "HEAD" as "the first branch", so the name HEAD is only ever given to the first one
		rp.Branches[0] = "HEAD"
	}
	ns := gen.Pick(r, []int{0, 0, 1, 2, 3})
	for i := 0; i < ns; i++ {
		rp.SubRepos = append(rp.SubRepos, gen.Pick(r, []string{"sub", "a/b", "zz", "Sub", "é"})+fmt.Sprint(i))
	}
	return rp
}

// sharedBranchAtDifferentIndex: some branch name occurs in two of the repositories at different positions
func sharedBranchAtDifferentIndex(repos []repoDocs) bool {
	pos := map[string]int{}
	for _, rd := range repos {
		for i, b := range rd.Repo.Branches {
			if j, ok := pos[b]; ok && j != i {
				return true
			}
			if _, ok := pos[b]; !ok {
				pos[b] = i
			}
		}
	}
	return false
}

// genDoc: one document for repo rp; startRune = runes of the contents before it (to aim at the sampling boundaries)
func genDoc(r *gen.Rand, rp repoSpec, i int, maxTokens int, startRune int, allowBad bool) docSpec {
	return genDocM(r, rp, i, maxTokens, startRune, allowBad, false)
}

// genDocM: noMeta = symbol sections come without SymbolsMetaData
func genDocM(r *gen.Rand, rp repoSpec, i int, maxTokens int, startRune int, allowBad bool, noMeta bool) docSpec {
	d := docSpec{}
	d.SubRepo = ""
	if len(rp.SubRepos) > 0 && r.Chance(1, 2) {
		d.SubRepo = gen.Pick(r, rp.SubRepos)
	}
	nm := fmt.Sprintf("%d-%s", i, gen.Pick(r, fileNames))
	if d.SubRepo != "" {
		nm = d.SubRepo + "/" + nm
	}
	d.Name = hexString(nm)
	malformed := r.Chance(1, 5)
	switch r.Intn(10) {
	case 0:
		d.Content = nil
	case 1:
		d.Content = []byte(gen.Pick(r, []string{"a", "ab", "é", "\n", "abc", "ab\n"}))
	default:
		d.Content = genContent(r, maxTokens, malformed, startRune, r.Chance(1, 2))
	}
	// branches: a subset of the repository's, in any order
	for _, b := range rp.Branches {
		if r.Chance(1, 2) {
			d.Branches = append(d.Branches, b)
		}
	}
	if len(rp.Branches) == 64 && r.Chance(1, 2) {
		d.Branches = append([]string(nil), rp.Branches...)
	}
	gen.Shuffle(r, d.Branches)
	d.Language = gen.Pick(r, langs)
	d.Category = index.FileCategory(r.Intn(9)) // 0 = missing: let Add classify
	switch r.Intn(12) {
	case 0:
		d.Skip = index.SkipReasonTooLarge
	case 1:
		d.Skip = index.SkipReasonTooSmall
	case 2:
		d.Skip = index.SkipReasonBinary
	case 3:
		d.Skip = index.SkipReasonTooManyTrigrams
	case 4:
		d.Skip = index.SkipReasonMissing
	case 5:
		// binary content, unclassified: Add itself must reject it
		if len(d.Content) > 0 {
			d.Content[r.Intn(len(d.Content))] = 0
			d.Category = index.FileCategoryMissing
		}
	}
	d.Symbols, d.Meta = genSymbols(r, d.Content, gen.Pick(r, []int{0, 1, 3, 8, 20}), allowBad && r.Chance(1, 12))
	if len(d.Symbols) == 0 {
		d.Symbols, d.Meta = nil, nil
	}
	if noMeta && len(d.Symbols) > 12 { // sort.Sort swaps (pdqsort) above 12 elements even on sorted input: keep to insertion sort
		d.Symbols = nil
	}
	if noMeta && len(d.Symbols) > 0 {
		// symbol ranges without metadata (as most of the package's own tests pass them); sorted, so that Add's sort never swaps
		sort.Slice(d.Symbols, func(i, j int) bool { return d.Symbols[i].Start < d.Symbols[j].Start })
		d.Meta = nil
	}
	return d
}

func countRunes(b []byte) int { return len(runeStarts(b)) - 1 }

func mustRE(s string) *regexp.Regexp { return regexp.MustCompile(s) }
