package main

import (
	"bytes"
	"context"
	"encoding/binary"
	"encoding/json"
	"fmt"
	"hash/crc64"
	"reflect"
	"sort"
	"strings"
	"time"
	"unicode/utf8"

	"github.com/sourcegraph/zoekt"
	"github.com/sourcegraph/zoekt/index"
	"github.com/sourcegraph/zoekt/query"

	"verifharness/gen"
)

var explanations = map[index.SkipReason]string{
	index.SkipReasonTooLarge:        "NOT-INDEXED: exceeds the maximum size limit",
	index.SkipReasonTooSmall:        "NOT-INDEXED: contains too few trigrams",
	index.SkipReasonBinary:          "NOT-INDEXED: contains binary content",
	index.SkipReasonTooManyTrigrams: "NOT-INDEXED: contains too many trigrams",
	index.SkipReasonMissing:         "NOT-INDEXED: object missing from repository",
}

// expectDoc: what the statement of C09 says must be read back for d (written without reference to the implementation).
type expectDoc struct {
	Name     string
	Content  []byte
	Branches []string
	Checksum []byte
	Language string // "" = whatever go-enry says; checked separately
	SubRepo  string
	Secs     []index.DocumentSection // sorted by start
	Meta     []symSpec               // parallel to Secs; nil if the input had none
	Rejected bool
}

func expected(rp repoSpec, d docSpec) expectDoc {
	e := expectDoc{Name: string(d.Name), SubRepo: d.SubRepo, Language: d.Language}
	skip := d.effSkip()
	if skip != index.SkipReasonNone {
		e.Content = []byte(explanations[skip])
		e.Rejected = true
	} else {
		e.Content = d.Content
		type sm struct {
			s index.DocumentSection
			m symSpec
		}
		l := make([]sm, len(d.Symbols))
		for i := range d.Symbols {
			l[i].s = d.Symbols[i]
			if d.Meta != nil {
				l[i].m = d.Meta[i]
			}
		}
		sort.SliceStable(l, func(i, j int) bool { return l[i].s.Start < l[j].s.Start })
		for _, x := range l {
			e.Secs = append(e.Secs, x.s)
			if d.Meta != nil {
				e.Meta = append(e.Meta, x.m)
			}
		}
	}
	in := map[string]bool{}
	for _, b := range d.Branches {
		in[b] = true
	}
	for _, b := range rp.Branches {
		if in[b] {
			e.Branches = append(e.Branches, b)
		}
	}
	var ck [8]byte
	binary.BigEndian.PutUint64(ck[:], crc64.Checksum(e.Content, crc64.MakeTable(crc64.ISO)))
	e.Checksum = ck[:]
	return e
}

// buildShard feeds the real ShardBuilder; returns the file, or the index and class of the first refused document.
func buildShard(rp repoSpec, docs []docSpec) (file []byte, failIdx int, failClass string) {
	b, err := index.NewShardBuilder(rp.repository())
	if err != nil {
		return nil, -1, "newbuilder:" + err.Error()
	}
	b.IndexTime = fixedTime
	b.ID = "verifverifverifverif"
	for i, d := range docs {
		res := safely(func() string {
			if err := b.Add(d.document()); err != nil {
				return "err"
			}
			return "ok"
		})
		if res != "ok" {
			return nil, i, res
		}
	}
	var buf bytes.Buffer
	if err := b.Write(&buf); err != nil {
		return nil, len(docs), "write:" + err.Error()
	}
	return buf.Bytes(), -1, ""
}

func dumpDocs(sh *index.VerifShard, rp repoSpec) string {
	if len(sh.Docs) == 0 {
		return "_"
	}
	var parts []string
	for _, d := range sh.Docs {
		var brs []string
		for i := 0; i < 64; i++ {
			if d.BranchMask>>uint(i)&1 == 1 {
				nm := ""
				if i < len(rp.Branches) {
					nm = rp.Branches[i]
				}
				brs = append(brs, nm)
			}
		}
		syms := "_"
		if len(d.Symbols) > 0 {
			p := make([]string, len(d.Symbols))
			for i, s := range d.Symbols {
				if s == nil {
					p[i] = "nil"
				} else {
					p[i] = symStr(s.Kind, s.Parent, s.ParentKind)
				}
			}
			syms = strings.Join(p, ",")
		}
		parts = append(parts, strings.Join([]string{gen.Hex(d.Name), gen.Hex(d.Content), hexList(brs), gen.Hex(d.Checksum),
			hexS(d.Language), fmt.Sprint(int(d.Category)), hexS(d.SubRepoPath), pairs(d.Sections), pairs(d.RuneSections), syms}, ";"))
	}
	return strings.Join(parts, "|")
}

// naive trigram scan of a corpus (documents back to back, rune offsets global, trigrams never span documents)
func naivePostings(contents [][]byte) map[uint64][]uint32 {
	out := map[uint64][]uint32{}
	base := uint32(0)
	for _, c := range contents {
		var rs []rune
		for i := 0; i < len(c); {
			r, sz := utf8.DecodeRune(c[i:])
			rs = append(rs, r)
			i += sz
		}
		for i := 0; i+3 <= len(rs); i++ {
			ng := uint64(rs[i])<<42 | uint64(rs[i+1])<<21 | uint64(rs[i+2])
			out[ng] = append(out[ng], base+uint32(i))
		}
		base += uint32(len(rs))
	}
	return out
}

func naiveRuneToByte(contents [][]byte) []uint32 {
	var out []uint32
	rune, byteOff := 0, 0
	for _, c := range contents {
		for i := 0; i < len(c); {
			if rune%100 == 0 {
				out = append(out, uint32(byteOff+i))
			}
			_, sz := utf8.DecodeRune(c[i:])
			i += sz
			rune++
		}
		byteOff += len(c)
	}
	return out
}

func postingsEqual(a, b map[uint64][]uint32) string {
	if len(a) != len(b) {
		return fmt.Sprintf("%d ngrams, want %d", len(a), len(b))
	}
	for k, v := range b {
		if !reflect.DeepEqual(a[k], v) {
			return fmt.Sprintf("ngram %d: %v want %v", k, a[k], v)
		}
	}
	return ""
}

// repoExpect: one repository of a shard with the documents expected in it (in shard order when ordered).
type repoExpect struct {
	spec repoSpec
	repo *zoekt.Repository // expected repository metadata
	exp  []expectDoc
}

func fail(key, f string, a ...any) (string, string) { return fmt.Sprintf(f, a...), key }

// checkDocFields compares the dumped documents docs (consecutive in the shard, the first starting at rune *startRune)
// with exp, field by field.
func checkDocFields(docs []index.VerifDoc, exp []expectDoc, startRune *uint32, branches []string) (string, string) {
	if len(docs) != len(exp) {
		return fail("doc-count", "%d documents read back, %d added", len(docs), len(exp))
	}
	for i, d := range docs {
		e := exp[i]
		switch {
		case string(d.Name) != e.Name:
			return fail("name", "doc %d name %q want %q", i, d.Name, e.Name)
		case !bytes.Equal(d.Content, e.Content):
			if e.Rejected {
				return fail("placeholder", "doc %d (%s) placeholder %q want %q", i, e.Name, d.Content, e.Content)
			}
			return fail("content", "doc %d (%s) content differs", i, e.Name)
		case !bytes.Equal(d.Checksum, e.Checksum):
			return fail("checksum", "doc %d checksum %x want %x", i, d.Checksum, e.Checksum)
		case e.Language != "" && d.Language != e.Language:
			return fail("language", "doc %d language %q want %q", i, d.Language, e.Language)
		case d.SubRepoPath != e.SubRepo:
			return fail("subrepo", "doc %d subrepo %q want %q", i, d.SubRepoPath, e.SubRepo)
		case len(d.Sections) != len(e.Secs) || (len(e.Secs) > 0 && !reflect.DeepEqual(d.Sections, e.Secs)):
			return fail("sections", "doc %d sections %v want %v", i, d.Sections, e.Secs)
		case len(d.RuneSections) != len(e.Secs):
			return fail("runesections-length", "doc %d has %d rune sections, %d sections", i, len(d.RuneSections), len(e.Secs))
		}
		// the stored branch mask: one bit per branch of the document, at the branch's position in *its* repository's list
		var wantMask uint64
		for _, eb := range e.Branches {
			for bi, rb := range branches {
				if rb == eb {
					wantMask |= 1 << uint(bi)
				}
			}
		}
		if d.BranchMask != wantMask {
			return fail("branch-mask", "doc %d (%s) branch mask %b want %b (branches %v of %v)", i, e.Name, d.BranchMask, wantMask, e.Branches, branches)
		}
		rs := runeStarts(d.Content)
		for j, sec := range d.RuneSections {
			a, b := int(sec.Start)-int(*startRune), int(sec.End)-int(*startRune)
			if a < 0 || b < a || b >= len(rs) || rs[a] != int(e.Secs[j].Start) || rs[b] != int(e.Secs[j].End) {
				return fail("runesections", "doc %d rune section %v does not denote byte section %v", i, sec, e.Secs[j])
			}
		}
		for j, sym := range d.Symbols {
			if e.Meta == nil {
				continue // no metadata was given: nothing promised
			}
			if sym == nil || sym.Kind != e.Meta[j].Kind || sym.Parent != e.Meta[j].Parent || sym.ParentKind != e.Meta[j].ParentKind {
				return fail("symbols", "doc %d symbol %d = %+v want %+v", i, j, sym, e.Meta[j])
			}
		}
		var nl []uint32
		for k, c := range d.Content {
			if c == '\n' {
				nl = append(nl, uint32(k))
			}
		}
		if len(nl) != len(d.Newlines) || (len(nl) > 0 && !reflect.DeepEqual(nl, d.Newlines)) {
			return fail("newlines", "doc %d newlines %v want %v", i, d.Newlines, nl)
		}
		*startRune += uint32(len(rs) - 1)
		if d.EndRune != *startRune {
			return fail("endrune", "doc %d ends at rune %d want %d", i, d.EndRune, *startRune)
		}
	}
	return "", ""
}

// checkGlobal: posting lists against a naive trigram scan, b-tree lookups, rune-offset samples.
func checkGlobal(sh *index.VerifShard) (string, string) {
	var contents, names [][]byte
	for _, d := range sh.Docs {
		contents = append(contents, d.Content)
		names = append(names, d.Name)
	}
	if m := postingsEqual(sh.Content, naivePostings(contents)); m != "" {
		return fail("postings", "content postings: %s", m)
	}
	if m := postingsEqual(sh.Names, naivePostings(names)); m != "" {
		return fail("name-postings", "name postings: %s", m)
	}
	if len(sh.GetFails) > 0 {
		return fail("btree-get", "btree lookups: %v", sh.GetFails[:1])
	}
	if want := naiveRuneToByte(contents); len(want) != len(sh.RuneToByte) || (len(want) > 0 && !reflect.DeepEqual(want, sh.RuneToByte)) {
		return fail("rune-offsets", "rune→byte samples %v want %v", sh.RuneToByte, want)
	}
	if want := naiveRuneToByte(names); len(want) != len(sh.NameRuneToByte) || (len(want) > 0 && !reflect.DeepEqual(want, sh.NameRuneToByte)) {
		return fail("name-rune-offsets", "name rune→byte samples %v want %v", sh.NameRuneToByte, want)
	}
	return "", ""
}

type metaExpect struct {
	formatVersion int
	id            string // "" = any
	indexTime     *time.Time
}

// checkAPI: the public API over a loaded shard holding the repositories reps: Search(Const true, Whole), per-branch search, List.
func checkAPI(s zoekt.Searcher, reps []repoExpect, me metaExpect) (string, string) {
	total := 0
	for _, re := range reps {
		total += len(re.exp)
	}
	res, err := searchAll(s)
	if err != nil {
		return fail("search-error", "search: %v", err)
	}
	if len(res.Files) != total {
		return fail("search-count", "Search(TRUE) returns %d files, %d added", len(res.Files), total)
	}
	byName := map[string]zoekt.FileMatch{}
	for _, f := range res.Files {
		byName[f.Repository+"\x00"+f.FileName] = f
	}
	for _, re := range reps {
		rp := re.spec
		for _, e := range re.exp {
			f, ok := byName[rp.Name+"\x00"+e.Name]
			switch {
			case !ok:
				return fail("search-missing", "file %q not returned", e.Name)
			case !bytes.Equal(f.Content, e.Content):
				return fail("search-content", "file %q content differs", e.Name)
			case !reflect.DeepEqual(append([]string(nil), f.Branches...), append([]string(nil), e.Branches...)) && (len(f.Branches)+len(e.Branches) > 0):
				return fail("search-branches", "file %q branches %v want %v", e.Name, f.Branches, e.Branches)
			case !bytes.Equal(f.Checksum, e.Checksum):
				return fail("search-checksum", "file %q checksum", e.Name)
			case e.Language != "" && f.Language != e.Language:
				return fail("search-language", "file %q language %q want %q", e.Name, f.Language, e.Language)
			case f.SubRepositoryPath != e.SubRepo:
				return fail("search-subrepo", "file %q subrepo %q want %q", e.Name, f.SubRepositoryPath, e.SubRepo)
			case f.RepositoryID != rp.ID:
				return fail("search-repo", "file %q repository %q/%d", e.Name, f.Repository, f.RepositoryID)
			}
			if e.SubRepo != "" && f.SubRepositoryName != re.repo.SubRepoMap[e.SubRepo].Name {
				return fail("search-subreponame", "file %q subrepo name %q", e.Name, f.SubRepositoryName)
			}
			if len(e.Branches) > 0 { // version of the first branch the file is on
				idx := -1
				for i, b := range rp.Branches {
					if b == e.Branches[0] {
						idx = i
						break
					}
				}
				want := fmt.Sprintf("v%d", idx)
				if e.SubRepo != "" {
					want = fmt.Sprintf("s%d", idx)
				}
				if f.Version != want {
					return fail("search-version", "file %q version %q want %q", e.Name, f.Version, want)
				}
			}
		}
		// per-branch search finds exactly the documents on that branch
		for bi, br := range rp.Branches {
			if bi > 2 && bi != 31 && bi != 32 && bi != 63 {
				continue
			}
			q := query.NewAnd(&query.Branch{Pattern: br, Exact: true}, &query.Repo{Regexp: mustRE("^" + rp.Name + "$")})
			r2, err := s.Search(context.Background(), q, &zoekt.SearchOptions{})
			if err != nil {
				return fail("branch-search-error", "%v", err)
			}
			got := map[string]bool{}
			for _, f := range r2.Files {
				got[f.FileName] = true
			}
			for _, e := range re.exp {
				on := false
				for _, b := range e.Branches {
					on = on || b == br
				}
				if on != got[e.Name] {
					return fail("branch-search", "branch %q: file %q found=%v want %v", br, e.Name, got[e.Name], on)
				}
			}
		}
	}

	// ---- List: repository and index metadata
	rl, err := s.List(context.Background(), constTrue(), nil)
	if err != nil {
		return fail("list-error", "%v", err)
	}
	if len(rl.Repos) != len(reps) {
		return fail("list-count", "List returns %d repos, want %d", len(rl.Repos), len(reps))
	}
	for _, re := range reps {
		var ent *zoekt.RepoListEntry
		for _, x := range rl.Repos {
			if x.Repository.Name == re.spec.Name {
				ent = x
			}
		}
		if ent == nil {
			return fail("list-missing", "List does not return repository %q", re.spec.Name)
		}
		wantJSON, _ := json.Marshal(normRepo(re.repo))
		gotJSON, _ := json.Marshal(normRepo(&ent.Repository))
		if !bytes.Equal(wantJSON, gotJSON) {
			return fail("repo-metadata", "repository metadata %s want %s", gotJSON, wantJSON)
		}
		md := ent.IndexMetadata
		if md.IndexFormatVersion != me.formatVersion || md.IndexFeatureVersion != index.FeatureVersion || (me.id != "" && md.ID != me.id) ||
			(me.indexTime != nil && !md.IndexTime.Equal(*me.indexTime)) {
			return fail("index-metadata", "index metadata %+v", md)
		}
		if ent.Stats.Documents != len(re.exp) {
			return fail("list-documents", "List says %d documents, want %d", ent.Stats.Documents, len(re.exp))
		}
	}
	return "", ""
}

var fixedTime = time.Unix(1700000001, 0).UTC()

// oracle checks a loaded single-repository shard against the documents that were added (in order, or matched by
// name when the Builder re-sorted them).
func oracle(s zoekt.Searcher, sh *index.VerifShard, rp repoSpec, repo *zoekt.Repository, docs []docSpec, ordered bool, me metaExpect) (string, string) {
	if len(sh.Docs) != len(docs) {
		return fail("doc-count", "%d documents read back, %d added", len(sh.Docs), len(docs))
	}
	exp := make([]expectDoc, len(docs))
	for i, d := range docs {
		exp[i] = expected(rp, d)
	}
	if !ordered {
		byName := map[string]expectDoc{}
		for _, e := range exp {
			byName[e.Name] = e
		}
		for i, d := range sh.Docs {
			e, ok := byName[string(d.Name)]
			if !ok {
				return fail("name", "document %q read back but never added (or twice)", d.Name)
			}
			exp[i] = e
			delete(byName, string(d.Name))
		}
	}
	start := uint32(0)
	if v, k := checkDocFields(sh.Docs, exp, &start, rp.Branches); v != "" {
		return v, k
	}
	if v, k := checkGlobal(sh); v != "" {
		return v, k
	}
	return checkAPI(s, []repoExpect{{rp, repo, exp}}, me)
}

func normRepo(r *zoekt.Repository) *zoekt.Repository {
	c := *r
	if c.SubRepoMap == nil {
		c.SubRepoMap = map[string]*zoekt.Repository{}
	}
	return &c
}

// symbolOracle: every symbol section with metadata is found by a symbol search for its text, with the metadata attached.
func symbolOracle(s zoekt.Searcher, rp repoSpec, docs []docSpec) (string, string) {
	for _, d := range docs {
		if d.effSkip() != index.SkipReasonNone || d.Meta == nil {
			continue
		}
		for j, sec := range d.Symbols {
			txt := d.Content[sec.Start:sec.End]
			if len(txt) < 3 || !utf8.Valid(txt) || bytes.ContainsAny(txt, "\n") || j > 3 {
				continue
			}
			q := query.NewAnd(&query.Symbol{Expr: &query.Substring{Pattern: string(txt), CaseSensitive: true, Content: true}},
				&query.Substring{Pattern: string(d.Name), FileName: true, CaseSensitive: true})
			res, err := s.Search(context.Background(), q, &zoekt.SearchOptions{ChunkMatches: true})
			if err != nil {
				return err.Error(), "symbol-search-error"
			}
			found := false
			for _, f := range res.Files {
				if f.FileName != string(d.Name) {
					continue
				}
				for _, cm := range f.ChunkMatches {
					for k, rg := range cm.Ranges {
						if rg.Start.ByteOffset == sec.Start && rg.End.ByteOffset == sec.End && k < len(cm.SymbolInfo) && cm.SymbolInfo[k] != nil {
							si := cm.SymbolInfo[k]
							if si.Kind == d.Meta[j].Kind && si.Parent == d.Meta[j].Parent && si.ParentKind == d.Meta[j].ParentKind && si.Sym == string(txt) {
								found = true
							}
						}
					}
				}
			}
			if !found {
				return fmt.Sprintf("symbol %q [%d,%d) of %q with %+v not found by symbol search", txt, sec.Start, sec.End, d.Name, d.Meta[j]), "symbol-search"
			}
		}
	}
	return "", ""
}

// shardCase: one single-repository shard through the real ShardBuilder. withModel: also sent to the Lean model.
func (h *harness) shardCase(rp repoSpec, docs []docSpec, class string, withModel bool) {
	kind := "bigshard"
	if withModel {
		kind = "shard"
	}
	c := gen.Case{Class: class, Detail: gen.Detail(detail{Kind: kind, Repo: &rp, Docs: docs})}
	file, failIdx, failClass := buildShard(rp, docs)
	metaJSON, repoJSON := []byte(nil), []byte(nil)
	if file == nil {
		c.Impl = fmt.Sprintf("%s@%d", failClass, failIdx)
		c.Class = class + "/refused-" + failClass
		if failClass == "panic" {
			c.Go, c.Key = fmt.Sprintf("ShardBuilder.Add panics on document %d", failIdx), "add-panic"
			if d := docs[failIdx]; invertedAtEOF(d) {
				c.Key = "add-panic-inverted-section-at-eof"
			}
		} else if failClass != "err" {
			c.Go, c.Key = failClass, "build-failed"
		}
	} else {
		mf := h.mem(file)
		s, err := index.NewSearcher(mf)
		if err != nil {
			c.Go, c.Key = "NewSearcher: "+err.Error(), "load-failed"
		} else {
			sh, err := index.VerifDumpShard(s)
			if err != nil {
				c.Go, c.Key = "dump: "+err.Error(), "dump-failed"
			} else {
				c.Impl = "file=" + gen.Hex(file) + " docs=" + dumpDocs(sh, rp)
				if !withModel {
					c.Impl = ""
				}
				c.Go, c.Key = oracle(s, sh, rp, rp.repository(), docs, true, metaExpect{index.IndexFormatVersion, "verifverifverifverif", &fixedTime})
				if c.Go == "" {
					c.Go, c.Key = symbolOracle(s, rp, docs)
				}
				c.Nontrivial = len(docs) >= 2
				h.w.Count("docs", len(docs))
				for _, d := range docs {
					if d.effSkip() != index.SkipReasonNone {
						h.w.Count("docs-rejected", 1)
					}
					if len(d.Symbols) > 0 {
						h.w.Count("docs-with-symbols", 1)
					}
					if !utf8.Valid(d.Content) {
						h.w.Count("docs-invalid-utf8", 1)
					}
				}
				if len(rp.Branches) == 64 {
					h.w.Count("shards-64-branches", 1)
				}
				if len(sh.RuneToByte) > 1 {
					h.w.Count("shards-with-rune-samples", 1)
				}
			}
			secs, err := index.VerifReadSections(mf)
			if err == nil {
				for _, sc := range secs {
					if sc.Tag == "metaData" {
						metaJSON = sc.Data
					}
					if sc.Tag == "repoMetaData" {
						repoJSON = sc.Data
					}
				}
			}
		}
	}
	if withModel {
		c.In = fmt.Sprintf("shard %s %s %s %s", rp.line(), docsLine(docs), gen.Hex(metaJSON), gen.Hex(repoJSON))
	}
	h.w.Emit(c)
}

func invertedAtEOF(d docSpec) bool {
	for _, s := range d.Symbols {
		if s.Start > s.End && int(s.Start) == len(d.Content) {
			return true
		}
	}
	return false
}

func (h *harness) shardCases(r *gen.Rand, n int) {
	for i := 0; i < n; i++ {
		rp := genRepo(r, "repo")
		nd := gen.Pick(r, []int{0, 1, 2, 3, 4, 6})
		var docs []docSpec
		runes := 0
		noMeta := i%7 == 6 // a shard where no document carries symbol metadata
		for j := 0; j < nd; j++ {
			d := genDocM(r, rp, j, 14, runes, !noMeta, noMeta)
			docs = append(docs, d)
			if d.effSkip() == index.SkipReasonNone {
				runes += countRunes(d.Content)
			} else {
				runes += len(explanations[d.effSkip()])
			}
		}
		h.shardCase(rp, docs, "shard", true)
	}
}

// bigShardCases: Go oracles only — many distinct trigrams (b-tree buckets of 512: exact multiples), long lines, many documents.
func (h *harness) bigShardCases(r *gen.Rand, n int) {
	for i := 0; i < n; i++ {
		rp := genRepo(r, "bigrepo")
		var docs []docSpec
		mode := i % 4
		switch mode {
		case 3: // more than 256 distinct languages (two-byte language codes)
			for j := 0; j < 300; j++ {
				d := genDoc(r, rp, j, 6, 0, false)
				d.Language = fmt.Sprintf("Lang-%d", j)
				d.Symbols, d.Meta = nil, nil
				docs = append(docs, d)
			}
		case 0: // exactly k*512 (+-1) distinct content trigrams
			k := gen.Pick(r, []int{1, 2, 3, 4})
			target := k*512 + gen.Pick(r, []int{-1, 0, 1})
			docs = append(docs, distinctTrigramDocs(r, rp, target)...)
		case 1: // one very long line with wide runes, plus small files
			var b []byte
			for len(b) < 30000 {
				b = append(b, gen.Text(r, 50, false)...)
				b = bytes.ReplaceAll(b, []byte("\n"), []byte(" "))
			}
			d := genDoc(r, rp, 0, 10, 0, false)
			d.Content, d.Symbols, d.Meta, d.Skip = b, nil, nil, index.SkipReasonNone
			if d.Category == index.FileCategoryMissing {
				d.Category = index.FileCategoryDefault
			}
			docs = append(docs, d)
			for j := 1; j < 5; j++ {
				docs = append(docs, genDoc(r, rp, j, 30, 0, false))
			}
		case 2: // many documents
			runes := 0
			for j := 0; j < 150; j++ {
				d := genDoc(r, rp, j, 40, runes, false)
				runes += countRunes(d.Content)
				docs = append(docs, d)
			}
		}
		h.shardCase(rp, docs, fmt.Sprintf("bigshard/mode%d", mode), false)
	}
}

// distinctTrigramDocs: documents whose contents have exactly `target` distinct trigrams in total.
func distinctTrigramDocs(r *gen.Rand, rp repoSpec, target int) []docSpec {
	// a de-Bruijn-like walk is overkill: emit "xyz\n"-separated words over a 3-letter alphabet cube and count.
	seen := map[[3]rune]bool{}
	var docs []docSpec
	var cur []rune
	alphabet := []rune("abcdefghijklmnopqrstuvwxyzé日")
	flush := func() {
		d := docSpec{Name: hexString(fmt.Sprintf("t%d.txt", len(docs))), Content: []byte(string(cur)), Language: "Text", Category: index.FileCategoryDefault}
		if len(rp.Branches) > 0 {
			d.Branches = []string{rp.Branches[0]}
		}
		docs = append(docs, d)
		cur = nil
	}
	for len(seen) < target {
		c := alphabet[r.Intn(len(alphabet))]
		cand := append(cur, c)
		n := len(cand)
		if n >= 3 {
			seen[[3]rune{cand[n-3], cand[n-2], cand[n-1]}] = true
		}
		cur = cand
		if len(cur) > 400 && len(seen) < target {
			flush()
		}
	}
	flush()
	return docs
}
