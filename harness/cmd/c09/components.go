package main

import (
	"encoding/binary"
	"fmt"
	"hash/crc64"
	"strconv"
	"strings"

	"github.com/sourcegraph/zoekt/index"

	"verifharness/gen"
)

func (h *harness) emitOp(op, impl, class string, nontrivial bool, goVerdict, key string) {
	h.w.Emit(gen.Case{In: op, Impl: impl, Class: class, Nontrivial: nontrivial, Go: goVerdict, Key: key,
		Detail: gen.Detail(detail{Kind: "op", Op: op})})
}

func safely(f func() string) (out string) {
	defer func() {
		if e := recover(); e != nil {
			out = "panic"
		}
	}()
	return f()
}

// opCase evaluates one coder op line against the real code.
func (h *harness) opCase(op, class string) {
	fs := strings.Fields(op)
	impl, goV, key := "", "", ""
	switch fs[0] {
	case "enc32":
		impl = gen.Hex(index.VerifToSizedDeltas(parseU32s(fs[1])))
	case "dec32":
		impl = safely(func() string { return gen.NatList(index.VerifFromSizedDeltas(gen.UnHex(fs[1]))) })
	case "decraw":
		impl = safely(func() string { return gen.NatList(index.VerifFromDeltas(gen.UnHex(fs[1]))) })
	case "enc16":
		var l []uint16
		for _, x := range parseU32s(fs[1]) {
			l = append(l, uint16(x))
		}
		impl = gen.Hex(index.VerifToSizedDeltas16(l))
	case "dec16":
		impl = safely(func() string { return gen.NatList(index.VerifFromSizedDeltas16(gen.UnHex(fs[1]))) })
	case "msec":
		impl = gen.Hex(index.VerifMarshalDocSections(parsePairs(fs[1])))
	case "usec":
		impl = safely(func() string { return pairs(index.VerifUnmarshalDocSections(gen.UnHex(fs[1]))) })
	case "rt32":
		l := parseU32s(fs[1])
		impl = gen.NatList(index.VerifFromSizedDeltas(index.VerifToSizedDeltas(l)))
		// Go oracle, independent of the Lean side: the list comes back
		if impl != gen.NatList(l) {
			goV, key = "round trip differs", "deltas-roundtrip"
		}
		// 16-bit variant and doc sections on the same numbers
		var l16 []uint16
		for _, x := range l {
			l16 = append(l16, uint16(x))
		}
		if gen.NatList(index.VerifFromSizedDeltas16(index.VerifToSizedDeltas16(l16))) != gen.NatList(l16) {
			goV, key = "16-bit round trip differs", "deltas16-roundtrip"
		}
	case "check":
		mx, _ := strconv.Atoi(fs[2])
		impl = fmt.Sprint(int(index.VerifCheck(gen.UnHex(fs[1]), mx, fs[3] == "1")))
	case "checkseq":
		// ONE DocChecker for the whole sequence, as a Builder has for its whole life
		var dc index.DocChecker
		var res []int
		for _, call := range strings.Split(fs[1], ",") {
			p := strings.Split(call, ":")
			mx, _ := strconv.Atoi(p[1])
			res = append(res, int(dc.Check(gen.UnHex(p[0]), mx, p[2] == "1")))
		}
		impl = gen.NatList(res)
		// Go oracle, independent of the Lean side: each verdict equals that of a fresh checker
		for i, call := range strings.Split(fs[1], ",") {
			p := strings.Split(call, ":")
			mx, _ := strconv.Atoi(p[1])
			var fresh index.DocChecker
			if int(fresh.Check(gen.UnHex(p[0]), mx, p[2] == "1")) != res[i] {
				goV, key = fmt.Sprintf("call %d on a reused DocChecker gives %d, a fresh checker gives another verdict", i, res[i]), "checker-state-leak"
			}
		}
	case "crc":
		var b [8]byte
		binary.BigEndian.PutUint64(b[:], crc64.Checksum(gen.UnHex(fs[1]), crc64.MakeTable(crc64.ISO)))
		impl = gen.Hex(b[:])
	default:
		panic("op " + fs[0])
	}
	h.emitOp(op, impl, class+"/"+fs[0], len(fs[1]) > 4, goV, key)
}

func parseU32s(s string) []uint32 {
	if s == "-" {
		return nil
	}
	var out []uint32
	for _, p := range strings.Split(s, ",") {
		v, err := strconv.ParseUint(p, 10, 32)
		if err != nil {
			panic(err)
		}
		out = append(out, uint32(v))
	}
	return out
}

func parsePairs(s string) []index.DocumentSection {
	if s == "-" {
		return nil
	}
	var out []index.DocumentSection
	for _, p := range strings.Split(s, ",") {
		ab := strings.Split(p, ":")
		a, _ := strconv.ParseUint(ab[0], 10, 32)
		b, _ := strconv.ParseUint(ab[1], 10, 32)
		out = append(out, index.DocumentSection{Start: uint32(a), End: uint32(b)})
	}
	return out
}

var edges = []uint32{0, 1, 2, 99, 100, 101, 126, 127, 128, 129, 255, 256, 16383, 16384, 16385, 65535, 65536, 2097151, 2097152,
	268435455, 268435456, 1<<31 - 1, 1 << 31, 1<<32 - 2, 1<<32 - 1}

func genU32s(r *gen.Rand) []uint32 {
	n := gen.Pick(r, []int{0, 1, 2, 3, 5, 8, 20, 60})
	l := make([]uint32, n)
	mode := r.Intn(4)
	var cur uint32
	for i := range l {
		switch mode {
		case 0: // monotone with edge-sized gaps
			cur += gen.Pick(r, edges) % 70000
			l[i] = cur
		case 1: // arbitrary, non-monotone (wrap-around deltas)
			l[i] = uint32(r.U64())
		case 2:
			l[i] = gen.Pick(r, edges)
		default:
			l[i] = uint32(r.Intn(300))
		}
	}
	return l
}

// validVarintStream: a byte string made of complete varints (< 2^64), some in the value range ≥ 2^32 (truncated by
// the decoders). With sized=true the first varint is a small size prefix (the decoders allocate that many elements up
// front; absurd prefixes are C11's subject).
func validVarintStream(r *gen.Rand, sized bool) []byte {
	var b []byte
	n := r.Intn(9)
	if sized {
		b = binary.AppendUvarint(b, uint64(gen.Pick(r, []int{n, n, 0, 1, 127, 128, 300})))
	}
	for i := 0; i < n; i++ {
		var v uint64
		switch r.Intn(4) {
		case 0:
			v = uint64(gen.Pick(r, edges))
		case 1:
			v = r.U64() // truncated by uint32(delta)
		case 2:
			v = uint64(r.Intn(200))
		default:
			v = 1<<32 + uint64(r.Intn(5))
		}
		b = binary.AppendUvarint(b, v)
	}
	return b
}

func (h *harness) coderCases(r *gen.Rand, n int) {
	for i := 0; i < n; i++ {
		switch i % 8 {
		case 0:
			h.opCase("enc32 "+gen.NatList(genU32s(r)), "coder")
		case 1:
			h.opCase("rt32 "+gen.NatList(genU32s(r)), "coder")
		case 2:
			h.opCase("dec32 "+gen.Hex(validVarintStream(r, true)), "coder")
		case 3:
			h.opCase("decraw "+gen.Hex(validVarintStream(r, false)), "coder")
		case 4:
			l := genU32s(r)
			for j := range l {
				l[j] &= 0xffff
			}
			h.opCase("enc16 "+gen.NatList(l), "coder")
		case 5:
			h.opCase("dec16 "+gen.Hex(validVarintStream(r, true)), "coder")
		case 6:
			l := genU32s(r)
			if len(l)%2 == 1 {
				l = l[1:]
			}
			var secs []index.DocumentSection
			for j := 0; j+1 < len(l); j += 2 {
				secs = append(secs, index.DocumentSection{Start: l[j], End: l[j+1]})
			}
			h.opCase("msec "+pairs(secs), "coder")
		case 7:
			h.opCase("usec "+gen.Hex(validVarintStream(r, true)), "coder")
		}
	}
}

func (h *harness) checkCases(r *gen.Rand, n int) {
	for i := 0; i < n; i++ {
		var c []byte
		switch r.Intn(8) {
		case 0:
			c = []byte(gen.Pick(r, []string{"", "a", "ab", "abc", "é", "a\x00b", "\x00", "ab\x00"}))
		case 1:
			c = genContent(r, 30, true, 0, false)
			if len(c) > 0 {
				c[r.Intn(len(c))] = 0
			}
		default:
			c = genContent(r, 40, r.Chance(1, 3), 0, r.Chance(1, 4))
		}
		mx := gen.Pick(r, []int{0, 1, 2, 3, 5, 10, 20, 50, 1000})
		if r.Chance(1, 3) && len(c) > 3 {
			mx = len(c) - gen.Pick(r, []int{1, 2, 3, 4})
			if mx < 0 {
				mx = 0
			}
		}
		allow := "0"
		if r.Chance(1, 6) {
			allow = "1"
		}
		h.opCase(fmt.Sprintf("check %s %d %s", gen.Hex(c), mx, allow), "check")
		if i%5 == 0 {
			h.opCase("crc "+gen.Hex(c), "crc")
		}
	}
}

// lowEntropy: long content with few distinct trigrams (a short unit repeated), optionally with wide runes
func lowEntropy(r *gen.Rand, minLen int) []byte {
	unit := gen.Pick(r, []string{"ab", "a", "xyz ", "foo\n", "é", "日本", "ab\n", "=-"})
	var b []byte
	for len(b) < minLen+r.Intn(40) {
		b = append(b, unit...)
	}
	return b
}

// highEntropy: content with at least n distinct trigrams
func highEntropy(r *gen.Rand, n int) []byte {
	var b []byte
	for i := 0; i < n+6; i++ {
		b = append(b, byte('a'+r.Intn(26)), byte('A'+(i%26)), byte('0'+(i/26)%10))
	}
	return b
}

// checkSeqCases: sequences of Check calls on one reused DocChecker — documents rejected by the early return ("too many
// trigrams") followed by long documents with few trigrams, binary and tiny documents in between, constant limit (as a
// Builder uses it) or a limit that changes between calls.
func (h *harness) checkSeqCases(r *gen.Rand, n int) {
	for i := 0; i < n; i++ {
		mx := gen.Pick(r, []int{3, 5, 10, 20, 50})
		var calls []string
		tooManyBefore, lowAfter := false, 0
		for j := 0; j < 2+r.Intn(5); j++ {
			m := mx
			if i%3 == 2 && r.Chance(1, 2) {
				m = gen.Pick(r, []int{1, 3, 5, 10, 20, 50, 200})
			}
			var c []byte
			allow := "0"
			switch r.Intn(7) {
			case 0, 1:
				c = highEntropy(r, m)
				tooManyBefore = true
			case 2, 3, 4:
				c = lowEntropy(r, m+3)
				if tooManyBefore {
					lowAfter++
				}
			case 5:
				c = []byte(gen.Pick(r, []string{"", "ab", "abc", "a\x00bcdefgh"}))
			case 6:
				c = genContent(r, 30, r.Chance(1, 3), 0, false)
				if r.Chance(1, 4) {
					allow = "1"
				}
			}
			calls = append(calls, fmt.Sprintf("%s:%d:%s", gen.Hex(c), m, allow))
		}
		if lowAfter > 0 {
			h.w.Count("checkseq-low-entropy-after-too-many", 1)
		}
		h.opCase("checkseq "+strings.Join(calls, ","), "checkseq")
	}
}

// ---- postings builder scripts

func dumpPB(d index.VerifPostingsDump) string {
	po := "_"
	if len(d.Postings) > 0 {
		p := make([]string, len(d.Postings))
		for i, x := range d.Postings {
			p[i] = gen.Hex(x)
		}
		po = strings.Join(p, ",")
	}
	pl := "0"
	if d.PlainASCII {
		pl = "1"
	}
	return fmt.Sprintf("ng=%s/po=%s/ro=%s/er=%s/pl=%s/eb=%d/rc=%d", gen.NatList(d.Ngrams), po, gen.Hex(d.RuneOffsets),
		gen.Hex(d.EndRunes), pl, d.EndByte, d.RuneCount)
}

// pbScript runs `a:<hex>:<secs>`, `r`, `w` commands (separated by ~) on one real postingsBuilder.
func (h *harness) pbScript(script, class string) {
	pb := index.VerifNewPostings()
	var out []string
	resets, adds := 0, 0
	goV, key := "", ""
loop:
	for _, cmd := range strings.Split(script, "~") {
		switch {
		case cmd == "r":
			pb.Reset()
			resets++
			out = append(out, "r")
		case cmd == "w":
			d, err := pb.Write()
			if err != nil {
				out = append(out, "werr")
				break loop
			}
			out = append(out, dumpPB(d))
			// Go oracle: ngrams strictly increasing, no empty posting list
			for i := range d.Ngrams {
				if i > 0 && d.Ngrams[i-1] >= d.Ngrams[i] {
					goV, key = "ngramText not strictly increasing", "ngrams-unsorted"
				}
				if len(d.Postings[i]) == 0 {
					goV, key = "empty posting list written", "empty-posting"
				}
			}
		default:
			parts := strings.SplitN(cmd, ":", 3)
			data := gen.UnHex(parts[1])
			secs := parsePairs(parts[2])
			adds++
			res := safely(func() string {
				rs, err := pb.Add(data, secs)
				if err != nil {
					return "err"
				}
				return "ok:" + pairs(rs)
			})
			out = append(out, res)
			if res == "err" || res == "panic" {
				break loop
			}
		}
	}
	h.w.Emit(gen.Case{In: "pb " + script, Impl: strings.Join(out, "~"), Class: fmt.Sprintf("%s/resets=%d", class, min(resets, 3)),
		Nontrivial: adds >= 2, Go: goV, Key: key, Detail: gen.Detail(detail{Kind: "pb", Script: script})})
}

func (h *harness) pbCases(r *gen.Rand, n int) {
	for i := 0; i < n; i++ {
		var cmds []string
		runes := 0
		steps := 2 + r.Intn(8)
		for j := 0; j < steps; j++ {
			switch r.Intn(8) {
			case 0:
				cmds = append(cmds, "w", "r")
				runes = 0
			case 1:
				cmds = append(cmds, "w")
			default:
				c := genContent(r, 25, r.Chance(1, 4), runes, r.Chance(1, 2))
				var secs []index.DocumentSection
				if r.Chance(1, 2) {
					secs, _ = genSymbols(r, c, 4, r.Chance(1, 10))
					// newSearchableString wants them sorted by start
					for a := 1; a < len(secs); a++ {
						for b := a; b > 0 && secs[b].Start < secs[b-1].Start; b-- {
							secs[b], secs[b-1] = secs[b-1], secs[b]
						}
					}
				}
				runes += countRunes(c)
				cmds = append(cmds, "a:"+gen.Hex(c)+":"+pairs(secs))
			}
		}
		cmds = append(cmds, "w")
		h.pbScript(strings.Join(cmds, "~"), "pb")
	}
}
