// C14 harness.
//
// Unit-level correspondence (real code through hooks vs. the Lean model):
//
//	ignore  – ignore.ParseIgnoreFile + Matcher.Match on generated ignore files and paths
//	cf      – the real catfileReader (Next, Read, io.ReadFull) over generated streams delivered in random chunk sizes
//	slab    – the real contentSlab.alloc; Go oracle: every allocation is filled (and some are appended to), all contents
//	          must be intact at the end
//	docs    – the real indexCatfileBlobs over a generated stream into a real index.Builder, shard read back
//
// End to end: generated repositories (real objects, real `git cat-file --batch` for one of the two reading paths),
// indexed with the real IndexGitRepo through both blob-reading paths, shards read back with index.NewSearcher:
//
//	collect – what the real prepareNormalBuild computed vs. the model; Lean checkDocs on the implementation's map
//	doc2    – per file: the document of either path vs. the model; Lean checkContent and equality of the two paths
//	Go oracle – expected documents from `git ls-tree` + the blob bytes + an independent ignore matcher.
package main

import (
	"bytes"
	"context"
	"encoding/json"
	"fmt"
	"io"
	"os"
	"os/exec"
	"path/filepath"
	"sort"
	"strings"

	"github.com/sourcegraph/zoekt"
	"github.com/sourcegraph/zoekt/gitindex"
	"github.com/sourcegraph/zoekt/ignore"
	"github.com/sourcegraph/zoekt/index"
	"github.com/sourcegraph/zoekt/query"

	"verifharness/gen"
)

// ------------------------------------------------------------------ ignore

var ignoreLines = []string{"foo", "dir/", "/dir/sub", "*.txt", "dir/*.go", "**/x.c", "a?c", "# comment", "", "  spaced  ",
	"file.txt", "secret", "e2", "z/**", "dir/**/d.go", "*", "README", "/a.txt", "b", "dir/f*", "\tdir/g\r", "x**y", "?", "e2/in?er", "#", "big/**",
	// brace alternatives, escapes, character classes (gobwas/glob syntax beyond the wildcards)
	"{vendor,third_party}/**", "\\[generated\\]/**", "dir/{c,f}.txt", "[ab].txt", "dir/[!c]*", "*.{go,c}", "z/\\*", "{e,e2}", "{foo,secret}",
	"[a-c]*", "\\#notcomment", "dir/sub/[cd].go", "{README,dir/g}", "x{a,b}{c,d}", "{a\\,b,abc}", "[!a-c].txt", "file[.]txt", "{file,x}.txt"}
var pathPool = []string{"a.txt", "b.txt", "dir/c.txt", "dir/sub/d.go", "e", "dir/f.txt", "z/y/x.c", "e2/inner", "README", "dir/g",
	"foo", "foo/bar", "foobar", "secret/x", "secret2", "abc", "a/c", "file.txt", "file.txt.bak", "spaced", "big/one", "x.c", "b", "bb", "xy", "x/z/y", "README.md", ".sourcegraph/ignore",
	"vendor/lib/x.go", "third_party/y.c", "[generated]/api.go", "generated/api.go", "x.go", "d/x.c", "c.txt", "d.txt", "z/*", "z/q", "#notcomment", "xbd", "xab", "a,b", "filextxt"}

func genIgnoreFile(r *gen.Rand) []byte {
	var b bytes.Buffer
	n := r.Range(0, 5)
	for i := 0; i < n; i++ {
		b.WriteString(gen.Pick(r, ignoreLines))
		if i < n-1 || r.Chance(2, 3) {
			b.WriteString("\n")
		}
	}
	return b.Bytes()
}

func ignoreCases(w *gen.Writer, r *gen.Rand, n int) {
	for i := 0; i < n; i++ {
		file := genIgnoreFile(r)
		m, err := ignore.ParseIgnoreFile(bytes.NewReader(file))
		if err != nil {
			panic(fmt.Sprintf("ParseIgnoreFile(%q): %v", file, err))
		}
		any := false
		for k := 0; k < 6; k++ {
			p := gen.Pick(r, pathPool)
			got := m.Match(p)
			any = any || got
			w.Emit(gen.Case{In: fmt.Sprintf("ignore %s %s", gen.Hex(file), gen.Hex([]byte(p))), Impl: b01(got),
				Class: fmt.Sprintf("ignore:%v", got), Nontrivial: len(file) > 0})
		}
	}
}

func b01(b bool) string {
	if b {
		return "1"
	}
	return "0"
}

// ------------------------------------------------------------------ cat-file stream

type chunkReader struct {
	data []byte
	r    *gen.Rand
	max  int
}

func (c *chunkReader) Read(p []byte) (int, error) {
	if len(c.data) == 0 {
		return 0, io.EOF
	}
	n := len(p)
	if c.max > 0 {
		n = min(n, c.r.Range(1, c.max))
	}
	n = min(n, len(c.data))
	copy(p, c.data[:n])
	c.data = c.data[n:]
	return n, nil
}

type rec struct {
	kind    string // blob | missing | excluded | bad-*
	content []byte
	raw     []byte
}

func genContent(r *gen.Rand, maxLen int) []byte {
	n := r.Intn(maxLen + 1)
	switch r.Intn(8) {
	case 0:
		n = 0
	case 1:
		n = r.Range(1, 2)
	}
	b := make([]byte, n)
	for i := range b {
		switch r.Intn(12) {
		case 0:
			b[i] = '\n'
		case 1:
			b[i] = ' '
		default:
			b[i] = byte('a' + r.Intn(26))
		}
	}
	return b
}

func genRec(r *gen.Rand, malformed bool, maxLen int) rec {
	oid := fmt.Sprintf("%040x", r.U64())
	switch r.Intn(10) {
	case 0:
		return rec{kind: "missing", raw: []byte(oid + " missing\n")}
	case 1:
		return rec{kind: "excluded", raw: []byte(oid + " excluded\n")}
	}
	c := genContent(r, maxLen)
	if r.Chance(1, 10) { // content that looks like a header
		c = []byte(oid + " missing\n" + oid + " blob 3\nabc\n")
	}
	if malformed {
		switch r.Intn(6) {
		case 0:
			return rec{kind: "bad-nospace", raw: []byte("garbage\n")}
		case 1:
			return rec{kind: "bad-size", raw: []byte(oid + " blob 12x\n" + string(c) + "\n")}
		case 2:
			return rec{kind: "bad-negative", raw: []byte(oid + " blob -5\n")}
		case 3:
			return rec{kind: "bad-truncated", content: c, raw: []byte(fmt.Sprintf("%s blob %d\n%s", oid, len(c)+r.Range(1, 4), c))}
		case 4:
			return rec{kind: "bad-noheaderlf", raw: []byte(oid + " blob 3")}
		case 5:
			return rec{kind: "bad-plus", content: c, raw: []byte(fmt.Sprintf("%s blob +%d\n%s\n", oid, len(c), c))}
		}
	}
	return rec{kind: "blob", content: c, raw: []byte(fmt.Sprintf("%s blob %d\n%s\n", oid, len(c), c))}
}

func errClass(err error) string {
	switch {
	case err == nil:
		return "ok"
	case err == io.EOF:
		return "eof"
	}
	return "err"
}

func cfCases(w *gen.Writer, r *gen.Rand, n int) {
	for i := 0; i < n; i++ {
		malformed := i%7 == 6
		nrec := r.Range(0, 5)
		var stream []byte
		var recs []rec
		for k := 0; k < nrec; k++ {
			rc := genRec(r, malformed && k == nrec-1, 40)
			recs = append(recs, rc)
			stream = append(stream, rc.raw...)
		}
		cr := &chunkReader{data: append([]byte(nil), stream...), r: r.Fork(), max: gen.Pick(r, []int{0, 1, 3, 7, 20})}
		v := gitindex.VerifNewCatfile(cr, gen.Pick(r, []int{16, 16, 64, 4096}), false)
		var ops, outs []string
		classes := map[string]bool{}
		for k := 0; k <= nrec; k++ {
			size, missing, excluded, err := v.Next()
			ops = append(ops, "n")
			var o string
			switch {
			case err == io.EOF:
				o = "eof"
			case err != nil:
				o = "err"
			case missing:
				o = "missing"
			case excluded:
				o = "excluded"
			default:
				o = fmt.Sprintf("blob%d", size)
			}
			outs = append(outs, fmt.Sprintf("%s/%d", o, v.Pending()))
			if err != nil {
				break
			}
			if missing || excluded || size < 0 {
				continue
			}
			// decision: skip, read fully, partial reads then skip / then the rest
			dec := r.Intn(5)
			classes[fmt.Sprintf("decision:%d", dec)] = true
			remaining := size
			if dec >= 2 {
				nreads := r.Range(1, 3)
				for j := 0; j < nreads; j++ {
					plen := r.Range(1, 12)
					buf := make([]byte, plen)
					got, err := v.Read(buf)
					k := got
					if k == 0 {
						k = 1
					}
					ops = append(ops, fmt.Sprintf("r%d:%d", plen, k))
					outs = append(outs, fmt.Sprintf("%s:%s/%d", gen.Hex(buf[:got]), errClass(err), v.Pending()))
					remaining -= got
					if err != nil {
						break
					}
				}
			}
			if dec == 1 || dec == 3 {
				if remaining < 0 {
					remaining = 0
				}
				buf := make([]byte, remaining)
				got, err := io.ReadFull(v, buf)
				ops = append(ops, fmt.Sprintf("f%d", remaining))
				outs = append(outs, fmt.Sprintf("%s:%s/%d", gen.Hex(buf[:got]), b01(err == nil), v.Pending()))
			}
		}
		class := "cf:wellformed"
		if malformed {
			class = "cf:malformed"
		}
		for c := range classes {
			w.Count(c, 1)
		}
		w.Emit(gen.Case{In: fmt.Sprintf("cf %s %s", gen.Hex(stream), strings.Join(ops, ",")), Impl: strings.Join(outs, ","),
			Class: class, Nontrivial: nrec >= 2})
	}
}

// ------------------------------------------------------------------ slab

func slabCases(w *gen.Writer, r *gen.Rand, n int) {
	for i := 0; i < n; i++ {
		capv := gen.Pick(r, []int{0, 1, 8, 16, 64})
		v := gitindex.VerifNewSlab(capv)
		na := r.Range(0, 12)
		var sizes []int
		var outs []string
		var live [][]byte
		var want [][]byte
		gn, serial := 0, 0
		for k := 0; k < na; k++ {
			sz := r.Intn(capv + 6)
			if r.Chance(1, 6) {
				sz = 0
			}
			sizes = append(sizes, sz)
			b, a := v.Alloc(sz)
			if a.NewBuf {
				gn++
			}
			if a.InSlab {
				outs = append(outs, fmt.Sprintf("s%d@%d+%d/%d", gn, a.Off, a.Len, a.Cap))
			} else {
				outs = append(outs, fmt.Sprintf("o%d+%d/%d", serial, a.Len, a.Cap))
				serial++
			}
			for j := range b {
				b[j] = byte(k*16 + j%16)
			}
			live = append(live, b)
			want = append(want, append([]byte(nil), b...))
			if r.Chance(1, 3) && k > 0 { // append to an earlier allocation: must not bleed into a neighbour
				j := r.Intn(k)
				live[j] = append(live[j], 0xEE)
				want[j] = append(want[j], 0xEE)
			}
		}
		verdict := "ok"
		for k := range live {
			if !bytes.Equal(live[k], want[k]) {
				verdict = fmt.Sprintf("allocation %d was overwritten", k)
			}
		}
		w.Emit(gen.Case{In: fmt.Sprintf("slab %d %s", capv, gen.NatList(sizes)), Impl: joinOr(outs, ","), Go: verdict, Key: "slab-overwrite",
			Class: "slab", Nontrivial: na >= 3})
	}
}

func joinOr(xs []string, sep string) string {
	if len(xs) == 0 {
		return "-"
	}
	return strings.Join(xs, sep)
}

// ------------------------------------------------------------------ reading shards back

type outDoc struct {
	Name     string
	Content  []byte
	Branches []string
}

func readIndexDir(dir string) []outDoc {
	shards, _ := filepath.Glob(filepath.Join(dir, "*.zoekt"))
	sort.Strings(shards)
	var out []outDoc
	for _, fn := range shards {
		f, err := os.Open(fn)
		if err != nil {
			panic(err)
		}
		inf, err := index.NewIndexFile(f)
		if err != nil {
			panic(err)
		}
		s, err := index.NewSearcher(inf)
		if err != nil {
			panic(err)
		}
		res, err := s.Search(context.Background(), &query.Const{Value: true}, &zoekt.SearchOptions{Whole: true})
		if err != nil {
			panic(err)
		}
		for _, fm := range res.Files {
			out = append(out, outDoc{fm.FileName, append([]byte(nil), fm.Content...), append([]string(nil), fm.Branches...)}) // the shard is unmapped on Close
		}
		s.Close()
	}
	sort.Slice(out, func(i, j int) bool {
		if out[i].Name != out[j].Name {
			return out[i].Name < out[j].Name
		}
		return bytes.Compare(out[i].Content, out[j].Content) < 0
	})
	return out
}

const marker = "NOT-INDEXED: "

// docCode: `ok:<hex>` or the skip class of a NOT-INDEXED placeholder
func docCode(content []byte) string {
	if bytes.HasPrefix(content, []byte(marker)) {
		switch string(content[len(marker):]) {
		case "exceeds the maximum size limit":
			return "large:-"
		case "contains too few trigrams":
			return "small:-"
		case "contains binary content":
			return "binary:-"
		case "object missing from repository":
			return "missing:-"
		}
		return "other:-"
	}
	return "ok:" + gen.Hex(content)
}

// ------------------------------------------------------------------ docs: indexCatfileBlobs over a generated stream

// docsRun is one run of the real indexCatfileBlobs into a real index.Builder, split into its two stages so that
// several runs can be interleaved in one process: the documents handed to a Builder must stay intact until that
// Builder's Finish, whatever other runs do in between (content buffers must not be shared across runs).
type docsRun struct {
	sizeMax  int
	stream   []byte
	keys     []gitindex.VerifKey
	branches map[gitindex.VerifKey][]string
	allow    []byte
	want     []string // Go oracle: the document each key must produce
	dir      string
	bo       index.Options
	builder  *index.Builder
	cr       *chunkReader
	bufSize  int
	err      error
	nrec     int
	fault    string
	mustFail bool // the stream leaves requested ids unanswered: the run has to report an error
}

// rich: every record is a text blob that is indexed with its content (so that any overwriting of a pending
// document's bytes is visible)
func newDocsRun(r *gen.Rand, malformed, rich bool, tmp string) *docsRun {
	return newDocsRunFault(r, malformed, rich, "", tmp)
}

// fault: the cat-file process stops answering before all requested ids were served (killed, crashed, stdin cut):
// its output ends "at-boundary" (after a complete entry), "in-header", "in-content" or "before-lf" of entry m.
// Keys without an answer must make the run fail, never a successful index without their documents.
func newDocsRunFault(r *gen.Rand, malformed, rich bool, fault string, tmp string) *docsRun {
	d := &docsRun{fault: fault, sizeMax: gen.Pick(r, []int{4, 10, 25, 60}), branches: map[gitindex.VerifKey][]string{}}
	d.nrec = r.Range(1, 6)
	if rich {
		d.sizeMax = 60
	}
	var starts, hdrEnds, ends []int
	for k := 0; k < d.nrec; k++ {
		rc := genRec(r, false, 30)
		if rich {
			c := make([]byte, r.Range(8, 30))
			for i := range c {
				c[i] = byte('a' + r.Intn(26))
			}
			rc = rec{kind: "blob", content: c}
		}
		if malformed && k == d.nrec-1 {
			rc = rec{kind: "bad-truncated", raw: []byte(fmt.Sprintf("%040x blob 9\nabc", k))}
		}
		if rc.kind == "blob" && len(rc.content) > 0 && !rich && r.Chance(1, 5) {
			rc.content[r.Intn(len(rc.content))] = 0 // binary
		}
		if rc.kind == "blob" {
			rc.raw = []byte(fmt.Sprintf("%040x blob %d\n%s\n", k, len(rc.content), rc.content))
		}
		starts = append(starts, len(d.stream))
		hdrEnds = append(hdrEnds, len(d.stream)+bytes.IndexByte(rc.raw, '\n')+1)
		d.stream = append(d.stream, rc.raw...)
		ends = append(ends, len(d.stream))
		name := fmt.Sprintf("f%02d", k)
		a := byte('0')
		if r.Chance(1, 3) {
			name = "big/" + name
			a = '1'
		}
		d.allow = append(d.allow, a)
		key := gitindex.VerifKey{Path: name, ID: fmt.Sprintf("%040x", k+1)}
		d.keys = append(d.keys, key)
		d.branches[key] = []string{"main"}
		switch rc.kind {
		case "bad-truncated":
			d.want = append(d.want, "*") // a malformed stream: only the model says what happens
		case "missing":
			d.want = append(d.want, "missing:-")
		case "excluded":
			d.want = append(d.want, "large:-")
		default:
			d.want = append(d.want, expectedCode(rc.content, d.sizeMax, a == '1', false, "cat-file"))
		}
	}
	if fault != "" {
		m := r.Intn(d.nrec)
		switch fault {
		case "at-boundary":
			d.stream, d.mustFail = d.stream[:starts[m]], true
		case "in-header":
			d.stream, d.mustFail = d.stream[:starts[m]+r.Range(1, hdrEnds[m]-starts[m]-1)], true
		case "in-content", "before-lf":
			if ends[m]-hdrEnds[m] < 2 { // no content bytes (missing / excluded / empty blob): cut at the boundary instead
				d.stream, d.mustFail = d.stream[:starts[m]], true
			} else {
				cut := ends[m] - 1
				if fault == "in-content" {
					cut = hdrEnds[m] + r.Intn(ends[m]-1-hdrEnds[m])
				}
				d.stream = d.stream[:cut]
				d.mustFail = m < d.nrec-1 // the cut entry itself may legitimately be skipped without being read
				for i := m; i < len(d.want); i++ {
					d.want[i] = "*"
				}
			}
		}
	}
	var err error
	d.dir, err = os.MkdirTemp(tmp, "docs")
	if err != nil {
		panic(err)
	}
	d.bo = index.Options{IndexDir: d.dir, RepositoryDescription: zoekt.Repository{Name: "r", Branches: []zoekt.RepositoryBranch{{Name: "main", Version: "v"}}},
		DisableCTags: true, SizeMax: d.sizeMax, LargeFiles: []string{"big/**"}} // (unit level: names are f<k> or big/f<k>)
	d.bo.SetDefaults()
	d.builder, err = index.NewBuilder(d.bo)
	if err != nil {
		panic(err)
	}
	d.cr = &chunkReader{data: append([]byte(nil), d.stream...), r: r.Fork(), max: gen.Pick(r, []int{0, 1, 5})}
	d.bufSize = gen.Pick(r, []int{16, 64, 4096})
	return d
}

// catfileStage: the real indexCatfileBlobs (cat-file stream -> slab -> Builder.Add); the Builder is not finished yet
func (d *docsRun) catfileStage() {
	v := gitindex.VerifNewCatfile(d.cr, d.bufSize, true)
	d.err = gitindex.VerifIndexCatfileBlobs(v, d.keys, d.branches, gitindex.Options{BuildOptions: d.bo}, d.builder)
}

// finishStage: Builder.Finish, read the shard back, emit the case
func (d *docsRun) finishStage(w *gen.Writer, schedule string) {
	impl, verdict := "error", "ok"
	if d.err == nil {
		if ferr := d.builder.Finish(); ferr != nil {
			panic(ferr)
		}
		docs := readIndexDir(d.dir)
		byName := map[string]string{}
		for _, doc := range docs {
			byName[doc.Name] = docCode(doc.Content)
		}
		var outs []string
		for i, k := range d.keys {
			outs = append(outs, byName[k.Path])
			if d.want[i] != "*" && byName[k.Path] != d.want[i] && verdict == "ok" {
				verdict = fmt.Sprintf("schedule %s: document %s is %s, its blob gives %s", schedule, k.Path, byName[k.Path], d.want[i])
			}
		}
		impl = joinOr(outs, ",")
		if d.mustFail {
			verdict = fmt.Sprintf("cat-file output ended %s with requested ids unanswered, but indexCatfileBlobs reported success: documents %s", d.fault, impl)
			schedule = "short-stream:" + d.fault
		}
	} else {
		d.builder.Finish()
	}
	os.RemoveAll(d.dir)
	if d.fault != "" {
		w.Count("docs:fault:"+d.fault, 1)
	}
	class := "docs:" + schedule + ":ok"
	if d.err != nil {
		class = "docs:" + schedule + ":error"
	}
	w.Emit(gen.Case{In: fmt.Sprintf("docs %d %s %s", d.sizeMax, gen.Hex(d.stream), d.allow), Impl: impl, Go: verdict, Key: "docs-content:" + schedule,
		Class: class, Nontrivial: d.nrec >= 2 && d.err == nil})
}

// docsCases runs indexCatfileBlobs + Builder alone and in pairs whose stages are interleaved in every order.
func docsCases(w *gen.Writer, r *gen.Rand, n int, tmp string) {
	for i := 0; i < n; i++ {
		rich := i%4 == 1 || i%4 == 2 || i%8 == 3
		a := newDocsRun(r, i%9 == 8 && !rich, rich, tmp)
		if i%4 == 0 { // solo runs: two out of three with a cat-file process that stops early
			if fault := []string{"", "at-boundary", "in-header", "", "in-content", "before-lf"}[(i/4)%6]; fault != "" {
				a = newDocsRunFault(r, false, false, fault, tmp)
			}
		}
		switch i % 4 {
		case 0:
			a.catfileStage()
			a.finishStage(w, "solo")
		case 1: // B runs entirely between A's cat-file stage and A's Finish
			b := newDocsRun(r, false, rich, tmp)
			a.catfileStage()
			b.catfileStage()
			b.finishStage(w, "nested-inner")
			a.finishStage(w, "nested-outer")
		case 2:
			b := newDocsRun(r, false, rich, tmp)
			a.catfileStage()
			b.catfileStage()
			a.finishStage(w, "crossed-first")
			b.finishStage(w, "crossed-second")
		case 3:
			b := newDocsRun(r, false, rich, tmp)
			a.catfileStage()
			a.finishStage(w, "sequential-first")
			b.catfileStage()
			b.finishStage(w, "sequential-second")
		}
	}
}

// ------------------------------------------------------------------ end to end

type fileSpec struct {
	Content int    `json:"c"` // index into Contents
	Mode    string `json:"m"`
}
type repoSpec struct {
	Contents [][]byte                       `json:"contents"`
	Branches []string                       `json:"branches"`
	Trees    map[string]map[string]fileSpec `json:"trees"`
	Indexed  []string                       `json:"indexed"`
	SizeMax  int                            `json:"sizemax"`
	Missing  int                            `json:"missing"` // index of a content whose object is removed; -1 none
	Repack   bool                           `json:"repack,omitempty"`
}

// scriptedRepos: one repository per ignore file of the pool, on two branches, with every path that file is about
// present (and some it must not touch) — so each kind of ignore line is exercised end to end on every run.
// largeFiles is the LargeFiles option of every run: a later pattern overrides an earlier one, `!` negates.
// (A non-empty list also keeps the cat-file path usable with git < 2.50, which has no --filter.)
var largeFiles = []string{"big/**", "!big/two.bin", "keep/**"}

// allowLarge: is path exempted from SizeMax (written from the option's documentation, not from IgnoreSizeMax)
func allowLarge(path string) bool {
	if path == "big/two.bin" {
		return false
	}
	return strings.HasPrefix(path, "big/") || strings.HasPrefix(path, "keep/")
}

// membershipRepo: k branches and, for every non-empty subset S of them, one file that exists exactly on the branches
// of S (same content everywhere), plus one path whose content differs per branch — every pattern of branch
// membership a document's branch list has to reproduce.  The indexed order is a rotation of the branch list.
func membershipRepo(base repoSpec, k, rot int, withHEAD bool) repoSpec {
	names := []string{"main", "dev", "rel", "exp", "old"}[:k]
	sp := repoSpec{Contents: base.Contents, Branches: names, SizeMax: base.SizeMax, Missing: -1, Trees: map[string]map[string]fileSpec{}}
	for bi, b := range names {
		t := map[string]fileSpec{"per-branch.txt": {Content: bi % 6, Mode: "100644"}}
		for mask := 1; mask < 1<<k; mask++ {
			if mask&(1<<bi) != 0 {
				t[fmt.Sprintf("set/%02d.txt", mask)] = fileSpec{Content: mask % 4, Mode: "100644"}
			}
		}
		sp.Trees[b] = t
	}
	for i := range names {
		sp.Indexed = append(sp.Indexed, names[(i+rot)%k])
	}
	if withHEAD {
		sp.Indexed = append([]string{"HEAD"}, sp.Indexed...)
	}
	return sp
}

// sizeRepo: blobs around the size limit that sit at several paths, some exempted by LargeFiles and some not, in both
// sort orders (the limit is decided per path, not per blob), on both reading paths.
func sizeRepo(base repoSpec) repoSpec {
	sp := repoSpec{Contents: base.Contents, Branches: []string{"main", "dev"}, Indexed: []string{"HEAD", "main", "dev"},
		SizeMax: base.SizeMax, Missing: -1, Trees: map[string]map[string]fileSpec{}}
	large, over, exact := 6, 11, 10
	sp.Trees["main"] = map[string]fileSpec{
		"a/notes.txt": {Content: large, Mode: "100644"}, "keep/notes.txt": {Content: large, Mode: "100644"}, "zz/notes.txt": {Content: large, Mode: "100644"},
		"big/one": {Content: over, Mode: "100644"}, "big/two.bin": {Content: over, Mode: "100644"}, "c/over.txt": {Content: over, Mode: "100644"},
		"big/exact": {Content: exact, Mode: "100644"}, "d/exact.txt": {Content: exact, Mode: "100644"}, "small.txt": {Content: 0, Mode: "100644"},
	}
	sp.Trees["dev"] = map[string]fileSpec{
		"keep/first.txt": {Content: over, Mode: "100644"}, "later/copy.txt": {Content: over, Mode: "100644"},
		"a/notes.txt": {Content: large, Mode: "100755"}, "big/two.bin": {Content: large, Mode: "100644"}, "small.txt": {Content: 1, Mode: "100644"},
	}
	return sp
}

func scriptedRepos() []repoSpec {
	base := genRepo(gen.NewRand(1))
	var out []repoSpec
	for _, ig := range []int{12, 13, 15} {
		sp := repoSpec{Contents: base.Contents, Branches: []string{"main", "dev"}, Indexed: []string{"HEAD", "main", "dev"},
			SizeMax: base.SizeMax, Missing: -1, Trees: map[string]map[string]fileSpec{}}
		for bi, b := range sp.Branches {
			t := map[string]fileSpec{".sourcegraph/ignore": {Content: ig, Mode: "100644"}}
			for i, p := range []string{"a.txt", "secret/x.txt", "secret2", "dir/sub/d.go", "scratch.tmp", "dir/s.tmp", "dir/f.txt", "dir/c.txt", "dir/g",
				"z/y/x.c", "README", "vendor/lib.go", "third_party/dep/x.c", "[generated]/api.go", "generated/api.go", "top.c", "top.h", "src/main.c"} {
				if bi == 1 && i%3 == 2 {
					continue // the second branch lacks some of them
				}
				t[p] = fileSpec{Content: (i + bi) % 4, Mode: "100644"}
			}
			if bi == 1 && ig == 15 {
				t[".sourcegraph/ignore"] = fileSpec{Content: 12, Mode: "100644"} // branches may have different ignore files
			}
			sp.Trees[b] = t
		}
		out = append(out, sp)
	}
	out = append(out, membershipRepo(base, 4, 0, false), membershipRepo(base, 3, 1, true), sizeRepo(base))
	return out
}

func genRepo(r *gen.Rand) repoSpec {
	sp := repoSpec{Missing: -1, SizeMax: gen.Pick(r, []int{30, 60, 200})}
	// contents: text, identical reuse, large, binary, tiny, empty, ignore files
	for i := 0; i < 6; i++ {
		sp.Contents = append(sp.Contents, []byte(fmt.Sprintf("text %d\nline\n", i)))
	}
	sp.Contents = append(sp.Contents,
		bytes.Repeat([]byte("large file line\n"), 20), // 6: > any SizeMax
		[]byte("bin\x00ary content"),                  // 7
		[]byte("ab"),                                  // 8: too small
		[]byte{},                                      // 9: empty
		[]byte(strings.Repeat("x", sp.SizeMax)),       // 10: exactly SizeMax
		[]byte(strings.Repeat("y", sp.SizeMax+1)),     // 11: SizeMax+1
		[]byte("# ignore\nsecret\n/dir/sub\n*.tmp\n"), // 12: ignore file A
		[]byte("dir/f*\nz/**\nREADME\n"),              // 13: ignore file B
		[]byte("../target"),                           // 14: symlink target
		[]byte("{vendor,third_party}/**\n\\[generated\\]/**\ndir/{c,f}.txt\n*.[ch]\n"), // 15: ignore file C: braces, escapes, classes
	)
	paths := []string{"a.txt", "b.txt", "dir/c.txt", "dir/sub/d.go", "e", "dir/f.txt", "z/y/x.c", "e2/inner", "README", "dir/g",
		"secret/x.txt", "big/one", "big/two.bin", "scratch.tmp", "dir/s.tmp", "secret2",
		"vendor/lib.go", "third_party/dep/x.c", "[generated]/api.go", "top.c", "src/main.c", "keep/k.txt", "aa/k.txt"}
	nb := r.Range(1, 4)
	sp.Branches = []string{"main", "dev", "rel", "exp"}[:nb]
	sp.Trees = map[string]map[string]fileSpec{}
	for _, b := range sp.Branches {
		t := map[string]fileSpec{}
		for _, p := range paths {
			if !r.Chance(1, 2) {
				continue
			}
			c := r.Intn(12)
			if r.Chance(1, 2) {
				c = r.Intn(4) // identical blobs at different paths and on different branches
			}
			if (strings.HasPrefix(p, "big/") || strings.HasSuffix(p, "/k.txt") || p == "a.txt" || p == "secret2") && r.Chance(1, 2) {
				c = gen.Pick(r, []int{6, 11}) // the same over-limit blob at exempted and non-exempted paths
			}
			if o, ok := sp.Trees["main"][p]; ok && r.Chance(1, 2) {
				t[p] = o
				continue
			}
			mode := "100644"
			switch r.Intn(8) {
			case 0:
				mode = "100755"
			case 1:
				mode, c = "120000", 14
			case 2:
				mode = "160000"
			}
			t[p] = fileSpec{Content: c, Mode: mode}
		}
		if r.Chance(1, 2) {
			t[".sourcegraph/ignore"] = fileSpec{Content: gen.Pick(r, []int{12, 13, 15, 15}), Mode: "100644"}
			if r.Chance(2, 3) { // paths the ignore files are about
				for _, p := range []string{"vendor/lib.go", "third_party/dep/x.c", "[generated]/api.go", "top.c", "src/main.c", "dir/c.txt"} {
					t[p] = fileSpec{Content: r.Intn(4), Mode: "100644"}
				}
				t["dir/sub/d.go"] = fileSpec{Content: r.Intn(4), Mode: "100644"}
				t["dir/f.txt"] = fileSpec{Content: r.Intn(4), Mode: "100644"}
			}
		}
		if len(t) == 0 {
			t["a.txt"] = fileSpec{Content: 0, Mode: "100644"}
		}
		sp.Trees[b] = t
	}
	sp.Indexed = append([]string{}, sp.Branches...)
	if r.Chance(1, 3) {
		sp.Indexed = append([]string{"HEAD"}, sp.Indexed...)
	}
	if r.Chance(1, 5) {
		sp.Missing = r.Intn(6)
	} else {
		sp.Repack = r.Chance(1, 3)
	}
	return sp
}

// glob: an independent matcher for the ignore patterns the generator uses: literals, `\\x` escapes, `?`, `*`, `**`
// ('/' separator), character classes `[…]` / `[!…]` with ranges, brace alternatives of literal text.
func glob(pat, s string) bool {
	if pat == "" {
		return s == ""
	}
	if strings.HasPrefix(pat, "**") {
		for i := 0; i <= len(s); i++ {
			if glob(pat[2:], s[i:]) {
				return true
			}
		}
		return false
	}
	switch pat[0] {
	case '*':
		for i := 0; i <= len(s); i++ {
			if glob(pat[1:], s[i:]) {
				return true
			}
			if i < len(s) && s[i] == '/' {
				break
			}
		}
		return false
	case '?':
		return len(s) > 0 && s[0] != '/' && glob(pat[1:], s[1:])
	case '\\':
		if len(pat) == 1 {
			return s == ""
		}
		return len(s) > 0 && s[0] == pat[1] && glob(pat[2:], s[1:])
	case '[':
		i, neg := 1, false
		if i < len(pat) && pat[i] == '!' {
			neg, i = true, i+1
		}
		in := false
		for i < len(pat) && pat[i] != ']' {
			lo := pat[i]
			if lo == '\\' && i+1 < len(pat) {
				i++
				lo = pat[i]
			}
			hi := lo
			if i+2 < len(pat) && pat[i+1] == '-' && pat[i+2] != ']' {
				hi = pat[i+2]
				i += 2
			}
			if len(s) > 0 && lo <= s[0] && s[0] <= hi {
				in = true
			}
			i++
		}
		if i >= len(pat) {
			panic("oracle glob: unterminated class in " + pat)
		}
		return len(s) > 0 && in != neg && glob(pat[i+1:], s[1:])
	case '{':
		end := -1
		for i := 1; i < len(pat); i++ {
			if pat[i] == '\\' {
				i++
			} else if pat[i] == '}' {
				end = i
				break
			}
		}
		if end < 0 {
			panic("oracle glob: unterminated brace in " + pat)
		}
		var alts []string
		cur := ""
		for i := 1; i < end; i++ {
			switch {
			case pat[i] == '\\':
				cur += pat[i : i+2]
				i++
			case pat[i] == ',':
				alts = append(alts, cur)
				cur = ""
			default:
				cur += string(pat[i])
			}
		}
		alts = append(alts, cur)
		for _, a := range alts {
			if glob(a+pat[end+1:], s) {
				return true
			}
		}
		return false
	}
	return len(s) > 0 && s[0] == pat[0] && glob(pat[1:], s[1:])
}

func oracleIgnored(file []byte, path string) bool {
	for _, line := range strings.Split(string(file), "\n") {
		line = strings.TrimSpace(line)
		if line == "" || line[0] == '#' {
			continue
		}
		line = strings.TrimPrefix(line, "/")
		if !strings.ContainsAny(line, ".][*?") {
			line += "**"
		}
		if glob(line, path) {
			return true
		}
	}
	return false
}

func modeCode(m string) int {
	switch m {
	case "100644":
		return 0
	case "100755":
		return 1
	case "120000":
		return 2
	case "160000":
		return 3
	}
	return 5
}

func runRepo(w *gen.Writer, sp repoSpec, tmp string) {
	dir, err := os.MkdirTemp(tmp, "repo")
	if err != nil {
		panic(err)
	}
	defer os.RemoveAll(dir)
	repoDir := filepath.Join(dir, "repo.git")
	g := gen.NewGitRepo(repoDir)
	detail := gen.Detail(sp)
	contentOf := map[string][]byte{}
	heads := map[string][]gen.GitEntry{}
	for _, b := range sp.Branches {
		var es []gen.GitEntry
		var ps []string
		for p := range sp.Trees[b] {
			ps = append(ps, p)
		}
		sort.Strings(ps)
		// drop file/directory conflicts
		kept := map[string]bool{}
		for _, p := range ps {
			ok := true
			for q := range kept {
				if strings.HasPrefix(p, q+"/") || strings.HasPrefix(q, p+"/") {
					ok = false
				}
			}
			if !ok {
				continue
			}
			kept[p] = true
			f := sp.Trees[b][p]
			if f.Mode == "160000" {
				es = append(es, gen.GitEntry{Mode: f.Mode, Hash: fmt.Sprintf("%040x", f.Content+2), Path: p})
				continue
			}
			h := g.Blob(sp.Contents[f.Content])
			contentOf[h] = sp.Contents[f.Content]
			es = append(es, gen.GitEntry{Mode: f.Mode, Hash: h, Path: p})
		}
		c := g.Commit(b, es, "c")
		heads[b] = g.LsTree(c)
		if b == "main" {
			heads["HEAD"] = heads[b]
		}
	}
	if sp.Repack && sp.Missing < 0 {
		g.Repack()
		w.Count("e2e:repacked", 1)
	}
	missingHash := ""
	if sp.Missing >= 0 {
		h := gen.GitBlobHash(sp.Contents[sp.Missing])
		if _, ok := contentOf[h]; ok {
			missingHash = h
			os.Remove(filepath.Join(repoDir, "objects", h[:2], h[2:]))
		}
	}

	paths, blobs, brs := gen.NewInterner(), gen.NewInterner(), gen.NewInterner()
	ignoreFile := map[string][]byte{}
	for _, b := range sp.Indexed {
		for _, l := range heads[b] {
			if l.Path == ".sourcegraph/ignore" && l.Mode != "160000" {
				ignoreFile[b] = contentOf[l.Hash]
			}
		}
	}
	if missingHash != "" {
		for _, b := range sp.Indexed {
			for _, l := range heads[b] {
				if l.Path == ".sourcegraph/ignore" && l.Hash == missingHash {
					return // an unreadable ignore file fails the build: not what this case is about
				}
			}
		}
	}

	// expected documents (Go oracle): key (path, hash) => branches, from git ls-tree
	type key struct{ path, hash string }
	want := map[key][]string{}
	for _, b := range sp.Indexed {
		for _, l := range heads[b] {
			if l.Mode == "160000" || oracleIgnored(ignoreFile[b], l.Path) {
				continue
			}
			k := key{l.Path, l.Hash}
			want[k] = append(want[k], b)
		}
	}

	var results [2][]outDoc
	var collected []gitindex.VerifKeyBranches
	for pi, disable := range []string{"true", "false"} {
		indexDir := filepath.Join(dir, "idx"+disable)
		os.MkdirAll(indexDir, 0o755)
		os.Setenv("ZOEKT_DISABLE_CATFILE_BATCH", disable)
		opts := gitindex.Options{
			RepoDir:  repoDir,
			Branches: sp.Indexed,
			BuildOptions: index.Options{
				IndexDir:              indexDir,
				RepositoryDescription: zoekt.Repository{Name: "repository"},
				DisableCTags:          true,
				SizeMax:               sp.SizeMax,
				LargeFiles:            largeFiles,
			},
		}
		opts.BuildOptions.SetDefaults()
		_, files, err := gitindex.VerifNormalFiles(opts)
		os.Unsetenv("ZOEKT_DISABLE_CATFILE_BATCH")
		if err != nil {
			w.Emit(gen.Case{Go: "IndexGitRepo failed: " + err.Error(), Key: "index-error", Class: "e2e:index-error", Detail: detail})
			return
		}
		collected = files
		results[pi] = readIndexDir(indexDir)
	}

	// ---- fault: the `git cat-file --batch` child stops answering after the first half of the requested ids (a `git`
	// wrapper first in PATH forwards only that many ids). The real IndexGitRepo must fail, or else deliver every document.
	if missingHash == "" && len(collected) >= 2 {
		served := len(collected) / 2
		verdict, class := catfileFault(dir, repoDir, sp, served, len(results[1]))
		w.Emit(gen.Case{Go: verdict, Key: "catfile-fault-silent-loss", Class: "e2e:catfile-fault:" + class, Nontrivial: true, Detail: detail})
	}

	// ---- collect: the real prepareNormalBuild vs the model
	var ptab []string
	var brSpecs []string
	for _, b := range sp.Indexed {
		var es []string
		for _, l := range heads[b] {
			es = append(es, fmt.Sprintf("%d:%d:%d", paths.ID(l.Path), blobs.ID(l.Hash), modeCode(l.Mode)))
		}
		brSpecs = append(brSpecs, fmt.Sprintf("%d|%s|%s", brs.ID(b), gen.Hex(ignoreFile[b]), joinOr(es, ",")))
	}
	type cd struct {
		p, x int
		s    string
	}
	var cds []cd
	for _, f := range collected {
		var bs []string
		for _, b := range f.Branches {
			bs = append(bs, fmt.Sprint(brs.ID(b)))
		}
		p, x := paths.ID(f.Key.Path), blobs.ID(f.Key.ID)
		cds = append(cds, cd{p, x, fmt.Sprintf("%d:%d:%s", p, x, strings.Join(bs, "+"))})
	}
	sort.Slice(cds, func(i, j int) bool {
		if cds[i].p != cds[j].p {
			return cds[i].p < cds[j].p
		}
		return cds[i].x < cds[j].x
	})
	var cstr []string
	for _, c := range cds {
		cstr = append(cstr, c.s)
	}
	for i := 0; i < paths.Len(); i++ {
		ptab = append(ptab, gen.Hex([]byte(paths.Name(i))))
	}
	w.Emit(gen.Case{In: fmt.Sprintf("collect %s %s", joinOr(ptab, ","), strings.Join(brSpecs, ";")), Impl: joinOr(cstr, ","),
		Class: "e2e:collect", Nontrivial: len(sp.Indexed) >= 2 && len(cds) >= 3, Detail: detail})

	// ---- Go oracle on both paths' shards
	for pi, name := range []string{"go-git", "cat-file"} {
		verdict, vkey := "ok", ""
		seen := map[key]int{}
		for _, d := range results[pi] {
			// identify the document's blob: by content when indexed, else by (path, skip class)
			var k key
			found := false
			for wk := range want {
				if wk.path != d.Name {
					continue
				}
				exp := expectedCode(contentOf[wk.hash], sp.SizeMax, allowLarge(d.Name), wk.hash == missingHash, name)
				if exp == docCode(d.Content) && sameSet(want[wk], d.Branches) {
					k, found = wk, true
				}
			}
			if !found {
				verdict, vkey = fmt.Sprintf("%s path: unexpected document %q content %q branches %v", name, d.Name, trunc(d.Content), d.Branches), "unexpected-doc"
				continue
			}
			seen[k]++
		}
		for wk := range want {
			if seen[wk] != 1 && verdict == "ok" {
				verdict, vkey = fmt.Sprintf("%s path: %d documents for (%q, %s) branches %v, want one", name, seen[wk], wk.path, wk.hash[:8], want[wk]), "doc-count"
			}
		}
		w.Emit(gen.Case{Go: verdict, Key: vkey, Class: "e2e:oracle:" + name, Nontrivial: len(want) >= 3, Detail: detail})
	}

	// ---- doc2: per file, both paths vs the model
	find := func(docs []outDoc, path string, branches []string) (string, bool) {
		for _, d := range docs {
			if d.Name == path && sameSet(branches, d.Branches) {
				return docCode(d.Content), true
			}
		}
		return "", false
	}
	var wks []key
	for wk := range want {
		wks = append(wks, wk)
	}
	sort.Slice(wks, func(i, j int) bool { return wks[i].path+wks[i].hash < wks[j].path+wks[j].hash })
	for _, wk := range wks {
		gd, ok1 := find(results[0], wk.path, want[wk])
		cdoc, ok2 := find(results[1], wk.path, want[wk])
		if !ok1 || !ok2 {
			continue // reported by the oracle above
		}
		present := wk.hash != missingHash
		c := contentOf[wk.hash]
		if !present {
			c = nil
		}
		k := ""
		if gd != cdoc {
			k = "paths-differ"
			if !present {
				k = "paths-differ-missing-blob"
			}
		}
		w.Emit(gen.Case{
			In:   fmt.Sprintf("doc2 %d %s 0 %s %s", sp.SizeMax, b01(allowLarge(wk.path)), b01(present), gen.Hex(c)),
			Impl: fmt.Sprintf("g=%s c=%s", gd, cdoc), Key: k, Class: "e2e:doc:" + strings.SplitN(gd, ":", 2)[0], Nontrivial: true, Detail: detail,
		})
	}
}

// catfileFault indexes the repository through the cat-file path with a git whose `cat-file --batch` sees only the
// first `served` ids; wantDocs is the number of documents the undisturbed cat-file run produced.
func catfileFault(dir, repoDir string, sp repoSpec, served, wantDocs int) (verdict, class string) {
	realGit, err := exec.LookPath("git")
	if err != nil {
		panic(err)
	}
	bin := filepath.Join(dir, "faultbin")
	os.MkdirAll(bin, 0o755)
	script := fmt.Sprintf("#!/bin/sh\nif [ \"$1\" = cat-file ] && [ \"$2\" = --batch ]; then\n  head -n %d | %s \"$@\"\n  exit 0\nfi\nexec %s \"$@\"\n", served, realGit, realGit)
	if err := os.WriteFile(filepath.Join(bin, "git"), []byte(script), 0o755); err != nil {
		panic(err)
	}
	oldPath := os.Getenv("PATH")
	os.Setenv("PATH", bin+string(os.PathListSeparator)+oldPath)
	os.Setenv("ZOEKT_DISABLE_CATFILE_BATCH", "false")
	defer func() {
		os.Setenv("PATH", oldPath)
		os.Unsetenv("ZOEKT_DISABLE_CATFILE_BATCH")
	}()
	indexDir := filepath.Join(dir, "idxfault")
	os.MkdirAll(indexDir, 0o755)
	opts := gitindex.Options{
		RepoDir:  repoDir,
		Branches: sp.Indexed,
		BuildOptions: index.Options{
			IndexDir:              indexDir,
			RepositoryDescription: zoekt.Repository{Name: "repository"},
			DisableCTags:          true,
			SizeMax:               sp.SizeMax,
			LargeFiles:            largeFiles,
		},
	}
	opts.BuildOptions.SetDefaults()
	_, _, err = gitindex.VerifNormalFiles(opts)
	if err != nil {
		return "ok", "reported-error"
	}
	got := len(readIndexDir(indexDir))
	if got != wantDocs {
		return fmt.Sprintf("git cat-file answered only %d of the requested ids, IndexGitRepo reported success with %d of %d documents", served, got, wantDocs), "silent-loss"
	}
	return "ok", "complete"
}

func trunc(b []byte) string {
	if len(b) > 40 {
		return string(b[:40]) + "…"
	}
	return string(b)
}

func sameSet(a, b []string) bool {
	if len(a) != len(b) {
		return false
	}
	x, y := append([]string{}, a...), append([]string{}, b...)
	sort.Strings(x)
	sort.Strings(y)
	for i := range x {
		if x[i] != y[i] {
			return false
		}
	}
	return true
}

// expectedCode: what the statement allows for a blob (written from the statement, not from the code): the content,
// or a skip explanation when too large / binary (also: too few trigrams, the builder's third explanation); for an
// object that is absent from the repository either path's documented placeholder.
func expectedCode(content []byte, sizeMax int, allowLarge, missing bool, path string) string {
	switch {
	case missing && path == "go-git":
		return "large:-" // createDocument: "if an object is too large, it will not be found"
	case missing:
		return "missing:-"
	case len(content) > sizeMax && !allowLarge:
		return "large:-"
	case len(content) == 0:
		return "ok:-"
	case len(content) < 3:
		return "small:-"
	case bytes.IndexByte(content, 0) >= 0:
		return "binary:-"
	}
	return "ok:" + gen.Hex(content)
}

func main() {
	f := gen.ParseFlags()
	w := gen.NewWriter(f.Out)
	defer w.Close()
	tmp, err := os.MkdirTemp(os.Getenv("VERIF_WORK"), "c14-")
	if err != nil {
		panic(err)
	}
	defer os.RemoveAll(tmp)

	if f.Replay != "" {
		var rp struct {
			Case struct {
				Detail repoSpec `json:"detail"`
			} `json:"case"`
		}
		b, err := os.ReadFile(f.Replay)
		if err == nil && json.Unmarshal(b, &rp) == nil && len(rp.Case.Detail.Branches) > 0 {
			runRepo(w, rp.Case.Detail, tmp)
			return
		}
	}
	if f.Corpus != "" {
		files, _ := filepath.Glob(filepath.Join(f.Corpus, "*.json"))
		sort.Strings(files)
		for _, fn := range files {
			b, err := os.ReadFile(fn)
			if err != nil {
				continue
			}
			var sp repoSpec
			if err := json.Unmarshal(b, &sp); err != nil || len(sp.Branches) == 0 {
				panic("bad corpus file " + fn)
			}
			runRepo(w, sp, tmp)
			w.Count("corpus", 1)
		}
	}
	r := gen.NewRand(f.Seed)
	ignoreCases(w, r.Fork(), f.N(150, 5000))
	cfCases(w, r.Fork(), f.N(400, 40000))
	slabCases(w, r.Fork(), f.N(200, 10000))
	docsCases(w, r.Fork(), f.N(24, 400), tmp)
	for _, sp := range scriptedRepos() {
		runRepo(w, sp, tmp)
		w.Count("e2e:scripted", 1)
	}
	rr := r.Fork()
	for i := 0; i < f.N(5, 120); i++ {
		runRepo(w, genRepo(rr.Fork()), tmp)
	}
}
