// C30 harness: generated operation histories against the real Queue of cmd/zoekt-sourcegraph-indexserver
// (run through its verif driver in a subprocess), each operation's complete post-state diffed with the Lean model
// and judged by (a) the Lean executable spec and (b) a naive Go reference queue (linear scan, no heap).
package main

import (
	"encoding/json"
	"fmt"
	"os"
	"path/filepath"
	"sort"
	"strconv"
	"strings"

	"verifharness/gen"
)

// ---------- parsed driver answer ----------

type item struct {
	Key, ID           int
	Opts              string // "rid.var"
	Indexed           bool
	St                int
	HeapIdx           int
	Seq               int64
	CF                int
	Until             string // Z | E | ns
	Date              string // Z | E | ns
}

type state struct {
	Seq   int64
	PQ    []int
	Items map[int]*item
	Ptr   string
}

type answer struct {
	T0, T1 int64
	Amb    bool
	Res    string
	S      state
}

func atoi(s string) int {
	n, err := strconv.Atoi(s)
	if err != nil {
		panic("bad int " + s)
	}
	return n
}
func atoi64(s string) int64 {
	n, err := strconv.ParseInt(s, 10, 64)
	if err != nil {
		panic("bad int64 " + s)
	}
	return n
}

func ints(s string) []int {
	if s == "-" || s == "" {
		return nil
	}
	var out []int
	for _, p := range strings.Split(s, ",") {
		out = append(out, atoi(p))
	}
	return out
}

func showInts(xs []int) string {
	if len(xs) == 0 {
		return "-"
	}
	p := make([]string, len(xs))
	for i, x := range xs {
		p[i] = strconv.Itoa(x)
	}
	return strings.Join(p, ",")
}

func parseAnswer(s string) answer {
	f := strings.Fields(s)
	if len(f) != 8 {
		panic("driver answer: " + s)
	}
	var a answer
	a.T0, a.T1 = atoi64(f[0]), atoi64(f[1])
	a.Amb = f[2] == "amb=1"
	a.Res = strings.TrimPrefix(f[3], "res=")
	a.S.Seq = atoi64(strings.TrimPrefix(f[4], "seq="))
	a.S.PQ = ints(strings.TrimPrefix(f[5], "pq="))
	a.S.Items = map[int]*item{}
	if its := strings.TrimPrefix(f[6], "items="); its != "-" {
		for _, e := range strings.Split(its, ";") {
			p := strings.Split(e, ":")
			if len(p) != 10 {
				panic("item: " + e)
			}
			it := &item{Key: atoi(p[0]), ID: atoi(p[1]), Opts: p[2], Indexed: p[3] == "1", St: atoi(p[4]), HeapIdx: atoi(p[5]),
				Seq: atoi64(p[6]), CF: atoi(p[7]), Until: p[8], Date: p[9]}
			a.S.Items[it.Key] = it
		}
	}
	a.S.Ptr = strings.TrimPrefix(f[7], "ptr=")
	return a
}

func dateClass(d string) string {
	if d == "Z" || d == "E" {
		return d
	}
	return "T"
}

// canonical implementation output (the Lean model prints the same form)
func canon(res string, s state) string {
	keys := make([]int, 0, len(s.Items))
	for k := range s.Items {
		keys = append(keys, k)
	}
	sort.Ints(keys)
	var parts []string
	for _, k := range keys {
		it := s.Items[k]
		ind := 0
		if it.Indexed {
			ind = 1
		}
		parts = append(parts, fmt.Sprintf("%d:%s:%d:%d:%d:%d:%d:%s:%s", it.Key, it.Opts, ind, it.St, it.HeapIdx, it.Seq, it.CF, it.Until, dateClass(it.Date)))
	}
	items := "-"
	if len(parts) > 0 {
		items = strings.Join(parts, ";")
	}
	return fmt.Sprintf("res=%s seq=%d pq=%s items=%s", res, s.Seq, showInts(s.PQ), items)
}

// ---------- operations ----------

type op struct {
	Kind  string // add idx pop bump rm len iter sleep
	ID    int
	Var   int
	St    int
	IDs   []int
	Sleep int64
}

func (o op) driverLine() string {
	switch o.Kind {
	case "add":
		return fmt.Sprintf("add %d %d", o.ID, o.Var)
	case "idx":
		return fmt.Sprintf("idx %d %d %d", o.ID, o.Var, o.St)
	case "bump", "rm":
		return o.Kind + " " + showInts(o.IDs)
	case "sleep":
		return fmt.Sprintf("sleep %d", o.Sleep)
	}
	return o.Kind
}

type history struct {
	D, M int64
	Ops  []op
}

// ---------- reference queue: what the statement prescribes, computed naively from the previous state ----------

func untilBefore(u string, now int64) bool { // backoff expired at `now`?
	if u == "Z" || u == "E" {
		return true
	}
	return atoi64(u) < now
}

func rankLess(a, b *item) bool {
	if a.Indexed != b.Indexed {
		return !a.Indexed
	}
	af, bf := a.St == 1, b.St == 1
	if af != bf {
		return !af
	}
	return a.Seq < b.Seq
}

// oracle returns "" if the observed transition pre --op--> (res, post) is what a priority queue with backoff does,
// otherwise a failure key. effD, effM: the effective (clamped) backoff parameters.
func oracle(pre state, o op, a answer, effD, effM int64) string {
	post := a.S
	if post.Ptr != "ok" {
		return "dangling-heap-pointer"
	}
	for k, it := range post.Items {
		if k != it.ID {
			return "map-key-differs-from-repoID"
		}
	}
	// heap bookkeeping, independent of the heap order: pq ids distinct, heapIdx = position, others -1
	seen := map[int]bool{}
	for i, id := range post.PQ {
		it := post.Items[id]
		if seen[id] || it == nil || it.HeapIdx != i {
			return "heapIdx"
		}
		seen[id] = true
	}
	for id, it := range post.Items {
		if !seen[id] && it.HeapIdx != -1 {
			return "heapIdx"
		}
	}
	queued := func(s state, id int) bool { it := s.Items[id]; return it != nil && it.HeapIdx >= 0 }
	sameOthers := func(except map[int]bool) string {
		for id, x := range pre.Items {
			if except[id] {
				continue
			}
			y := post.Items[id]
			if y == nil {
				return "lost-item"
			}
			if x.Opts != y.Opts || x.Indexed != y.Indexed || x.St != y.St || x.Seq != y.Seq || x.CF != y.CF || x.Until != y.Until ||
				dateClass(x.Date) != dateClass(y.Date) || (x.HeapIdx >= 0) != (y.HeapIdx >= 0) {
				return "bystander-changed"
			}
		}
		for id := range post.Items {
			if pre.Items[id] == nil && !except[id] {
				return "spurious-item"
			}
		}
		return ""
	}
	enq := func(id int, now int64) string { // expected effect of an enqueue attempt on a tracked, unqueued item
		x, y := pre.Items[id], post.Items[id]
		until := "Z"
		if x != nil {
			until = x.Until
		}
		if untilBefore(until, now) {
			if y.HeapIdx < 0 {
				return "not-queued-although-allowed"
			}
			if y.Seq <= pre.Seq || y.Seq > post.Seq {
				return "seq-not-fresh"
			}
			if dateClass(y.Date) != "T" || atoi64(y.Date) < a.T0 || atoi64(y.Date) > a.T1 {
				return "date-added"
			}
		} else if y.HeapIdx >= 0 {
			return "queued-during-backoff"
		}
		return ""
	}
	switch o.Kind {
	case "add":
		want := fmt.Sprintf("%d.%d", o.ID, o.Var)
		x, y := pre.Items[o.ID], post.Items[o.ID]
		if y == nil || y.Opts != want {
			return "add-opts"
		}
		wasIndexed := x != nil && x.Indexed && x.Opts == want
		if y.Indexed != wasIndexed {
			return "add-indexed"
		}
		if x != nil && x.HeapIdx >= 0 {
			if y.HeapIdx < 0 || y.Seq != x.Seq {
				return "add-requeued"
			}
		} else if k := enq(o.ID, a.T0); k != "" {
			return k
		}
		if x != nil && (x.St != y.St || x.CF != y.CF || x.Until != y.Until) {
			return "add-touched-backoff"
		}
		return sameOthers(map[int]bool{o.ID: true})
	case "idx":
		want := fmt.Sprintf("%d.%d", o.ID, o.Var)
		x, y := pre.Items[o.ID], post.Items[o.ID]
		if y == nil || y.St != o.St {
			return "idx-state"
		}
		xo, xq, xcf, xind := "0.0", false, 0, false
		if x != nil {
			xo, xq, xcf, xind = x.Opts, x.HeapIdx >= 0, x.CF, x.Indexed
		}
		if y.Opts != xo {
			return "idx-opts"
		}
		if o.St == 1 {
			if y.HeapIdx >= 0 {
				return "failed-still-queued"
			}
			d := int64(xcf+1) * effD
			wcf := xcf + 1
			if d > effM {
				d, wcf = effM, xcf
			}
			if y.CF != wcf || y.Indexed != xind {
				return "fail-count"
			}
			if y.Until == "Z" || y.Until == "E" {
				return "fail-no-backoff"
			}
			if now := atoi64(y.Until) - d; now < a.T0 || now > a.T1 {
				return "backoff-duration"
			}
		} else {
			if (y.HeapIdx >= 0) != xq {
				return "idx-queue-membership"
			}
			if y.Indexed != (want == xo) || y.CF != 0 || y.Until != "E" {
				return "idx-success-fields"
			}
		}
		return sameOthers(map[int]bool{o.ID: true})
	case "pop":
		var best *item
		for _, id := range pre.PQ {
			if it := pre.Items[id]; best == nil || rankLess(it, best) {
				best = it
			}
		}
		if best == nil {
			if a.Res != "none" || len(post.PQ) != 0 {
				return "pop-empty"
			}
			return sameOthers(nil)
		}
		at := strings.IndexByte(a.Res, '@')
		if at < 0 {
			return "pop-none-on-nonempty"
		}
		if a.Res[:at] != best.Opts {
			return "pop-not-minimum"
		}
		if !strings.HasPrefix(best.Opts, strconv.Itoa(best.ID)+".") {
			return "pop-zero-opts" // the item handed out carries options of another repository id
		}
		if queued(post, best.ID) || len(post.PQ) != len(pre.PQ)-1 {
			return "pop-still-queued"
		}
		if post.Items[best.ID].Date != "E" || a.Res[at+1:] != best.Date {
			return "pop-date"
		}
		return sameOthers(map[int]bool{best.ID: true})
	case "bump":
		var missing []int
		touched := map[int]bool{}
		for _, id := range o.IDs {
			x := pre.Items[id]
			if x == nil {
				missing = append(missing, id)
				continue
			}
			if touched[id] {
				continue
			}
			touched[id] = true
			if x.HeapIdx >= 0 {
				if post.Items[id] == nil || post.Items[id].HeapIdx < 0 || post.Items[id].Seq != x.Seq {
					return "bump-requeued"
				}
			} else if post.Items[id] == nil {
				return "lost-item"
			} else if k := enq(id, a.T0); k != "" {
				return k
			}
		}
		if a.Res != showInts(missing) {
			return "bump-missing"
		}
		if len(post.Items) != len(pre.Items) {
			return "bump-tracks"
		}
		return sameOthers(touched)
	case "rm":
		removed := ints(a.Res)
		sort.Ints(removed)
		if len(pre.Items) == len(o.IDs) {
			if len(removed) != 0 || len(post.Items) != len(pre.Items) || len(post.PQ) != len(pre.PQ) {
				return "rm-ran-on-same-size"
			}
			return sameOthers(nil)
		}
		keep := map[int]bool{}
		for _, id := range o.IDs {
			keep[id] = true
		}
		var want []int
		gone := map[int]bool{}
		for id := range pre.Items {
			if !keep[id] {
				want = append(want, id)
				gone[id] = true
			}
		}
		sort.Ints(want)
		for id := range pre.Items {
			if (post.Items[id] != nil) != keep[id] {
				return "rm-tracked-set" // after being told which repositories exist the queue must track exactly those
			}
		}
		if showInts(removed) != showInts(want) {
			return "rm-reported"
		}
		for _, id := range post.PQ {
			if gone[id] {
				return "rm-still-queued"
			}
		}
		return sameOthers(gone)
	case "len":
		if a.Res != strconv.Itoa(len(pre.PQ)) {
			return "len"
		}
		return sameOthers(nil)
	case "iter":
		var want []int
		for _, it := range pre.Items {
			want = append(want, atoi(strings.Split(it.Opts, ".")[0]))
		}
		sort.Ints(want)
		if a.Res != showInts(want) {
			return "iter"
		}
		return sameOthers(nil)
	}
	return ""
}

// ---------- running one history ----------

type runner struct {
	w    *gen.Writer
	proc *gen.IxsLineProc
}

func (r *runner) run(h history, tag string, detail func(i int) json.RawMessage) {
	do := func(line string) answer {
		s, ok := r.proc.Do(line)
		if !ok || strings.HasPrefix(s, "ERR") {
			fmt.Fprintln(os.Stderr, "driver died or rejected:", line, "->", s)
			os.Exit(4)
		}
		return parseAnswer(s)
	}
	effD, effM := h.D, h.M
	if effD < 0 || effM < 0 {
		effD, effM = 0, 0
	}
	a := do(fmt.Sprintf("new %d %d", h.D, h.M))
	r.w.Emit(gen.Case{In: fmt.Sprintf("new %d %d", h.D, h.M), Impl: canon("-", a.S), Class: "new", Detail: detail(-1)})
	pre := a.S
	for i, o := range h.Ops {
		a := do(o.driverLine())
		if o.Kind == "sleep" {
			continue
		}
		if a.Amb {
			r.w.Count("history-truncated-ambiguous-clock", 1)
			return
		}
		res := a.Res
		var in string
		switch o.Kind {
		case "add":
			in = fmt.Sprintf("add %d %d %d", o.ID, o.Var, a.T0)
		case "idx":
			now := a.T0
			if o.St == 1 {
				// the clock reading inside SetIndexed is recovered from the observed backoffUntil and the prescribed duration;
				// the oracle checks that it lies between the two readings taken around the call
				xcf := 0
				if x := pre.Items[o.ID]; x != nil {
					xcf = x.CF
				}
				d := int64(xcf+1) * effD
				if d > effM {
					d = effM
				}
				if y := a.S.Items[o.ID]; y != nil && y.Until != "Z" && y.Until != "E" {
					now = atoi64(y.Until) - d
				}
			}
			in = fmt.Sprintf("idx %d %d %d %d", o.ID, o.Var, o.St, now)
		case "pop":
			if at := strings.IndexByte(res, '@'); at >= 0 {
				res = res[:at+1] + dateClass(res[at+1:])
			}
			in = "pop"
		case "bump":
			in = fmt.Sprintf("bump %s %d", showInts(o.IDs), a.T0)
		case "rm":
			rs := ints(res)
			sort.Ints(rs)
			res = showInts(rs)
			in = fmt.Sprintf("rm %s %s", showInts(o.IDs), showInts(a.S.PQ))
		default:
			in = o.Kind
		}
		verdict := oracle(pre, o, a, effD, effM)
		class := o.Kind
		if o.Kind == "idx" && o.St == 1 {
			class = "idx-fail"
		}
		c := gen.Case{In: in, Impl: canon(res, a.S), Class: class, Nontrivial: len(pre.PQ) >= 3, Detail: detail(i)}
		if verdict != "" {
			c.Go = tag + ": reference queue disagrees: " + verdict
			c.Key = verdict
		}
		r.w.Emit(c)
		r.w.Count(fmt.Sprintf("heap-size-%02d", min(len(pre.PQ), 12)), 1)
		pre = a.S
	}
}

// ---------- generator ----------

var configs = [][2]int64{{2e6, 6e6}, {3600e9, 3 * 3600e9}, {0, 0}, {-1, 5e6}, {3e6, 3e6}, {1e6, 10e6}, {2e6, 5e6}, {5e6, 2e6}}

func genHistory(r *gen.Rand, thorough bool) history {
	c := gen.Pick(r, configs)
	h := history{D: c[0], M: c[1]}
	nid := gen.Pick(r, []int{3, 6, 6, 12, 24})
	nops := r.Range(5, 60)
	if thorough && r.Chance(1, 10) {
		nops = r.Range(60, 300)
		nid = gen.Pick(r, []int{12, 24, 48})
	}
	id := func() int {
		if r.Chance(1, 40) {
			return r.Range(0, 1<<20)
		}
		return r.Intn(nid)
	}
	idList := func() []int {
		var l []int
		switch r.Intn(6) {
		case 0: // all known-range ids
			for i := 0; i < nid; i++ {
				l = append(l, i)
			}
		case 1:
		default:
			n := r.Range(0, nid+1)
			for i := 0; i < n; i++ {
				l = append(l, id())
			}
		}
		return l
	}
	variant := func() int {
		if r.Chance(1, 2) {
			return 1
		}
		return r.Intn(8)
	}
	for i := 0; i < nops; i++ {
		x := r.Intn(100)
		switch {
		case x < 32:
			h.Ops = append(h.Ops, op{Kind: "add", ID: id(), Var: variant()})
		case x < 54:
			st := gen.Pick(r, []int{1, 1, 1, 2, 2, 3, 4, 5, 0})
			h.Ops = append(h.Ops, op{Kind: "idx", ID: id(), Var: variant(), St: st})
		case x < 70:
			h.Ops = append(h.Ops, op{Kind: "pop"})
		case x < 80:
			h.Ops = append(h.Ops, op{Kind: "bump", IDs: idList()})
		case x < 88:
			h.Ops = append(h.Ops, op{Kind: "rm", IDs: idList()})
		case x < 91:
			h.Ops = append(h.Ops, op{Kind: "len"})
		case x < 92:
			h.Ops = append(h.Ops, op{Kind: "iter"})
		default:
			if h.D > 0 && h.D < 1e9 {
				h.Ops = append(h.Ops, op{Kind: "sleep", Sleep: int64(r.Range(1, 8)) * 1e6})
			} else {
				h.Ops = append(h.Ops, op{Kind: "pop"})
			}
		}
	}
	return h
}

type corpusFile struct {
	D, M int64
	Ops  []string
}

func parseOp(s string) op {
	f := strings.Fields(s)
	switch f[0] {
	case "add":
		return op{Kind: "add", ID: atoi(f[1]), Var: atoi(f[2])}
	case "idx":
		return op{Kind: "idx", ID: atoi(f[1]), Var: atoi(f[2]), St: atoi(f[3])}
	case "bump", "rm":
		return op{Kind: f[0], IDs: ints(f[1])}
	case "sleep":
		return op{Kind: "sleep", Sleep: atoi64(f[1])}
	}
	return op{Kind: f[0]}
}

func main() {
	f := gen.ParseFlags()
	w := gen.NewWriter(f.Out)
	defer w.Close()
	bin := gen.BuildIndexserver("c30")
	proc := gen.StartIxsLineProc(bin, "ZOEKT_VERIF_DRIVER=c30")
	defer proc.Close()
	rn := &runner{w: w, proc: proc}

	// corpus: witnesses and past failures first
	if files, _ := filepath.Glob(filepath.Join(f.Corpus, "*.json")); len(files) > 0 {
		sort.Strings(files)
		for _, p := range files {
			b, err := os.ReadFile(p)
			if err != nil {
				continue
			}
			var cf corpusFile
			if err := json.Unmarshal(b, &cf); err != nil {
				fmt.Fprintln(os.Stderr, "bad corpus file", p, err)
				os.Exit(5)
			}
			h := history{D: cf.D, M: cf.M}
			for _, s := range cf.Ops {
				h.Ops = append(h.Ops, parseOp(s))
			}
			name := filepath.Base(p)
			rn.run(h, "corpus "+name, func(i int) json.RawMessage { return gen.Detail(map[string]any{"corpus": name, "op": i}) })
		}
	}

	only := -1
	if f.Replay != "" {
		// a replay file names the history by (seed, tier, history number); histories are generated independently of each other
		var rp struct {
			Seed uint64 `json:"seed"`
			Tier string `json:"tier"`
			Case struct {
				Detail struct {
					History *int   `json:"history"`
					Corpus  string `json:"corpus"`
				} `json:"detail"`
			} `json:"case"`
		}
		b, err := os.ReadFile(f.Replay)
		if err == nil && json.Unmarshal(b, &rp) == nil && rp.Case.Detail.History != nil {
			only = *rp.Case.Detail.History
			f.Seed, f.Tier = rp.Seed, rp.Tier
		} else {
			return // a corpus case (already run above) or an obligation-broken replay: nothing more to regenerate
		}
	}
	n := f.N(350, 3000)
	for k := 0; k < n; k++ {
		if only >= 0 && k != only {
			continue
		}
		r := gen.NewRand(f.Seed*1000003 + uint64(k))
		h := genHistory(r, f.Tier == "thorough")
		rn.run(h, fmt.Sprintf("history %d", k), func(i int) json.RawMessage { return gen.Detail(map[string]any{"history": k, "op": i}) })
	}
}
