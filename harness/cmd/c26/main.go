// C26 harness: the real ReposMap / BranchesRepos / FileNameSet codecs (public MarshalBinary / UnmarshalBinary, plus the
// binaryReader primitives through hooks) against the Lean model.
//
// Decoders run on arbitrary bytes inside a worker subprocess (this binary re-executed with C26_WORKER=1) that has an
// address-space limit and a CPU-time watchdog, so that a panic, a 2^62-iteration loop or a multi-gigabyte `make` in
// the code under test is an observed outcome ("panic" / "diverge" / "oom") instead of the end of the harness.
package main

import (
	"bufio"
	"bytes"
	"encoding/binary"
	"encoding/gob"
	"encoding/hex"
	"encoding/json"
	"fmt"
	"hash/fnv"
	"io"
	"os"
	"os/exec"
	"path/filepath"
	"runtime"
	"runtime/debug"
	"sort"
	"strconv"
	"strings"
	"sync"
	"syscall"
	"time"

	"github.com/RoaringBitmap/roaring/v2"
	"github.com/sourcegraph/zoekt"
	"github.com/sourcegraph/zoekt/query"

	"verifharness/gen"
)

// ---------------------------------------------------------------- canonical renderings (shared with the Lean driver)

func xhex(b []byte) string { return "x" + hex.EncodeToString(b) }

func showSet(m map[string]struct{}) string {
	if len(m) == 0 {
		return "-"
	}
	ks := make([]string, 0, len(m))
	for k := range m {
		ks = append(ks, k)
	}
	sort.Strings(ks) // byte-wise, like the model's bytesLe
	for i := range ks {
		ks[i] = xhex([]byte(ks[i]))
	}
	return strings.Join(ks, ",")
}

func showBranches(bs []zoekt.RepositoryBranch) string {
	if len(bs) == 0 {
		return "-"
	}
	var p []string
	for _, b := range bs {
		p = append(p, xhex([]byte(b.Name))+"/"+xhex([]byte(b.Version)))
	}
	return strings.Join(p, "+")
}

func showRMap(m zoekt.ReposMap) string {
	if m == nil {
		return "nil"
	}
	if len(m) == 0 {
		return "-"
	}
	ids := make([]uint32, 0, len(m))
	for id := range m {
		ids = append(ids, id)
	}
	sort.Slice(ids, func(i, j int) bool { return ids[i] < ids[j] })
	var p []string
	for _, id := range ids {
		e := m[id]
		hs := 0
		if e.HasSymbols {
			hs = 1
		}
		p = append(p, fmt.Sprintf("%d:%d:%d:%s", id, hs, e.IndexTimeUnix, showBranches(e.Branches)))
	}
	return strings.Join(p, ";")
}

// bitmapToken is the opaque token by which the model and the harness name a parsed bitmap: its canonical serialisation.
func bitmapToken(bm *roaring.Bitmap) (tok string) {
	if bm == nil {
		return "nil"
	}
	defer func() {
		if recover() != nil {
			tok = "P"
		}
	}()
	b, err := bm.ToBytes()
	if err != nil {
		return "P"
	}
	return "h" + sliceKey(b)
}

// sliceKey names a byte string by FNV-1a-64 and length (the Lean driver computes the same), so that tables stay small.
func sliceKey(b []byte) string {
	h := fnv.New64a()
	h.Write(b)
	return fmt.Sprintf("%d.%d", h.Sum64(), len(b))
}

func showBrList(l []query.BranchRepos) string {
	if len(l) == 0 {
		return "-"
	}
	var p []string
	for _, br := range l {
		p = append(p, xhex([]byte(br.Branch))+":"+bitmapToken(br.Repos))
	}
	return strings.Join(p, ";")
}

// roaringTable lists, for every position of b at which the reader could start a bitmap (uvarint length followed by that
// many bytes), what roaring's FromBuffer makes of the slice. The model looks slices up here; it decides itself which
// ones it needs.
func roaringTable(b []byte, extra ...[]byte) string {
	seen := map[string]bool{}
	var out []string
	add := func(s []byte) {
		if seen[string(s)] {
			return
		}
		seen[string(s)] = true
		tok := "E"
		func() {
			defer func() {
				if recover() != nil {
					tok = "PANIC"
				}
			}()
			bm := roaring.New()
			if _, err := bm.FromBuffer(append([]byte(nil), s...)); err == nil {
				tok = bitmapToken(bm)
			}
		}()
		out = append(out, "k"+sliceKey(s)+"="+tok)
	}
	for p := 0; p <= len(b); p++ {
		x, n := binary.Uvarint(b[p:])
		if n < 0 {
			continue
		}
		if x <= uint64(len(b)-p-n) {
			add(b[p+n : p+n+int(x)])
		}
	}
	for _, e := range extra {
		add(e)
	}
	if len(out) == 0 {
		return "-"
	}
	return strings.Join(out, ",")
}

// ---------------------------------------------------------------- worker (subprocess)

// decodeOnce runs one decoder on b through the public API and renders the result.
func decodeOnce(kind string, b []byte) (canon string, reenc string) {
	switch kind {
	case "ss":
		var q query.FileNameSet
		if err := q.UnmarshalBinary(b); err != nil {
			return "err", ""
		}
		canon = "ok " + showSet(q.Set)
		// the decoded value must be usable: it re-encodes and decodes to itself
		e, err := q.MarshalBinary()
		if err != nil {
			return canon, "reencode-error"
		}
		var q2 query.FileNameSet
		if err := q2.UnmarshalBinary(e); err != nil || "ok "+showSet(q2.Set) != canon {
			return canon, "reencode-differs"
		}
		return canon, "ok"
	case "br":
		var q query.BranchesRepos
		if err := q.UnmarshalBinary(b); err != nil {
			return "err", ""
		}
		canon = "ok " + showBrList(q.List)
		// roaring's FromBuffer does not validate what it reads (its documentation says to call Validate after
		// deserialising untrusted data); zoekt does not. A structurally invalid bitmap is reported as such.
		for _, br := range q.List {
			invalid := false
			func() {
				defer func() {
					if recover() != nil {
						invalid = true
					}
				}()
				if br.Repos == nil || br.Repos.Validate() != nil {
					invalid = true
				}
			}()
			if invalid {
				return canon, "invalid-roaring"
			}
		}
		// the decoded value must be usable: it prints, re-encodes and decodes to itself
		func() {
			defer func() {
				if r := recover(); r != nil {
					reenc = "use-panics"
				}
			}()
			_ = q.String()
			e, err := q.MarshalBinary()
			if err != nil {
				reenc = "reencode-error"
				return
			}
			var q2 query.BranchesRepos
			if err := q2.UnmarshalBinary(e); err != nil || "ok "+showBrList(q2.List) != canon {
				reenc = "reencode-differs"
				return
			}
			reenc = "ok"
		}()
		return canon, reenc
	case "rm":
		var q zoekt.ReposMap
		if err := q.UnmarshalBinary(b); err != nil {
			return "err", ""
		}
		canon = "ok " + showRMap(q)
		e, err := q.MarshalBinary()
		if err != nil {
			return canon, "reencode-error"
		}
		var q2 zoekt.ReposMap
		if err := q2.UnmarshalBinary(e); err != nil || "ok "+showRMap(q2) != canon {
			return canon, "reencode-differs"
		}
		return canon, "ok"
	}
	panic("unknown kind " + kind)
}

func readerOps(pkg, ops string, b []byte) string {
	var res []string
	var rest []byte
	var failed bool
	if pkg == "z" {
		res, rest, failed = zoekt.VerifBinaryReaderOps(b, ops)
	} else {
		res, rest, failed = query.VerifBinaryReaderOps(b, ops)
	}
	r := "-"
	if len(res) > 0 {
		r = strings.Join(res, ",")
	}
	e := "0"
	if failed {
		e = "1"
	}
	return fmt.Sprintf("%s|rest=%s|err=%s", r, gen.Hex(rest), e)
}

var cpuStart time.Duration // CPU time at the start of the current case (watchdog)

func cpuNow() time.Duration {
	var ru syscall.Rusage
	syscall.Getrusage(syscall.RUSAGE_SELF, &ru)
	return time.Duration(ru.Utime.Nano() + ru.Stime.Nano())
}

func workerMain() {
	// address-space cap: a runaway `make` dies here ("fatal error: out of memory"), not on the shared machine
	lim := uint64(3 << 30)
	syscall.Setrlimit(syscall.RLIMIT_AS, &syscall.Rlimit{Cur: lim, Max: lim})
	debug.SetGCPercent(100)
	busy := make(chan bool, 1)
	go func() { // CPU-time watchdog: robust against a loaded machine, unlike wall-clock time
		active := false
		var start time.Duration
		for {
			select {
			case a := <-busy:
				active = a
				start = cpuNow()
			case <-time.After(50 * time.Millisecond):
				if active && cpuNow()-start > 1500*time.Millisecond {
					fmt.Fprintln(os.Stderr, "C26-WATCHDOG: cpu budget exceeded")
					os.Exit(97)
				}
			}
		}
	}()
	in := bufio.NewReaderSize(os.Stdin, 1<<20)
	out := bufio.NewWriter(os.Stdout)
	for {
		line, err := in.ReadString('\n')
		if err != nil {
			return
		}
		f := strings.Fields(strings.TrimSpace(line))
		if len(f) < 2 {
			continue
		}
		busy <- true
		var res string
		func() {
			defer func() {
				if r := recover(); r != nil {
					msg := strings.ReplaceAll(fmt.Sprint(r), "\n", " ")
					res = "panic 0 " + strconv.Quote(msg)
				}
			}()
			switch f[0] {
			case "ss", "br", "rm":
				b := gen.UnHex(f[1])
				var m0, m1 runtime.MemStats
				runtime.ReadMemStats(&m0)
				canon, reenc := decodeOnce(f[0], b)
				runtime.ReadMemStats(&m1)
				// canon may contain spaces ("ok …"): last field
				res = fmt.Sprintf("done %d %s %s", m1.TotalAlloc-m0.TotalAlloc, orDash(reenc), canon)
			case "rops":
				res = "done 0 - " + readerOps(f[1], f[2], gen.UnHex(f[3]))
			}
		}()
		busy <- false
		out.WriteString(res)
		out.WriteByte('\n')
		out.Flush()
	}
}

func orDash(s string) string {
	if s == "" {
		return "-"
	}
	return s
}

// ---------------------------------------------------------------- parent side of the worker protocol

type worker struct {
	cmd    *exec.Cmd
	in     io.WriteCloser
	out    *bufio.Reader
	stderr *bytes.Buffer
}

func startWorker() *worker {
	self, err := os.Executable()
	if err != nil {
		panic(err)
	}
	cmd := exec.Command(self)
	cmd.Env = append(os.Environ(), "C26_WORKER=1", "GOMAXPROCS=2", "GOTRACEBACK=single")
	in, _ := cmd.StdinPipe()
	outp, _ := cmd.StdoutPipe()
	var eb bytes.Buffer
	cmd.Stderr = &eb
	if err := cmd.Start(); err != nil {
		panic(err)
	}
	return &worker{cmd, in, bufio.NewReaderSize(outp, 1<<20), &eb}
}

type result struct {
	cls   string // done | panic | diverge | oom | crash
	alloc uint64
	reenc string
	canon string
	msg   string
}

var theWorker *worker
var restarts int

// ask sends one request to the worker; a dead or stuck worker is classified and replaced.
func ask(req string) result {
	if theWorker == nil {
		theWorker = startWorker()
	}
	w := theWorker
	io.WriteString(w.in, req+"\n")
	type rd struct {
		s   string
		err error
	}
	ch := make(chan rd, 1)
	go func() { s, err := w.out.ReadString('\n'); ch <- rd{s, err} }()
	var got rd
	select {
	case got = <-ch:
	case <-time.After(10 * time.Minute): // backstop only; the worker's own CPU watchdog fires first
		w.cmd.Process.Kill()
		got = <-ch
	}
	if got.err != nil { // worker died
		w.cmd.Wait()
		theWorker = nil
		restarts++
		es := w.stderr.String()
		r := result{msg: firstLine(es)}
		switch {
		case strings.Contains(es, "C26-WATCHDOG"):
			r.cls = "diverge"
		case strings.Contains(es, "out of memory") || strings.Contains(es, "cannot allocate") || strings.Contains(es, "allocation size out of range"):
			r.cls = "oom"
		default:
			r.cls = "crash"
		}
		return r
	}
	f := strings.SplitN(strings.TrimSpace(got.s), " ", 4)
	switch f[0] {
	case "panic":
		return result{cls: "panic", msg: f[2] + " " + strings.Join(f[3:], " ")}
	case "done":
		a, _ := strconv.ParseUint(f[1], 10, 64)
		return result{cls: "done", alloc: a, reenc: f[2], canon: f[3]}
	}
	panic("bad worker answer: " + got.s)
}

func firstLine(s string) string {
	s = strings.TrimSpace(s)
	if i := strings.IndexByte(s, '\n'); i >= 0 {
		s = s[:i]
	}
	if len(s) > 200 {
		s = s[:200]
	}
	return s
}

// ---------------------------------------------------------------- cases

var kindName = map[string]string{"ss": "stringset", "br": "branchesrepos", "rm": "reposmap"}

// decodeCase runs one decoder on b in the worker and emits the case.
func decodeCase(w *gen.Writer, kind string, b []byte, class string, known ...[]byte) {
	r := ask(kind + " " + gen.Hex(b))
	impl := r.canon
	if r.cls != "done" {
		impl = r.cls
	}
	c := gen.Case{Class: kind + ":" + class + ":" + strings.SplitN(impl, " ", 2)[0], Nontrivial: len(b) > 3}
	switch kind {
	case "ss":
		c.In = fmt.Sprintf("ssdec %s %d", gen.Hex(b), r.alloc)
	case "rm":
		c.In = fmt.Sprintf("rmdec %s %d", gen.Hex(b), r.alloc)
	case "br":
		tb := b
		if len(known) > 0 { // a valid encoding whose bitmap slices are known: no need to try every offset
			tb = nil
		}
		c.In = fmt.Sprintf("brdec %s %d %s", gen.Hex(b), r.alloc, roaringTable(tb, known...))
	}
	c.Impl = impl
	// Go-side oracles on the implementation's behaviour (independent of the model)
	switch {
	case r.cls != "done":
		c.Go = fmt.Sprintf("decoder did not return: %s (%s)", r.cls, r.msg)
		c.Key = "decode-not-total:" + kindName[kind] + ":" + r.cls
	case r.reenc == "invalid-roaring":
		c.Go = "decoder returned a structurally invalid roaring bitmap with a nil error (roaring.Validate rejects it)"
		c.Key = "decoded-value-unusable:" + kindName[kind] + ":roaring-not-validated"
	case r.reenc != "-" && r.reenc != "ok":
		c.Go = "decoded value is not usable: " + r.reenc
		c.Key = "decoded-value-unusable:" + kindName[kind]
	}
	c.Detail = gen.Detail(map[string]any{"kind": kind, "bytes": gen.Hex(b), "outcome": r.cls, "msg": r.msg, "alloc": r.alloc})
	w.Emit(c)
}

func ropsCase(w *gen.Writer, pkg, ops string, b []byte) {
	r := ask(fmt.Sprintf("rops %s %s %s", pkg, ops, gen.Hex(b)))
	impl := r.canon
	if r.cls != "done" {
		impl = r.cls
	}
	tbl := "-"
	if pkg == "q" {
		tbl = roaringTable(b)
	}
	c := gen.Case{In: fmt.Sprintf("rops %s %s %s %s", pkg, ops, gen.Hex(b), tbl), Impl: impl, Class: "rops:" + pkg, Nontrivial: len(ops) > 1 && len(b) > 1}
	if r.cls != "done" {
		c.Go = fmt.Sprintf("reader primitive did not return: %s (%s)", r.cls, r.msg)
		c.Key = "reader-not-total:" + r.cls
	}
	c.Detail = gen.Detail(map[string]any{"kind": "rops", "pkg": pkg, "ops": ops, "bytes": gen.Hex(b)})
	w.Emit(c)
}

// round trips run in-process through the public API (a failure here is an error or a wrong value, not a crash)

func ssRoundTrip(w *gen.Writer, keys []string, class string) []byte {
	q := query.FileNameSet{Set: map[string]struct{}{}}
	for _, k := range keys {
		q.Set[k] = struct{}{}
	}
	orig := showSet(q.Set)
	enc, err := q.MarshalBinary()
	c := gen.Case{In: "ssrt " + orig, Class: "ssrt:" + class, Nontrivial: len(q.Set) >= 2}
	dec := "err"
	if err == nil {
		var q2 query.FileNameSet
		if err := q2.UnmarshalBinary(enc); err == nil {
			dec = "ok " + showSet(q2.Set)
			if len(q2.Set) != len(q.Set) {
				c.Go, c.Key = "round trip changed the set", "roundtrip:stringset"
			}
			for k := range q.Set {
				if _, ok := q2.Set[k]; !ok {
					c.Go, c.Key = "round trip lost a key", "roundtrip:stringset"
				}
			}
		} else {
			c.Go, c.Key = "decode of encoded value failed: "+err.Error(), "roundtrip:stringset"
		}
	} else {
		c.Go, c.Key = "encode failed: "+err.Error(), "roundtrip:stringset"
	}
	c.Impl = fmt.Sprintf("enc=%s dec=%s", gen.Hex(enc), dec)
	c.Detail = gen.Detail(map[string]any{"kind": "ssrt", "keys": orig})
	w.Emit(c)
	return enc
}

func rmRoundTrip(w *gen.Writer, m zoekt.ReposMap, class string) []byte {
	orig := showRMap(m)
	enc, err := m.MarshalBinary()
	c := gen.Case{In: "rmrt " + orig, Class: "rmrt:" + class, Nontrivial: len(m) >= 2}
	dec := "err"
	if err == nil {
		var m2 zoekt.ReposMap
		if err := m2.UnmarshalBinary(enc); err == nil {
			dec = "ok " + showRMap(m2)
			if !rmEqual(m, m2) {
				c.Go, c.Key = "round trip changed the map", "roundtrip:reposmap"
			}
		} else {
			c.Go, c.Key = "decode of encoded value failed: "+err.Error(), "roundtrip:reposmap"
		}
	} else {
		c.Go, c.Key = "encode failed: "+err.Error(), "roundtrip:reposmap"
	}
	c.Impl = fmt.Sprintf("enc=%s dec=%s", gen.Hex(enc), dec)
	c.Detail = gen.Detail(map[string]any{"kind": "rmrt", "map": orig})
	w.Emit(c)
	return enc
}

// rmEqual: independent comparison (nil and empty collections identified)
func rmEqual(a, b zoekt.ReposMap) bool {
	if len(a) != len(b) {
		return false
	}
	for id, ea := range a {
		eb, ok := b[id]
		if !ok || ea.HasSymbols != eb.HasSymbols || ea.IndexTimeUnix != eb.IndexTimeUnix || len(ea.Branches) != len(eb.Branches) {
			return false
		}
		for i := range ea.Branches {
			if ea.Branches[i] != eb.Branches[i] {
				return false
			}
		}
	}
	return true
}

func brRoundTrip(w *gen.Writer, l []query.BranchRepos, class string) ([]byte, [][]byte) {
	var entries []string
	var sers [][]byte
	for _, br := range l {
		ser, err := br.Repos.ToBytes()
		if err != nil {
			panic(err)
		}
		// assumption of the model, checked on every bitmap: roaring's serialisation round-trips and its size
		// announcement is exact
		bm := roaring.New()
		if _, err := bm.FromBuffer(append([]byte(nil), ser...)); err != nil || !bm.Equals(br.Repos) || br.Repos.GetSerializedSizeInBytes() != uint64(len(ser)) {
			panic("roaring serialisation does not round-trip: the model's assumption about the library is false")
		}
		sers = append(sers, ser)
		entries = append(entries, xhex([]byte(br.Branch))+":"+xhex(ser))
	}
	es := "-"
	if len(entries) > 0 {
		es = strings.Join(entries, ";")
	}
	q := query.BranchesRepos{List: l}
	enc, err := q.MarshalBinary()
	c := gen.Case{Class: "brrt:" + class, Nontrivial: len(l) >= 2}
	dec := "err"
	if err == nil {
		var q2 query.BranchesRepos
		if err := q2.UnmarshalBinary(enc); err == nil {
			dec = "ok " + showBrList(q2.List)
			if len(q2.List) != len(l) {
				c.Go, c.Key = "round trip changed the list length", "roundtrip:branchesrepos"
			} else {
				for i := range l {
					if l[i].Branch != q2.List[i].Branch || q2.List[i].Repos == nil || !l[i].Repos.Equals(q2.List[i].Repos) {
						c.Go, c.Key = "round trip changed an entry", "roundtrip:branchesrepos"
					}
				}
			}
		} else {
			c.Go, c.Key = "decode of encoded value failed: "+err.Error(), "roundtrip:branchesrepos"
		}
	} else {
		c.Go, c.Key = "encode failed: "+err.Error(), "roundtrip:branchesrepos"
	}
	c.In = fmt.Sprintf("brrt %s %s", es, roaringTable(nil, sers...))
	c.Impl = fmt.Sprintf("enc=%s dec=%s", gen.Hex(enc), dec)
	c.Detail = gen.Detail(map[string]any{"kind": "brrt", "entries": es})
	w.Emit(c)
	return enc, append(sers, nil) // nil: the empty slice, so that `known` is never empty
}

// gobCase: the codecs as encoding/gob uses them (gob calls MarshalBinary / UnmarshalBinary of values that implement
// them): a whole query / RepoList travels through gob and must come back equal. Go oracle only.
func gobCase(w *gen.Writer, keys []string, brs []query.BranchRepos, m zoekt.ReposMap) {
	c := gen.Case{Class: "gob-end-to-end", Nontrivial: true}
	fail := func(why string) {
		if c.Go == "" {
			c.Go, c.Key = why, "roundtrip:gob"
		}
	}
	func() {
		defer func() {
			if r := recover(); r != nil {
				fail(fmt.Sprint("panic: ", r))
			}
		}()
		fs := &query.FileNameSet{Set: map[string]struct{}{}}
		for _, k := range keys {
			fs.Set[k] = struct{}{}
		}
		type envelope struct {
			Q    []query.Q
			List zoekt.RepoList
		}
		gob.Register(&query.FileNameSet{})
		gob.Register(&query.BranchesRepos{})
		gob.Register(&query.And{})
		in := envelope{Q: []query.Q{&query.And{Children: []query.Q{fs, &query.BranchesRepos{List: brs}}}}, List: zoekt.RepoList{ReposMap: m}}
		var buf bytes.Buffer
		if err := gob.NewEncoder(&buf).Encode(&in); err != nil {
			fail("gob encode: " + err.Error())
			return
		}
		var out envelope
		if err := gob.NewDecoder(&buf).Decode(&out); err != nil {
			fail("gob decode: " + err.Error())
			return
		}
		and, ok := out.Q[0].(*query.And)
		if !ok || len(and.Children) != 2 {
			fail("gob changed the query shape")
			return
		}
		fs2, ok1 := and.Children[0].(*query.FileNameSet)
		br2, ok2 := and.Children[1].(*query.BranchesRepos)
		if !ok1 || !ok2 {
			fail("gob changed the query node kinds")
			return
		}
		if showSet(fs2.Set) != showSet(fs.Set) {
			fail("FileNameSet changed through gob")
		}
		if showBrList(br2.List) != showBrList(brs) {
			fail("BranchesRepos changed through gob")
		}
		if !rmEqual(m, out.List.ReposMap) {
			fail("ReposMap changed through gob")
		}
	}()
	c.Detail = gen.Detail(map[string]any{"kind": "gob"})
	w.Emit(c)
}

// ---------------------------------------------------------------- histories of calls

// The codecs are specified as functions of their argument. A history keeps every result a call handed out — the
// encoder's byte slice itself, not a copy; the decoded value itself — while further encode / decode calls of all three
// codecs run in the same process, and the caller overwrites each decoder input buffer once the call has returned (it
// owns that buffer). At the end every retained result must be what it was when it was returned, every retained
// encoding must still decode to its value, and the Lean model (which computes each step on its own) must agree.
type histStep struct {
	kind     string // ssenc rmenc brenc ssdec rmdec brdec
	arg      string // canonical value (enc) or hex input (dec)
	bytes    []byte // enc: the slice the encoder returned (retained, never copied)
	set      *query.FileNameSet
	rm       *zoekt.ReposMap
	br       *query.BranchesRepos
	decErr   bool
	snapshot string // rendering right after the call
	table    string
}

func (st *histStep) render() (out string) {
	defer func() {
		if r := recover(); r != nil {
			out = "panic-on-use"
		}
	}()
	switch st.kind {
	case "ssenc", "rmenc", "brenc":
		return gen.Hex(st.bytes)
	}
	if st.decErr {
		return "err"
	}
	switch st.kind {
	case "ssdec":
		return "ok " + showSet(st.set.Set)
	case "rmdec":
		return "ok " + showRMap(*st.rm)
	default:
		return "ok " + showBrList(st.br.List)
	}
}

func scribble(b []byte) {
	for i := range b {
		b[i] = 0xA5
	}
}

func historyCase(w *gen.Writer, r *gen.Rand, f gen.Flags) {
	n := r.Range(2, 6)
	steps := make([]*histStep, 0, n)
	panicked := ""
	for i := 0; i < n && panicked == ""; i++ {
		st := &histStep{table: "-"}
		func() {
			defer func() {
				if rec := recover(); rec != nil {
					panicked = fmt.Sprint(rec)
				}
			}()
			k := r.Intn(10)
			switch {
			case k < 2: // ssenc
				q := &query.FileNameSet{Set: map[string]struct{}{}}
				for _, key := range genKeys(r) {
					q.Set[key] = struct{}{}
				}
				st.kind, st.arg = "ssenc", showSet(q.Set)
				st.bytes, _ = q.MarshalBinary()
			case k < 5: // rmenc (maps of similar size follow each other often: a reused buffer is then overwritten in place)
				m := genRMap(r)
				st.kind, st.arg = "rmenc", showRMap(m)
				st.bytes, _ = m.MarshalBinary()
			case k < 6: // brenc
				l := genBrList(r)
				if len(l) > 6 {
					l = l[:6]
				}
				var entries []string
				var sers [][]byte
				for _, br := range l {
					ser, _ := br.Repos.ToBytes()
					sers = append(sers, ser)
					entries = append(entries, xhex([]byte(br.Branch))+":"+xhex(ser))
				}
				st.kind, st.arg = "brenc", "-"
				if len(entries) > 0 {
					st.arg = strings.Join(entries, ";")
				}
				st.table = roaringTable(nil, sers...)
				q := query.BranchesRepos{List: l}
				st.bytes, _ = q.MarshalBinary()
			case k < 7: // ssdec
				q := &query.FileNameSet{Set: map[string]struct{}{}}
				for _, key := range genKeys(r) {
					q.Set[key] = struct{}{}
				}
				enc, _ := q.MarshalBinary()
				in := append([]byte(nil), enc...)
				if r.Chance(1, 4) {
					in = mutate(r, in)
				}
				st.kind, st.arg = "ssdec", gen.Hex(in)
				st.set = &query.FileNameSet{}
				st.decErr = st.set.UnmarshalBinary(in) != nil
				st.snapshot = st.render()
				scribble(in) // the caller's buffer is the caller's again
			case k < 9: // rmdec
				src := genRMap(r)
				enc, _ := src.MarshalBinary()
				in := append([]byte(nil), enc...)
				if r.Chance(1, 4) {
					in = mutate(r, in)
				}
				st.kind, st.arg = "rmdec", gen.Hex(in)
				st.rm = &zoekt.ReposMap{}
				st.decErr = st.rm.UnmarshalBinary(in) != nil
				st.snapshot = st.render()
				scribble(in)
			default: // brdec
				l := genBrList(r)
				if len(l) > 6 {
					l = l[:6]
				}
				var sers [][]byte
				for _, br := range l {
					ser, _ := br.Repos.ToBytes()
					sers = append(sers, ser)
				}
				q := query.BranchesRepos{List: l}
				enc, _ := q.MarshalBinary()
				in := append([]byte(nil), enc...)
				st.kind, st.arg = "brdec", gen.Hex(in)
				st.table = roaringTable(nil, sers...)
				st.br = &query.BranchesRepos{}
				st.decErr = st.br.UnmarshalBinary(in) != nil
				st.snapshot = st.render()
				scribble(in)
			}
			if st.snapshot == "" {
				st.snapshot = st.render()
			}
		}()
		if panicked == "" {
			steps = append(steps, st)
			w.Count("hist-step:"+st.kind, 1)
		}
	}
	var ins, impls, tables []string
	c := gen.Case{Class: fmt.Sprintf("hist:steps=%d", len(steps)), Nontrivial: len(steps) >= 2}
	encs := 0
	for i, st := range steps {
		final := st.render()
		ins = append(ins, st.kind+"="+st.arg)
		impls = append(impls, final)
		if st.table != "-" {
			tables = append(tables, st.table)
		}
		codec := map[string]string{"ss": "stringset", "rm": "reposmap", "br": "branchesrepos"}[st.kind[:2]]
		if strings.HasSuffix(st.kind, "enc") {
			encs++
		}
		// Go oracle, independent of the model: the retained result is what the call returned
		if final != st.snapshot && c.Go == "" {
			c.Go = fmt.Sprintf("the result of call %d (%s) changed while later calls ran: it no longer is what the call returned", i+1, st.kind)
			c.Key = "history:result-not-stable:" + codec
		}
		// … and a retained encoding still decodes to its value
		if strings.HasSuffix(st.kind, "enc") && c.Go == "" {
			canon, _ := decodeOnce(st.kind[:2], append([]byte(nil), st.bytes...))
			want := st.arg
			if st.kind == "brenc" {
				want = "" // compared by the model (bitmap tokens)
			}
			norm := func(s string) string {
				if s == "nil" {
					return "-"
				}
				return s
			}
			if want != "" && norm(strings.TrimPrefix(canon, "ok ")) != norm(want) {
				c.Go = fmt.Sprintf("the encoding returned by call %d (%s) no longer decodes to the encoded value after later calls", i+1, st.kind)
				c.Key = "history:result-not-stable:" + codec
			}
		}
	}
	if encs >= 2 {
		w.Count("hist-with-2+-retained-encodings", 1)
	}
	if panicked != "" {
		c.Go, c.Key = "a call in the history panicked: "+firstLine(panicked), "history:panic"
	} else if len(steps) > 0 {
		tbl := "-"
		if len(tables) > 0 {
			tbl = strings.Join(tables, ",")
		}
		c.In = fmt.Sprintf("hist %s %s", strings.Join(ins, "|"), tbl)
		c.Impl = strings.Join(impls, "|")
	}
	c.Detail = gen.Detail(map[string]any{"kind": "hist", "steps": ins})
	w.Emit(c)
}

// concurrentCase: several goroutines each encode their own values and decode their own results (what concurrent List
// RPCs do). Scheduling dependent, so it only ever adds evidence; the sequential histories above are the deterministic
// detector for results that alias shared state.
func concurrentCase(w *gen.Writer, r *gen.Rand, rounds int) {
	const workers = 4
	errs := make(chan string, workers)
	var wg sync.WaitGroup
	for g := 0; g < workers; g++ {
		rr := r.Fork()
		wg.Add(1)
		go func() {
			defer wg.Done()
			defer func() {
				if rec := recover(); rec != nil {
					errs <- "reposmap: panic " + firstLine(fmt.Sprint(rec))
				}
			}()
			for i := 0; i < rounds; i++ {
				m := genRMap(rr)
				enc, _ := m.MarshalBinary()
				q := &query.FileNameSet{Set: map[string]struct{}{}}
				for _, key := range genKeys(rr) {
					q.Set[key] = struct{}{}
				}
				enc2, _ := q.MarshalBinary()
				runtime.Gosched()
				var m2 zoekt.ReposMap
				if err := m2.UnmarshalBinary(enc); err != nil || !rmEqual(m, m2) {
					errs <- "reposmap"
					return
				}
				var q2 query.FileNameSet
				if err := q2.UnmarshalBinary(enc2); err != nil || showSet(q2.Set) != showSet(q.Set) {
					errs <- "stringset"
					return
				}
			}
		}()
	}
	wg.Wait()
	close(errs)
	c := gen.Case{Class: "concurrent-roundtrip", Nontrivial: true, Detail: gen.Detail(map[string]any{"kind": "concurrent"})}
	if e, ok := <-errs; ok {
		c.Go = "concurrent encoders: a goroutine's own encoding did not decode to its own value (" + e + ")"
		c.Key = "history:result-not-stable:" + strings.SplitN(e, ":", 2)[0]
	}
	w.Emit(c)
}

// ---------------------------------------------------------------- generators

var names = []string{"", "a", "HEAD", "main", "dev", "日本語", "é", "\xff\xfe", "a b", "x/y.go", "\x00", "refs/heads/main"}

func genName(r *gen.Rand) string {
	if r.Chance(1, 400) {
		return strings.Repeat("日", r.Range(5400, 5500)) // 3-byte length varint (16384 = 2^14)
	}
	switch r.Intn(12) {
	case 0, 1:
		return strings.Repeat("n", r.Range(120, 135)) // crosses the 1→2 byte length varint
	case 2:
		b := make([]byte, r.Range(1, 12))
		for i := range b {
			b[i] = byte(r.Intn(256))
		}
		return string(b)
	default:
		return gen.Pick(r, names) + strconv.Itoa(r.Intn(4))
	}
}

func genBitmap(r *gen.Rand) *roaring.Bitmap {
	bm := roaring.New()
	k := r.Intn(7)
	if k == 4 && !r.Chance(1, 8) {
		k = 2
	}
	switch k {
	case 0: // empty
	case 1:
		for i, n := 0, r.Range(1, 8); i < n; i++ {
			bm.Add(uint32(r.Intn(50)))
		}
	case 2: // several containers
		for i, n := 0, r.Range(1, 20); i < n; i++ {
			bm.Add(uint32(r.Intn(5)<<16 + r.Intn(100)))
		}
	case 3: // run container
		lo := uint64(r.Intn(100000))
		bm.AddRange(lo, lo+uint64(r.Range(1, 9000)))
		bm.RunOptimize()
	case 4: // bitmap container (> 4096 values in one container)
		for i := 0; i < 4200; i++ {
			bm.Add(uint32(i * 3))
		}
	case 5: // extremes
		bm.Add(0)
		bm.Add(^uint32(0))
		bm.Add(65535)
		bm.Add(65536)
	case 6:
		for i, n := 0, r.Range(1, 6); i < n; i++ {
			bm.Add(uint32(r.U64()))
		}
	}
	return bm
}

func genKeys(r *gen.Rand) []string {
	n := r.Range(0, 12)
	if r.Chance(1, 15) {
		n = r.Range(126, 131) // count varint 1→2 bytes
	}
	ks := make([]string, n)
	for i := range ks {
		ks[i] = genName(r)
		if n > 100 {
			ks[i] += strconv.Itoa(i)
		}
	}
	return ks
}

func genRMap(r *gen.Rand) zoekt.ReposMap {
	switch r.Intn(12) {
	case 0:
		return nil
	case 1:
		return zoekt.ReposMap{}
	}
	m := zoekt.ReposMap{}
	n := r.Range(1, 6)
	if r.Chance(1, 20) {
		n = 130
	}
	for i := 0; i < n; i++ {
		var id uint32
		switch r.Intn(5) {
		case 0:
			id = uint32(r.Intn(3))
		case 1:
			id = ^uint32(0) - uint32(r.Intn(2))
		case 2:
			id = uint32(r.Range(120, 135))
		default:
			id = uint32(r.U64())
		}
		var e zoekt.MinimalRepoListEntry
		e.HasSymbols = r.Bool()
		switch r.Intn(6) {
		case 0:
			e.IndexTimeUnix = 0
		case 1:
			e.IndexTimeUnix = -int64(r.Intn(1000)) - 1
		case 2:
			e.IndexTimeUnix = -1 << 63
		case 3:
			e.IndexTimeUnix = 1<<63 - 1
		default:
			e.IndexTimeUnix = 1700000000 + int64(r.Intn(1000000))
		}
		nb := r.Intn(4)
		if nb > 0 || r.Bool() {
			e.Branches = make([]zoekt.RepositoryBranch, nb)
			for j := range e.Branches {
				e.Branches[j] = zoekt.RepositoryBranch{Name: genName(r), Version: genName(r)}
			}
		}
		m[id] = e
	}
	return m
}

func genBrList(r *gen.Rand) []query.BranchRepos {
	n := r.Range(0, 5)
	if r.Chance(1, 25) {
		n = 129
	}
	l := make([]query.BranchRepos, n)
	for i := range l {
		l[i] = query.BranchRepos{Branch: genName(r), Repos: genBitmap(r)}
		if n > 100 {
			l[i].Repos = roaring.BitmapOf(uint32(i))
		}
	}
	if n == 0 && r.Bool() {
		return nil
	}
	return l
}

var extremeVarints = [][]byte{
	{0xff, 0xff, 0xff, 0xff, 0xff, 0xff, 0xff, 0xff, 0xff, 0x01},       // 2^64-1 → int -1
	{0x80, 0x80, 0x80, 0x80, 0x80, 0x80, 0x80, 0x80, 0x80, 0x01},       // 2^63 → minInt
	{0xff, 0xff, 0xff, 0xff, 0xff, 0xff, 0xff, 0xff, 0x7f},             // 2^63-1
	{0xff, 0xff, 0xff, 0xff, 0xff, 0xff, 0xff, 0xff, 0xff, 0x02},       // overflow
	{0x80, 0x80, 0x80, 0x80, 0x80, 0x80, 0x80, 0x80, 0x80, 0x80, 0x01}, // 11 bytes: overflow
	{0x80, 0x80, 0x80, 0x80, 0x04},                                     // 2^30
	{0x80, 0x80, 0x80, 0x80, 0x80, 0x80, 0x01},                         // 2^42
	{0x80, 0x80, 0x40},                                                 // 2^20
	{0xff, 0x7f},                                                       // 16383
	{0x80, 0x00},                                                       // non-minimal 0
	{0x81, 0x00},                                                       // non-minimal 1
	{0x80},                                                             // truncated
	{0x00}, {0x01}, {0x02}, {0x7f},
}

// varintSpans finds plausible varint positions in a valid encoding (every offset is tried; the mutation replaces the
// varint starting there)
func mutate(r *gen.Rand, b []byte) []byte {
	b = append([]byte(nil), b...)
	for k, n := 0, r.Range(1, 2); k < n; k++ {
		switch r.Intn(8) {
		case 0:
			if len(b) > 0 {
				b[r.Intn(len(b))] ^= byte(1 << r.Intn(8))
			}
		case 1:
			if len(b) > 0 {
				b = b[:r.Intn(len(b))]
			}
		case 2:
			b = append(b, byte(r.Intn(256)))
		case 3, 4, 5: // replace the varint at a position by an extreme one
			if len(b) > 1 {
				p := 1 + r.Intn(len(b)-1)
				_, n := binary.Uvarint(b[p:])
				if n <= 0 {
					n = 1
				}
				ev := gen.Pick(r, extremeVarints)
				b = append(append(append([]byte(nil), b[:p]...), ev...), b[p+n:]...)
			}
		case 6:
			if len(b) > 0 {
				p := r.Intn(len(b))
				b = append(append(append([]byte(nil), b[:p]...), byte(r.Intn(256))), b[p:]...)
			}
		case 7:
			if len(b) > 1 {
				p := r.Intn(len(b))
				b = append(b[:p:p], b[p+1:]...)
			}
		}
	}
	return b
}

func randomBytes(r *gen.Rand, versions []byte) []byte {
	n := r.Range(0, 24)
	b := make([]byte, n)
	for i := range b {
		switch r.Intn(4) {
		case 0:
			b[i] = byte(r.Intn(4))
		case 1:
			b[i] = byte(0x80 | r.Intn(128))
		default:
			b[i] = byte(r.Intn(256))
		}
	}
	if n > 0 && r.Chance(4, 5) {
		b[0] = gen.Pick(r, versions)
	}
	if n > 1 && r.Chance(1, 4) { // extreme count right after the version
		b = append(append([]byte{b[0]}, gen.Pick(r, extremeVarints)...), b[1:]...)
	}
	return b
}

// ---------------------------------------------------------------- corpus / replay

type corpusCase struct {
	Kind  string `json:"kind"`  // ss | br | rm | rops
	Bytes string `json:"bytes"` // hex
	Pkg   string `json:"pkg,omitempty"`
	Ops   string `json:"ops,omitempty"`
	Note  string `json:"note,omitempty"`
}

func runStored(w *gen.Writer, c corpusCase, class string) {
	switch c.Kind {
	case "ss", "br", "rm":
		decodeCase(w, c.Kind, gen.UnHex(c.Bytes), class)
	case "rops":
		ropsCase(w, c.Pkg, c.Ops, gen.UnHex(c.Bytes))
	}
}

func main() {
	if os.Getenv("C26_WORKER") == "1" {
		workerMain()
		return
	}
	f := gen.ParseFlags()
	w := gen.NewWriter(f.Out)
	defer w.Close()
	defer func() {
		if theWorker != nil {
			theWorker.in.Close()
			theWorker.cmd.Wait()
		}
	}()

	if f.Replay != "" {
		var rp struct {
			Case struct {
				Detail corpusCase `json:"detail"`
			} `json:"case"`
			FirstDisagreement *struct {
				Detail corpusCase `json:"detail"`
			} `json:"first_disagreement"`
		}
		b, err := os.ReadFile(f.Replay)
		if err != nil {
			panic(err)
		}
		json.Unmarshal(b, &rp)
		d := rp.Case.Detail
		if d.Kind == "" && rp.FirstDisagreement != nil {
			d = rp.FirstDisagreement.Detail
		}
		if d.Kind == "" { // a corpus file
			json.Unmarshal(b, &d)
		}
		if d.Kind != "" && d.Kind != "ssrt" && d.Kind != "rmrt" && d.Kind != "brrt" && d.Kind != "hist" && d.Kind != "concurrent" && d.Kind != "gob" {
			runStored(w, d, "replay")
			return
		}
		// round-trip cases and histories are regenerated from the seed below (they are functions of the seed alone)
	}

	// corpus first
	if f.Corpus != "" {
		files, _ := filepath.Glob(filepath.Join(f.Corpus, "*.json"))
		sort.Strings(files)
		for _, p := range files {
			b, err := os.ReadFile(p)
			if err != nil {
				continue
			}
			var c corpusCase
			if json.Unmarshal(b, &c) == nil && c.Kind != "" {
				runStored(w, c, "corpus")
			}
		}
	}

	r := gen.NewRand(f.Seed)
	nRT := f.N(250, 6000)
	nMut := f.N(5, 12)
	nRand := f.N(1200, 60000)
	nOps := f.N(1200, 40000)

	// 1. round trips of generated values; each valid encoding then seeds mutated inputs for the decoder
	for i := 0; i < nRT; i++ {
		enc := ssRoundTrip(w, genKeys(r), "gen")
		decodeCase(w, "ss", enc, "valid")
		for k := 0; k < nMut; k++ {
			decodeCase(w, "ss", mutate(r, enc), "mutated")
		}
		enc = rmRoundTrip(w, genRMap(r), "gen")
		decodeCase(w, "rm", enc, "valid")
		if len(enc) > 0 && r.Chance(1, 3) { // the version-1 layout: no IndexTimeUnix
			decodeCase(w, "rm", append([]byte{1}, enc[1:]...), "as-v1")
		}
		for k := 0; k < nMut; k++ {
			decodeCase(w, "rm", mutate(r, enc), "mutated")
		}
		enc, sers := brRoundTrip(w, genBrList(r), "gen")
		decodeCase(w, "br", enc, "valid", sers...)
		if len(enc) < f.N(1500, 6000) { // the table of a mutated input has one roaring parse per offset
			for k := 0; k < nMut; k++ {
				decodeCase(w, "br", mutate(r, enc), "mutated")
			}
		}
	}
	for i := 0; i < f.N(100, 2000); i++ {
		gobCase(w, genKeys(r), genBrList(r), genRMap(r))
	}
	// 1b. histories of calls with every result retained, and concurrent encoders
	for i := 0; i < f.N(400, 8000); i++ {
		historyCase(w, r, f)
	}
	for i := 0; i < f.N(4, 40); i++ {
		concurrentCase(w, r, f.N(60, 300))
	}
	// 2. hand-written version-1 ReposMap encodings (the encoder only writes version 2)
	for _, b := range [][]byte{
		{1, 1, 1, 7, 1, 1, 1, 'a', 1, 'b'},
		{1, 2, 0, 7, 0, 0, 9, 1, 0},
		{1, 1, 2, 5, 1, 2, 0, 0, 1, 'x', 1, 'y'},
	} {
		decodeCase(w, "rm", b, "v1")
	}
	// 3. random byte strings
	for i := 0; i < nRand; i++ {
		switch i % 3 {
		case 0:
			decodeCase(w, "ss", randomBytes(r, []byte{1}), "random")
		case 1:
			decodeCase(w, "rm", randomBytes(r, []byte{1, 2}), "random")
		case 2:
			decodeCase(w, "br", randomBytes(r, []byte{1}), "random")
		}
	}
	// 4. reader primitives on random and extreme inputs
	for i := 0; i < nOps; i++ {
		var b []byte
		for k, n := 0, r.Range(0, 4); k < n; k++ {
			switch r.Intn(4) {
			case 0:
				b = append(b, gen.Pick(r, extremeVarints)...)
			case 1:
				s := genName(r)
				if len(s) > 40 {
					s = s[:40]
				}
				b = binary.AppendUvarint(b, uint64(len(s)))
				b = append(b, s...)
			case 2:
				b = binary.AppendUvarint(b, r.U64()>>uint(r.Intn(64)))
			default:
				b = append(b, byte(r.Intn(256)))
			}
		}
		pkg := "z"
		alphabet := "usb"
		if i%2 == 1 {
			pkg, alphabet = "q", "usbm"
		}
		ops := make([]byte, r.Range(1, 5))
		for k := range ops {
			ops[k] = alphabet[r.Intn(len(alphabet))]
		}
		ropsCase(w, pkg, string(ops), b)
	}
	w.Count("worker-restarts", restarts)
}
