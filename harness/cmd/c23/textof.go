package main

import (
	"reflect"
	"strings"
)

// textOf walks v by reflection and concatenates every string and every byte slice (as text) it reaches,
// including map keys.
func textOf(v any) string {
	var sb strings.Builder
	seen := map[uintptr]bool{}
	var walk func(reflect.Value, int)
	walk = func(x reflect.Value, depth int) {
		if !x.IsValid() || depth > 12 {
			return
		}
		switch x.Kind() {
		case reflect.String:
			sb.WriteString(x.String())
			sb.WriteByte('\n')
		case reflect.Slice:
			if x.Type().Elem().Kind() == reflect.Uint8 {
				sb.Write(x.Bytes())
				sb.WriteByte('\n')
				return
			}
			for i := 0; i < x.Len(); i++ {
				walk(x.Index(i), depth+1)
			}
		case reflect.Array:
			for i := 0; i < x.Len(); i++ {
				walk(x.Index(i), depth+1)
			}
		case reflect.Map:
			for _, k := range x.MapKeys() {
				walk(k, depth+1)
				walk(x.MapIndex(k), depth+1)
			}
		case reflect.Pointer:
			if x.IsNil() || seen[x.Pointer()] {
				return
			}
			seen[x.Pointer()] = true
			walk(x.Elem(), depth+1)
		case reflect.Interface:
			if !x.IsNil() {
				walk(x.Elem(), depth+1)
			}
		case reflect.Struct:
			for i := 0; i < x.NumField(); i++ {
				if x.Type().Field(i).IsExported() {
					walk(x.Field(i), depth+1)
				}
			}
		}
	}
	walk(reflect.ValueOf(v), 0)
	return sb.String()
}
