package main

import (
	"bytes"
	"fmt"
	"sort"
	"strconv"
	"strings"

	"github.com/sourcegraph/zoekt"
	"github.com/sourcegraph/zoekt/index"

	"verifharness/gen"
)

// ---- the generated world: repositories of several tenants, to be put into one (compound) shard ----

type subRepo struct {
	Path, Name, URL, Frag string
}

type doc struct {
	Name     string
	Content  string
	Branches []string
	SubPath  string
	FTomb    bool
}

type repo struct {
	Key      string // unique, stored in Repository.Source; ties shard order back to the world
	Tenant   int
	ID       uint32
	Name     string
	Tomb     bool
	URL      string
	Frag     string
	Branches []string
	Subs     []subRepo
	Docs     []doc
}

type world struct {
	Repos []repo
}

// marker is the taint carried by every string owned by a tenant's repository.
func marker(tenant int) string { return fmt.Sprintf("zqt%dx", tenant) }

var words = []string{"alpha", "beta", "gamma", "delta", "omega", "kappa"}

func genWorld(r *gen.Rand, compound bool, prefix string, collide bool) world {
	var w world
	nRepos := 1
	if compound {
		nRepos = r.Range(2, 6)
	}
	tenants := []int{1, 2, 3}
	if r.Chance(1, 4) {
		tenants = []int{0, 1, 2} // 0 = repository without a tenant
	}
	if r.Chance(1, 6) {
		tenants = []int{r.Range(1, 3)} // single-tenant shard
	}
	usedID := map[uint32]bool{}
	for i := 0; i < nRepos; i++ {
		t := gen.Pick(r, tenants)
		mk := marker(t)
		var rp repo
		rp.Key = fmt.Sprintf("%sk%d", prefix, i)
		rp.Tenant = t
		rp.ID = uint32(r.Range(1, 40))
		for usedID[rp.ID] {
			rp.ID++
		}
		usedID[rp.ID] = true
		if r.Chance(1, 12) {
			rp.ID = 0 // "Backwards compat for when ID is missing"
		}
		rp.Name = fmt.Sprintf("%s/%s-%s%d", mk, prefix, gen.Pick(r, []string{"repo", "lib", "svc"}), i)
		rp.URL = fmt.Sprintf("u-%s-%d/{{.Path}}", mk, i)
		rp.Frag = fmt.Sprintf("#L{{.LineNumber}}-%s-%d", mk, i)
		rp.Tomb = r.Chance(1, 8)
		rp.Branches = []string{"main"}
		if r.Chance(1, 2) {
			rp.Branches = append(rp.Branches, "dev-"+mk)
		}
		if r.Chance(1, 4) {
			rp.Subs = append(rp.Subs, subRepo{Path: "sub" + strconv.Itoa(i), Name: fmt.Sprintf("%s/%s-sub%d", mk, prefix, i),
				URL: fmt.Sprintf("su-%s-%d/{{.Path}}", mk, i), Frag: fmt.Sprintf("#S-%s-%d", mk, i)})
		}
		if collide && i > 0 && r.Chance(1, 2) {
			// the same repository name under another owner (names are only unique per tenant)
			// (a neutral name: it must not carry anybody's marker)
			j := r.Intn(i)
			neutral := fmt.Sprintf("shared/%s-n%d", prefix, j)
			w.Repos[j].Name = neutral
			rp.Name = neutral
			if r.Chance(1, 3) {
				rp.ID = w.Repos[j].ID // and even the same repository id
			}
		}
		nDocs := r.Range(1, 4)
		if !compound && r.Chance(1, 6) {
			nDocs = 0
		}
		for j := 0; j < nDocs; j++ {
			var d doc
			d.Name = fmt.Sprintf("%s/%s_%s_%d_%d.%s", gen.Pick(r, []string{"src", "pkg", "doc"}), gen.Pick(r, words), mk, i, j,
				gen.Pick(r, []string{"go", "py", "md"}))
			var lines []string
			for l := r.Range(1, 4); l > 0; l-- {
				var ws []string
				for k := r.Range(1, 4); k > 0; k-- {
					if r.Chance(1, 5) {
						ws = append(ws, mk)
					} else {
						ws = append(ws, gen.Pick(r, words))
					}
				}
				lines = append(lines, strings.Join(ws, " "))
			}
			d.Content = strings.Join(lines, "\n") + "\n"
			d.Branches = []string{rp.Branches[0]}
			if len(rp.Branches) > 1 {
				switch r.Intn(3) {
				case 0:
					d.Branches = []string{rp.Branches[1]}
				case 1:
					d.Branches = append([]string(nil), rp.Branches...)
				}
			}
			if len(rp.Subs) > 0 && r.Chance(1, 2) {
				d.SubPath = rp.Subs[0].Path
				d.Name = d.SubPath + "/" + d.Name
			}
			d.FTomb = r.Chance(1, 12)
			rp.Docs = append(rp.Docs, d)
		}
		w.Repos = append(w.Repos, rp)
	}
	return w
}

// ---- building the real shard ----

type memFile struct {
	name string
	data []byte
}

func (m *memFile) Read(off, sz uint32) ([]byte, error) {
	if uint64(off)+uint64(sz) > uint64(len(m.data)) {
		return nil, fmt.Errorf("memFile: read [%d,+%d) beyond %d", off, sz, len(m.data))
	}
	return m.data[off : off+sz], nil
}
func (m *memFile) Size() (uint32, error) { return uint32(len(m.data)), nil }
func (m *memFile) Close()                {}
func (m *memFile) Name() string          { return m.name }

func (rp *repo) description() *zoekt.Repository {
	mk := marker(rp.Tenant)
	desc := &zoekt.Repository{
		TenantID:             rp.Tenant,
		ID:                   rp.ID,
		Name:                 rp.Name,
		URL:                  "url-" + mk,
		Source:               rp.Key,
		CommitURLTemplate:    "commit-" + mk + "/{{.Version}}",
		FileURLTemplate:      rp.URL,
		LineFragmentTemplate: rp.Frag,
		Metadata:             map[string]string{"owner": "owner-" + mk},
		RawConfig:            map[string]string{"tenantID": strconv.Itoa(rp.Tenant), "repoid": strconv.Itoa(int(rp.ID)), "note": "cfg-" + mk},
	}
	for _, b := range rp.Branches {
		desc.Branches = append(desc.Branches, zoekt.RepositoryBranch{Name: b, Version: "v-" + mk + "-" + b})
	}
	if len(rp.Subs) > 0 {
		desc.SubRepoMap = map[string]*zoekt.Repository{}
		for _, s := range rp.Subs {
			sr := &zoekt.Repository{Name: s.Name, URL: "url-" + mk, FileURLTemplate: s.URL, LineFragmentTemplate: s.Frag,
				CommitURLTemplate: "commit-" + mk}
			for _, b := range rp.Branches {
				sr.Branches = append(sr.Branches, zoekt.RepositoryBranch{Name: b, Version: "sv-" + mk + "-" + b})
			}
			desc.SubRepoMap[s.Path] = sr
		}
	}
	return desc
}

// simpleShard serialises one repository with the real ShardBuilder.
func simpleShard(rp *repo) ([]byte, error) {
	b, err := index.NewShardBuilder(rp.description())
	if err != nil {
		return nil, err
	}
	for _, d := range rp.Docs {
		if err := b.Add(index.Document{Name: d.Name, Content: []byte(d.Content), Branches: d.Branches, SubRepositoryPath: d.SubPath}); err != nil {
			return nil, err
		}
	}
	var buf bytes.Buffer
	if err := b.Write(&buf); err != nil {
		return nil, err
	}
	return buf.Bytes(), nil
}

// shard is the loaded real shard together with the world re-ordered to the shard's own repository order.
type shard struct {
	S     zoekt.Searcher
	Data  []byte
	Repos []*repo // Repos[i] = world repository at repository index i of the shard
	Docs  []sdoc  // in document order
}

type sdoc struct {
	Repo int
	D    *doc
}

func buildShard(w *world) (*shard, error) {
	var data []byte
	if len(w.Repos) == 1 {
		b, err := simpleShard(&w.Repos[0])
		if err != nil {
			return nil, err
		}
		data = b
	} else {
		var files []index.IndexFile
		for i := range w.Repos {
			b, err := simpleShard(&w.Repos[i])
			if err != nil {
				return nil, err
			}
			files = append(files, &memFile{name: w.Repos[i].Key, data: b})
		}
		b, err := index.VerifMergeToBytes(files...)
		if err != nil {
			return nil, err
		}
		data = b
	}
	return loadShard(w, data)
}

func loadShard(w *world, data []byte) (*shard, error) {
	s, err := index.NewSearcher(&memFile{name: "mem.zoekt", data: data})
	if err != nil {
		return nil, err
	}
	sh := &shard{S: s, Data: data}
	mds, err := index.VerifShardRepos(s)
	if err != nil {
		return nil, err
	}
	byKey := map[string]*repo{}
	for i := range w.Repos {
		byKey[w.Repos[i].Key] = &w.Repos[i]
	}
	for i, md := range mds {
		rp := byKey[md.Source]
		if rp == nil {
			return nil, fmt.Errorf("shard repository %d (%s) is not in the world", i, md.Name)
		}
		if md.TenantID != rp.Tenant || md.ID != rp.ID || md.Name != rp.Name {
			return nil, fmt.Errorf("shard repository %d: metadata did not round-trip: %+v", i, md)
		}
		sh.Repos = append(sh.Repos, rp)
		// tombstones live in the .meta sidecar on disk; for the in-memory shard they are set on the loaded data
		if rp.Tomb {
			if err := index.VerifSetShardTombstone(s, i, true); err != nil {
				return nil, err
			}
		}
		var ft []string
		for _, d := range rp.Docs {
			if d.FTomb {
				ft = append(ft, d.Name)
			}
		}
		if len(ft) > 0 {
			if err := index.VerifSetFileTombstones(s, i, ft); err != nil {
				return nil, err
			}
		}
	}
	dr, err := index.VerifShardDocRepos(s)
	if err != nil {
		return nil, err
	}
	next := make([]int, len(sh.Repos))
	for _, ri := range dr {
		rp := sh.Repos[ri]
		if next[ri] >= len(rp.Docs) {
			return nil, fmt.Errorf("shard has more documents for %s than the world", rp.Name)
		}
		sh.Docs = append(sh.Docs, sdoc{Repo: int(ri), D: &rp.Docs[next[ri]]})
		next[ri]++
	}
	for i, rp := range sh.Repos {
		if next[i] != len(rp.Docs) {
			return nil, fmt.Errorf("shard lost documents of %s", rp.Name)
		}
	}
	return sh, nil
}

// ---- encoding for the Lean model ----

func tok(s string) string {
	if s == "" {
		return "~"
	}
	if strings.ContainsAny(s, " \t\n:;|,=~") {
		panic("token has a reserved character: " + s)
	}
	return s
}

func (sh *shard) encodeRepos() string {
	if len(sh.Repos) == 0 {
		return "-"
	}
	var parts []string
	for _, rp := range sh.Repos {
		subs := "-"
		if len(rp.Subs) > 0 {
			// SubRepoMap is a Go map: the order of writes is not determined; names are unique so it does not matter
			ss := append([]subRepo(nil), rp.Subs...)
			sort.Slice(ss, func(i, j int) bool { return ss[i].Path < ss[j].Path })
			var sp []string
			for _, s := range ss {
				sp = append(sp, tok(s.Name)+"|"+tok(s.URL)+"|"+tok(s.Frag))
			}
			subs = strings.Join(sp, ",")
		}
		parts = append(parts, fmt.Sprintf("%d:%d:%s:%s:%s:%s:%s", rp.Tenant, rp.ID, tok(rp.Name), b01(rp.Tomb), tok(rp.URL), tok(rp.Frag), subs))
	}
	return strings.Join(parts, ";")
}

// encodeDocs: counts[i] = number of matches of document i as measured on the implementation (0 = no match)
func (sh *shard) encodeDocs(counts []int) string {
	if len(sh.Docs) == 0 {
		return "-"
	}
	var parts []string
	for i, d := range sh.Docs {
		parts = append(parts, fmt.Sprintf("%d:%s:%s:%d", d.Repo, tok(d.D.Name), b01(d.D.FTomb), counts[i]))
	}
	return strings.Join(parts, ";")
}

func b01(b bool) string {
	if b {
		return "1"
	}
	return "0"
}
