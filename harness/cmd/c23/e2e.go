package main

import (
	"context"
	"fmt"
	"os"
	"path/filepath"
	"sort"
	"strings"
	"sync"

	"github.com/sourcegraph/zoekt"
	"github.com/sourcegraph/zoekt/index"
	"github.com/sourcegraph/zoekt/search"
	"github.com/sourcegraph/zoekt/verifhooks"

	"verifharness/gen"
)

// ---- end to end: real shard files in a directory, search.NewDirectorySearcher (typeRepoSearcher over the
// sharded searcher), Search / StreamSearch / List for every context; Go oracles only ----

func runEndToEnd(r *gen.Rand, strict bool, nQueries int) {
	var worlds []world
	n := r.Range(2, 4)
	for i := 0; i < n; i++ {
		wd := genWorld(r, i == 0 || r.Chance(2, 3), fmt.Sprintf("s%d", i), false)
		for j := range wd.Repos {
			rp := &wd.Repos[j]
			// on disk, tombstones go through the real index.SetTombstone, which addresses repositories by ID
			if rp.ID == 0 {
				rp.Tomb = false
			}
			for k := range rp.Docs {
				rp.Docs[k].FTomb = false
			}
		}
		worlds = append(worlds, wd)
	}
	var qs []*nq
	for i := 0; i < nQueries; i++ {
		qs = append(qs, genQuery(r, &world{Repos: allRepos(worlds)}, 2, true))
	}
	// always: the catch-all queries
	qs = append(qs, &nq{Kind: "const", Val: true}, &nq{Kind: "sub", Pat: "zqt"},
		&nq{Kind: "typerepo", Kids: []*nq{{Kind: "repo", Pat: "zqt"}}}, &nq{Kind: "sub", Pat: "nomatchanywhere"})
	runEndToEndWorlds(r, worlds, strict, qs)
}

func allRepos(ws []world) []repo {
	var out []repo
	for _, wd := range ws {
		out = append(out, wd.Repos...)
	}
	return out
}

func writeShardFile(dir, name string, data []byte) string {
	p := filepath.Join(dir, name)
	if err := os.WriteFile(p, data, 0o644); err != nil {
		panic(err)
	}
	return p
}

func runEndToEndWorlds(r *gen.Rand, worlds []world, strict bool, qs []*nq) {
	mode := "strict"
	if !strict {
		mode = ""
	}
	verifhooks.TenantSetEnforcementMode(mode)
	defer verifhooks.TenantSetEnforcementMode("strict")

	base := os.Getenv("VERIF_WORK")
	if base == "" {
		base = os.TempDir()
	}
	dir, err := os.MkdirTemp(base, "c23-e2e-")
	if err != nil {
		panic(err)
	}
	defer os.RemoveAll(dir)

	mixed := false
	for i := range worlds {
		wd := &worlds[i]
		sh, err := buildShard(wd)
		if err != nil {
			panic(fmt.Sprintf("building the shard failed: %v", err))
		}
		ts := map[int]bool{}
		for _, rp := range sh.Repos {
			ts[rp.Tenant] = true
		}
		if len(ts) > 1 {
			mixed = true
		}
		name := fmt.Sprintf("repo%d_v%d.%05d.zoekt", i, index.IndexFormatVersion, 0)
		if len(sh.Repos) > 1 {
			name = fmt.Sprintf("compound-%040x_v%d.%05d.zoekt", i+1, index.NextIndexFormatVersion, 0)
		}
		p := writeShardFile(dir, name, sh.Data)
		sh.S.Close()
		for _, rp := range sh.Repos {
			if rp.Tomb {
				if err := index.SetTombstone(p, rp.ID); err != nil {
					panic(err)
				}
			}
		}
	}
	ss, err := search.NewDirectorySearcher(dir)
	if err != nil {
		panic(err)
	}
	defer ss.Close()

	repos := allRepos(worlds)
	var rps []*repo
	for i := range repos {
		rps = append(rps, &repos[i])
	}
	class := "e2e"
	if mixed {
		class = "e2e-mixed"
	}

	for _, q := range qs {
		Q := q.toQ()
		for _, c := range allCtx {
			det := func(op string) []byte {
				return gen.Detail(detail{Worlds: worlds, Query: Q.String(), NQ: q, Ctx: c.String(), Strict: strict, Op: op})
			}
			allowed := allowedNames(rps, c, strict)
			// the repositories `type:repo child` selects for this context: accessible, alive, with a document matching child
			typeRepo := func(child *nq, rp *repo) bool {
				if rp.Tomb || !c.allowed(strict, rp.Tenant) {
					return false
				}
				for k := range rp.Docs {
					if child.eval(rp, &rp.Docs[k], nil) {
						return true
					}
				}
				return false
			}
			var want []string
			for _, rp := range rps {
				if rp.Tomb || !c.allowed(strict, rp.Tenant) {
					continue
				}
				for k := range rp.Docs {
					if q.eval(rp, &rp.Docs[k], typeRepo) {
						want = append(want, rp.Name+":"+rp.Docs[k].Name)
					}
				}
			}
			sort.Strings(want)

			check := func(op string, results []*zoekt.SearchResult, err error) {
				cs := gen.Case{Class: class + "/" + op, Nontrivial: mixed && len(want) > 0, Detail: det(op)}
				defer func() { w.Emit(cs) }()
				if err != nil {
					cs.Go, cs.Key = op+" error: "+err.Error(), "e2e-search-error"
					return
				}
				var got []string
				for _, res := range results {
					if bad := foreignMarkers(res, c, strict); len(bad) > 0 {
						cs.Go = fmt.Sprintf("%s result for context %s carries data of other tenants: %v", op, c, bad)
						cs.Key = "e2e-" + op + "-carries-foreign-marker/" + leakChannel(res, c, strict)
						return
					}
					for k := range res.RepoURLs {
						if !allowed[k] {
							cs.Go, cs.Key = op+": RepoURLs names a repository the context may not access: "+k, "e2e-repourls-foreign-key"
							return
						}
					}
					for k := range res.LineFragments {
						if !allowed[k] {
							cs.Go, cs.Key = op+": LineFragments names a repository the context may not access: "+k, "e2e-linefragments-foreign-key"
							return
						}
					}
					for _, f := range res.Files {
						got = append(got, f.Repository+":"+f.FileName)
					}
				}
				sort.Strings(got)
				if strings.Join(got, ",") != strings.Join(want, ",") {
					cs.Go = fmt.Sprintf("%s, context %s, query %s: got files %v, expected %v", op, c, Q, got, want)
					cs.Key = "e2e-files-differ-from-naive-evaluator"
				}
			}

			res, err := ss.Search(mkCtx(c), Q, &zoekt.SearchOptions{})
			check("search", []*zoekt.SearchResult{res}, err)

			var mu sync.Mutex
			var events []*zoekt.SearchResult
			err = ss.StreamSearch(mkCtx(c), Q, &zoekt.SearchOptions{}, zoekt.SenderFunc(func(ev *zoekt.SearchResult) {
				mu.Lock()
				events = append(events, ev)
				mu.Unlock()
			}))
			check("stream", events, err)

			if !q.hasTypeRepo() || q.Kind == "typerepo" {
				// List: upper bound (only accessible, alive repositories) and lower bound (every accessible repository
				// with a matching document)
				lq := q
				for _, field := range []zoekt.RepoListField{zoekt.RepoListFieldRepos, zoekt.RepoListFieldReposMap} {
					rl, err := ss.List(mkCtx(c), lq.toQ(), &zoekt.ListOptions{Field: field})
					cs := gen.Case{Class: class + "/list", Nontrivial: mixed, Detail: det(fmt.Sprintf("list-%d", field))}
					switch {
					case err != nil:
						cs.Go, cs.Key = "list error: "+err.Error(), "e2e-list-error"
					default:
						e2eListOracle(&cs, rl, rps, lq, c, strict, typeRepo)
					}
					w.Emit(cs)
				}
			}
		}
	}
}

func e2eListOracle(cs *gen.Case, rl *zoekt.RepoList, rps []*repo, q *nq, c ctxSpec, strict bool, typeRepo func(*nq, *repo) bool) {
	if bad := foreignMarkers(rl, c, strict); len(bad) > 0 {
		cs.Go = fmt.Sprintf("repository list for context %s carries data of other tenants: %v", c, bad)
		cs.Key = "e2e-list-carries-foreign-marker"
		return
	}
	listed := map[string]bool{}
	for _, e := range rl.Repos {
		listed[e.Repository.Name] = true
	}
	for id := range rl.ReposMap {
		found := false
		for _, rp := range rps {
			if rp.ID == id && !rp.Tomb && c.allowed(strict, rp.Tenant) {
				listed[rp.Name] = true
				found = true
			}
		}
		if !found {
			cs.Go, cs.Key = fmt.Sprintf("ReposMap has id %d, which is not an accessible live repository of context %s", id, c), "e2e-list-foreign-id"
			return
		}
	}
	byName := map[string]*repo{}
	for _, rp := range rps {
		byName[rp.Name] = rp
	}
	for name := range listed {
		rp := byName[name]
		if rp == nil || rp.Tomb || !c.allowed(strict, rp.Tenant) {
			cs.Go, cs.Key = fmt.Sprintf("context %s is shown repository %s", c, name), "e2e-list-foreign-repository"
			return
		}
	}
	for _, rp := range rps {
		if rp.Tomb || !c.allowed(strict, rp.Tenant) {
			continue
		}
		for k := range rp.Docs {
			if q.eval(rp, &rp.Docs[k], typeRepo) && !listed[rp.Name] {
				cs.Go, cs.Key = fmt.Sprintf("context %s: repository %s has a matching document but is not listed", c, rp.Name), "e2e-list-misses-repository"
				return
			}
		}
	}
}

var _ = context.Background
