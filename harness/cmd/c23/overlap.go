package main

import (
	"context"
	"fmt"
	"sort"
	"strings"
	"sync"
	"time"

	"github.com/sourcegraph/zoekt"
	"github.com/sourcegraph/zoekt/query"
	"github.com/sourcegraph/zoekt/search"

	"verifharness/gen"
)

// ---- overlapping requests of different contexts ----
//
// Two requests with the SAME query and the SAME options, made for two different contexts (tenant / tenant, tenant /
// no tenant, system / tenant, …), are forced to be in flight on one sharded searcher at the same time: the shard is
// wrapped in a gate that holds the first request inside the shard until the second one has either reached the shard
// too or has had ample time to (a request that was coalesced with, or answered from, the first one never arrives).
// Each requester must get exactly what its own context is entitled to — anything shared between the two (request
// coalescing, a result cache keyed without the tenant, a reused result buffer) shows as the other context's data.

type gatedShard struct {
	zoekt.Searcher
	mu      sync.Mutex
	armed   bool
	entered chan struct{}
	release chan struct{}
}

func (g *gatedShard) arm() {
	g.mu.Lock()
	g.armed = true
	g.entered = make(chan struct{}, 64)
	g.release = make(chan struct{})
	g.mu.Unlock()
}

func (g *gatedShard) open() {
	g.mu.Lock()
	if g.armed {
		g.armed = false
		close(g.release)
	}
	g.mu.Unlock()
}

func (g *gatedShard) wait() {
	g.mu.Lock()
	armed, entered, release := g.armed, g.entered, g.release
	g.mu.Unlock()
	if armed {
		entered <- struct{}{}
		<-release
	}
}

func (g *gatedShard) List(ctx context.Context, q query.Q, opts *zoekt.ListOptions) (*zoekt.RepoList, error) {
	g.wait()
	return g.Searcher.List(ctx, q, opts)
}

func (g *gatedShard) Search(ctx context.Context, q query.Q, opts *zoekt.SearchOptions) (*zoekt.SearchResult, error) {
	g.wait()
	return g.Searcher.Search(ctx, q, opts)
}

type overlapResult struct {
	list   *zoekt.RepoList
	events []*zoekt.SearchResult
	err    error
}

func runOverlapOp(ss zoekt.Streamer, op string, c ctxSpec, Q query.Q) overlapResult {
	ctx := mkCtx(c)
	switch op {
	case "list-repos":
		rl, err := ss.List(ctx, Q, &zoekt.ListOptions{Field: zoekt.RepoListFieldRepos})
		return overlapResult{list: rl, err: err}
	case "list-map":
		rl, err := ss.List(ctx, Q, &zoekt.ListOptions{Field: zoekt.RepoListFieldReposMap})
		return overlapResult{list: rl, err: err}
	case "list-nil":
		rl, err := ss.List(ctx, Q, nil)
		return overlapResult{list: rl, err: err}
	case "search":
		res, err := ss.Search(ctx, Q, &zoekt.SearchOptions{})
		return overlapResult{events: []*zoekt.SearchResult{res}, err: err}
	default: // stream
		var mu sync.Mutex
		var evs []*zoekt.SearchResult
		err := ss.StreamSearch(ctx, Q, &zoekt.SearchOptions{}, zoekt.SenderFunc(func(ev *zoekt.SearchResult) {
			mu.Lock()
			evs = append(evs, ev)
			mu.Unlock()
		}))
		return overlapResult{events: evs, err: err}
	}
}

// overlapOracle: is what requester c received exactly what c is entitled to?
func overlapOracle(cs *gen.Case, op string, res overlapResult, sh *shard, q *nq, c ctxSpec, strict bool) {
	if res.err != nil {
		cs.Go, cs.Key = op+" error: "+res.err.Error(), "overlap-error"
		return
	}
	if strings.HasPrefix(op, "list") {
		e2eListOracle(cs, res.list, sh.Repos, q, c, strict, nil)
		if cs.Key != "" {
			cs.Key = "overlap-" + cs.Key
		}
		return
	}
	allowed := allowedNames(sh.Repos, c, strict)
	var got []string
	for _, ev := range res.events {
		if ev == nil {
			continue
		}
		if bad := foreignMarkers(ev, c, strict); len(bad) > 0 {
			cs.Go = fmt.Sprintf("%s result for context %s carries data of other tenants: %v", op, c, bad)
			cs.Key = "overlap-" + op + "-carries-foreign-marker/" + leakChannel(ev, c, strict)
			return
		}
		for k := range ev.RepoURLs {
			if !allowed[k] {
				cs.Go, cs.Key = op+": RepoURLs names a repository the context may not access: "+k, "overlap-repourls-foreign-key"
				return
			}
		}
		for _, f := range ev.Files {
			got = append(got, f.Repository+":"+f.FileName)
		}
	}
	var want []string
	for _, d := range sh.Docs {
		rp := sh.Repos[d.Repo]
		if rp.Tomb || d.D.FTomb || !c.allowed(strict, rp.Tenant) {
			continue
		}
		if q.eval(rp, d.D, nil) {
			want = append(want, rp.Name+":"+d.D.Name)
		}
	}
	sort.Strings(got)
	sort.Strings(want)
	if strings.Join(got, ",") != strings.Join(want, ",") {
		cs.Go = fmt.Sprintf("%s, context %s: got files %v, expected %v", op, c, got, want)
		cs.Key = "overlap-files-differ-from-naive-evaluator"
	}
}

var overlapPairs = [][2]ctxSpec{
	{{Kind: "t", Tenant: 1}, {Kind: "t", Tenant: 2}},
	{{Kind: "t", Tenant: 2}, {Kind: "t", Tenant: 1}},
	{{Kind: "t", Tenant: 1}, {Kind: "none"}},
	{{Kind: "sys"}, {Kind: "t", Tenant: 2}},
	{{Kind: "t", Tenant: 3}, {Kind: "sys"}},
	{{Kind: "none"}, {Kind: "t", Tenant: 1}},
}

// overlapCases: one world = one compound shard behind a gate in a real sharded searcher (under typeRepoSearcher).
func overlapCases(r *gen.Rand, wd *world, queries []*nq) {
	verifhooksStrict()
	sh, err := buildShard(wd)
	if err != nil {
		panic(fmt.Sprintf("building the shard failed: %v", err))
	}
	defer sh.S.Close()
	gate := &gatedShard{Searcher: sh.S}
	ss := search_VerifTypeRepoSearcher(search.VerifShardedSearcher(8, []zoekt.Searcher{gate}))
	defer ss.Close()
	tenants := map[int]bool{}
	for _, rp := range sh.Repos {
		tenants[rp.Tenant] = true
	}
	class := "overlap"
	if len(tenants) > 1 {
		class = "overlap-mixed"
	}
	for _, q := range queries {
		Q := q.toQ()
		for _, op := range []string{"list-repos", "list-map", "list-nil", "search", "stream"} {
			for _, pair := range overlapPairs {
				gate.arm()
				var ra, rb overlapResult
				var wg sync.WaitGroup
				wg.Add(1)
				go func() { defer wg.Done(); ra = runOverlapOp(ss, op, pair[0], Q) }()
				firstIn := false
				select {
				case <-gate.entered:
					firstIn = true
				case <-time.After(3 * time.Second):
					// the first request never reached the shard (query answered without shards): nothing to overlap with
				}
				secondIn := false
				if firstIn {
					wg.Add(1)
					go func() { defer wg.Done(); rb = runOverlapOp(ss, op, pair[1], Q) }()
					select {
					case <-gate.entered:
						secondIn = true
					case <-time.After(150 * time.Millisecond):
					}
				}
				gate.open()
				wg.Wait()
				if !firstIn {
					w.Count("overlap/first-request-did-not-reach-the-shard", 1)
					continue
				}
				w.Count(fmt.Sprintf("overlap/second-request-reached-the-shard-while-first-in-flight=%v", secondIn), 1)
				for i, res := range []overlapResult{ra, rb} {
					c := pair[i]
					cs := gen.Case{Class: class + "/" + op, Nontrivial: len(tenants) > 1,
						Detail: gen.Detail(detail{World: wd, Query: Q.String(), NQ: q, Ctx: pair[0].String() + " overlapping " + pair[1].String(), Strict: true,
							Op: "overlap-" + op, Note: fmt.Sprintf("result of requester %d (%s)", i+1, c)})}
					overlapOracle(&cs, op, res, sh, q, c, true)
					w.Emit(cs)
				}
			}
		}
	}
}
