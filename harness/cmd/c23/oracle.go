package main

import (
	"encoding/json"
	"fmt"
	"strings"

	"github.com/RoaringBitmap/roaring/v2"
	"github.com/grafana/regexp"

	"github.com/sourcegraph/zoekt/query"

	"verifharness/gen"
)

// ---- queries, with a naive evaluator that shares no code with zoekt's matching ----

// nq is a query in the harness's own representation: it is converted to a zoekt query.Q for the real code and
// evaluated document by document by eval for the oracle.
type nq struct {
	Kind   string // sub, subc, subf, repo, reposet, repoids, brrepos, branch, const, and, or, not, typerepo
	Pat    string
	Names  []string
	IDs    []uint32
	Val    bool
	Kids   []*nq
}

func (q *nq) String() string {
	switch q.Kind {
	case "and", "or", "not", "typerepo":
		var ks []string
		for _, k := range q.Kids {
			ks = append(ks, k.String())
		}
		return "(" + q.Kind + " " + strings.Join(ks, " ") + ")"
	case "const":
		return fmt.Sprintf("const:%v", q.Val)
	case "reposet":
		return "reposet:" + strings.Join(q.Names, "+")
	case "repoids", "brrepos":
		return fmt.Sprintf("%s:%s:%v", q.Kind, q.Pat, q.IDs)
	}
	return q.Kind + ":" + q.Pat
}

func (q *nq) hasTypeRepo() bool {
	if q.Kind == "typerepo" {
		return true
	}
	for _, k := range q.Kids {
		if k.hasTypeRepo() {
			return true
		}
	}
	return false
}

func (q *nq) toQ() query.Q {
	switch q.Kind {
	case "sub":
		return &query.Substring{Pattern: q.Pat}
	case "subc":
		return &query.Substring{Pattern: q.Pat, Content: true}
	case "subf":
		return &query.Substring{Pattern: q.Pat, FileName: true}
	case "repo":
		return &query.Repo{Regexp: regexp.MustCompile(regexp.QuoteMeta(q.Pat))}
	case "reposet":
		return query.NewRepoSet(q.Names...)
	case "repoids":
		return &query.RepoIDs{Repos: roaring.BitmapOf(q.IDs...)}
	case "brrepos":
		return &query.BranchesRepos{List: []query.BranchRepos{{Branch: q.Pat, Repos: roaring.BitmapOf(q.IDs...)}}}
	case "branch":
		return &query.Branch{Pattern: q.Pat}
	case "const":
		return &query.Const{Value: q.Val}
	case "and":
		var ks []query.Q
		for _, k := range q.Kids {
			ks = append(ks, k.toQ())
		}
		return &query.And{Children: ks}
	case "or":
		var ks []query.Q
		for _, k := range q.Kids {
			ks = append(ks, k.toQ())
		}
		return &query.Or{Children: ks}
	case "not":
		return &query.Not{Child: q.Kids[0].toQ()}
	case "typerepo":
		return &query.Type{Type: query.TypeRepo, Child: q.Kids[0].toQ()}
	}
	panic("kind " + q.Kind)
}

func containsFold(hay, needle string) bool {
	return strings.Contains(strings.ToLower(hay), strings.ToLower(needle))
}

func hasU32(xs []uint32, x uint32) bool {
	for _, y := range xs {
		if x == y {
			return true
		}
	}
	return false
}

// eval: does document d of repository rp satisfy q?  typeRepo(name) answers `type:repo` sub-queries (only the
// end-to-end searcher evaluates those); it is nil at shard level.
func (q *nq) eval(rp *repo, d *doc, typeRepo func(child *nq, rp *repo) bool) bool {
	switch q.Kind {
	case "sub":
		return containsFold(d.Content, q.Pat) || containsFold(d.Name, q.Pat)
	case "subc":
		return containsFold(d.Content, q.Pat)
	case "subf":
		return containsFold(d.Name, q.Pat)
	case "repo":
		return strings.Contains(rp.Name, q.Pat)
	case "reposet":
		for _, n := range q.Names {
			if n == rp.Name {
				return true
			}
		}
		return false
	case "repoids":
		return hasU32(q.IDs, rp.ID)
	case "brrepos":
		if !hasU32(q.IDs, rp.ID) {
			return false
		}
		for _, b := range d.Branches {
			if b == q.Pat {
				return true
			}
		}
		return false
	case "branch":
		for _, b := range d.Branches {
			if strings.Contains(b, q.Pat) {
				return true
			}
		}
		return false
	case "const":
		return q.Val
	case "and":
		for _, k := range q.Kids {
			if !k.eval(rp, d, typeRepo) {
				return false
			}
		}
		return true
	case "or":
		for _, k := range q.Kids {
			if k.eval(rp, d, typeRepo) {
				return true
			}
		}
		return false
	case "not":
		return !q.Kids[0].eval(rp, d, typeRepo)
	case "typerepo":
		return typeRepo(q.Kids[0], rp)
	}
	panic("kind " + q.Kind)
}

func genAtom(r *gen.Rand, w *world) *nq {
	rp := &w.Repos[r.Intn(len(w.Repos))]
	switch r.Intn(12) {
	case 0, 1:
		return &nq{Kind: "sub", Pat: gen.Pick(r, words)}
	case 2:
		return &nq{Kind: "subc", Pat: gen.Pick(r, words)}
	case 3:
		return &nq{Kind: "subf", Pat: gen.Pick(r, append([]string{"src/", ".go", "_1"}, words...))}
	case 4:
		// somebody's tenant marker as a content/file-name pattern
		return &nq{Kind: gen.Pick(r, []string{"sub", "subc", "subf"}), Pat: marker(rp.Tenant)}
	case 5:
		return &nq{Kind: "repo", Pat: gen.Pick(r, []string{marker(rp.Tenant), "repo", "lib", rp.Name, "zqt", "nomatch"})}
	case 6:
		var names []string
		for i := range w.Repos {
			if r.Chance(1, 2) {
				names = append(names, w.Repos[i].Name)
			}
		}
		if r.Chance(1, 4) {
			names = append(names, "unknown/repo")
		}
		return &nq{Kind: "reposet", Names: names}
	case 7, 8:
		var ids []uint32
		for i := range w.Repos {
			if r.Chance(1, 2) {
				ids = append(ids, w.Repos[i].ID)
			}
		}
		if r.Chance(1, 4) {
			ids = append(ids, 999)
		}
		if r.Bool() {
			return &nq{Kind: "repoids", Pat: "-", IDs: ids}
		}
		return &nq{Kind: "brrepos", Pat: gen.Pick(r, append([]string{"main"}, rp.Branches...)), IDs: ids}
	case 9:
		return &nq{Kind: "branch", Pat: gen.Pick(r, []string{"main", "dev", marker(rp.Tenant)})}
	case 10:
		return &nq{Kind: "const", Val: r.Chance(3, 4)}
	default:
		return &nq{Kind: "sub", Pat: gen.Pick(r, words)}
	}
}

func genQuery(r *gen.Rand, w *world, depth int, allowTypeRepo bool) *nq {
	if depth <= 0 || r.Chance(2, 5) {
		if allowTypeRepo && r.Chance(1, 3) {
			return &nq{Kind: "typerepo", Kids: []*nq{genQuery(r, w, depth-1, false)}}
		}
		return genAtom(r, w)
	}
	switch r.Intn(5) {
	case 0, 1:
		return &nq{Kind: "and", Kids: []*nq{genQuery(r, w, depth-1, allowTypeRepo), genQuery(r, w, depth-1, allowTypeRepo)}}
	case 2, 3:
		return &nq{Kind: "or", Kids: []*nq{genQuery(r, w, depth-1, allowTypeRepo), genQuery(r, w, depth-1, allowTypeRepo)}}
	default:
		return &nq{Kind: "and", Kids: []*nq{genQuery(r, w, depth-1, allowTypeRepo), {Kind: "not", Kids: []*nq{genAtom(r, w)}}}}
	}
}

// ---- contexts ----

type ctxSpec struct {
	Kind   string // sys, none, t
	Tenant int
}

func (c ctxSpec) String() string {
	if c.Kind == "t" {
		return fmt.Sprintf("t%d", c.Tenant)
	}
	return c.Kind
}

// allowed is the property's own access rule, written from the statement: in strict mode the system context sees
// everything, a tenant sees exactly the repositories it owns, a request without a tenant sees nothing.
func (c ctxSpec) allowed(strict bool, owner int) bool {
	if !strict {
		return true
	}
	switch c.Kind {
	case "sys":
		return true
	case "t":
		return owner == c.Tenant
	}
	return false
}

// ---- taint oracle: no output channel may carry another tenant's marker ----

// foreignMarkers serialises v completely (every exported field, maps, nested slices, byte slices as text) and
// returns the markers found in it that belong to tenants the context may not access.
func foreignMarkers(v any, c ctxSpec, strict bool) []string {
	blob := dump(v)
	var bad []string
	for t := 0; t <= 9; t++ {
		if c.allowed(strict, t) {
			continue
		}
		if strings.Contains(blob, marker(t)) {
			bad = append(bad, marker(t))
		}
	}
	return bad
}

func dump(v any) string {
	// %+v prints every field, including []byte as numbers; JSON prints []byte as base64. Print both plus a pass
	// that renders byte slices as text.
	j, _ := json.Marshal(v)
	return fmt.Sprintf("%+v\n%s\n%s", v, j, textOf(v))
}
