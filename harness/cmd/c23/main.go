// C23 harness: tenant filtering of the real indexData.Search / indexData.List (through index.NewSearcher on real
// simple and compound shards built by the real ShardBuilder and merge) against the Lean model, plus end-to-end
// runs through search.NewDirectorySearcher (typeRepoSearcher + shardedSearcher: Search, StreamSearch, List) with
// Go oracles that share no code with the implementation: a naive query evaluator and a taint scan of every
// output channel for the markers of repositories the context may not see.
package main

import (
	"context"
	"encoding/json"
	"fmt"
	"os"
	"path/filepath"
	"sort"
	"strings"

	"github.com/sourcegraph/zoekt"
	"github.com/sourcegraph/zoekt/query"
	"github.com/sourcegraph/zoekt/verifhooks"

	"verifharness/gen"
)

var w *gen.Writer

func mkCtx(c ctxSpec) context.Context {
	switch c.Kind {
	case "sys":
		return verifhooks.TenantSystemContext(context.Background())
	case "none":
		return context.Background()
	}
	ctx, err := verifhooks.TenantContext(context.Background(), c.Tenant)
	if err != nil {
		panic(err)
	}
	return ctx
}

var allCtx = []ctxSpec{{Kind: "sys"}, {Kind: "none"}, {Kind: "t", Tenant: 1}, {Kind: "t", Tenant: 2}, {Kind: "t", Tenant: 3}, {Kind: "t", Tenant: 7}}

func joinOrDash(xs []string) string {
	if len(xs) == 0 {
		return "-"
	}
	return strings.Join(xs, ",")
}

func mapStr(m map[string]string) string {
	var ks []string
	for k := range m {
		ks = append(ks, k)
	}
	sort.Strings(ks)
	var out []string
	for _, k := range ks {
		out = append(out, tok(k)+"="+tok(m[k]))
	}
	return joinOrDash(out)
}

func searchImpl(res *zoekt.SearchResult) string {
	var fs []string
	for _, f := range res.Files {
		fs = append(fs, fmt.Sprintf("%s:%d:%s", tok(f.Repository), f.RepositoryID, tok(f.FileName)))
	}
	return fmt.Sprintf("files=%s urls=%s frags=%s", joinOrDash(fs), mapStr(res.RepoURLs), mapStr(res.LineFragments))
}

func listImpl(rl *zoekt.RepoList) string {
	var rs []string
	for _, e := range rl.Repos {
		rs = append(rs, fmt.Sprintf("%s:%d", tok(e.Repository.Name), e.Repository.ID))
	}
	var ids []int
	for id := range rl.ReposMap {
		ids = append(ids, int(id))
	}
	sort.Ints(ids)
	var ms []string
	for _, id := range ids {
		ms = append(ms, fmt.Sprint(id))
	}
	return fmt.Sprintf("repos=%s map=%s nrepos=%d ndocs=%d", joinOrDash(rs), joinOrDash(ms), rl.Stats.Repos, rl.Stats.Documents)
}

type detail struct {
	World  *world  `json:"world,omitempty"`
	Query  string  `json:"query,omitempty"`
	NQ     *nq     `json:"nq,omitempty"`
	Ctx    string  `json:"ctx,omitempty"`
	Strict bool    `json:"strict"`
	Op     string  `json:"op,omitempty"`
	Note   string  `json:"note,omitempty"`
	Worlds []world `json:"worlds,omitempty"`
}

// expectedFiles: the documents the context must get for q on this shard without per-repository limits, in
// document order, as "repo:id:file".
func (sh *shard) expectedFiles(q *nq, c ctxSpec, strict bool) []string {
	var out []string
	for _, d := range sh.Docs {
		rp := sh.Repos[d.Repo]
		if rp.Tomb || d.D.FTomb || !c.allowed(strict, rp.Tenant) {
			continue
		}
		if q.eval(rp, d.D, nil) {
			out = append(out, fmt.Sprintf("%s:%d:%s", tok(rp.Name), rp.ID, tok(d.D.Name)))
		}
	}
	return out
}

func allowedNames(repos []*repo, c ctxSpec, strict bool) map[string]bool {
	m := map[string]bool{}
	for _, rp := range repos {
		if c.allowed(strict, rp.Tenant) {
			m[rp.Name] = true
			for _, s := range rp.Subs {
				m[s.Name] = true
			}
		}
	}
	return m
}

// runShardCases: everything about one world at shard level.
func runShardCases(r *gen.Rand, wd *world, strict bool, nQueries int, fixedQueries []*nq, fixedTypeRepo *nq) {
	mode := "strict"
	if !strict {
		mode = gen.Pick(r, []string{"", "logging"})
	}
	verifhooks.TenantSetEnforcementMode(mode)
	sh, err := buildShard(wd)
	if err != nil {
		panic(fmt.Sprintf("building the shard failed: %v\nworld: %+v", err, wd))
	}
	defer sh.S.Close()
	reposEnc := sh.encodeRepos()
	class := "simple"
	if len(sh.Repos) > 1 {
		class = "compound"
	}
	tenantsInShard := map[int]bool{}
	for _, rp := range sh.Repos {
		tenantsInShard[rp.Tenant] = true
	}
	if len(tenantsInShard) > 1 {
		class += "-mixed"
	}

	queries := fixedQueries
	for i := 0; i < nQueries; i++ {
		queries = append(queries, genQuery(r, wd, 2, false))
	}
	for _, q := range queries {
		Q := q.toQ()
		det := func(c ctxSpec, op string) json.RawMessage {
			return gen.Detail(detail{World: wd, Query: Q.String(), NQ: q, Ctx: c.String(), Strict: strict, Op: op})
		}
		kind, err := index_VerifSimplifyKind(sh.S, Q)
		if err != nil {
			panic(err)
		}
		sys := ctxSpec{Kind: "sys"}
		sysRes, err := sh.S.Search(mkCtx(sys), Q, &zoekt.SearchOptions{})
		if err != nil {
			w.Emit(gen.Case{Go: "search error: " + err.Error(), Key: "search-error", Class: class, Detail: det(sys, "search")})
			continue
		}
		early := sysRes.RepoURLs == nil
		// the system context must see exactly what the naive evaluator says the query matches
		wantSys := sh.expectedFiles(q, sys, strict)
		var gotSys []string
		counts := make([]int, len(sh.Docs))
		byName := map[string]int{}
		for i, d := range sh.Docs {
			byName[sh.Repos[d.Repo].Name+"\x00"+d.D.Name] = i
			if q.eval(sh.Repos[d.Repo], d.D, nil) {
				counts[i] = 1 // refined below for the documents the system context really gets
			}
		}
		for _, f := range sysRes.Files {
			gotSys = append(gotSys, fmt.Sprintf("%s:%d:%s", tok(f.Repository), f.RepositoryID, tok(f.FileName)))
			if i, ok := byName[f.Repository+"\x00"+f.FileName]; ok {
				counts[i] = len(f.LineMatches)
			}
		}
		if strings.Join(gotSys, ",") != strings.Join(wantSys, ",") {
			w.Emit(gen.Case{Go: fmt.Sprintf("system context: got files %v, naive evaluator expects %v", gotSys, wantSys),
				Key: "system-files-differ-from-naive-evaluator", Class: class, Detail: det(sys, "search")})
			continue
		}
		docsEnc := sh.encodeDocs(counts)
		nontrivial := len(tenantsInShard) > 1 && len(wantSys) > 0

		for _, c := range allCtx {
			allowed := allowedNames(sh.Repos, c, strict)
			// ---- Search: default, per-repository limit, chunk matches ----
			for _, variant := range []string{"default", "max1", "max2", "chunks"} {
				opts := &zoekt.SearchOptions{}
				maxRepo := 0
				switch variant {
				case "max1":
					opts.ShardRepoMaxMatchCount, maxRepo = 1, 1
				case "max2":
					opts.ShardRepoMaxMatchCount, maxRepo = 2, 2
				case "chunks":
					opts.ChunkMatches = true
				}
				res, err := sh.S.Search(mkCtx(c), Q, opts)
				if err != nil {
					w.Emit(gen.Case{Go: "search error: " + err.Error(), Key: "search-error", Class: class, Detail: det(c, "search-"+variant)})
					continue
				}
				cs := gen.Case{
					In:   fmt.Sprintf("search %s %s %s %d %s %s", b01(strict), c, b01(early), maxRepo, reposEnc, docsEnc),
					Impl: searchImpl(res), Class: class + "/search", Nontrivial: nontrivial, Detail: det(c, "search-"+variant),
				}
				goOracleSearch(&cs, res, sh, q, c, strict, allowed, maxRepo == 0)
				w.Emit(cs)
			}
			// ---- List: both field modes ----
			for _, field := range []string{"repos", "map"} {
				lo := &zoekt.ListOptions{Field: zoekt.RepoListFieldRepos}
				if field == "map" {
					lo.Field = zoekt.RepoListFieldReposMap
				}
				rl, err := sh.S.List(mkCtx(c), Q, lo)
				if err != nil {
					w.Emit(gen.Case{Go: "list error: " + err.Error(), Key: "list-error", Class: class, Detail: det(c, "list-"+field)})
					continue
				}
				cs := gen.Case{
					In:   fmt.Sprintf("list %s %s %s %s %s %s %s", b01(strict), c, kind, b01(early), field, reposEnc, docsEnc),
					Impl: listImpl(rl), Class: class + "/list-" + kind, Nontrivial: nontrivial, Detail: det(c, "list-"+field),
				}
				goOracleList(&cs, rl, sh, q, c, strict, kind)
				w.Emit(cs)
			}
		}
		w.Count("early="+b01(early), 1)
		w.Count("simplify="+kind, 1)
	}
	typeRepoCases(r, wd, sh, strict, class, reposEnc, len(tenantsInShard) > 1, fixedTypeRepo)
}

// shardStreamer makes a shard searcher a zoekt.Streamer (what typeRepoSearcher wraps)
type shardStreamer struct{ zoekt.Searcher }

func (s shardStreamer) StreamSearch(ctx context.Context, q query.Q, opts *zoekt.SearchOptions, sender zoekt.Sender) error {
	res, err := s.Search(ctx, q, opts)
	if err != nil {
		return err
	}
	sender.Send(res)
	return nil
}

// sysCounts: the match tree's verdict per document for q, measured in the system context (and checked against the
// naive evaluator); early = Search returned before its document loop.
func sysCounts(sh *shard, q *nq, strict bool) (counts []int, early bool, ok bool) {
	sys := ctxSpec{Kind: "sys"}
	res, err := sh.S.Search(mkCtx(sys), q.toQ(), &zoekt.SearchOptions{})
	if err != nil {
		return nil, false, false
	}
	counts = make([]int, len(sh.Docs))
	byName := map[string]int{}
	for i, d := range sh.Docs {
		byName[sh.Repos[d.Repo].Key+"\x00"+d.D.Name] = i
		if q.eval(sh.Repos[d.Repo], d.D, nil) {
			counts[i] = 1
		}
	}
	var got []string
	for _, f := range res.Files {
		got = append(got, fmt.Sprintf("%s:%d:%s", tok(f.Repository), f.RepositoryID, tok(f.FileName)))
		for i, d := range sh.Docs {
			rp := sh.Repos[d.Repo]
			if rp.Name == f.Repository && rp.ID == f.RepositoryID && d.D.Name == f.FileName {
				counts[i] = len(f.LineMatches)
			}
		}
	}
	if strings.Join(got, ",") != strings.Join(sh.expectedFiles(q, sys, strict), ",") {
		return nil, false, false
	}
	return counts, res.RepoURLs == nil, true
}

// typeRepoCases: `(type:repo child) AND rest` through the real typeRepoSearcher wrapped around the shard, for every
// context, against the model (typeRepoSet then search restricted to the set) and the naive evaluator.
func typeRepoCases(r *gen.Rand, wd *world, sh *shard, strict bool, class, reposEnc string, mixed bool, fixed *nq) {
	trs := search_VerifTypeRepoSearcher(shardStreamer{sh.S})
	n := 2
	if fixed != nil {
		n = 1
	}
	for k := 0; k < n; k++ {
		child := genQuery(r, wd, 1, false)
		rest := genQuery(r, wd, 1, false)
		if k == 1 {
			rest = &nq{Kind: "const", Val: true}
		}
		if fixed != nil {
			child, rest = fixed.Kids[0].Kids[0], fixed.Kids[1]
		}
		cc, earlyChild, ok1 := sysCounts(sh, child, strict)
		rc, _, ok2 := sysCounts(sh, rest, strict)
		if !ok1 || !ok2 {
			continue // reported by the plain search cases of the same query kinds
		}
		kind, err := index_VerifSimplifyKind(sh.S, child.toQ())
		if err != nil {
			panic(err)
		}
		full := &nq{Kind: "and", Kids: []*nq{{Kind: "typerepo", Kids: []*nq{child}}, rest}}
		Q := full.toQ()
		for _, c := range allCtx {
			det := gen.Detail(detail{World: wd, Query: Q.String(), NQ: full, Ctx: c.String(), Strict: strict, Op: "typerepo-search"})
			res, err := trs.Search(mkCtx(c), Q, &zoekt.SearchOptions{})
			if err != nil {
				w.Emit(gen.Case{Go: "search error: " + err.Error(), Key: "search-error", Class: class, Detail: det})
				continue
			}
			var fs []string
			for _, f := range res.Files {
				fs = append(fs, fmt.Sprintf("%s:%d:%s", tok(f.Repository), f.RepositoryID, tok(f.FileName)))
			}
			cs := gen.Case{
				In:   fmt.Sprintf("trsearch %s %s %s %s %s %s %s", b01(strict), c, kind, b01(earlyChild), reposEnc, sh.encodeDocs(cc), sh.encodeDocs(rc)),
				Impl: "files=" + joinOrDash(fs), Class: class + "/typerepo-" + kind, Nontrivial: mixed && len(fs) > 0, Detail: det,
			}
			// naive expectation: List selects by name among what the context itself may see
			found := map[string]bool{}
			for _, d := range sh.Docs {
				rp := sh.Repos[d.Repo]
				if rp.Tomb || !c.allowed(strict, rp.Tenant) {
					continue
				}
				if kind == "true" || (kind == "other" && !d.D.FTomb && child.eval(rp, d.D, nil)) {
					found[rp.Name] = true
				}
			}
			if kind == "true" {
				for _, rp := range sh.Repos {
					if !rp.Tomb && c.allowed(strict, rp.Tenant) {
						found[rp.Name] = true
					}
				}
			}
			var want []string
			for _, d := range sh.Docs {
				rp := sh.Repos[d.Repo]
				if rp.Tomb || d.D.FTomb || !c.allowed(strict, rp.Tenant) {
					continue
				}
				if found[rp.Name] && rest.eval(rp, d.D, nil) {
					want = append(want, fmt.Sprintf("%s:%d:%s", tok(rp.Name), rp.ID, tok(d.D.Name)))
				}
			}
			if bad := foreignMarkers(res, c, strict); len(bad) > 0 {
				cs.Go = fmt.Sprintf("type:repo search result for context %s carries data of other tenants: %v", c, bad)
				cs.Key = "typerepo-search-carries-foreign-marker/" + leakChannel(res, c, strict)
			} else if strings.Join(fs, ",") != strings.Join(want, ",") {
				cs.Go = fmt.Sprintf("context %s, %s: got files %v, expected %v", c, Q, fs, want)
				cs.Key = "typerepo-files-differ-from-naive-evaluator"
			}
			w.Emit(cs)
		}
	}
}

// goOracleSearch: taint scan of the whole result + (without per-repository limit) exact expected files + map keys.
func goOracleSearch(cs *gen.Case, res *zoekt.SearchResult, sh *shard, q *nq, c ctxSpec, strict bool, allowed map[string]bool, exact bool) {
	if bad := foreignMarkers(res, c, strict); len(bad) > 0 {
		cs.Go = fmt.Sprintf("search result for context %s carries data of other tenants: %v", c, bad)
		cs.Key = "search-result-carries-foreign-marker/" + leakChannel(res, c, strict)
		return
	}
	for k := range res.RepoURLs {
		if !allowed[k] {
			cs.Go, cs.Key = "RepoURLs names a repository the context may not access: "+k, "repourls-foreign-key"
			return
		}
	}
	for k := range res.LineFragments {
		if !allowed[k] {
			cs.Go, cs.Key = "LineFragments names a repository the context may not access: "+k, "linefragments-foreign-key"
			return
		}
	}
	for _, f := range res.Files {
		if !allowed[f.Repository] {
			cs.Go, cs.Key = "file match of a repository the context may not access: "+f.Repository, "file-of-foreign-repository"
			return
		}
	}
	if exact {
		var got []string
		for _, f := range res.Files {
			got = append(got, fmt.Sprintf("%s:%d:%s", tok(f.Repository), f.RepositoryID, tok(f.FileName)))
		}
		want := sh.expectedFiles(q, c, strict)
		if strings.Join(got, ",") != strings.Join(want, ",") {
			cs.Go = fmt.Sprintf("context %s: got files %v, expected %v", c, got, want)
			cs.Key = "files-differ-from-naive-evaluator"
		}
	}
}

// leakChannel names the top-level channel of a SearchResult that carries a foreign marker (for the finding key).
func leakChannel(res *zoekt.SearchResult, c ctxSpec, strict bool) string {
	var ch []string
	if len(foreignMarkers(res.Files, c, strict)) > 0 {
		ch = append(ch, "Files")
	}
	if len(foreignMarkers(res.RepoURLs, c, strict)) > 0 {
		ch = append(ch, "RepoURLs")
	}
	if len(foreignMarkers(res.LineFragments, c, strict)) > 0 {
		ch = append(ch, "LineFragments")
	}
	if len(ch) == 0 {
		return "other"
	}
	return strings.Join(ch, "+")
}

func goOracleList(cs *gen.Case, rl *zoekt.RepoList, sh *shard, q *nq, c ctxSpec, strict bool, kind string) {
	if bad := foreignMarkers(rl, c, strict); len(bad) > 0 {
		cs.Go = fmt.Sprintf("repository list for context %s carries data of other tenants: %v", c, bad)
		cs.Key = "list-result-carries-foreign-marker"
		return
	}
	// expected entries: accessible, not tombstoned, and selected by the query
	// the names of the repositories in which the context finds a document (List selects by name)
	found := map[string]bool{}
	for _, d := range sh.Docs {
		rp := sh.Repos[d.Repo]
		if !rp.Tomb && c.allowed(strict, rp.Tenant) && !d.D.FTomb && q.eval(rp, d.D, nil) {
			found[rp.Name] = true
		}
	}
	var want []string
	for _, rp := range sh.Repos {
		if rp.Tomb || !c.allowed(strict, rp.Tenant) {
			continue
		}
		sel := false
		switch kind {
		case "true":
			sel = true
		case "other":
			sel = found[rp.Name]
		}
		if sel {
			want = append(want, fmt.Sprintf("%s:%d", rp.Name, rp.ID))
		}
	}
	var got []string
	for _, e := range rl.Repos {
		got = append(got, fmt.Sprintf("%s:%d", e.Repository.Name, e.Repository.ID))
	}
	if len(rl.ReposMap) > 0 || (len(rl.Repos) < len(want)) {
		// ReposMap mode: entries are keyed by id (ids can collide: one entry); compare as sets of ids
		gotIDs, wantIDs := map[uint32]bool{}, map[uint32]bool{}
		for id := range rl.ReposMap {
			gotIDs[id] = true
		}
		for _, e := range rl.Repos {
			gotIDs[e.Repository.ID] = true
		}
		for _, rp := range sh.Repos {
			if rp.Tomb || !c.allowed(strict, rp.Tenant) {
				continue
			}
			if kind == "true" || (kind == "other" && found[rp.Name]) {
				wantIDs[rp.ID] = true
			}
		}
		if fmt.Sprint(sortedIDs(gotIDs)) != fmt.Sprint(sortedIDs(wantIDs)) {
			cs.Go = fmt.Sprintf("context %s: listed ids %v, expected %v", c, sortedIDs(gotIDs), sortedIDs(wantIDs))
			cs.Key = "list-differs-from-naive-evaluator"
		}
		return
	}
	sort.Strings(want)
	sort.Strings(got)
	if strings.Join(got, ",") != strings.Join(want, ",") {
		cs.Go = fmt.Sprintf("context %s: listed %v (+%d map entries), expected %v", c, got, len(rl.ReposMap), want)
		cs.Key = "list-differs-from-naive-evaluator"
	}
}

func sortedIDs(m map[uint32]bool) []int {
	var out []int
	for id := range m {
		out = append(out, int(id))
	}
	sort.Ints(out)
	return out
}

// accessCases: tenant.HasAccess itself against the model, for every mode / context / owner.
func accessCases() {
	defer verifhooks.TenantSetEnforcementMode("strict")
	for _, mode := range []string{"strict", "", "logging", "STRICT", "disabled"} {
		verifhooks.TenantSetEnforcementMode(mode)
		for _, c := range append(allCtx, ctxSpec{Kind: "t", Tenant: 1 << 40}) {
			for _, owner := range []int{0, 1, 2, 3, 7, -1, 1 << 40} {
				got := verifhooks.TenantHasAccess(mkCtx(c), owner)
				m := mode
				if m == "" {
					m = "~"
				}
				cs := gen.Case{In: fmt.Sprintf("access %s %s %d", m, c, owner), Impl: b01(got), Class: "access"}
				if want := c.allowed(mode == "strict", owner); want != got {
					cs.Go, cs.Key = fmt.Sprintf("HasAccess(%s, %d) in mode %q = %v", c, owner, mode, got), "hasaccess-differs-from-statement"
				}
				w.Emit(cs)
			}
		}
	}
	// a context that is both system and tenant: system wins
	verifhooks.TenantSetEnforcementMode("strict")
	ctx, _ := verifhooks.TenantContext(verifhooks.TenantSystemContext(context.Background()), 1)
	if !verifhooks.TenantHasAccess(ctx, 2) {
		w.Emit(gen.Case{Go: "system context with a tenant lost access", Key: "system-with-tenant", Class: "access"})
	}
}

func main() {
	f := gen.ParseFlags()
	w = gen.NewWriter(f.Out)
	defer w.Close()
	old := verifhooks.TenantSetEnforcementMode("strict")
	defer verifhooks.TenantSetEnforcementMode(old)

	if f.Replay != "" {
		if err := replay(f.Replay); err != nil {
			fmt.Fprintln(os.Stderr, "replay:", err)
			os.Exit(1)
		}
		return
	}
	if f.Corpus != "" {
		files, _ := filepath.Glob(filepath.Join(f.Corpus, "*.json"))
		sort.Strings(files)
		for _, p := range files {
			if err := replay(p); err != nil {
				fmt.Fprintln(os.Stderr, "corpus:", p, err)
				os.Exit(1)
			}
		}
	}
	r := gen.NewRand(f.Seed)
	accessCases()
	nWorlds := f.N(30, 400)
	for i := 0; i < nWorlds; i++ {
		collide := i%3 == 0
		wd := genWorld(r, i%5 != 4, fmt.Sprintf("w%d", i), collide)
		var fixed []*nq
		if collide {
			// one query per owner that matches exactly that owner's documents (every file name carries the marker):
			// with a shared repository name, List's selection by name must still only use what the context itself finds
			seen := map[int]bool{}
			for _, rp := range wd.Repos {
				if !seen[rp.Tenant] {
					seen[rp.Tenant] = true
					fixed = append(fixed, &nq{Kind: "subf", Pat: marker(rp.Tenant)})
				}
			}
		}
		runShardCases(r.Fork(), &wd, i%8 != 7, 3-len(fixed)/2, fixed, nil)
	}
	nDirs := f.N(4, 40)
	for i := 0; i < nDirs; i++ {
		runEndToEnd(r.Fork(), i%6 != 5, f.N(6, 10))
	}
	// overlapping identical requests of different contexts on one sharded searcher
	ro := r.Fork()
	for i := 0; i < f.N(4, 60); i++ {
		wd := genWorld(ro, true, fmt.Sprintf("o%d", i), false)
		for j := range wd.Repos {
			for k := range wd.Repos[j].Docs {
				wd.Repos[j].Docs[k].FTomb = false // (the list oracle shared with the end-to-end cases has no file tombstones)
			}
		}
		qs := []*nq{{Kind: "const", Val: true}, {Kind: "sub", Pat: gen.Pick(ro, words)}}
		if i%2 == 1 {
			qs[1] = genQuery(ro, &wd, 1, false)
		}
		overlapCases(ro, &wd, qs)
	}
}

func verifhooksStrict() { verifhooks.TenantSetEnforcementMode("strict") }

// replay re-runs the case stored in a replay file or a corpus witness (the `detail` of a case: world, query,
// context, op) on the current tree.
func replay(path string) error {
	b, err := os.ReadFile(path)
	if err != nil {
		return err
	}
	var outer struct {
		Case struct {
			Detail detail `json:"detail"`
		} `json:"case"`
		Detail *detail `json:"detail"`
	}
	if err := json.Unmarshal(b, &outer); err != nil {
		return err
	}
	d := outer.Case.Detail
	if outer.Detail != nil {
		d = *outer.Detail
	}
	r := gen.NewRand(1)
	switch {
	case len(d.Worlds) > 0:
		runEndToEndWorlds(r, d.Worlds, d.Strict, []*nq{d.NQ})
	case d.World != nil && d.NQ != nil && strings.HasPrefix(d.Op, "overlap-"):
		overlapCases(r, d.World, []*nq{d.NQ})
	case d.World != nil && d.NQ != nil && d.NQ.hasTypeRepo():
		if d.NQ.Kind != "and" || len(d.NQ.Kids) != 2 || d.NQ.Kids[0].Kind != "typerepo" {
			return fmt.Errorf("%s: unsupported type:repo shape at shard level", path)
		}
		runShardCases(r, d.World, d.Strict, 0, nil, d.NQ)
	case d.World != nil && d.NQ != nil:
		runShardCases(r, d.World, d.Strict, 0, []*nq{d.NQ}, nil)
	default:
		return fmt.Errorf("%s: no world/query in the replay file", path)
	}
	return nil
}
