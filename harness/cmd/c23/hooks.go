package main

import (
	"github.com/sourcegraph/zoekt"
	"github.com/sourcegraph/zoekt/index"
	"github.com/sourcegraph/zoekt/query"
)

func index_VerifSimplifyKind(s zoekt.Searcher, q query.Q) (string, error) {
	return index.VerifSimplifyKind(s, q)
}
