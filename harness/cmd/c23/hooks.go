package main

import (
	"github.com/sourcegraph/zoekt"
	"github.com/sourcegraph/zoekt/index"
	"github.com/sourcegraph/zoekt/query"
	"github.com/sourcegraph/zoekt/search"
)

func search_VerifTypeRepoSearcher(s zoekt.Streamer) zoekt.Streamer { return search.VerifTypeRepoSearcher(s) }


func index_VerifSimplifyKind(s zoekt.Searcher, q query.Q) (string, error) {
	return index.VerifSimplifyKind(s, q)
}
