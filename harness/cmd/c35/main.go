// C35 harness: runs the REAL `zoekt-merge-index` binary (built from the working tree with -tags verif) in
// subprocesses under `strace`, injecting a failure (error=EIO) or a SIGKILL at a chosen file-system call of the
// main goroutine (pinned to one thread by cmd/zoekt-merge-index/zz_verif_c35.go), and compares
//   - the sequence of file-system operations the binary performed (trace inclusion),
//   - its exit status / stdout,
//   - what a searcher sees in the directory afterwards
// with the Lean FsProto model, which also evaluates the property (no repository visible twice; success ⇒ postcondition)
// on the implementation's outcome.  Independent Go oracles: duplicate visibility through the real directory searcher,
// and the compound shard's file name.
package main

import (
	"bufio"
	"bytes"
	"context"
	"crypto/sha1"
	"encoding/json"
	"errors"
	"fmt"
	"net/url"
	"os"
	"os/exec"
	"path/filepath"
	"regexp"
	"sort"
	"strconv"
	"strings"
	"sync"
	"syscall"
	"time"

	"github.com/sourcegraph/zoekt"
	"github.com/sourcegraph/zoekt/index"
	"github.com/sourcegraph/zoekt/query"
	"github.com/sourcegraph/zoekt/search"

	"verifharness/gen"
)

// ---------------------------------------------------------------- fixtures

type repoSpec struct {
	Name  string `json:"name"`
	ID    uint32 `json:"id"`
	NDocs int    `json:"ndocs"`
	Prio  int    `json:"prio"`
	Tomb  bool   `json:"tomb"` // tombstoned through the sidecar
}

// fileSpec is one file of the initial directory.
type fileSpec struct {
	Base   string     `json:"base"`            // shard file name (…​.zoekt)
	Kind   string     `json:"kind"`            // z, zj (not a shard), t, o
	Repos  []repoSpec `json:"repos,omitempty"` // embedded repositories, in shard order
	Meta   bool       `json:"meta,omitempty"`  // has a .meta sidecar (carrying the Tomb flags)
	source string     // fixture path
}

func simpleBase(name string) string {
	// oracle for Options.shardNameVersion / shardName (names here are short)
	return fmt.Sprintf("%s_v%d.%05d.zoekt", url.QueryEscape(name), 16, 0)
}

func compoundBase(liveNamesInMergeOrder []string) string {
	h := sha1.New()
	for _, n := range liveNamesInMergeOrder {
		h.Write([]byte(n))
		h.Write([]byte{0})
	}
	return fmt.Sprintf("compound-%x_v%d.%05d.zoekt", h.Sum(nil), 17, 0)
}

func token(repo string, i int) string {
	return fmt.Sprintf("tok%sx%d", strings.NewReplacer("/", "", ".", "", "-", "").Replace(repo), i)
}

func buildSimple(dir string, r repoSpec) (string, error) {
	repo := &zoekt.Repository{
		Name: r.Name, ID: r.ID,
		RawConfig: map[string]string{"repoid": strconv.Itoa(int(r.ID)), "priority": strconv.Itoa(r.Prio)},
		Branches:  []zoekt.RepositoryBranch{{Name: "HEAD", Version: "v" + r.Name}},
	}
	b, err := index.NewShardBuilder(repo)
	if err != nil {
		return "", err
	}
	for i := 0; i < r.NDocs; i++ {
		err := b.Add(index.Document{
			Name: fmt.Sprintf("f%d.txt", i), Branches: []string{"HEAD"},
			Content: []byte(fmt.Sprintf("hello from %s\n%s\n", r.Name, token(r.Name, i))),
		})
		if err != nil {
			return "", err
		}
	}
	p := filepath.Join(dir, simpleBase(r.Name))
	f, err := os.Create(p)
	if err != nil {
		return "", err
	}
	defer f.Close()
	if err := b.Write(f); err != nil {
		return "", err
	}
	return p, f.Close()
}

// mergeInProcess builds a compound fixture with the library (set-up only; the code under test runs in the binary).
func mergeInProcess(dir string, paths []string) (string, error) {
	var files []index.IndexFile
	for _, p := range paths {
		f, err := os.Open(p)
		if err != nil {
			return "", err
		}
		defer f.Close()
		inf, err := index.NewIndexFile(f)
		if err != nil {
			return "", err
		}
		defer inf.Close()
		files = append(files, inf)
	}
	tmp, dst, err := index.Merge(dir, files...)
	if err != nil {
		return "", err
	}
	return dst, os.Rename(tmp, dst)
}

type pool struct {
	dir      string
	simples  []fileSpec // one repository each
	compound []fileSpec
	junk     fileSpec
}

func buildPool(dir string, r *gen.Rand, quick bool) (*pool, error) {
	if err := os.MkdirAll(dir, 0o755); err != nil {
		return nil, err
	}
	p := &pool{dir: dir}
	names := []string{"r0", "r1", "github.com/a/b", "r3", "r4", "x-y.z", "r6", "r7"}
	if quick {
		names = names[:4] // same fixtures as the first five of the thorough pool (every shard costs a 32 MB builder)
	}
	id := uint32(1)
	for i, n := range names {
		nd := 1 + r.Intn(3)
		if i == 3 {
			nd = 0 // a repository without documents
		}
		rs := repoSpec{Name: n, ID: id, NDocs: nd, Prio: r.Intn(3)}
		id++
		sub := filepath.Join(dir, fmt.Sprintf("s%d", i))
		os.MkdirAll(sub, 0o755)
		path, err := buildSimple(sub, rs)
		if err != nil {
			return nil, err
		}
		p.simples = append(p.simples, fileSpec{Base: filepath.Base(path), Kind: "z", Repos: []repoSpec{rs}, source: path})
	}
	// compound fixtures: members are built separately so that their names do not clash with the simple pool
	mk := func(tag string, members []string, nd []int, tomb []bool) error {
		sub := filepath.Join(dir, tag)
		os.MkdirAll(sub, 0o755)
		var paths []string
		var rss []repoSpec
		for i, n := range members {
			rs := repoSpec{Name: n, ID: id, NDocs: nd[i], Prio: len(members) - i} // strictly decreasing: merge keeps this order
			id++
			path, err := buildSimple(sub, rs)
			if err != nil {
				return err
			}
			paths = append(paths, path)
			rss = append(rss, rs)
		}
		dst, err := mergeInProcess(sub, paths)
		if err != nil {
			return err
		}
		for _, q := range paths {
			os.Remove(q)
		}
		fs := fileSpec{Base: filepath.Base(dst), Kind: "z", source: dst}
		for i, rs := range rss {
			if rs.NDocs == 0 {
				continue // index.merge drops repositories without documents
			}
			if tomb[i] {
				if err := index.SetTombstone(dst, rs.ID); err != nil {
					return err
				}
				rs.Tomb = true
				fs.Meta = true
			}
			fs.Repos = append(fs.Repos, rs)
		}
		p.compound = append(p.compound, fs)
		return nil
	}
	if err := mk("c0", []string{"c0a", "c0b", "c0c"}, []int{2, 1, 1}, []bool{false, true, false}); err != nil {
		return nil, err
	}
	if err := mk("c1", []string{"c1a", "c1b"}, []int{1, 2}, []bool{false, false}); err != nil {
		return nil, err
	}
	if !quick {
		if err := mk("c2", []string{"c2a", "c2b"}, []int{1, 1}, []bool{true, true}); err != nil { // everything tombstoned
			return nil, err
		}
	}
	jp := filepath.Join(dir, "junk_v16.00000.zoekt")
	if err := os.WriteFile(jp, []byte("this is not a shard"), 0o644); err != nil {
		return nil, err
	}
	p.junk = fileSpec{Base: "junk_v16.00000.zoekt", Kind: "zj", source: jp}
	return p, nil
}

func linkOrCopy(src, dst string) error {
	if err := os.Link(src, dst); err == nil {
		return nil
	}
	b, err := os.ReadFile(src)
	if err != nil {
		return err
	}
	return os.WriteFile(dst, b, 0o644)
}

func materialise(dir string, files []fileSpec) error {
	if err := os.MkdirAll(dir, 0o755); err != nil {
		return err
	}
	for _, f := range files {
		switch f.Kind {
		case "z", "zj":
			if err := linkOrCopy(f.source, filepath.Join(dir, f.Base)); err != nil {
				return err
			}
			if f.Meta {
				if err := linkOrCopy(f.source+".meta", filepath.Join(dir, f.Base+".meta")); err != nil {
					return err
				}
			}
		case "t":
			if err := os.WriteFile(filepath.Join(dir, f.Base+".tmp"), []byte("stale"), 0o644); err != nil {
				return err
			}
		case "o":
			if err := os.WriteFile(filepath.Join(dir, f.Base), []byte("other"), 0o644); err != nil {
				return err
			}
		}
	}
	return nil
}

// dir0 in the line protocol
func encodeDir0(files []fileSpec) string {
	var es []string
	for _, f := range files {
		switch f.Kind {
		case "z":
			var rs, ms []string
			for _, r := range f.Repos {
				rs = append(rs, fmt.Sprintf("%s:0:%d", r.Name, r.NDocs))
				t := 0
				if r.Tomb {
					t = 1
				}
				ms = append(ms, fmt.Sprintf("%s:%d", r.Name, t))
			}
			es = append(es, "z:"+f.Base+"="+strings.Join(rs, ";"))
			if f.Meta {
				es = append(es, "m:"+f.Base+"="+strings.Join(ms, ";"))
			}
		case "zj":
			es = append(es, "zj:"+f.Base)
		case "t":
			es = append(es, "t:"+f.Base)
		case "o":
			es = append(es, "o:"+f.Base)
		}
	}
	if len(es) == 0 {
		return "-"
	}
	return strings.Join(es, "|")
}

// ---------------------------------------------------------------- observing a directory

var tmptmpRe = regexp.MustCompile(`^(.*\.zoekt)\.tmp\.\d+\.tmp$`)

func classify(name string) string {
	switch {
	case strings.HasSuffix(name, ".zoekt"):
		return "z:" + name
	case strings.HasSuffix(name, ".zoekt.meta"):
		return "m:" + strings.TrimSuffix(name, ".meta")
	case strings.HasSuffix(name, ".zoekt.tmp"):
		return "t:" + strings.TrimSuffix(name, ".tmp")
	}
	if m := tmptmpRe.FindStringSubmatch(name); m != nil {
		return "r:" + m[1]
	}
	return "o:" + name
}

// shardView: what a reader sees in one shard file: live repositories with their document counts.
func shardView(path string) (string, map[string]int) {
	f, err := os.Open(path)
	if err != nil {
		return "JUNK", nil
	}
	defer f.Close()
	inf, err := index.NewIndexFile(f)
	if err != nil {
		return "JUNK", nil
	}
	s, err := index.NewSearcher(inf)
	if err != nil {
		inf.Close()
		if errors.Is(err, index.ErrEmptyShard) {
			return "", map[string]int{}
		}
		return "JUNK", nil
	}
	defer s.Close()
	rl, err := s.List(context.Background(), &query.Const{Value: true}, nil)
	if err != nil {
		return "JUNK", nil
	}
	var es []string
	m := map[string]int{}
	for _, e := range rl.Repos {
		es = append(es, fmt.Sprintf("%s:%d", e.Repository.Name, e.Stats.Documents))
		m[e.Repository.Name] += 1
	}
	sort.Strings(es)
	return strings.Join(es, ";"), m
}

func listing(dir string) (string, map[string]int) {
	ents, err := os.ReadDir(dir)
	if err != nil {
		panic(err)
	}
	var es []string
	seen := map[string]int{} // repository name -> number of (shard, entry) visibilities
	for _, e := range ents {
		c := classify(e.Name())
		if strings.HasPrefix(c, "z:") {
			v, m := shardView(filepath.Join(dir, e.Name()))
			c += "=" + v
			for k, n := range m {
				seen[k] += n
			}
		}
		es = append(es, c)
	}
	if len(es) == 0 {
		return "-", seen
	}
	sort.Strings(es)
	return strings.Join(es, "|"), seen
}

// e2eDuplicates loads the directory like zoekt-webserver does and searches each repository's unique token.
func e2eDuplicates(dir string, repos []repoSpec) string {
	ss, err := search.NewDirectorySearcher(dir)
	if err != nil {
		return "loader: " + err.Error()
	}
	defer ss.Close()
	for _, r := range repos {
		if r.NDocs == 0 {
			continue
		}
		res, err := ss.Search(context.Background(), &query.Substring{Pattern: token(r.Name, 0), Content: true, CaseSensitive: true}, &zoekt.SearchOptions{})
		if err != nil {
			return "search: " + err.Error()
		}
		if len(res.Files) > 1 {
			return fmt.Sprintf("repository %s: file %s returned %d times", r.Name, res.Files[0].FileName, len(res.Files))
		}
	}
	return ""
}

// ---------------------------------------------------------------- strace

type inject struct {
	Sys  string `json:"sys"`
	When string `json:"when"` // strace when= expression (per-thread invocation count)
	Kill bool   `json:"kill"`
	// Errno of an injected failure (default EIO). Error handling that looks at the errno (os.IsNotExist, errors.Is(err,
	// fs.ErrNotExist), …) behaves differently for ENOENT than for EIO/EACCES/ENOSPC, so the harness varies it.
	Errno string `json:"errno,omitempty"`
}

type sysop struct {
	label    string // canonical operation, "" = not an operation of the model
	sys      string
	nth      int // invocation number of this system call on the main thread
	injected bool
	failed   bool
	killed   bool // the process was killed on entry to this call
}

var lineRe = regexp.MustCompile(`^(\w+)\((.*)\)\s+= (\?|-?\d+)(.*)$`)
var strRe = regexp.MustCompile(`"((?:[^"\\]|\\.)*)"`)

type traceResult struct {
	ops    []sysop // canonical operations, in order
	killed bool
}

// parseMainLog turns the main thread's strace log into canonical operations on files inside dir.
func parseMainLog(log string, dir string) traceResult {
	var tr traceResult
	counts := map[string]int{}
	tmpfd := map[string]string{} // fd -> canonical path of the temp file it writes
	rel := func(p string) (string, bool) {
		if !strings.HasPrefix(p, dir+"/") {
			return "", false
		}
		r := p[len(dir)+1:]
		if strings.Contains(r, "/") {
			return "", false
		}
		return classify(r), true
	}
	sc := bufio.NewScanner(strings.NewReader(log))
	sc.Buffer(make([]byte, 1<<20), 1<<24)
	for sc.Scan() {
		line := sc.Text()
		if strings.HasPrefix(line, "+++ killed") {
			tr.killed = true
			continue
		}
		m := lineRe.FindStringSubmatch(line)
		if m == nil {
			continue
		}
		sys, args, ret, rest := m[1], m[2], m[3], m[4]
		counts[sys]++
		op := sysop{sys: sys, nth: counts[sys]}
		op.killed = ret == "?"
		op.injected = strings.Contains(rest, "(INJECTED)")
		op.failed = strings.HasPrefix(ret, "-")
		strs := strRe.FindAllStringSubmatch(args, -1)
		first := strings.SplitN(args, ",", 2)[0]
		switch sys {
		case "openat":
			if len(strs) < 1 {
				continue
			}
			p, ok := rel(strs[0][1])
			if !ok {
				continue
			}
			if strings.Contains(args, "O_CREAT") {
				op.label = "create:" + p
				if !op.failed && !op.killed {
					tmpfd[ret] = p
				}
			} else {
				op.label = "open:" + p
			}
		case "newfstatat":
			if len(strs) < 1 || strings.Contains(args, "AT_SYMLINK_NOFOLLOW") || strings.Contains(args, "AT_EMPTY_PATH") {
				continue
			}
			p, ok := rel(strs[0][1])
			if !ok {
				continue
			}
			op.label = "stat:" + p
		case "unlinkat":
			if len(strs) < 1 || strings.Contains(args, "AT_REMOVEDIR") {
				continue
			}
			p, ok := rel(strs[0][1])
			if !ok {
				continue
			}
			op.label = "remove:" + p
		case "renameat", "renameat2":
			if len(strs) < 2 {
				continue
			}
			a, ok1 := rel(strs[0][1])
			b, ok2 := rel(strs[1][1])
			if !ok1 || !ok2 {
				continue
			}
			op.label = "rename:" + a + ">" + b
		case "fchmod":
			if p, ok := tmpfd[first]; ok {
				op.label = "chmod:" + p
			}
		case "write":
			if p, ok := tmpfd[first]; ok {
				op.label = "write:" + p
				// consecutive writes to the same temp file are one operation
				if n := len(tr.ops); n > 0 && tr.ops[n-1].label == op.label {
					if op.killed {
						// killed in the middle of the write: the write operation did not complete
						tr.ops[n-1].killed = true
					} else if op.failed {
						tr.ops[n-1].failed, tr.ops[n-1].injected = true, op.injected
					}
					continue
				}
			}
		case "close":
			if p, ok := tmpfd[first]; ok {
				op.label = "close:" + p
				delete(tmpfd, first)
			}
		}
		if op.label != "" {
			tr.ops = append(tr.ops, op)
		}
	}
	return tr
}

type runResult struct {
	exit   string // "0:<out>", "1", "killed", or "other:<n>"
	stdout string
	stderr string
	trace  traceResult
	wall   time.Duration
}

const traced = "execve,openat,newfstatat,unlinkat,renameat,renameat2,fchmod,write,close"

func runTraced(bin string, args []string, stdin string, dir string, inj []inject, scratch string) (runResult, error) {
	os.RemoveAll(scratch)
	if err := os.MkdirAll(scratch, 0o755); err != nil {
		return runResult{}, err
	}
	sargs := []string{"-f", "-ff", "-o", filepath.Join(scratch, "st"), "-e", "trace=" + traced, "-e", "signal=none", "-s", "0"}
	for _, i := range inj {
		what := "error=EIO"
		if i.Errno != "" {
			what = "error=" + i.Errno
		}
		if i.Kill {
			what = "signal=KILL"
		}
		sargs = append(sargs, "-e", fmt.Sprintf("inject=%s:%s:when=%s", i.Sys, what, i.When))
	}
	sargs = append(sargs, bin)
	sargs = append(sargs, args...)
	ctx, cancel := context.WithTimeout(context.Background(), 5*time.Minute)
	defer cancel()
	cmd := exec.CommandContext(ctx, "strace", sargs...)
	cmd.Env = append(os.Environ(), "ZOEKT_VERIF_LOCKTHREAD=1")
	cmd.Stdin = strings.NewReader(stdin)
	var so, se bytes.Buffer
	cmd.Stdout, cmd.Stderr = &so, &se
	t0 := time.Now()
	err := cmd.Run()
	res := runResult{stdout: so.String(), stderr: se.String(), wall: time.Since(t0)}
	if ctx.Err() != nil {
		return res, fmt.Errorf("zoekt-merge-index did not finish within 5 minutes (hang?): %v", args)
	}
	code := 0
	if err != nil {
		var ee *exec.ExitError
		if !errors.As(err, &ee) {
			return res, err
		}
		if ws, ok := ee.Sys().(syscall.WaitStatus); ok && ws.Signaled() {
			code = -1
		} else {
			code = ee.ExitCode()
		}
	}
	// main thread = the log that starts with execve
	logs, _ := filepath.Glob(filepath.Join(scratch, "st.*"))
	var mainLog string
	for _, l := range logs {
		b, err := os.ReadFile(l)
		if err != nil {
			continue
		}
		if bytes.HasPrefix(b, []byte("execve(")) {
			mainLog = string(b)
		}
	}
	if mainLog == "" {
		return res, fmt.Errorf("no main-thread strace log (strace failed?): %s", se.String())
	}
	res.trace = parseMainLog(mainLog, dir)
	switch {
	case code == -1 || res.trace.killed:
		res.exit = "killed"
	case code == 0:
		out := strings.TrimSpace(res.stdout)
		if out == "" {
			res.exit = "0:-"
		} else if filepath.Dir(out) == dir {
			res.exit = "0:" + filepath.Base(out)
		} else {
			res.exit = "0:UNEXPECTED(" + strings.ReplaceAll(out, " ", "_") + ")"
		}
	case code == 1:
		res.exit = "1"
	default:
		res.exit = fmt.Sprintf("other:%d", code)
	}
	os.RemoveAll(scratch)
	return res, nil
}

// ---------------------------------------------------------------- scenarios

type scenario struct {
	Stdin  bool       `json:"stdin,omitempty"` // `merge -`: the input paths come on stdin, one per line
	Cmd    string     `json:"cmd"` // merge | explode
	Files  []fileSpec `json:"files"`
	Inputs []string   `json:"inputs"` // bases given on the command line
	Class  string     `json:"class"`
}

type fault struct {
	Op    int    `json:"op"`   // index into the baseline's operation list; -1 = none
	Kind  string `json:"kind"` // fail | kill | none | all-renames | all-renames+cleanups
	Sys   string `json:"sys,omitempty"`
	Label string `json:"label,omitempty"` // the operation, e.g. "remove:z:r0_v16.00000.zoekt" (stored files: resolved by a baseline run)
	Errno string `json:"errno,omitempty"` // errno of the injected failure (default EIO)
}

type job struct {
	sc  scenario
	flt fault
	inj []inject
	// results
	res  runResult
	err  error
	dir  string
	fin  string
	seen map[string]int
	e2e  string
	retries int
}

func (sc scenario) allRepos() []repoSpec {
	var rs []repoSpec
	for _, f := range sc.Files {
		rs = append(rs, f.Repos...)
	}
	return rs
}

func (sc scenario) file(base string) *fileSpec {
	for i := range sc.Files {
		if sc.Files[i].Base == base {
			return &sc.Files[i]
		}
	}
	return nil
}

// expectedDst: oracle for the compound shard's name (sha1 over the live repository names, inputs stably sorted by
// the priority of their first repository, descending).
func (sc scenario) expectedDst() string {
	type in struct {
		prio  int
		names []string
	}
	var ins []in
	for _, b := range sc.Inputs {
		f := sc.file(b)
		if f == nil || f.Kind != "z" || len(f.Repos) == 0 {
			return "NONE"
		}
		i := in{prio: f.Repos[0].Prio}
		for _, r := range f.Repos {
			if !r.Tomb {
				i.names = append(i.names, r.Name)
			}
		}
		ins = append(ins, i)
	}
	sort.SliceStable(ins, func(a, b int) bool { return ins[a].prio > ins[b].prio })
	var names []string
	for _, i := range ins {
		names = append(names, i.names...)
	}
	return compoundBase(names)
}

func (sc scenario) args(dir string) []string {
	a := []string{sc.Cmd}
	if sc.Stdin {
		return append(a, "-")
	}
	for _, b := range sc.Inputs {
		a = append(a, filepath.Join(dir, b))
	}
	return a
}

func (sc scenario) stdin(dir string) string {
	if !sc.Stdin {
		return ""
	}
	var sb strings.Builder
	for _, b := range sc.Inputs {
		sb.WriteString(" " + filepath.Join(dir, b) + " \n") // mergeCmd trims each line
	}
	return sb.String()
}

func orderOf(ops []sysop, prefix string) string {
	var xs []string
	for _, o := range ops {
		if strings.HasPrefix(o.label, prefix) {
			rest := o.label[len(prefix):]
			if i := strings.Index(rest, ">"); i >= 0 {
				rest = rest[:i]
			}
			xs = append(xs, rest)
		}
	}
	if len(xs) == 0 {
		return "-"
	}
	return strings.Join(xs, ",")
}

// caseOf builds the model's input line and the implementation's canonical output from one run.
func caseOf(j *job) gen.Case {
	sc := j.sc
	var labels []string
	var faults []int
	kill := "-"
	n := 0
	for _, o := range j.res.trace.ops {
		if o.killed {
			break
		}
		l := o.label
		if o.injected {
			l += "!"
			faults = append(faults, n)
		} else if o.failed {
			l += "?"
		}
		labels = append(labels, l)
		n++
	}
	if j.res.exit == "killed" {
		kill = strconv.Itoa(n)
		labels = append(labels, "KILL")
	}
	tr := "-"
	if len(labels) > 0 {
		tr = strings.Join(labels, ",")
	}
	var in string
	d0 := encodeDir0(sc.Files)
	switch sc.Cmd {
	case "merge":
		names := "-"
		if len(sc.Inputs) > 0 {
			names = strings.Join(sc.Inputs, ",")
		}
		in = fmt.Sprintf("merge %s %s %s %s %s", sc.expectedDst(), names, d0, gen.NatList(faults), kill)
	case "explode":
		var sm []string
		if f := sc.file(sc.Inputs[0]); f != nil {
			for _, r := range f.Repos {
				sm = append(sm, r.Name+"="+simpleBase(r.Name))
			}
		}
		smS := "-"
		if len(sm) > 0 {
			smS = strings.Join(sm, ",")
		}
		in = fmt.Sprintf("explode %s %s %s %s %s %s %s", sc.Inputs[0], smS, d0,
			orderOf(j.res.trace.ops, "rename:t:"), orderOf(j.res.trace.ops, "remove:t:"), gen.NatList(faults), kill)
	}
	impl := fmt.Sprintf("exit=%s trace=%s init=%s dir=%s", j.res.exit, tr, j.initListing(), j.fin)

	c := gen.Case{In: in, Impl: impl, Class: sc.Cmd + "/" + sc.Class + "/" + j.flt.Kind}
	// Go oracles
	var bad []string
	for name, k := range j.seen {
		if k > 1 {
			bad = append(bad, fmt.Sprintf("repository %s visible %d times", name, k))
		}
	}
	sort.Strings(bad)
	if j.e2e != "" {
		bad = append(bad, "directory searcher: "+j.e2e)
	}
	if len(bad) > 0 {
		c.Go = strings.Join(bad, "; ")
		c.Key = "dup-visible"
	}
	if strings.HasPrefix(j.res.exit, "other:") || strings.Contains(j.res.exit, "UNEXPECTED") {
		c.Go = strings.TrimSpace(c.Go + "; unexpected exit " + j.res.exit + ": " + tail(j.res.stderr, 300))
		c.Key = "crash"
	}
	c.Nontrivial = len(faults) > 0 || kill != "-"
	c.Detail = gen.Detail(map[string]any{"scenario": sc, "fault": j.flt, "inject": j.inj, "exit": j.res.exit,
		"stdout": j.res.stdout, "stderr": tail(j.res.stderr, 400)})
	return c
}

func tail(s string, n int) string {
	if len(s) > n {
		return s[len(s)-n:]
	}
	return s
}

func (j *job) initListing() string {
	// the initial directory as a reader sees it, recomputed from the fixtures
	dir := j.dir + ".init"
	os.RemoveAll(dir)
	if err := materialise(dir, j.sc.Files); err != nil {
		return "ERR"
	}
	l, _ := listing(dir)
	os.RemoveAll(dir)
	return l
}

// ---------------------------------------------------------------- main

type baseEntry struct {
	once sync.Once
	res  runResult
	err  error
}

type runner struct {
	bases   sync.Map // scenario (JSON) -> *baseEntry: fault-free traces shared by stored witnesses of one scenario
	bin     string
	work    string
	mu      sync.Mutex
	nextDir int
}

func (r *runner) fresh() string {
	r.mu.Lock()
	defer r.mu.Unlock()
	r.nextDir++
	return filepath.Join(r.work, fmt.Sprintf("d%05d", r.nextDir))
}

// runtimeArtefact: strace's invocation counters are per thread, so an injected `write` failure can also hit a
// write of the Go runtime itself on another thread (netpollBreak), which makes the runtime throw. That is an artefact
// of the injection tool, not behaviour of zoekt; such a run is repeated. A Go panic of zoekt code is not matched.
func runtimeArtefact(res runResult) bool {
	return res.exit == "other:2" && strings.Contains(res.stderr, "fatal error:") && !strings.Contains(res.stderr, "panic:")
}

func (r *runner) once(j *job, inj []inject) (runResult, error) {
	os.RemoveAll(j.dir)
	if err := materialise(j.dir, j.sc.Files); err != nil {
		return runResult{}, err
	}
	return runTraced(r.bin, j.sc.args(j.dir), j.sc.stdin(j.dir), j.dir, inj, j.dir+".st")
}

func (r *runner) run(j *job) {
	j.dir = r.fresh()
	defer os.RemoveAll(j.dir)
	if len(j.inj) == 0 && j.flt.Label != "" && (j.flt.Kind == "fail" || j.flt.Kind == "kill") {
		// stored witness: find the labelled operation in a baseline run of the current binary
		key, _ := json.Marshal(j.sc)
		e, _ := r.bases.LoadOrStore(string(key), &baseEntry{})
		be := e.(*baseEntry)
		be.once.Do(func() {
			bj := &job{sc: j.sc, dir: r.fresh()}
			defer os.RemoveAll(bj.dir)
			be.res, be.err = r.once(bj, nil)
		})
		base, err := be.res, be.err
		if err != nil {
			j.err = err
			return
		}
		for _, o := range base.trace.ops {
			if o.label == j.flt.Label || (strings.HasSuffix(j.flt.Label, "*") && strings.HasPrefix(o.label, strings.TrimSuffix(j.flt.Label, "*"))) {
				j.inj = []inject{{Sys: o.sys, When: strconv.Itoa(o.nth), Kill: j.flt.Kind == "kill", Errno: j.flt.Errno}}
				break
			}
		}
		if len(j.inj) == 0 {
			j.err = fmt.Errorf("stored fault %q: the baseline run performs no such operation (%s)", j.flt.Label, orderOf(base.trace.ops, ""))
			return
		}
	}
	for try := 0; try < 4; try++ {
		j.res, j.err = r.once(j, j.inj)
		if j.err != nil {
			return
		}
		if !runtimeArtefact(j.res) {
			break
		}
		j.retries++
	}
	j.fin, j.seen = listing(j.dir)
	j.e2e = e2eDuplicates(j.dir, j.sc.allRepos())
}

func (r *runner) runAll(jobs []*job, par int) {
	var wg sync.WaitGroup
	ch := make(chan *job)
	for i := 0; i < par; i++ {
		wg.Add(1)
		go func() {
			defer wg.Done()
			for j := range ch {
				r.run(j)
			}
		}()
	}
	for _, j := range jobs {
		ch <- j
	}
	close(ch)
	wg.Wait()
}

func buildBinary(work string) (string, error) {
	bin := filepath.Join(work, "zoekt-merge-index")
	root := os.Getenv("VERIF_ROOT")
	if root == "" {
		return "", fmt.Errorf("VERIF_ROOT not set")
	}
	cmd := exec.Command("go", "build", "-tags", "verif", "-o", bin, "github.com/sourcegraph/zoekt/cmd/zoekt-merge-index")
	cmd.Dir = filepath.Join(root, "harness")
	out, err := cmd.CombinedOutput()
	if err != nil {
		return "", fmt.Errorf("building zoekt-merge-index: %v: %s", err, out)
	}
	return bin, nil
}

func genScenarios(p *pool, r *gen.Rand, n int) []scenario {
	var out []scenario
	pickSimples := func(k int) []fileSpec {
		idx := make([]int, len(p.simples))
		for i := range idx {
			idx[i] = i
		}
		gen.Shuffle(r, idx)
		var fs []fileSpec
		for _, i := range idx[:k] {
			fs = append(fs, p.simples[i])
		}
		return fs
	}
	bystanders := func() []fileSpec {
		var fs []fileSpec
		if r.Chance(1, 3) {
			fs = append(fs, fileSpec{Base: "stale_v16.00000.zoekt", Kind: "t"})
		}
		if r.Chance(1, 3) {
			fs = append(fs, fileSpec{Base: "README", Kind: "o"})
		}
		return fs
	}
	for len(out) < n {
		k := r.Intn(10)
		// the first scenarios cover every class once, whatever the seed
		if len(out) < 4 {
			k = []int{0, 4, 6, 9}[len(out)]
		}
		switch {
		case k < 4: // merge of simple shards (+ an unrelated shard standing by)
			ins := pickSimples(r.Range(1, 3))
			sc := scenario{Cmd: "merge", Class: "simple"}
			for _, f := range ins {
				sc.Inputs = append(sc.Inputs, f.Base)
			}
			sc.Files = append(sc.Files, ins...)
			sc.Files = append(sc.Files, bystanders()...)
			if r.Chance(1, 2) {
				sc.Files = append(sc.Files, p.compound[1])
			}
			if r.Chance(1, 3) {
				sc.Stdin = true
				sc.Class = "simple-stdin"
				if r.Chance(1, 4) {
					sc.Inputs = nil // nothing on stdin: "merge requires at least one shard path"
					sc.Class = "no-input"
				}
			}
			out = append(out, sc)
		case k < 6: // merge involving a compound shard with a tombstone sidecar
			c := p.compound[r.Intn(len(p.compound))]
			if len(out) < 4 {
				c = p.compound[0] // the one with a tombstone sidecar
			}
			ins := append([]fileSpec{c}, pickSimples(r.Range(0, 2))...)
			gen.Shuffle(r, ins)
			sc := scenario{Cmd: "merge", Class: "compound"}
			for _, f := range ins {
				sc.Inputs = append(sc.Inputs, f.Base)
			}
			sc.Files = append(sc.Files, ins...)
			sc.Files = append(sc.Files, bystanders()...)
			out = append(out, sc)
		case k < 7: // merge with an input that does not exist / is not a shard
			ins := pickSimples(2)
			sc := scenario{Cmd: "merge", Class: "missing-input", Files: []fileSpec{ins[0]}}
			if r.Bool() {
				sc.Class = "junk-input"
				sc.Files = append(sc.Files, p.junk)
				ins[1] = p.junk
			}
			sc.Inputs = []string{ins[0].Base, ins[1].Base}
			if r.Bool() {
				sc.Inputs[0], sc.Inputs[1] = sc.Inputs[1], sc.Inputs[0]
			}
			out = append(out, sc)
		default: // explode
			c := p.compound[r.Intn(len(p.compound))]
			if len(out) < 4 {
				c = p.compound[0]
			}
			sc := scenario{Cmd: "explode", Class: "compound", Files: []fileSpec{c}, Inputs: []string{c.Base}}
			sc.Files = append(sc.Files, pickSimples(r.Range(0, 2))...)
			sc.Files = append(sc.Files, bystanders()...)
			if r.Chance(1, 8) {
				sc.Class = "missing-input"
				sc.Files = sc.Files[1:]
			}
			out = append(out, sc)
		}
	}
	return out
}

// faultJobs plans the injections for one scenario from its baseline trace.
func faultJobs(sc scenario, base traceResult, r *gen.Rand, perScenario int) []*job {
	var js []*job
	type cand struct {
		f   fault
		inj []inject
	}
	var cands []cand
	for i, o := range base.ops {
		if o.failed {
			continue // naturally failing operation (ENOENT): nothing to inject
		}
		for _, kind := range []string{"fail", "kill"} {
			cands = append(cands, cand{fault{Op: i, Kind: kind, Sys: o.sys, Label: o.label},
				[]inject{{Sys: o.sys, When: strconv.Itoa(o.nth), Kill: kind == "kill"}}})
		}
		// the same failure with other errnos. ENOENT is not injected into stat / the read of the sidecar: there it is
		// the documented answer "the file is absent" (IndexFilePaths, parseMetadata), which the model only covers when the
		// file really is absent (the natural case); everywhere else the code must treat every errno as a failure.
		isProbe := o.sys == "newfstatat" || strings.HasPrefix(o.label, "open:m:")
		for _, errno := range []string{"ENOENT", []string{"EACCES", "ENOSPC"}[i%2]} {
			if errno == "ENOENT" && isProbe {
				continue
			}
			cands = append(cands, cand{fault{Op: i, Kind: "fail-" + errno, Sys: o.sys, Label: o.label, Errno: errno},
				[]inject{{Sys: o.sys, When: strconv.Itoa(o.nth), Errno: errno}}})
		}
	}
	// several failures in one run: every final rename of explode fails; and additionally every clean-up removal
	if sc.Cmd == "explode" {
		firstRen, firstClean := 0, 0
		for _, o := range base.ops {
			if strings.HasPrefix(o.label, "rename:t:") && firstRen == 0 {
				firstRen = o.nth
			}
			if strings.HasPrefix(o.label, "remove:t:") && firstClean == 0 {
				firstClean = o.nth
			}
		}
		if firstRen > 0 {
			all := inject{Sys: "renameat", When: fmt.Sprintf("%d+1", firstRen)}
			cands = append(cands, cand{fault{Op: -1, Kind: "all-renames"}, []inject{all}})
			if firstClean > 0 {
				cands = append(cands, cand{fault{Op: -1, Kind: "all-renames+cleanups"},
					[]inject{all, {Sys: "unlinkat", When: fmt.Sprintf("%d+1", firstClean)}}})
			}
		}
	}
	if perScenario <= 0 || perScenario >= len(cands) {
		for _, c := range cands {
			js = append(js, &job{sc: sc, flt: c.f, inj: c.inj})
		}
		return js
	}
	// quick tier: a stratified sample instead of the enumeration — a kill at a directory mutation (rename/remove/create),
	// a failing rename/remove, for explode the run in which every final rename and clean-up fails, then random others
	pick := func(pred func(cand) bool, taken map[int]bool) int {
		var ok []int
		for i, c := range cands {
			if !taken[i] && pred(c) {
				ok = append(ok, i)
			}
		}
		if len(ok) == 0 {
			return -1
		}
		return ok[r.Intn(len(ok))]
	}
	mutation := func(c cand) bool {
		return c.f.Sys == "renameat" || c.f.Sys == "unlinkat" || strings.HasPrefix(c.f.Label, "create:")
	}
	taken := map[int]bool{}
	// deterministic picks that carry the ordering argument of the property: the removal of the first input / of the
	// compound shard fails (nothing may have become visible yet), and a kill on entry to the last rename into place
	for i, c := range cands {
		if c.f.Kind == "fail" && strings.HasPrefix(c.f.Label, "remove:z:") {
			taken[i] = true
			break
		}
	}
	for i := len(cands) - 1; i >= 0 && len(taken) < perScenario; i-- {
		if cands[i].f.Kind == "kill" && strings.HasPrefix(cands[i].f.Label, "rename:t:") {
			taken[i] = true
			break
		}
	}
	// errno-dependent error handling: ENOENT at the last rename into place (explode: of a simple shard; merge: of the
	// compound shard) — after the point of no return, "does not exist" must not be read as "nothing to do"
	extra := 0
	for i := len(cands) - 1; i >= 0; i-- {
		if cands[i].f.Kind == "fail-ENOENT" && strings.HasPrefix(cands[i].f.Label, "rename:t:") {
			taken[i] = true
			extra++
			break
		}
	}
	perScenario += extra
	for _, pred := range []func(cand) bool{
		func(c cand) bool { return c.f.Kind == "kill" && mutation(c) },
		func(c cand) bool { return strings.HasPrefix(c.f.Kind, "fail") && (c.f.Sys == "renameat" || c.f.Sys == "unlinkat") },
		func(c cand) bool { return true },
		func(c cand) bool { return true },
	} {
		if len(taken) >= perScenario {
			break
		}
		if i := pick(pred, taken); i >= 0 {
			taken[i] = true
		}
	}
	if i := pick(func(c cand) bool { return c.f.Kind == "all-renames+cleanups" }, taken); i >= 0 {
		taken[i] = true
	}
	var idx []int
	for i := range taken {
		idx = append(idx, i)
	}
	sort.Ints(idx)
	for _, i := range idx {
		js = append(js, &job{sc: sc, flt: cands[i].f, inj: cands[i].inj})
	}
	return js
}

type replayFile struct {
	Case struct {
		Detail struct {
			Scenario scenario `json:"scenario"`
			Fault    fault    `json:"fault"`
			Inject   []inject `json:"inject"`
		} `json:"detail"`
	} `json:"case"`
	// corpus files carry the same fields at top level
	Scenario *scenario `json:"scenario"`
	Fault    *fault    `json:"fault"`
	Inject   []inject  `json:"inject"`
}

func loadStored(path string, p *pool) (*job, error) {
	b, err := os.ReadFile(path)
	if err != nil {
		return nil, err
	}
	var rf replayFile
	if err := json.Unmarshal(b, &rf); err != nil {
		return nil, err
	}
	j := &job{}
	if rf.Scenario != nil {
		j.sc = *rf.Scenario
		if rf.Fault != nil {
			j.flt = *rf.Fault
		}
		j.inj = rf.Inject
	} else {
		j.sc, j.flt, j.inj = rf.Case.Detail.Scenario, rf.Case.Detail.Fault, rf.Case.Detail.Inject
	}
	if j.sc.Cmd == "" {
		return nil, fmt.Errorf("%s: no scenario", path)
	}
	// re-attach fixture paths
	all := append(append([]fileSpec{}, p.simples...), p.compound...)
	all = append(all, p.junk)
	for i := range j.sc.Files {
		for _, f := range all {
			if f.Base == j.sc.Files[i].Base && (j.sc.Files[i].Kind == "z" || j.sc.Files[i].Kind == "zj") {
				j.sc.Files[i] = f // the pool is authoritative for what the fixture contains
			}
		}
		if (j.sc.Files[i].Kind == "z" || j.sc.Files[i].Kind == "zj") && j.sc.Files[i].source == "" {
			return nil, fmt.Errorf("%s: fixture %s is not in the pool", path, j.sc.Files[i].Base)
		}
	}
	if j.flt.Kind == "" {
		j.flt.Kind = "none"
	}
	if j.flt.Label != "" && (j.flt.Kind == "fail" || j.flt.Kind == "kill") {
		j.inj = nil // resolved against the current binary
	}
	return j, nil
}

func main() {
	f := gen.ParseFlags()
	w := gen.NewWriter(f.Out)
	defer w.Close()
	work := os.Getenv("VERIF_WORK")
	if work == "" {
		work = os.TempDir()
	}
	work = filepath.Join(work, "c35")
	os.RemoveAll(work)
	if err := os.MkdirAll(work, 0o755); err != nil {
		panic(err)
	}
	defer os.RemoveAll(work)
	t0 := time.Now()
	// the binary is built while the fixture pool is written
	var bin string
	var berr error
	bdone := make(chan struct{})
	go func() { bin, berr = buildBinary(work); close(bdone) }()
	// the fixture pool does not depend on the seed: replay and corpus files name fixtures by file name
	p, err := buildPool(filepath.Join(work, "pool"), gen.NewRand(12345), f.Tier != "thorough")
	if err != nil {
		panic(err)
	}
	tPool := time.Since(t0)
	<-bdone
	if berr != nil {
		fmt.Fprintln(os.Stderr, berr)
		os.Exit(3)
	}
	fmt.Fprintf(os.Stderr, "c35: fixture pool ready after %v\n", tPool.Round(time.Millisecond))
	fmt.Fprintf(os.Stderr, "c35: binary + fixture pool ready after %v\n", time.Since(t0).Round(time.Millisecond))
	rn := &runner{bin: bin, work: work}
	par := 12
	if v := os.Getenv("C35_PAR"); v != "" {
		par, _ = strconv.Atoi(v)
	}
	emit := func(js []*job) {
		for _, j := range js {
			if j.err != nil {
				fmt.Fprintln(os.Stderr, "c35: run failed:", j.err)
				os.Exit(3)
			}
			w.Emit(caseOf(j))
			for _, o := range j.res.trace.ops {
				if o.injected {
					w.Count("injected:"+strings.SplitN(o.label, ":", 2)[0], 1)
				}
			}
			if j.res.exit == "killed" {
				w.Count("killed", 1)
			}
			if j.retries > 0 {
				w.Count("retried-runtime-artefact", j.retries)
			}
		}
	}

	if f.Replay != "" {
		j, err := loadStored(f.Replay, p)
		if err != nil {
			panic(err)
		}
		rn.runAll([]*job{j}, 1)
		emit([]*job{j})
		return
	}
	// corpus first
	if f.Corpus != "" {
		files, _ := filepath.Glob(filepath.Join(f.Corpus, "*.json"))
		sort.Strings(files)
		var js []*job
		for _, cf := range files {
			j, err := loadStored(cf, p)
			if err != nil {
				fmt.Fprintln(os.Stderr, "c35: corpus:", err)
				os.Exit(3)
			}
			js = append(js, j)
		}
		rn.runAll(js, par)
		emit(js)
	}

	r := gen.NewRand(f.Seed)
	nScen := f.N(4, 18) // quick: one scenario per class
	perScen := f.N(2, 0) // + for explode the run in which every final rename and clean-up fails // thorough: every mutation point, fail and kill
	scs := genScenarios(p, r, nScen)
	// baselines
	var bases []*job
	for _, sc := range scs {
		bases = append(bases, &job{sc: sc, flt: fault{Op: -1, Kind: "none"}})
	}
	rn.runAll(bases, par)
	emit(bases)
	var js []*job
	for _, b := range bases {
		js = append(js, faultJobs(b.sc, b.res.trace, r.Fork(), perScen)...)
	}
	rn.runAll(js, par)
	emit(js)
	fmt.Fprintf(os.Stderr, "c35: %d scenarios, %d injected runs, %v\n", len(scs), len(js), time.Since(t0).Round(time.Millisecond))
}
