package main

import (
	"fmt"
	"os"

	"github.com/sourcegraph/zoekt"
	"github.com/sourcegraph/zoekt/index"
)

func main() {
	dir := os.Args[1]
	for i := 0; i < 3; i++ {
		opts := index.Options{IndexDir: dir, RepositoryDescription: zoekt.Repository{Name: fmt.Sprintf("repo%d", i), ID: uint32(i + 1)}, DisableCTags: true}
		b, err := index.NewBuilder(opts)
		if err != nil {
			panic(err)
		}
		b.AddFile("f1.go", []byte("package main\nfunc main() {}\n"))
		b.AddFile("f2.txt", []byte(fmt.Sprintf("hello %d\n", i)))
		if err := b.Finish(); err != nil {
			panic(err)
		}
	}
}
