// C12 harness: the real index.Builder (NewBuilder/Add/Finish, writeShard, JsonMarshalRepoMetaTemp, SetTombstone)
// replaces real index directories while a parent process observes every rename/unlink the build makes, by running the
// build in a child under strace(1):
//   - "stop" session : the child is SIGSTOPped after every rename/unlink; the parent copies the directory (= the state a
//     kill at that instant would leave), loads the copy with search.NewDirectorySearcher and compares what a
//     searcher sees with the old and the new index (Go oracle, own expectation tables); the listing and the observed
//     operation trace go to the Lean model (trace inclusion, predicted directory, checkP).
//   - "fault" session: renames / unlinks of the child fail with EIO periodically (strace inject … when=a+b).
//   - "kill" runs    : a fresh child is SIGKILLed on entering its k-th rename/unlink (no simulation at all).
//
// No file of the repository is changed for this: the hooks are strace's.
package main

import (
	"context"
	"crypto/sha256"
	"encoding/hex"
	"encoding/json"
	"fmt"
	"io"
	"log"
	"os"
	"path/filepath"
	"regexp"
	"runtime"
	"runtime/pprof"
	"sort"
	"strconv"
	"strings"
	"sync"

	"github.com/sourcegraph/zoekt"
	"github.com/sourcegraph/zoekt/index"
	"github.com/sourcegraph/zoekt/query"
	"github.com/sourcegraph/zoekt/search"

	"verifharness/f1util"
	"verifharness/gen"
)

const (
	repoName  = "repo"
	repoID    = 7
	otherName = "other"
	otherID   = 8
	token     = "zqx"
	shardMax  = 260
)

func init() {
	if len(os.Args) > 1 && os.Args[1] == "child" {
		runtime.LockOSThread()
	}
}

// ---------------------------------------------------------------- child

func childMain() {
	f1util.ChildMain(func(req json.RawMessage) any {
		var sp f1util.BuildSpec
		if err := json.Unmarshal(req, &sp); err != nil {
			return map[string]string{"err": "bad request: " + err.Error()}
		}
		if err := f1util.WithFsizeLimit(sp.FsizeLimit, func() error { return f1util.RunBuild(sp) }); err != nil {
			return map[string]string{"err": err.Error()}
		}
		return map[string]string{"err": ""}
	})
}

// ---------------------------------------------------------------- templates (old index states)

type template struct {
	Key      string
	Dir      string
	NOld     int
	OldMeta  []bool
	Compound bool
	CompMeta bool
	Docs     map[string]string // visible documents of the repository
	Gen      int
	Tokens   map[string]string // sha256 of a file -> content token (O<n>, om, co, ca)
}

var genCounter = 100

func nextGen() int { genCounter++; return genCounter }

func mkDoc(r *gen.Rand, name string, g int) f1util.Doc {
	words := []string{"alpha", "beta", "gamma", "delta", "omega", "func", "main", "return"}
	c := fmt.Sprintf("%s %s g%d", token, name, g)
	for len(c) < 38+r.Intn(30) {
		c += " " + gen.Pick(r, words)
	}
	return f1util.Doc{Name: name, Content: c + "\n"}
}

// fullDocs generates documents for a full build that the builder will split into exactly n shards.
func fullDocs(r *gen.Rand, g, n int) []f1util.Doc {
	var docs []f1util.Doc
	for i := 0; len(f1util.PredictShards(docs, shardMax, false)) < n || len(docs) == 0; i++ {
		docs = append(docs, mkDoc(r, fmt.Sprintf("d%d/f%d.go", i%2, i), g))
	}
	// a few more, as long as they still fit into the last shard
	for extra := r.Intn(3); extra > 0; extra-- {
		d := mkDoc(r, fmt.Sprintf("d%d/f%d.go", len(docs)%2, len(docs)), g)
		if len(f1util.PredictShards(append(append([]f1util.Doc(nil), docs...), d), shardMax, false)) == n {
			docs = append(docs, d)
		}
	}
	return docs
}

func sha(path string) string {
	b, err := os.ReadFile(path)
	if err != nil {
		return "unreadable"
	}
	h := sha256.Sum256(b)
	return hex.EncodeToString(h[:])
}

var (
	reShard = regexp.MustCompile(`^repo_v16\.(\d{5})\.zoekt$`)
	reMeta  = regexp.MustCompile(`^repo_v16\.(\d{5})\.zoekt\.meta$`)
	reComp  = regexp.MustCompile(`^compound-[0-9a-f]+_v17\.00000\.zoekt$`)
	reCMeta = regexp.MustCompile(`^compound-[0-9a-f]+_v17\.00000\.zoekt\.meta$`)
)

// pathToken maps a file name of the index directory to the model's path token ("" = unknown).
func pathToken(base string, temps map[string]int) string {
	if m := reShard.FindStringSubmatch(base); m != nil {
		n, _ := strconv.Atoi(m[1])
		return fmt.Sprintf("s%d", n)
	}
	if m := reMeta.FindStringSubmatch(base); m != nil {
		n, _ := strconv.Atoi(m[1])
		return fmt.Sprintf("m%d", n)
	}
	if reComp.MatchString(base) {
		return "cs"
	}
	if reCMeta.MatchString(base) {
		return "cm"
	}
	if strings.HasSuffix(base, ".tmp") {
		if k, ok := temps[base]; ok {
			return fmt.Sprintf("t%d", k)
		}
		return "t?"
	}
	return ""
}

func must(err error) {
	if err != nil {
		panic(err)
	}
}

func copyDir(src, dst string) {
	must(os.MkdirAll(dst, 0o755))
	es, err := os.ReadDir(src)
	must(err)
	for _, e := range es {
		b, err := os.ReadFile(filepath.Join(src, e.Name()))
		if err != nil {
			continue
		}
		must(os.WriteFile(filepath.Join(dst, e.Name()), b, 0o644))
	}
}

type tstep struct {
	delta   bool
	nshards int // full: number of shards; delta: number of new shards
	changed int // delta: number of old documents changed (re-added) or removed
}

func buildTemplate(root string, r *gen.Rand, key string, steps []tstep, compound, compMeta bool) *template {
	t := &template{Key: key, Dir: filepath.Join(root, "tpl-"+key), Docs: map[string]string{}, Tokens: map[string]string{}, Compound: compound, CompMeta: compMeta}
	must(os.MkdirAll(t.Dir, 0o755))
	for _, st := range steps {
		g := nextGen()
		sp := f1util.BuildSpec{Dir: t.Dir, RepoName: repoName, RepoID: repoID, Gen: g, Delta: st.delta, ShardMax: shardMax}
		if !st.delta {
			t.Docs = map[string]string{}
			sp.Docs = fullDocs(r, g, st.nshards)
		} else {
			sp.Docs, sp.Changed = deltaDocs(r, t.Docs, g, st.nshards, st.changed)
		}
		must(f1util.RunBuild(sp))
		applyDocs(t.Docs, sp)
		t.Gen = g
	}
	if compound {
		// a second repository, then merge both simple shards into one compound shard
		g := nextGen()
		var docs []f1util.Doc
		for _, n := range []string{"o/a.go", "o/b.go"} {
			docs = append(docs, mkDoc(r, n, g))
		}
		must(f1util.RunBuild(f1util.BuildSpec{Dir: t.Dir, RepoName: otherName, RepoID: otherID, Gen: g, ShardMax: 1 << 20, Docs: docs}))
		var files []index.IndexFile
		var names []string
		es, _ := os.ReadDir(t.Dir)
		for _, e := range es {
			if strings.HasSuffix(e.Name(), ".zoekt") {
				f, err := os.Open(filepath.Join(t.Dir, e.Name()))
				must(err)
				inf, err := index.NewIndexFile(f)
				must(err)
				files = append(files, inf)
				names = append(names, filepath.Join(t.Dir, e.Name()))
			}
		}
		tmp, dst, err := index.Merge(t.Dir, files...)
		must(err)
		must(os.Rename(tmp, dst))
		for _, f := range files {
			f.Close()
		}
		for _, n := range names {
			must(os.Remove(n))
		}
		if compMeta {
			must(index.SetTombstone(dst, otherID))
			must(index.UnsetTombstone(dst, otherID))
		}
	}
	es, _ := os.ReadDir(t.Dir)
	maxShard := -1
	metas := map[int]bool{}
	for _, e := range es {
		tok := pathToken(e.Name(), nil)
		h := sha(filepath.Join(t.Dir, e.Name()))
		switch {
		case strings.HasPrefix(tok, "s"):
			n, _ := strconv.Atoi(tok[1:])
			t.Tokens[h] = fmt.Sprintf("O%d", n)
			if n > maxShard {
				maxShard = n
			}
		case strings.HasPrefix(tok, "m"):
			n, _ := strconv.Atoi(tok[1:])
			t.Tokens[h] = "om"
			metas[n] = true
		case tok == "cs":
			t.Tokens[h] = "co"
		case tok == "cm":
			t.Tokens[h] = "ca"
		default:
			panic("template has unexpected file " + e.Name())
		}
	}
	t.NOld = maxShard + 1
	for i := 0; i < t.NOld; i++ {
		t.OldMeta = append(t.OldMeta, metas[i])
	}
	return t
}

// deltaDocs picks the documents of a delta run: `changed` old documents are changed (re-added with new content) or
// removed, and new documents are added until the run writes `nshards` shards.
func deltaDocs(r *gen.Rand, old map[string]string, g, nshards, changed int) (docs []f1util.Doc, changedNames []string) {
	var names []string
	for n := range old {
		names = append(names, n)
	}
	sort.Strings(names)
	gen.Shuffle(r, names)
	for i := 0; i < changed && i < len(names); i++ {
		changedNames = append(changedNames, names[i])
		if nshards > 0 && (i == 0 || r.Bool()) {
			docs = append(docs, mkDoc(r, names[i], g)) // changed; otherwise removed
		}
	}
	for i := 0; len(f1util.PredictShards(docs, shardMax, true)) < nshards || (nshards > 0 && len(docs) == 0); i++ {
		docs = append(docs, mkDoc(r, fmt.Sprintf("n%d/new%d.go", g, i), g))
	}
	if nshards == 0 {
		docs = nil
	}
	return docs, changedNames
}

func applyDocs(vis map[string]string, sp f1util.BuildSpec) {
	if !sp.Delta {
		for k := range vis {
			delete(vis, k)
		}
	}
	for _, c := range sp.Changed {
		delete(vis, c)
	}
	for _, d := range sp.Docs {
		vis[d.Name] = d.Content
	}
}

// ---------------------------------------------------------------- scenarios

type caseSpec struct {
	Template     string
	Delta        bool
	ShardMerging bool
	NShards      int // shards the run should write
	Changed      int // delta: documents changed/removed
	Seed         uint64
	Mode         string // stop | fault | kill | failat
	KillAt       int    // kill: SIGKILL on entering the KillAt-th rename/unlink
	RenameFailAt int    // failat: the RenameFailAt-th rename fails (one-shot child)
	UnlinkFailAt int    // failat: the UnlinkFailAt-th unlink fails
	// history: before this run, another (larger) indexing run for the same repository was SIGKILLed on entering its first
	// rename, i.e. after it had written all its temp files: 1 = its temp files are left behind complete, 2 = they are
	// left behind cut short (what a kill in the middle of writing them leaves)
	PriorKill int
	// Meta: the run under test is the metadata-only update (mergeMeta of cmd/zoekt-sourcegraph-indexserver, through its
	// verif driver) instead of a build: it merges a new RawConfig priority into every shard's sidecar
	Meta bool
	// FsizeLimit > 0 (mode wfault): the run executes under RLIMIT_FSIZE: a write that would grow a file beyond it fails
	FsizeLimit uint64
	// WriteKillAt > 0 (mode wkill): a fresh child is SIGKILLed on entering its WriteKillAt-th write(2)
	WriteKillAt int
	// Pad: number of long removed paths reported to a delta run, which makes its sidecars larger than its shards
	Pad int
}

type scenario struct {
	cs       caseSpec
	tpl      *template
	spec     f1util.BuildSpec
	nNew     int
	newParts [][]f1util.Doc
	oldSet   map[string]int // name\x00content\x00version -> count, as a searcher should see the old index
	newSet   map[string]int
	idCache  map[string]string
	leftover map[string]string // *.tmp files a killed earlier run left behind: name -> sha256
	metaPrio float64           // Meta: the priority the update merges into the metadata (old: 0)
}

func docKey(name, content, version string) string { return name + "\x00" + content + "\x00" + version }

func mkScenario(cs caseSpec, tpls map[string]*template, dir string, g int) *scenario {
	t := tpls[cs.Template]
	if t == nil {
		panic("unknown template " + cs.Template)
	}
	r := gen.NewRand(cs.Seed)
	sc := &scenario{cs: cs, tpl: t, idCache: map[string]string{}}
	sc.spec = f1util.BuildSpec{Dir: dir, RepoName: repoName, RepoID: repoID, Gen: g, Delta: cs.Delta, ShardMerging: cs.ShardMerging, ShardMax: shardMax}
	if cs.Meta {
		sc.cs.Delta, cs.Delta = true, true // in the model a metadata-only update is a delta run that writes no shard
		sc.spec.Delta = true
		sc.metaPrio = float64(g)
	} else if cs.Delta {
		sc.spec.Docs, sc.spec.Changed = deltaDocs(r, t.Docs, g, cs.NShards, cs.Changed)
		for i := 0; i < cs.Pad; i++ {
			sc.spec.Changed = append(sc.spec.Changed, fmt.Sprintf("removed/long/path/number/%04d/of/a/file/that/is/gone/now.go", i))
		}
	} else {
		n := cs.NShards
		if n < 1 {
			n = 1
		}
		sc.spec.Docs = fullDocs(r, g, n)
	}
	hasShard := cs.Delta && t.NOld > 0
	sc.newParts = f1util.PredictShards(sc.spec.Docs, shardMax, hasShard)
	sc.nNew = len(sc.newParts)
	sc.oldSet = map[string]int{}
	for n, c := range t.Docs {
		sc.oldSet[docKey(n, c, f1util.Version(t.Gen))]++
	}
	vis := map[string]string{}
	for k, v := range t.Docs {
		vis[k] = v
	}
	applyDocs(vis, sc.spec)
	sc.newSet = map[string]int{}
	for n, c := range vis {
		sc.newSet[docKey(n, c, f1util.Version(g))]++
	}
	if cs.Meta {
		sc.nNew = 0
		sc.newParts = nil
		sc.newSet = sc.oldSet // documents and branch versions do not change
	}
	return sc
}

func (sc *scenario) nSide() int {
	if sc.cs.Delta {
		return sc.tpl.NOld
	}
	return 0
}
func (sc *scenario) base() int {
	if sc.cs.Delta {
		return sc.tpl.NOld
	}
	return 0
}

func (sc *scenario) anyMeta() bool {
	for _, b := range sc.tpl.OldMeta {
		if b {
			return true
		}
	}
	return sc.tpl.CompMeta
}

// descr / atomic: the same classification as Spec.lean (keys of failing cases must agree between the two oracles)
func (sc *scenario) descr() string {
	k := "full"
	if sc.tpl.Compound {
		k = "compound-nomerge"
		if sc.cs.ShardMerging {
			k = "compound"
		}
	} else if sc.cs.Delta {
		k = "delta"
	}
	s := fmt.Sprintf("%s:%dto%d", k, sc.tpl.NOld, sc.nNew)
	if sc.anyMeta() {
		s += "+meta"
	}
	return s
}

func (sc *scenario) atomic() bool {
	if sc.tpl.Compound {
		return false
	}
	if !sc.cs.Delta {
		return sc.nNew == 1 && (sc.tpl.NOld == 0 || (sc.tpl.NOld == 1 && !sc.tpl.OldMeta[0]))
	}
	return sc.nNew+sc.tpl.NOld == 1
}

func bits(bs []bool) string {
	if len(bs) == 0 {
		return "-"
	}
	s := ""
	for _, b := range bs {
		if b {
			s += "1"
		} else {
			s += "0"
		}
	}
	return s
}

func b01(b bool) string {
	if b {
		return "1"
	}
	return "0"
}

// ---------------------------------------------------------------- observing a directory

// identify returns the content token of a file.
func (sc *scenario) identify(path string, isSidecar bool, scratch string) string {
	h := sha(path)
	if tok, ok := sc.tpl.Tokens[h]; ok {
		return tok
	}
	if tok, ok := sc.idCache[h]; ok {
		return tok
	}
	tok := "xx"
	if isSidecar {
		tok = sc.identifySidecar(path)
	} else {
		tok = sc.identifyShard(path, scratch)
	}
	sc.idCache[h] = tok
	return tok
}

func (sc *scenario) identifySidecar(path string) string {
	b, err := os.ReadFile(path)
	if err != nil || len(b) == 0 {
		return "pt"
	}
	var one zoekt.Repository
	if err := json.Unmarshal(b, &one); err == nil && one.Name != "" {
		if sc.cs.Meta {
			if one.ID == repoID && one.RawConfig["priority"] == strconv.Itoa(int(sc.metaPrio)) {
				return "nm"
			}
			return "xx"
		}
		if len(one.Branches) == 1 && one.Branches[0].Version == f1util.Version(sc.spec.Gen) && one.ID == repoID {
			// the run's sidecar must tombstone exactly the changed paths (on top of earlier tombstones)
			for _, c := range sc.spec.Changed {
				if _, ok := one.FileTombstones[c]; !ok {
					return "xx"
				}
			}
			return "nm"
		}
		return "xx"
	}
	var many []*zoekt.Repository
	if err := json.Unmarshal(b, &many); err == nil {
		for _, r := range many {
			if r.ID == repoID {
				if r.Tombstone {
					return "ct"
				}
				return "ca"
			}
		}
		return "xx"
	}
	return "pt"
}

func (sc *scenario) identifyShard(path string, scratch string) string {
	os.MkdirAll(scratch, 0o755)
	probe := filepath.Join(scratch, "probe_v16.00000.zoekt")
	b, err := os.ReadFile(path)
	if err != nil {
		return "pt"
	}
	must(os.WriteFile(probe, b, 0o644))
	defer os.Remove(probe)
	f, err := os.Open(probe)
	if err != nil {
		return "pt"
	}
	inf, err := index.NewIndexFile(f)
	if err != nil {
		f.Close()
		return "pt"
	}
	s, err := index.NewSearcher(inf)
	if err != nil {
		inf.Close()
		return "pt"
	}
	defer s.Close()
	res, err := s.Search(context.Background(), &query.Const{Value: true}, &zoekt.SearchOptions{Whole: true})
	if err != nil {
		return "pt"
	}
	got := map[string]bool{}
	for _, fm := range res.Files {
		got[fm.FileName+"\x00"+string(fm.Content)+"\x00"+fm.Version] = true
	}
	for j, part := range sc.newParts {
		if len(part) != len(got) {
			continue
		}
		all := true
		for _, d := range part {
			if !got[d.Name+"\x00"+d.Content+"\x00"+f1util.Version(sc.spec.Gen)] {
				all = false
			}
		}
		if all {
			return fmt.Sprintf("N%d", sc.base()+j)
		}
	}
	return "xx"
}

type entry struct {
	kind int // 0 shard 1 meta 2 tmp 3 cs 4 cm
	n    int
	s    string
}

// listing renders the directory in the model's notation.
func (sc *scenario) listing(dir string, temps map[string]int, scratch string) (string, string) {
	es, err := os.ReadDir(dir)
	must(err)
	var out []entry
	problem := ""
	for _, e := range es {
		if h, ok := sc.leftover[e.Name()]; ok {
			if _, mine := temps[e.Name()]; !mine {
				// debris of the killed earlier run that this run did not create anew: must be left alone
				if sha(filepath.Join(dir, e.Name())) != h {
					problem = "the run modified a temp file left behind by a killed earlier run: " + e.Name()
				}
				continue
			}
		}
		tok := pathToken(e.Name(), temps)
		if tok == "" || tok == "t?" {
			problem = "unexpected file " + e.Name()
			continue
		}
		isSide := strings.Contains(e.Name(), ".zoekt.meta")
		c := sc.identify(filepath.Join(dir, e.Name()), isSide, scratch)
		en := entry{s: tok + "=" + c}
		switch tok[0] {
		case 's':
			en.kind = 0
			en.n, _ = strconv.Atoi(tok[1:])
		case 'm':
			en.kind = 1
			en.n, _ = strconv.Atoi(tok[1:])
		case 't':
			en.kind = 2
			en.n, _ = strconv.Atoi(tok[1:])
		case 'c':
			en.kind = 3
			if tok == "cm" {
				en.kind = 4
			}
		}
		out = append(out, en)
	}
	sort.Slice(out, func(i, j int) bool {
		if out[i].kind != out[j].kind {
			return out[i].kind < out[j].kind
		}
		return out[i].n < out[j].n
	})
	if len(out) == 0 {
		return "-", problem
	}
	var ss []string
	for _, e := range out {
		ss = append(ss, e.s)
	}
	return strings.Join(ss, ";"), problem
}

// view loads the directory the way zoekt-webserver does and reports what a searcher sees of the repository:
// "old", "new" or "mix" (+ why).  Oracle: the expectation tables of the scenario; no code shared with zoekt.
func (sc *scenario) view(dir string) (string, string) {
	ss, err := search.NewDirectorySearcher(dir)
	if err != nil {
		return "mix", "NewDirectorySearcher: " + err.Error()
	}
	defer ss.Close()
	ctx := context.Background()
	res, err := ss.Search(ctx, &query.Substring{Pattern: token, Content: true}, &zoekt.SearchOptions{Whole: true})
	if err != nil {
		return "mix", "Search: " + err.Error()
	}
	got := map[string]int{}
	prios := map[float64]int{} // FileMatch.RepositoryPriority comes from the (sidecar-first) metadata of the file's shard
	others := 0
	for _, fm := range res.Files {
		if fm.Repository == repoName {
			got[docKey(fm.FileName, string(fm.Content), fm.Version)]++
			prios[fm.RepositoryPriority]++
		} else {
			others++
		}
	}
	rl, err := ss.List(ctx, &query.Const{Value: true}, nil)
	if err != nil {
		return "mix", "List: " + err.Error()
	}
	versions := map[string]int{}
	listPrio := map[float64]int{}
	for _, e := range rl.Repos {
		if e.Repository.Name == repoName {
			for _, b := range e.Repository.Branches {
				versions[b.Version]++
			}
			p, _ := strconv.ParseFloat(e.Repository.RawConfig["priority"], 64)
			listPrio[p]++
		}
	}
	same := func(a, b map[string]int) bool {
		if len(a) != len(b) {
			return false
		}
		for k, v := range a {
			if b[k] != v {
				return false
			}
		}
		return true
	}
	// the repository is listed (once, with the generation's branch version) exactly when the index has a shard for it,
	// even if every document of that shard is tombstoned
	onlyVersion := func(g int, hasShards bool) bool {
		if !hasShards {
			return len(versions) == 0
		}
		return len(versions) == 1 && versions[f1util.Version(g)] > 0
	}
	oldHas := sc.tpl.NOld > 0 || sc.tpl.Compound
	newHas := sc.nNew > 0 || (sc.cs.Delta && sc.tpl.NOld > 0)
	if sc.cs.Meta {
		// a metadata-only update: documents and versions stay, every file is served with the old (0) or the new priority
		if sc.tpl.Compound && others == 0 {
			return "mix", "missing: the other repository of the compound shard is gone too"
		}
		if len(sc.oldSet) == 0 {
			prios = listPrio // no searchable file to carry the priority: the listing still shows the metadata
		}
		if same(got, sc.oldSet) && onlyVersion(sc.tpl.Gen, oldHas) && len(prios) == 1 {
			if prios[sc.metaPrio] > 0 {
				return "new", ""
			}
			if prios[0] > 0 {
				return "old", ""
			}
		}
		why := fmt.Sprintf("searcher sees %d file(s) with priorities %v, listed versions %v; the index has %d file(s), old priority 0, new priority %v", len(got), prios, versions, len(sc.oldSet), sc.metaPrio)
		if len(got) == 0 && len(sc.oldSet) > 0 {
			return "mix", "missing: " + why
		}
		return "mix", why
	}
	if same(got, sc.newSet) && onlyVersion(sc.spec.Gen, newHas) {
		return "new", ""
	}
	if same(got, sc.oldSet) && onlyVersion(sc.tpl.Gen, oldHas) {
		return "old", ""
	}
	why := fmt.Sprintf("searcher sees %d file(s), listed versions %v; old index has %d, new index has %d", len(got), versions, len(sc.oldSet), len(sc.newSet))
	if len(got) == 0 && len(versions) == 0 && len(sc.oldSet) > 0 && len(sc.newSet) > 0 {
		return "mix", "missing: " + why
	}
	return "mix", why
}

// ---------------------------------------------------------------- from observed operations to the model's input

type observed struct {
	ops     []f1util.FsOp // mutations inside the scenario directory, rmdir folded away
	temps   map[string]int
	inPlace []string // visible (non-temporary) files the run opened with O_CREAT/O_TRUNC
}

func (sc *scenario) filterOps(all []f1util.FsOp) observed {
	o := observed{temps: map[string]int{}}
	dir := sc.spec.Dir + string(os.PathSeparator)
	for _, op := range all {
		if !strings.HasPrefix(op.Src, dir) && !strings.HasPrefix(op.Dst, dir) {
			continue
		}
		switch op.Kind {
		case "create":
			b := filepath.Base(op.Src)
			if !strings.HasSuffix(b, ".tmp") {
				// a file with a visible name opened for writing in place: never part of a temp-then-rename protocol
				o.inPlace = append(o.inPlace, b)
				continue
			}
			if _, ok := o.temps[b]; !ok {
				o.temps[b] = len(o.temps)
			}
		case "rmdir":
			continue // os.Remove's second attempt after a failed unlink
		case "remove":
			if !op.OK && !op.Inj && op.Err == "ENOENT" && strings.HasSuffix(op.Src, ".tmp") {
				continue // best-effort cleanup of a temp file that has already been renamed away: a no-op
			}
		}
		o.ops = append(o.ops, op)
	}
	return o
}

func isRU(op f1util.FsOp) bool { return op.Kind == "rename" || op.Kind == "remove" }

// opsString renders the first k rename/unlink operations (and the creations before them); k < 0 = all.
func (o observed) opsString(k int) string {
	var out []string
	n := 0
	for _, op := range o.ops {
		if k >= 0 && isRU(op) && n >= k {
			break
		}
		ok := "+"
		if !op.OK {
			ok = "!"
		}
		switch op.Kind {
		case "create":
			out = append(out, "c:"+pathToken(filepath.Base(op.Src), o.temps))
		case "rename":
			out = append(out, "r:"+pathToken(filepath.Base(op.Src), o.temps)+">"+pathToken(filepath.Base(op.Dst), o.temps)+ok)
			n++
		case "remove":
			out = append(out, "u:"+pathToken(filepath.Base(op.Src), o.temps)+ok)
			n++
		}
		if k > 0 && n >= k {
			break
		}
	}
	if len(out) == 0 {
		return "-"
	}
	return strings.Join(out, ",")
}

// orders derives the iteration orders and the failing ticks the model needs from the observed operations,
// completing them canonically where the run did not get that far (killed runs).
func (sc *scenario) orders(o observed) (ro, dord, fails string) {
	var roL, doL, fl []string
	seenRo := map[string]bool{}
	seenDo := map[string]bool{}
	tick := 0
	tomb := sc.tpl.Compound && sc.cs.ShardMerging
	if tomb && sc.tpl.CompMeta {
		doL = append(doL, "cm") // skipped by Finish without any system call
		seenDo["cm"] = true
	}
	for _, op := range o.ops {
		switch op.Kind {
		case "rename":
			dst := pathToken(filepath.Base(op.Dst), o.temps)
			if tomb && dst == "cm" {
				doL = append(doL, "cs") // SetTombstone(compound shard)
				seenDo["cs"] = true
			} else {
				roL = append(roL, dst)
				seenRo[dst] = true
			}
			if !op.OK {
				fl = append(fl, strconv.Itoa(tick))
			}
			tick++
		case "remove":
			p := pathToken(filepath.Base(op.Src), o.temps)
			if strings.HasPrefix(p, "t") {
				// setTombstone's cleanup of its temp file after a failed rename: not a toDelete entry, but it can fail too
				if !op.OK {
					fl = append(fl, strconv.Itoa(tick))
				}
				tick++
				continue
			}
			doL = append(doL, p)
			seenDo[p] = true
			if !op.OK {
				fl = append(fl, strconv.Itoa(tick))
			}
			tick++
		}
	}
	// canonical completion
	var arts []string
	for j := 0; j < sc.nNew; j++ {
		arts = append(arts, fmt.Sprintf("s%d", sc.base()+j))
	}
	for i := 0; i < sc.nSide(); i++ {
		arts = append(arts, fmt.Sprintf("m%d", i))
	}
	isArt := map[string]bool{}
	for _, a := range arts {
		isArt[a] = true
		if !seenRo[a] {
			roL = append(roL, a)
		}
	}
	if !sc.cs.Delta && len(arts) > 0 {
		var td []string
		if sc.tpl.Compound {
			td = append(td, "cs")
			if sc.tpl.CompMeta {
				td = append(td, "cm")
			}
		} else {
			for i := 0; i < sc.tpl.NOld; i++ {
				td = append(td, fmt.Sprintf("s%d", i))
				if sc.tpl.OldMeta[i] {
					td = append(td, fmt.Sprintf("m%d", i))
				}
			}
		}
		for _, p := range td {
			if !isArt[p] && !seenDo[p] {
				doL = append(doL, p)
			}
		}
	}
	j := func(x []string) string {
		if len(x) == 0 {
			return "-"
		}
		return strings.Join(x, ",")
	}
	return j(roL), j(doL), j(fl)
}

func (sc *scenario) inLine(o observed, k string, e2e string) string {
	ro, dord, fails := sc.orders(o)
	return fmt.Sprintf("run %s %s %s %s %d %s %s %s %s %s %s", b01(sc.cs.Delta), b01(sc.tpl.Compound), b01(sc.tpl.CompMeta),
		b01(sc.cs.ShardMerging), sc.nNew, bits(sc.tpl.OldMeta), ro, dord, fails, k, e2e)
}

// ---------------------------------------------------------------- running scenarios

// sink buffers the cases of one scenario (scenarios run in parallel, cases are written in scenario order)
type sink struct {
	cases  []gen.Case
	counts map[string]int
}

func (s *sink) Emit(c gen.Case) { s.cases = append(s.cases, c) }
func (s *sink) Count(k string, n int) {
	if s.counts == nil {
		s.counts = map[string]int{}
	}
	s.counts[k] += n
}

type runner struct {
	w       *sink
	root    string
	tpls    map[string]*template
	self    string
	nextDir int // index of the scenario being run
	worker  int
	stop    *f1util.Session
	fault   *f1util.Session
	ixsBin  string                     // cmd/zoekt-sourcegraph-indexserver built with -tags verif (mergeMeta driver)
	sess    map[string]*f1util.Session // long-lived children of this worker, by kind
}

// session returns this worker's long-lived child of the given kind, starting it on first use:
// stop/fault/trace run the harness's own builder child, mstop/mtrace the indexserver's mergeMeta driver.
func (rn *runner) session(kind string) *f1util.Session {
	if s := rn.sess[kind]; s != nil {
		return s
	}
	mode := f1util.Mode{}
	switch kind {
	case "stop", "mstop":
		mode.StopAtMutations = true
	case "fault":
		mode.RenameFail, mode.UnlinkFail = "2+3", "2+5"
	}
	bin, args, env := rn.self, []string{"child"}, []string(nil)
	if strings.HasPrefix(kind, "m") {
		bin, args, env = rn.ixsBin, nil, []string{"ZOEKT_VERIF_DRIVER=c12"}
	}
	s, err := f1util.Start(mode, filepath.Join(rn.root, fmt.Sprintf("%s%d.log", kind, rn.worker)), env, bin, args...)
	must(err)
	if rn.sess == nil {
		rn.sess = map[string]*f1util.Session{}
	}
	rn.sess[kind] = s
	return s
}

// request: the line sent to the child for the run under test
func (sc *scenario) request() string {
	if sc.cs.Meta {
		b, _ := json.Marshal(map[string]any{"Dir": sc.spec.Dir, "RepoName": repoName, "RepoID": repoID,
			"Version": f1util.Version(sc.tpl.Gen), "RawConfig": map[string]string{"priority": strconv.Itoa(int(sc.metaPrio))},
			"FsizeLimit": sc.spec.FsizeLimit})
		return string(b)
	}
	b, _ := json.Marshal(sc.spec)
	return string(b)
}

// modelled: does the Lean model cover the scenario?  (a metadata-only update of a compound shard is a "delta run on a
// compound shard", which the model of Finish excludes: those runs are judged by the Go oracle alone)
func (sc *scenario) modelled() bool { return !(sc.cs.Meta && sc.tpl.Compound) }

// emitObs: an observation that is outside the model's traces (kill inside a file write, failing write, update of a
// compound shard's sidecar): the property is evaluated on it by checkP (driver op `obs`) and by the Go oracle.
func (rn *runner) emitObs(sc *scenario, o observed, dir string, isEnd bool, res string, faulted bool, class string, k int) {
	lst, problem := sc.listing(dir, o.temps, filepath.Join(rn.root, fmt.Sprintf("scratch%d", rn.worker)))
	view, why := sc.view(dir)
	c := gen.Case{Class: class + ":" + sc.descr(), Nontrivial: true}
	if sc.modelled() {
		c.In = fmt.Sprintf("obs %s %s %s %s %d %s %s %s %s %s %s", b01(sc.cs.Delta), b01(sc.tpl.Compound), b01(sc.tpl.CompMeta),
			b01(sc.cs.ShardMerging), sc.nNew, bits(sc.tpl.OldMeta), b01(isEnd), b01(res == "ok"), b01(faulted), lst, view)
		c.Impl = "obs"
	}
	cs := sc.cs
	c.Detail = gen.Detail(map[string]any{"spec": cs, "k": k, "why": why, "res": res, "dir": lst, "ops": o.opsString(-1)})
	c.Go, c.Key = sc.oracle(o, lst, problem, view, why, isEnd, res, faulted)
	rn.w.Emit(c)
	rn.w.Count("view:"+view, 1)
}

func (rn *runner) freshDir() string {
	d := filepath.Join(rn.root, fmt.Sprintf("run%04d", rn.nextDir))
	must(os.MkdirAll(d, 0o755))
	return d
}

// emit writes one case: an observation (directory `dir`, after `k` renames/unlinks or at the end) of scenario sc.
func (rn *runner) emit(sc *scenario, o observed, dir string, k int, isEnd bool, res string, faulted bool, mode string) {
	kk := strconv.Itoa(k)
	opsK := k
	if isEnd {
		kk = "end"
		opsK = -1
	}
	lst, problem := sc.listing(dir, o.temps, filepath.Join(rn.root, fmt.Sprintf("scratch%d", rn.worker)))
	view, why := sc.view(dir)
	c := gen.Case{
		In:    sc.inLine(o, kk, view),
		Impl:  fmt.Sprintf("ops=%s res=%s dir=%s", o.opsString(opsK), res, lst),
		Class: mode + ":" + sc.descr(),
	}
	cs := sc.cs
	cs.Mode = mode
	c.Detail = gen.Detail(map[string]any{"spec": cs, "k": kk, "why": why, "changed": sc.spec.Changed, "ndocs": len(sc.spec.Docs)})
	c.Go, c.Key = sc.oracle(o, lst, problem, view, why, isEnd, res, faulted)
	c.Nontrivial = !isEnd && k > 0 || faulted
	rn.w.Emit(c)
	rn.w.Count("view:"+view, 1)
}

// oracle: the Go-side verdict on one observation ("" = fine) and its failure class.  Order matters: an unloadable or
// truncated visible file and a false success are reported under their own keys, never as an old/new mixture.
func (sc *scenario) oracle(o observed, lst, problem, view, why string, isEnd bool, res string, faulted bool) (string, string) {
	at := "nonatomic:"
	if sc.atomic() {
		at = "atomic:"
	}
	trunc := ""
	for _, e := range strings.Split(lst, ";") {
		if !strings.HasPrefix(e, "t") && (strings.HasSuffix(e, "=pt") || strings.HasSuffix(e, "=xx")) {
			trunc = e
		}
	}
	switch {
	case problem != "":
		return problem, "unexpected-file:" + sc.descr()
	case len(o.inPlace) > 0:
		return "the run wrote the visible file " + o.inPlace[0] + " in place (no temp file + rename)", "in-place-write:" + sc.descr()
	case trunc != "":
		return "a visible file is truncated or unreadable: " + trunc, "truncated:" + sc.descr()
	case isEnd && res == "ok" && view != "new":
		return "the run returned nil but the searcher does not see the new index: " + why, "false-success:" + sc.descr()
	case isEnd && res == "err" && !faulted && view != "old" && view != "new":
		return "the run failed and left neither the old nor the new index: " + why, "fault-mix:" + at + sc.descr()
	case view == "mix" && strings.HasPrefix(why, "missing"):
		return why, "missing:" + sc.descr()
	case view == "mix" && isEnd && faulted:
		return why, "fault-mix:" + at + sc.descr()
	case view == "mix":
		return why, "crash-mix:" + at + sc.descr()
	}
	return "", ""
}

func errOf(reply string) string {
	var r struct{ Err string }
	json.Unmarshal([]byte(reply), &r)
	if r.Err == "" {
		return "ok"
	}
	return "err"
}

// prepare sets up the index directory of a scenario: the old index (template) and, for the kill-then-retry histories,
// the debris of an earlier, larger indexing run of the same repository that was really SIGKILLed (fresh child under
// strace) on entering its first rename.
func (rn *runner) prepare(cs caseSpec, dir string) *scenario {
	t := rn.tpls[cs.Template]
	copyDir(t.Dir, dir)
	sc := mkScenario(cs, rn.tpls, dir, 1000+rn.nextDir)
	if cs.PriorKill == 0 {
		return sc
	}
	r := gen.NewRand(cs.Seed ^ 0x5eed)
	g := 5000 + rn.nextDir
	prior := f1util.BuildSpec{Dir: dir, RepoName: repoName, RepoID: repoID, Gen: g, ShardMerging: cs.ShardMerging, ShardMax: 4 * shardMax}
	// several shards, each a few times the size of a shard of the run under test
	for i := 0; len(f1util.PredictShards(prior.Docs, prior.ShardMax, false)) < 3; i++ {
		prior.Docs = append(prior.Docs, mkDoc(r, fmt.Sprintf("big%d/killed%d.go", i%3, i), g))
	}
	s, err := f1util.Start(f1util.Mode{KillAt: 1}, filepath.Join(rn.root, fmt.Sprintf("prior%04d.log", rn.nextDir)), nil, rn.self, "child")
	must(err)
	req, _ := json.Marshal(prior)
	_, _, died, err := s.Do(string(req), nil)
	must(err)
	s.Close()
	if !died {
		panic("the earlier run was not killed")
	}
	sc.leftover = map[string]string{}
	es, _ := os.ReadDir(dir)
	for _, e := range es {
		p := filepath.Join(dir, e.Name())
		if strings.HasSuffix(e.Name(), ".tmp") {
			if cs.PriorKill == 2 {
				if fi, err := os.Stat(p); err == nil && fi.Size() > 8 {
					must(os.Truncate(p, fi.Size()*int64(30+r.Intn(65))/100))
				}
			}
			sc.leftover[e.Name()] = sha(p)
		} else if _, ok := t.Tokens[sha(p)]; !ok {
			panic("the killed earlier run changed " + e.Name())
		}
	}
	if len(sc.leftover) == 0 {
		panic("the killed earlier run left no temp file behind")
	}
	rn.w.Count("history:retry-after-killed-run", 1)
	rn.w.Count("history:leftover-temp-files", len(sc.leftover))
	return sc
}

// runStop: one build in the stop session; every rename/unlink yields a snapshot = a crash state.
func (rn *runner) runStop(cs caseSpec) {
	dir := rn.freshDir()
	sc := rn.prepare(cs, dir)
	kind := "stop"
	if cs.Meta {
		kind = "mstop"
		rn.w.Count("metadata-only-updates", 1)
	}
	var snaps []string
	var snapOps [][]f1util.FsOp
	reply, ops, died, err := rn.session(kind).Do(sc.request(), func(sofar []f1util.FsOp) {
		s := fmt.Sprintf("%s.snap%d", dir, len(snaps))
		copyDir(dir, s)
		snaps = append(snaps, s)
		snapOps = append(snapOps, append([]f1util.FsOp(nil), sofar...))
	})
	if err != nil || died {
		panic(fmt.Sprintf("stop session broke: %v died=%v", err, died))
	}
	o := sc.filterOps(ops)
	for i, s := range snaps {
		oi := sc.filterOps(snapOps[i])
		oi.temps = o.temps
		k := 0
		for _, op := range oi.ops {
			if isRU(op) {
				k++
			}
		}
		if sc.modelled() {
			rn.emitPrefix(sc, o, oi, s, k)
		} else {
			rn.emitObs(sc, oi, s, false, "-", false, "crash", k)
			rn.w.Count("crash-points", 1)
		}
		os.RemoveAll(s)
	}
	if sc.modelled() {
		rn.emit(sc, o, dir, 0, true, errOf(reply), false, "stop")
	} else {
		rn.emitObs(sc, o, dir, true, errOf(reply), false, "stop", 0)
	}
	os.RemoveAll(dir)
}

// runWFault: the run executes under a file-size limit (RLIMIT_FSIZE in the child): the write that would grow a file
// beyond it fails with EFBIG after a partial write — shard temp files, sidecar temp files, whatever the limit hits.
func (rn *runner) runWFault(cs caseSpec) {
	dir := rn.freshDir()
	sc := rn.prepare(cs, dir)
	sc.spec.FsizeLimit = cs.FsizeLimit
	kind := "trace"
	if cs.Meta {
		kind = "mtrace"
		rn.w.Count("metadata-only-updates", 1)
	}
	reply, ops, died, err := rn.session(kind).Do(sc.request(), nil)
	if err != nil || died {
		panic(fmt.Sprintf("%s session broke: %v died=%v", kind, err, died))
	}
	o := sc.filterOps(ops)
	res := errOf(reply)
	renames := 0
	for _, op := range o.ops {
		if op.Kind == "rename" {
			renames++
		}
	}
	switch {
	case res == "ok" && sc.modelled():
		// the limit was not reached (or the failure went unnoticed): an ordinary complete run
		rn.w.Count("write-fault:not-hit", 1)
		rn.emit(sc, o, dir, 0, true, res, false, "wfault")
	case res == "err" && renames == 0 && !cs.Meta && len(o.temps) > 0:
		// a temp-file write failed before anything was installed: the model's writeFailOps
		j := len(o.temps) - 1
		if j < sc.nNew {
			rn.w.Count("write-fault:shard-temp", 1)
		} else {
			rn.w.Count("write-fault:sidecar-temp", 1)
		}
		var creates, removes []string
		for _, op := range o.ops {
			tok := pathToken(filepath.Base(op.Src), o.temps)
			if op.Kind == "create" {
				creates = append(creates, "c:"+tok)
			} else if op.Kind == "remove" {
				mark := "+"
				if !op.OK {
					mark = "!"
				}
				removes = append(removes, "u:"+tok+mark)
			}
		}
		sort.Slice(removes, func(a, b int) bool { // Finish removes its temp files in map order
			x, _ := strconv.Atoi(strings.Trim(removes[a], "u:t+!"))
			y, _ := strconv.Atoi(strings.Trim(removes[b], "u:t+!"))
			return x < y
		})
		lst, problem := sc.listing(dir, o.temps, filepath.Join(rn.root, fmt.Sprintf("scratch%d", rn.worker)))
		view, why := sc.view(dir)
		c := gen.Case{
			In:    fmt.Sprintf("wfail %s %s %s %s %d %s %d %s", b01(sc.cs.Delta), b01(sc.tpl.Compound), b01(sc.tpl.CompMeta), b01(sc.cs.ShardMerging), sc.nNew, bits(sc.tpl.OldMeta), j, view),
			Impl:  fmt.Sprintf("ops=%s res=%s dir=%s", strings.Join(append(creates, removes...), ","), res, lst),
			Class: "wfault:" + sc.descr(), Nontrivial: true,
			Detail: gen.Detail(map[string]any{"spec": cs, "why": why, "j": j}),
		}
		c.Go, c.Key = sc.oracle(o, lst, problem, view, why, true, res, true)
		if c.Go == "" && view != "old" {
			c.Go, c.Key = "a run that failed before installing anything changed the index: "+why, "write-fault-changed-index:"+sc.descr()
		}
		rn.w.Emit(c)
	default:
		rn.w.Count("write-fault:other", 1)
		rn.emitObs(sc, o, dir, true, res, res == "err", "wfault", 0)
	}
	os.RemoveAll(dir)
}

// runWKill: a fresh child is SIGKILLed on entering its k-th write(2): a kill in the middle of writing the temp files
// (or, in a faulty implementation, the visible files) of a build or of a metadata-only update.
func (rn *runner) runWKill(cs caseSpec) {
	dir := rn.freshDir()
	sc := rn.prepare(cs, dir)
	bin, args, env := rn.self, []string{"child"}, []string(nil)
	if cs.Meta {
		bin, args, env = rn.ixsBin, nil, []string{"ZOEKT_VERIF_DRIVER=c12"}
		rn.w.Count("metadata-only-updates", 1)
	}
	s, err := f1util.Start(f1util.Mode{WriteKillAt: cs.WriteKillAt}, filepath.Join(rn.root, fmt.Sprintf("wkill%04d.log", rn.nextDir)), env, bin, args...)
	must(err)
	reply, ops, died, err := s.Do(sc.request(), nil)
	must(err)
	s.Close()
	o := sc.filterOps(ops)
	if died {
		rn.w.Count("kills-inside-writes", 1)
		rn.emitObs(sc, o, dir, false, "-", false, "wkill", cs.WriteKillAt)
	} else {
		rn.emitObs(sc, o, dir, true, errOf(reply), false, "wkill-survived", cs.WriteKillAt)
	}
	os.RemoveAll(dir)
}

// emitPrefix: like emit, for a crash state: orders from the whole run `all`, operations so far from `pre`.
func (rn *runner) emitPrefix(sc *scenario, all, pre observed, dir string, k int) {
	lst, problem := sc.listing(dir, all.temps, filepath.Join(rn.root, fmt.Sprintf("scratch%d", rn.worker)))
	view, why := sc.view(dir)
	c := gen.Case{
		In:    sc.inLine(all, strconv.Itoa(k), view),
		Impl:  fmt.Sprintf("ops=%s res=- dir=%s", pre.opsString(-1), lst),
		Class: "crash:" + sc.descr(),
	}
	cs := sc.cs
	cs.Mode = "stop"
	c.Detail = gen.Detail(map[string]any{"spec": cs, "k": k, "why": why, "changed": sc.spec.Changed, "ndocs": len(sc.spec.Docs)})
	c.Go, c.Key = sc.oracle(pre, lst, problem, view, why, false, "-", false)
	c.Nontrivial = true
	rn.w.Emit(c)
	rn.w.Count("view:"+view, 1)
	rn.w.Count("crash-points", 1)
}

// runFault: one build in the fault session (periodically failing renames/unlinks); the end state is observed.
func (rn *runner) runFault(cs caseSpec) {
	dir := rn.freshDir()
	sc := rn.prepare(cs, dir)
	req, _ := json.Marshal(sc.spec)
	reply, ops, died, err := rn.session("fault").Do(string(req), nil)
	if err != nil || died {
		panic(fmt.Sprintf("fault session broke: %v died=%v", err, died))
	}
	o := sc.filterOps(ops)
	faulted := false
	for _, op := range o.ops {
		if !op.OK {
			faulted = true
		}
	}
	if faulted {
		rn.w.Count("runs-with-injected-failure", 1)
	}
	rn.emit(sc, o, dir, 0, true, errOf(reply), faulted, "fault")
	os.RemoveAll(dir)
}

// runOneShot: a fresh child for exactly one build, killed at its KillAt-th rename/unlink or with exactly one failing
// rename / unlink (corpus witnesses, replays, and the real-kill cross-check of the stop snapshots).
func (rn *runner) runOneShot(cs caseSpec) {
	dir := rn.freshDir()
	sc := rn.prepare(cs, dir)
	mode := f1util.Mode{KillAt: cs.KillAt}
	if cs.RenameFailAt > 0 {
		mode.RenameFail = strconv.Itoa(cs.RenameFailAt)
	}
	if cs.UnlinkFailAt > 0 {
		mode.UnlinkFail = strconv.Itoa(cs.UnlinkFailAt)
	}
	s, err := f1util.Start(mode, filepath.Join(rn.root, fmt.Sprintf("oneshot%04d.log", rn.nextDir)), nil, rn.self, "child")
	must(err)
	req, _ := json.Marshal(sc.spec)
	reply, ops, died, err := s.Do(string(req), nil)
	must(err)
	s.Close()
	o := sc.filterOps(ops)
	if died {
		k := 0
		for _, op := range o.ops {
			if isRU(op) {
				k++
			}
		}
		rn.w.Count("real-kills", 1)
		rn.emitPrefix(sc, o, o, dir, k)
	} else {
		faulted := false
		for _, op := range o.ops {
			if !op.OK {
				faulted = true
			}
		}
		rn.emit(sc, o, dir, 0, true, errOf(reply), faulted, cs.Mode)
	}
	os.RemoveAll(dir)
}

// runRejected: delta runs that Finish must refuse before it touches anything visible (different branch set; repository
// in a compound shard).  Go oracle only: Finish returns an error, the searcher still sees exactly the old index and no
// non-temporary file changed.
func (rn *runner) runRejected(cs caseSpec) {
	dir := rn.freshDir()
	t := rn.tpls[cs.Template]
	copyDir(t.Dir, dir)
	cs.Delta = true
	sc := mkScenario(cs, rn.tpls, dir, 1000+rn.nextDir)
	if !t.Compound {
		sc.spec.BranchName = "main"
	}
	err := f1util.RunBuild(sc.spec)
	view, why := sc.view(dir)
	c := gen.Case{Class: "rejected-delta:" + cs.Template, Nontrivial: true,
		Detail: gen.Detail(map[string]any{"spec": cs, "err": fmt.Sprint(err), "why": why})}
	changed := ""
	es, _ := os.ReadDir(dir)
	seen := 0
	for _, e := range es {
		if strings.HasSuffix(e.Name(), ".tmp") {
			continue
		}
		seen++
		if _, ok := t.Tokens[sha(filepath.Join(dir, e.Name()))]; !ok {
			changed = e.Name()
		}
	}
	tes, _ := os.ReadDir(t.Dir)
	switch {
	case err == nil:
		c.Go, c.Key = "a delta run that must be rejected returned nil", "false-success:rejected-delta"
	case view != "old":
		c.Go, c.Key = "a rejected delta run changed what the searcher sees: "+why, "rejected-delta-changed-index"
	case changed != "" || seen != len(tes):
		c.Go, c.Key = "a rejected delta run changed "+changed, "rejected-delta-changed-files"
	}
	rn.w.Emit(c)
	os.RemoveAll(dir)
}

// runBuildFail: a build whose last shard fails (a document on a branch the repository does not have): buildError is set
// before Finish installs anything, Finish must remove the temp files of the shards that did succeed, return the
// error (also when called again), and leave the directory exactly as it was.  Go oracle only; uses the hook
// index.VerifBuilderState to look at finishedShards / buildError.
func (rn *runner) runBuildFail(cs caseSpec) {
	dir := rn.freshDir()
	t := rn.tpls[cs.Template]
	copyDir(t.Dir, dir)
	sc := mkScenario(cs, rn.tpls, dir, 1000+rn.nextDir)
	opts := index.Options{IndexDir: dir, Parallelism: 1, ShardMax: shardMax, DisableCTags: true, IsDelta: cs.Delta,
		RepositoryDescription: zoekt.Repository{Name: repoName, ID: repoID,
			Branches: []zoekt.RepositoryBranch{{Name: "HEAD", Version: f1util.Version(sc.spec.Gen)}}}}
	opts.SetDefaults()
	b, err := index.NewBuilder(opts)
	must(err)
	for _, d := range sc.spec.Docs {
		b.Add(index.Document{Name: d.Name, Content: []byte(d.Content), Branches: []string{"HEAD"}})
	}
	b.Add(index.Document{Name: "bad.go", Content: []byte(token + " bad"), Branches: []string{"no-such-branch"}})
	midFinished, _ := index.VerifBuilderState(b)
	err1 := b.Finish()
	finished, berr := index.VerifBuilderState(b)
	err2 := b.Finish()
	view, why := sc.view(dir)
	c := gen.Case{Class: "build-fails:" + sc.descr(), Nontrivial: len(midFinished) > 0,
		Detail: gen.Detail(map[string]any{"spec": cs, "err": fmt.Sprint(err1), "why": why, "finishedBeforeFinish": len(midFinished)})}
	leftover, changed := "", ""
	es, _ := os.ReadDir(dir)
	for _, e := range es {
		if strings.HasSuffix(e.Name(), ".tmp") {
			leftover = e.Name()
		} else if _, ok := t.Tokens[sha(filepath.Join(dir, e.Name()))]; !ok {
			changed = e.Name()
		}
	}
	tes, _ := os.ReadDir(t.Dir)
	switch {
	case err1 == nil:
		c.Go, c.Key = "Finish returned nil although a shard failed to build", "false-success:build-fails"
	case err2 == nil || berr == nil:
		c.Go, c.Key = "buildError is not sticky: a second Finish returned nil", "build-error-not-sticky"
	case len(finished) != 0:
		c.Go, c.Key = "finishedShards not emptied by the failing Finish", "finished-shards-kept"
	case view != "old" || changed != "" || len(es) != len(tes):
		c.Go, c.Key = "a failed build changed the index directory: "+why+" "+changed+" "+leftover, "failed-build-changed-index"
	}
	rn.w.Emit(c)
	os.RemoveAll(dir)
}

func (rn *runner) run(cs caseSpec) {
	switch cs.Mode {
	case "buildfail":
		rn.runBuildFail(cs)
	case "wfault":
		rn.runWFault(cs)
	case "wkill":
		rn.runWKill(cs)
	case "rejected":
		rn.runRejected(cs)
	case "stop":
		rn.runStop(cs)
	case "fault":
		rn.runFault(cs)
	default:
		rn.runOneShot(cs)
	}
}

var templateKeys = []string{"E", "F1", "F2", "F3", "F1d0", "F1d1", "F2d1", "C", "Cm"}

func buildTemplates(root string, r *gen.Rand) map[string]*template {
	t := map[string]*template{}
	t["E"] = buildTemplate(root, r, "E", nil, false, false)
	t["F1"] = buildTemplate(root, r, "F1", []tstep{{nshards: 1}}, false, false)
	t["F2"] = buildTemplate(root, r, "F2", []tstep{{nshards: 2}}, false, false)
	t["F3"] = buildTemplate(root, r, "F3", []tstep{{nshards: 3}}, false, false)
	t["F1d0"] = buildTemplate(root, r, "F1d0", []tstep{{nshards: 1}, {delta: true, nshards: 0, changed: 1}}, false, false)
	t["F1d1"] = buildTemplate(root, r, "F1d1", []tstep{{nshards: 1}, {delta: true, nshards: 1, changed: 1}}, false, false)
	t["F2d1"] = buildTemplate(root, r, "F2d1", []tstep{{nshards: 2}, {delta: true, nshards: 1, changed: 2}}, false, false)
	t["C"] = buildTemplate(root, r, "C", []tstep{{nshards: 1}}, true, false)
	t["Cm"] = buildTemplate(root, r, "Cm", []tstep{{nshards: 1}}, true, true)
	return t
}

func randomSpec(r *gen.Rand, mode string) caseSpec {
	cs := caseSpec{Mode: mode, Seed: r.U64(), ShardMerging: r.Bool()}
	cs.Template = gen.Pick(r, templateKeys)
	compound := cs.Template == "C" || cs.Template == "Cm"
	if !compound && cs.Template != "E" && r.Chance(2, 5) {
		cs.Delta = true
		cs.NShards = r.Intn(3)
		cs.Changed = r.Intn(3)
		if cs.NShards == 0 && cs.Changed == 0 {
			cs.Changed = 1
		}
	} else {
		if cs.Template == "E" && r.Chance(1, 4) {
			cs.Delta = true
		}
		cs.NShards = 1 + r.Intn(3)
		if r.Chance(1, 3) {
			cs.NShards = 1
		}
	}
	return cs
}

func main() {
	if len(os.Args) > 1 && os.Args[1] == "child" {
		childMain()
		return
	}
	f := gen.ParseFlags()
	f1util.QuietGC()
	runtime.GOMAXPROCS(4)
	if pf := os.Getenv("VERIF_CPUPROFILE"); pf != "" {
		fh, _ := os.Create(pf)
		pprof.StartCPUProfile(fh)
		defer pprof.StopCPUProfile()
	}
	log.SetOutput(io.Discard)
	w := gen.NewWriter(f.Out)
	defer w.Close()
	r := gen.NewRand(f.Seed)
	work := os.Getenv("VERIF_WORK")
	if work == "" {
		work = os.TempDir()
	}
	root := filepath.Join(work, "c12fs")
	os.RemoveAll(root)
	must(os.MkdirAll(root, 0o755))
	if os.Getenv("VERIF_KEEP") == "" {
		defer os.RemoveAll(root)
	}
	self, err := os.Executable()
	must(err)
	tpls := buildTemplates(root, r.Fork())

	var specs []caseSpec
	nCorpus := 0
	if f.Replay != "" {
		type det struct {
			Detail struct{ Spec caseSpec }
		}
		var rp struct {
			Case               det
			First_disagreement det
		}
		b, err := os.ReadFile(f.Replay)
		must(err)
		must(json.Unmarshal(b, &rp))
		cs := rp.Case.Detail.Spec
		if cs.Template == "" {
			cs = rp.First_disagreement.Detail.Spec // an "obligation-broken" replay: the first disagreeing case
		}
		if cs.Template == "" {
			panic("replay file names no scenario")
		}
		if cs.Mode == "fault" {
			cs.Mode = "failat"
		}
		specs = append(specs, cs)
	} else {
		// corpus first
		if f.Corpus != "" {
			files, _ := filepath.Glob(filepath.Join(f.Corpus, "*.json"))
			sort.Strings(files)
			for _, fn := range files {
				var c struct{ Spec caseSpec }
				b, err := os.ReadFile(fn)
				must(err)
				must(json.Unmarshal(b, &c))
				specs = append(specs, c.Spec)
				nCorpus++
			}
		}
		// every template once with a full build and (where possible) a delta build, then random ones
		for _, k := range templateKeys {
			specs = append(specs, caseSpec{Mode: "stop", Template: k, NShards: 1 + r.Intn(2), Seed: r.U64(), ShardMerging: true})
		}
		for _, k := range []string{"F1", "F2d1", "C", "Cm"} {
			specs = append(specs, caseSpec{Mode: "rejected", Template: k, NShards: 1, Changed: 1, Seed: r.U64(), ShardMerging: true})
		}
		for _, k := range []string{"E", "F2", "F1d1", "C"} {
			specs = append(specs, caseSpec{Mode: "buildfail", Template: k, NShards: 1 + r.Intn(3), Seed: r.U64(), ShardMerging: true})
		}
		for i := 0; i < f.N(14, 150); i++ {
			cs := randomSpec(r, "stop")
			if i%4 == 1 {
				cs.PriorKill = 1 + r.Intn(2) // retry after a killed run
			}
			specs = append(specs, cs)
		}
		for i := 0; i < f.N(20, 300); i++ {
			cs := randomSpec(r, "fault")
			if i%10 == 3 {
				cs.PriorKill = 1 + r.Intn(2)
			}
			specs = append(specs, cs)
		}
		for i := 0; i < f.N(2, 20); i++ {
			cs := randomSpec(r, "kill")
			cs.KillAt = 1 + r.Intn(4)
			specs = append(specs, cs)
		}
		// metadata-only updates (mergeMeta): every crash point at its renames, for every kind of old index
		metaTpls := []string{"F1", "F1d0", "F2", "F2d1", "C", "Cm", "F3", "F1d1"}
		for i := 0; i < f.N(6, 40); i++ {
			specs = append(specs, caseSpec{Mode: "stop", Meta: true, Template: metaTpls[i%len(metaTpls)], Seed: r.U64()})
		}
		// failing writes (file-size limit) and kills inside write(2), for builds and for metadata-only updates
		for i := 0; i < f.N(10, 120); i++ {
			cs := randomSpec(r, "wfault")
			cs.FsizeLimit = uint64(200 + r.Intn(2200))
			if cs.Delta {
				// sidecars larger than shards, limit usually in between: the sidecar write is the one that fails
				cs.Pad = 40 + r.Intn(30)
				if r.Chance(3, 4) {
					cs.FsizeLimit = uint64(2300 + r.Intn(2500))
				}
			}
			specs = append(specs, cs)
		}
		for i := 0; i < f.N(6, 40); i++ {
			specs = append(specs, caseSpec{Mode: "wfault", Meta: true, Template: gen.Pick(r, metaTpls), Seed: r.U64(), FsizeLimit: uint64(1 + r.Intn(700))})
		}
		for i := 0; i < f.N(4, 24); i++ {
			specs = append(specs, caseSpec{Mode: "wkill", Meta: true, Template: metaTpls[i%6], Seed: r.U64(), WriteKillAt: 2 + r.Intn(2)})
		}
		for i := 0; i < f.N(3, 20); i++ {
			cs := randomSpec(r, "wkill")
			cs.WriteKillAt = 2 + r.Intn(4)
			specs = append(specs, cs)
		}
	}
	ixsBin := ""
	for _, cs := range specs {
		if cs.Meta {
			ixsBin = gen.BuildIndexserver("c12")
			break
		}
	}

	// scenarios run on a few workers in parallel (each with its own strace sessions): under strace a build mostly
	// waits for the tracer to be scheduled, so the waiting overlaps; cases are written in scenario order.
	w.Count("corpus", nCorpus)
	const nWorkers = 4
	sinks := make([]*sink, len(specs))
	jobs := make(chan int)
	var wg sync.WaitGroup
	var firstPanic any
	var pmu sync.Mutex
	for wk := 0; wk < nWorkers; wk++ {
		wg.Add(1)
		go func(wk int) {
			defer wg.Done()
			rn := &runner{root: root, self: self, tpls: tpls, worker: wk, ixsBin: ixsBin}
			defer func() {
				for _, s := range rn.sess {
					s.Close()
				}
			}()
			for idx := range jobs {
				func() {
					defer func() {
						if p := recover(); p != nil {
							pmu.Lock()
							if firstPanic == nil {
								firstPanic = fmt.Sprintf("scenario %d (%+v): %v", idx, specs[idx], p)
							}
							pmu.Unlock()
						}
					}()
					cs := specs[idx]
					rn.w = &sink{}
					sinks[idx] = rn.w
					rn.nextDir = idx + 1
					rn.run(cs)
				}()
			}
		}(wk)
	}
	for i := range specs {
		jobs <- i
	}
	close(jobs)
	wg.Wait()
	for _, sk := range sinks {
		if sk == nil {
			continue
		}
		for _, c := range sk.cases {
			w.Emit(c)
		}
		for k, n := range sk.counts {
			w.Count(k, n)
		}
	}
	if firstPanic != nil {
		w.Close()
		fmt.Fprintln(os.Stderr, "harness failure:", firstPanic)
		os.Exit(3)
	}
}
