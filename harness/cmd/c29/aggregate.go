package main

import (
	"context"
	"fmt"
	"os"
	"path/filepath"
	"runtime"
	"strings"

	"github.com/sourcegraph/zoekt"
	"github.com/sourcegraph/zoekt/index"
	"github.com/sourcegraph/zoekt/search"

	"verifharness/gen"
)

// ---- results aggregated from several shards ----
//
// (1) collectCases: the real collectSender (search/aggregate.go, through the hook search.VerifCollect) is fed generated
//     per-shard chunks in EVERY arrival order, with and without display limits, against the Lean model `collect`
//     and the statement's ordering predicate.
// (2) aggregatedE2E: real shard files searched through search.NewDirectorySearcher with display limits, with one
//     search worker (GOMAXPROCS 1) so that shard results arrive in shard-rank order, once for each arrival order
//     (the repositories are renamed to flip the rank order). Corpora of the family "the first result's ranking
//     contains a promoted novel-extension file and a later result scores in between" are generated routinely.

func permutations(n int) [][]int {
	if n == 0 {
		return [][]int{{}}
	}
	var out [][]int
	for _, p := range permutations(n - 1) {
		for i := 0; i <= len(p); i++ {
			q := append(append(append([]int(nil), p[:i]...), n-1), p[i:]...)
			out = append(out, q)
		}
	}
	return out
}

type cfile struct {
	Score float64
	Ext   string
	ID    int
}

// promoted: does SortFiles on these files move a file out of score order?
func promoted(fs []cfile) bool {
	ms := make([]zoekt.FileMatch, len(fs))
	for i, f := range fs {
		ms[i] = zoekt.FileMatch{FileName: fmt.Sprintf("d/f%d%s", f.ID, f.Ext), Score: f.Score}
	}
	index.SortFiles(ms)
	for i := 1; i < len(ms); i++ {
		if ms[i-1].Score < ms[i].Score {
			return true
		}
	}
	return false
}

func collectCases(r *gen.Rand, n int) {
	for it := 0; it < n; it++ {
		nChunks := r.Range(2, 4)
		id := 0
		used := map[int]bool{}
		ties := r.Chance(1, 8)
		chunks := make([][]cfile, nChunks)
		for c := range chunks {
			k := r.Range(0, 5)
			if c == 0 {
				k = r.Range(3, 6) // the first result is large enough for a promotion
			}
			for j := 0; j < k; j++ {
				v := r.Range(880, 1000) // within the 0.9 ratio of each other: promotions are frequent
				if r.Chance(1, 5) {
					v = r.Range(100, 2000)
				}
				for !ties && used[v] {
					v++
				}
				used[v] = true
				ext := gen.Pick(r, []string{".go", ".go", ".go", ".md", ".py", ""})
				chunks[c] = append(chunks[c], cfile{Score: float64(v) / 2, Ext: ext, ID: id})
				id++
			}
		}
		seen := map[float64]bool{}
		for _, ch := range chunks {
			for _, f := range ch {
				if seen[f.Score] {
					ties = true
				}
				seen[f.Score] = true
			}
		}
		docLimit := gen.Pick(r, []int{0, 3, 4, 5, 6, 8, 20})
		matchLimit := 0
		if r.Chance(1, 5) {
			docLimit, matchLimit = 0, r.Range(3, 12) // MaxMatchDisplayCount (one line match per file): statement only
		}
		perms := permutations(nChunks)
		if len(perms) > 6 {
			gen.Shuffle(r, perms)
			perms = perms[:6]
		}
		for _, p := range perms {
			var batches []*zoekt.SearchResult
			var enc []string
			prefixPromoted := false
			var prefix []cfile
			for pi, ci := range p {
				var fms []zoekt.FileMatch
				var es []string
				for _, f := range chunks[ci] {
					fm := zoekt.FileMatch{FileName: fmt.Sprintf("dir.x/f%d%s", f.ID, f.Ext), Score: f.Score, Repository: fmt.Sprintf("r%d", ci)}
					fm.LineMatches = []zoekt.LineMatch{{Line: []byte("x"), LineFragments: []zoekt.LineFragmentMatch{{MatchLength: 1}}}}
					fms = append(fms, fm)
					ext := f.Ext
					es = append(es, fmt.Sprintf("%s:%s:%d", bits(f.Score), ext, f.ID))
				}
				batches = append(batches, &zoekt.SearchResult{Files: fms})
				if len(es) == 0 {
					enc = append(enc, "-")
				} else {
					enc = append(enc, strings.Join(es, ";"))
				}
				prefix = append(prefix, chunks[ci]...)
				if pi < len(p)-1 && promoted(prefix) {
					prefixPromoted = true
				}
			}
			opts := &zoekt.SearchOptions{MaxDocDisplayCount: docLimit, MaxMatchDisplayCount: matchLimit}
			res, ok := search.VerifCollect(opts, batches)
			var files []zoekt.FileMatch
			if ok && res != nil {
				files = res.Files
			}
			specOnly := ties || matchLimit > 0
			class := fmt.Sprintf("collect/limit=%v", docLimit > 0 || matchLimit > 0)
			w.Emit(gen.Case{
				In:   fmt.Sprintf("collect %d %s %s", docLimit, b01(specOnly), strings.Join(enc, "|")),
				Impl: idsOf(files), Class: class, Nontrivial: prefixPromoted,
				Detail: gen.Detail(map[string]any{"chunks": chunks, "arrival": p, "docLimit": docLimit, "matchLimit": matchLimit}),
			})
			if prefixPromoted && (docLimit > 0 || matchLimit > 0) {
				w.Count("collect/limited-aggregate-held-a-promotion-before-a-later-chunk", 1)
			}
		}
	}
}

// ---- end to end ----

// promotionFamily: repository A's own ranking for `needle` promotes a novel-extension file into third place;
// repository B has one matching file whose score lies between the promoted file and the file it displaced (same
// line score, same repository rank; only the document-order tiebreaker differs).
func promotionFamily(r *gen.Rand) []crepo {
	novel := gen.Pick(r, []string{"docs/notes.md", "tool/run.py", "Makefile2.mk"})
	lead := r.Range(2, 3)   // .go files ahead
	trail := r.Range(1, 2)  // .go files between the top two and the novel one (at least the displaced one)
	var a crepo
	a.Name = "repoA"
	word := func() []byte { return []byte("x\nneedle\ny\n") }
	n := 0
	for i := 0; i < lead+trail-1; i++ {
		a.Docs = append(a.Docs, cdoc{Name: fmt.Sprintf("src/f%d.go", n), Content: word()})
		n++
	}
	a.Docs = append(a.Docs, cdoc{Name: novel, Content: word()})
	for i := 0; i < r.Range(0, 2); i++ {
		a.Docs = append(a.Docs, cdoc{Name: fmt.Sprintf("src/g%d.go", i), Content: word()})
	}
	// document-order values in A: 1 - doc/(nDocs+1); the novel file sits at index lead+trail-1 and is promoted over
	// the file at index 2
	na := float64(len(a.Docs) + 1)
	oDisplaced := 1 - 2/na
	oNovel := 1 - float64(lead+trail-1)/na
	var b crepo
	b.Name = "repoB"
	type cand struct{ nb, idx int }
	var cands []cand
	for nb := 1; nb <= 9; nb++ {
		for idx := 0; idx < nb; idx++ {
			o := 1 - float64(idx)/float64(nb+1)
			if o > oNovel && o < oDisplaced {
				cands = append(cands, cand{nb, idx})
			}
		}
	}
	c := cand{r.Range(1, 6), 0}
	if len(cands) > 0 {
		c = gen.Pick(r, cands)
	} else {
		c.idx = r.Intn(c.nb)
	}
	for i := 0; i < c.nb; i++ {
		content := []byte("nothing here\n")
		if i == c.idx {
			content = word()
		}
		b.Docs = append(b.Docs, cdoc{Name: fmt.Sprintf("lib/h%d.go", i), Content: content})
	}
	return []crepo{a, b}
}

// aggregatedE2E runs display-limited searches over the repositories for both shard arrival orders.
func aggregatedE2E(repos []crepo, queries []srcQ, family string) {
	if len(repos) < 2 {
		return
	}
	old := runtime.GOMAXPROCS(1) // one search worker: shard results reach the collector in shard-rank order
	defer runtime.GOMAXPROCS(old)
	base := os.Getenv("VERIF_WORK")
	if base == "" {
		base = os.TempDir()
	}
	for _, flip := range []bool{false, true} {
		dir, err := os.MkdirTemp(base, "c29-agg-")
		if err != nil {
			panic(err)
		}
		named := make([]crepo, len(repos))
		for i := range repos {
			named[i] = repos[i]
			// equal priority: shards are ranked by repository name
			k := i
			if flip {
				k = len(repos) - 1 - i
			}
			named[i].Name = fmt.Sprintf("%c-%s", 'a'+k, repos[i].Name)
			named[i].Rank = 0
			data, err := shardBytes(&named[i])
			if err != nil {
				panic(err)
			}
			if err := os.WriteFile(filepath.Join(dir, fmt.Sprintf("repo%d_v%d.%05d.zoekt", i, index.IndexFormatVersion, 0)), data, 0o644); err != nil {
				panic(err)
			}
		}
		ss, err := search.NewDirectorySearcher(dir)
		if err != nil {
			panic(err)
		}
		for _, sq := range queries {
			for _, bm25 := range []bool{false, true} {
				for _, lim := range [][2]int{{5, 0}, {8, 0}, {0, 6}, {20, 0}} {
					optName := fmt.Sprintf("bm25=%v doclimit=%d matchlimit=%d arrival-flipped=%v", bm25, lim[0], lim[1], flip)
					det := gen.Detail(aggDetail{Repos: repos, Query: sq.Src, Opts: optName, Family: family, Agg: true})
					class := "e2e-aggregated/" + family
					opts := &zoekt.SearchOptions{UseBM25Scoring: bm25, MaxDocDisplayCount: lim[0], MaxMatchDisplayCount: lim[1]}
					res, err := ss.Search(context.Background(), sq.Q, opts)
					if err != nil {
						w.Emit(gen.Case{Go: "search error: " + err.Error(), Key: "e2e-search-error", Class: class, Detail: det})
						continue
					}
					obs := observe(res)
					if msg, key := checkRanking(obs); msg != "" {
						w.Emit(gen.Case{Go: fmt.Sprintf("query %s, %s (results of %d shards aggregated under a display limit): %s", sq.Src, optName, len(repos), msg),
							Key: "aggregated/" + key, Class: class, Detail: det})
						continue
					}
					if lim[0] > 0 && len(obs) > lim[0] {
						w.Emit(gen.Case{Go: fmt.Sprintf("%d files with MaxDocDisplayCount %d", len(obs), lim[0]), Key: "aggregated/display-limit-exceeded", Class: class, Detail: det})
						continue
					}
					w.Emit(gen.Case{In: rankLine(obs), Impl: "ok", Class: class, Nontrivial: len(obs) >= 4, Detail: det})
					if len(obs) >= 5 {
						w.Count("e2e-aggregated/files>=5", 1)
					}
				}
			}
		}
		ss.Close()
		os.RemoveAll(dir)
	}
}

type aggDetail struct {
	Repos  []crepo `json:"repos"`
	Query  string  `json:"query"`
	Opts   string  `json:"opts"`
	Family string  `json:"family"`
	Agg    bool    `json:"aggregated"`
}
