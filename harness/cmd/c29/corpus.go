package main

import (
	"bytes"
	"fmt"
	"strings"

	"github.com/sourcegraph/zoekt"
	"github.com/sourcegraph/zoekt/index"

	"verifharness/gen"
)

// ---- generated corpora: documents with symbols, categories (by file name), languages, repository ranks ----

type cdoc struct {
	Name    string
	Content []byte
	Syms    []index.DocumentSection
	Kinds   []string
}

type crepo struct {
	Name string
	Rank uint16
	Docs []cdoc
}

var idents = []string{"foo", "bar", "Foo", "fooBar", "baz", "qux", "main", "needle", "Needle", "needle_x", "x1", "get", "set", "Handler"}
var seps = []string{" ", " ", " ", ".", "(", ")", ", ", " = ", "\t", "::", "é"}
var kinds = []string{"function", "class", "variable", "method", "struct", "constant", "field", "interface", "type", "enum", "unknownkind", "chapter", ""}
var fileNames = []string{"src/util.go", "src/foo.go", "pkg/foo_test.go", "vendor/lib/bar.go", "docs/readme.md", "Main.java", "app/app.py",
	"lib/needle.rb", "foo", "a/b/c/foo.kt", "web/index.test.js", "gen/zz_generated.go", "src/Foo.scala", "needle.cpp", ".config/foo.yaml"}

func genDoc(r *gen.Rand, name string) cdoc {
	d := cdoc{Name: name}
	var b bytes.Buffer
	nLines := r.Range(0, 10)
	for l := 0; l < nLines; l++ {
		nTok := r.Range(0, 6)
		for t := 0; t < nTok; t++ {
			id := gen.Pick(r, idents)
			start := b.Len()
			b.WriteString(id)
			if r.Chance(1, 3) {
				// a symbol section: the identifier, or (rarely) a part of it / a bit more
				s, e := uint32(start), uint32(b.Len())
				if r.Chance(1, 6) && e-s > 2 {
					e--
				}
				d.Syms = append(d.Syms, index.DocumentSection{Start: s, End: e})
				d.Kinds = append(d.Kinds, gen.Pick(r, kinds))
			}
			b.WriteString(gen.Pick(r, seps))
		}
		if l < nLines-1 || r.Chance(3, 4) {
			b.WriteByte('\n')
		}
	}
	d.Content = b.Bytes()
	return d
}

func genRepo(r *gen.Rand, name string, rank uint16) crepo {
	rp := crepo{Name: name, Rank: rank}
	n := r.Range(1, 8)
	names := append([]string(nil), fileNames...)
	gen.Shuffle(r, names)
	allEmpty := r.Chance(1, 10) // a shard whose documents are all empty: average file length 0
	for i := 0; i < n && i < len(names); i++ {
		d := genDoc(r, names[i])
		if allEmpty {
			d = cdoc{Name: names[i]}
		}
		rp.Docs = append(rp.Docs, d)
	}
	return rp
}

type memFile struct {
	name string
	data []byte
}

func (m *memFile) Read(off, sz uint32) ([]byte, error) {
	if uint64(off)+uint64(sz) > uint64(len(m.data)) {
		return nil, fmt.Errorf("memFile: read [%d,+%d) beyond %d", off, sz, len(m.data))
	}
	return m.data[off : off+sz], nil
}
func (m *memFile) Size() (uint32, error) { return uint32(len(m.data)), nil }
func (m *memFile) Close()                {}
func (m *memFile) Name() string          { return m.name }

func shardBytes(rp *crepo) ([]byte, error) {
	b, err := index.NewShardBuilder(&zoekt.Repository{Name: rp.Name, Rank: rp.Rank, Branches: []zoekt.RepositoryBranch{{Name: "HEAD", Version: "v"}}})
	if err != nil {
		return nil, err
	}
	for _, d := range rp.Docs {
		var md []*zoekt.Symbol
		for _, k := range d.Kinds {
			md = append(md, &zoekt.Symbol{Kind: k})
		}
		doc := index.Document{Name: d.Name, Content: d.Content, Branches: []string{"HEAD"},
			Symbols: append([]index.DocumentSection(nil), d.Syms...), SymbolsMetaData: md}
		if err := b.Add(doc); err != nil {
			return nil, fmt.Errorf("%s: %w", d.Name, err)
		}
	}
	var buf bytes.Buffer
	if err := b.Write(&buf); err != nil {
		return nil, err
	}
	return buf.Bytes(), nil
}

func loadMem(data []byte) (zoekt.Searcher, error) {
	return index.NewSearcher(&memFile{name: "mem.zoekt", data: data})
}

func lower(b []byte) string { return strings.ToLower(string(b)) }
