package main

import (
	"fmt"
	"math"
	"strings"

	"github.com/sourcegraph/zoekt"
	"github.com/sourcegraph/zoekt/index"

	"verifharness/gen"
)

// ---- unit level: the real scoreLine / scoreChunk / scoreFile / scoreFileBM25 / sort functions on a real loaded
// shard, against the Lean model ----

func bits(f float64) string { return fmt.Sprintf("%016x", math.Float64bits(f)) }

func bitsList(fs []float64) string {
	if len(fs) == 0 {
		return "-"
	}
	var out []string
	for _, f := range fs {
		out = append(out, bits(f))
	}
	return strings.Join(out, ",")
}

func b01(b bool) string {
	if b {
		return "1"
	}
	return "0"
}

var weights = []float64{1, 1, 1, 1, 2, 0.5, 1.5, 3, 1 + 1e-10, 1 + 1e-6}

// docEnc: the six document fields of the model's DocCtx
func docEnc(info *index.VerifDocInfo) string {
	var secs, ks []string
	for i, s := range info.Sections {
		secs = append(secs, fmt.Sprintf("%d:%d", s.Start, s.End))
		if info.HasKind[i] {
			sym := sectionSlice(info.Content, s)
			ks = append(ks, bits(index.VerifScoreSymbolKind(info.Language, info.FileName, sym, info.Kinds[i])))
		} else {
			ks = append(ks, "n")
		}
	}
	j := func(x []string) string {
		if len(x) == 0 {
			return "-"
		}
		return strings.Join(x, ",")
	}
	return fmt.Sprintf("%s %s %s %s %s %d", gen.Hex(info.Content), gen.Hex(info.FileName), j(secs), j(ks), gen.NatList(info.Newlines), len(info.Content))
}

func sectionSlice(data []byte, s index.DocumentSection) []byte {
	l := uint32(len(data))
	if s.Start >= l {
		return nil
	}
	e := s.End
	if e > l {
		e = l
	}
	return data[s.Start:e]
}

func candEnc(cs []index.VerifCand) string {
	if len(cs) == 0 {
		return "-"
	}
	var out []string
	for _, c := range cs {
		out = append(out, fmt.Sprintf("%s:%d:%d:%s:%s:%d:%s", b01(c.FileName), c.ByteOffset, c.ByteMatchSz, bits(c.ScoreWeight), b01(c.Symbol), c.SymbolIdx, gen.Hex([]byte(c.Term))))
	}
	return strings.Join(out, ";")
}

// lineBounds: [start,end) of 1-based line ln of content (end excludes the newline)
func lineBounds(content []byte, ln int) (int, int) {
	start := 0
	cur := 1
	for i, c := range content {
		if cur == ln && c == '\n' {
			return start, i
		}
		if c == '\n' {
			cur++
			start = i + 1
		}
	}
	return start, len(content)
}

func nLines(content []byte) int {
	n := 1
	for _, c := range content {
		if c == '\n' {
			n++
		}
	}
	return n
}

// genCands: candidates for one document. mode: "line" (content candidates on one line), "name" (file-name
// candidates), "mix" (sorted by offset, any lines, possibly with file-name candidates first).
func genCands(r *gen.Rand, info *index.VerifDocInfo, mode string) ([]index.VerifCand, int) {
	content, name := info.Content, info.FileName
	var cs []index.VerifCand
	ln := -1
	contentCand := func(lo, hi int) (index.VerifCand, bool) {
		if hi <= lo {
			return index.VerifCand{}, false
		}
		var off, sz int
		switch {
		case len(info.Sections) > 0 && r.Chance(1, 3):
			// around a symbol section: exact, prefix, suffix, inside, overlapping
			s := info.Sections[r.Intn(len(info.Sections))]
			off, sz = int(s.Start), int(s.End-s.Start)
			switch r.Intn(5) {
			case 1:
				sz = max(1, sz-1)
			case 2:
				if sz > 1 {
					off, sz = off+1, sz-1
				}
			case 3:
				if off > 0 {
					off, sz = off-1, sz+2
				}
			case 4:
				sz += r.Range(1, 6)
			}
		default:
			off = r.Range(lo, hi-1)
			sz = r.Range(1, 8)
		}
		if sz < 1 {
			sz = 1
		}
		if off+sz > len(content) {
			sz = len(content) - off
		}
		if off < 0 || sz < 1 {
			return index.VerifCand{}, false
		}
		c := index.VerifCand{ByteOffset: uint32(off), ByteMatchSz: uint32(sz), ScoreWeight: gen.Pick(r, weights), Term: lower(content[off : off+sz])}
		if len(info.Sections) > 0 && r.Chance(1, 5) {
			c.Symbol = true
			c.SymbolIdx = uint32(r.Intn(len(info.Sections)))
		}
		if r.Chance(1, 3) {
			c.Term = gen.Pick(r, []string{"foo", "bar", "needle"})
		}
		return c, true
	}
	nameCand := func() (index.VerifCand, bool) {
		if len(name) == 0 {
			return index.VerifCand{}, false
		}
		off := r.Intn(len(name))
		switch r.Intn(4) {
		case 0:
			off = strings.LastIndexByte(string(name), '/') + 1
		case 1:
			off = 0
		}
		sz := r.Range(1, len(name)-off)
		if r.Chance(1, 3) {
			sz = len(name) - off
		}
		return index.VerifCand{FileName: true, ByteOffset: uint32(off), ByteMatchSz: uint32(sz), ScoreWeight: gen.Pick(r, weights), Term: lower(name[off : off+sz])}, true
	}
	n := r.Range(1, 5)
	switch mode {
	case "line":
		ln = r.Range(1, nLines(content))
		lo, hi := lineBounds(content, ln)
		for i := 0; i < n; i++ {
			if c, ok := contentCand(lo, hi+1); ok && int(c.ByteOffset) <= hi && int(c.ByteOffset) >= lo {
				cs = append(cs, c)
			}
		}
	case "name":
		for i := 0; i < n; i++ {
			if c, ok := nameCand(); ok {
				cs = append(cs, c)
			}
		}
	default:
		if r.Chance(1, 3) {
			if c, ok := nameCand(); ok {
				cs = append(cs, c)
			}
		}
		for i := 0; i < n; i++ {
			if c, ok := contentCand(0, len(content)); ok {
				cs = append(cs, c)
			}
		}
		ln = r.Range(-1, nLines(content)+1)
	}
	// sort content candidates by offset (the invariant of gatherMatches), file-name candidates first
	for i := 1; i < len(cs); i++ {
		for j := i; j > 0; j-- {
			a, b := cs[j-1], cs[j]
			if (!a.FileName && b.FileName) || (a.FileName == b.FileName && a.ByteOffset > b.ByteOffset) {
				cs[j-1], cs[j] = cs[j], cs[j-1]
			}
		}
	}
	return cs, ln
}

func unitCases(r *gen.Rand, nShards, perDoc int) {
	for si := 0; si < nShards; si++ {
		rp := genRepo(r, fmt.Sprintf("repo%d", si), uint16(r.Intn(65536)))
		if si == 0 {
			// always: a shard of empty documents (the `averageFileLength == 0` guard of scoreFileBM25)
			rp = crepo{Name: "empty", Rank: 3, Docs: []cdoc{{Name: "a/foo.go"}, {Name: "needle_test.go"}}}
		}
		data, err := shardBytes(&rp)
		if err != nil {
			panic(err)
		}
		s, err := loadMem(data)
		if err != nil {
			panic(err)
		}
		for doc := range rp.Docs {
			info, err := index.VerifGetDocInfo(s, uint32(doc))
			if err != nil {
				panic(err)
			}
			denc := docEnc(info)
			for k := 0; k < perDoc; k++ {
				mode := gen.Pick(r, []string{"line", "line", "line", "name", "mix"})
				cs, ln := genCands(r, info, mode)
				if len(cs) == 0 {
					continue
				}
				cenc := candEnc(cs)
				for _, bm25 := range []bool{false, true} {
					var lineScores, chunkScores [2]float64
					for di, dbg := range []bool{false, true} {
						opts := &zoekt.SearchOptions{UseBM25Scoring: bm25, DebugScore: dbg}
						sc, dstr, err := index.VerifScoreLine(s, uint32(doc), cs, info.Language, ln, opts)
						if err != nil {
							panic(err)
						}
						lineScores[di] = sc
						cse := gen.Case{
							In:   fmt.Sprintf("line %s %s %d %s %s", b01(bm25), b01(dbg), ln, denc, cenc),
							Impl: fmt.Sprintf("score=%s dbg=%s", bits(sc), b01(dstr != "")),
							Class: "line/" + mode + "/bm25=" + b01(bm25), Nontrivial: sc != 0,
							Detail: gen.Detail(map[string]any{"doc": rp.Docs[doc].Name, "cands": cs, "line": ln, "debug": dstr}),
						}
						if dbg != (dstr != "") {
							cse.Go, cse.Key = "debug string present iff DebugScore is violated", "line-debug-string"
						}
						w.Emit(cse)

						csc, best, cdstr, err := index.VerifScoreChunk(s, uint32(doc), cs, info.Language, opts)
						if err != nil {
							panic(err)
						}
						chunkScores[di] = csc
						w.Emit(gen.Case{
							In:   fmt.Sprintf("chunk %s %s %s %s", b01(bm25), b01(dbg), denc, cenc),
							Impl: fmt.Sprintf("score=%s best=%d dbg=%s", bits(csc), best, b01(cdstr != "")),
							Class: "chunk/" + mode + "/bm25=" + b01(bm25), Nontrivial: csc != 0,
							Detail: gen.Detail(map[string]any{"doc": rp.Docs[doc].Name, "cands": cs}),
						})
					}
					if math.Float64bits(lineScores[0]) != math.Float64bits(lineScores[1]) || math.Float64bits(chunkScores[0]) != math.Float64bits(chunkScores[1]) {
						w.Emit(gen.Case{Go: fmt.Sprintf("DebugScore changes a line/chunk score: %v vs %v, %v vs %v", lineScores[0], lineScores[1], chunkScores[0], chunkScores[1]),
							Key: "debug-changes-line-score", Class: "debug-neutral"})
					}
				}
				// BM25 file score
				for _, dbg := range []bool{false, true} {
					fm := &zoekt.FileMatch{FileName: string(info.FileName)}
					if err := index.VerifScoreFileBM25(s, uint32(doc), fm, cs, &zoekt.SearchOptions{UseBM25Scoring: true, DebugScore: dbg}); err != nil {
						panic(err)
					}
					w.Emit(gen.Case{
						In:   fmt.Sprintf("filebm25 %s %d %d %d %s %s", b01(info.LowPriority), info.TotalBytes, info.NumDocs, info.DocBytes, denc, cenc),
						Impl: "score=" + bits(fm.Score), Class: "filebm25/low=" + b01(info.LowPriority), Nontrivial: fm.Score != 0,
						Detail: gen.Detail(map[string]any{"doc": rp.Docs[doc].Name, "cands": cs, "debug": fm.Debug}),
					})
				}
			}
			// classic file score from line scores
			for k := 0; k < perDoc; k++ {
				nl := r.Range(0, 6)
				var ls []float64
				for i := 0; i < nl; i++ {
					ls = append(ls, gen.Pick(r, []float64{0, 50, 500, 550, 7000, 7500, 5500, 8300, 4050.5, 12000, 760.0000000000001, 1100}))
				}
				atoms := r.Range(0, 5)
				chunk := r.Bool()
				var scores [2]float64
				for di, dbg := range []bool{false, true} {
					fm := &zoekt.FileMatch{FileName: string(info.FileName)}
					for _, x := range ls {
						if chunk {
							fm.ChunkMatches = append(fm.ChunkMatches, zoekt.ChunkMatch{Score: x})
						} else {
							fm.LineMatches = append(fm.LineMatches, zoekt.LineMatch{Score: x})
						}
					}
					if err := index.VerifScoreFile(s, uint32(doc), fm, atoms, &zoekt.SearchOptions{DebugScore: dbg}); err != nil {
						panic(err)
					}
					var out []float64
					for _, m := range fm.LineMatches {
						out = append(out, m.Score)
					}
					for _, m := range fm.ChunkMatches {
						out = append(out, m.Score)
					}
					scores[di] = fm.Score
					w.Emit(gen.Case{
						In:   fmt.Sprintf("file %s %d %d %d %d %s", b01(dbg), atoms, info.RepoRank, doc, info.NumBounds, bitsList(ls)),
						Impl: fmt.Sprintf("score=%s lines=%s dbg=%s", bits(fm.Score), bitsList(out), b01(fm.Debug != "")),
						Class: "file", Nontrivial: len(ls) > 0,
					})
				}
				if math.Float64bits(scores[0]) != math.Float64bits(scores[1]) {
					w.Emit(gen.Case{Go: fmt.Sprintf("DebugScore changes the file score: %v vs %v", scores[0], scores[1]), Key: "debug-changes-file-score", Class: "debug-neutral"})
				}
			}
		}
		s.Close()
	}
}

// ---- ordering functions ----

var exts = []string{".go", ".go", ".py", ".md", "", ".java"}

func sortCases(r *gen.Rand, n int) {
	for i := 0; i < n; i++ {
		// sortMatchesByScore / sortChunkMatchesByScore
		k := r.Range(0, 9)
		var fs []float64
		for j := 0; j < k; j++ {
			fs = append(fs, gen.Pick(r, []float64{0, 1, 50, 500.5, 501, 7000, 7000, 8300.25, 1e-3, 9999}) + float64(r.Intn(3)))
		}
		lm := make([]zoekt.LineMatch, len(fs))
		cm := make([]zoekt.ChunkMatch, len(fs))
		for j, f := range fs {
			lm[j].Score, cm[j].Score = f, f
		}
		index.VerifSortMatchesByScore(lm)
		index.VerifSortChunkMatchesByScore(cm)
		var o1, o2 []float64
		for j := range lm {
			o1 = append(o1, lm[j].Score)
			o2 = append(o2, cm[j].Score)
		}
		w.Emit(gen.Case{In: "sortm " + bitsList(fs), Impl: bitsList(o1), Class: "sort-lines", Nontrivial: k > 1})
		w.Emit(gen.Case{In: "sortm " + bitsList(fs), Impl: bitsList(o2), Class: "sort-chunks", Nontrivial: k > 1})

		// SortFiles
		k = r.Range(0, 9)
		ties := r.Chance(1, 4)
		used := map[int]bool{}
		var ents []string
		fms := make([]zoekt.FileMatch, 0, k)
		for j := 0; j < k; j++ {
			v := r.Range(1, 40)
			if r.Chance(1, 2) {
				v = r.Range(90, 110) // close scores: the 0.9 ratio rule matters
			}
			for !ties && used[v] {
				v++
			}
			used[v] = true
			sc := float64(v)
			if r.Chance(1, 4) {
				sc += 0.5
			}
			ext := gen.Pick(r, exts)
			fms = append(fms, zoekt.FileMatch{FileName: fmt.Sprintf("dir.x/f%d%s", j, ext), Score: sc})
			ents = append(ents, fmt.Sprintf("%s:%s:%d", bits(sc), ext, j))
		}
		if !ties {
			// half-steps can still collide: v+0.5 vs v' — they cannot, v are distinct integers and the fraction is .5 or 0
			seen := map[float64]bool{}
			for _, f := range fms {
				if seen[f.Score] {
					ties = true
				}
				seen[f.Score] = true
			}
		}
		entStr := "-"
		if len(ents) > 0 {
			entStr = strings.Join(ents, ";")
		}
		work := append([]zoekt.FileMatch(nil), fms...)
		index.SortFiles(work)
		w.Emit(gen.Case{In: fmt.Sprintf("sortf %s %s", b01(ties), entStr), Impl: idsOf(work), Class: "sortfiles/ties=" + b01(ties), Nontrivial: k > 3})

		// boostNovelExtension on an arbitrary (unsorted) list, several offsets and ratios
		if !ties {
			off := r.Range(0, 3)
			num, den := 9, 10
			switch r.Intn(4) {
			case 0:
				num, den = 1, 2
			case 1:
				num, den = 1, 1
			}
			work = append([]zoekt.FileMatch(nil), fms...)
			index.VerifBoostNovelExtension(work, off, float64(num)/float64(den))
			w.Emit(gen.Case{In: fmt.Sprintf("boost %d %d %d %s", off, num, den, entStr), Impl: idsOf(work), Class: "boost", Nontrivial: k > off+1})
		}
	}
}

func idsOf(fms []zoekt.FileMatch) string {
	if len(fms) == 0 {
		return "-"
	}
	var out []string
	for _, f := range fms {
		var id int
		base := f.FileName[strings.LastIndexByte(f.FileName, '/')+1:]
		fmt.Sscanf(base, "f%d", &id)
		out = append(out, fmt.Sprint(id))
	}
	return strings.Join(out, ",")
}
