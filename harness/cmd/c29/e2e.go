package main

import (
	"context"
	"fmt"
	"math"
	"os"
	"path"
	"path/filepath"
	"sort"
	"strings"

	"github.com/sourcegraph/zoekt"
	"github.com/sourcegraph/zoekt/index"
	"github.com/sourcegraph/zoekt/query"
	"github.com/sourcegraph/zoekt/search"

	"verifharness/gen"
)

// ---- end to end: real shard files, search.NewDirectorySearcher, every search several times, with DebugScore on
// and off, default and BM25 scoring, line and chunk matches.  Oracles (no code shared with the implementation):
// scores finite; matches non-increasing; files non-increasing except the documented promotion; every run
// bit-identical per file; DebugScore changes nothing but the debug strings. ----

type obsFile struct {
	Key    string // repository + file name
	Ext    string
	Score  float64
	Lines  []float64
	Debug  bool // any debug string present
}

func observe(res *zoekt.SearchResult) []obsFile {
	var out []obsFile
	for _, f := range res.Files {
		o := obsFile{Key: f.Repository + ":" + f.FileName, Ext: path.Ext(f.FileName), Score: f.Score, Debug: f.Debug != ""}
		for _, l := range f.LineMatches {
			o.Lines = append(o.Lines, l.Score)
			o.Debug = o.Debug || l.DebugScore != ""
		}
		for _, c := range f.ChunkMatches {
			o.Lines = append(o.Lines, c.Score)
			o.Debug = o.Debug || c.DebugScore != ""
		}
		out = append(out, o)
	}
	return out
}

func finiteF(f float64) bool { return !math.IsNaN(f) && !math.IsInf(f, 0) }

// checkRanking: the single-result clauses of the property; returns "" or (message, key)
func checkRanking(fs []obsFile) (string, string) {
	for _, f := range fs {
		if !finiteF(f.Score) {
			return fmt.Sprintf("file %s has the non-finite score %v", f.Key, f.Score), "file-score-not-finite"
		}
		for i, l := range f.Lines {
			if !finiteF(l) {
				return fmt.Sprintf("file %s: match %d has the non-finite score %v", f.Key, i, l), "match-score-not-finite"
			}
			if i > 0 && f.Lines[i-1] < l {
				return fmt.Sprintf("file %s: match scores not non-increasing: %v", f.Key, f.Lines), "matches-not-sorted"
			}
		}
	}
	sorted := func(xs []obsFile) bool {
		for i := 1; i < len(xs); i++ {
			if xs[i-1].Score < xs[i].Score {
				return false
			}
		}
		return true
	}
	if sorted(fs) {
		return "", ""
	}
	if len(fs) >= 4 {
		rest := append(append([]obsFile(nil), fs[:2]...), fs[3:]...)
		p := fs[2]
		if sorted(rest) && p.Ext != fs[0].Ext && p.Ext != fs[1].Ext && p.Score*10 >= fs[3].Score*9 && p.Score <= fs[3].Score {
			return "", ""
		}
	}
	var sc []string
	for _, f := range fs {
		sc = append(sc, fmt.Sprintf("%v%s", f.Score, f.Ext))
	}
	return "files are not ordered by non-increasing score (even allowing the promotion to third place): " + strings.Join(sc, " "), "files-not-sorted-except-promotion"
}

// sameRun: do two runs of the same search agree?  Scores must agree bit for bit per file and per match; the
// order must agree except among files with equal scores.
func sameRun(a, b []obsFile) (string, string) {
	if len(a) != len(b) {
		return fmt.Sprintf("%d files vs %d files", len(a), len(b)), "different-file-count"
	}
	am := map[string]obsFile{}
	for _, f := range a {
		am[f.Key] = f
	}
	for _, g := range b {
		f, ok := am[g.Key]
		if !ok {
			return "file " + g.Key + " only in one run", "different-files"
		}
		if math.Float64bits(f.Score) != math.Float64bits(g.Score) {
			return fmt.Sprintf("file %s: score %v (%016x) vs %v (%016x)", g.Key, f.Score, math.Float64bits(f.Score), g.Score, math.Float64bits(g.Score)), "file-score-differs"
		}
		if len(f.Lines) != len(g.Lines) {
			return fmt.Sprintf("file %s: %d vs %d matches", g.Key, len(f.Lines), len(g.Lines)), "match-count-differs"
		}
		for i := range f.Lines {
			if math.Float64bits(f.Lines[i]) != math.Float64bits(g.Lines[i]) {
				return fmt.Sprintf("file %s: match %d score %v vs %v", g.Key, i, f.Lines[i], g.Lines[i]), "match-score-differs"
			}
		}
	}
	ties := false
	seen := map[uint64]bool{}
	for _, f := range a {
		if seen[math.Float64bits(f.Score)] {
			ties = true
		}
		seen[math.Float64bits(f.Score)] = true
	}
	if !ties {
		for i := range a {
			if a[i].Key != b[i].Key {
				return fmt.Sprintf("position %d: %s vs %s (no equal scores)", i, a[i].Key, b[i].Key), "file-order-differs"
			}
		}
	}
	return "", ""
}

func rankLine(fs []obsFile) string {
	if len(fs) == 0 {
		return "rank -"
	}
	var parts []string
	for _, f := range fs {
		ls := "-"
		if len(f.Lines) > 0 {
			var x []string
			for _, l := range f.Lines {
				x = append(x, bits(l))
			}
			ls = strings.Join(x, "/")
		}
		ext := f.Ext
		if ext == "" {
			ext = "~"
		}
		parts = append(parts, fmt.Sprintf("%s:%s:%s", bits(f.Score), ext, ls))
	}
	return "rank " + strings.Join(parts, ";")
}

var e2eQueries = []string{
	"needle", "foo", "foo bar", "foo or bar or baz", "foo or bar or baz or qux or needle", "sym:foo", "sym:needle or bar",
	"f:go foo", "file:foo", "foo or file:needle", "case:yes Foo", "main or get or set or Handler", "ba", "fo.*ar", "x1 or qux or get",
}

type srcQ struct {
	Src string
	Q   query.Q
}

// parseQ: query source -> query; "@boost1", "@boost2" name the boosted queries that only the API can express.
func parseQ(s string) srcQ {
	switch s {
	case "@boost1":
		return srcQ{s, &query.Or{Children: []query.Q{&query.Boost{Boost: 2, Child: &query.Substring{Pattern: "foo"}}, &query.Substring{Pattern: "bar"}, &query.Substring{Pattern: "needle"}}}}
	case "@boost2":
		return srcQ{s, &query.Or{Children: []query.Q{&query.Boost{Boost: 0.5, Child: &query.Substring{Pattern: "needle"}}, &query.Substring{Pattern: "baz"}}}}
	}
	q, err := query.Parse(s)
	if err != nil {
		panic(err)
	}
	return srcQ{s, q}
}

type e2eDetail struct {
	Repos   []crepo `json:"repos"`
	Query   string  `json:"query"`
	Opts    string  `json:"opts"`
	Repeats int     `json:"repeats"`
	// Aggregated: a display-limited search over several shards, run for both shard arrival orders (aggregatedE2E)
	Aggregated bool   `json:"aggregated"`
	Family     string `json:"family"`
}

func runE2E(r *gen.Rand, repos []crepo, queries []srcQ, repeats int) {
	base := os.Getenv("VERIF_WORK")
	if base == "" {
		base = os.TempDir()
	}
	dir, err := os.MkdirTemp(base, "c29-e2e-")
	if err != nil {
		panic(err)
	}
	defer os.RemoveAll(dir)
	for i := range repos {
		data, err := shardBytes(&repos[i])
		if err != nil {
			panic(err)
		}
		if err := os.WriteFile(filepath.Join(dir, fmt.Sprintf("repo%d_v%d.%05d.zoekt", i, index.IndexFormatVersion, 0)), data, 0o644); err != nil {
			panic(err)
		}
	}
	ss, err := search.NewDirectorySearcher(dir)
	if err != nil {
		panic(err)
	}
	defer ss.Close()

	for _, sq := range queries {
		q := sq.Q
		for _, bm25 := range []bool{false, true} {
			for _, chunks := range []bool{false, true} {
				optName := fmt.Sprintf("bm25=%v chunks=%v", bm25, chunks)
				det := gen.Detail(e2eDetail{Repos: repos, Query: sq.Src, Opts: optName, Repeats: repeats})
				class := "e2e/bm25=" + b01(bm25)
				var runs [][]obsFile
				var dbgRun []obsFile
				fail := func(msg, key string) {
					w.Emit(gen.Case{Go: fmt.Sprintf("query %s, %s: %s", q, optName, msg), Key: key, Class: class, Detail: det})
				}
				bad := false
				for rep := 0; rep < repeats+1 && !bad; rep++ {
					dbg := rep == repeats // the last run has DebugScore on
					opts := &zoekt.SearchOptions{UseBM25Scoring: bm25, ChunkMatches: chunks, DebugScore: dbg, NumContextLines: len(sq.Src) % 2}
					res, err := ss.Search(context.Background(), q, opts)
					if err != nil {
						fail("search error: "+err.Error(), "e2e-search-error")
						bad = true
						break
					}
					obs := observe(res)
					if msg, key := checkRanking(obs); msg != "" {
						fail(msg, key)
						bad = true
						break
					}
					if dbg {
						dbgRun = obs
					} else {
						for _, f := range obs {
							if f.Debug {
								fail("debug strings present without DebugScore", "debug-string-without-debugscore")
								bad = true
							}
						}
						runs = append(runs, obs)
					}
				}
				if bad {
					continue
				}
				ok := true
				for i := 1; i < len(runs); i++ {
					if msg, key := sameRun(runs[0], runs[i]); msg != "" {
						k := "nondeterministic/" + key
						if bm25 {
							k = "nondeterministic-bm25/" + key
						}
						fail(fmt.Sprintf("run 1 and run %d of the same search differ: %s", i+1, msg), k)
						ok = false
						break
					}
				}
				if ok && dbgRun != nil {
					if msg, key := sameRun(runs[0], dbgRun); msg != "" {
						k := "debug-changes-ranking/" + key
						fail("DebugScore on vs off: "+msg, k)
						ok = false
					}
				}
				if !ok {
					continue
				}
				for _, f := range runs[0] {
					digest = append(digest, fmt.Sprintf("%s|%s|%s|%s", sq.Src, optName, f.Key, bits(f.Score)))
				}
				// the same observation through the Lean statement of the property
				w.Emit(gen.Case{In: rankLine(runs[0]), Impl: "ok", Class: class, Nontrivial: len(runs[0]) >= 2, Detail: det})
				w.Count(fmt.Sprintf("e2e-files>=4:%v", len(runs[0]) >= 4), 1)
			}
		}
	}
}

func genE2E(r *gen.Rand, nQueries, repeats int) {
	n := r.Range(1, 3)
	var repos []crepo
	ranks := []uint16{0, 7, 300, 65535, 1000}
	gen.Shuffle(r, ranks)
	for i := 0; i < n; i++ {
		repos = append(repos, genRepo(r, fmt.Sprintf("repo%d", i), ranks[i]))
	}
	qs := append([]string(nil), e2eQueries...)
	gen.Shuffle(r, qs)
	var queries []srcQ
	for _, s := range qs[:min(nQueries, len(qs))] {
		queries = append(queries, parseQ(s))
	}
	// boosted clauses (only reachable through the API)
	queries = append(queries, parseQ("@boost1"), parseQ("@boost2"))
	runE2E(r, repos, queries, repeats)
	if os.Getenv("C29_CHILD") == "" && aggRandomBudget > 0 {
		aggRandomBudget--
		aggregatedE2E(repos, queries[:min(4, len(queries))], "random")
	}
}

// digest: (query, options, file, score bits) of every end-to-end search of this process, compared with a second
// process running the same searches (different map seeds, scheduler, addresses)
var digest []string

// aggRandomBudget: how many of the random end-to-end directories are also searched with display limits in both
// shard arrival orders
var aggRandomBudget int

var _ = sort.Strings
