// C29 harness: the real scoring functions (through hooks, on real loaded shards) against the exact-arithmetic
// Lean model; the real ordering functions against the model; and end-to-end searches through
// search.NewDirectorySearcher repeated several times with DebugScore off and on.
package main

import (
	"encoding/json"
	"fmt"
	"os"
	"path/filepath"
	"sort"

	"verifharness/gen"
)

var w *gen.Writer

func main() {
	f := gen.ParseFlags()
	w = gen.NewWriter(f.Out)
	defer w.Close()
	if f.Replay != "" {
		if err := replay(f.Replay); err != nil {
			fmt.Fprintln(os.Stderr, "replay:", err)
			os.Exit(1)
		}
		return
	}
	if f.Corpus != "" {
		files, _ := filepath.Glob(filepath.Join(f.Corpus, "*.json"))
		sort.Strings(files)
		for _, p := range files {
			if err := replay(p); err != nil {
				fmt.Fprintln(os.Stderr, "corpus:", p, err)
				os.Exit(1)
			}
		}
	}
	r := gen.NewRand(f.Seed)
	unitCases(r.Fork(), f.N(12, 120), f.N(6, 8))
	sortCases(r.Fork(), f.N(400, 8000))
	nDirs := f.N(4, 40)
	for i := 0; i < nDirs; i++ {
		genE2E(r.Fork(), f.N(6, 15), 5)
	}
}

// replay re-runs an end-to-end case (repositories, query string, repeat count) from a replay file or a corpus witness.
func replay(path string) error {
	b, err := os.ReadFile(path)
	if err != nil {
		return err
	}
	var outer struct {
		Case struct {
			Detail *e2eDetail `json:"detail"`
		} `json:"case"`
		Detail *e2eDetail `json:"detail"`
	}
	if err := json.Unmarshal(b, &outer); err != nil {
		return err
	}
	d := outer.Detail
	if d == nil {
		d = outer.Case.Detail
	}
	if d == nil || len(d.Repos) == 0 {
		return fmt.Errorf("%s: not an end-to-end case (unit cases are self-contained in their `in` line)", path)
	}
	q := parseQ(d.Query)
	rep := d.Repeats
	if rep < 2 {
		rep = 5
	}
	runE2E(gen.NewRand(1), d.Repos, []srcQ{q}, rep)
	return nil
}
