// C29 harness: the real scoring functions (through hooks, on real loaded shards) against the exact-arithmetic
// Lean model; the real ordering functions against the model; and end-to-end searches through
// search.NewDirectorySearcher repeated several times with DebugScore off and on.
package main

import (
	"encoding/json"
	"fmt"
	"os"
	"os/exec"
	"path/filepath"
	"sort"
	"strings"

	"verifharness/gen"
)

var w *gen.Writer

func main() {
	f := gen.ParseFlags()
	w = gen.NewWriter(f.Out)
	defer w.Close()
	if f.Replay != "" {
		if err := replay(f.Replay); err != nil {
			fmt.Fprintln(os.Stderr, "replay:", err)
			os.Exit(1)
		}
		return
	}
	if f.Corpus != "" {
		files, _ := filepath.Glob(filepath.Join(f.Corpus, "*.json"))
		sort.Strings(files)
		for _, p := range files {
			if err := replay(p); err != nil {
				fmt.Fprintln(os.Stderr, "corpus:", p, err)
				os.Exit(1)
			}
		}
	}
	generate(f)
}

// generate: the whole generated run for f.Seed / f.Tier
func generate(f gen.Flags) {
	digest = nil // the corpus is not part of the cross-process comparison
	r := gen.NewRand(f.Seed)
	child := os.Getenv("C29_CHILD") != ""
	ru, rs, rc, rp := r.Fork(), r.Fork(), r.Fork(), r.Fork()
	if !child { // the second process only repeats end-to-end searches (same PRNG stream for them)
		unitCases(ru, f.N(12, 120), f.N(6, 8))
		sortCases(rs, f.N(400, 8000))
		collectCases(rc, f.N(150, 3000))
		for i := 0; i < f.N(3, 30); i++ {
			aggregatedE2E(promotionFamily(rp), []srcQ{parseQ("needle")}, "promotion-then-between")
		}
	}
	nDirs := f.N(4, 40)
	aggRandomBudget = f.N(2, 40)
	for i := 0; i < nDirs; i++ {
		genE2E(r.Fork(), f.N(6, 15), 5)
		if i == 1 {
			if child {
				// second process: print the digest of the first two directories and stop
				fmt.Println(strings.Join(digest, "\n"))
				return
			}
			crossProcess(f)
		}
	}
}

// crossProcess runs the same binary again (same seed, same tier) as a child that repeats the unit cases and the
// first two end-to-end directories, and compares every (query, options, file) score bit for bit.
func crossProcess(f gen.Flags) {
	mine := append([]string(nil), digest...)
	cmd := exec.Command(os.Args[0], "-out", filepath.Join(os.TempDir(), fmt.Sprintf("c29-child-%d.jsonl", os.Getpid())), "-tier", f.Tier, "-seed", fmt.Sprint(f.Seed))
	cmd.Env = append(os.Environ(), "C29_CHILD=1")
	cmd.Stderr = nil
	out, err := cmd.Output()
	os.Remove(filepath.Join(os.TempDir(), fmt.Sprintf("c29-child-%d.jsonl", os.Getpid())))
	if err != nil {
		w.Emit(gen.Case{Go: "second process failed: " + err.Error(), Key: "cross-process-child-failed", Class: "cross-process"})
		return
	}
	theirs := strings.Split(strings.TrimSpace(string(out)), "\n")
	// files with equal scores may come in either order ("up to ties"): compare as sets of (search, file, score)
	sort.Strings(mine)
	sort.Strings(theirs)
	cs := gen.Case{Class: "cross-process", Nontrivial: len(mine) > 0, Detail: gen.Detail(map[string]int{"scores_compared": len(mine)})}
	if len(mine) != len(theirs) {
		cs.Go, cs.Key = fmt.Sprintf("two processes returned %d vs %d file scores for the same searches", len(mine), len(theirs)), "cross-process/count-differs"
	} else {
		for i := range mine {
			if mine[i] != theirs[i] {
				cs.Go, cs.Key = fmt.Sprintf("two processes disagree: %s vs %s", mine[i], theirs[i]), "cross-process/score-differs"
				break
			}
		}
	}
	w.Count("cross-process-scores", len(mine))
	w.Emit(cs)
}

// replay re-runs an end-to-end case (repositories, query string, repeat count) from a replay file or a corpus witness.
func replay(path string) error {
	b, err := os.ReadFile(path)
	if err != nil {
		return err
	}
	var outer struct {
		Case struct {
			Detail *e2eDetail `json:"detail"`
		} `json:"case"`
		Detail *e2eDetail `json:"detail"`
		Seed   uint64     `json:"seed"`
		Tier   string     `json:"tier"`
	}
	if err := json.Unmarshal(b, &outer); err != nil {
		return err
	}
	d := outer.Detail
	if d == nil {
		d = outer.Case.Detail
	}
	if d == nil || len(d.Repos) == 0 {
		// a unit-level case (or a broken obligation): every case is a deterministic function of the seed, so the
		// run of that seed is repeated on the current tree
		if outer.Seed == 0 {
			return fmt.Errorf("%s: neither an end-to-end case nor a seed", path)
		}
		generate(gen.Flags{Seed: outer.Seed, Tier: outer.Tier})
		return nil
	}
	q := parseQ(d.Query)
	if d.Aggregated {
		aggregatedE2E(d.Repos, []srcQ{q}, d.Family)
		return nil
	}
	rep := d.Repeats
	if rep < 2 {
		rep = 5
	}
	runE2E(gen.NewRand(1), d.Repos, []srcQ{q}, rep)
	return nil
}
