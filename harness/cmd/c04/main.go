// C04 harness: generated search histories on ONE real searcher (compound shard, docMatchTreeCache sized by
// ZOEKT_DOCMATCHTREE_CACHE = 0/1/2/10) against (a) fresh searchers, one per query (the property's own statement),
// (b) a naive evaluator that shares no code with zoekt, (c) the Lean model of newMatchTree's Meta case + cache +
// search loop (results and cache contents after every search).  Also: the same histories issued concurrently, and
// through search.NewDirectorySearcher next to a second shard.
package main

import (
	"bytes"
	"context"
	"encoding/json"
	"fmt"
	"hash/crc32"
	"io"
	"log"
	"os"
	"path/filepath"
	"regexp"
	"runtime/pprof"
	"sort"
	"strconv"
	"strings"
	"sync"

	gregexp "github.com/grafana/regexp"
	"github.com/sourcegraph/zoekt"
	"github.com/sourcegraph/zoekt/index"
	"github.com/sourcegraph/zoekt/query"
	"github.com/sourcegraph/zoekt/search"

	"verifharness/gen"
	"verifharness/s2util"
)

// ---------- generated query trees ----------

type QN struct {
	Kind  string `json:"k"` // and | or | not | meta | sub
	Kids  []*QN  `json:"c,omitempty"`
	Field string `json:"f,omitempty"`
	Pat   string `json:"p,omitempty"`
}

func (q *QN) toQuery() query.Q {
	switch q.Kind {
	case "and", "or":
		var cs []query.Q
		for _, k := range q.Kids {
			cs = append(cs, k.toQuery())
		}
		if q.Kind == "and" {
			return &query.And{Children: cs}
		}
		return &query.Or{Children: cs}
	case "not":
		return &query.Not{Child: q.Kids[0].toQuery()}
	case "meta":
		return &query.Meta{Field: q.Field, Value: gregexp.MustCompile(q.Pat)}
	case "sub":
		return &query.Substring{Pattern: q.Pat, Content: true, CaseSensitive: true}
	}
	panic("kind " + q.Kind)
}

type Scenario struct {
	Repos   []s2util.Repo `json:"repos"`
	Extra   s2util.Repo   `json:"extra"` // a second, simple shard for the directory searcher
	Cap     int           `json:"cap"`
	History []*QN         `json:"history"`
	// large documents, given as recipes (expanded deterministically; a replay file stays small): document sizes that
	// cross the thresholds of per-shard buffers and caches (hundreds to thousands of lines, next to the small ones)
	Big []BigDoc `json:"big,omitempty"`
}

type BigDoc struct {
	Repo  int    `json:"repo"` // index into Repos; the document becomes that repository's FIRST document
	Lines int    `json:"lines"`
	Seed  uint64 `json:"seed"`
}

// expand: filler lines, a pool word on the first lines and on roughly every 90th line
func (b BigDoc) expand(name string) s2util.Doc {
	r := gen.NewRand(b.Seed)
	var c []byte
	for i := 0; i < b.Lines; i++ {
		if i < 6 || r.Chance(1, 90) {
			c = append(c, gen.Pick(r, words)...)
			if r.Bool() {
				c = append(c, ' ')
				c = append(c, gen.Pick(r, words)...)
			}
		} else {
			c = append(c, 'x')
			c = strconv.AppendInt(c, int64(i), 10)
		}
		c = append(c, '\n')
	}
	return s2util.Doc{Name: name, Content: c}
}

// withBig returns the scenario's repositories with the large documents in place
func (sc Scenario) withBig() []s2util.Repo {
	if len(sc.Big) == 0 {
		return sc.Repos
	}
	out := make([]s2util.Repo, len(sc.Repos))
	copy(out, sc.Repos)
	for k, b := range sc.Big {
		i := b.Repo % len(out)
		d := b.expand(fmt.Sprintf("%s_big%d.txt", out[i].Name, k))
		out[i].Docs = append([]s2util.Doc{d}, out[i].Docs...)
	}
	return out
}

// naive evaluation: a document matches meta.f:p iff its repository has metadata f whose value matches p;
// it matches sub p iff its content contains p.
func (q *QN) naive(md map[string]string, content []byte) bool {
	switch q.Kind {
	case "and":
		for _, k := range q.Kids {
			if !k.naive(md, content) {
				return false
			}
		}
		return true
	case "or":
		for _, k := range q.Kids {
			if k.naive(md, content) {
				return true
			}
		}
		return false
	case "not":
		return !q.Kids[0].naive(md, content)
	case "meta":
		v, ok := md[q.Field]
		return ok && regexp.MustCompile(q.Pat).MatchString(v)
	case "sub":
		return bytes.Contains(content, []byte(q.Pat))
	}
	panic("kind")
}

// ---------- generators ----------

var metaFields = []string{"lic", "a", "a:b"}
var metaValues = []string{"mit", "c", "b:c"}
var metaPats = []string{"mit", "m.t", "c", "b:c", "^b", "c|mit", "^c$", "t$"}
var words = []string{"alpha", "beta", "gamma", "delta", "omega", "kappa"}

func genScenario(r *gen.Rand) Scenario {
	var sc Scenario
	nrepo := r.Range(3, 6)
	id := uint32(1)
	mk := func(name string) s2util.Repo {
		rp := s2util.Repo{Name: name, ID: id}
		id++
		if !r.Chance(1, 6) {
			rp.Metadata = map[string]string{}
			for _, f := range metaFields {
				if r.Chance(3, 4) {
					rp.Metadata[f] = gen.Pick(r, metaValues)
				}
			}
		}
		nd := r.Range(1, 4)
		for d := 0; d < nd; d++ {
			var b []byte
			for w := r.Range(1, 5); w > 0; w-- {
				b = append(b, gen.Pick(r, words)...)
				b = append(b, " \n"[r.Intn(2)])
			}
			rp.Docs = append(rp.Docs, s2util.Doc{Name: fmt.Sprintf("%s_f%d.txt", name, d), Content: b})
		}
		return rp
	}
	for i := 0; i < nrepo; i++ {
		sc.Repos = append(sc.Repos, mk(fmt.Sprintf("repo%d", i)))
	}
	sc.Extra = mk("xtra")
	sc.Cap = gen.Pick(r, []int{0, 1, 1, 2, 2, 10})
	// a small pool of atoms, so that keys repeat across the history
	var pool []*QN
	for i := r.Range(2, 5); i > 0; i-- {
		pool = append(pool, &QN{Kind: "meta", Field: gen.Pick(r, metaFields), Pat: gen.Pick(r, metaPats)})
	}
	if r.Chance(1, 2) { // the two atoms whose cache keys collide: hash("a:b" ":" "c") = hash("a" ":" "b:c")
		pool = append(pool, &QN{Kind: "meta", Field: "a:b", Pat: "c"}, &QN{Kind: "meta", Field: "a", Pat: "b:c"})
	}
	var tree func(depth int) *QN
	tree = func(depth int) *QN {
		k := r.Intn(10)
		if depth == 0 || k < 5 {
			if r.Chance(3, 4) {
				return gen.Pick(r, pool)
			}
			wd := gen.Pick(r, words)
			return &QN{Kind: "sub", Pat: wd[:r.Range(3, len(wd))]}
		}
		switch {
		case k < 7:
			return &QN{Kind: "and", Kids: []*QN{tree(depth - 1), tree(depth - 1)}}
		case k < 9:
			n := &QN{Kind: "or"}
			for j := r.Range(2, 3); j > 0; j-- {
				n.Kids = append(n.Kids, tree(depth-1))
			}
			return n
		default:
			return &QN{Kind: "not", Kids: []*QN{tree(depth - 1)}}
		}
	}
	for i := r.Range(2, 9); i > 0; i-- {
		if len(sc.History) > 0 && r.Chance(1, 3) {
			sc.History = append(sc.History, gen.Pick(r, sc.History)) // exact repetition
		} else {
			sc.History = append(sc.History, tree(2))
		}
	}
	return sc
}

// ---------- running ----------

type tables struct {
	metaIDs  map[string]int // field \x00 pat → ident
	metas    []string       // ident → "key:ident:wantbits"
	keyIDs   map[string]int // checksum → key id
	leafIDs  map[string]int
	leaves   []string
	repoMD   []map[string]string // by repo index of the shard
	docRepo  []uint16
	contents [][]byte // by doc id
}

func bits(bs []bool) string {
	if len(bs) == 0 {
		return "-"
	}
	var sb strings.Builder
	for _, b := range bs {
		if b {
			sb.WriteByte('1')
		} else {
			sb.WriteByte('0')
		}
	}
	return sb.String()
}

// ser serialises the query that reaches newMatchTree: A(..) O(..) N(.) m<i> l<j> T F
func (t *tables) ser(q query.Q) string {
	switch s := q.(type) {
	case *query.And:
		return "A(" + t.serList(s.Children) + ")"
	case *query.Or:
		return "O(" + t.serList(s.Children) + ")"
	case *query.Not:
		return "N(" + t.ser(s.Child) + ")"
	case *query.Const:
		if s.Value {
			return "T"
		}
		return "F"
	case *query.Meta:
		k := s.Field + "\x00" + s.Value.String()
		id, ok := t.metaIDs[k]
		if !ok {
			id = len(t.metas)
			t.metaIDs[k] = id
			cs := index.VerifC04MetaChecksum(s.Field, s.Value)
			kid, ok := t.keyIDs[cs]
			if !ok {
				kid = len(t.keyIDs)
				t.keyIDs[cs] = kid
			}
			re := regexp.MustCompile(s.Value.String())
			want := make([]bool, len(t.repoMD))
			for i, md := range t.repoMD {
				v, has := md[s.Field]
				want[i] = has && re.MatchString(v)
			}
			t.metas = append(t.metas, fmt.Sprintf("%d:%d:%s", kid, id, bits(want)))
		}
		return "m" + strconv.Itoa(id)
	case *query.Substring:
		if !s.Content || s.FileName || !s.CaseSensitive {
			panic("unexpected substring shape " + s.String())
		}
		id, ok := t.leafIDs[s.Pattern]
		if !ok {
			id = len(t.leaves)
			t.leafIDs[s.Pattern] = id
			bs := make([]bool, len(t.contents))
			for i, c := range t.contents {
				bs[i] = bytes.Contains(c, []byte(s.Pattern))
			}
			t.leaves = append(t.leaves, bits(bs))
		}
		return "l" + strconv.Itoa(id)
	}
	panic(fmt.Sprintf("unexpected node %T in prepared query", q))
}

func (t *tables) serList(qs []query.Q) string {
	var parts []string
	for _, q := range qs {
		parts = append(parts, t.ser(q))
	}
	return strings.Join(parts, ",")
}

func searchNames(s zoekt.Searcher, q query.Q) ([]string, error) {
	res, err := s.Search(context.Background(), q, &zoekt.SearchOptions{})
	if err != nil {
		return nil, err
	}
	var names []string
	for _, f := range res.Files {
		names = append(names, f.FileName)
	}
	sort.Strings(names)
	if res.Stats.Crashes > 0 {
		names = append(names, fmt.Sprintf("!crashes=%d", res.Stats.Crashes))
	}
	return names, nil
}

// optsFor: the i-th search of a history runs with one of several option sets (line matches, chunk matches, context)
func optsFor(i int) *zoekt.SearchOptions {
	switch i % 3 {
	case 1:
		return &zoekt.SearchOptions{ChunkMatches: true, NumContextLines: 1}
	case 2:
		return &zoekt.SearchOptions{NumContextLines: 2}
	}
	return &zoekt.SearchOptions{}
}

// searchFull: file names, and a canonical rendering of everything the search reports about every file: score,
// line numbers, line boundaries, fragment offsets, line contents (as a checksum), chunk positions and ranges.
// lines[file] = the line numbers of its LineMatches.
func searchFull(s zoekt.Searcher, q query.Q, opts *zoekt.SearchOptions) (names []string, detail string, lines map[string][]int, err error) {
	o := *opts
	// a single indexData has no recover of its own (the sharded searcher has): a panic is a result, not a harness crash
	defer func() {
		if r := recover(); r != nil {
			names, detail, lines, err = nil, "", nil, fmt.Errorf("search panicked: %v", r)
		}
	}()
	res, err := s.Search(context.Background(), q, &o)
	if err != nil {
		return nil, "", nil, err
	}
	lines = map[string][]int{}
	var fs []string
	for _, f := range res.Files {
		names = append(names, f.FileName)
		var ms []string
		for _, lm := range f.LineMatches {
			lines[f.FileName] = append(lines[f.FileName], lm.LineNumber)
			var fr []string
			for _, x := range lm.LineFragments {
				fr = append(fr, fmt.Sprintf("%d/%d/%d", x.LineOffset, x.Offset, x.MatchLength))
			}
			ms = append(ms, fmt.Sprintf("L%d[%d,%d)%08x b%08x a%08x {%s}", lm.LineNumber, lm.LineStart, lm.LineEnd, crc32.ChecksumIEEE(lm.Line),
				crc32.ChecksumIEEE(lm.Before), crc32.ChecksumIEEE(lm.After), strings.Join(fr, " ")))
		}
		for _, cm := range f.ChunkMatches {
			var rg []string
			for _, x := range cm.Ranges {
				rg = append(rg, fmt.Sprintf("%d:%d:%d-%d:%d:%d", x.Start.ByteOffset, x.Start.LineNumber, x.Start.Column, x.End.ByteOffset, x.End.LineNumber, x.End.Column))
			}
			ms = append(ms, fmt.Sprintf("C@%d:%d:%d %08x(%d) {%s}", cm.ContentStart.ByteOffset, cm.ContentStart.LineNumber, cm.ContentStart.Column,
				crc32.ChecksumIEEE(cm.Content), len(cm.Content), strings.Join(rg, " ")))
		}
		sort.Strings(ms)
		sort.Ints(lines[f.FileName])
		fs = append(fs, fmt.Sprintf("%s score=%.4f %s", f.FileName, f.Score, strings.Join(ms, "; ")))
	}
	sort.Strings(fs)
	sort.Strings(names)
	if res.Stats.Crashes > 0 {
		names = append(names, fmt.Sprintf("!crashes=%d", res.Stats.Crashes))
	}
	detail = fmt.Sprintf("files=%d matches=%d | %s", res.Stats.FileCount, res.Stats.MatchCount, strings.Join(fs, " || "))
	return names, detail, lines, nil
}

// firstDiff shortens two long renderings to the place where they start to differ
func firstDiff(a, b string) string {
	i := 0
	for i < len(a) && i < len(b) && a[i] == b[i] {
		i++
	}
	lo := max(i-60, 0)
	return fmt.Sprintf("…%s  VERSUS  …%s", a[lo:min(i+100, len(a))], b[lo:min(i+100, len(b))])
}

func must(err error) {
	if err != nil {
		panic(err)
	}
}

var scratchRoot string
var scratchN int

func scratch() string {
	scratchN++
	d := filepath.Join(scratchRoot, fmt.Sprintf("s%06d", scratchN))
	must(os.MkdirAll(d, 0o755))
	return d
}

// built shards are reused by consecutive scenarios over the same corpus (building a shard allocates the builder's
// posting tables, which dominates the run time otherwise)
var builtKey, builtDir, builtPath string

func corpusDir(sc Scenario) (shardDir, path string) {
	kb, _ := json.Marshal([]any{sc.Repos, sc.Extra, sc.Big})
	if string(kb) == builtKey {
		return builtDir, builtPath
	}
	if builtDir != "" {
		os.RemoveAll(filepath.Dir(builtDir))
	}
	dir := scratch()
	shardDir = filepath.Join(dir, "idx")
	must(os.MkdirAll(shardDir, 0o755))
	path, err := s2util.WriteCompoundShard(shardDir, filepath.Join(dir, "simple"), sc.withBig())
	must(err)
	must(s2util.WriteSimpleShard(filepath.Join(dir, "xtra_v16.00000.zoekt"), sc.Extra))
	builtKey, builtDir, builtPath = string(kb), shardDir, path
	return shardDir, path
}

func runScenario(w *gen.Writer, sc Scenario, dirMode bool, label string) {
	shardDir, path := corpusDir(sc)
	recipe := sc
	sc.Repos, sc.Big = sc.withBig(), nil // from here on: the expanded corpus (the recipe goes into the replay detail)
	xtraSrc := filepath.Join(filepath.Dir(shardDir), "xtra_v16.00000.zoekt")
	xtraDst := filepath.Join(shardDir, "xtra_v16.00000.zoekt")
	os.Remove(xtraDst)
	must(os.Setenv("ZOEKT_DOCMATCHTREE_CACHE", strconv.Itoa(sc.Cap))) // read by newDocMatchTreeCache(0) at every shard load

	S, err := s2util.OpenSearcher(path)
	must(err)
	defer S.Close()
	names, docRepo, repoNames, ok := index.VerifC04Layout(S)
	if !ok {
		panic("not an indexData")
	}
	mdByName := map[string]map[string]string{}
	contentByName := map[string][]byte{}
	for _, rp := range append(append([]s2util.Repo{}, sc.Repos...), sc.Extra) {
		mdByName[rp.Name] = rp.Metadata
		for _, d := range rp.Docs {
			contentByName[d.Name] = d.Content
		}
	}
	t := &tables{metaIDs: map[string]int{}, keyIDs: map[string]int{}, leafIDs: map[string]int{}, docRepo: docRepo}
	for _, rn := range repoNames {
		t.repoMD = append(t.repoMD, mdByName[rn])
	}
	docID := map[string]int{}
	for i, n := range names {
		docID[n] = i
		t.contents = append(t.contents, contentByName[n])
	}
	ids := func(ns []string) string {
		var xs []int
		for _, n := range ns {
			i, ok := docID[n]
			if !ok {
				return "?" + n
			}
			xs = append(xs, i)
		}
		sort.Ints(xs)
		return gen.NatList(xs)
	}

	_, maxEntries, _ := index.VerifC04CacheDump(S)
	var searches, impls []string
	verdict, key := "ok", ""
	fail := func(v, k string) {
		if verdict == "ok" {
			verdict, key = v, k
		}
	}
	capClass := "cache-off"
	if sc.Cap > 0 {
		capClass = "cache-on"
	}
	solo := make([][]string, len(sc.History))
	soloDetail := make([]string, len(sc.History))
	nontrivial := false
	for i, qn := range sc.History {
		q := qn.toQuery()
		prepared, _ := index.VerifC04Prepared(S, q)
		searches = append(searches, t.ser(prepared))
		got, gotDetail, _, err := searchFull(S, q, optsFor(i))
		if err != nil {
			fail(fmt.Sprintf("search %d of the history failed: %v", i, err), "history-search-failed:"+capClass)
		}
		// the property's own statement: alone, on a freshly loaded index, same configuration
		F, err := s2util.OpenSearcher(path)
		must(err)
		var soloLines map[string][]int
		solo[i], soloDetail[i], soloLines, err = searchFull(F, q, optsFor(i))
		must(err)
		F.Close()
		if gotDetail != soloDetail[i] && strings.Join(got, ",") == strings.Join(solo[i], ",") {
			fail(fmt.Sprintf("search %d of the history reports the same files with other match details (line numbers / boundaries / offsets / scores) than alone on a fresh searcher: %s", i, firstDiff(gotDetail, soloDetail[i])), "history-dependent-details:"+capClass)
		}
		// independent line oracle for a plain content atom: the matching lines are those that contain the pattern
		if qn.Kind == "sub" && !optsFor(i).ChunkMatches {
			for fn, ls := range soloLines {
				var want []int
				for ln, line := range bytes.Split(contentByName[fn], []byte{'\n'}) {
					if bytes.Contains(line, []byte(qn.Pat)) {
						want = append(want, ln+1)
					}
				}
				if fmt.Sprint(ls) != fmt.Sprint(want) {
					fail(fmt.Sprintf("search %d alone reports line numbers %v for %s, the lines containing %q are %v", i, ls, fn, qn.Pat, want), "solo-lines-differ-from-naive")
				}
			}
			w.Count("line-oracle-evaluations", 1)
		}
		// naive oracle
		var naive []string
		for di, n := range names {
			if qn.naive(t.repoMD[docRepo[di]], t.contents[di]) {
				naive = append(naive, n)
			}
		}
		sort.Strings(naive)
		if strings.Join(got, ",") != strings.Join(solo[i], ",") {
			fail(fmt.Sprintf("search %d of the history returned %v, alone on a fresh searcher %v", i, got, solo[i]), "history-dependent:"+capClass)
		}
		if strings.Join(solo[i], ",") != strings.Join(naive, ",") {
			fail(fmt.Sprintf("search %d alone returned %v, naive evaluation %v", i, solo[i], naive), "solo-differs-from-naive")
		}
		if len(got) > 0 && len(got) < len(names) {
			nontrivial = true
		}
		entries, _, _ := index.VerifC04CacheDump(S)
		var es []string
		for _, e := range entries {
			kid, ok := t.keyIDs[e.KeyValue]
			if !ok || e.KeyField != "Meta" {
				kid = 999
			}
			fd := 0
			if e.FirstDone {
				fd = 1
				fail("a cached match-tree node was iterated (cursor moved): it is shared between searches", "cached-node-mutated")
			}
			es = append(es, fmt.Sprintf("%d:%s:%d:%d", kid, bits(e.Pred), fd, e.DocID))
		}
		sort.Strings(es)
		c := "-"
		if len(es) > 0 {
			c = strings.Join(es, ",")
		}
		if len(entries) > maxEntries {
			fail("cache holds more entries than its capacity", "cache-over-capacity")
		}
		impls = append(impls, fmt.Sprintf("r=%s;c=%s;s=%s", ids(got), c, ids(solo[i])))
	}
	or := func(xs []string) string {
		if len(xs) == 0 {
			return "-"
		}
		return strings.Join(xs, ";")
	}
	in := fmt.Sprintf("hist %d %d %s %s %s %s", maxEntries, len(names), gen.NatList(docRepo), or(t.metas), or(t.leaves), strings.Join(searches, "|"))
	cs := gen.Case{In: in, Impl: strings.Join(impls, "|"), Class: label + "/" + capClass, Nontrivial: nontrivial, Detail: gen.Detail(map[string]any{"scenario": recipe})}
	if verdict != "ok" {
		cs.Go, cs.Key = verdict, key
	}
	w.Emit(cs)
	w.Count("searches", len(sc.History))
	w.Count("meta-atoms-reaching-newMatchTree", len(t.metas))

	// ---- the same history, concurrently, on the same searcher ----
	conc := func(s zoekt.Searcher, want [][]string, wantDetail []string, class string) {
		var mu sync.Mutex
		bad := ""
		var wg sync.WaitGroup
		for g := 0; g < 4; g++ {
			wg.Add(1)
			go func(g int) {
				defer wg.Done()
				for rep := 0; rep < 3; rep++ {
					for i := range sc.History {
						j := (i + g) % len(sc.History)
						got, gotDetail, _, err := searchFull(s, sc.History[j].toQuery(), optsFor(j))
						if err != nil || strings.Join(got, ",") != strings.Join(want[j], ",") {
							mu.Lock()
							if bad == "" {
								bad = fmt.Sprintf("concurrent search %d returned %v (err %v), alone %v", j, got, err, want[j])
							}
							mu.Unlock()
						} else if wantDetail != nil && gotDetail != wantDetail[j] {
							mu.Lock()
							if bad == "" {
								bad = fmt.Sprintf("concurrent search %d reports other match details than alone: %s", j, firstDiff(gotDetail, wantDetail[j]))
							}
							mu.Unlock()
						}
					}
				}
			}(g)
		}
		wg.Wait()
		c := gen.Case{Class: class + "/" + capClass, Nontrivial: nontrivial, Detail: gen.Detail(map[string]any{"scenario": recipe, "mode": class})}
		if bad != "" {
			c.Go, c.Key = bad, "concurrent-history-dependent:"+capClass
		}
		w.Emit(c)
	}
	conc(S, solo, soloDetail, "concurrent")

	// ---- end to end: search.NewDirectorySearcher over the compound shard and a second shard ----
	if dirMode {
		must(os.Link(xtraSrc, xtraDst))
		naiveAll := make([][]string, len(sc.History))
		for i, qn := range sc.History {
			for _, rp := range append(append([]s2util.Repo{}, sc.Repos...), sc.Extra) {
				for _, d := range rp.Docs {
					if qn.naive(rp.Metadata, d.Content) {
						naiveAll[i] = append(naiveAll[i], d.Name)
					}
				}
			}
			sort.Strings(naiveAll[i])
		}
		ds, err := search.NewDirectorySearcher(shardDir)
		must(err)
		bad, badKey := "", ""
		dirDetail := make([]string, len(sc.History))
		for i, qn := range sc.History {
			got, gotDetail, _, err := searchFull(ds, qn.toQuery(), optsFor(i))
			must(err)
			fresh, err := search.NewDirectorySearcher(shardDir)
			must(err)
			alone, aloneDetail, _, err := searchFull(fresh, qn.toQuery(), optsFor(i))
			must(err)
			fresh.Close()
			dirDetail[i] = aloneDetail
			if gotDetail != aloneDetail && strings.Join(got, ",") == strings.Join(alone, ",") && bad == "" {
				bad, badKey = fmt.Sprintf("directory searcher: search %d of the history reports other match details than alone on a fresh directory searcher: %s", i, firstDiff(gotDetail, aloneDetail)), "dir-history-dependent-details:"+capClass
			}
			if strings.Join(got, ",") != strings.Join(alone, ",") && bad == "" {
				bad, badKey = fmt.Sprintf("directory searcher: search %d of the history returned %v, alone on a fresh directory searcher %v", i, got, alone), "dir-history-dependent:"+capClass
			}
			if strings.Join(alone, ",") != strings.Join(naiveAll[i], ",") && bad == "" {
				bad, badKey = fmt.Sprintf("directory searcher: search %d alone returned %v, naive evaluation %v", i, alone, naiveAll[i]), "dir-solo-differs-from-naive"
			}
		}
		c := gen.Case{Class: "directory-searcher/" + capClass, Nontrivial: nontrivial, Detail: gen.Detail(map[string]any{"scenario": recipe, "mode": "directory"})}
		if bad != "" {
			c.Go, c.Key = bad, badKey
		}
		w.Emit(c)
		conc(ds, naiveAll, dirDetail, "directory-concurrent")
		ds.Close()
	}
}

func loadScenario(path string) (Scenario, bool) {
	b, err := os.ReadFile(path)
	if err != nil {
		return Scenario{}, false
	}
	var top map[string]json.RawMessage
	if json.Unmarshal(b, &top) != nil {
		return Scenario{}, false
	}
	raw := top["scenario"]
	if c, ok := top["case"]; ok { // a replay file written by check
		var cs struct {
			Detail map[string]json.RawMessage `json:"detail"`
		}
		if json.Unmarshal(c, &cs) == nil {
			raw = cs.Detail["scenario"]
		}
	}
	var sc Scenario
	if raw == nil || json.Unmarshal(raw, &sc) != nil || len(sc.Repos) == 0 {
		return Scenario{}, false
	}
	return sc, true
}

func main() {
	f := gen.ParseFlags()
	if pf := os.Getenv("C04_PROF"); pf != "" {
		fh, _ := os.Create(pf)
		pprof.StartCPUProfile(fh)
		defer pprof.StopCPUProfile()
	}
	log.SetOutput(io.Discard) // zoekt logs every shard it writes and loads
	w := gen.NewWriter(f.Out)
	defer w.Close()
	scratchRoot = filepath.Join(os.Getenv("VERIF_WORK"), "scratch")
	if os.Getenv("VERIF_WORK") == "" {
		scratchRoot = filepath.Join(os.TempDir(), "c04-scratch")
	}
	must(os.MkdirAll(scratchRoot, 0o755))
	defer os.RemoveAll(scratchRoot)

	if f.Replay != "" {
		sc, ok := loadScenario(f.Replay)
		if !ok {
			panic("cannot read scenario from " + f.Replay)
		}
		runScenario(w, sc, true, "replay")
		return
	}
	if f.Corpus != "" {
		files, _ := filepath.Glob(filepath.Join(f.Corpus, "*.json"))
		sort.Strings(files)
		for _, p := range files {
			if sc, ok := loadScenario(p); ok {
				runScenario(w, sc, true, "corpus")
			}
		}
	}
	r := gen.NewRand(f.Seed)
	n := f.N(12, 300) // corpora; each carries several histories and cache sizes
	for i := 0; i < n; i++ {
		base := genScenario(r)
		if i%3 == 1 { // large documents next to small ones
			for k := r.Range(1, 2); k > 0; k-- {
				base.Big = append(base.Big, BigDoc{Repo: r.Intn(len(base.Repos)), Lines: gen.Pick(r, []int{300, 1500, 4200, 4700, 5300}), Seed: r.U64()})
			}
			base.Big[0].Lines = gen.Pick(r, []int{4200, 4700, 5300})
			w.Count("corpora-with-documents-over-4096-lines", 1)
		}
		for j := 0; j < 20; j++ {
			sc := genScenario(r)
			sc.Repos, sc.Extra, sc.Big = base.Repos, base.Extra, base.Big
			runScenario(w, sc, j%7 == 0, "generated")
		}
	}
}
