package gen

// Helpers for the properties that live in `package main` of cmd/zoekt-sourcegraph-indexserver (C30, C31, C32):
// build that command from the repository under test with -tags verif and talk to its env-guarded
// line-protocol driver (zz_verif_driver.go) over a pipe.

import (
	"bufio"
	"fmt"
	"io"
	"os"
	"os/exec"
	"path/filepath"
	"strings"
	"syscall"
)

// IxsRepoDir is the repository under test (VERIF_REPO, default /repo).
func IxsRepoDir() string {
	if d := os.Getenv("VERIF_REPO"); d != "" {
		return d
	}
	return "/repo"
}

// IxsWorkDir is the check's scratch directory for this run (VERIF_WORK), or a fresh temp dir.
func IxsWorkDir() string {
	if d := os.Getenv("VERIF_WORK"); d != "" {
		return d
	}
	d, err := os.MkdirTemp("", "verifwork")
	if err != nil {
		panic(err)
	}
	return d
}

// BuildIndexserver builds cmd/zoekt-sourcegraph-indexserver of the repository under test with -tags verif
// and returns the binary's path. A build failure means a hooked declaration changed shape: exit non-zero.
func BuildIndexserver(tag string) string {
	// a stable output path lets `go build` skip the link when the tree has not changed (it compares build ids);
	// one path per property so that concurrent checks do not write the same file
	bin := filepath.Join(IxsWorkDir(), "indexserver.verif.bin")
	if root := os.Getenv("VERIF_ROOT"); root != "" {
		if err := os.MkdirAll(filepath.Join(root, "harness", "bin"), 0o755); err == nil {
			bin = filepath.Join(root, "harness", "bin", "indexserver."+tag+".bin")
		}
	}
	if lk, err := os.OpenFile(bin+".lock", os.O_CREATE|os.O_RDWR, 0o644); err == nil {
		defer lk.Close()
		if syscall.Flock(int(lk.Fd()), syscall.LOCK_EX) == nil {
			defer syscall.Flock(int(lk.Fd()), syscall.LOCK_UN)
		}
	}
	cmd := exec.Command("go", "build", "-tags", "verif", "-o", bin, "./cmd/zoekt-sourcegraph-indexserver")
	cmd.Dir = IxsRepoDir()
	out, err := cmd.CombinedOutput()
	if err != nil {
		fmt.Fprintf(os.Stderr, "building the indexserver driver failed: %v\n%s\n", err, out)
		os.Exit(3)
	}
	return bin
}

// IxsLineProc is a subprocess answering one line per request line.
type IxsLineProc struct {
	cmd *exec.Cmd
	in  io.WriteCloser
	out *bufio.Reader
}

func StartIxsLineProc(bin string, env ...string) *IxsLineProc {
	cmd := exec.Command(bin)
	cmd.Env = append(os.Environ(), env...)
	cmd.Stderr = io.Discard
	in, err := cmd.StdinPipe()
	if err != nil {
		panic(err)
	}
	out, err := cmd.StdoutPipe()
	if err != nil {
		panic(err)
	}
	if err := cmd.Start(); err != nil {
		panic(err)
	}
	return &IxsLineProc{cmd: cmd, in: in, out: bufio.NewReaderSize(out, 1<<20)}
}

// Do sends one request and returns the answer; ok=false if the process died (a crash of the code under test).
func (p *IxsLineProc) Do(line string) (string, bool) {
	if _, err := io.WriteString(p.in, line+"\n"); err != nil {
		return "", false
	}
	s, err := p.out.ReadString('\n')
	if err != nil {
		return strings.TrimRight(s, "\r\n"), false
	}
	return strings.TrimRight(s, "\r\n"), true
}

func (p *IxsLineProc) Close() {
	p.in.Close()
	p.cmd.Wait()
}
