// Shared by the C27 / C28 harnesses (and C08 for the rune pools): regexp pattern and subject generators, the wire
// format of syntax trees (lean/ZoektModel/C27/Wire.lean), fold orbits, byte→rune span conversion.
package gen

import (
	"fmt"
	"regexp/syntax"
	"sort"
	"strings"
	"unicode"
	"unicode/utf8"
)

// ---------- wire format ----------

func runesDot(rs []rune) string {
	var sb strings.Builder
	for i, r := range rs {
		if i > 0 {
			sb.WriteByte('.')
		}
		fmt.Fprintf(&sb, "%d", r)
	}
	return sb.String()
}

func bit(b bool) string {
	if b {
		return "1"
	}
	return "0"
}

// ReTree dumps a syntax tree in the prefix token format understood by the Lean drivers. ok=false when the tree
// has a shape the model does not cover (unknown op, capture name outside [A-Za-z0-9_]).
func ReTree(re *syntax.Regexp) (string, bool) {
	var toks []string
	ok := true
	var walk func(re *syntax.Regexp)
	walk = func(re *syntax.Regexp) {
		ng := bit(re.Flags&syntax.NonGreedy != 0)
		switch re.Op {
		case syntax.OpNoMatch:
			toks = append(toks, "nm")
		case syntax.OpEmptyMatch:
			toks = append(toks, "em")
		case syntax.OpLiteral:
			toks = append(toks, "L"+bit(re.Flags&syntax.FoldCase != 0)+":"+runesDot(re.Rune))
		case syntax.OpCharClass:
			toks = append(toks, "C:"+runesDot(re.Rune))
		case syntax.OpAnyCharNotNL:
			toks = append(toks, "dn")
		case syntax.OpAnyChar:
			toks = append(toks, "da")
		case syntax.OpBeginLine:
			toks = append(toks, "bl")
		case syntax.OpEndLine:
			toks = append(toks, "el")
		case syntax.OpBeginText:
			toks = append(toks, "bt")
		case syntax.OpEndText:
			toks = append(toks, "et"+bit(re.Flags&syntax.WasDollar != 0))
		case syntax.OpWordBoundary:
			toks = append(toks, "wb")
		case syntax.OpNoWordBoundary:
			toks = append(toks, "nwb")
		case syntax.OpCapture:
			for _, c := range re.Name {
				if !(c == '_' || c >= '0' && c <= '9' || c >= 'a' && c <= 'z' || c >= 'A' && c <= 'Z') {
					ok = false
				}
			}
			toks = append(toks, "P:"+re.Name)
			walk(re.Sub[0])
		case syntax.OpStar:
			toks = append(toks, "st"+ng)
			walk(re.Sub[0])
		case syntax.OpPlus:
			toks = append(toks, "pl"+ng)
			walk(re.Sub[0])
		case syntax.OpQuest:
			toks = append(toks, "qu"+ng)
			walk(re.Sub[0])
		case syntax.OpRepeat:
			toks = append(toks, fmt.Sprintf("rp%s:%d:%d", ng, re.Min, re.Max))
			walk(re.Sub[0])
		case syntax.OpConcat:
			toks = append(toks, fmt.Sprintf("cat:%d", len(re.Sub)))
			for _, s := range re.Sub {
				walk(s)
			}
		case syntax.OpAlternate:
			toks = append(toks, fmt.Sprintf("alt:%d", len(re.Sub)))
			for _, s := range re.Sub {
				walk(s)
			}
		default:
			ok = false
			toks = append(toks, "??")
		}
	}
	walk(re)
	return strings.Join(toks, ","), ok
}

// ReStats: node count, op histogram key set.
func ReOps(re *syntax.Regexp, into map[string]int) {
	into[re.Op.String()]++
	for _, s := range re.Sub {
		ReOps(s, into)
	}
}

// NonPrintable lists (sorted, unique, dotted) the runes the printer may pass to escape() for this tree — every class
// or literal rune and its neighbours — that unicode.IsPrint rejects.
func NonPrintable(re *syntax.Regexp) string {
	set := map[rune]bool{}
	var walk func(re *syntax.Regexp)
	walk = func(re *syntax.Regexp) {
		for _, r := range re.Rune {
			for _, x := range []rune{r - 1, r, r + 1} {
				if x >= 0 && !unicode.IsPrint(x) {
					set[x] = true
				}
			}
		}
		for _, s := range re.Sub {
			walk(s)
		}
	}
	walk(re)
	if len(set) == 0 {
		return "-"
	}
	rs := make([]rune, 0, len(set))
	for r := range set {
		rs = append(rs, r)
	}
	sort.Slice(rs, func(i, j int) bool { return rs[i] < rs[j] })
	return runesDot(rs)
}

// Orbit returns the unicode.SimpleFold orbit of r (including r).
func Orbit(r rune) []rune {
	out := []rune{r}
	for f := unicode.SimpleFold(r); f != r; f = unicode.SimpleFold(f) {
		out = append(out, f)
	}
	return out
}

// Orbits renders the fold table needed for the FoldCase literals of the tree: `p:c.c;p:c` or `-`.
func Orbits(re *syntax.Regexp) string {
	set := map[rune]bool{}
	var walk func(re *syntax.Regexp)
	walk = func(re *syntax.Regexp) {
		if re.Op == syntax.OpLiteral && re.Flags&syntax.FoldCase != 0 {
			for _, r := range re.Rune {
				set[r] = true
			}
		}
		for _, s := range re.Sub {
			walk(s)
		}
	}
	walk(re)
	if len(set) == 0 {
		return "-"
	}
	rs := make([]rune, 0, len(set))
	for r := range set {
		rs = append(rs, r)
	}
	sort.Slice(rs, func(i, j int) bool { return rs[i] < rs[j] })
	var parts []string
	for _, r := range rs {
		parts = append(parts, fmt.Sprintf("%d:%s", r, runesDot(Orbit(r))))
	}
	return strings.Join(parts, ";")
}

// RuneSpans converts byte spans over valid UTF-8 b to rune-index spans `a:b,a:b` (or `-`); ok=false if b is not valid
// UTF-8 or a span boundary is not a rune boundary.
func RuneSpans(b []byte, spans [][]int) (string, bool) {
	if !utf8.Valid(b) {
		return "", false
	}
	idx := make(map[int]int, len(b)+1)
	n := 0
	for i := range string(b) {
		idx[i] = n
		n++
	}
	idx[len(b)] = n
	if len(spans) == 0 {
		return "-", true
	}
	var parts []string
	for _, sp := range spans {
		a, ok1 := idx[sp[0]]
		z, ok2 := idx[sp[1]]
		if !ok1 || !ok2 {
			return "", false
		}
		parts = append(parts, fmt.Sprintf("%d:%d", a, z))
	}
	return strings.Join(parts, ","), true
}

func SubjectRunes(b []byte) string {
	rs := []rune(string(b))
	if len(rs) == 0 {
		return "-"
	}
	return runesDot(rs)
}

func SpansString(spans [][]int) string {
	if len(spans) == 0 {
		return "-"
	}
	var parts []string
	for _, sp := range spans {
		parts = append(parts, fmt.Sprintf("%d:%d", sp[0], sp[1]))
	}
	return strings.Join(parts, ",")
}

// ---------- generators ----------

// FoldRunes: runes with interesting case folding (orbits of size 3–4, length-changing partners, lone members).
var FoldRunes = []rune{'k', 'K', 'K', 's', 'S', 'ſ', 'i', 'I', 'İ', 'ı', 'σ', 'ς', 'Σ', 'é', 'É', 'ß', 'ẞ', 'å', 'Å', 'Å',
	'ǅ', 'ǆ', 'Ǆ', 'µ', 'μ', 'Μ', 'θ', 'ϑ', 'Θ', 'ϴ', 'ω', 'Ω', 'Ω', 'ᲀ', 'в', 'В', 'ⱥ', 'Ⱥ', 'ꙋ', 'Ꙋ', 'ᲈ', '𐐨', '𐐀'}

// literal characters written raw into patterns (none is a regexp metacharacter)
var rawLits = []string{"a", "b", "c", "x", "y", "z", "A", "B", "Z", "0", "7", "_", " ", "-", ":", ",", "=", "<", "/", "#", "~", "\"", "'", "&",
	"é", "É", "ü", "日", "本", "😀", "ſ", "K", "k", "K", "σ", "ς", "Σ", "İ", "ı", "i", "I", "ß", "ẞ", "ǅ", "s", "S",
	"\u00a0", "\u00ad", "\u200b", "\ufeff", "\u0378", "\ue000", "\u2028", "\u0085", "\u0301"}

// escaped literal atoms
var escLits = []string{`\.`, `\(`, `\)`, `\*`, `\+`, `\?`, `\[`, `\]`, `\{`, `\}`, `\|`, `\\`, `\^`, `\$`, `\n`, `\t`, `\r`, `\f`, `\v`, `\a`,
	`\x01`, `\x7f`, `\x00`, `\x{85}`, `\x{10FFFF}`, `\x{D7FF}`, `\x{E000}`, `\x{FFFD}`, `\-`, `\_`, `\/`, `\Qa.b\E`, `\x41`, `\101`}

var classAtoms = []string{`[a-c]`, `[^a-c]`, `[^\n]`, `[\d_]`, `[[:alpha:]]`, `[^[:space:]x]`, `\d`, `\D`, `\w`, `\W`, `\s`, `\S`,
	`[a\-z]`, `[-a]`, `[a-]`, `[\]]`, `[\^a]`, `[^\x00-\x{10FFFF}]`, `[\x00-\x{10FFFF}]`, `[^a]`, `[K]`, `[k]`, `[Kk]`, `[Aa]`, `[à-ÿ]`,
	`[^\x00-\x08\x0e-\x{10FFFF}]`, `[\x00-/:-\x{10FFFF}]`, `[\x00-\t\x0b-\x{10FFFF}]`, `[^\t-\r]`, `[\x{80}-\x{10FFFF}]`, `[^\x{80}-\x{10FFFF}]`,
	`[\x{D7FF}-\x{E000}]`, `[^\x{D800}-\x{DFFF}]`, `[ſs]`, `[σς]`, `[İi]`, `[[:^alpha:]]`, `[[:word:]-]`, `[\pN]`, `[^\pL\d]`, `[\p{Greek}]`, `\pZ`, `\PL`,
	`[a-ck-mx-z]`, `[\x01-\x1f]`, `[.]`, `[*+?]`, `[{}()|]`, `[\\]`, `[$^]`, `[a^]`, `[ ­]`, `[--/]`, `[+--]`, `[\--a]`, `[!--]`}

var anchorAtoms = []string{`^`, `$`, `\A`, `\z`, `\b`, `\B`, `(?-m:^)`, `(?-m:$)`, `(?m:^)`, `(?m:$)`}
var dotAtoms = []string{`.`, `(?s:.)`, `(?-s:.)`}
var repeatOps = []string{`{10}`, `{2,10}`, `{0,1}?`, `{3}?`, `*`, `+`, `?`, `*?`, `+?`, `??`, `{2}`, `{0}`, `{1}`, `{0,1}`, `{2,}`, `{0,}`, `{1,}`, `{1,3}`, `{2,3}?`, `{0,0}`, `{1,1}`, `{0,2}?`, `{3,}?`, `{0,3}`}
var groupOpens = []string{`(`, `(`, `(?:`, `(?:`, `(?P<n>`, `(?P<x1>`, `(?i:`, `(?-i:`, `(?s:`, `(?U:`, `(?m:`, `(?-m:`, `(?is:`, `(?i-s:`}
var globalFlags = []string{``, ``, ``, ``, `(?i)`, `(?s)`, `(?U)`, `(?m)`, `(?-m)`, `(?is)`, `(?iU)`}

// PatGen generates pattern strings in the RE2/Go syntax; Hints collects literal text that occurs in the pattern, for
// subject generation.
type PatGen struct {
	R       *Rand
	Hints   []string
	NoClass bool // leave out character classes with large Unicode tables
}

func (g *PatGen) atom(depth int) string {
	r := g.R
	switch k := r.Intn(20); {
	case k < 7:
		s := Pick(r, rawLits)
		g.Hints = append(g.Hints, s)
		return s
	case k < 9:
		s := Pick(r, escLits)
		return s
	case k < 12:
		for {
			s := Pick(r, classAtoms)
			if g.NoClass && (strings.Contains(s, `\p`) || strings.Contains(s, `\P`)) {
				continue
			}
			return s
		}
	case k < 13:
		return Pick(r, dotAtoms)
	case k < 15:
		return Pick(r, anchorAtoms)
	default:
		if depth <= 0 {
			s := Pick(r, rawLits)
			g.Hints = append(g.Hints, s)
			return s
		}
		if r.Chance(1, 12) {
			return Pick(r, []string{"()", "(?:)", "(|)", "(?:|)"})
		}
		return Pick(r, groupOpens) + g.alt(depth-1) + ")"
	}
}

func (g *PatGen) piece(depth int) string {
	a := g.atom(depth)
	r := g.R
	if r.Chance(1, 3) {
		a += Pick(r, repeatOps)
		if r.Chance(1, 8) { // repeat of a repeat needs a group
			a = "(?:" + a + ")" + Pick(r, repeatOps)
		}
	}
	return a
}

func (g *PatGen) concat(depth int) string {
	n := g.R.Range(0, 4)
	if g.R.Chance(4, 5) && n == 0 {
		n = 1
	}
	var sb strings.Builder
	for i := 0; i < n; i++ {
		if g.R.Chance(1, 4) { // a run of literal characters (word)
			w := Pick(g.R, []string{"foo", "bar", "Foo", "ab", "abc", "xyz", "ſtop", "Kelvin", "οδος", "ΟΔΟΣ", "istanbul", "İstanbul", "straße", "日本語", "a.b"})
			g.Hints = append(g.Hints, w)
			sb.WriteString(syntaxQuote(w))
			continue
		}
		sb.WriteString(g.piece(depth))
	}
	return sb.String()
}

func syntaxQuote(s string) string {
	var sb strings.Builder
	for _, c := range s {
		if strings.ContainsRune(`\.+*?()|[]{}^$`, c) {
			sb.WriteByte('\\')
		}
		sb.WriteRune(c)
	}
	return sb.String()
}

// alternations whose branches share prefixes / suffixes (the parser factors them) or shadow each other
var factorAlts = []string{"foo|foobar|fo", "abc|abd|ab[ce]", "bar|bar", "a|ab|abc", "abc|ab|a", "xyz|xyZ|xYz", "foo|", "|foo", "(?i:foo)|foo", "Kelvin|kelvin|KELVIN",
	"straße|strasse", "a*|a+|a?", "[a-c]|[b-d]", "x|y|z", `\d|\w`, "οδος|οδοσ", "ab(c|d)|ab(e|f)", "日本|日本語"}

func (g *PatGen) alt(depth int) string {
	if g.R.Chance(1, 12) {
		w := Pick(g.R, factorAlts)
		g.Hints = append(g.Hints, strings.FieldsFunc(w, func(c rune) bool { return strings.ContainsRune(`|()[]*+?\`, c) })...)
		return w
	}
	n := 1
	if g.R.Chance(1, 3) {
		n = g.R.Range(2, 4)
	}
	parts := make([]string, n)
	for i := range parts {
		parts[i] = g.concat(depth)
	}
	return strings.Join(parts, "|")
}

// Pattern returns a random pattern.
func (g *PatGen) Pattern() string {
	g.Hints = g.Hints[:0]
	return Pick(g.R, globalFlags) + g.alt(g.R.Range(0, 3))
}

var subjectPool = []string{"a", "b", "c", "x", "z", "A", "B", "Z", "0", "7", "_", " ", "\n", "\n", "\t", "-", ".", "(", "*", "\\", "é", "É", "日", "😀", "ſ", "K", "k", "K",
	"σ", "ς", "Σ", "İ", "ı", "i", "I", "ß", "ẞ", "s", "S", "\u00a0", "\u00ad", "\u200b", "\x01", "\x7f", "\x00", "\r", "\u0085", "\u2028", "\U0010FFFF", "\ud7ff", "\ue000", "\ufffd",
	"foo", "Foo", "FOO", "bar", "ab", "abc", "ABC", "xyz", "ſtop", "stop", "kelvin", "Kelvin", "οδος", "οδοσ", "ΟΔΟΣ", "istanbul", "İstanbul", "ISTANBUL", "ıstanbul", "straße", "STRASSE", "日本語", "a.b", "axb", "n", "x1"}

// Subject builds a valid-UTF-8 subject of at most maxRunes runes from the pattern's hints and a fixed pool.
func Subject(r *Rand, hints []string, maxRunes int) []byte {
	var sb strings.Builder
	n := r.Range(0, 7)
	count := 0
	for i := 0; i < n && count < maxRunes; i++ {
		var s string
		if len(hints) > 0 && r.Chance(1, 2) {
			s = Pick(r, hints)
			if r.Chance(1, 4) { // case-mangle the hint
				if r.Bool() {
					s = strings.ToUpper(s)
				} else {
					s = strings.ToLower(s)
				}
			} else if r.Chance(1, 6) { // replace a rune by a fold partner
				rs := []rune(s)
				if len(rs) > 0 {
					k := r.Intn(len(rs))
					rs[k] = Pick(r, Orbit(rs[k]))
					s = string(rs)
				}
			}
		} else {
			s = Pick(r, subjectPool)
		}
		c := utf8.RuneCountInString(s)
		if count+c > maxRunes {
			continue
		}
		count += c
		sb.WriteString(s)
	}
	return []byte(sb.String())
}
