// Helpers for the harnesses that build real Git repositories (C13, C14): plumbing-only repository construction
// (no work tree), tree listing through `git ls-tree`, Git blob hashing done independently of git and of zoekt.
package gen

import (
	"bytes"
	"compress/zlib"
	"crypto/sha1"
	"encoding/hex"
	"fmt"
	"os"
	"os/exec"
	"path/filepath"
	"sort"
	"strings"
)

// GitEntry is one leaf of a tree: Mode is "100644", "100755", "120000" or "160000" (gitlink).
type GitEntry struct {
	Mode string
	Hash string
	Path string
}

type GitRepo struct {
	Dir   string // the bare repository
	env   []string
	blobs map[string]string // content => hash (written)
	heads map[string]string // branch => head commit
	n     int
}

func NewGitRepo(dir string) *GitRepo {
	g := &GitRepo{Dir: dir, blobs: map[string]string{}, heads: map[string]string{}}
	g.env = append(os.Environ(),
		"GIT_CONFIG_GLOBAL=/dev/null", "GIT_CONFIG_SYSTEM=/dev/null", "GIT_CONFIG_NOSYSTEM=1",
		"GIT_AUTHOR_NAME=v", "GIT_AUTHOR_EMAIL=v@example.com", "GIT_COMMITTER_NAME=v", "GIT_COMMITTER_EMAIL=v@example.com",
		"GIT_INDEX_FILE="+filepath.Join(dir, "verif-index"))
	if err := os.MkdirAll(dir, 0o755); err != nil {
		panic(err)
	}
	g.Git(nil, "init", "-q", "--bare", "-b", "main", ".")
	// git treats the empty tree as always present and does not store it; go-git needs the object
	g.writeObject("tree", nil)
	return g
}

// Git runs git in the repository and returns its stdout; a failing command panics (harness bug).
func (g *GitRepo) Git(stdin []byte, args ...string) string {
	out, err := g.TryGit(stdin, args...)
	if err != nil {
		panic(fmt.Sprintf("git %v: %v\n%s", args, err, out))
	}
	return out
}

func (g *GitRepo) TryGit(stdin []byte, args ...string) (string, error) {
	cmd := exec.Command("git", args...)
	cmd.Dir = g.Dir
	g.n++
	cmd.Env = append(append([]string{}, g.env...),
		fmt.Sprintf("GIT_AUTHOR_DATE=%d +0000", 1700000000+g.n), fmt.Sprintf("GIT_COMMITTER_DATE=%d +0000", 1700000000+g.n))
	if stdin != nil {
		cmd.Stdin = bytes.NewReader(stdin)
	}
	var stdout, stderr bytes.Buffer
	cmd.Stdout = &stdout
	cmd.Stderr = &stderr
	err := cmd.Run()
	if err != nil {
		return stdout.String() + stderr.String(), err
	}
	return stdout.String(), nil
}

// GitBlobHash is Git's object id of a blob, computed here (not by git, not by go-git).
func GitBlobHash(content []byte) string {
	h := sha1.New()
	fmt.Fprintf(h, "blob %d\x00", len(content))
	h.Write(content)
	return hex.EncodeToString(h.Sum(nil))
}

// writeObject stores a loose object (zlib-deflated "<type> <len>\x00<body>") and returns its id.
func (g *GitRepo) writeObject(typ string, body []byte) string {
	h := sha1.New()
	hdr := fmt.Sprintf("%s %d\x00", typ, len(body))
	h.Write([]byte(hdr))
	h.Write(body)
	id := hex.EncodeToString(h.Sum(nil))
	dir := filepath.Join(g.Dir, "objects", id[:2])
	fn := filepath.Join(dir, id[2:])
	if _, err := os.Stat(fn); err == nil {
		return id
	}
	if err := os.MkdirAll(dir, 0o755); err != nil {
		panic(err)
	}
	var buf bytes.Buffer
	zw := zlib.NewWriter(&buf)
	zw.Write([]byte(hdr))
	zw.Write(body)
	zw.Close()
	if err := os.WriteFile(fn, buf.Bytes(), 0o444); err != nil {
		panic(err)
	}
	return id
}

// Blob stores content as a blob and returns its id.
func (g *GitRepo) Blob(content []byte) string {
	if h, ok := g.blobs[string(content)]; ok {
		return h
	}
	h := g.writeObject("blob", content)
	if h != GitBlobHash(content) {
		panic("writeObject disagrees with GitBlobHash")
	}
	g.blobs[string(content)] = h
	return h
}

// writeTree stores the tree with the given leaves (paths relative to this tree) and returns its id.
func (g *GitRepo) writeTree(entries []GitEntry) string {
	type item struct {
		name, mode, hash string
	}
	var items []item
	sub := map[string][]GitEntry{}
	var order []string
	for _, e := range entries {
		if i := strings.IndexByte(e.Path, '/'); i >= 0 {
			d := e.Path[:i]
			if _, ok := sub[d]; !ok {
				order = append(order, d)
			}
			sub[d] = append(sub[d], GitEntry{Mode: e.Mode, Hash: e.Hash, Path: e.Path[i+1:]})
		} else {
			items = append(items, item{e.Path, e.Mode, e.Hash})
		}
	}
	for _, d := range order {
		items = append(items, item{d, "40000", g.writeTree(sub[d])})
	}
	key := func(it item) string { // git sorts directories as if their name ended in '/'
		if it.mode == "40000" {
			return it.name + "/"
		}
		return it.name
	}
	sort.Slice(items, func(i, j int) bool { return key(items[i]) < key(items[j]) })
	var body bytes.Buffer
	for _, it := range items {
		raw, err := hex.DecodeString(it.hash)
		if err != nil || len(raw) != 20 {
			panic("bad hash " + it.hash)
		}
		fmt.Fprintf(&body, "%s %s\x00", it.mode, it.name)
		body.Write(raw)
	}
	return g.writeObject("tree", body.Bytes())
}

// Commit makes a commit on refs/heads/<branch> whose tree has exactly the given leaves, and returns its id.
// Objects and the ref are written directly (loose objects); `git ls-tree` / `git fsck` read them back.
func (g *GitRepo) Commit(branch string, entries []GitEntry, msg string) string {
	tree := g.writeTree(entries)
	g.n++
	var body bytes.Buffer
	fmt.Fprintf(&body, "tree %s\n", tree)
	if p, ok := g.heads[branch]; ok {
		fmt.Fprintf(&body, "parent %s\n", p)
	}
	fmt.Fprintf(&body, "author v <v@example.com> %d +0000\ncommitter v <v@example.com> %d +0000\n\n%s\n", 1700000000+g.n, 1700000000+g.n, msg)
	c := g.writeObject("commit", body.Bytes())
	ref := filepath.Join(g.Dir, "refs", "heads", branch)
	if err := os.MkdirAll(filepath.Dir(ref), 0o755); err != nil {
		panic(err)
	}
	if err := os.WriteFile(ref, []byte(c+"\n"), 0o644); err != nil {
		panic(err)
	}
	g.heads[branch] = c
	return c
}

// Repack moves every object into one pack (`git repack -a -d`): the readers then go through packfiles.
func (g *GitRepo) Repack() { g.Git(nil, "repack", "-a", "-d", "-q") }

// Fsck runs `git fsck --strict` (the objects above are hand-written).
func (g *GitRepo) Fsck() string {
	out, err := g.TryGit(nil, "fsck", "--strict", "--no-dangling")
	if err != nil {
		return "fsck: " + out
	}
	return ""
}

// LsTree lists the leaves of rev's tree (recursively), sorted by path.
func (g *GitRepo) LsTree(rev string) []GitEntry {
	out := g.Git(nil, "ls-tree", "-r", "-z", rev)
	var es []GitEntry
	for _, rec := range strings.Split(out, "\x00") {
		if rec == "" {
			continue
		}
		meta, path, ok := strings.Cut(rec, "\t")
		f := strings.Fields(meta)
		if !ok || len(f) != 3 {
			panic("ls-tree record: " + rec)
		}
		es = append(es, GitEntry{Mode: f[0], Hash: f[2], Path: path})
	}
	sort.Slice(es, func(i, j int) bool { return es[i].Path < es[j].Path })
	return es
}

// CatFile returns the content of a blob through `git cat-file blob`.
func (g *GitRepo) CatFile(hash string) []byte {
	return []byte(g.Git(nil, "cat-file", "blob", hash))
}

// RevParse resolves a revision.
func (g *GitRepo) RevParse(rev string) string {
	return strings.TrimSpace(g.Git(nil, "rev-parse", rev))
}

// Interner numbers strings in order of first appearance.
type Interner struct {
	ids   map[string]int
	names []string
}

func NewInterner() *Interner { return &Interner{ids: map[string]int{}} }
func (i *Interner) ID(s string) int {
	if id, ok := i.ids[s]; ok {
		return id
	}
	id := len(i.names)
	i.ids[s] = id
	i.names = append(i.names, s)
	return id
}
func (i *Interner) Has(s string) bool  { _, ok := i.ids[s]; return ok }
func (i *Interner) Name(id int) string { return i.names[id] }
func (i *Interner) Len() int           { return len(i.names) }
