// Package gen: the one PRNG every harness derives its choices from, the case writer, and small generators.
package gen

import (
	"bufio"
	"encoding/hex"
	"encoding/json"
	"flag"
	"fmt"
	"os"
	"sort"
	"strings"
)

// Rand is splitmix64; every random choice of a run derives from VERIF_SEED through it.
type Rand struct{ s uint64 }

func NewRand(seed uint64) *Rand { return &Rand{s: seed*0x9E3779B97F4A7C15 + 0x1234567} }

func (r *Rand) U64() uint64 {
	r.s += 0x9E3779B97F4A7C15
	z := r.s
	z = (z ^ (z >> 30)) * 0xBF58476D1CE4E5B9
	z = (z ^ (z >> 27)) * 0x94D049BB133111EB
	return z ^ (z >> 31)
}

// Intn returns a value in [0,n); n<=0 yields 0.
func (r *Rand) Intn(n int) int {
	if n <= 0 {
		return 0
	}
	return int(r.U64() % uint64(n))
}
func (r *Rand) Range(lo, hi int) int { return lo + r.Intn(hi-lo+1) } // inclusive
func (r *Rand) Bool() bool           { return r.U64()&1 == 1 }
func (r *Rand) Chance(num, den int) bool { return r.Intn(den) < num }
func (r *Rand) Fork() *Rand          { return NewRand(r.U64()) }
func Pick[T any](r *Rand, xs []T) T  { return xs[r.Intn(len(xs))] }
func Shuffle[T any](r *Rand, xs []T) {
	for i := len(xs) - 1; i > 0; i-- {
		j := r.Intn(i + 1)
		xs[i], xs[j] = xs[j], xs[i]
	}
}

// Case is one correspondence / search case.
//   In    – the op line sent to the Lean model driver ("" = no model counterpart; Go oracle only)
//   Impl  – the implementation's canonicalised output for In
//   Go    – verdict of a Go-side oracle on the implementation's behaviour: "" or "ok" = fine, anything else = the property
//           fails on this case; Key names the failure class specifically (matched against known_findings.json)
type Case struct {
	ID     int             `json:"id"`
	In     string          `json:"in,omitempty"`
	Impl   string          `json:"impl,omitempty"`
	Go     string          `json:"go,omitempty"`
	Key    string          `json:"key,omitempty"`
	Class  string          `json:"class,omitempty"` // distribution bucket, free text
	Nontrivial bool        `json:"nontrivial,omitempty"`
	Detail json.RawMessage `json:"detail,omitempty"`
}

type Writer struct {
	f      *os.File
	w      *bufio.Writer
	n      int
	counts map[string]int
}

func NewWriter(path string) *Writer {
	f, err := os.Create(path)
	if err != nil {
		panic(err)
	}
	return &Writer{f: f, w: bufio.NewWriterSize(f, 1<<20), counts: map[string]int{}}
}

func (w *Writer) Emit(c Case) {
	c.ID = w.n
	w.n++
	if strings.ContainsAny(c.In, "\t\n") || strings.ContainsAny(c.Impl, "\t\n") {
		panic("case fields must not contain tab/newline: " + c.In)
	}
	if c.Class != "" {
		w.counts[c.Class]++
	}
	b, err := json.Marshal(c)
	if err != nil {
		panic(err)
	}
	w.w.Write(b)
	w.w.WriteByte('\n')
}

// Count adds to a free-form distribution counter reported in the evidence.
func (w *Writer) Count(key string, n int) { w.counts[key] += n }

func (w *Writer) Close() {
	keys := make([]string, 0, len(w.counts))
	for k := range w.counts {
		keys = append(keys, k)
	}
	sort.Strings(keys)
	b, _ := json.Marshal(map[string]any{"summary": w.counts, "cases": w.n})
	w.w.Write(b)
	w.w.WriteByte('\n')
	w.w.Flush()
	w.f.Close()
}

func Detail(v any) json.RawMessage {
	b, err := json.Marshal(v)
	if err != nil {
		panic(err)
	}
	return b
}

// Hex encodes bytes for the line protocol ("-" = empty).
func Hex(b []byte) string {
	if len(b) == 0 {
		return "-"
	}
	return hex.EncodeToString(b)
}

func UnHex(s string) []byte {
	if s == "-" || s == "" {
		return nil
	}
	b, err := hex.DecodeString(s)
	if err != nil {
		panic(err)
	}
	return b
}

func NatList[T ~int | ~uint32 | ~uint64 | ~int64 | ~uint | ~int32 | ~uint16 | ~uint8](xs []T) string {
	if len(xs) == 0 {
		return "-"
	}
	var sb strings.Builder
	for i, x := range xs {
		if i > 0 {
			sb.WriteByte(',')
		}
		fmt.Fprintf(&sb, "%d", x)
	}
	return sb.String()
}

// Flags common to every harness binary.
type Flags struct {
	Out    string
	Tier   string
	Seed   uint64
	Replay string
	Corpus string
}

func ParseFlags() Flags {
	var f Flags
	flag.StringVar(&f.Out, "out", "cases.jsonl", "output cases file")
	flag.StringVar(&f.Tier, "tier", "quick", "quick|thorough")
	flag.Uint64Var(&f.Seed, "seed", 1, "PRNG seed")
	flag.StringVar(&f.Replay, "replay", "", "replay file: re-run exactly the case(s) in it")
	flag.StringVar(&f.Corpus, "corpus", "", "directory of past failures / witnesses, run first")
	flag.Parse()
	return f
}

func (f Flags) N(quick, thorough int) int {
	if f.Tier == "thorough" {
		return thorough
	}
	return quick
}

// ---- small text generators shared by several harnesses ----

var idents = []string{"foo", "bar", "Foo", "baz", "x", "ab", "main", "func", "a_b", "日本", "é", "İ", "ſ", "K"}

// Text produces mostly-valid source-like text: identifiers, punctuation, newlines, multi-byte runes, and
// (when malformed) invalid UTF-8 and CRs.
func Text(r *Rand, maxTokens int, malformed bool) []byte {
	var b []byte
	n := r.Intn(maxTokens + 1)
	for i := 0; i < n; i++ {
		switch r.Intn(12) {
		case 0, 1, 2, 3, 4:
			b = append(b, Pick(r, idents)...)
		case 5, 6:
			b = append(b, ' ')
		case 7, 8:
			b = append(b, '\n')
		case 9:
			b = append(b, Pick(r, []string{"(", ")", "{", "}", ".", "-", "=", "\t", "  "})...)
		case 10:
			if malformed {
				b = append(b, Pick(r, []string{"\xff", "\xe2\x82", "\r\n", "\xc0\x80", "\xed\xa0\x80"})...)
			} else {
				b = append(b, "€"...)
			}
		case 11:
			b = append(b, byte('a'+r.Intn(26)))
		}
	}
	return b
}
