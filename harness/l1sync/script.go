package l1sync

import (
	"fmt"
	"os"
	"path/filepath"
	"strconv"
	"strings"

	"verifharness/gen"
)

// Scripted scenarios (corpus witnesses). One command per line; paths are relative to <base>/roots unless absolute.
//
//	root <name>
//	repo <path> <template> <version> [bare]
//	setup [flags…] <root>…            run `sync -f` (not a tested round)
//	move <from> <to> | delete <path> | update <path> | weburl <path> <url>
//	bystander <file> (a non-shard file in the index directory) | breakhead <path>
//	renameshard <file> <newfile> | deleteshard <file> | foreign <name> <source|-> <ver|-> <prefix|->
//	sync <root>…                      tested round: preview, then -f
//	remove <selector>…                tested round
func RunScript(base string, tmpls []*Template, t *Tool, lines []string, withPreview bool, emit func(*Round)) error {
	w := &World{Base: base, Index: filepath.Join(base, "idx"), Insts: map[string]*Inst{}, Tmpls: tmpls}
	r := gen.NewRand(1)
	abs := func(p string) string {
		if filepath.IsAbs(p) {
			return p
		}
		return filepath.Join(base, "roots", p)
	}
	dash := func(s string) string {
		if s == "-" {
			return ""
		}
		return s
	}
	for _, line := range lines {
		f := strings.Fields(line)
		if len(f) == 0 || strings.HasPrefix(f[0], "#") {
			continue
		}
		w.logf("script: %s", line)
		switch f[0] {
		case "root":
			p := abs(f[1])
			must(os.MkdirAll(p, 0o755))
			w.Roots = append(w.Roots, p)
		case "repo":
			ti, _ := strconv.Atoi(f[2])
			v, _ := strconv.Atoi(f[3])
			in := &Inst{Path: abs(f[1]), Tmpl: tmpls[ti], Ver: v, Bare: len(f) > 4 && f[4] == "bare"}
			w.materialise(in)
			w.Insts[in.Path] = in
		case "setup":
			args := []string{"-index", w.Index, "-f"}
			for _, a := range f[1:] {
				if strings.HasPrefix(a, "-") || isNumber(a) {
					args = append(args, a)
				} else {
					args = append(args, abs(a))
				}
			}
			if e := run(t, args); e.Failed() {
				return fmt.Errorf("script setup failed: %s %s", e.Err, e.Panic)
			}
		case "move":
			if !w.moveInst(w.Insts[abs(f[1])], abs(f[2])) {
				return fmt.Errorf("script: cannot move %s", f[1])
			}
		case "delete":
			must(os.RemoveAll(abs(f[1])))
			delete(w.Insts, abs(f[1]))
		case "update":
			in := w.Insts[abs(f[1])]
			in.Ver = 1
			w.materialise(in)
		case "weburl":
			in := w.Insts[abs(f[1])]
			in.WebURL = f[2]
			w.writeWebURL(in)
		case "bystander":
			must(os.MkdirAll(w.Index, 0o755))
			must(os.WriteFile(filepath.Join(w.Index, f[1]), []byte("partial shard"), 0o644))
		case "breakhead":
			w.breakHead(w.Insts[abs(f[1])])
		case "renameshard":
			must(os.Rename(filepath.Join(w.Index, f[1]), filepath.Join(w.Index, f[2])))
		case "deleteshard":
			must(os.Remove(filepath.Join(w.Index, f[1])))
		case "foreign":
			src := dash(f[2])
			if src != "" && !filepath.IsAbs(src) && strings.HasPrefix(src, "@") {
				src = abs(src[1:])
			}
			w.foreignShard(f[1], src, dash(f[3]), dash(f[4]), false)
		case "sync", "remove":
			rd := w.scriptRound(t, f[0], f[1:], abs, withPreview)
			emit(rd)
		default:
			return fmt.Errorf("script: unknown command %q", f[0])
		}
	}
	_ = r
	return nil
}

func isNumber(s string) bool { _, err := strconv.Atoi(s); return err == nil }

func (w *World) scriptRound(t *Tool, kind string, tail []string, abs func(string) string, withPreview bool) *Round {
	rd := &Round{World: w, Tool: t, Kind: kind, RefHash: DefaultOptionsHash(), Branch: "HEAD"}
	var args []string
	if kind == "remove" {
		args = append(args, "remove")
		rd.Selectors = tail
	} else {
		for _, a := range tail {
			rd.RootsAbs = append(rd.RootsAbs, abs(a))
		}
		rd.RootArgs = rd.RootsAbs
		rd.Desired, rd.DiscoverErr = Discover(rd.RootsAbs)
		tail = rd.RootArgs
	}
	args = append(args, "-index", w.Index)
	rd.Before, rd.BeforeOK = Inventory(w.Index)
	rd.Bystand = w.Bystanders()
	rd.SnapBefore = Snap(w.Index)
	if withPreview {
		rd.Preview = run(t, append(append([]string{}, args...), tail...))
		rd.SnapPreview = Snap(w.Index)
		rd.AfterPv, _ = Inventory(w.Index)
	}
	rd.Force = run(t, append(append(append([]string{}, args...), "-f"), tail...))
	rd.SnapAfter = Snap(w.Index)
	rd.After, rd.AfterOK = Inventory(w.Index)
	rd.Log = append([]string{}, w.Log...)
	return rd
}
