// Package l1sync: shared machinery of the C33 / C34 harnesses (zoekt-local-sync).
//
// cmd/zoekt-local-sync is package main, so the harness builds the command from the repository's working tree with
// -tags verif and drives it through the env-guarded JSON line protocol of zz_verif_c33.go / zz_verif_c34.go: the real
// execute(), planPrune(), selectRecords(), discoverRepositories() run in that process.
package l1sync

import (
	"bufio"
	"encoding/json"
	"fmt"
	"io"
	"os"
	"os/exec"
	"path/filepath"
	"sync"
)

// BuildTool builds cmd/zoekt-local-sync of $VERIF_REPO with -tags verif into dir and returns the binary's path.
func BuildTool(dir string) (string, error) {
	repo := os.Getenv("VERIF_REPO")
	if repo == "" {
		repo = "/repo"
	}
	bin := filepath.Join(dir, "zoekt-local-sync.verif")
	cmd := exec.Command("go", "build", "-tags", "verif", "-o", bin, "./cmd/zoekt-local-sync")
	cmd.Dir = repo
	cmd.Env = os.Environ()
	if out, err := cmd.CombinedOutput(); err != nil {
		return "", fmt.Errorf("go build cmd/zoekt-local-sync: %v\n%s", err, out)
	}
	return bin, nil
}

// Tool is one running driver process.
type Tool struct {
	bin, mode, cwd string
	cmd            *exec.Cmd
	in             io.WriteCloser
	out            *bufio.Reader
	mu             sync.Mutex
}

type Action struct {
	Shard, Name, Source, Reason string
}

type Spec struct {
	Name, Source string
}

type Record struct {
	Name, Source string
	Shards       []string
}

type Resp struct {
	Out     string   `json:"out"`
	ErrOut  string   `json:"errout"`
	Err     string   `json:"err"`
	Panic   string   `json:"panic"`
	Actions []Action `json:"actions"`
	Repos   []Spec   `json:"repos"`
	Records []Record `json:"records"`
	Crashed bool     `json:"-"` // the driver process died (fatal error / os.Exit inside the command)
}

// StartTool starts the driver (mode "c33" or "c34") with working directory cwd.
func StartTool(bin, mode, cwd string) (*Tool, error) {
	t := &Tool{bin: bin, mode: mode, cwd: cwd}
	return t, t.start()
}

func (t *Tool) start() error {
	cmd := exec.Command(t.bin)
	cmd.Dir = t.cwd
	cmd.Env = append(os.Environ(), "ZOEKT_VERIF_DRIVER="+t.mode, "GOMAXPROCS=2")
	in, err := cmd.StdinPipe()
	if err != nil {
		return err
	}
	out, err := cmd.StdoutPipe()
	if err != nil {
		return err
	}
	cmd.Stderr = io.Discard // log.Printf noise of the indexer
	if err := cmd.Start(); err != nil {
		return err
	}
	t.cmd, t.in, t.out = cmd, in, bufio.NewReaderSize(out, 1<<20)
	return nil
}

func (t *Tool) Close() {
	if t.cmd != nil {
		t.in.Close()
		t.cmd.Wait()
		t.cmd = nil
	}
}

// Call sends one request. If the process dies, Crashed is set and the process is restarted.
func (t *Tool) Call(req map[string]any) Resp {
	t.mu.Lock()
	defer t.mu.Unlock()
	b, err := json.Marshal(req)
	if err != nil {
		panic(err)
	}
	if t.cmd == nil {
		if err := t.start(); err != nil {
			panic(err)
		}
	}
	if _, err := t.in.Write(append(b, '\n')); err != nil {
		t.Close()
		return Resp{Crashed: true, Err: "driver write: " + err.Error()}
	}
	line, err := t.out.ReadBytes('\n')
	if err != nil {
		t.in.Close()
		t.cmd.Wait()
		t.cmd = nil
		return Resp{Crashed: true, Err: "driver died: " + err.Error()}
	}
	var r Resp
	if err := json.Unmarshal(line, &r); err != nil {
		return Resp{Crashed: true, Err: "driver answer: " + err.Error()}
	}
	return r
}

func (t *Tool) Exec(args ...string) Resp {
	return t.Call(map[string]any{"op": "exec", "args": args})
}
