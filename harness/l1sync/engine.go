package l1sync

import (
	"encoding/json"
	"fmt"
	"io"
	"log"
	"os"
	"path/filepath"
	"sort"
	"strings"
	"sync"
	"time"

	"verifharness/gen"
)

// RunScenario: a fresh world, then nRounds rounds; between rounds the roots and the index directory are mutated, so
// every round after the first starts from a prior index state produced by the real tool plus outside interference.
func RunScenario(base string, tmpls []*Template, t *Tool, r *gen.Rand, nRounds int, withPreview bool, emit func(*Round)) {
	w := NewWorld(base, tmpls, r)
	for i := 0; i < nRounds; i++ {
		metaOnly := i > 0 && r.Chance(1, 4)
		if metaOnly {
			// history shape: index, then only repository metadata changes (no commit, no move), then preview / -f
			w.TouchMetadata(r)
		} else if i > 0 {
			w.MutateRoots(r)
			w.MutateIndex(r)
		} else if r.Chance(1, 4) {
			w.MutateIndex(r)
		}
		if r.Chance(1, 3) {
			w.AddBystanders(r)
		}
		kind := "sync"
		if i > 0 && !metaOnly && r.Chance(1, 3) {
			kind = "remove"
		}
		emit(w.RunRound(r, t, kind, withPreview))
	}
}

// Env of a harness run.
type Env struct {
	Work  string // scratch directory
	Bin   string
	Mode  string // "c33" | "c34"
	Tmpls []*Template
}

func Setup(mode string) *Env {
	log.SetOutput(io.Discard) // the builder's progress lines (foreign shards are built in this process)
	work := os.Getenv("VERIF_WORK")
	if work == "" {
		work = filepath.Join(os.TempDir(), "l1sync-"+mode)
	}
	work = filepath.Join(work, "scratch")
	must(os.RemoveAll(work))
	must(os.MkdirAll(work, 0o755))
	// symlink-free absolute path (the tool resolves symlinks in roots)
	if p, err := filepath.EvalSymlinks(work); err == nil {
		work = p
	}
	t0 := time.Now()
	bin, err := BuildTool(work)
	must(err)
	Phase("build-tool", t0)
	t0 = time.Now()
	tm := MakeTemplates(filepath.Join(work, "tmpl"), 3)
	Phase("templates", t0)
	return &Env{Work: work, Bin: bin, Mode: mode, Tmpls: tm}
}

// Parallel runs n jobs on k workers; job i returns its cases; cases are emitted in job order.
func Parallel(n, k int, job func(i int) []gen.Case, w *gen.Writer) {
	results := make([][]gen.Case, n)
	var wg sync.WaitGroup
	ch := make(chan int)
	for j := 0; j < k; j++ {
		wg.Add(1)
		go func() {
			defer wg.Done()
			for i := range ch {
				results[i] = job(i)
			}
		}()
	}
	for i := 0; i < n; i++ {
		ch <- i
	}
	close(ch)
	wg.Wait()
	for _, cs := range results {
		for _, c := range cs {
			w.Emit(c)
		}
	}
}

// CorpusScripts reads corpus/<prop>/*.json: {"script": ["…", …]}.
type CorpusEntry struct {
	File   string
	Script []string `json:"script"`
	What   string   `json:"what"`
}

func ReadCorpus(dir string) []CorpusEntry {
	var out []CorpusEntry
	files, _ := filepath.Glob(filepath.Join(dir, "*.json"))
	sort.Strings(files)
	for _, f := range files {
		b, err := os.ReadFile(f)
		if err != nil {
			continue
		}
		var e CorpusEntry
		if json.Unmarshal(b, &e) == nil && len(e.Script) > 0 {
			e.File = filepath.Base(f)
			out = append(out, e)
		}
	}
	return out
}

// ReplaySpec: what a replay file asks for — a scripted witness, or scenario number i of a seed.
type ReplaySpec struct {
	Script   []string
	Seed     uint64
	Scenario int
	OK       bool
}

func ReadReplay(path string) ReplaySpec {
	b, err := os.ReadFile(path)
	if err != nil {
		return ReplaySpec{}
	}
	var top struct {
		Script []string `json:"script"`
		Case   struct {
			Detail struct {
				Script   []string `json:"script"`
				Seed     uint64   `json:"seed"`
				Scenario *int     `json:"scenario"`
			} `json:"detail"`
		} `json:"case"`
		First struct {
			Detail struct {
				Script   []string `json:"script"`
				Seed     uint64   `json:"seed"`
				Scenario *int     `json:"scenario"`
			} `json:"detail"`
		} `json:"first_disagreement"`
	}
	if json.Unmarshal(b, &top) != nil {
		return ReplaySpec{}
	}
	d := top.Case.Detail
	if d.Scenario == nil && len(d.Script) == 0 {
		d = top.First.Detail
	}
	switch {
	case len(top.Script) > 0:
		return ReplaySpec{Script: top.Script, OK: true}
	case len(d.Script) > 0:
		return ReplaySpec{Script: d.Script, OK: true}
	case d.Scenario != nil:
		return ReplaySpec{Seed: d.Seed, Scenario: *d.Scenario, OK: true}
	}
	return ReplaySpec{}
}

// WithOrigin adds where a case came from (seed + scenario number, or the script) to its detail, for replay.
func WithOrigin(c gen.Case, seed uint64, scenario int, script []string) gen.Case {
	var m map[string]any
	if json.Unmarshal(c.Detail, &m) != nil {
		m = map[string]any{}
	}
	if script != nil {
		m["script"] = script
	} else {
		m["seed"], m["scenario"] = seed, scenario
	}
	c.Detail = gen.Detail(m)
	return c
}

func ScenarioDir(env *Env, tag string, i int) string {
	d := filepath.Join(env.Work, fmt.Sprintf("%s%d", tag, i))
	must(os.MkdirAll(d, 0o755))
	return d
}

func Cleanup(env *Env) {
	if !strings.Contains(env.Work, "scratch") {
		return
	}
	os.RemoveAll(env.Work)
}

// Phase prints how long a phase of the harness took (stderr; shows up in .work/Cxx/log.txt).
func Phase(name string, since time.Time) {
	fmt.Fprintf(os.Stderr, "phase %s: %.1fs\n", name, time.Since(since).Seconds())
}
