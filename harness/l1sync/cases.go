package l1sync

import (
	"fmt"
	"path/filepath"
	"sort"
	"strings"

	"verifharness/gen"
)

const LockFile = ".zoekt-local-sync.lock"

func hasUnparsed(evs []Event) string {
	for _, e := range evs {
		if e.Kind == "??" {
			return e.Raw
		}
	}
	return ""
}

// ErrClass of a command result, as the Lean model names it.
func (rd *Round) ErrClass(e Exec) string {
	switch {
	case e.Panic != "":
		return "panic"
	case e.Err == "":
		return "ok"
	case rd.Kind == "remove" && strings.Contains(e.Err, "not found"):
		return "notfound"
	case rd.Kind == "remove" && strings.Contains(e.Err, "ambiguous"):
		return "ambiguous"
	default:
		return "err"
	}
}

func kinds(evs []Event) string {
	seen := map[string]bool{}
	for _, e := range evs {
		seen[e.Kind] = true
	}
	var ks []string
	for k := range seen {
		if k != "PF" && k != "IG" {
			ks = append(ks, k)
		}
	}
	sort.Strings(ks)
	return strings.Join(ks, "+")
}

// EffectsVsOutput checks the forced run's printed actions against what actually happened to the index directory
// (snapshots before / after). Empty = consistent. This is what makes "performed" mean performed, not "printed".
func (rd *Round) EffectsVsOutput() string {
	idx := rd.World.Index
	pre, post := rd.SnapBefore, rd.SnapAfter
	owned := map[string]string{} // file name -> repository whose (re)indexing explains a change of it
	var problems []string
	for _, e := range rd.Force.Events {
		if e.Kind == "ID" {
			for n := 0; n < 12; n++ {
				b := filepath.Base(ShardPath(idx, e.Name, n))
				owned[b], owned[b+".meta"] = e.Name, e.Name
			}
		}
	}
	removed := map[string]bool{}
	for _, e := range rd.Force.Events {
		switch e.Kind {
		case "RM":
			b := filepath.Base(e.Path)
			removed[b], removed[b+".meta"] = true, true
			if filepath.Dir(e.Path) != idx {
				problems = append(problems, "removal outside the index directory: "+e.Path)
			}
			for _, f := range []string{b, b + ".meta"} {
				if st, ok := post[f]; ok {
					if _, again := owned[f]; !again || st == pre[f] {
						problems = append(problems, "announced as removed but still there: "+f)
					}
				}
			}
		case "ID":
			b := filepath.Base(ShardPath(idx, e.Name, 0))
			st, ok := post[b]
			if !ok {
				problems = append(problems, "reported indexed but shard 0 missing: "+b)
			} else if old, had := pre[b]; had && old == st {
				problems = append(problems, "reported indexed but shard 0 untouched: "+b)
			}
		case "UP":
			for n := 0; n < 12; n++ {
				b := filepath.Base(ShardPath(idx, e.Name, n))
				for _, f := range []string{b, b + ".meta"} {
					if old, had := pre[f]; had && !removed[f] {
						if st, ok := post[f]; !ok || st != old {
							problems = append(problems, "reported up to date but changed: "+f)
						}
					}
				}
			}
		}
	}
	for _, d := range pre.DiffIgnoring(post, LockFile) {
		f := d[1:]
		if f == "." || f == "<absent>" {
			continue // the directory itself: created by the forced run (lock file) or touched by the changes below
		}
		if d[0] == '-' && removed[f] {
			continue
		}
		if _, ok := owned[f]; ok {
			continue
		}
		problems = append(problems, "unannounced change "+d)
	}
	if len(problems) == 0 {
		return ""
	}
	return short(problems, 4)
}

type detail struct {
	Kind      string   `json:"kind"`
	Base      string   `json:"base"`
	Log       []string `json:"generator_log"`
	Args      []string `json:"force_args"`
	PvOut     string   `json:"preview_stdout,omitempty"`
	PvErr     string   `json:"preview_error,omitempty"`
	FcOut     string   `json:"force_stdout,omitempty"`
	FcErr     string   `json:"force_error,omitempty"`
	Before    []string `json:"index_before"`
	After     []string `json:"index_after"`
	Discovery string   `json:"discovery,omitempty"`
}

func listShards(obs []ShardObs) []string {
	var xs []string
	for _, o := range obs {
		xs = append(xs, fmt.Sprintf("%s name=%q source=%q ver=%s err=%s", filepath.Base(o.Path), o.Name, o.Source, o.Ver, o.Err))
	}
	return xs
}

func (rd *Round) Detail() []byte {
	d := detail{Kind: rd.Kind, Base: rd.World.Base, Log: rd.Log, Args: rd.Force.Args, PvOut: rd.Preview.Out, PvErr: rd.Preview.Err + rd.Preview.Panic,
		FcOut: rd.Force.Out, FcErr: rd.Force.Err + rd.Force.Panic, Before: listShards(rd.Before), After: listShards(rd.After)}
	if rd.Kind == "sync" {
		var xs []string
		for _, x := range rd.Desired {
			xs = append(xs, x.Name+"="+x.Source)
		}
		d.Discovery = strings.Join(xs, " ") + " err=" + rd.DiscoverErr
	}
	return gen.Detail(d)
}

// Case33 turns a round (preview + forced run) into the C33 case.
func (rd *Round) Case33() gen.Case {
	c := gen.Case{Detail: rd.Detail()}
	var goFail, key string
	fail := func(k, msg string) {
		if goFail == "" {
			goFail, key = msg, k
		}
	}
	// pure: the preview left the index directory exactly as it was (names, sizes, mtimes, hashes, the directory itself)
	if d := rd.SnapBefore.Diff(rd.SnapPreview); len(d) > 0 {
		fail("preview-not-pure", "preview changed the index directory: "+short(d, 5))
	}
	if u := hasUnparsed(rd.Preview.Events); u != "" {
		fail("unparsed-output", "preview printed an unknown line: "+u)
	}
	if u := hasUnparsed(rd.Force.Events); u != "" {
		fail("unparsed-output", "forced run printed an unknown line: "+u)
	}
	if rd.Preview.Panic != "" || rd.Force.Panic != "" {
		fail("panic", "panic: "+rd.Preview.Panic+" / "+rd.Force.Panic)
	}
	if e := rd.EffectsVsOutput(); e != "" {
		fail("force-effects", "forced run's output and effects differ: "+e)
	}
	pverr, fcerr := rd.ErrClass(rd.Preview), rd.ErrClass(rd.Force)

	modelled := rd.BeforeOK && rd.AfterOK && (rd.Kind == "remove" || rd.DiscoverErr == "") && (goFail == "" || key == "preview-not-pure" || key == "force-effects")
	if modelled {
		cwd := Hx(rd.World.Base)
		before := rd.ModelShards(rd.Before)
		if rd.Kind == "sync" {
			c.In = fmt.Sprintf("sync %s %s %s %s", cwd, EncRepos(rd.ModelRepos()), EncShards(before), EncStrs(rd.SnapBefore.Others()))
		} else {
			c.In = fmt.Sprintf("remove %s %s %s %s", cwd, EncStrs(rd.Selectors), EncShards(before), EncStrs(rd.SnapBefore.Others()))
		}
		c.Impl = fmt.Sprintf("pv=%s pverr=%s pvpost=%s fc=%s fcerr=%s post=%s pvoth=%s fcoth=%s",
			EncEvents(rd.Preview.Events), pverr, EncShards(rd.ModelShards(rd.AfterPv)),
			EncEvents(rd.Force.Events), fcerr, EncShards(rd.ModelShards(rd.After)),
			EncStrs(rd.SnapPreview.Others()), EncStrs(rd.SnapAfter.Others()))
		c.Class = rd.Kind + ":" + kinds(rd.Preview.Events) + ":" + pverr
		if rd.Kind == "sync" && rd.metaOnlyRepos() > 0 {
			c.Class += "+meta" // some repository is indexed at its current HEAD and options, only its metadata changed
		}
		if len(rd.Bystand) > 0 {
			c.Class += "+bystanders" // non-shard files (temp leftovers, lock, notes, sub-directory) lie in the index directory
		}
		if rd.Kind == "sync" {
			// a wanted repository whose own shard path is announced for removal: "moved, same name"
			for _, d := range rd.Desired {
				for _, e := range rd.Preview.Events {
					if e.Kind == "WR" && e.Path == ShardPath(rd.World.Index, d.Name, 0) {
						c.Class += "+moved"
						goto counted
					}
				}
			}
		counted:
		}
	} else {
		// discovery fails / the index directory is refused: both runs must fail alike and change nothing
		c.Class = rd.Kind + ":refused"
		if len(rd.Bystand) > 0 {
			c.Class += "+bystanders"
		}
		if goFail == "" {
			if pverr != fcerr {
				fail("preview-error-differs", fmt.Sprintf("preview ended %s, forced run ended %s", pverr, fcerr))
			}
			if pverr == "ok" && (rd.DiscoverErr != "" || !rd.BeforeOK) {
				// the commands went ahead although discovery / the inventory is bad: compare what they say
				a, f := kinds(rd.Preview.Events), kinds(rd.Force.Events)
				c.Class = rd.Kind + ":refused-but-ran:" + a + "/" + f
			}
		}
	}
	c.Go, c.Key = goFail, key
	c.Nontrivial = strings.Contains(c.Class, "WR") || strings.Contains(c.Class, "WI")
	return c
}

// metaOnlyRepos counts the discovered repositories whose first shard is current in everything but mutable metadata.
func (rd *Round) metaOnlyRepos() int {
	shards := map[string]ModelShard{}
	for _, s := range rd.ModelShards(rd.Before) {
		shards[s.Path] = s
	}
	n := 0
	for _, m := range rd.ModelRepos() {
		if s, ok := shards[m.Shard0]; ok && m.Head != "" && s.Name == m.Name && s.OptOk && s.Ver == m.Head && !s.MetaOk {
			n++
		}
	}
	return n
}
