package l1sync

import (
	"fmt"
	"os"
	"os/exec"
	"path/filepath"
	"strings"
)

// Template: a small real git repository (made with the git binary) in two versions (v1 = v0 + one commit), as a
// work tree (with .git directory) and as a bare clone. Scenario repositories are copies of templates.
type Template struct {
	ID    int
	Work  [2]string // directory containing .git
	Bare  [2]string // bare repository directory
	Head  [2]string // commit id of HEAD
	Token [2]string // a word that occurs only in this template at this version
	Empty bool      // git init only: HEAD is unborn, indexing fails
}

// TemplateFiles: every non-empty template version has this many files (=> this many shards with -shard_limit 1).
const TemplateFiles = 3

func git(dir string, args ...string) (string, error) {
	cmd := exec.Command("git", args...)
	cmd.Dir = dir
	cmd.Env = append(os.Environ(),
		"GIT_CONFIG_NOSYSTEM=1", "GIT_CONFIG_GLOBAL=/dev/null", "HOME="+dir,
		"GIT_AUTHOR_NAME=v", "GIT_AUTHOR_EMAIL=v@example.com", "GIT_COMMITTER_NAME=v", "GIT_COMMITTER_EMAIL=v@example.com",
		"GIT_AUTHOR_DATE=2020-01-01T00:00:00Z", "GIT_COMMITTER_DATE=2020-01-01T00:00:00Z")
	out, err := cmd.CombinedOutput()
	if err != nil {
		return string(out), fmt.Errorf("git %v in %s: %v: %s", args, dir, err, out)
	}
	return strings.TrimSpace(string(out)), nil
}

func mustGit(dir string, args ...string) string {
	out, err := git(dir, args...)
	must(err)
	return out
}

// MakeTemplates creates n content templates plus one empty one under base.
func MakeTemplates(base string, n int) []*Template {
	var ts []*Template
	for i := 0; i < n; i++ {
		t := &Template{ID: i}
		work := filepath.Join(base, fmt.Sprintf("t%d", i), "work")
		must(os.MkdirAll(work, 0o755))
		mustGit(work, "init", "-q", "--template=", "-b", "main", ".")
		for v := 0; v < 2; v++ {
			t.Token[v] = fmt.Sprintf("tokT%dV%dq", i, v)
			writeFile(filepath.Join(work, fmt.Sprintf("file%d.txt", i)), fmt.Sprintf("hello %s common\nline two\n", t.Token[v]))
			if v == 0 {
				writeFile(filepath.Join(work, "src", "main.go"), fmt.Sprintf("package main\n\nfunc main() { println(%d) }\n", i))
				writeFile(filepath.Join(work, "README.md"), fmt.Sprintf("# template %d\n\nsome words here\n", i))
			}
			mustGit(work, "add", "-A")
			mustGit(work, "commit", "-q", "-m", fmt.Sprintf("t%d v%d", i, v))
			t.Head[v] = mustGit(work, "rev-parse", "HEAD")
			t.Work[v] = filepath.Join(base, fmt.Sprintf("t%d", i), fmt.Sprintf("v%d", v))
			must(CopyTree(work, t.Work[v]))
			t.Bare[v] = filepath.Join(base, fmt.Sprintf("t%d", i), fmt.Sprintf("bare%d.git", v))
			mustGit(base, "clone", "-q", "--bare", "--template=", work, t.Bare[v])
		}
		ts = append(ts, t)
	}
	e := &Template{ID: n, Empty: true}
	work := filepath.Join(base, "empty", "v0")
	must(os.MkdirAll(work, 0o755))
	mustGit(work, "init", "-q", "--template=", "-b", "main", ".")
	bare := filepath.Join(base, "empty", "bare0.git")
	mustGit(base, "init", "-q", "--bare", "--template=", "-b", "main", bare)
	e.Work = [2]string{work, work}
	e.Bare = [2]string{bare, bare}
	ts = append(ts, e)
	return ts
}
