package l1sync

import (
	"encoding/json"
	"fmt"
	"os"
	"path/filepath"
	"sort"
	"strings"

	"github.com/sourcegraph/zoekt"
	"github.com/sourcegraph/zoekt/index"

	"verifharness/gen"
)

// Inst: a repository placed in a root directory (a copy of a template).
type Inst struct {
	Path   string // absolute
	Tmpl   *Template
	Ver    int
	Bare   bool
	WebURL string
	Broken bool // HEAD points at a branch that does not exist: IndexGitRepo fails (like an unborn HEAD)
}

func (i *Inst) Head() string { return i.HeadFor("HEAD") }

// HeadFor: the branches IndexGitRepo resolves for `-branches <branch>` ("" = it fails). Templates have one branch, main.
func (i *Inst) HeadFor(branch string) string {
	switch {
	case i.Tmpl.Empty:
		return ""
	case branch == "HEAD":
		if i.Broken {
			return ""
		}
		return "HEAD=" + i.Tmpl.Head[i.Ver]
	case branch == "main":
		return "main=" + i.Tmpl.Head[i.Ver]
	default:
		return ""
	}
}

// World: one scenario's directories. Base is the working directory of the tool process.
type World struct {
	Base  string
	Roots []string
	Index string
	Insts map[string]*Inst // by absolute path
	Tmpls []*Template
	Log   []string // what the generator did, for the replay file
	// Forged: build ids of shards the harness wrote itself (foreignShard): their metadata may claim a repository's
	// current HEAD while their content is not that repository's, so content searches say nothing about them.
	Forged map[string]bool
	seq    int
}

func (w *World) logf(f string, a ...any) { w.Log = append(w.Log, fmt.Sprintf(f, a...)) }

// relative paths of repositories below a root; some are, or lie below, dot-directories (~/.dotfiles, ~/.config/nvim)
var relNames = []string{"a", "b", "proj", "team/a", "team/b", "team/proj", "deep/x/y", "x.git", "é", "sp ace", "a.b", "Team/a",
	".dotfiles", ".config/nvim", ".mirrors/lib", "team/.hidden"}

func NewWorld(base string, tmpls []*Template, r *gen.Rand) *World {
	w := &World{Base: base, Index: filepath.Join(base, "idx"), Insts: map[string]*Inst{}, Tmpls: tmpls}
	n := r.Range(1, 3)
	for i := 0; i < n; i++ {
		name := fmt.Sprintf("r%d", i)
		if r.Chance(1, 8) {
			name = fmt.Sprintf("root%d.git", i)
		}
		root := filepath.Join(base, "roots", name)
		must(os.MkdirAll(root, 0o755))
		w.Roots = append(w.Roots, root)
	}
	if r.Chance(1, 10) {
		// the root itself is a repository
		w.place(r, w.Roots[0], r.Chance(1, 3) && strings.HasSuffix(w.Roots[0], ".git"))
	}
	k := r.Range(1, 5)
	for i := 0; i < k; i++ {
		w.addRepo(r)
	}
	return w
}

func (w *World) pickTmpl(r *gen.Rand) *Template {
	if r.Chance(1, 8) {
		return w.Tmpls[len(w.Tmpls)-1] // the empty one
	}
	return w.Tmpls[r.Intn(len(w.Tmpls)-1)]
}

func (w *World) insideRepo(p string) bool {
	for q := range w.Insts {
		if p == q || strings.HasPrefix(p, q+"/") || strings.HasPrefix(q, p+"/") {
			return true
		}
	}
	return false
}

func (w *World) place(r *gen.Rand, path string, bare bool) *Inst {
	t := w.pickTmpl(r)
	in := &Inst{Path: path, Tmpl: t, Ver: 0, Bare: bare}
	if r.Chance(1, 4) && !t.Empty {
		in.Ver = 1
	}
	w.materialise(in)
	w.Insts[path] = in
	w.logf("place %s tmpl=%d v%d bare=%v", path, t.ID, in.Ver, bare)
	return in
}

func (w *World) materialise(in *Inst) {
	src := in.Tmpl.Work[in.Ver]
	if in.Bare {
		src = in.Tmpl.Bare[in.Ver]
	}
	must(os.MkdirAll(in.Path, 0o755))
	if !in.Bare {
		os.RemoveAll(filepath.Join(in.Path, ".git"))
	} else {
		for _, e := range []string{"objects", "refs", "HEAD", "config", "packed-refs", "info", "description"} {
			os.RemoveAll(filepath.Join(in.Path, e))
		}
	}
	must(CopyTree(src, in.Path))
	in.Broken = false
	if in.WebURL != "" {
		w.writeWebURL(in)
	}
}

// breakHead makes HEAD point at a branch that does not exist: discovery still finds the repository, indexing fails.
func (w *World) breakHead(in *Inst) {
	head := filepath.Join(in.Path, ".git", "HEAD")
	if in.Bare {
		head = filepath.Join(in.Path, "HEAD")
	}
	must(os.WriteFile(head, []byte("ref: refs/heads/gone\n"), 0o644))
	in.Broken = true
	w.logf("break HEAD of %s", in.Path)
}

func (w *World) writeWebURL(in *Inst) {
	cfg := filepath.Join(in.Path, ".git", "config")
	if in.Bare {
		cfg = filepath.Join(in.Path, "config")
	}
	b, err := os.ReadFile(cfg)
	must(err)
	s := string(b)
	if i := strings.Index(s, "[zoekt]"); i >= 0 {
		s = s[:i]
	}
	s += fmt.Sprintf("[zoekt]\n\tweb-url = %s\n", in.WebURL)
	must(os.WriteFile(cfg, []byte(s), 0o644))
}

// addRepo places a new repository at a free relative path of some root. Returns false if no free spot was found.
func (w *World) addRepo(r *gen.Rand) bool {
	for try := 0; try < 6; try++ {
		root := gen.Pick(r, w.Roots)
		rel := gen.Pick(r, relNames)
		bare := false
		switch {
		case r.Chance(1, 4):
			bare = true
			if !strings.HasSuffix(rel, ".git") {
				rel += ".git"
			}
		case r.Chance(1, 10):
			// nested inside an existing work tree: must not be discovered
			for _, in := range w.instList() {
				if !in.Bare {
					p := filepath.Join(in.Path, "vendor", "n")
					if _, err := os.Lstat(p); err != nil {
						t := w.pickTmpl(r)
						must(os.MkdirAll(p, 0o755))
						must(CopyTree(t.Work[0], p))
						w.logf("nested %s", p)
						return true
					}
				}
			}
		}
		p := filepath.Join(root, filepath.FromSlash(rel))
		if w.insideRepo(p) {
			continue
		}
		if _, err := os.Lstat(p); err == nil {
			continue
		}
		w.place(r, p, bare)
		return true
	}
	return false
}

func (w *World) instList() []*Inst {
	var xs []*Inst
	for _, in := range w.Insts {
		xs = append(xs, in)
	}
	sort.Slice(xs, func(i, j int) bool { return xs[i].Path < xs[j].Path })
	return xs
}

func (w *World) relOf(p string) (root, rel string) {
	for _, rt := range w.Roots {
		if p == rt {
			return rt, "."
		}
		if strings.HasPrefix(p, rt+"/") {
			return rt, strings.TrimPrefix(p, rt+"/")
		}
	}
	return "", ""
}

func (w *World) moveInst(in *Inst, dst string) bool {
	if dst == in.Path || strings.HasPrefix(dst, in.Path+"/") {
		return false
	}
	if _, err := os.Lstat(dst); err == nil {
		return false
	}
	old := in.Path
	delete(w.Insts, old)
	if w.insideRepo(dst) {
		w.Insts[old] = in
		return false
	}
	must(os.MkdirAll(filepath.Dir(dst), 0o755))
	must(os.Rename(old, dst))
	in.Path = dst
	w.Insts[dst] = in
	w.logf("move %s -> %s", old, dst)
	return true
}

// MutateRoots changes the repositories under the roots: add, delete, update, move between roots (same relative
// path), rename within a root, change the zoekt.web-url setting.
func (w *World) MutateRoots(r *gen.Rand) {
	n := r.Range(0, 3)
	for i := 0; i < n; i++ {
		insts := w.instList()
		switch r.Intn(16) {
		case 13, 14, 15:
			// same root, same name: a bare "x.git" next to a work tree "x" (or the other way round) — both map to "x"
			if len(insts) > 0 {
				in := gen.Pick(r, insts)
				_, rel := w.relOf(in.Path)
				if rel != "." && rel != "" {
					twin := in.Path + ".git"
					bare := true
					if in.Bare {
						twin, bare = strings.TrimSuffix(in.Path, ".git"), false
					}
					if _, err := os.Lstat(twin); err != nil && twin != in.Path {
						delete(w.Insts, in.Path) // the twin lies next to it, not inside it
						inside := w.insideRepo(twin)
						w.Insts[in.Path] = in
						if !inside {
							w.place(r, twin, bare)
							w.logf("same-root twin of %s", in.Path)
						}
					}
				}
			}
		case 12:
			if len(insts) > 0 {
				in := gen.Pick(r, insts)
				if !in.Tmpl.Empty && !in.Broken {
					w.breakHead(in)
				}
			}
		case 11:
			// the same relative path in another root: two repositories that would get the same name
			if len(insts) > 0 && len(w.Roots) > 1 {
				in := gen.Pick(r, insts)
				root, rel := w.relOf(in.Path)
				other := gen.Pick(r, w.Roots)
				if rel != "." && rel != "" && other != root {
					p := filepath.Join(other, rel)
					if _, err := os.Lstat(p); err != nil && !w.insideRepo(p) {
						w.place(r, p, in.Bare)
					}
				}
			}
		case 0:
			w.addRepo(r)
		case 1:
			if len(insts) > 0 {
				in := gen.Pick(r, insts)
				if in.Path != w.Roots[0] {
					must(os.RemoveAll(in.Path))
					delete(w.Insts, in.Path)
					w.logf("delete %s", in.Path)
				}
			}
		case 2, 3:
			if len(insts) > 0 {
				in := gen.Pick(r, insts)
				if !in.Tmpl.Empty && in.Ver == 0 {
					in.Ver = 1
					w.materialise(in)
					w.logf("update %s", in.Path)
				}
			}
		case 4, 5, 6, 9, 10:
			// move to another root, same relative path: the repository keeps its name and changes its source
			if len(insts) > 0 && len(w.Roots) > 1 {
				in := gen.Pick(r, insts)
				root, rel := w.relOf(in.Path)
				if rel != "." && rel != "" {
					other := gen.Pick(r, w.Roots)
					if other != root {
						w.moveInst(in, filepath.Join(other, rel))
					}
				}
			}
		case 7:
			if len(insts) > 0 {
				in := gen.Pick(r, insts)
				root, rel := w.relOf(in.Path)
				if rel != "." && rel != "" {
					nrel := gen.Pick(r, relNames)
					if in.Bare && !strings.HasSuffix(nrel, ".git") {
						nrel += ".git"
					}
					w.moveInst(in, filepath.Join(root, filepath.FromSlash(nrel)))
				}
			}
		case 8:
			if len(insts) > 0 {
				in := gen.Pick(r, insts)
				w.seq++
				in.WebURL = fmt.Sprintf("http://web.example/%d", w.seq)
				w.writeWebURL(in)
				w.logf("weburl %s %s", in.Path, in.WebURL)
			}
		}
	}
}

// TouchMetadata changes nothing but mutable repository metadata (the zoekt.web-url git config entry) of one or two
// repositories: no new commit, no move. An index that was up to date becomes "meta-mismatch" (IndexStateMeta).
func (w *World) TouchMetadata(r *gen.Rand) {
	insts := w.instList()
	if len(insts) == 0 {
		return
	}
	for i, n := 0, r.Range(1, 2); i < n; i++ {
		in := gen.Pick(r, insts)
		w.seq++
		in.WebURL = fmt.Sprintf("http://web.example/%d", w.seq)
		w.writeWebURL(in)
		w.logf("metadata only: weburl %s %s", in.Path, in.WebURL)
	}
}

// foreignShard writes a shard with the real builder, directly: any name, source, branch version and file prefix.
func (w *World) foreignShard(name, source, ver, prefix string, disableCTags bool) {
	must(os.MkdirAll(w.Index, 0o755))
	opts := index.Options{
		IndexDir:              w.Index,
		RepositoryDescription: zoekt.Repository{Name: name, Source: source},
		ShardPrefixOverride:   prefix,
		DisableCTags:          disableCTags,
	}
	if ver != "" {
		opts.RepositoryDescription.Branches = []zoekt.RepositoryBranch{{Name: "HEAD", Version: ver}}
	}
	opts.SetDefaults()
	b, err := index.NewBuilder(opts)
	must(err)
	var branches []string
	if ver != "" {
		branches = []string{"HEAD"}
	}
	must(b.Add(index.Document{Name: "foreign.txt", Content: []byte("foreign content " + name + "\n"), Branches: branches}))
	must(b.Finish())
	if w.Forged == nil {
		w.Forged = map[string]bool{}
	}
	if obs, _ := Inventory(w.Index); true {
		for _, o := range obs {
			if o.Name == name && o.Source == source && o.Err == "" {
				w.Forged[o.BuildID] = true
			}
		}
	}
	w.logf("foreign shard name=%q source=%q ver=%q prefix=%q noctags=%v", name, source, ver, prefix, disableCTags)
}

// AddBystanders drops files into the index directory that are not shards: what a killed `sync -f` or a concurrently
// running one leaves next to the shards (temporary shard / sidecar files "<shard>.<random>.tmp"), a stale lock file, notes,
// a sub-directory. No command may touch them without saying so; a preview may touch nothing at all.
func (w *World) AddBystanders(r *gen.Rand) {
	must(os.MkdirAll(w.Index, 0o755))
	shards, _ := Inventory(w.Index)
	n := r.Range(1, 3)
	for i := 0; i < n; i++ {
		w.seq++
		base := fmt.Sprintf("%s_v%d.00000.zoekt", gen.Pick(r, []string{"a", "proj", "team%2Fb", "ghost"}), FormatVersion)
		content := []byte("partial shard")
		if len(shards) > 0 && r.Chance(2, 3) {
			s := gen.Pick(r, shards)
			base = filepath.Base(s.Path)
			if b, err := os.ReadFile(s.Path); err == nil {
				content = b[:len(b)/2] // a half-written copy
			}
		}
		var name string
		switch r.Intn(8) {
		case 0, 1, 2:
			name = fmt.Sprintf("%s.%d.tmp", base, 1000000+w.seq)
		case 3:
			name = fmt.Sprintf("%s.meta.%d.tmp", base, 1000000+w.seq)
			content = []byte("{}")
		case 4:
			name = LockFile
			content = nil
		case 5:
			name = fmt.Sprintf("notes%d.txt", w.seq)
		case 6:
			name = fmt.Sprintf("other%d.tmp", w.seq)
		case 7:
			name = filepath.Join(fmt.Sprintf("subdir%d", w.seq), base)
			must(os.MkdirAll(filepath.Join(w.Index, filepath.Dir(name)), 0o755))
		}
		p := filepath.Join(w.Index, name)
		if _, err := os.Lstat(p); err == nil {
			continue
		}
		must(os.WriteFile(p, content, 0o644))
		w.logf("bystander %s", p)
	}
}

// Bystanders lists the entries of the index directory that are neither shards nor their sidecars.
func (w *World) Bystanders() []string {
	var out []string
	entries, _ := os.ReadDir(w.Index)
	for _, e := range entries {
		n := e.Name()
		if !e.IsDir() && (strings.HasSuffix(n, ".zoekt") || strings.HasSuffix(n, ".zoekt.meta") || n == LockFile) {
			continue // shards, sidecars, and the lock file every forced run leaves behind
		}
		out = append(out, n)
	}
	return out
}

// MutateIndex changes the index directory behind the tool's back: rename a shard file, delete one, add a sidecar,
// drop in a shard built elsewhere, (rarely) a corrupt file.
func (w *World) MutateIndex(r *gen.Rand) {
	n := r.Range(0, 2)
	for i := 0; i < n; i++ {
		shards, _ := Inventory(w.Index)
		insts := w.instList()
		switch r.Intn(10) {
		case 0, 1:
			if len(shards) > 0 {
				s := gen.Pick(r, shards)
				w.seq++
				dst := filepath.Join(w.Index, fmt.Sprintf("renamed%d_v%d.00000.zoekt", w.seq, FormatVersion))
				must(os.Rename(s.Path, dst))
				if s.Sidecar {
					must(os.Rename(s.Path+".meta", dst+".meta"))
				}
				w.logf("rename shard %s -> %s", s.Path, dst)
			}
		case 2:
			if len(shards) > 0 {
				s := gen.Pick(r, shards)
				os.Remove(s.Path)
				os.Remove(s.Path + ".meta")
				w.logf("delete shard %s", s.Path)
			}
		case 3, 4:
			// sidecar: same metadata, or a changed name / source
			if len(shards) > 0 {
				s := gen.Pick(r, shards)
				if s.Err == "" {
					repos, _, err := index.ReadMetadataPathAlive(s.Path)
					if err == nil && len(repos) == 1 {
						repo := repos[0]
						switch r.Intn(3) {
						case 1:
							repo.Name = repo.Name + "-meta"
						case 2:
							repo.Source = repo.Source + "/.git"
						}
						b, err := json.Marshal(repo)
						must(err)
						must(os.WriteFile(s.Path+".meta", b, 0o644))
						w.logf("sidecar %s name=%q source=%q", s.Path, repo.Name, repo.Source)
					}
				}
			}
		case 5, 6, 7, 8:
			name := gen.Pick(r, []string{"ghost", "a", "team/a", "proj", "other/x"})
			source := gen.Pick(r, []string{"", "/nonexistent/src", "rel/src", filepath.Join(w.Base, "roots", "gone", "a")})
			ver := "0000000000000000000000000000000000000000"
			if len(insts) > 0 && r.Chance(2, 3) {
				in := gen.Pick(r, insts)
				switch r.Intn(4) {
				case 0:
					source = in.Path
				case 1:
					source = in.Path + "/.git"
				case 2:
					source = in.Path + "/../" + filepath.Base(in.Path) + "/"
				}
				if _, rel := w.relOf(in.Path); rel != "" && r.Chance(2, 3) {
					name = strings.TrimSuffix(rel, ".git")
					if rel == "." {
						name = filepath.Base(in.Path)
					}
				}
				if !in.Tmpl.Empty && r.Chance(1, 2) {
					ver = in.Tmpl.Head[in.Ver]
				}
			}
			prefix := ""
			if r.Chance(1, 2) {
				w.seq++
				prefix = fmt.Sprintf("foreign%d", w.seq)
			}
			w.foreignShard(name, source, ver, prefix, r.Chance(1, 3))
		case 9:
			if r.Chance(1, 3) {
				w.seq++
				p := filepath.Join(w.Index, fmt.Sprintf("junk%d_v%d.00000.zoekt", w.seq, FormatVersion))
				must(os.MkdirAll(w.Index, 0o755))
				must(os.WriteFile(p, []byte("this is not a shard"), 0o644))
				w.logf("junk shard %s", p)
			}
		}
	}
}

// PickRoots chooses the root arguments of a sync command: a non-empty selection of the roots, sometimes a
// sub-directory of a root (overlapping / narrower roots), sometimes a repeated root; some as paths relative to Base.
func (w *World) PickRoots(r *gen.Rand) (abs []string, args []string) {
	all := r.Chance(1, 2)
	for _, rt := range w.Roots {
		if all || r.Chance(2, 3) {
			abs = append(abs, rt)
		}
	}
	if len(abs) == 0 {
		abs = append(abs, gen.Pick(r, w.Roots))
	}
	if r.Chance(1, 6) {
		rt := gen.Pick(r, w.Roots)
		sub := filepath.Join(rt, gen.Pick(r, []string{"team", "deep", "deep/x", ".config", ".mirrors"}))
		if isDir(sub) {
			if r.Bool() {
				abs = append(abs, sub)
			} else {
				abs = []string{sub}
			}
		}
	}
	if r.Chance(1, 25) {
		abs = append(abs, abs[0])
	}
	gen.Shuffle(r, abs)
	for _, a := range abs {
		if r.Chance(1, 4) {
			rel, err := filepath.Rel(w.Base, a)
			must(err)
			if r.Bool() {
				rel = "./" + rel + "/"
			}
			args = append(args, rel)
		} else {
			args = append(args, a)
		}
	}
	return abs, args
}

// PickSelectors chooses selectors for `remove`: names, sources (normalised, raw, relative, with /.git), unknown ones.
func (w *World) PickSelectors(r *gen.Rand, shards []ShardObs) []string {
	var sels []string
	n := r.Range(1, 3)
	for i := 0; i < n; i++ {
		if len(shards) == 0 || r.Chance(1, 8) {
			sels = append(sels, gen.Pick(r, []string{"nosuch", "/no/such/source", "team"}))
			continue
		}
		s := gen.Pick(r, shards)
		switch r.Intn(6) {
		case 0, 1, 2:
			sels = append(sels, s.Name)
		case 3:
			sels = append(sels, s.Source)
		case 4:
			if filepath.IsAbs(s.Source) {
				if rel, err := filepath.Rel(w.Base, s.Source); err == nil {
					sels = append(sels, rel)
					continue
				}
			}
			sels = append(sels, s.Name)
		case 5:
			if s.Source != "" {
				sels = append(sels, s.Source+"/.git")
			} else {
				sels = append(sels, s.Name)
			}
		}
	}
	if r.Chance(1, 6) {
		sels = append(sels, sels[0])
	}
	return sels
}

// Exec is one invocation of the real command.
type Exec struct {
	Args   []string
	Out    string
	Err    string
	Panic  string
	Events []Event
}

func (e Exec) Failed() bool { return e.Err != "" || e.Panic != "" }

func run(t *Tool, args []string) Exec {
	resp := t.Exec(args...)
	e := Exec{Args: args, Out: resp.Out, Err: resp.Err, Panic: resp.Panic}
	if resp.Crashed {
		e.Panic = "process died: " + resp.Err
	}
	e.Events = ParseOutput(resp.Out)
	return e
}

// Round: one tested command on one state — preview, then the same command with -f — with everything observed
// around them.
type Round struct {
	World     *World
	Tool      *Tool
	Kind      string   // "sync" | "remove"
	Flags     []string // extra flags of the command (both runs)
	RootsAbs  []string
	RootArgs  []string
	Selectors []string
	RefHash   string   // options hash the command's flags produce
	Branch    string   // value of -branches ("HEAD" unless the round sets the flag)
	Bystand   []string // entries of the index directory that are not shards, before the round
	NNew      int      // shards beyond the first that a build with these flags writes (templates have 3 files)

	Desired     []Discovered // discovery oracle on RootsAbs (sync)
	DiscoverErr string
	Before      []ShardObs
	BeforeOK    bool
	SnapBefore  Snapshot
	Preview     Exec
	SnapPreview Snapshot
	AfterPv     []ShardObs
	Force       Exec
	SnapAfter   Snapshot
	After       []ShardObs
	AfterOK     bool
	Log         []string
}

func (w *World) indexArg(r *gen.Rand) string {
	if r.Chance(1, 5) {
		rel, err := filepath.Rel(w.Base, w.Index)
		must(err)
		return rel
	}
	return w.Index
}

// RunRound performs one round. withPreview=false skips the preview (C34 only needs the forced run).
func (w *World) RunRound(r *gen.Rand, t *Tool, kind string, withPreview bool) *Round {
	rd := &Round{World: w, Tool: t, Kind: kind, RefHash: DefaultOptionsHash(), Branch: "HEAD"}
	var args []string
	if kind == "sync" {
		if r.Chance(1, 3) {
			args = append(args, "sync")
		}
		switch r.Intn(14) {
		case 0:
			rd.Branch = "main" // resolves in every template: recorded as branch "main", so everything is re-indexed
		case 1:
			rd.Branch = "nosuch" // resolves nowhere: IndexGitRepo fails for every repository
		}
		if rd.Branch != "HEAD" {
			rd.Flags = append(rd.Flags, "-branches", rd.Branch)
		}
		if r.Chance(1, 8) {
			rd.Flags = append(rd.Flags, "-file_limit", "1234567")
			o := index.Options{SizeMax: 1234567}
			o.SetDefaults()
			rd.RefHash = o.GetHash()
		}
		if r.Chance(1, 5) {
			// one shard per file: multi-shard repositories (ShardMax is not part of the options hash)
			rd.Flags = append(rd.Flags, "-shard_limit", "1")
			rd.NNew = TemplateFiles - 1
		}
		rd.RootsAbs, rd.RootArgs = w.PickRoots(r)
		rd.Desired, rd.DiscoverErr = Discover(rd.RootsAbs)
	} else {
		args = append(args, "remove")
	}
	rd.Before, rd.BeforeOK = Inventory(w.Index)
	if kind == "remove" {
		rd.Selectors = w.PickSelectors(r, rd.Before)
	}
	args = append(args, "-index", w.indexArg(r))
	args = append(args, rd.Flags...)
	tail := rd.RootArgs
	if kind == "remove" {
		tail = rd.Selectors
	}
	rd.Bystand = w.Bystanders()
	rd.SnapBefore = Snap(w.Index)
	if withPreview {
		rd.Preview = run(t, append(append([]string{}, args...), tail...))
		rd.SnapPreview = Snap(w.Index)
		rd.AfterPv, _ = Inventory(w.Index)
	}
	fargs := append(append([]string{}, args...), "-f")
	rd.Force = run(t, append(fargs, tail...))
	rd.SnapAfter = Snap(w.Index)
	rd.After, rd.AfterOK = Inventory(w.Index)
	rd.Log = append([]string{}, w.Log...)
	return rd
}

// ---- abstraction of a round for the Lean model ----

func (rd *Round) instAt(source string) *Inst { return rd.World.Insts[source] }

func (rd *Round) ModelRepos() []ModelRepo {
	var rs []ModelRepo
	for _, d := range rd.Desired {
		m := ModelRepo{Name: d.Name, Source: d.Source, Shard0: ShardPath(rd.World.Index, d.Name, 0), NNew: rd.NNew}
		for n := 1; n <= 3; n++ {
			m.More = append(m.More, ShardPath(rd.World.Index, d.Name, n))
		}
		branch := rd.Branch
		if branch == "" {
			branch = "HEAD"
		}
		if in := rd.instAt(d.Source); in != nil {
			m.Head = in.HeadFor(branch)
		} else {
			ref := "HEAD"
			if branch != "HEAD" {
				ref = "refs/heads/" + branch
			}
			if out, err := git(d.Source, "rev-parse", "--verify", ref); err == nil {
				m.Head = branch + "=" + out // a nested/unknown repository: ask git
			}
		}
		rs = append(rs, m)
	}
	return rs
}

// ModelShards abstracts observed shards. metaOk: would MergeMutable against the description IndexGitRepo builds for
// the desired repository that owns this path report "no change" (only zoekt.web-url varies in the scenarios).
func (rd *Round) ModelShards(obs []ShardObs) []ModelShard {
	owner := map[string]Discovered{}
	for _, d := range rd.Desired {
		owner[ShardPath(rd.World.Index, d.Name, 0)] = d
	}
	var ss []ModelShard
	for _, o := range obs {
		m := ModelShard{Path: o.Path, Name: o.Name, Source: o.Source, Ver: o.Ver, OptOk: o.Hash == rd.RefHash, MetaOk: true, Sidecar: o.Sidecar}
		if d, ok := owner[o.Path]; ok && d.Name == o.Name {
			want := ""
			if in := rd.instAt(d.Source); in != nil {
				want = in.WebURL
			}
			m.MetaOk = o.Plain && o.URL == want
		}
		ss = append(ss, m)
	}
	return ss
}
