package l1sync

import (
	"context"
	"fmt"
	"os"
	"path/filepath"
	"sort"
	"strings"

	"github.com/sourcegraph/zoekt"
	"github.com/sourcegraph/zoekt/index"
	"github.com/sourcegraph/zoekt/query"

	"verifharness/gen"
)

// searchIndex opens every shard of dir with the public search API and runs a substring query; returns, per repository
// name, the number of matching files, and the list of repository names the shards report (one entry per shard).
func searchIndex(dir, pattern string) (hits map[string]int, listed []string, err error) {
	hits = map[string]int{}
	entries, rerr := os.ReadDir(dir)
	if rerr != nil {
		return hits, nil, nil
	}
	for _, e := range entries {
		if e.IsDir() || filepath.Ext(e.Name()) != ".zoekt" {
			continue
		}
		f, err := os.Open(filepath.Join(dir, e.Name()))
		if err != nil {
			return nil, nil, err
		}
		ifile, err := index.NewIndexFile(f)
		if err != nil {
			f.Close()
			return nil, nil, err
		}
		s, err := index.NewSearcher(ifile)
		if err != nil {
			ifile.Close()
			return nil, nil, err
		}
		rl, err := s.List(context.Background(), &query.Const{Value: true}, nil)
		if err == nil {
			for _, r := range rl.Repos {
				listed = append(listed, r.Repository.Name)
			}
		}
		if pattern != "" {
			res, err := s.Search(context.Background(), &query.Substring{Pattern: pattern, CaseSensitive: true, Content: true}, &zoekt.SearchOptions{})
			if err == nil {
				for _, fm := range res.Files {
					hits[fm.Repository]++
				}
			}
		}
		s.Close()
	}
	sort.Strings(listed)
	return hits, listed, nil
}

// EndToEnd: after a successful forced sync, search the index through zoekt's search API: every discovered repository is
// listed exactly once per shard set, nothing else is listed, the word unique to its current HEAD is found in it and the
// word of the superseded version is not.
func (rd *Round) EndToEnd() string {
	var want []string
	for _, d := range rd.Desired {
		want = append(want, d.Name)
	}
	sort.Strings(want)
	_, listed, err := searchIndex(rd.World.Index, "")
	if err != nil {
		return "cannot open the index: " + err.Error()
	}
	// one repository = the shards of one build: every shard that lists a name must come from the same build
	builds := map[string]map[string]bool{}
	for _, o := range rd.After {
		if builds[o.Name] == nil {
			builds[o.Name] = map[string]bool{}
		}
		builds[o.Name][o.BuildID] = true
	}
	var names []string
	seen := map[string]bool{}
	for _, n := range listed {
		if !seen[n] {
			seen[n] = true
			names = append(names, n)
		}
		if len(builds[n]) > 1 {
			return fmt.Sprintf("repository %q is searchable from %d different builds (shards %q)", n, len(builds[n]), listed)
		}
	}
	if strings.Join(names, "\x00") != strings.Join(want, "\x00") {
		return fmt.Sprintf("searchable repositories %q, discovered %q", names, want)
	}
	for _, d := range rd.Desired {
		in := rd.instAt(d.Source)
		if in == nil || in.Tmpl.Empty {
			continue
		}
		forged := false
		for _, o := range rd.After {
			if o.Name == d.Name && rd.World.Forged[o.BuildID] {
				forged = true // a shard the harness wrote with made-up content: only its metadata is meaningful
			}
		}
		if forged {
			continue
		}
		hits, _, _ := searchIndex(rd.World.Index, in.Tmpl.Token[in.Ver])
		if hits[d.Name] != 1 {
			return fmt.Sprintf("word of the current HEAD of %q found in %d files of it (want 1)", d.Name, hits[d.Name])
		}
		hits, _, _ = searchIndex(rd.World.Index, in.Tmpl.Token[1-in.Ver])
		if hits[d.Name] != 0 {
			return fmt.Sprintf("word of another version of %q still found in it", d.Name)
		}
	}
	return ""
}

// Case34 turns a round (forced run only) into the C34 case.
func (rd *Round) Case34() gen.Case {
	c := gen.Case{Detail: rd.Detail()}
	var goFail, key string
	fail := func(k, msg string) {
		if goFail == "" {
			goFail, key = msg, k
		}
	}
	if u := hasUnparsed(rd.Force.Events); u != "" {
		fail("unparsed-output", "forced run printed an unknown line: "+u)
	}
	if rd.Force.Panic != "" {
		fail("panic", "panic: "+rd.Force.Panic)
	}
	fcerr := rd.ErrClass(rd.Force)
	cwd := Hx(rd.World.Base)
	unchanged := func() []string {
		var d []string
		for _, x := range rd.SnapBefore.DiffIgnoring(rd.SnapAfter, LockFile) {
			if x[1:] != "." && x[1:] != "<absent>" {
				d = append(d, x)
			}
		}
		return d
	}
	switch {
	case rd.Kind == "sync" && rd.DiscoverErr != "":
		// fail before change
		c.Class = "sync:duplicate:" + rd.DiscoverErr
		if k := CollisionKind(rd.RootsAbs); k != "" {
			c.Class += "+" + k
		}
		if fcerr == "ok" {
			fail("duplicate-not-rejected", "two discovered repositories collide ("+rd.DiscoverErr+") but sync -f succeeded")
		} else if d := unchanged(); len(d) > 0 {
			fail("changed-before-failing", "sync -f failed on a collision after changing the index: "+short(d, 5))
		}
		c.Nontrivial = len(rd.Before) > 0
	case !rd.BeforeOK:
		c.Class = rd.Kind + ":refused-index"
		if fcerr == "ok" {
			c.Class += "-but-ran"
		} else if d := unchanged(); len(d) > 0 {
			fail("changed-before-failing", "the command refused the index directory after changing it: "+short(d, 5))
		}
	case rd.Kind == "sync":
		if e := rd.EffectsVsOutput(); e != "" {
			fail("force-effects", "forced run's output and effects differ: "+e)
		}
		c.Class = "fsync:" + kinds(rd.Force.Events) + ":" + fcerr
		if fcerr == "ok" && rd.AfterOK && goFail == "" {
			if e := rd.EndToEnd(); e != "" {
				k := "search-after-sync"
				if rd.hasStray() {
					k = "stale-shard-kept"
				}
				fail(k, "searching the synchronised index: "+e)
			}
			// a second run has nothing left to do
			again := run(rd.Tool, rd.Force.Args)
			for _, e := range again.Events {
				if e.Kind == "RM" || e.Kind == "ID" {
					fail("second-run-not-noop", "sync -f right after a successful sync -f still changes the index: "+again.Out)
					break
				}
			}
		}
		if rd.AfterOK {
			c.In = fmt.Sprintf("fsync %s %s %s", cwd, EncRepos(rd.ModelRepos()), EncShards(rd.ModelShards(rd.Before)))
			c.Impl = fmt.Sprintf("fc=%s fcerr=%s post=%s", EncEvents(rd.Force.Events), fcerr, EncShards(rd.ModelShards(rd.After)))
		}
		c.Nontrivial = strings.Contains(c.Class, "RM") || strings.Contains(c.Class, "ID")
	default: // remove
		if e := rd.EffectsVsOutput(); e != "" {
			fail("force-effects", "forced run's output and effects differ: "+e)
		}
		c.Class = "fremove:" + kinds(rd.Force.Events) + ":" + fcerr
		if rd.AfterOK {
			c.In = fmt.Sprintf("fremove %s %s %s", cwd, EncStrs(rd.Selectors), EncShards(rd.ModelShards(rd.Before)))
			c.Impl = fmt.Sprintf("fc=%s fcerr=%s post=%s", EncEvents(rd.Force.Events), fcerr, EncShards(rd.ModelShards(rd.After)))
		}
		// sidecars of removed shards are gone too
		for _, e := range rd.Force.Events {
			if e.Kind == "RM" {
				if _, err := os.Stat(e.Path + ".meta"); err == nil {
					fail("sidecar-left", "removed shard's sidecar is still there: "+e.Path+".meta")
				}
			}
		}
		c.Nontrivial = strings.Contains(c.Class, "RM")
	}
	if goFail != "" && (key == "unparsed-output" || key == "panic") {
		c.In, c.Impl = "", ""
	}
	c.Go, c.Key = goFail, key
	return c
}

// hasStray: the index held, before the run, a shard with a discovered repository's name and (normalised) source outside
// the contiguous run of shard files <name>_v16.00000, .00001, … that exists for that repository (the only shards the
// builder looks at and replaces), and that shard is still there.
func (rd *Round) hasStray() bool {
	after := map[string]bool{}
	for _, s := range rd.After {
		after[s.Path] = true
	}
	before := map[string]bool{} // the prior state after the run's own removals
	for _, s := range rd.Before {
		before[s.Path] = true
	}
	for _, e := range rd.Force.Events {
		if e.Kind == "RM" {
			delete(before, e.Path)
		}
	}
	for _, s := range rd.Before {
		if !after[s.Path] {
			continue
		}
		for _, d := range rd.Desired {
			if s.Name != d.Name || normSource(rd.World.Base, s.Source) != d.Source {
				continue
			}
			managed := false
			for n := 0; before[ShardPath(rd.World.Index, d.Name, n)]; n++ {
				if s.Path == ShardPath(rd.World.Index, d.Name, n) {
					managed = true
				}
			}
			if !managed {
				return true
			}
		}
	}
	return false
}

// normSource: the harness's own reading of "same source" (absolute, cleaned, a trailing .git component dropped).
func normSource(cwd, s string) string {
	if s == "" {
		return ""
	}
	if !filepath.IsAbs(s) {
		s = filepath.Join(cwd, s)
	}
	s = filepath.Clean(s)
	if filepath.Base(s) == ".git" {
		s = filepath.Dir(s)
	}
	return s
}

// ---- discovery cases: real directory trees, encoded for the Lean model ----

// EncTree encodes the directory tree below dir (pre-order tokens). The inside of `.git` directories and of bare
// repositories (`*.git` with objects/) is not listed beyond what discovery looks at.
func EncTree(dir string) string {
	var toks []string
	var rec func(d string, depth int)
	rec = func(d string, depth int) {
		entries, err := os.ReadDir(d)
		if err != nil {
			return
		}
		for _, e := range entries {
			p := filepath.Join(d, e.Name())
			st, err := os.Stat(p) // discovery stats (follows symlinks); the scenarios contain none
			switch {
			case err != nil:
				continue
			case st.IsDir():
				toks = append(toks, "d"+Hx(e.Name()))
				if e.Name() != ".git" && depth < 12 {
					if strings.HasSuffix(e.Name(), ".git") && isDir(filepath.Join(p, "objects")) {
						if st2, err := os.Stat(filepath.Join(p, ".git")); err == nil && st2.IsDir() {
							toks = append(toks, "d"+Hx(".git"), "u")
						} else if err == nil && st2.Mode().IsRegular() {
							toks = append(toks, "f"+Hx(".git"))
						}
						toks = append(toks, "d"+Hx("objects"), "u")
					} else {
						rec(p, depth+1)
					}
				}
				toks = append(toks, "u")
			case st.Mode().IsRegular():
				toks = append(toks, "f"+Hx(e.Name()))
			default:
				toks = append(toks, "o"+Hx(e.Name()))
			}
		}
	}
	rec(dir, 0)
	// drop trailing "u"s? no: every "d" has its "u"
	return JoinL(",", toks)
}

func EncRoots(roots []string) string {
	var xs []string
	for _, r := range roots {
		xs = append(xs, Hx(r)+"="+EncTree(r))
	}
	return JoinL(";", xs)
}

// DiscoverCase runs the real discoverRepositories (hook op) on roots (absolute, symlink-free) and builds the case.
func DiscoverCase(t *Tool, roots []string, args []string) gen.Case {
	resp := t.Call(map[string]any{"op": "discover", "roots": args})
	c := gen.Case{In: "discover " + EncRoots(roots)}
	switch {
	case resp.Panic != "" || resp.Crashed:
		c.Go, c.Key = "discoverRepositories panicked: "+resp.Panic+resp.Err, "panic"
		c.In = ""
	case resp.Err != "":
		cls := "other"
		switch {
		case strings.Contains(resp.Err, "duplicate repository name"):
			cls = "dupname"
		case strings.Contains(resp.Err, "more than one root"):
			cls = "dupsource"
		case strings.Contains(resp.Err, "duplicate root"):
			cls = "duproot"
		}
		c.Impl = "err " + cls
		c.Class = "discover:err:" + cls
		if k := CollisionKind(roots); k != "" {
			c.Class += "+" + k
		}
	default:
		var xs []string
		for _, r := range resp.Repos {
			xs = append(xs, Hx(r.Name)+":"+Hx(r.Source))
		}
		c.Impl = "ok " + JoinL(";", xs)
		c.Class = fmt.Sprintf("discover:ok:%d", min(len(resp.Repos), 4))
		for _, d := range wantDot(roots) {
			_ = d
			c.Class += "+dot" // a repository that is, or lies below, a dot-directory
			break
		}
		c.Nontrivial = len(resp.Repos) >= 2
	}
	// Go oracle (independent walk)
	want, werr := Discover(roots)
	if (werr != "") != (resp.Err != "") {
		c.Go, c.Key = fmt.Sprintf("discovery oracle: error %q, implementation error %q", werr, resp.Err), "discover-oracle"
	} else if werr == "" {
		var a, b []string
		for _, d := range want {
			a = append(a, d.Name+"="+d.Source)
		}
		for _, r := range resp.Repos {
			b = append(b, r.Name+"="+r.Source)
		}
		if strings.Join(a, "\x00") != strings.Join(b, "\x00") {
			c.Go, c.Key = fmt.Sprintf("discovery oracle %q, implementation %q", a, b), "discover-oracle"
		}
	}
	c.Detail = gen.Detail(map[string]any{"roots": roots, "err": resp.Err, "repos": resp.Repos})
	return c
}

// wantDot: repositories the independent walk finds whose root-relative path has a component starting with "."
func wantDot(roots []string) []Discovered {
	var out []Discovered
	for _, root := range roots {
		var found []Discovered
		walkRoot(root, root, "", &found)
		for _, d := range found {
			rel, err := filepath.Rel(root, d.Source)
			if err != nil || rel == "." {
				continue
			}
			for _, comp := range strings.Split(rel, "/") {
				if strings.HasPrefix(comp, ".") {
					out = append(out, d)
					break
				}
			}
		}
	}
	return out
}
