package l1sync

import (
	"encoding/hex"
	"fmt"
	"strconv"
	"strings"
)

// Event: one line of the command's standard output, parsed.
//
//	WR / RM : would remove / removing   (Path, Name, Source, Reason class)
//	IG / ID / WI / UP : indexing / indexed / would index / up to date   (Name, Source)
//	PF : "Pass -f to apply these changes."
//	?? : a line this parser does not know (Raw)
type Event struct {
	Kind                       string
	Path, Name, Source, Reason string
	Raw                        string
}

func reasonClass(s string) string {
	switch {
	case s == "repository is no longer selected":
		return "gone"
	case s == "explicitly selected":
		return "selected"
	case strings.HasPrefix(s, "repository is now named "):
		if n, err := strconv.Unquote(strings.TrimPrefix(s, "repository is now named ")); err == nil {
			return "renamed:" + n
		}
	}
	return "other:" + s
}

func parseRemoval(kind, rest string) (Event, bool) {
	// <path> (repository "<name>", source <source>: <reason>)
	i := strings.Index(rest, " (repository ")
	if i < 0 || !strings.HasSuffix(rest, ")") {
		return Event{}, false
	}
	path := rest[:i]
	rest = rest[i+len(" (repository ") : len(rest)-1]
	q, err := strconv.QuotedPrefix(rest)
	if err != nil {
		return Event{}, false
	}
	name, err := strconv.Unquote(q)
	if err != nil {
		return Event{}, false
	}
	rest = rest[len(q):]
	if !strings.HasPrefix(rest, ", source ") {
		return Event{}, false
	}
	rest = rest[len(", source "):]
	j := strings.Index(rest, ": ")
	if j < 0 {
		return Event{}, false
	}
	return Event{Kind: kind, Path: path, Name: name, Source: rest[:j], Reason: reasonClass(rest[j+2:])}, true
}

func parseIndexLine(kind, rest string) (Event, bool) {
	// "<name>" from <source>
	q, err := strconv.QuotedPrefix(rest)
	if err != nil {
		return Event{}, false
	}
	name, err := strconv.Unquote(q)
	if err != nil {
		return Event{}, false
	}
	rest = rest[len(q):]
	if !strings.HasPrefix(rest, " from ") {
		return Event{}, false
	}
	return Event{Kind: kind, Name: name, Source: rest[len(" from "):]}, true
}

// ParseOutput parses the command's standard output.
func ParseOutput(out string) []Event {
	var evs []Event
	for _, line := range strings.Split(out, "\n") {
		if line == "" {
			continue
		}
		var e Event
		ok := false
		switch {
		case strings.HasPrefix(line, "Would remove "):
			e, ok = parseRemoval("WR", strings.TrimPrefix(line, "Would remove "))
		case strings.HasPrefix(line, "Removing "):
			e, ok = parseRemoval("RM", strings.TrimPrefix(line, "Removing "))
		case strings.HasPrefix(line, "Indexing "):
			e, ok = parseIndexLine("IG", strings.TrimPrefix(line, "Indexing "))
		case strings.HasPrefix(line, "Indexed "):
			e, ok = parseIndexLine("ID", strings.TrimPrefix(line, "Indexed "))
		case strings.HasPrefix(line, "Would index "):
			e, ok = parseIndexLine("WI", strings.TrimPrefix(line, "Would index "))
		case strings.HasPrefix(line, "Up to date "):
			e, ok = parseIndexLine("UP", strings.TrimPrefix(line, "Up to date "))
		case line == "Pass -f to apply these changes.":
			e, ok = Event{Kind: "PF"}, true
		}
		if !ok {
			e = Event{Kind: "??", Raw: line}
		}
		evs = append(evs, e)
	}
	return evs
}

// ---- wire encoding for the Lean driver (see lean/ZoektModel/C33/Driver.lean) ----

func Hx(s string) string {
	if s == "" {
		return "-"
	}
	return hex.EncodeToString([]byte(s))
}

func JoinL(sep string, xs []string) string {
	if len(xs) == 0 {
		return "_"
	}
	return strings.Join(xs, sep)
}

func B(b bool) string {
	if b {
		return "1"
	}
	return "0"
}

func EncEvents(evs []Event) string {
	var xs []string
	for _, e := range evs {
		switch e.Kind {
		case "WR", "RM":
			xs = append(xs, fmt.Sprintf("%s/%s/%s/%s/%s", e.Kind, Hx(e.Path), Hx(e.Name), Hx(e.Source), Hx(e.Reason)))
		case "IG", "ID", "WI", "UP":
			xs = append(xs, fmt.Sprintf("%s/%s/%s", e.Kind, Hx(e.Name), Hx(e.Source)))
		case "PF":
			xs = append(xs, "PF")
		default:
			xs = append(xs, "XX/"+Hx(e.Raw))
		}
	}
	return JoinL(",", xs)
}

// ModelShard: a shard in the abstraction of the Lean model.
type ModelShard struct {
	Path, Name, Source, Ver string
	OptOk, MetaOk, Sidecar  bool
}

func EncShards(ss []ModelShard) string {
	var xs []string
	for _, s := range ss {
		xs = append(xs, strings.Join([]string{Hx(s.Path), Hx(s.Name), Hx(s.Source), Hx(s.Ver), B(s.OptOk), B(s.MetaOk), B(s.Sidecar)}, ":"))
	}
	return JoinL(";", xs)
}

// ModelRepo: a discovered repository in the abstraction of the Lean model.
type ModelRepo struct {
	Name, Source string
	Head         string // "" = IndexGitRepo fails
	Shard0       string
	More         []string
	NNew         int
}

func EncRepos(rs []ModelRepo) string {
	var xs []string
	for _, r := range rs {
		head := "!"
		if r.Head != "" {
			head = Hx(r.Head)
		}
		var more []string
		for _, m := range r.More {
			more = append(more, Hx(m))
		}
		xs = append(xs, strings.Join([]string{Hx(r.Name), Hx(r.Source), head, Hx(r.Shard0), JoinL(",", more), fmt.Sprint(r.NNew)}, ":"))
	}
	return JoinL(";", xs)
}

func EncStrs(xs []string) string {
	var ys []string
	for _, x := range xs {
		ys = append(ys, Hx(x))
	}
	return JoinL(",", ys)
}

// ParseReason maps the reason text of a prune action to the class the Lean model uses.
func ParseReason(s string) string { return reasonClass(s) }
