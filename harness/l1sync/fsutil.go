package l1sync

import (
	"crypto/sha256"
	"encoding/hex"
	"fmt"
	"io"
	"io/fs"
	"os"
	"path/filepath"
	"sort"
	"strings"
)

// CopyTree copies a directory tree (regular files, directories, symlinks).
func CopyTree(src, dst string) error {
	return filepath.Walk(src, func(p string, info fs.FileInfo, err error) error {
		if err != nil {
			return err
		}
		rel, _ := filepath.Rel(src, p)
		target := filepath.Join(dst, rel)
		switch {
		case info.IsDir():
			return os.MkdirAll(target, 0o755)
		case info.Mode()&os.ModeSymlink != 0:
			l, err := os.Readlink(p)
			if err != nil {
				return err
			}
			return os.Symlink(l, target)
		default:
			in, err := os.Open(p)
			if err != nil {
				return err
			}
			defer in.Close()
			out, err := os.OpenFile(target, os.O_CREATE|os.O_WRONLY|os.O_TRUNC, info.Mode().Perm()|0o200)
			if err != nil {
				return err
			}
			if _, err := io.Copy(out, in); err != nil {
				out.Close()
				return err
			}
			return out.Close()
		}
	})
}

// FileState is what a snapshot records about one directory entry.
type FileState struct {
	Mode  string
	Size  int64
	MTime int64 // nanoseconds
	Hash  string
}

// Snapshot of a directory tree: relative name -> state. "." is the directory itself (its mtime changes when an entry is
// created or deleted in it). A missing directory yields {"<absent>": {}}.
type Snapshot map[string]FileState

func Snap(dir string) Snapshot {
	s := Snapshot{}
	if _, err := os.Lstat(dir); err != nil {
		s["<absent>"] = FileState{}
		return s
	}
	filepath.Walk(dir, func(p string, info fs.FileInfo, err error) error {
		if err != nil {
			return nil
		}
		rel, _ := filepath.Rel(dir, p)
		st := FileState{Mode: info.Mode().String(), MTime: info.ModTime().UnixNano()}
		if info.Mode().IsRegular() {
			st.Size = info.Size()
			if f, err := os.Open(p); err == nil {
				h := sha256.New()
				io.Copy(h, f)
				f.Close()
				st.Hash = hex.EncodeToString(h.Sum(nil))[:16]
			}
		}
		s[rel] = st
		return nil
	})
	return s
}

// Diff lists the differences between two snapshots ("+name", "-name", "~name"), sorted.
func (a Snapshot) Diff(b Snapshot) []string {
	var d []string
	for k, v := range a {
		w, ok := b[k]
		if !ok {
			d = append(d, "-"+k)
		} else if v != w {
			d = append(d, "~"+k)
		}
	}
	for k := range b {
		if _, ok := a[k]; !ok {
			d = append(d, "+"+k)
		}
	}
	sort.Strings(d)
	return d
}

// DiffIgnoring is Diff without the entries whose name is in ignore (and without "." when only ignored names changed).
func (a Snapshot) DiffIgnoring(b Snapshot, ignore ...string) []string {
	ig := map[string]bool{}
	for _, n := range ignore {
		ig[n] = true
	}
	var d []string
	for _, x := range a.Diff(b) {
		if ig[x[1:]] {
			continue
		}
		d = append(d, x)
	}
	if len(d) == 1 && d[0] == "~." {
		return nil // the directory's own mtime: explained by an ignored entry
	}
	return d
}

func must(err error) {
	if err != nil {
		panic(err)
	}
}

func writeFile(p, content string) {
	must(os.MkdirAll(filepath.Dir(p), 0o755))
	must(os.WriteFile(p, []byte(content), 0o644))
}

func short(xs []string, n int) string {
	if len(xs) > n {
		return strings.Join(xs[:n], " ") + fmt.Sprintf(" …(+%d)", len(xs)-n)
	}
	return strings.Join(xs, " ")
}

// Others lists the entries of a snapshot that are not shards (*.zoekt at the top level) or their .meta sidecars, and
// not the directory itself: temporary files, lock file, notes, sub-directories and what is in them. Sorted.
func (a Snapshot) Others() []string {
	var out []string
	for k := range a {
		if k == "." || k == "<absent>" {
			continue
		}
		if !strings.Contains(k, "/") && (strings.HasSuffix(k, ".zoekt") || strings.HasSuffix(k, ".zoekt.meta")) {
			continue
		}
		out = append(out, k)
	}
	sort.Strings(out)
	return out
}
