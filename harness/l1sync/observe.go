package l1sync

import (
	"fmt"
	"net/url"
	"os"
	"path/filepath"
	"sort"
	"strings"

	"github.com/sourcegraph/zoekt"
	"github.com/sourcegraph/zoekt/index"
)

// ShardObs: one *.zoekt file of the index directory as index.ReadMetadataPathAlive reports it (the property's
// observation point).
type ShardObs struct {
	Path    string
	Name    string
	Source  string
	Ver     string // Branches rendered name=version,…
	Hash    string // Repository.IndexOptions
	URL     string
	Plain   bool // no ID / templates / RawConfig that a local repository description would not have
	Sidecar bool
	BuildID string // IndexMetadata.ID: unique per build
	NRepos  int
	Err     string
}

func renderBranches(bs []zoekt.RepositoryBranch) string {
	var parts []string
	for _, b := range bs {
		parts = append(parts, b.Name+"="+b.Version)
	}
	return strings.Join(parts, ",")
}

// Inventory reads every *.zoekt file of dir (sorted by name). ok=false if some shard is unreadable or does not hold
// exactly one alive repository (the tool refuses such an index directory).
func Inventory(dir string) (shards []ShardObs, ok bool) {
	entries, err := os.ReadDir(dir)
	if err != nil {
		return nil, os.IsNotExist(err)
	}
	ok = true
	for _, e := range entries {
		if e.IsDir() || filepath.Ext(e.Name()) != ".zoekt" {
			continue
		}
		p := filepath.Join(dir, e.Name())
		o := ShardObs{Path: p}
		if _, err := os.Stat(p + ".meta"); err == nil {
			o.Sidecar = true
		}
		repos, md, err := index.ReadMetadataPathAlive(p)
		switch {
		case err != nil:
			o.Err = "unreadable"
			ok = false
		case len(repos) != 1:
			o.Err = fmt.Sprintf("%d-repos", len(repos))
			o.NRepos = len(repos)
			ok = false
		default:
			r := repos[0]
			o.NRepos = 1
			o.Name, o.Source, o.Ver, o.Hash, o.URL = r.Name, r.Source, renderBranches(r.Branches), r.IndexOptions, r.URL
			o.Plain = r.ID == 0 && r.CommitURLTemplate == "" && r.FileURLTemplate == "" && r.LineFragmentTemplate == "" && len(r.RawConfig) == 0
			o.BuildID = md.ID
		}
		shards = append(shards, o)
	}
	return shards, ok
}

// ShardPath: the file name the builder gives shard n of a repository called name — written here independently of
// index.shardName (url.QueryEscape of the name; names in the generated scenarios stay below the 200-byte cut).
const FormatVersion = 16

func ShardPath(indexDir, name string, n int) string {
	return filepath.Join(indexDir, fmt.Sprintf("%s_v%d.%05d.zoekt", url.QueryEscape(name), FormatVersion, n))
}

// DefaultOptionsHash: Repository.IndexOptions of a shard built by `zoekt-local-sync` with default flags in this
// environment (no ctags binary installed).
func DefaultOptionsHash() string {
	o := index.Options{}
	o.SetDefaults()
	return o.GetHash()
}

// ---- discovery oracle (written from the property statement; shares no code with discover.go) ----

type Discovered struct {
	Name, Source string
	Bare         bool
}

func isDir(p string) bool {
	st, err := os.Stat(p)
	return err == nil && st.IsDir()
}

// repoKind: "" = not a repository; "work" = has .git (directory or file); "bare" = directory named *.git with objects/.
func repoKind(dir, dirName string) string {
	if st, err := os.Stat(filepath.Join(dir, ".git")); err == nil && (st.IsDir() || st.Mode().IsRegular()) {
		return "work"
	}
	if strings.HasSuffix(dirName, ".git") && isDir(filepath.Join(dir, "objects")) {
		return "bare"
	}
	return ""
}

func walkRoot(root, dir, rel string, out *[]Discovered) {
	dirName := filepath.Base(dir)
	if kind := repoKind(dir, dirName); kind != "" {
		name := rel
		if rel == "" {
			name = filepath.Base(root)
		}
		if kind == "bare" {
			name = strings.TrimSuffix(name, ".git")
		}
		*out = append(*out, Discovered{Name: name, Source: dir, Bare: kind == "bare"})
		return // repositories are leaves: nothing below them is looked at
	}
	entries, err := os.ReadDir(dir)
	if err != nil {
		return
	}
	for _, e := range entries { // sorted by name
		if e.IsDir() {
			sub := e.Name()
			if rel != "" {
				sub = rel + "/" + e.Name()
			}
			walkRoot(root, filepath.Join(dir, e.Name()), sub, out)
		}
	}
}

// Discover: the repositories under the roots, named by their path relative to their root. errClass is "dupname" /
// "duproot" / "dupsource" when the statement demands a failure, "" otherwise. Roots are absolute, existing, symlink-free.
func Discover(roots []string) (repos []Discovered, errClass string) {
	seenRoot := map[string]bool{}
	for _, r := range roots {
		if seenRoot[r] {
			return nil, "duproot"
		}
		seenRoot[r] = true
	}
	byName := map[string]bool{}
	bySource := map[string]bool{}
	for _, root := range roots {
		var found []Discovered
		walkRoot(root, root, "", &found)
		for _, d := range found {
			if byName[d.Name] {
				return nil, "dupname"
			}
			if bySource[d.Source] {
				return nil, "dupsource"
			}
			byName[d.Name], bySource[d.Source] = true, true
			repos = append(repos, d)
		}
	}
	sort.Slice(repos, func(i, j int) bool { return repos[i].Name < repos[j].Name })
	return repos, ""
}

// CollisionKind says where the statement's "two repositories with the same name" arises: "sameroot" if some single root
// alone already holds the collision (bare x.git next to a work tree x), "crossroot" otherwise, "" if there is none.
func CollisionKind(roots []string) string {
	if _, e := Discover(roots); e == "" || e == "duproot" {
		return ""
	}
	for _, r := range roots {
		if _, e := Discover([]string{r}); e != "" {
			return "sameroot"
		}
	}
	return "crossroot"
}
