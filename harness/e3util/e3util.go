// Package e3util: helpers shared by the C21 and C22 harnesses — in-memory shards, compound shards, a
// counting context, and canonical printing of search results.  (Owner: builder e3.)
package e3util

import (
	"bytes"
	"context"
	"fmt"
	"os"
	"path/filepath"
	"sync"
	"sync/atomic"
	"time"

	"github.com/sourcegraph/zoekt"
	"github.com/sourcegraph/zoekt/index"
)

// MemFile is an index.IndexFile over a byte slice.
type MemFile struct {
	Data []byte
	Nm   string
}

func (m *MemFile) Read(off, sz uint32) ([]byte, error) {
	if uint64(off)+uint64(sz) > uint64(len(m.Data)) {
		return nil, fmt.Errorf("memfile: read [%d,+%d) beyond %d", off, sz, len(m.Data))
	}
	return m.Data[off : off+sz], nil
}
func (m *MemFile) Size() (uint32, error) { return uint32(len(m.Data)), nil }
func (m *MemFile) Close()                {}
func (m *MemFile) Name() string          { return m.Nm }

// ShardBytes builds one shard of repo from docs with the real ShardBuilder and returns the shard file's bytes.
func ShardBytes(repo *zoekt.Repository, docs []index.Document) []byte {
	b, err := index.NewShardBuilder(repo)
	if err != nil {
		panic(err)
	}
	for _, d := range docs {
		if err := b.Add(d); err != nil {
			panic(err)
		}
	}
	var buf bytes.Buffer
	if err := b.Write(&buf); err != nil {
		panic(err)
	}
	return buf.Bytes()
}

func Open(data []byte, name string) zoekt.Searcher {
	s, err := index.NewSearcher(&MemFile{Data: data, Nm: name})
	if err != nil {
		panic(err)
	}
	return s
}

// Compound merges simple shards into one compound shard with the real index.Merge (through a scratch directory).
func Compound(scratch string, shards [][]byte) []byte {
	if err := os.MkdirAll(scratch, 0o755); err != nil {
		panic(err)
	}
	dir, err := os.MkdirTemp(scratch, "merge")
	if err != nil {
		panic(err)
	}
	defer os.RemoveAll(dir)
	var files []index.IndexFile
	for i, s := range shards {
		files = append(files, &MemFile{Data: s, Nm: fmt.Sprintf("in%d", i)})
	}
	tmp, _, err := index.Merge(dir, files...)
	if err != nil {
		panic(err)
	}
	data, err := os.ReadFile(filepath.Clean(tmp))
	if err != nil {
		panic(err)
	}
	return data
}

// CountingCtx is a context whose Done() channel starts to report cancellation at the (After+1)-th call of
// Done(): the first After polls see a live context.  After < 0 never cancels.  Value/Deadline are those of
// the parent.  Every poll is counted.
type CountingCtx struct {
	context.Context
	After  int64
	polls  atomic.Int64
	once   sync.Once
	closed chan struct{}
	open   chan struct{}
}

func NewCountingCtx(parent context.Context, after int) *CountingCtx {
	c := &CountingCtx{Context: parent, After: int64(after), closed: make(chan struct{}), open: make(chan struct{})}
	close(c.closed)
	return c
}

func (c *CountingCtx) Done() <-chan struct{} {
	n := c.polls.Add(1)
	if c.After >= 0 && n > c.After {
		return c.closed
	}
	return c.open
}

func (c *CountingCtx) Err() error {
	if c.After >= 0 && c.polls.Load() > c.After {
		return context.Canceled
	}
	return nil
}
func (c *CountingCtx) Polls() int                  { return int(c.polls.Load()) }
func (c *CountingCtx) Deadline() (time.Time, bool) { return c.Context.Deadline() }
func (c *CountingCtx) Value(key any) any           { return c.Context.Value(key) }
