package e2lib

import (
	"fmt"
	"unicode/utf8"

	"verifharness/gen"
)

var toksASCII = []string{"foo", "bar", "foobar", "abc", "abcd", "bcd", "needle", "x", "aa", "aaa", "func", "main", "a_b", "Foo", "BAR", "if", "ab", "k1", "Kelvin"}
var toksUni = []string{"é", "été", "Été", "日本語", "本", "жук", "Жук", "€", "😀", "😀😀", "naïve", "Kelvin", "ß"}
var punct = []string{" ", " ", " ", "(", ")", ".", "-", "=", "\t", "  ", ", "}

// Profile of a generated text.
type Profile struct {
	ASCII     bool // only ASCII (PlainASCII shards when every document and name is)
	Heavy4    bool // long runs of 4-byte runes
	MaxLines  int
	MaxTokens int // per line
	CRLF      bool
}

// GenText: valid UTF-8 source-like text: lines of identifiers and punctuation, empty lines, optional CRLF,
// with or without a trailing newline. Never contains NUL.
func GenText(r *gen.Rand, p Profile) []byte {
	var b []byte
	nl := r.Intn(p.MaxLines + 1)
	for i := 0; i < nl; i++ {
		if r.Chance(1, 6) {
			// empty line
		} else {
			nt := 1 + r.Intn(max(p.MaxTokens, 1))
			for j := 0; j < nt; j++ {
				switch {
				case p.Heavy4 && r.Chance(1, 3):
					n := r.Range(1, 120)
					for k := 0; k < n; k++ {
						b = append(b, gen.Pick(r, []string{"😀", "𝒳", "🎉"})...)
					}
				case !p.ASCII && r.Chance(1, 3):
					b = append(b, gen.Pick(r, toksUni)...)
				case r.Chance(1, 4):
					b = append(b, gen.Pick(r, punct)...)
				default:
					b = append(b, gen.Pick(r, toksASCII)...)
				}
				if r.Chance(1, 2) {
					b = append(b, ' ')
				}
			}
		}
		last := i == nl-1
		if !last || r.Chance(2, 3) {
			if p.CRLF && r.Chance(1, 2) {
				b = append(b, '\r')
			}
			b = append(b, '\n')
		}
	}
	return b
}

// RandProfile picks a profile; `long` asks for texts that cross the 100-rune sampling boundaries.
func RandProfile(r *gen.Rand, long bool) Profile {
	p := Profile{MaxLines: 6, MaxTokens: 5}
	if long {
		p.MaxLines = 30
		p.MaxTokens = 12
	}
	switch r.Intn(8) {
	case 0, 1:
		p.ASCII = true
	case 2:
		p.Heavy4 = true
	case 3:
		p.CRLF = true
	}
	return p
}

func GenName(r *gen.Rand, i int, ascii bool) string {
	base := gen.Pick(r, []string{"foo", "bar", "main", "abc", "needle", "lib/foo", "src/abcd", "x"})
	if !ascii && r.Chance(1, 3) {
		base += gen.Pick(r, []string{"é", "日本", "😀", "ж"})
	}
	return fmt.Sprintf("%s%d.%s", base, i, gen.Pick(r, []string{"go", "txt", "c"}))
}

// CutPattern picks a substring of text on rune boundaries, 1..maxRunes runes, possibly spanning newlines.
func CutPattern(r *gen.Rand, text []byte, maxRunes int) string {
	if len(text) == 0 {
		return ""
	}
	i := r.Intn(len(text))
	for i > 0 && !utf8.RuneStart(text[i]) {
		i--
	}
	n := 1 + r.Intn(maxRunes)
	j := i
	for k := 0; k < n && j < len(text); k++ {
		_, sz := utf8.DecodeRune(text[j:])
		j += sz
	}
	return string(text[i:j])
}
