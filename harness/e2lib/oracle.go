package e2lib

import (
	"bytes"
	"fmt"
	"regexp/syntax"
	"sort"
	"unicode/utf8"

	"github.com/sourcegraph/zoekt"
)

// ---- Go oracles over the reported matches of one file. They only use the file's bytes. ----

type rng struct {
	fn      bool
	off, sz int
}

func nlBefore(data []byte, off int) int { return bytes.Count(data[:off], []byte{'\n'}) }

// lineStartOf: byte offset of the start of 1-based line n (len(data) if there are fewer lines).
func lineStartOf(data []byte, n int) int {
	pos := 0
	for l := 1; l < n; l++ {
		i := bytes.IndexByte(data[pos:], '\n')
		if i < 0 {
			return len(data)
		}
		pos += i + 1
	}
	return pos
}

func countLines(b []byte) int {
	n := bytes.Count(b, []byte{'\n'})
	if len(b) > 0 && b[len(b)-1] != '\n' {
		n++
	}
	return n
}

func cutAtNL(data []byte, off, sz int) [][2]int {
	var out [][2]int
	start := off
	for i := off; i < off+sz; i++ {
		if data[i] == '\n' {
			if i > start {
				out = append(out, [2]int{start, i - start})
			}
			start = i + 1
		}
	}
	if off+sz > start {
		out = append(out, [2]int{start, off + sz - start})
	}
	return out
}

// QKind: which single-atom exactness clause applies.
type QKind struct {
	Kind   string   // "multi", "sub", "occs", "re"
	Pat    string   // for "sub" and "re"
	CS     bool     // for "re"
	Engine [][2]int // for "re": the regexp engine's matches in this file
}

// CheckRanges is the C02 statement on the ranges reported for one file. groups: ranges per line/chunk match.
func CheckRanges(data, name []byte, lineMode bool, kind QKind, cands []Cand, groups [][]rng) (verdict, key string) {
	var content []rng
	for _, g := range groups {
		for i, r := range g {
			lim := len(data)
			if r.fn {
				lim = len(name)
			}
			if r.off < 0 || r.sz < 0 || r.off+r.sz > lim {
				return fmt.Sprintf("range [%d,+%d) outside the %d bytes", r.off, r.sz, lim), "range-outside"
			}
			if i > 0 && (g[i-1].off+g[i-1].sz > r.off || g[i-1].off > r.off) {
				return fmt.Sprintf("ranges of one match out of order or overlapping at %d", r.off), "range-order"
			}
			if !r.fn {
				content = append(content, r)
			}
			// matched by an atom
			ok := false
			for _, c := range cands {
				if c.FileName != r.fn {
					continue
				}
				if !lineMode || r.fn {
					if c.Off == r.off && c.Sz == r.sz {
						ok = true
					}
				} else {
					for _, p := range cutAtNL(data, c.Off, c.Sz) {
						if p[0] == r.off && p[1] == r.sz {
							ok = true
						}
					}
				}
			}
			if !ok && len(cands) == 0 && r.fn && r.off == 0 && r.sz == len(name) {
				ok = true // no text atom contributes a match: the whole file name is the documented fallback
			}
			if !ok {
				return fmt.Sprintf("range [%d,+%d) is not a match of any positive atom", r.off, r.sz), "range-not-an-atom-match"
			}
		}
	}
	sort.SliceStable(content, func(i, j int) bool { return content[i].off < content[j].off })
	for i := 1; i < len(content); i++ {
		if content[i-1].off+content[i-1].sz > content[i].off {
			return fmt.Sprintf("ranges overlap at %d", content[i].off), "range-overlap"
		}
	}
	expect := func(occ [][2]int) [][2]int {
		if !lineMode {
			return occ
		}
		var out [][2]int
		for _, o := range occ {
			out = append(out, cutAtNL(data, o[0], o[1])...)
		}
		return out
	}
	same := func(want [][2]int) bool {
		if len(want) != len(content) {
			return false
		}
		for i := range want {
			if want[i][0] != content[i].off || want[i][1] != content[i].sz {
				return false
			}
		}
		return true
	}
	switch kind.Kind {
	case "sub", "occs":
		var occ [][2]int
		pos := 0
		for _, c := range cands { // all occurrences by increasing offset
			if !c.FileName && c.Off >= pos {
				occ = append(occ, [2]int{c.Off, c.Sz})
				pos = c.Off + c.Sz
			}
		}
		if !same(expect(occ)) {
			return "ranges are not the successive leftmost non-overlapping occurrences", "substring-not-leftmost"
		}
	case "re":
		cover := func(rs [][2]int) []bool {
			m := make([]bool, len(data))
			for _, r := range rs {
				for i := r[0]; i < r[0]+r[1]; i++ {
					m[i] = true
				}
			}
			return m
		}
		var ms, got [][2]int
		for _, m := range kind.Engine {
			if m[1] > 0 {
				ms = append(ms, m)
			}
		}
		for _, r := range content {
			got = append(got, [2]int{r.off, r.sz})
		}
		a, b := cover(expect(ms)), cover(got)
		for i := range a {
			if a[i] != b[i] {
				key := "regexp-cover"
				if re, err := syntax.Parse(kind.Pat, syntax.Perl); err == nil {
					if lits, ok := LiteralEquivalent(re, kind.CS); ok && PrefixAlternation(lits) {
						key = "regexp-cover:literal-alternation-shorter-first"
					}
				}
				return fmt.Sprintf("byte %d: covered by the engine's matches = %v, by the reported ranges = %v", i, a[i], b[i]), key
			}
		}
	}
	return "", ""
}

func LineGroups(lms []zoekt.LineMatch) [][]rng {
	var out [][]rng
	for _, lm := range lms {
		var g []rng
		for _, f := range lm.LineFragments {
			g = append(g, rng{lm.FileName, int(f.Offset), f.MatchLength})
		}
		out = append(out, g)
	}
	return out
}

func ChunkGroups(cms []zoekt.ChunkMatch) [][]rng {
	var out [][]rng
	for _, cm := range cms {
		var g []rng
		for _, r := range cm.Ranges {
			g = append(g, rng{cm.FileName, int(r.Start.ByteOffset), int(r.End.ByteOffset) - int(r.Start.ByteOffset)})
		}
		out = append(out, g)
	}
	return out
}

// CheckLines is the line half of the C03 statement.
func CheckLines(data, name []byte, ctx int, lms []zoekt.LineMatch) (verdict, key string) {
	total := countLines(data)
	for _, lm := range lms {
		if lm.FileName {
			if !bytes.Equal(lm.Line, name) {
				return "file-name match does not report the file name as its text", "filename-text"
			}
			continue
		}
		n := lm.LineNumber
		if n < 1 || lm.LineStart < 0 || lm.LineStart >= len(data) || lm.LineStart != lineStartOf(data, n) || nlBefore(data, lm.LineStart)+1 != n {
			return fmt.Sprintf("line %d start %d disagrees with the file", n, lm.LineStart), "line-start"
		}
		if lm.LineEnd != lineStartOf(data, n+1) || !bytes.Equal(lm.Line, data[lm.LineStart:lm.LineEnd]) {
			return fmt.Sprintf("line %d end %d / text disagrees with the file", n, lm.LineEnd), "line-end-text"
		}
		for _, f := range lm.LineFragments {
			if int(f.Offset) < lm.LineStart || int(f.Offset)+f.MatchLength > lm.LineEnd || f.LineOffset != int(f.Offset)-lm.LineStart {
				return fmt.Sprintf("fragment at %d not inside line %d", f.Offset, n), "fragment-line"
			}
		}
		k := min(ctx, n-1)
		if !bytes.Equal(lm.Before, data[lineStartOf(data, n-k):lm.LineStart]) || countLines(lm.Before) != k {
			return fmt.Sprintf("line %d: before-context is not the %d preceding lines", n, k), "context-before"
		}
		if !bytes.Equal(lm.After, data[lm.LineEnd:lineStartOf(data, n+1+ctx)]) || countLines(lm.After) != min(ctx, total-n) {
			return fmt.Sprintf("line %d: after-context is not the %d following lines", n, min(ctx, total-n)), "context-after"
		}
	}
	return "", ""
}

// CheckChunks is the chunk half of the C03 statement.
func CheckChunks(data, name []byte, cms []zoekt.ChunkMatch) (verdict, key string) {
	var spans [][2]int
	for _, cm := range cms {
		if cm.FileName {
			if !bytes.Equal(cm.Content, name) {
				return "file-name match does not report the file name as its text", "filename-text"
			}
			for _, r := range cm.Ranges {
				if int(r.End.ByteOffset) > len(name) || r.Start.ByteOffset > r.End.ByteOffset ||
					int(r.Start.Column) != 1+utf8.RuneCount(name[:r.Start.ByteOffset]) || int(r.End.Column) != 1+utf8.RuneCount(name[:r.End.ByteOffset]) ||
					r.Start.LineNumber != 1 || r.End.LineNumber != 1 {
					return "file-name range location disagrees with the name", "filename-location"
				}
			}
			continue
		}
		st := int(cm.ContentStart.ByteOffset)
		en := st + len(cm.Content)
		ln := int(cm.ContentStart.LineNumber)
		if ln < 1 || cm.ContentStart.Column != 1 || st != lineStartOf(data, ln) || en > len(data) || !bytes.Equal(cm.Content, data[st:en]) {
			return fmt.Sprintf("chunk at %d does not start at its reported location / is not the file's bytes", st), "chunk-start"
		}
		if !(en == len(data) || en == 0 || data[en-1] == '\n') {
			return fmt.Sprintf("chunk [%d,%d) does not end at a line end", st, en), "chunk-whole-lines"
		}
		spans = append(spans, [2]int{st, en})
		for _, r := range cm.Ranges {
			so, eo := int(r.Start.ByteOffset), int(r.End.ByteOffset)
			if so < st || eo > en || so > eo {
				return fmt.Sprintf("range [%d,%d) not inside chunk [%d,%d)", so, eo, st, en), "chunk-contains-ranges"
			}
			sl := nlBefore(data, so) + 1
			if int(r.Start.LineNumber) != sl || int(r.Start.Column) != 1+utf8.RuneCount(data[lineStartOf(data, sl):so]) {
				return fmt.Sprintf("start location of range at %d disagrees with the offset", so), "range-start-location"
			}
			el := nlBefore(data, max(so, eo-1)) + 1
			if int(r.End.LineNumber) != el || int(r.End.Column) != 1+utf8.RuneCount(data[lineStartOf(data, el):eo]) {
				return fmt.Sprintf("end location of range ending at %d disagrees with the offset", eo), "range-end-location"
			}
		}
	}
	sort.Slice(spans, func(i, j int) bool { return spans[i][0] < spans[j][0] })
	for i := 1; i < len(spans); i++ {
		if spans[i-1][1] > spans[i][0] {
			return fmt.Sprintf("chunks [%d,%d) and [%d,%d) overlap", spans[i-1][0], spans[i-1][1], spans[i][0], spans[i][1]), "chunks-overlap"
		}
	}
	return "", ""
}
