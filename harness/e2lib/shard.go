// Package e2lib: helpers shared by the C02 and C03 harnesses — in-memory shards built by the real ShardBuilder,
// a query AST with a naive oracle (shares no code with the index), canonical rendering of line/chunk matches,
// text generators.
package e2lib

import (
	"bytes"
	"context"
	"fmt"
	"strings"

	"github.com/sourcegraph/zoekt"
	"github.com/sourcegraph/zoekt/index"
	"github.com/sourcegraph/zoekt/query"

	"verifharness/gen"
)

// memFile is an index.IndexFile over a byte slice.
type memFile struct{ data []byte }

func (f *memFile) Read(off, sz uint32) ([]byte, error) {
	if uint64(off)+uint64(sz) > uint64(len(f.data)) {
		return nil, fmt.Errorf("memFile: out of bounds read %d+%d > %d", off, sz, len(f.data))
	}
	return f.data[off : off+sz], nil
}
func (f *memFile) Size() (uint32, error) { return uint32(len(f.data)), nil }
func (f *memFile) Close()                {}
func (f *memFile) Name() string          { return "mem.zoekt" }

type Doc struct {
	Name    string
	Content []byte
}

// BuildShard writes the documents with the real ShardBuilder (in the given order) and opens the shard with the
// real reader.
func BuildShard(docs []Doc) (zoekt.Searcher, error) {
	b, err := index.NewShardBuilder(&zoekt.Repository{Name: "repo"})
	if err != nil {
		return nil, err
	}
	for _, d := range docs {
		if err := b.Add(index.Document{Name: d.Name, Content: d.Content, Language: "Text"}); err != nil {
			return nil, err
		}
	}
	var buf bytes.Buffer
	if err := b.Write(&buf); err != nil {
		return nil, err
	}
	return index.NewSearcher(&memFile{buf.Bytes()})
}

// Search runs the real search with no limits; a panic is reported as an error.
func Search(s zoekt.Searcher, q query.Q, chunks bool, ctx int) (res *zoekt.SearchResult, err error) {
	defer func() {
		if r := recover(); r != nil {
			err = fmt.Errorf("PANIC: %v", r)
		}
	}()
	return s.Search(context.Background(), q, &zoekt.SearchOptions{ChunkMatches: chunks, NumContextLines: ctx})
}

// Guard runs f; a panic of the code under test becomes a failing Go-oracle case (with its replay detail) instead of
// killing the harness.
func Guard(w interface{ Emit(gen.Case) }, class string, detail any, f func()) {
	defer func() {
		if r := recover(); r != nil {
			w.Emit(gen.Case{Go: fmt.Sprintf("panic in %s: %v", class, r), Key: strings.SplitN(class, "/", 2)[0] + "-panic", Class: class, Detail: gen.Detail(detail)})
		}
	}()
	f()
}
