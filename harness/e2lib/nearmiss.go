package e2lib

import (
	"bytes"
	"fmt"
	"unicode"
	"unicode/utf8"

	"verifharness/gen"
)

// Near-miss case-insensitive substring queries: the pattern is a piece of a document in which ONE non-letter ASCII byte
// is replaced by its "bit 0x20" counterpart ('[' <-> '{', '_' <-> DEL, '\n' <-> '*', '\t' <-> ')', '@' <-> '`', …) — a
// byte pair that differs exactly like an upper/lower-case letter pair does, but is not a case pair. A decoy document
// makes every trigram of the pattern exist in the shard and makes the trigrams that contain the replaced byte frequent,
// so that the trigram stage (which drives on the two rarest trigrams of the pattern) proposes the near-miss position
// and only the verification of the candidate (candidateMatch.matchContent) stands between it and the result.
// The query is true of no document unless the mutated text happens to occur elsewhere (the oracle decides).

func isLetter(b byte) bool { return b >= 'A' && b <= 'Z' || b >= 'a' && b <= 'z' }

func asciiWindow(b []byte, lo, hi int) bool {
	if lo < 0 || hi > len(b) {
		return false
	}
	for _, c := range b[lo:hi] {
		if c >= 0x80 || c == 0 {
			return false
		}
	}
	return true
}

// GenNearMiss returns the query, the corpus extended with the decoy document, and ok=false when no document has a
// suitable position.
func GenNearMiss(r *gen.Rand, docs []Doc) (Q, []Doc, bool) {
	type site struct{ doc, pos int }
	var sites []site
	for di, d := range docs {
		for i, c := range d.Content {
			if c >= 0x80 || isLetter(c) {
				continue
			}
			m := c ^ 0x20
			if m == 0 || m >= 0x7f && m != 0x7f || m < 0x09 {
				continue
			}
			if asciiWindow(d.Content, i-3, i+4) {
				sites = append(sites, site{di, i})
			}
		}
	}
	if len(sites) == 0 {
		return nil, nil, false
	}
	s := gen.Pick(r, sites)
	data := docs[s.doc].Content
	a, b := 3, 3
	for a < 5 && asciiWindow(data, s.pos-a-1, s.pos) && r.Bool() {
		a++
	}
	for b < 5 && asciiWindow(data, s.pos, s.pos+b+2) && r.Bool() {
		b++
	}
	pat := append([]byte(nil), data[s.pos-a:s.pos+b+1]...)
	pat[a] ^= 0x20
	if r.Bool() { // the pattern's letters in the other case: still a case-insensitive query
		pat = bytes.ToUpper(pat)
		if pat[a] != data[s.pos]^0x20 {
			pat[a] = data[s.pos] ^ 0x20
		}
	}
	// decoy: the five bytes around the replaced byte, many times — every trigram with that byte becomes frequent
	win := append([]byte(nil), data[s.pos-2:s.pos+3]...)
	win[2] ^= 0x20
	var decoy []byte
	for i, n := 0, r.Range(30, 45); i < n; i++ {
		decoy = append(decoy, win...)
		decoy = append(decoy, ' ')
		if i%8 == 7 {
			decoy = append(decoy, '\n')
		}
	}
	out := append(append([]Doc(nil), docs...), Doc{Name: fmt.Sprintf("decoy%d.txt", len(docs)), Content: decoy})
	return Sub{Pat: string(pat), CS: false, Scope: ScopeContent}, out, true
}

// GenNearMissRune is the multi-byte flavour: one non-ASCII rune of a piece of a document is replaced by its successor
// code point (same UTF-8 length, not a case variant of it); the decoy document holds the five runes around the
// replaced one many times. It exercises the rune path of the candidate verification.
func GenNearMissRune(r *gen.Rand, docs []Doc) (Q, []Doc, bool) {
	type site struct {
		doc int
		rs  []rune
		pos int
	}
	var sites []site
	for di, d := range docs {
		if !utf8.Valid(d.Content) {
			continue
		}
		rs := []rune(string(d.Content))
		for i, c := range rs {
			if c < 0x80 || i < 3 || i+3 >= len(rs) {
				continue
			}
			m := c + 1
			if !utf8.ValidRune(m) || utf8.RuneLen(m) != utf8.RuneLen(c) || unicode.ToLower(m) == unicode.ToLower(c) ||
				unicode.SimpleFold(m) == c || unicode.SimpleFold(c) == m || !ciSafe(string(m)) {
				continue
			}
			ok := true
			for _, x := range rs[i-3 : i+4] {
				if x == 0 || !ciSafe(string(x)) {
					ok = false
				}
			}
			if ok {
				sites = append(sites, site{di, rs, i})
			}
		}
	}
	if len(sites) == 0 {
		return nil, nil, false
	}
	s := gen.Pick(r, sites)
	a, b := 3, 3
	for a < 5 && s.pos-a-1 >= 0 && r.Bool() {
		a++
	}
	for b < 5 && s.pos+b+1 < len(s.rs) && r.Bool() {
		b++
	}
	pat := append([]rune(nil), s.rs[s.pos-a:s.pos+b+1]...)
	pat[a]++
	if !ciSafe(string(pat)) {
		return nil, nil, false
	}
	win := append([]rune(nil), s.rs[s.pos-2:s.pos+3]...)
	win[2]++
	var decoy []byte
	for i, n := 0, r.Range(30, 45); i < n; i++ {
		decoy = append(decoy, string(win)...)
		decoy = append(decoy, ' ')
		if i%8 == 7 {
			decoy = append(decoy, '\n')
		}
	}
	out := append(append([]Doc(nil), docs...), Doc{Name: fmt.Sprintf("decoy%d.txt", len(docs)), Content: decoy})
	return Sub{Pat: string(pat), CS: false, Scope: ScopeContent}, out, true
}
