package e2lib

import (
	"regexp"
	"regexp/syntax"
	"unicode"
	"unicode/utf8"

	"github.com/sourcegraph/zoekt/query"
)

// Cand is a match of an atom: on the file name or on the content.
type Cand struct {
	FileName bool
	Off, Sz  int
}

// Q is the harness's own query tree.
type Q interface{}

const (
	ScopeBoth = iota // neither flag: zoekt expands to (file name OR content)
	ScopeContent
	ScopeFileName
)

type Sub struct {
	Pat   string
	CS    bool
	Scope int
}
type Re struct {
	Pat   string
	CS    bool
	Scope int
}
type And struct{ Ch []Q }
type Or struct{ Ch []Q }
type Not struct{ Ch Q }
type TypeFile struct{ Ch Q } // type:file — matches are not collected below it
type Boost struct{ Ch Q }

// ToZoekt converts to the real query type.
func ToZoekt(q Q) query.Q {
	switch s := q.(type) {
	case Sub:
		return &query.Substring{Pattern: s.Pat, CaseSensitive: s.CS, Content: s.Scope == ScopeContent, FileName: s.Scope == ScopeFileName}
	case Re:
		re, err := syntax.Parse(s.Pat, syntax.Perl)
		if err != nil {
			panic(err)
		}
		return &query.Regexp{Regexp: re, CaseSensitive: s.CS, Content: s.Scope == ScopeContent, FileName: s.Scope == ScopeFileName}
	case And:
		var ch []query.Q
		for _, c := range s.Ch {
			ch = append(ch, ToZoekt(c))
		}
		return &query.And{Children: ch}
	case Or:
		var ch []query.Q
		for _, c := range s.Ch {
			ch = append(ch, ToZoekt(c))
		}
		return &query.Or{Children: ch}
	case Not:
		return &query.Not{Child: ToZoekt(s.Ch)}
	case TypeFile:
		return &query.Type{Type: query.TypeFileName, Child: ToZoekt(s.Ch)}
	case Boost:
		return &query.Boost{Boost: 2, Child: ToZoekt(s.Ch)}
	}
	panic("unknown query node")
}

// ---- naive oracle: scans the whole name / content ----

// SubOccurrences lists every occurrence (overlapping ones included) of pat in text, by a byte-wise scan
// (case-sensitive) or a rune-wise lower-case comparison at every rune start (case-insensitive), by increasing offset.
func SubOccurrences(text []byte, pat string, cs bool) [][2]int {
	var out [][2]int
	if pat == "" {
		return nil
	}
	if cs {
		p := []byte(pat)
		for i := 0; i+len(p) <= len(text); i++ {
			ok := true
			for j := range p {
				if text[i+j] != p[j] {
					ok = false
					break
				}
			}
			if ok {
				out = append(out, [2]int{i, len(p)})
			}
		}
		return out
	}
	var lp []rune
	for _, c := range pat {
		lp = append(lp, unicode.ToLower(c))
	}
	for i := 0; i < len(text); {
		_, w := utf8.DecodeRune(text[i:])
		j := i
		ok := true
		for _, want := range lp {
			if j >= len(text) {
				ok = false
				break
			}
			c, sz := utf8.DecodeRune(text[j:])
			if unicode.ToLower(c) != want {
				ok = false
				break
			}
			j += sz
		}
		if ok {
			out = append(out, [2]int{i, j - i})
		}
		i += w
	}
	return out
}

// ReMatches lists the matches of the standard library's regexp engine (not the engines zoekt uses).
func ReMatches(text []byte, pat string, cs bool) [][2]int {
	p := pat
	if !cs {
		p = "(?i)" + pat
	}
	re := regexp.MustCompile(p)
	var out [][2]int
	for _, m := range re.FindAllIndex(text, -1) {
		out = append(out, [2]int{m[0], m[1] - m[0]})
	}
	return out
}

func atomMatches(name, content []byte, scope int, f func([]byte) [][2]int) []Cand {
	var out []Cand
	if scope == ScopeBoth || scope == ScopeFileName {
		for _, m := range f(name) {
			out = append(out, Cand{true, m[0], m[1]})
		}
	}
	if scope == ScopeBoth || scope == ScopeContent {
		for _, m := range f(content) {
			out = append(out, Cand{false, m[0], m[1]})
		}
	}
	return out
}

// nonOverlapping keeps the successive leftmost non-overlapping ones of occurrences listed by increasing offset.
func nonOverlapping(occ [][2]int) [][2]int {
	var out [][2]int
	pos := 0
	for _, o := range occ {
		if o[0] >= pos {
			out = append(out, o)
			pos = o[0] + o[1]
			if o[1] == 0 {
				pos++
			}
		}
	}
	return out
}

// subMatches: what a substring atom contributes. zoekt searches patterns of three runes or more through the trigram
// index, where every occurrence (overlapping ones included) is a candidate; shorter patterns are searched as a
// literal regular expression, whose matches are the successive non-overlapping occurrences.
func subMatches(text []byte, pat string, cs bool) [][2]int {
	occ := SubOccurrences(text, pat, cs)
	if utf8.RuneCountInString(pat) < 3 {
		return nonOverlapping(occ)
	}
	return occ
}

// Lit is a literal of a regular expression that zoekt evaluates as substrings.
type Lit struct {
	Pat string
	CS  bool
}

// LiteralEquivalent mirrors the decision of zoekt's regexp-to-substring distillation for the regexps it treats as
// *equivalent* to substring searches (captures, x+, x{1,n} and alternations of literals of 3+ runes): such a
// regexp atom contributes the occurrences of its literals, not the regexp engine's matches.
func LiteralEquivalent(re *syntax.Regexp, cs bool) ([]Lit, bool) {
	switch re.Op {
	case syntax.OpLiteral:
		s := string(re.Rune)
		// runes, not bytes, since the fix "count runes, not bytes, when deciding whether a regexp literal is long
		// enough for a substring matchTree" (index/eval.go)
		if utf8.RuneCountInString(s) >= 3 {
			return []Lit{{s, cs && re.Flags&syntax.FoldCase == 0}}, true
		}
	case syntax.OpCapture, syntax.OpPlus:
		return LiteralEquivalent(re.Sub[0], cs)
	case syntax.OpRepeat:
		if re.Min == 1 {
			return LiteralEquivalent(re.Sub[0], cs)
		}
	case syntax.OpConcat:
		if len(re.Sub) == 1 {
			return LiteralEquivalent(re.Sub[0], cs)
		}
	case syntax.OpAlternate:
		var out []Lit
		for _, sub := range re.Sub {
			l, ok := LiteralEquivalent(sub, cs)
			if !ok {
				return nil, false
			}
			out = append(out, l...)
		}
		return out, len(out) > 0
	}
	return nil, false
}

// PrefixAlternation: a literal-equivalent regexp in which some literal is a proper prefix (up to case when either is
// case-insensitive) of a *later* literal — the leftmost-first engine prefers the earlier, shorter alternative.
func PrefixAlternation(lits []Lit) bool {
	for i := range lits {
		for j := i + 1; j < len(lits); j++ {
			a, b := lits[i], lits[j]
			if len(a.Pat) < len(b.Pat) {
				m := SubOccurrences([]byte(b.Pat), a.Pat, a.CS && b.CS)
				if len(m) > 0 && m[0][0] == 0 {
					return true
				}
			}
		}
	}
	return false
}

func reAtomMatches(text []byte, s Re) [][2]int {
	re, err := syntax.Parse(s.Pat, syntax.Perl)
	if err != nil {
		panic(err)
	}
	if lits, ok := LiteralEquivalent(re, s.CS); ok {
		var out [][2]int
		for _, l := range lits {
			out = append(out, subMatches(text, l.Pat, l.CS)...)
		}
		return out
	}
	return ReMatches(text, s.Pat, s.CS)
}

// AtomCands: the matches of an atom in one document.
func AtomCands(q Q, name, content []byte) []Cand {
	switch s := q.(type) {
	case Sub:
		return atomMatches(name, content, s.Scope, func(t []byte) [][2]int { return subMatches(t, s.Pat, s.CS) })
	case Re:
		return atomMatches(name, content, s.Scope, func(t []byte) [][2]int { return reAtomMatches(t, s) })
	}
	panic("not an atom")
}

// Eval: is the query true of the document (each atom decided by scanning).
func Eval(q Q, name, content []byte) bool {
	switch s := q.(type) {
	case Sub, Re:
		return len(AtomCands(q, name, content)) > 0
	case And:
		for _, c := range s.Ch {
			if !Eval(c, name, content) {
				return false
			}
		}
		return true
	case Or:
		for _, c := range s.Ch {
			if Eval(c, name, content) {
				return true
			}
		}
		return false
	case Not:
		return !Eval(s.Ch, name, content)
	case TypeFile:
		return Eval(s.Ch, name, content)
	case Boost:
		return Eval(s.Ch, name, content)
	}
	panic("unknown query node")
}

// Collect: the matches of every non-negated atom that contributes to the document being a result: atoms below a
// true and/or child; nothing below not and below type:file.
func Collect(q Q, name, content []byte) []Cand {
	if !Eval(q, name, content) {
		return nil
	}
	switch s := q.(type) {
	case Sub, Re:
		return AtomCands(q, name, content)
	case And:
		var out []Cand
		for _, c := range s.Ch {
			out = append(out, Collect(c, name, content)...)
		}
		return out
	case Or:
		var out []Cand
		for _, c := range s.Ch {
			out = append(out, Collect(c, name, content)...)
		}
		return out
	case Boost:
		return Collect(s.Ch, name, content)
	}
	return nil // Not, TypeFile
}
