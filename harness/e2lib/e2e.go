package e2lib

import (
	"fmt"
	"regexp"
	"strings"
	"unicode/utf8"

	"github.com/sourcegraph/zoekt"

	"verifharness/gen"
)

// E2ECase is one (corpus, query, mode, context) end-to-end run; it is what replay files store.
type E2ECase struct {
	Docs   []Doc  `json:"docs"`
	Query  string `json:"query"` // printed form, for humans
	Q      QJSON  `json:"q"`
	Chunks bool   `json:"chunks"`
	Ctx    int    `json:"ctx"`
}

// QJSON is a serialisable form of Q.
type QJSON struct {
	Op    string  `json:"op"`
	Pat   string  `json:"pat,omitempty"`
	CS    bool    `json:"cs,omitempty"`
	Scope int     `json:"scope,omitempty"`
	Ch    []QJSON `json:"ch,omitempty"`
}

func ToJSON(q Q) QJSON {
	switch s := q.(type) {
	case Sub:
		return QJSON{Op: "sub", Pat: s.Pat, CS: s.CS, Scope: s.Scope}
	case Re:
		return QJSON{Op: "re", Pat: s.Pat, CS: s.CS, Scope: s.Scope}
	case And:
		j := QJSON{Op: "and"}
		for _, c := range s.Ch {
			j.Ch = append(j.Ch, ToJSON(c))
		}
		return j
	case Or:
		j := QJSON{Op: "or"}
		for _, c := range s.Ch {
			j.Ch = append(j.Ch, ToJSON(c))
		}
		return j
	case Not:
		return QJSON{Op: "not", Ch: []QJSON{ToJSON(s.Ch)}}
	case TypeFile:
		return QJSON{Op: "typefile", Ch: []QJSON{ToJSON(s.Ch)}}
	case Boost:
		return QJSON{Op: "boost", Ch: []QJSON{ToJSON(s.Ch)}}
	}
	panic("unknown node")
}

func FromJSON(j QJSON) Q {
	var ch []Q
	for _, c := range j.Ch {
		ch = append(ch, FromJSON(c))
	}
	switch j.Op {
	case "sub":
		return Sub{j.Pat, j.CS, j.Scope}
	case "re":
		return Re{j.Pat, j.CS, j.Scope}
	case "and":
		return And{ch}
	case "or":
		return Or{ch}
	case "not":
		return Not{ch[0]}
	case "typefile":
		return TypeFile{ch[0]}
	case "boost":
		return Boost{ch[0]}
	}
	panic("unknown op " + j.Op)
}

// Classify: which exactness clause of C02 applies, and the protocol's kind field.
func Classify(q Q) (QKind, string) {
	switch s := q.(type) {
	case Sub:
		if s.Scope == ScopeContent {
			if s.CS {
				return QKind{Kind: "sub", Pat: s.Pat}, "sub:" + gen.Hex([]byte(s.Pat))
			}
			return QKind{Kind: "occs"}, "occs"
		}
	case Re:
		if s.Scope == ScopeContent {
			return QKind{Kind: "re", Pat: s.Pat, CS: s.CS}, "re"
		}
	}
	return QKind{Kind: "multi"}, "multi"
}

func showPairs(ps [][2]int) string {
	if len(ps) == 0 {
		return "-"
	}
	var sb []string
	for _, p := range ps {
		sb = append(sb, fmt.Sprintf("%d.%d", p[0], p[1]))
	}
	return strings.Join(sb, ",")
}

// ---- generators ----

func GenCorpus(r *gen.Rand) []Doc {
	n := r.Range(1, 5)
	allASCII := r.Chance(1, 5)
	long := r.Chance(1, 4)
	var docs []Doc
	for i := 0; i < n; i++ {
		p := RandProfile(r, long && r.Chance(2, 3))
		if allASCII {
			p.ASCII, p.Heavy4 = true, false
		}
		docs = append(docs, Doc{Name: GenName(r, i, allASCII), Content: GenText(r, p)})
	}
	return docs
}

func isWord(s string) bool {
	if s == "" {
		return false
	}
	for i := 0; i < len(s); i++ {
		c := s[i]
		if !(c == '_' || c >= '0' && c <= '9' || c >= 'a' && c <= 'z' || c >= 'A' && c <= 'Z') {
			return false
		}
	}
	return true
}

// ciSafe: case-insensitive atoms stay within characters whose lower-casing and simple folding agree (the rest is C08).
func ciSafe(s string) bool { return !strings.ContainsAny(s, "İıſßẞ") }

func pickDocText(r *gen.Rand, docs []Doc) []byte {
	for k := 0; k < 5; k++ {
		d := gen.Pick(r, docs)
		if len(d.Content) > 0 {
			return d.Content
		}
	}
	return []byte("foo bar")
}

func genPattern(r *gen.Rand, docs []Doc, fileName bool) string {
	if r.Chance(1, 8) {
		return gen.Pick(r, []string{"foo", "abc", "zzz", "needle", "aa", "a", "é", "😀", "\n", "o b", "ab"})
	}
	src := pickDocText(r, docs)
	if fileName {
		src = []byte(gen.Pick(r, docs).Name)
	}
	for k := 0; k < 8; k++ {
		if p := CutPattern(r, src, 7); p != "" && !strings.Contains(p, "\x00") {
			return p
		}
	}
	return "foo"
}

// hasTripleFold: the corpus contains a character of a three-element fold orbit (K/k/KELVIN SIGN, S/s/LONG S). The
// grafana/regexp fork's case-insensitive literal matching does not treat those like the standard library does
// (that belongs to C08), so case-insensitive atoms that go through the regexp engine are not generated there.
func hasTripleFold(docs []Doc) bool {
	for _, d := range docs {
		if strings.ContainsAny(string(d.Content), "\u212a\u017f") || strings.ContainsAny(d.Name, "\u212a\u017f") {
			return true
		}
	}
	return false
}

func GenSub(r *gen.Rand, docs []Doc, scope int) Sub {
	p := genPattern(r, docs, scope == ScopeFileName)
	cs := r.Chance(2, 3)
	if !cs && utf8.RuneCountInString(p) < 3 && hasTripleFold(docs) {
		cs = true // short patterns are searched with the regexp engine
	}
	if !cs {
		if !ciSafe(p) {
			cs = true
		} else if r.Chance(1, 2) {
			p = strings.ToUpper(p)
			if !ciSafe(p) {
				p = strings.ToLower(p)
			}
		}
	}
	return Sub{Pat: p, CS: cs, Scope: scope}
}

func GenRe(r *gen.Rand, docs []Doc, scope int) Re {
	lit := func() string { return regexp.QuoteMeta(genPattern(r, docs, scope == ScopeFileName)) }
	word := func() string {
		for k := 0; k < 10; k++ {
			if p := genPattern(r, docs, false); isWord(p) {
				return p
			}
		}
		return "foo"
	}
	var p string
	switch r.Intn(14) {
	case 0:
		p = lit()
	case 1:
		p = lit() + ".*" + lit()
	case 2:
		p = "(?s)" + lit() + ".*" + lit()
	case 3:
		p = `\b` + word() + `\b`
	case 4:
		p = "(" + lit() + "|" + lit() + ")"
	case 5:
		w := word()
		p = "(" + w + ")|(" + w + gen.Pick(r, []string{"d", "bar", "a", "_b"}) + ")" // one alternative is a prefix of the other
	case 6:
		p = gen.Pick(r, []string{"[a-c]+", "fo+", "o*b", "a*", "x?", `\w+`, `[^ \n]+`, `\s+`, "[é本ж]+", "."})
	case 7:
		p = lit() + `\s*` + lit()
	case 8:
		p = lit() + `\n` + lit()
	case 9:
		p = "(" + lit() + ")+"
	case 10:
		p = `^` + lit()
	case 11:
		p = lit() + `$`
	case 12:
		p = "(?m)^" + word() + ".*$"
	default:
		p = lit() + gen.Pick(r, []string{"?", "+", "*", "{2,}", "{1,2}"})
	}
	cs := r.Chance(2, 3)
	if !cs && (!ciSafe(p) || hasTripleFold(docs)) {
		cs = true
	}
	if _, err := regexp.Compile(p); err != nil {
		p, cs = "foo", true
	}
	return Re{Pat: p, CS: cs, Scope: scope}
}

func genAtom(r *gen.Rand, docs []Doc) Q {
	scope := gen.Pick(r, []int{ScopeContent, ScopeContent, ScopeContent, ScopeFileName, ScopeBoth})
	if r.Chance(1, 3) {
		return GenRe(r, docs, scope)
	}
	return GenSub(r, docs, scope)
}

func genTree(r *gen.Rand, docs []Doc, depth int) Q {
	if depth <= 0 || r.Chance(1, 3) {
		return genAtom(r, docs)
	}
	switch r.Intn(8) {
	case 0, 1, 2:
		n := r.Range(2, 3)
		var ch []Q
		for i := 0; i < n; i++ {
			ch = append(ch, genTree(r, docs, depth-1))
		}
		return Or{ch}
	case 3, 4:
		n := r.Range(2, 3)
		var ch []Q
		for i := 0; i < n; i++ {
			ch = append(ch, genTree(r, docs, depth-1))
		}
		return And{ch}
	case 5:
		// not only under and, next to a positive atom
		return And{[]Q{genAtom(r, docs), Not{genAtom(r, docs)}}}
	case 6:
		return TypeFile{genAtom(r, docs)}
	default:
		return Boost{genTree(r, docs, depth-1)}
	}
}

// GenQuery returns a query and its class name for the distribution counters.
func GenQuery(r *gen.Rand, docs []Doc) (Q, string) {
	switch x := r.Intn(20); {
	case x < 6:
		s := GenSub(r, docs, ScopeContent)
		s.CS = true
		return s, "single-substring"
	case x < 9:
		s := GenSub(r, docs, ScopeContent)
		if ciSafe(s.Pat) && !(utf8.RuneCountInString(s.Pat) < 3 && hasTripleFold(docs)) {
			s.CS = false
		}
		return s, "single-substring-ci"
	case x < 13:
		return GenRe(r, docs, ScopeContent), "single-regexp"
	case x < 14:
		return GenSub(r, docs, ScopeFileName), "single-filename"
	default:
		return genTree(r, docs, 2), "multi"
	}
}

func PrintQ(q Q) string { return ToZoekt(q).String() }

// RunE2E runs one end-to-end case against the real search and emits one protocol case per reported file (and one
// Go-oracle-only case per file-set disagreement). prop is "C02" or "C03". Returns the number of files reported.
func RunE2E(w *gen.Writer, prop string, c E2ECase, class string) int {
	q := FromJSON(c.Q)
	detail := gen.Detail(c)
	s, err := BuildShard(c.Docs)
	if err != nil {
		w.Emit(gen.Case{Go: "cannot build shard: " + err.Error(), Key: "harness-build", Class: class, Detail: detail})
		return 0
	}
	defer s.Close()
	res, err := Search(s, ToZoekt(q), c.Chunks, c.Ctx)
	if err != nil {
		w.Emit(gen.Case{Go: "search failed: " + err.Error(), Key: "search-error", Class: class, Detail: detail})
		return 0
	}
	mode := "l"
	if c.Chunks {
		mode = "c"
	}
	byName := map[string]*zoekt.FileMatch{}
	for i := range res.Files {
		byName[res.Files[i].FileName] = &res.Files[i]
	}
	kind, kindField := Classify(q)
	n := 0
	for _, d := range c.Docs {
		name := []byte(d.Name)
		want := Eval(q, name, d.Content)
		fm, got := byName[d.Name]
		if want != got {
			if prop == "C02" && kind.Kind != "multi" {
				// a single-atom query whose occurrences are not reported at all (or reported where there are none)
				w.Emit(gen.Case{Go: fmt.Sprintf("file %q: query true of the file = %v, file reported = %v", d.Name, want, got),
					Key: "file-set:" + kind.Kind, Class: class, Detail: detail})
			}
			continue
		}
		if !got {
			continue
		}
		n++
		cands := Collect(q, name, d.Content)
		var impl, verdict, key string
		if c.Chunks {
			impl = RenderChunks(fm.ChunkMatches)
		} else {
			impl = RenderLines(fm.LineMatches)
		}
		var in string
		if prop == "C02" {
			k := kind
			kf := kindField
			if kind.Kind == "re" {
				k.Engine = ReMatches(d.Content, kind.Pat, kind.CS)
				kf = "re:" + showPairs(k.Engine)
			}
			kind := k
			in = fmt.Sprintf("e2e %s %d %s %s %s %s", mode, c.Ctx, gen.Hex(d.Content), gen.Hex(name), kf, ShowCands(cands))
			if c.Chunks {
				verdict, key = CheckRanges(d.Content, name, false, kind, cands, ChunkGroups(fm.ChunkMatches))
			} else {
				verdict, key = CheckRanges(d.Content, name, true, kind, cands, LineGroups(fm.LineMatches))
			}
		} else {
			in = fmt.Sprintf("e2e %s %d %s %s %s", mode, c.Ctx, gen.Hex(d.Content), gen.Hex(name), ShowCands(cands))
			if c.Chunks {
				verdict, key = CheckChunks(d.Content, name, fm.ChunkMatches)
			} else {
				verdict, key = CheckLines(d.Content, name, c.Ctx, fm.LineMatches)
			}
		}
		nontrivial := len(cands) >= 2 && len(d.Content) > 0
		w.Emit(gen.Case{In: in, Impl: impl, Go: verdict, Key: key, Class: class + "/" + mode, Nontrivial: nontrivial, Detail: detail})
	}
	return n
}
