package e2lib

import (
	"fmt"
	"sort"
	"strings"

	"github.com/sourcegraph/zoekt"

	"verifharness/gen"
)

func ShowCands(cs []Cand) string {
	if len(cs) == 0 {
		return "-"
	}
	var sb strings.Builder
	for i, c := range cs {
		if i > 0 {
			sb.WriteByte(',')
		}
		f := 0
		if c.FileName {
			f = 1
		}
		fmt.Fprintf(&sb, "%d.%d.%d", f, c.Off, c.Sz)
	}
	return sb.String()
}

func b2i(b bool) int {
	if b {
		return 1
	}
	return 0
}

// RenderLines: canonical text of line matches, ordered by position in the file (the search orders them by score).
func RenderLines(in []zoekt.LineMatch) string {
	if len(in) == 0 {
		return "-"
	}
	lms := append([]zoekt.LineMatch(nil), in...)
	sort.SliceStable(lms, func(i, j int) bool { return lms[i].LineStart < lms[j].LineStart })
	var parts []string
	for _, lm := range lms {
		var fr []string
		for _, f := range lm.LineFragments {
			fr = append(fr, fmt.Sprintf("%d.%d.%d", f.Offset, f.LineOffset, f.MatchLength))
		}
		frs := "-"
		if len(fr) > 0 {
			frs = strings.Join(fr, "+")
		}
		parts = append(parts, fmt.Sprintf("%d:%d:%d:%d:%s:%s:%s:%s", lm.LineNumber, lm.LineStart, lm.LineEnd, b2i(lm.FileName),
			gen.Hex(lm.Line), gen.Hex(lm.Before), gen.Hex(lm.After), frs))
	}
	return strings.Join(parts, "|")
}

// RenderChunks: canonical text of chunk matches, ordered by position in the file.
func RenderChunks(in []zoekt.ChunkMatch) string {
	if len(in) == 0 {
		return "-"
	}
	cms := append([]zoekt.ChunkMatch(nil), in...)
	sort.SliceStable(cms, func(i, j int) bool { return cms[i].ContentStart.ByteOffset < cms[j].ContentStart.ByteOffset })
	var parts []string
	loc := func(l zoekt.Location) string { return fmt.Sprintf("%d.%d.%d", l.ByteOffset, l.LineNumber, l.Column) }
	for _, cm := range cms {
		var rs []string
		for _, r := range cm.Ranges {
			rs = append(rs, loc(r.Start)+"~"+loc(r.End))
		}
		rss := "-"
		if len(rs) > 0 {
			rss = strings.Join(rs, "+")
		}
		parts = append(parts, fmt.Sprintf("%s:%d:%s:%s", loc(cm.ContentStart), b2i(cm.FileName), gen.Hex(cm.Content), rss))
	}
	return strings.Join(parts, "|")
}
