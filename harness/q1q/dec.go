package q1q

import (
	"fmt"
	"math"
	"strconv"
	"strings"

	"github.com/RoaringBitmap/roaring/v2"
	"github.com/sourcegraph/zoekt/query"

	"verifharness/gen"
)

// DecQ parses the prefix encoding back into a query tree (regular expressions are recompiled from their source;
// the match tables are ignored). Used by -replay and the corpus.
func DecQ(s string) (query.Q, error) {
	d := &dec{toks: strings.Fields(s)}
	q, err := d.q()
	if err != nil {
		return nil, err
	}
	if d.i != len(d.toks) {
		return nil, fmt.Errorf("trailing tokens")
	}
	return q, nil
}

type dec struct {
	toks []string
	i    int
}

func (d *dec) tok() (string, error) {
	if d.i >= len(d.toks) {
		return "", fmt.Errorf("unexpected end")
	}
	d.i++
	return d.toks[d.i-1], nil
}

func (d *dec) nat() (int, error) {
	t, err := d.tok()
	if err != nil {
		return 0, err
	}
	return strconv.Atoi(t)
}

func (d *dec) str() (string, error) {
	t, err := d.tok()
	if err != nil {
		return "", err
	}
	return string(gen.UnHex(t)), nil
}

func (d *dec) ids() (*roaring.Bitmap, error) {
	t, err := d.tok()
	if err != nil {
		return nil, err
	}
	bm := roaring.New()
	if t == "-" {
		return bm, nil
	}
	for _, x := range strings.Split(t, ",") {
		n, err := strconv.ParseUint(x, 10, 32)
		if err != nil {
			return nil, err
		}
		bm.Add(uint32(n))
	}
	return bm, nil
}

func (d *dec) pred() (string, error) {
	src, err := d.str()
	if err != nil {
		return "", err
	}
	n, err := d.nat()
	if err != nil {
		return "", err
	}
	for i := 0; i < n; i++ {
		if _, err := d.tok(); err != nil {
			return "", err
		}
	}
	return src, nil
}

func (d *dec) kids() ([]query.Q, error) {
	n, err := d.nat()
	if err != nil {
		return nil, err
	}
	out := make([]query.Q, 0, n)
	for i := 0; i < n; i++ {
		c, err := d.q()
		if err != nil {
			return nil, err
		}
		out = append(out, c)
	}
	return out, nil
}

func (d *dec) q() (query.Q, error) {
	t, err := d.tok()
	if err != nil {
		return nil, err
	}
	switch t {
	case "T":
		return &query.Const{Value: true}, nil
	case "F":
		return &query.Const{Value: false}, nil
	case "A":
		k, err := d.kids()
		return &query.And{Children: k}, err
	case "O":
		k, err := d.kids()
		return &query.Or{Children: k}, err
	case "N":
		c, err := d.q()
		return &query.Not{Child: c}, err
	case "Y":
		n, err := d.nat()
		if err != nil {
			return nil, err
		}
		c, err := d.q()
		return &query.Type{Type: uint8(n), Child: c}, err
	case "B":
		t, err := d.tok()
		if err != nil {
			return nil, err
		}
		bits, err := strconv.ParseUint(t, 10, 64)
		if err != nil {
			return nil, err
		}
		c, err := d.q()
		return &query.Boost{Boost: math.Float64frombits(bits), Child: c}, err
	case "K":
		c, err := d.q()
		if err != nil {
			return nil, err
		}
		return query.VerifCaseScope(c), nil
	case "S":
		p, err := d.str()
		if err != nil {
			return nil, err
		}
		f, err := d.tok()
		if err != nil || len(f) != 3 {
			return nil, fmt.Errorf("flags")
		}
		return &query.Substring{Pattern: p, CaseSensitive: f[0] == '1', FileName: f[1] == '1', Content: f[2] == '1'}, nil
	case "X":
		p, err := d.str()
		if err != nil {
			return nil, err
		}
		f, err := d.tok()
		if err != nil || len(f) != 4 {
			return nil, fmt.Errorf("flags")
		}
		return &query.Regexp{Regexp: mustSyn(p), CaseSensitive: f[1] == '1', FileName: f[2] == '1', Content: f[3] == '1'}, nil
	case "M":
		c, err := d.q()
		return &query.Symbol{Expr: c}, err
	case "H":
		p, err := d.str()
		if err != nil {
			return nil, err
		}
		e, err := d.tok()
		return &query.Branch{Pattern: p, Exact: e == "1"}, err
	case "BR":
		n, err := d.nat()
		if err != nil {
			return nil, err
		}
		br := &query.BranchesRepos{}
		for i := 0; i < n; i++ {
			b, err := d.str()
			if err != nil {
				return nil, err
			}
			ids, err := d.ids()
			if err != nil {
				return nil, err
			}
			br.List = append(br.List, query.BranchRepos{Branch: b, Repos: ids})
		}
		return br, nil
	case "RI":
		ids, err := d.ids()
		return &query.RepoIDs{Repos: ids}, err
	case "RS":
		n, err := d.nat()
		if err != nil {
			return nil, err
		}
		set := map[string]bool{}
		for i := 0; i < n; i++ {
			k, err := d.str()
			if err != nil {
				return nil, err
			}
			v, err := d.tok()
			if err != nil {
				return nil, err
			}
			set[k] = v == "1"
		}
		return &query.RepoSet{Set: set}, nil
	case "RP":
		src, err := d.pred()
		if err != nil {
			return nil, err
		}
		return &query.Repo{Regexp: mustRe(src)}, nil
	case "RX":
		src, err := d.pred()
		if err != nil {
			return nil, err
		}
		return &query.RepoRegexp{Regexp: mustRe(src)}, nil
	case "RC":
		t, err := d.tok()
		if err != nil {
			return nil, err
		}
		n, err := strconv.ParseUint(t, 10, 64)
		return query.RawConfig(n), err
	case "L":
		l, err := d.str()
		return &query.Language{Language: l}, err
	case "ME":
		f, err := d.str()
		if err != nil {
			return nil, err
		}
		src, err := d.pred()
		if err != nil {
			return nil, err
		}
		return &query.Meta{Field: f, Value: mustRe(src)}, nil
	case "FS":
		n, err := d.nat()
		if err != nil {
			return nil, err
		}
		set := map[string]struct{}{}
		for i := 0; i < n; i++ {
			k, err := d.str()
			if err != nil {
				return nil, err
			}
			set[k] = struct{}{}
		}
		return &query.FileNameSet{Set: set}, nil
	}
	return nil, fmt.Errorf("unknown token %q", t)
}
