// Package q1q: shared by the C05 and C18 harnesses — abstract descriptions of shards / repositories / documents,
// the wire encoding of query trees understood by the Lean drivers (lean/ZoektModel/C05/Codec.lean), generators, real
// shard construction and a naive reference matcher for content atoms. Nothing here calls the rewrites under test.
package q1q

import (
	"fmt"
	"math"
	"regexp/syntax"
	"sort"
	"strings"

	"github.com/sourcegraph/zoekt/query"

	"verifharness/gen"
)

// Repo is a zoekt.Repository as far as queries look at it.
type Repo struct {
	Name      string            `json:"name"`
	ID        uint32            `json:"id"`
	Branches  []string          `json:"branches"`
	RawConfig map[string]string `json:"rawconfig,omitempty"`
	Metadata  map[string]string `json:"metadata,omitempty"`
	Tombstone bool              `json:"tombstone,omitempty"`
}

// Doc is one document; Branches are indices into its repository's branch list.
type Doc struct {
	Repo     int    `json:"repo"`
	Branches []int  `json:"branches"`
	Name     string `json:"name"`
	Lang     string `json:"lang"`
	Content  string `json:"content,omitempty"`
	// hit tables for content atoms: atom key -> hit (filled by Hits or at random for abstract cases)
	NameHits    map[string]bool `json:"name_hits,omitempty"`
	ContentHits map[string]bool `json:"content_hits,omitempty"`
	SymHits     map[string]bool `json:"sym_hits,omitempty"`
}

// Shard is an indexData as far as rewriting and evaluation look at it.
type Shard struct {
	Repos          []Repo   `json:"repos"`
	Langs          []string `json:"langs"`
	FeatureVersion int      `json:"feature_version"`
	Docs           []Doc    `json:"docs"`
	ListFailed     bool     `json:"list_failed,omitempty"` // C18: rankedShard.repos == nil
}

// RawMask is encodeRawConfig, written independently (public/fork/archived, 2 bits each: 1 = yes, 2 = no).
func RawMask(rc map[string]string) int {
	m := 0
	for i, f := range []string{"public", "fork", "archived"} {
		e := 2
		if rc[f] == "1" {
			e = 1
		}
		m |= e << (2 * i)
	}
	return m
}

func hx(s string) string { return gen.Hex([]byte(s)) }

func flag(b bool) string {
	if b {
		return "1"
	}
	return "0"
}

func sortedKeys(m map[string]bool, only bool) []string {
	var ks []string
	for k, v := range m {
		if !only || v {
			ks = append(ks, k)
		}
	}
	sort.Strings(ks)
	return ks
}

func hexList(sb *strings.Builder, xs []string) {
	fmt.Fprintf(sb, " %d", len(xs))
	for _, x := range xs {
		sb.WriteString(" " + hx(x))
	}
}

// EncShard writes the shard description.
func EncShard(s *Shard) string {
	var sb strings.Builder
	fmt.Fprintf(&sb, "SH %d", s.FeatureVersion)
	hexList(&sb, s.Langs)
	fmt.Fprintf(&sb, " %d", len(s.Repos))
	for _, r := range s.Repos {
		fmt.Fprintf(&sb, " %s %d %s %d", hx(r.Name), r.ID, flag(r.Tombstone), RawMask(r.RawConfig))
		hexList(&sb, r.Branches)
		var ks []string
		for k := range r.Metadata {
			ks = append(ks, k)
		}
		sort.Strings(ks)
		fmt.Fprintf(&sb, " %d", len(ks))
		for _, k := range ks {
			sb.WriteString(" " + hx(k) + " " + hx(r.Metadata[k]))
		}
	}
	fmt.Fprintf(&sb, " %d", len(s.Docs))
	for _, d := range s.Docs {
		fmt.Fprintf(&sb, " %d %s %s %s", d.Repo, gen.NatList(d.Branches), hx(d.Name), hx(d.Lang))
		hexList(&sb, sortedKeys(d.NameHits, true))
		hexList(&sb, sortedKeys(d.ContentHits, true))
		hexList(&sb, sortedKeys(d.SymHits, true))
	}
	return sb.String()
}

// EncCtx writes `<n> <shard>…`.
func EncCtx(ctx []*Shard) string {
	parts := []string{fmt.Sprint(len(ctx))}
	for _, s := range ctx {
		parts = append(parts, EncShard(s))
	}
	return strings.Join(parts, " ")
}

// Universe is the set of strings the abstract regular expressions of a case are tabulated on.
type Universe struct {
	Names  []string // repository names
	Values []string // metadata values
}

func UniverseOf(ctx []*Shard, extra ...string) *Universe {
	names, values := map[string]bool{}, map[string]bool{}
	for _, s := range ctx {
		for _, r := range s.Repos {
			names[r.Name] = true
			for _, v := range r.Metadata {
				values[v] = true
			}
		}
	}
	for _, e := range extra {
		names[e] = true
	}
	return &Universe{Names: sortedKeys(names, false), Values: sortedKeys(values, false)}
}

type matcher interface{ MatchString(string) bool }

func encPred(sb *strings.Builder, src string, re matcher, universe []string) {
	var yes []string
	for _, n := range universe {
		if re.MatchString(n) {
			yes = append(yes, n)
		}
	}
	sb.WriteString(" " + hx(src))
	hexList(sb, yes)
}

// AtomKey is the key of a content atom in the hit tables (Lean: atomKey).
func AtomKey(q query.Q) string {
	switch s := q.(type) {
	case *query.Substring:
		return string([]byte{b2i(s.CaseSensitive), 0}) + s.Pattern
	case *query.Regexp:
		return string([]byte{b2i(s.CaseSensitive), 1}) + s.Regexp.String()
	}
	return ""
}

func b2i(b bool) byte {
	if b {
		return 1
	}
	return 0
}

// EncQ writes a query tree in the prefix encoding. It panics on node kinds the encoding does not know.
func (u *Universe) EncQ(q query.Q) string {
	var sb strings.Builder
	u.enc(&sb, q)
	return sb.String()
}

func (u *Universe) enc(sb *strings.Builder, q query.Q) {
	if sb.Len() > 0 {
		sb.WriteByte(' ')
	}
	if c, ok := query.VerifCaseScopeChild(q); ok {
		sb.WriteString("K")
		u.enc(sb, c)
		return
	}
	switch s := q.(type) {
	case *query.Const:
		if s.Value {
			sb.WriteString("T")
		} else {
			sb.WriteString("F")
		}
	case *query.And:
		fmt.Fprintf(sb, "A %d", len(s.Children))
		for _, c := range s.Children {
			u.enc(sb, c)
		}
	case *query.Or:
		fmt.Fprintf(sb, "O %d", len(s.Children))
		for _, c := range s.Children {
			u.enc(sb, c)
		}
	case *query.Not:
		sb.WriteString("N")
		u.enc(sb, s.Child)
	case *query.Type:
		fmt.Fprintf(sb, "Y %d", s.Type)
		u.enc(sb, s.Child)
	case *query.Boost:
		fmt.Fprintf(sb, "B %d", math.Float64bits(s.Boost))
		u.enc(sb, s.Child)
	case *query.Substring:
		fmt.Fprintf(sb, "S %s %s%s%s", hx(s.Pattern), flag(s.CaseSensitive), flag(s.FileName), flag(s.Content))
	case *query.Regexp:
		fmt.Fprintf(sb, "X %s %s%s%s%s", hx(s.Regexp.String()), flag(s.Regexp.Op == syntax.OpEmptyMatch),
			flag(s.CaseSensitive), flag(s.FileName), flag(s.Content))
	case *query.Symbol:
		sb.WriteString("M")
		u.enc(sb, s.Expr)
	case *query.Branch:
		fmt.Fprintf(sb, "H %s %s", hx(s.Pattern), flag(s.Exact))
	case *query.BranchesRepos:
		fmt.Fprintf(sb, "BR %d", len(s.List))
		for _, br := range s.List {
			fmt.Fprintf(sb, " %s %s", hx(br.Branch), gen.NatList(br.Repos.ToArray()))
		}
	case *query.RepoIDs:
		fmt.Fprintf(sb, "RI %s", gen.NatList(s.Repos.ToArray()))
	case *query.RepoSet:
		var ks []string
		for k := range s.Set {
			ks = append(ks, k)
		}
		sort.Strings(ks)
		fmt.Fprintf(sb, "RS %d", len(ks))
		for _, k := range ks {
			fmt.Fprintf(sb, " %s %s", hx(k), flag(s.Set[k]))
		}
	case *query.Repo:
		sb.WriteString("RP")
		encPred(sb, s.Regexp.String(), s.Regexp, u.Names)
	case *query.RepoRegexp:
		sb.WriteString("RX")
		encPred(sb, s.Regexp.String(), s.Regexp, u.Names)
	case query.RawConfig:
		fmt.Fprintf(sb, "RC %d", uint64(s))
	case *query.Language:
		fmt.Fprintf(sb, "L %s", hx(s.Language))
	case *query.Meta:
		sb.WriteString("ME " + hx(s.Field))
		encPred(sb, s.Value.String(), s.Value, u.Values)
	case *query.FileNameSet:
		var ks []string
		for k := range s.Set {
			ks = append(ks, k)
		}
		sort.Strings(ks)
		fmt.Fprintf(sb, "FS %d", len(ks))
		for _, k := range ks {
			sb.WriteString(" " + hx(k))
		}
	default:
		panic(fmt.Sprintf("q1q: cannot encode %T (%s)", q, q))
	}
}

// ContentAtoms lists the Substring/Regexp atoms of q, including those inside Symbol.
func ContentAtoms(q query.Q) []query.Q {
	var out []query.Q
	var walk func(q query.Q)
	walk = func(q query.Q) {
		if c, ok := query.VerifCaseScopeChild(q); ok {
			walk(c)
			return
		}
		switch s := q.(type) {
		case *query.And:
			for _, c := range s.Children {
				walk(c)
			}
		case *query.Or:
			for _, c := range s.Children {
				walk(c)
			}
		case *query.Not:
			walk(s.Child)
		case *query.Type:
			walk(s.Child)
		case *query.Boost:
			walk(s.Child)
		case *query.Symbol:
			walk(s.Expr)
		case *query.Substring, *query.Regexp:
			out = append(out, q)
		}
	}
	walk(q)
	return out
}
