package q1q

import (
	"regexp/syntax"

	"github.com/RoaringBitmap/roaring/v2"
	"github.com/grafana/regexp"
	"github.com/sourcegraph/zoekt/query"

	"verifharness/gen"
)

// pools are small so that sets, ids and regular expressions hit and miss often
var (
	RepoNames   = []string{"a", "b", "foo", "foo/bar", "bar", "github.com/x/y", "ab"}
	BranchNames = []string{"HEAD", "main", "dev", "HEADx", "release/1", "m"}
	LangNames   = []string{"Go", "Python", "Text", "C"}
	MetaFields  = []string{"team", "tier"}
	MetaValues  = []string{"core", "infra", "1", "2", ""}
	RepoRegexps = []string{"", "a", "^a$", "foo", "^foo", "bar$", "x|b", "^(a|b)$", "zzz", ".*", "^$"}
	ValRegexps  = []string{"", "core", "^1$", "in.ra", "^$", "[12]", "nope"}
	SubPatterns = []string{"", "foo", "bar", "main", "abc", "fo", "x", "func", "oo b"}
	RxPatterns  = []string{"", "fo+", "ba[rz]", "foo|bar", "ab*c", "[a-c]x", "func"}
	BranchPats  = []string{"", "HEAD", "main", "dev", "m", "HEA", "ea", "release", "nope"}
	FileNames   = []string{"a.go", "b.py", "foo.txt", "dir/main.go", "README", "x"}
)

// QGen generates query trees.
type QGen struct {
	R             *gen.Rand
	IDs           []uint32
	TypeKinds     []uint8 // allowed Type.Type values (empty = no Type nodes)
	NoCaseScope   bool
	NoSymbol      bool
	SafeSymbol    bool // Symbol regexps restricted to shapes newMatchTree accepts inside Symbol
	NoEmptyBranch bool // never generate Branch{Pattern: ""}
	NoFalseInSet  bool // RepoSet values are always true (NewRepoSet)
	TopFilters    bool // C18: bias the top level to And(filter…, content…)
}

func mustRe(s string) *regexp.Regexp { return regexp.MustCompile(s) }

func mustSyn(s string) *syntax.Regexp {
	re, err := syntax.Parse(s, syntax.Perl)
	if err != nil {
		panic(err)
	}
	return re
}

func (g *QGen) ids() *roaring.Bitmap {
	bm := roaring.New()
	n := g.R.Intn(4)
	for i := 0; i < n; i++ {
		bm.Add(gen.Pick(g.R, g.IDs))
	}
	return bm
}

// RepoFilter generates one repository-level atom (the kinds selectRepoSet / indexData.simplify look at).
func (g *QGen) RepoFilter() query.Q {
	r := g.R
	switch r.Intn(9) {
	case 0:
		set := map[string]bool{}
		n := r.Intn(4)
		for i := 0; i < n; i++ {
			set[gen.Pick(r, RepoNames)] = g.NoFalseInSet || !r.Chance(1, 6)
		}
		return &query.RepoSet{Set: set}
	case 1:
		return &query.RepoIDs{Repos: g.ids()}
	case 2, 3:
		n := r.Range(0, 3)
		if r.Chance(1, 2) {
			n = 1
		}
		var l []query.BranchRepos
		for i := 0; i < n; i++ {
			b := gen.Pick(r, BranchNames)
			if r.Chance(1, 8) {
				b = ""
			}
			l = append(l, query.BranchRepos{Branch: b, Repos: g.ids()})
		}
		return &query.BranchesRepos{List: l}
	case 4:
		return &query.Repo{Regexp: mustRe(gen.Pick(r, RepoRegexps))}
	case 5:
		return &query.RepoRegexp{Regexp: mustRe(gen.Pick(r, RepoRegexps))}
	case 6:
		return &query.Meta{Field: gen.Pick(r, MetaFields), Value: mustRe(gen.Pick(r, ValRegexps))}
	case 7:
		flags := []query.RawConfig{query.RcOnlyPublic, query.RcOnlyPrivate, query.RcOnlyForks, query.RcNoForks, query.RcOnlyArchived, query.RcNoArchived}
		var m query.RawConfig
		for i := r.Range(0, 2); i > 0; i-- {
			m |= gen.Pick(r, flags)
		}
		if r.Chance(1, 10) {
			m |= 1 << 8 // beyond the uint8 the code truncates to
		}
		return m
	default:
		return &query.Language{Language: gen.Pick(r, append([]string{"Rust"}, LangNames...))}
	}
}

// Atom generates a leaf.
func (g *QGen) Atom() query.Q {
	r := g.R
	switch r.Intn(14) {
	case 0:
		return &query.Const{Value: r.Bool()}
	case 1, 2, 3:
		fn, ct := false, false
		switch r.Intn(4) {
		case 0:
			fn = true
		case 1:
			ct = true
		case 2:
			fn, ct = true, true
		}
		return &query.Substring{Pattern: gen.Pick(r, SubPatterns), CaseSensitive: r.Chance(1, 3), FileName: fn, Content: ct}
	case 4, 5:
		fn, ct := false, false
		switch r.Intn(4) {
		case 0:
			fn = true
		case 1:
			ct = true
		case 2:
			fn, ct = true, true
		}
		return &query.Regexp{Regexp: mustSyn(gen.Pick(r, RxPatterns)), CaseSensitive: r.Chance(1, 3), FileName: fn, Content: ct}
	case 6:
		p := gen.Pick(r, BranchPats)
		if g.NoEmptyBranch && p == "" {
			p = "main"
		}
		return &query.Branch{Pattern: p, Exact: r.Chance(1, 3)}
	case 7:
		set := map[string]struct{}{}
		for i := r.Intn(3); i > 0; i-- {
			set[gen.Pick(r, FileNames)] = struct{}{}
		}
		return &query.FileNameSet{Set: set}
	case 8:
		if g.NoSymbol {
			return &query.Const{Value: r.Bool()}
		}
		if r.Bool() {
			return &query.Symbol{Expr: &query.Substring{Pattern: gen.Pick(r, SubPatterns), CaseSensitive: r.Bool()}}
		}
		if g.SafeSymbol {
			return &query.Symbol{Expr: &query.Regexp{Regexp: mustSyn(gen.Pick(r, []string{"fo+", "ba[rz]", "[a-c]x"})), CaseSensitive: r.Bool()}}
		}
		return &query.Symbol{Expr: &query.Regexp{Regexp: mustSyn(gen.Pick(r, RxPatterns)), CaseSensitive: r.Bool()}}
	default:
		return g.RepoFilter()
	}
}

// Tree generates a tree of at most the given depth, with degenerate shapes (empty and single-child And/Or,
// nested same-kind nodes, constants under Not/Type/Boost) made frequent.
func (g *QGen) Tree(depth int) query.Q {
	r := g.R
	if depth <= 0 || r.Chance(1, 4) {
		return g.Atom()
	}
	kids := func() []query.Q {
		n := 0
		switch r.Intn(8) {
		case 0:
			n = 0
		case 1, 2:
			n = 1
		case 3, 4, 5:
			n = 2
		default:
			n = 3
		}
		out := make([]query.Q, 0, n)
		for i := 0; i < n; i++ {
			out = append(out, g.Tree(depth-1))
		}
		return out
	}
	switch r.Intn(12) {
	case 0, 1, 2:
		return &query.And{Children: kids()}
	case 3, 4, 5:
		return &query.Or{Children: kids()}
	case 6, 7:
		return &query.Not{Child: g.Tree(depth - 1)}
	case 8:
		if len(g.TypeKinds) == 0 {
			return &query.Not{Child: g.Tree(depth - 1)}
		}
		return &query.Type{Type: gen.Pick(r, g.TypeKinds), Child: g.Tree(depth - 1)}
	case 9:
		return &query.Boost{Boost: gen.Pick(r, []float64{0.5, 2, 20}), Child: g.Tree(depth - 1)}
	case 10:
		if g.NoCaseScope {
			return &query.And{Children: kids()}
		}
		return query.VerifCaseScope(g.Tree(depth - 1))
	default:
		return g.Atom()
	}
}

// SGen generates abstract shards.
type SGen struct {
	R   *gen.Rand
	IDs []uint32
}

// Repo generates repository metadata.
func (g *SGen) Repo(name string, id uint32) Repo {
	r := g.R
	nb := r.Range(0, 3)
	var brs []string
	pool := append([]string(nil), BranchNames...)
	gen.Shuffle(r, pool)
	if r.Chance(1, 2) { // the common layout: HEAD first
		for i, p := range pool {
			if p == "HEAD" {
				pool[0], pool[i] = pool[i], pool[0]
			}
		}
	}
	brs = append(brs, pool[:nb]...)
	rc := map[string]string{}
	for _, f := range []string{"public", "fork", "archived"} {
		switch r.Intn(3) {
		case 0:
			rc[f] = "1"
		case 1:
			rc[f] = "0"
		}
	}
	var md map[string]string
	if r.Chance(2, 3) {
		md = map[string]string{}
		for _, f := range MetaFields {
			if r.Bool() {
				md[f] = gen.Pick(r, MetaValues)
			}
		}
	}
	return Repo{Name: name, ID: id, Branches: brs, RawConfig: rc, Metadata: md}
}

// Shard generates an abstract shard: nRepos repositories with distinct names and ids drawn from the pools.
func (g *SGen) Shard(names []string, ids []uint32, tombstones bool) *Shard {
	r := g.R
	s := &Shard{FeatureVersion: 12}
	for i, n := range names {
		rp := g.Repo(n, ids[i])
		if tombstones && r.Chance(1, 4) {
			rp.Tombstone = true
		}
		s.Repos = append(s.Repos, rp)
	}
	if tombstones && len(s.Repos) > 0 && r.Chance(1, 12) {
		for i := range s.Repos {
			s.Repos[i].Tombstone = true
		}
	}
	for i := range s.Repos {
		nd := r.Range(0, 3)
		for j := 0; j < nd; j++ {
			d := Doc{Repo: i, Name: gen.Pick(r, FileNames), Lang: gen.Pick(r, LangNames)}
			for b := range s.Repos[i].Branches {
				if r.Chance(2, 3) {
					d.Branches = append(d.Branches, b)
				}
			}
			s.Docs = append(s.Docs, d)
		}
	}
	langs := map[string]bool{}
	for _, d := range s.Docs {
		langs[d.Lang] = true
	}
	if r.Chance(1, 4) {
		langs[gen.Pick(r, LangNames)] = true
	}
	s.Langs = sortedKeys(langs, false)
	return s
}

// RandomHits fills the hit tables of every document with a random truth assignment for the content atoms of q.
func RandomHits(r *gen.Rand, ctx []*Shard, qs ...query.Q) {
	var keys []string
	for _, q := range qs {
		for _, a := range ContentAtoms(q) {
			keys = append(keys, AtomKey(a))
		}
	}
	for _, s := range ctx {
		for i := range s.Docs {
			d := &s.Docs[i]
			d.NameHits, d.ContentHits, d.SymHits = map[string]bool{}, map[string]bool{}, map[string]bool{}
			for _, k := range keys {
				d.NameHits[k] = r.Bool()
				d.ContentHits[k] = r.Bool()
				d.SymHits[k] = r.Chance(1, 3)
			}
		}
	}
}

// Corpus generates 1..maxShards abstract shards over distinct repositories (a repository name may recur in a
// second shard, as for a repository split over several shards).
func (g *SGen) Corpus(maxShards int, tombstones bool) []*Shard {
	r := g.R
	names := append([]string(nil), RepoNames...)
	gen.Shuffle(r, names)
	ids := append([]uint32(nil), g.IDs...)
	gen.Shuffle(r, ids)
	n := r.Range(1, maxShards)
	var ctx []*Shard
	k := 0
	for i := 0; i < n && k < len(names) && k < len(ids); i++ {
		nr := 1
		if r.Chance(1, 2) {
			nr = r.Range(1, 3)
		}
		if r.Chance(1, 15) {
			nr = 0
		}
		if k+nr > len(names) {
			nr = len(names) - k
		}
		if k+nr > len(ids) {
			nr = len(ids) - k
		}
		ctx = append(ctx, g.Shard(names[k:k+nr], ids[k:k+nr], tombstones))
		k += nr
	}
	// a repository split over two shards (same name and id, same branches)
	if len(ctx) >= 2 && r.Chance(1, 4) && len(ctx[0].Repos) > 0 {
		src := ctx[0].Repos[0]
		dst := ctx[len(ctx)-1]
		cp := src
		dst.Repos = append(dst.Repos, cp)
		dst.Docs = append(dst.Docs, Doc{Repo: len(dst.Repos) - 1, Name: "split.go", Lang: "Go", Branches: firstN(len(cp.Branches))})
		hasGo := false
		for _, l := range dst.Langs {
			hasGo = hasGo || l == "Go"
		}
		if !hasGo {
			dst.Langs = append(dst.Langs, "Go")
		}
	}
	return ctx
}

func firstN(n int) []int {
	if n > 1 {
		n = 1
	}
	out := []int{}
	for i := 0; i < n; i++ {
		out = append(out, i)
	}
	return out
}

// Words is the vocabulary of generated file contents (the content patterns of the pools occur in it).
var Words = []string{"foo", "bar", "main", "abc", "func", "oo b", "x", "fo", "baz", "fooo", "bax", "abbc", "cx", "Foo", "BAR", "zz"}

// RealShard generates a shard with real ASCII contents: one repository per name, 1–4 documents each, file names
// unique within the corpus when prefix is.
func RealShard(r *gen.Rand, sg *SGen, names []string, ids []uint32, tombstones bool, prefix string) *Shard {
	s := &Shard{FeatureVersion: 12}
	for i, n := range names {
		rp := sg.Repo(n, ids[i])
		if tombstones && r.Chance(1, 5) {
			rp.Tombstone = true
		}
		s.Repos = append(s.Repos, rp)
		nd := r.Range(1, 4)
		for j := 0; j < nd; j++ {
			d := Doc{Repo: i, Name: prefix + gen.Pick(r, []string{"a.go", "dir/main.go", "foo.txt", "README", "b.py", "x"}) + string(rune('0'+j)), Lang: gen.Pick(r, LangNames)}
			if prefix == "" && j == 0 && r.Chance(1, 2) {
				d.Name = gen.Pick(r, FileNames)
			}
			for b := range rp.Branches {
				if r.Chance(2, 3) {
					d.Branches = append(d.Branches, b)
				}
			}
			var sb []byte
			for k := r.Range(0, 12); k > 0; k-- {
				sb = append(sb, gen.Pick(r, Words)...)
				sb = append(sb, gen.Pick(r, []string{" ", "\n", " ", "(", ""})...)
			}
			d.Content = string(sb)
			s.Docs = append(s.Docs, d)
		}
	}
	return s
}
