package q1q

import (
	"bytes"
	"context"
	"fmt"
	"os"
	"path/filepath"
	"regexp"
	"sort"
	"strings"

	"github.com/sourcegraph/zoekt"
	"github.com/sourcegraph/zoekt/index"
	"github.com/sourcegraph/zoekt/query"
)

// ZRepo converts to the zoekt type.
func ZRepo(r Repo) zoekt.Repository {
	z := zoekt.Repository{Name: r.Name, ID: r.ID, RawConfig: r.RawConfig, Metadata: r.Metadata, Tombstone: r.Tombstone}
	for _, b := range r.Branches {
		z.Branches = append(z.Branches, zoekt.RepositoryBranch{Name: b, Version: "v-" + b})
	}
	return z
}

func writeSimple(path string, r Repo, docs []Doc) error {
	z := ZRepo(r)
	z.Tombstone = false
	b, err := index.NewShardBuilder(&z)
	if err != nil {
		return err
	}
	for _, d := range docs {
		var brs []string
		for _, i := range d.Branches {
			brs = append(brs, r.Branches[i])
		}
		if err := b.Add(index.Document{Name: d.Name, Content: []byte(d.Content), Branches: brs, Language: d.Lang}); err != nil {
			return fmt.Errorf("add %s: %w", d.Name, err)
		}
	}
	f, err := os.Create(path)
	if err != nil {
		return err
	}
	defer f.Close()
	return b.Write(f)
}

// BuildShardFile writes the real shard for s into dir through the public builder API (one repository: a simple
// shard; several: simple shards merged with index.Merge; tombstones through index.SetTombstone) and returns the
// path and the description of what is really in the file (repository order after merging, language map).
// Repositories without documents are dropped by index.Merge; so are they from the returned description.
func BuildShardFile(dir, base string, s *Shard) (string, *Shard, error) {
	byRepo := make([][]Doc, len(s.Repos))
	for _, d := range s.Docs {
		byRepo[d.Repo] = append(byRepo[d.Repo], d)
	}
	var path string
	anyTomb := false
	for _, r := range s.Repos {
		anyTomb = anyTomb || r.Tombstone
	}
	// index.SetTombstone is only meaningful on compound shards (a simple shard's .meta holds one repository)
	if len(s.Repos) == 1 && !anyTomb {
		path = filepath.Join(dir, fmt.Sprintf("%s_v%d.%05d.zoekt", base, index.IndexFormatVersion, 0))
		if err := writeSimple(path, s.Repos[0], byRepo[0]); err != nil {
			return "", nil, err
		}
	} else {
		tmp, err := os.MkdirTemp(dir, "parts")
		if err != nil {
			return "", nil, err
		}
		defer os.RemoveAll(tmp)
		var files []index.IndexFile
		for i, r := range s.Repos {
			p := filepath.Join(tmp, fmt.Sprintf("p%d_v%d.%05d.zoekt", i, index.IndexFormatVersion, 0))
			if err := writeSimple(p, r, byRepo[i]); err != nil {
				return "", nil, err
			}
			f, err := os.Open(p)
			if err != nil {
				return "", nil, err
			}
			defer f.Close()
			ifile, err := index.NewIndexFile(f)
			if err != nil {
				return "", nil, err
			}
			defer ifile.Close()
			files = append(files, ifile)
		}
		tmpName, dstName, err := index.Merge(dir, files...)
		if err != nil {
			return "", nil, err
		}
		if err := os.Rename(tmpName, dstName); err != nil {
			return "", nil, err
		}
		path = dstName
	}
	for _, r := range s.Repos {
		if r.Tombstone {
			if err := index.SetTombstone(path, r.ID); err != nil {
				return "", nil, err
			}
		}
	}
	// what is really there
	repos, md, err := index.ReadMetadataPath(path)
	if err != nil {
		return "", nil, err
	}
	out := &Shard{FeatureVersion: md.IndexFeatureVersion}
	for l := range md.LanguageMap {
		out.Langs = append(out.Langs, l)
	}
	sort.Strings(out.Langs)
	for _, zr := range repos {
		found := -1
		for i, r := range s.Repos {
			if r.Name == zr.Name {
				found = i
			}
		}
		if found < 0 {
			return "", nil, fmt.Errorf("unexpected repository %q in %s", zr.Name, path)
		}
		r := s.Repos[found]
		r.Tombstone = zr.Tombstone
		out.Repos = append(out.Repos, r)
		for _, d := range byRepo[found] {
			d.Repo = len(out.Repos) - 1
			out.Docs = append(out.Docs, d)
		}
	}
	return path, out, nil
}

// OpenShard loads a shard file with index.NewSearcher.
func OpenShard(path string) (zoekt.Searcher, error) {
	f, err := os.Open(path)
	if err != nil {
		return nil, err
	}
	ifile, err := index.NewIndexFile(f)
	if err != nil {
		f.Close()
		return nil, err
	}
	s, err := index.NewSearcher(ifile)
	if err != nil {
		ifile.Close()
		return nil, err
	}
	return s, nil
}

// naive reference matcher for content atoms: scan the whole name / content.
func atomHits(a query.Q, text string) bool {
	switch s := a.(type) {
	case *query.Substring:
		if s.CaseSensitive {
			return strings.Contains(text, s.Pattern)
		}
		return strings.Contains(strings.ToLower(text), strings.ToLower(s.Pattern))
	case *query.Regexp:
		src := s.Regexp.String()
		if !s.CaseSensitive {
			src = "(?i:" + src + ")"
		}
		return regexp.MustCompile(src).MatchString(text)
	}
	return false
}

// Hits fills the hit tables of every document from its real name and content, by naive scanning (ASCII corpora).
// Documents have no symbol sections (no ctags), so no Symbol atom hits.
func Hits(ctx []*Shard, qs ...query.Q) {
	for _, s := range ctx {
		for i := range s.Docs {
			d := &s.Docs[i]
			d.NameHits, d.ContentHits, d.SymHits = map[string]bool{}, map[string]bool{}, map[string]bool{}
			for _, q := range qs {
				for _, a := range ContentAtoms(q) {
					k := AtomKey(a)
					d.NameHits[k] = atomHits(a, d.Name)
					d.ContentHits[k] = atomHits(a, d.Content)
				}
			}
		}
	}
}

// FileKey identifies a result file.
func FileKey(repo, name string) string { return repo + "\x00" + name }

// SearchFiles runs a search and returns the result files.
func SearchFiles(s zoekt.Searcher, q query.Q, opts *zoekt.SearchOptions) (files []zoekt.FileMatch, err error) {
	defer func() {
		if r := recover(); r != nil {
			err = fmt.Errorf("panic: %v", r)
		}
	}()
	if opts == nil {
		opts = &zoekt.SearchOptions{}
	}
	res, err := s.Search(context.Background(), q, opts)
	if err != nil {
		return nil, err
	}
	return res.Files, nil
}

// DocPositions maps result files of shard s to positions in s.Docs (sorted); unknown files yield an error.
func DocPositions(s *Shard, files []zoekt.FileMatch) ([]int, error) {
	pos := map[string]int{}
	for i, d := range s.Docs {
		pos[FileKey(s.Repos[d.Repo].Name, d.Name)] = i
	}
	var out []int
	seen := map[int]bool{}
	for _, f := range files {
		p, ok := pos[FileKey(f.Repository, f.FileName)]
		if !ok {
			return nil, fmt.Errorf("result file %s:%s is not in the shard", f.Repository, f.FileName)
		}
		if seen[p] {
			return nil, fmt.Errorf("result file %s:%s returned twice", f.Repository, f.FileName)
		}
		seen[p] = true
		out = append(out, p)
	}
	sort.Ints(out)
	return out, nil
}

var _ = bytes.Contains
