import ZoektModel.C23.Spec
namespace ZoektModel.C23

/-- invariant of the document loop: every collected file comes from an admissible document -/
theorem step_inv (acc : Int → Bool) (sh : Shard) (maxRepo : Nat) (st : LoopSt) (i : Nat) (d : Doc)
    (hd : sh.docs[i]? = some d)
    (h : ∀ f ∈ st.files, ∃ r d, sh.repos[f.repoIdx]? = some r ∧ sh.docs[f.docIdx]? = some d ∧ d.repo = f.repoIdx ∧
      acc r.tenant = true ∧ r.tomb = false ∧ d.ftomb = false ∧
      f.repository = r.name ∧ f.repositoryID = r.id ∧ f.fileName = d.name) :
    ∀ f ∈ (stepDoc acc sh maxRepo st i d).files, ∃ r d, sh.repos[f.repoIdx]? = some r ∧ sh.docs[f.docIdx]? = some d ∧ d.repo = f.repoIdx ∧
      acc r.tenant = true ∧ r.tomb = false ∧ d.ftomb = false ∧
      f.repository = r.name ∧ f.repositoryID = r.id ∧ f.fileName = d.name := by
  unfold stepDoc
  split
  · exact h
  · rename_i r hr
    by_cases hs : skipDoc acc r maxRepo st d = true
    · simpa [hs] using h
    · have hfiles : (track st d).files = st.files := by unfold track; split <;> rfl
      simp only [hs]
      simp only [skipDoc, Bool.or_eq_true, not_or, Bool.not_eq_true, Bool.not_eq_eq_eq_not,
        Bool.not_true] at hs
      obtain ⟨⟨⟨htomb, hacc⟩, hft⟩, _⟩ := hs
      by_cases hc : d.count = 0
      · simpa [hc, hfiles] using h
      · intro f hf
        simp [hc, hfiles] at hf
        rcases hf with rfl | hf
        · exact ⟨r, d, hr, hd, rfl, by simpa using hacc, htomb, hft, rfl, rfl, rfl⟩
        · exact h f hf

theorem loop_inv (acc : Int → Bool) (sh : Shard) (maxRepo : Nat) (ds pre : List Doc) (st : LoopSt)
    (hsplit : sh.docs = pre ++ ds)
    (h : ∀ f ∈ st.files, ∃ r d, sh.repos[f.repoIdx]? = some r ∧ sh.docs[f.docIdx]? = some d ∧ d.repo = f.repoIdx ∧
      acc r.tenant = true ∧ r.tomb = false ∧ d.ftomb = false ∧
      f.repository = r.name ∧ f.repositoryID = r.id ∧ f.fileName = d.name) :
    ∀ f ∈ (loopFrom acc sh maxRepo st pre.length ds).files, ∃ r d, sh.repos[f.repoIdx]? = some r ∧ sh.docs[f.docIdx]? = some d ∧ d.repo = f.repoIdx ∧
      acc r.tenant = true ∧ r.tomb = false ∧ d.ftomb = false ∧
      f.repository = r.name ∧ f.repositoryID = r.id ∧ f.fileName = d.name := by
  induction ds generalizing pre st with
  | nil => exact h
  | cons d ds ih =>
    simp only [loopFrom]
    have hd : sh.docs[pre.length]? = some d := by simp [hsplit]
    have := ih (pre ++ [d]) (stepDoc acc sh maxRepo st pre.length d) (by simp [hsplit])
      (step_inv acc sh maxRepo st pre.length d hd h)
    simpa using this


/-! ### RepoURLs / LineFragments -/

theorem mapWrites_mem (acc : Int → Bool) (sh : Shard) (f : Repo → String) (g : SubRepo → String) (p : String × String)
    (hp : p ∈ mapWrites acc sh f g) : ∃ r ∈ sh.repos, acc r.tenant = true ∧ p ∈ repoPairs f g r := by
  unfold mapWrites at hp
  rw [List.mem_flatMap] at hp
  obtain ⟨r, hr, hp⟩ := hp
  rw [List.mem_filter] at hr
  exact ⟨r, hr.1, hr.2, hp⟩

theorem mapLookup_mem (ws : List (String × String)) (k v : String) (h : mapLookup ws k = some v) : (k, v) ∈ ws := by
  unfold mapLookup at h
  cases hfind : ws.reverse.find? (fun p => p.1 == k) with
  | none => simp [hfind] at h
  | some p =>
    simp only [hfind, Option.map_some, Option.some.injEq] at h
    have hmem := List.mem_of_find?_eq_some hfind
    have hk := List.find?_some hfind
    simp only [beq_iff_eq] at hk
    rw [List.mem_reverse] at hmem
    have : p = (k, v) := by cases p; simp_all
    exact this ▸ hmem

theorem finalMap_mem (ws : List (String × String)) (p : String × String) (h : p ∈ finalMap ws) : p ∈ ws := by
  unfold finalMap at h
  rw [List.mem_mergeSort] at h
  rw [List.mem_filterMap] at h
  obtain ⟨k, _, hk⟩ := h
  cases hl : mapLookup ws k with
  | none => simp [hl] at hk
  | some v =>
    simp only [hl, Option.map_some, Option.some.injEq] at hk
    exact hk ▸ mapLookup_mem ws k v hl

/-! ### List -/

/-- invariant of `for i := range d.repoListEntry`: every listed index is a live repository the predicate admits -/
def ListInv (acc : Int → Bool) (sh : Shard) (out : ListOut) : Prop :=
  (∀ i ∈ out.repos, ∃ r, sh.repos[i]? = some r ∧ acc r.tenant = true ∧ r.tomb = false) ∧
  (∀ w ∈ out.mapWrites, ∃ r, sh.repos[w.2]? = some r ∧ acc r.tenant = true ∧ r.tomb = false ∧ r.id = w.1)

theorem listStep_inv (acc : Int → Bool) (sh : Shard) (incl : Repo → Bool) (field : Field) (out : ListOut) (i : Nat) (r : Repo)
    (hr : sh.repos[i]? = some r) (h : ListInv acc sh out) : ListInv acc sh (listStep acc sh incl field out i r) := by
  unfold listStep
  by_cases htomb : r.tomb = true
  · simpa [htomb] using h
  · by_cases hacc : acc r.tenant = true
    · by_cases hin : incl r = true
      · have htomb' : r.tomb = false := by simpa using htomb
        simp only [htomb', hacc, hin]
        obtain ⟨h1, h2⟩ := h
        by_cases hid : r.id = 0
        · simp only [hid]
          refine ⟨?_, by simpa using h2⟩
          intro j hj
          simp at hj
          rcases hj with hj | rfl
          · exact h1 j hj
          · exact ⟨r, hr, hacc, htomb'⟩
        · cases field with
          | repos =>
            simp only [hid]
            refine ⟨?_, by simpa using h2⟩
            intro j hj
            simp at hj
            rcases hj with hj | rfl
            · exact h1 j hj
            · exact ⟨r, hr, hacc, htomb'⟩
          | reposMap =>
            simp only [hid]
            refine ⟨by simpa using h1, ?_⟩
            intro w hw
            simp at hw
            rcases hw with hw | rfl
            · exact h2 w hw
            · exact ⟨r, hr, hacc, htomb', rfl⟩
      · simpa [htomb, hacc, hin] using h
    · simpa [htomb, hacc] using h

theorem listFrom_inv (acc : Int → Bool) (sh : Shard) (incl : Repo → Bool) (field : Field) (rs pre : List Repo) (out : ListOut)
    (hsplit : sh.repos = pre ++ rs) (h : ListInv acc sh out) :
    ListInv acc sh (listFrom acc sh incl field out pre.length rs) := by
  induction rs generalizing pre out with
  | nil => exact h
  | cons r rs ih =>
    simp only [listFrom]
    have hr : sh.repos[pre.length]? = some r := by simp [hsplit]
    have := ih (pre ++ [r]) (listStep acc sh incl field out pre.length r) (by simp [hsplit])
      (listStep_inv acc sh incl field out pre.length r hr h)
    simpa using this

/-! ### non-interference -/

/-- blank everything a context may not see: the identifying fields of inaccessible repositories … -/
def eraseRepo (acc : Int → Bool) (r : Repo) : Repo :=
  if acc r.tenant then r else { r with id := 0, name := "", url := "", frag := "", subs := [] }

/-- … and name, tombstone flag and match verdict of their documents -/
def eraseDoc (acc : Int → Bool) (sh : Shard) (d : Doc) : Doc :=
  match sh.repos[d.repo]? with
  | some r => if acc r.tenant then d else { d with name := "", ftomb := false, count := 0 }
  | none => d

def erase (acc : Int → Bool) (sh : Shard) : Shard :=
  ⟨sh.repos.map (eraseRepo acc), sh.docs.map (eraseDoc acc sh)⟩

theorem eraseRepo_tenant (acc : Int → Bool) (r : Repo) : (eraseRepo acc r).tenant = r.tenant := by
  unfold eraseRepo; split <;> rfl

theorem eraseRepo_tomb (acc : Int → Bool) (r : Repo) : (eraseRepo acc r).tomb = r.tomb := by
  unfold eraseRepo; split <;> rfl

theorem eraseRepo_acc (acc : Int → Bool) (r : Repo) (h : acc r.tenant = true) : eraseRepo acc r = r := by
  unfold eraseRepo; simp [h]

theorem eraseDoc_repo (acc : Int → Bool) (sh : Shard) (d : Doc) : (eraseDoc acc sh d).repo = d.repo := by
  unfold eraseDoc; split
  · split <;> rfl
  · rfl

theorem erase_repos_get (acc : Int → Bool) (sh : Shard) (i : Nat) :
    (erase acc sh).repos[i]? = (sh.repos[i]?).map (eraseRepo acc) := by
  simp [erase]

theorem stepDoc_erase (acc : Int → Bool) (sh : Shard) (maxRepo : Nat) (st : LoopSt) (i : Nat) (d : Doc) :
    stepDoc acc (erase acc sh) maxRepo st i (eraseDoc acc sh d) = stepDoc acc sh maxRepo st i d := by
  unfold stepDoc
  rw [eraseDoc_repo, erase_repos_get]
  cases hr : sh.repos[d.repo]? with
  | none => rfl
  | some r =>
    simp only [Option.map_some]
    by_cases hacc : acc r.tenant = true
    · have hd : eraseDoc acc sh d = d := by unfold eraseDoc; simp [hr, hacc]
      rw [eraseRepo_acc acc r hacc, hd]
    · have h1 : skipDoc acc (eraseRepo acc r) maxRepo st (eraseDoc acc sh d) = true := by
        simp [skipDoc, eraseRepo_tenant, hacc]
      have h2 : skipDoc acc r maxRepo st d = true := by simp [skipDoc, hacc]
      simp [h1, h2]

theorem loopFrom_erase (acc : Int → Bool) (sh : Shard) (maxRepo : Nat) (ds : List Doc) (st : LoopSt) (i : Nat) :
    loopFrom acc (erase acc sh) maxRepo st i (ds.map (eraseDoc acc sh)) = loopFrom acc sh maxRepo st i ds := by
  induction ds generalizing st i with
  | nil => rfl
  | cons d ds ih => simp only [List.map_cons, loopFrom, stepDoc_erase, ih]

theorem mapWrites_erase (acc : Int → Bool) (sh : Shard) (f : Repo → String) (g : SubRepo → String) :
    mapWrites acc (erase acc sh) f g = mapWrites acc sh f g := by
  unfold mapWrites erase
  simp only
  induction sh.repos with
  | nil => rfl
  | cons r rs ih =>
    simp only [List.map_cons, List.filter_cons, eraseRepo_tenant]
    by_cases hacc : acc r.tenant = true
    · simp only [hacc, if_true, List.flatMap_cons, eraseRepo_acc acc r hacc, ih]
    · simp only [hacc, Bool.false_eq_true, if_false, ih]

/-- search on the erased shard: the whole result of a search (files, RepoURLs, LineFragments) is unchanged when every
    repository the context may not access — its name, id, URL templates, sub-repositories, and the names, tombstones and
    match verdicts of its documents — is replaced by blanks.  Nothing of an inaccessible repository can therefore show
    in any output channel of the model. -/
theorem search_erase (acc : Int → Bool) (sh : Shard) (early : Bool) (maxRepo : Nat) :
    search acc (erase acc sh) early maxRepo = search acc sh early maxRepo := by
  unfold search
  split
  · rfl
  · simp only [mapWrites_erase]
    have : (erase acc sh).docs = sh.docs.map (eraseDoc acc sh) := rfl
    rw [this, loopFrom_erase]

theorem docsOf_erase (acc : Int → Bool) (sh : Shard) (i : Nat) : docsOf (erase acc sh) i = docsOf sh i := by
  unfold docsOf erase
  simp only
  induction sh.docs with
  | nil => rfl
  | cons d ds ih =>
    simp only [List.map_cons, List.filter_cons, eraseDoc_repo]
    split <;> simp [ih]

theorem listStep_erase (acc : Int → Bool) (sh : Shard) (incl : Repo → Bool) (field : Field) (out : ListOut) (i : Nat) (r : Repo) :
    listStep acc (erase acc sh) incl field out i (eraseRepo acc r) = listStep acc sh incl field out i r := by
  unfold listStep
  rw [eraseRepo_tomb, eraseRepo_tenant, docsOf_erase]
  by_cases hacc : acc r.tenant = true
  · rw [eraseRepo_acc acc r hacc]
  · simp [hacc]

theorem listFrom_erase (acc : Int → Bool) (sh : Shard) (incl : Repo → Bool) (field : Field) (rs : List Repo) (out : ListOut) (i : Nat) :
    listFrom acc (erase acc sh) incl field out i (rs.map (eraseRepo acc)) = listFrom acc sh incl field out i rs := by
  induction rs generalizing out i with
  | nil => rfl
  | cons r rs ih => simp only [List.map_cons, listFrom, listStep_erase, ih]


theorem list_erase (acc : Int → Bool) (sh : Shard) (mode : ListMode) (early : Bool) (field : Field) :
    list acc (erase acc sh) mode early field = list acc sh mode early field := by
  unfold list
  have hr : (erase acc sh).repos = sh.repos.map (eraseRepo acc) := rfl
  cases mode with
  | constFalse => rfl
  | constTrue => simp only [hr, listFrom_erase]
  | viaSearch => simp only [hr, search_erase, listFrom_erase]


/-! ### completeness -/

theorem stepDoc_mono (acc : Int → Bool) (sh : Shard) (maxRepo : Nat) (st : LoopSt) (i : Nat) (d : Doc) (f : FileOut)
    (h : f ∈ st.files) : f ∈ (stepDoc acc sh maxRepo st i d).files := by
  unfold stepDoc
  have hfiles : (track st d).files = st.files := by unfold track; split <;> rfl
  split
  · exact h
  · split
    · exact h
    · split
      · rw [hfiles]; exact h
      · simp [hfiles, h]

theorem loopFrom_mono (acc : Int → Bool) (sh : Shard) (maxRepo : Nat) (ds : List Doc) (st : LoopSt) (i : Nat) (f : FileOut)
    (h : f ∈ st.files) : f ∈ (loopFrom acc sh maxRepo st i ds).files := by
  induction ds generalizing st i with
  | nil => exact h
  | cons d ds ih => exact ih _ _ (stepDoc_mono acc sh maxRepo st i d f h)

/-- without a per-repository limit, an admissible matching document is collected -/
theorem stepDoc_adds (acc : Int → Bool) (sh : Shard) (st : LoopSt) (i : Nat) (d : Doc) (r : Repo)
    (hr : sh.repos[d.repo]? = some r) (hacc : acc r.tenant = true) (htomb : r.tomb = false) (hft : d.ftomb = false)
    (hc : d.count ≠ 0) : ⟨d.repo, i, r.name, r.id, d.name⟩ ∈ (stepDoc acc sh 0 st i d).files := by
  unfold stepDoc
  simp only [hr]
  have hs : skipDoc acc r 0 st d = false := by simp [skipDoc, hacc, htomb, hft]
  simp [hs, hc]

theorem loopFrom_complete (acc : Int → Bool) (sh : Shard) (ds pre : List Doc) (st : LoopSt) (j : Nat) (d : Doc) (r : Repo)
    (hd : ds[j]? = some d) (hr : sh.repos[d.repo]? = some r) (hacc : acc r.tenant = true) (htomb : r.tomb = false)
    (hft : d.ftomb = false) (hc : d.count ≠ 0) :
    ⟨d.repo, pre.length + j, r.name, r.id, d.name⟩ ∈ (loopFrom acc sh 0 st pre.length ds).files := by
  induction ds generalizing pre st j with
  | nil => simp at hd
  | cons x xs ih =>
    simp only [loopFrom]
    cases j with
    | zero =>
      simp at hd; subst hd
      exact loopFrom_mono _ _ _ _ _ _ _ (stepDoc_adds acc sh st pre.length x r hr hacc htomb hft hc)
    | succ k =>
      have := ih (pre ++ [x]) (stepDoc acc sh 0 st pre.length x) k (by simpa using hd)
      simp only [List.length_append, List.length_singleton] at this
      have e : pre.length + 1 + k = pre.length + (k + 1) := by omega
      rw [e] at this
      exact this


/-! ### the Spec predicates -/

theorem pairOk_of_mem (acc : Int → Bool) (sh : Shard) (f : Repo → String) (g : SubRepo → String) (p : String × String)
    (h : ∃ r ∈ sh.repos, acc r.tenant = true ∧ p ∈ repoPairs f g r) : pairOk acc sh f g p = true := by
  obtain ⟨r, hr, hacc, hp⟩ := h
  unfold pairOk
  rw [List.any_eq_true]
  exact ⟨r, hr, by simp [hacc, hp]⟩

theorem finalIds_mem (ws : List (Nat × Nat)) (id : Nat) (h : id ∈ finalIds ws) : ∃ w ∈ ws, w.1 = id := by
  unfold finalIds at h
  rw [List.mem_mergeSort] at h
  have := List.mem_eraseDups.1 h
  rw [List.mem_map] at this
  exact this

end ZoektModel.C23
