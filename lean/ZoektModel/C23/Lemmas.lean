import ZoektModel.C23.Spec
namespace ZoektModel.C23

/-- invariant of the document loop: every collected file comes from an admissible document -/
theorem step_inv (acc : Int → Bool) (sh : Shard) (maxRepo : Nat) (st : LoopSt) (i : Nat) (d : Doc)
    (hd : sh.docs[i]? = some d)
    (h : ∀ f ∈ st.files, ∃ r d, sh.repos[f.repoIdx]? = some r ∧ sh.docs[f.docIdx]? = some d ∧ d.repo = f.repoIdx ∧
      acc r.tenant = true ∧ r.tomb = false ∧ d.ftomb = false ∧
      f.repository = r.name ∧ f.repositoryID = r.id ∧ f.fileName = d.name) :
    ∀ f ∈ (stepDoc acc sh maxRepo st i d).files, ∃ r d, sh.repos[f.repoIdx]? = some r ∧ sh.docs[f.docIdx]? = some d ∧ d.repo = f.repoIdx ∧
      acc r.tenant = true ∧ r.tomb = false ∧ d.ftomb = false ∧
      f.repository = r.name ∧ f.repositoryID = r.id ∧ f.fileName = d.name := by
  unfold stepDoc
  split
  · exact h
  · rename_i r hr
    by_cases hs : skipDoc acc r maxRepo st d = true
    · simpa [hs] using h
    · have hfiles : (track st d).files = st.files := by unfold track; split <;> rfl
      simp only [hs]
      simp only [skipDoc, Bool.or_eq_true, not_or, Bool.not_eq_true, Bool.not_eq_eq_eq_not,
        Bool.not_true] at hs
      obtain ⟨⟨⟨htomb, hacc⟩, hft⟩, _⟩ := hs
      by_cases hc : d.count = 0
      · simpa [hc, hfiles] using h
      · intro f hf
        simp [hc, hfiles] at hf
        rcases hf with rfl | hf
        · exact ⟨r, d, hr, hd, rfl, by simpa using hacc, htomb, hft, rfl, rfl, rfl⟩
        · exact h f hf

theorem loop_inv (acc : Int → Bool) (sh : Shard) (maxRepo : Nat) (ds pre : List Doc) (st : LoopSt)
    (hsplit : sh.docs = pre ++ ds)
    (h : ∀ f ∈ st.files, ∃ r d, sh.repos[f.repoIdx]? = some r ∧ sh.docs[f.docIdx]? = some d ∧ d.repo = f.repoIdx ∧
      acc r.tenant = true ∧ r.tomb = false ∧ d.ftomb = false ∧
      f.repository = r.name ∧ f.repositoryID = r.id ∧ f.fileName = d.name) :
    ∀ f ∈ (loopFrom acc sh maxRepo st pre.length ds).files, ∃ r d, sh.repos[f.repoIdx]? = some r ∧ sh.docs[f.docIdx]? = some d ∧ d.repo = f.repoIdx ∧
      acc r.tenant = true ∧ r.tomb = false ∧ d.ftomb = false ∧
      f.repository = r.name ∧ f.repositoryID = r.id ∧ f.fileName = d.name := by
  induction ds generalizing pre st with
  | nil => exact h
  | cons d ds ih =>
    simp only [loopFrom]
    have hd : sh.docs[pre.length]? = some d := by simp [hsplit]
    have := ih (pre ++ [d]) (stepDoc acc sh maxRepo st pre.length d) (by simp [hsplit])
      (step_inv acc sh maxRepo st pre.length d hd h)
    simpa using this

end ZoektModel.C23
