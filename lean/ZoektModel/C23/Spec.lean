/-
C23 — the property as executable predicates over what a caller *observes* (`SearchResult{Files,RepoURLs,
LineFragments}`, `RepoList{Repos,ReposMap}`), written from the statement: whatever is returned names only
repositories the context may access.  Evaluated by the driver on the implementation's output and used verbatim
in the theorems of Props/C23.lean.
-/
import ZoektModel.C23.Model
namespace ZoektModel.C23

/-- the observable part of a `SearchResult` -/
structure ObsSearch where
  files : List (String × Nat × String)     -- Repository, RepositoryID, FileName
  urls : List (String × String)            -- RepoURLs as a finished map (one entry per key)
  frags : List (String × String)           -- LineFragments
  deriving Repr, DecidableEq

/-- the observable part of a `RepoList` -/
structure ObsList where
  repos : List (String × Nat)              -- Repository.Name, Repository.ID of `Repos`
  mapIds : List Nat                        -- keys of `ReposMap`
  deriving Repr, DecidableEq

/-- a Go map after a sequence of writes, as a list sorted by key -/
def finalMap (ws : List (String × String)) : List (String × String) :=
  let ks := (ws.map (·.1)).eraseDups
  (ks.filterMap fun k => (mapLookup ws k).map fun v => (k, v)).mergeSort fun a b => decide (a.1 ≤ b.1)

def finalIds (ws : List (Nat × Nat)) : List Nat :=
  ((ws.map (·.1)).eraseDups).mergeSort fun a b => decide (a ≤ b)

def observeSearch (o : SearchOut) : ObsSearch :=
  ⟨o.files.map (fun f => (f.repository, f.repositoryID, f.fileName)), finalMap o.urls, finalMap o.frags⟩

def observeList (sh : Shard) (o : ListOut) : ObsList :=
  ⟨o.repos.filterMap (fun i => sh.repos[i]?.map fun r => (r.name, r.id)), finalIds o.mapWrites⟩

/-- a file match is legitimate: it is a document of a live repository the context may access -/
def fileOk (acc : Int → Bool) (sh : Shard) (f : String × Nat × String) : Bool :=
  sh.repos.zipIdx.any fun (r, i) =>
    acc r.tenant && !r.tomb && r.name == f.1 && r.id == f.2.1 &&
    sh.docs.any fun d => d.repo == i && d.name == f.2.2

/-- a `RepoURLs` / `LineFragments` entry is legitimate: name and template of an accessible repository or of one
    of its sub-repositories -/
def pairOk (acc : Int → Bool) (sh : Shard) (f : Repo → String) (g : SubRepo → String) (p : String × String) : Bool :=
  sh.repos.any fun r => acc r.tenant && (repoPairs f g r).contains p

def checkSearch (acc : Int → Bool) (sh : Shard) (o : ObsSearch) : Bool :=
  o.files.all (fileOk acc sh) && o.urls.all (pairOk acc sh (·.url) (·.url)) && o.frags.all (pairOk acc sh (·.frag) (·.frag))

def entryOk (acc : Int → Bool) (sh : Shard) (e : String × Nat) : Bool :=
  sh.repos.any fun r => acc r.tenant && !r.tomb && r.name == e.1 && r.id == e.2

def idOk (acc : Int → Bool) (sh : Shard) (id : Nat) : Bool :=
  sh.repos.any fun r => acc r.tenant && !r.tomb && r.id == id

def checkList (acc : Int → Bool) (sh : Shard) (o : ObsList) : Bool :=
  o.repos.all (entryOk acc sh) && o.mapIds.all (idOk acc sh)

/-- the statement's access rule in strict mode, written independently of `hasAccess`: the system context sees
    everything, a tenant exactly what it owns, a request without tenant nothing -/
def mayAccess (c : Ctx) (owner : Int) : Bool :=
  match c with
  | .system => true
  | .tenant t => t == owner
  | .none => false

end ZoektModel.C23
