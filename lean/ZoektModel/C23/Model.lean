/-
C23 — model of the tenant filtering of `indexData.Search`, `indexData.List`, `addRepo` (index/eval.go) and of
`tenant.HasAccess` (internal/tenant/query.go, context.go, enforcement.go).

What is *not* modelled is a parameter: the match tree's verdict on each document is the field `Doc.count`
(number of line/chunk-range matches the shard search produces for the document; 0 = the document does not
match), and what `indexData.simplify` makes of the query is the `kind`/`mode` argument.  The theorems hold for
every value of these parameters, and for every access predicate `acc` (the tenant check `HasAccess ctx`).
-/
namespace ZoektModel.C23

/-- the three kinds of request context: `systemtenant.WithUnsafeContext`, no tenant, `tenanttype.WithTenant` -/
inductive Ctx where
  | system
  | none
  | tenant (id : Int)
  deriving Repr, DecidableEq

/-- `tenant.HasAccess(ctx, id)`; `strict` = `enforceTenant()` (mode "strict") -/
def hasAccess (strict : Bool) (c : Ctx) (tid : Int) : Bool :=
  if !strict then true else
  match c with
  | .system => true
  | .none => false
  | .tenant t => t == tid

/-- an entry of `Repository.SubRepoMap` (only what `addRepo` reads) -/
structure SubRepo where
  name : String
  url : String
  frag : String
  deriving Repr, DecidableEq

/-- `zoekt.Repository` as far as search and list read it -/
structure Repo where
  tenant : Int
  id : Nat
  name : String
  tomb : Bool
  url : String          -- FileURLTemplate
  frag : String         -- LineFragmentTemplate
  subs : List SubRepo
  deriving Repr, DecidableEq

structure Doc where
  repo : Nat            -- d.repos[doc]
  name : String
  ftomb : Bool          -- the name is in the repository's FileTombstones
  count : Nat           -- matches found by the match tree (0 = no match)
  deriving Repr, DecidableEq

structure Shard where
  repos : List Repo
  docs : List Doc
  deriving Repr

/-- a `FileMatch`: where it comes from (indices) and the repository-identifying data it carries -/
structure FileOut where
  repoIdx : Nat
  docIdx : Nat
  repository : String
  repositoryID : Nat
  fileName : String
  deriving Repr, DecidableEq

structure SearchOut where
  files : List FileOut
  urls : List (String × String)    -- RepoURLs, as the sequence of map writes (later writes win)
  frags : List (String × String)   -- LineFragments, same
  deriving Repr, DecidableEq

/-- state of the document loop of `indexData.Search` -/
structure LoopSt where
  lastRepo : Nat
  repoCount : Nat
  files : List FileOut             -- reversed
  deriving Repr

/-- the skip conditions of the inner `for ; nextDoc < docCount; nextDoc++` loop, in source order: tombstoned
    repository, 🚨 SECURITY `tenant.HasAccess`, `FileTombstones`, `ShardRepoMaxMatchCount` -/
def skipDoc (acc : Int → Bool) (r : Repo) (maxRepo : Nat) (st : LoopSt) (d : Doc) : Bool :=
  r.tomb || !acc r.tenant || d.ftomb ||
  (decide (maxRepo > 0) && decide (st.repoCount ≥ maxRepo) && d.repo == st.lastRepo)

/-- "We track lastRepoID for ShardRepoMaxMatchCount" -/
def track (st : LoopSt) (d : Doc) : LoopSt :=
  if st.lastRepo != d.repo then { st with lastRepo := d.repo, repoCount := 0 } else st

/-- one document of the loop `nextFileMatch:`: skip conditions, `lastRepoID` tracking, then the match tree's
    verdict (`Doc.count`) -/
def stepDoc (acc : Int → Bool) (sh : Shard) (maxRepo : Nat) (st : LoopSt) (i : Nat) (d : Doc) : LoopSt :=
  match sh.repos[d.repo]? with
  | none => st                                     -- not reachable for a well-formed shard (Go would panic)
  | some r =>
    if skipDoc acc r maxRepo st d then st else
    let st' := track st d
    if d.count = 0 then st'                        -- matchesNone
    else { st' with repoCount := st'.repoCount + d.count,
                    files := ⟨d.repo, i, r.name, r.id, d.name⟩ :: st'.files }

def loopFrom (acc : Int → Bool) (sh : Shard) (maxRepo : Nat) : LoopSt → Nat → List Doc → LoopSt
  | st, _, [] => st
  | st, i, d :: ds => loopFrom acc sh maxRepo (stepDoc acc sh maxRepo st i d) (i + 1) ds

/-- the `(name, template)` writes of `addRepo` for one repository and its sub-repositories -/
def repoPairs (f : Repo → String) (g : SubRepo → String) (r : Repo) : List (String × String) :=
  (r.name, f r) :: r.subs.map fun s => (s.name, g s)

/-- the final loop of `Search` over `d.repoMetaData` (with the fix: only repositories the context may access) -/
def mapWrites (acc : Int → Bool) (sh : Shard) (f : Repo → String) (g : SubRepo → String) : List (String × String) :=
  (sh.repos.filter fun r => acc r.tenant).flatMap (repoPairs f g)

/-- `indexData.Search`. `early` = one of the returns before the document loop was taken (empty shard, query
    simplified to FALSE, match tree pruned away): the result is the zero `SearchResult`. -/
def search (acc : Int → Bool) (sh : Shard) (early : Bool) (maxRepo : Nat) : SearchOut :=
  if early then ⟨[], [], []⟩ else
  let st := loopFrom acc sh maxRepo ⟨0, 0, []⟩ 0 sh.docs
  ⟨st.files.reverse, mapWrites acc sh (·.url) (·.url), mapWrites acc sh (·.frag) (·.frag)⟩

/-- Go map semantics of a sequence of writes: the value of `k` is the last write to `k` -/
def mapLookup (ws : List (String × String)) (k : String) : Option String :=
  (ws.reverse.find? fun p => p.1 == k).map (·.2)

/-- what `indexData.simplify` made of the List query -/
inductive ListMode where
  | constFalse | constTrue | viaSearch
  deriving Repr, DecidableEq

inductive Field where
  | repos | reposMap
  deriving Repr, DecidableEq

structure ListOut where
  repos : List Nat                 -- indices of the entries appended to `RepoList.Repos`, in order
  mapWrites : List (Nat × Nat)     -- writes `ReposMap[id] = entry of repository index`
  docs : Nat                       -- `Stats.Documents` (sum over the included entries)
  deriving Repr, DecidableEq

def docsOf (sh : Shard) (i : Nat) : Nat := (sh.docs.filter fun d => d.repo == i).length

/-- one iteration of `for i := range d.repoListEntry` -/
def listStep (acc : Int → Bool) (sh : Shard) (incl : Repo → Bool) (field : Field) (out : ListOut) (i : Nat) (r : Repo) : ListOut :=
  if r.tomb then out
  else if !acc r.tenant then out
  else if !incl r then out
  else
    let out := { out with docs := out.docs + docsOf sh i }
    if r.id = 0 then { out with repos := out.repos ++ [i] }
    else match field with
      | .repos => { out with repos := out.repos ++ [i] }
      | .reposMap => { out with mapWrites := out.mapWrites ++ [(r.id, i)] }

def listFrom (acc : Int → Bool) (sh : Shard) (incl : Repo → Bool) (field : Field) : ListOut → Nat → List Repo → ListOut
  | out, _, [] => out
  | out, i, r :: rs => listFrom acc sh incl field (listStep acc sh incl field out i r) (i + 1) rs

/-- `indexData.List`; `early` as in `search` for the inner `Search` call of the `viaSearch` mode -/
def list (acc : Int → Bool) (sh : Shard) (mode : ListMode) (early : Bool) (field : Field) : ListOut :=
  match mode with
  | .constFalse => ⟨[], [], 0⟩
  | .constTrue => listFrom acc sh (fun _ => true) field ⟨[], [], 0⟩ 0 sh.repos
  | .viaSearch =>
    let found := (search acc sh early 1).files.map (·.repository)
    listFrom acc sh (fun r => found.contains r.name) field ⟨[], [], 0⟩ 0 sh.repos

/-- `typeRepoSearcher.eval` on one shard: the `RepoSet` that replaces `type:repo child` -/
def typeRepoSet (acc : Int → Bool) (sh : Shard) (mode : ListMode) (early : Bool) : List String :=
  (list acc sh mode early .repos).repos.filterMap fun i => sh.repos[i]?.map (·.name)

/-- the shard as the match tree of `RepoSet{set} AND rest` sees it: a document outside the set does not match -/
def restrictToSet (sh : Shard) (set : List String) : Shard :=
  ⟨sh.repos, sh.docs.map fun d =>
    match sh.repos[d.repo]? with
    | some r => if set.contains r.name then d else { d with count := 0 }
    | none => d⟩

/-- `typeRepoSearcher.Search` of `(type:repo child) AND rest` on one shard: `shChild` carries the match tree's verdicts
    for `child` (used by the List that builds the RepoSet), `shRest` those for `rest`; both have the same repositories -/
def typeRepoSearch (acc : Int → Bool) (shChild shRest : Shard) (mode : ListMode) (earlyChild : Bool) : SearchOut :=
  search acc (restrictToSet shRest (typeRepoSet acc shChild mode earlyChild)) false 0

/-- the sharded searcher (search/shards.go) hands the same context to every shard and only copies, splits by
    repository or unions what the shards return: its result is made of the per-shard results -/
def searchShards (acc : Int → Bool) (shs : List (Shard × Bool)) (maxRepo : Nat) : List SearchOut :=
  shs.map fun p => search acc p.1 p.2 maxRepo

/-- `typeRepoSearcher.eval` over all shards: the `RepoSet` built from `Streamer.List(ctx, child)` -/
def typeRepoSetAll (acc : Int → Bool) (shs : List (Shard × ListMode × Bool)) : List String :=
  shs.flatMap fun p => typeRepoSet acc p.1 p.2.1 p.2.2

end ZoektModel.C23
