import ZoektModel.Basic.Proto
import ZoektModel.C23.Spec
namespace ZoektModel.C23
open ZoektModel ZoektModel.Proto

def untok (s : String) : String := if s == "~" then "" else s
def tok (s : String) : String := if s == "" then "~" else s

def parseCtx (s : String) : Option Ctx :=
  if s == "sys" then some .system
  else if s == "none" then some .none
  else if s.startsWith "t" then (s.drop 1).toString.toInt?.map .tenant
  else none

def parseSubs (s : String) : Option (List SubRepo) :=
  if s == "-" then some [] else
  (s.splitOn ",").mapM fun e =>
    match e.splitOn "|" with
    | [n, u, f] => some ⟨untok n, untok u, untok f⟩
    | _ => none

def parseRepos (s : String) : Option (List Repo) :=
  if s == "-" then some [] else
  (s.splitOn ";").mapM fun e =>
    match e.splitOn ":" with
    | [t, id, n, tomb, u, f, subs] => do
      pure ⟨← t.toInt?, ← id.toNat?, untok n, ← bool? tomb, untok u, untok f, ← parseSubs subs⟩
    | _ => none

def parseDocs (s : String) : Option (List Doc) :=
  if s == "-" then some [] else
  (s.splitOn ";").mapM fun e =>
    match e.splitOn ":" with
    | [r, n, ft, c] => do pure ⟨← r.toNat?, untok n, ← bool? ft, ← c.toNat?⟩
    | _ => none

def wfShard (sh : Shard) : Bool := sh.docs.all fun d => decide (d.repo < sh.repos.length)

def showPairs (l : List (String × String)) : String := showList (fun p => tok p.1 ++ "=" ++ tok p.2) l

def renderSearch (o : ObsSearch) : String :=
  "files=" ++ showList (fun f => s!"{tok f.1}:{f.2.1}:{tok f.2.2}") o.files ++
  " urls=" ++ showPairs o.urls ++ " frags=" ++ showPairs o.frags

def renderList (o : ObsList) (nrepos ndocs : Nat) : String :=
  "repos=" ++ showList (fun e => s!"{tok e.1}:{e.2}") o.repos ++ " map=" ++ showNatList o.mapIds ++
  s!" nrepos={nrepos} ndocs={ndocs}"

def parsePairs (s : String) : Option (List (String × String)) :=
  if s == "-" then some [] else
  (s.splitOn ",").mapM fun e =>
    match e.splitOn "=" with
    | [k, v] => some (untok k, untok v)
    | _ => none

def parseObsSearch (s : String) : Option ObsSearch :=
  match fields s with
  | [a, b, c] =>
    if a.startsWith "files=" && b.startsWith "urls=" && c.startsWith "frags=" then do
      let fs := (a.drop 6).toString
      let files ← if fs == "-" then some [] else
        (fs.splitOn ",").mapM fun e =>
          match e.splitOn ":" with
          | [n, id, f] => do pure (untok n, ← id.toNat?, untok f)
          | _ => none
      pure ⟨files, ← parsePairs (b.drop 5).toString, ← parsePairs (c.drop 6).toString⟩
    else none
  | _ => none

def parseObsList (s : String) : Option ObsList :=
  match fields s with
  | [a, b, _, _] =>
    if a.startsWith "repos=" && b.startsWith "map=" then do
      let rs := (a.drop 6).toString
      let repos ← if rs == "-" then some [] else
        (rs.splitOn ",").mapM fun e =>
          match e.splitOn ":" with
          | [n, id] => do pure (untok n, ← id.toNat?)
          | _ => none
      pure ⟨repos, ← natList? (b.drop 4).toString⟩
    else none
  | _ => none

def parseMode (s : String) : Option ListMode :=
  if s == "false" then some .constFalse else if s == "true" then some .constTrue
  else if s == "other" then some .viaSearch else none

def handle (line : String) : String :=
  let (inp, impl) := splitCase line
  match fields inp with
  | ["access", mode, c, tid] =>
    match parseCtx c, tid.toInt? with
    | some c, some tid =>
      let strict := mode == "strict"
      let m := hasAccess strict c tid
      -- spec: in strict mode the implementation's answer must be the statement's rule
      match bool? impl with
      | none => badCase "impl output"
      | some got => if strict && got != mayAccess c tid then specFail (showBool m) "hasaccess" else answer (showBool m)
    | _, _ => badCase "fields"
  | ["search", strict, c, early, maxRepo, repos, docs] =>
    match bool? strict, parseCtx c, bool? early, maxRepo.toNat?, parseRepos repos, parseDocs docs with
    | some strict, some c, some early, some maxRepo, some repos, some docs =>
      let sh : Shard := ⟨repos, docs⟩
      if !wfShard sh then badCase "document of unknown repository" else
      let acc := hasAccess strict c
      let model := renderSearch (observeSearch (search acc sh early maxRepo))
      match parseObsSearch impl with
      | none => badCase "impl output"
      | some o =>
        -- the property is about strict mode; it is evaluated with the statement's own access rule
        if strict && !(checkSearch (mayAccess c) sh o) then specFail model "search-shows-inaccessible-repository"
        else answer model
    | _, _, _, _, _, _ => badCase "fields"
  | ["list", strict, c, mode, early, field, repos, docs] =>
    match bool? strict, parseCtx c, parseMode mode, bool? early, parseRepos repos, parseDocs docs with
    | some strict, some c, some mode, some early, some repos, some docs =>
      let sh : Shard := ⟨repos, docs⟩
      if !wfShard sh then badCase "document of unknown repository" else
      if field != "repos" && field != "map" then badCase "field" else
      let acc := hasAccess strict c
      let out := list acc sh mode early (if field == "map" then .reposMap else .repos)
      let obs := observeList sh out
      let model := renderList obs (obs.repos.length + obs.mapIds.length) out.docs
      match parseObsList impl with
      | none => badCase "impl output"
      | some o =>
        if strict && !(checkList (mayAccess c) sh o) then specFail model "list-shows-inaccessible-repository"
        else answer model
    | _, _, _, _, _, _ => badCase "fields"
  | ["trsearch", strict, c, mode, early, repos, docsChild, docsRest] =>
    match bool? strict, parseCtx c, parseMode mode, bool? early, parseRepos repos, parseDocs docsChild, parseDocs docsRest with
    | some strict, some c, some mode, some early, some repos, some dc, some dr =>
      let shC : Shard := ⟨repos, dc⟩
      let shR : Shard := ⟨repos, dr⟩
      if !wfShard shC || !wfShard shR then badCase "document of unknown repository" else
      let acc := hasAccess strict c
      let o := observeSearch (typeRepoSearch acc shC shR mode early)
      let model := "files=" ++ showList (fun f => s!"{tok f.1}:{f.2.1}:{tok f.2.2}") o.files
      match (fields impl) with
      | [a] =>
        match parseObsSearch (a ++ " urls=- frags=-") with
        | none => badCase "impl output"
        | some io =>
          if strict && !(checkSearch (mayAccess c) shR io) then specFail model "typerepo-search-shows-inaccessible-repository"
          else answer model
      | _ => badCase "impl output"
    | _, _, _, _, _, _, _ => badCase "fields"
  | _ => badCase "op"

def main : IO Unit := runLines handle
end ZoektModel.C23
