import ZoektModel.Basic.Proto
namespace ZoektModel.C23
/-- stub: no model driver for C23 yet -/
def main : IO Unit := ZoektModel.Proto.runLines (fun _ => ZoektModel.Proto.badCase "no model driver for C23")
end ZoektModel.C23
