/-
C08 — `generateCaseNgrams` enumerates the whole product of the three simple-fold orbits (`VariantsComplete`),
proved from the cyclic structure of `unicode.SimpleFold`: every rune returns to itself after at most 8 folds
(`Period`; Go's tables have orbits of at most 4 — checked exhaustively by the harness).
The loop is a mixed-radix odometer; the proof builds, for every target triple, a `foldStep` path from the original
trigram that does not pass through the original trigram (where the Go loop stops) and is shorter than the fuel.
-/
import ZoektModel.C08.Lemmas
namespace ZoektModel.C08

def iter (f : Nat → Nat) : Nat → Nat → Nat
  | 0, x => x
  | n + 1, x => f (iter f n x)

/-- `a` returns to itself after exactly `p` folds (`p ≤ 8`), not earlier -/
structure Period (F : Fold) (a p : Nat) : Prop where
  pos : 0 < p
  le : p ≤ 8
  back : iter F.simpleFold p a = a
  min : ∀ k, 0 < k → k < p → iter F.simpleFold k a ≠ a

variable {F : Fold}

theorem orbitAux_index {a p : Nat} (hp : Period F a p) (x : Nat) : ∀ (fuel l : Nat),
    x ∈ orbitAux F a fuel (iter F.simpleFold l a) → 1 ≤ l → l ≤ p → ∃ k, k < p ∧ x = iter F.simpleFold k a := by
  intro fuel
  induction fuel with
  | zero => intro l h; simp [orbitAux] at h
  | succ fuel ih =>
    intro l h h1 hl
    unfold orbitAux at h
    split at h
    · simp at h
    · rename_i hne
      have hne' : iter F.simpleFold l a ≠ a := by simpa using hne
      have hlt : l < p := by
        rcases Nat.lt_or_ge l p with h' | h'
        · exact h'
        · have : l = p := by omega
          subst this; exact absurd hp.back hne'
      rcases List.mem_cons.mp h with rfl | h
      · exact ⟨l, hlt, rfl⟩
      · exact ih (l + 1) h (by omega) (by omega)

theorem orbit_index {a p : Nat} (hp : Period F a p) {x : Nat} (h : x ∈ orbit F a) :
    ∃ k, k < p ∧ x = iter F.simpleFold k a := by
  unfold orbit at h
  rcases List.mem_cons.mp h with rfl | h
  · exact ⟨0, hp.pos, rfl⟩
  · exact orbitAux_index hp x 8 1 h (Nat.le_refl _) hp.pos

/-- the trigram with digits `(i, j, k)` -/
def D (F : Fold) (g : Tri) (i j k : Nat) : Tri :=
  (iter F.simpleFold i g.1, iter F.simpleFold j g.2.1, iter F.simpleFold k g.2.2)

theorem D_zero (g : Tri) : D F g 0 0 0 = g := rfl

section steps
variable {g : Tri} {p q r : Nat} (hp : Period F g.1 p) (hq : Period F g.2.1 q) (hr : Period F g.2.2 r)
include hp

theorem step_a {i j k : Nat} (h : i + 1 < p) : foldStep F g (D F g i j k) = D F g (i + 1) j k := by
  have hne : iter F.simpleFold (i + 1) g.1 ≠ g.1 := hp.min (i + 1) (by omega) h
  unfold foldStep D
  simp only [iter] at hne ⊢
  simp [hne]

include hq

theorem step_b {i j k : Nat} (hi : i + 1 = p) (h : j + 1 < q) : foldStep F g (D F g i j k) = D F g 0 (j + 1) k := by
  have hb : iter F.simpleFold (i + 1) g.1 = g.1 := by rw [hi]; exact hp.back
  have hne : iter F.simpleFold (j + 1) g.2.1 ≠ g.2.1 := hq.min (j + 1) (by omega) h
  unfold foldStep D
  simp only [iter] at hb hne ⊢
  simp [hb, hne]

theorem step_c {i j k : Nat} (hi : i + 1 = p) (hj : j + 1 = q) : foldStep F g (D F g i j k) = D F g 0 0 (k + 1) := by
  have hb : iter F.simpleFold (i + 1) g.1 = g.1 := by rw [hi]; exact hp.back
  have hb2 : iter F.simpleFold (j + 1) g.2.1 = g.2.1 := by rw [hj]; exact hq.back
  unfold foldStep D
  simp only [iter] at hb hb2 ⊢
  simp [hb, hb2]

omit hq

theorem D_ne_of_i {i j k : Nat} (h0 : 0 < i) (h : i < p) : D F g i j k ≠ g := by
  intro e
  have : (D F g i j k).1 = g.1 := by rw [e]
  exact hp.min i h0 h this

omit hp
include hq

theorem D_ne_of_j {i j k : Nat} (h0 : 0 < j) (h : j < q) : D F g i j k ≠ g := by
  intro e
  have : (D F g i j k).2.1 = g.2.1 := by rw [e]
  exact hq.min j h0 h this

omit hq
include hr

theorem D_ne_of_k {i j k : Nat} (h0 : 0 < k) (h : k < r) : D F g i j k ≠ g := by
  intro e
  have : (D F g i j k).2.2 = g.2.2 := by rw [e]
  exact hr.min k h0 h this

theorem D_full : D F g 0 0 r = g := by
  unfold D
  simp only [iter]
  rw [hr.back]

end steps

/-- a `foldStep` path of `n ≥ 1` steps whose intermediate nodes differ from the original trigram -/
inductive Path (F : Fold) (g : Tri) : Tri → Tri → Nat → Prop where
  | one {x y} (h : foldStep F g x = y) : Path F g x y 1
  | cons {x z y n} (h : foldStep F g x = z) (hz : z ≠ g) (t : Path F g z y n) : Path F g x y (n + 1)

theorem Path.mem {g x y : Tri} {n : Nat} (h : Path F g x y n) : ∀ fuel, n ≤ fuel → y ∈ genLoop F g fuel x := by
  induction h with
  | one h =>
    intro fuel hf
    obtain ⟨f', rfl⟩ : ∃ f', fuel = f' + 1 := ⟨fuel - 1, by omega⟩
    unfold genLoop
    simp [h]
  | cons h hz _ ih =>
    intro fuel hf
    obtain ⟨f', rfl⟩ : ∃ f', fuel = f' + 1 := ⟨fuel - 1, by omega⟩
    unfold genLoop
    simp only [h]
    have : (_ == g) = false := beq_eq_false_iff_ne.mpr hz
    rw [this]
    exact List.mem_cons_of_mem _ (ih f' (by omega))

theorem Path.trans {g x y z : Tri} {n m : Nat} (h1 : Path F g x y n) (hy : y ≠ g) (h2 : Path F g y z m) :
    Path F g x z (n + m) := by
  induction h1 with
  | one h =>
    have : 1 + m = m + 1 := by omega
    rw [this]; exact Path.cons h hy h2
  | @cons _ _ _ n' h hz _ ih =>
    have : n' + 1 + m = (n' + m) + 1 := by omega
    rw [this]; exact Path.cons h hz (ih hy h2)

section paths
variable {g : Tri} {p q r : Nat} (hp : Period F g.1 p) (hq : Period F g.2.1 q) (hr : Period F g.2.2 r)
include hp

/-- first digit: `0 → i` -/
theorem pathA (j k : Nat) : ∀ i, 1 ≤ i → i < p → Path F g (D F g 0 j k) (D F g i j k) i := by
  intro i
  induction i with
  | zero => intro h; omega
  | succ i ih =>
    intro _ hlt
    by_cases hi : i = 0
    · subst hi; exact Path.one (step_a hp (by omega))
    · have h1 := ih (by omega) (by omega)
      exact Path.trans h1 (D_ne_of_i hp (by omega) (by omega)) (Path.one (step_a hp hlt))

include hq

/-- second digit, one step: `(0, j) → (0, j+1)` in `p` steps -/
theorem pathBstep (j k : Nat) (h : j + 1 < q) : Path F g (D F g 0 j k) (D F g 0 (j + 1) k) p := by
  by_cases h1 : p = 1
  · subst h1; exact Path.one (step_b hp hq rfl h)
  · have hpp := hp.pos
    have hA := pathA hp j k (p - 1) (by omega) (by omega)
    have := Path.trans hA (D_ne_of_i hp (by omega) (by omega)) (Path.one (step_b hp hq (by omega) h))
    have e : p - 1 + 1 = p := by omega
    rw [e] at this; exact this

/-- second digit: `0 → j` -/
theorem pathB (k : Nat) : ∀ j, 1 ≤ j → j < q → ∃ n, n ≤ 8 * j ∧ Path F g (D F g 0 0 k) (D F g 0 j k) n := by
  intro j
  induction j with
  | zero => intro h; omega
  | succ j ih =>
    intro _ hlt
    have hple := hp.le
    by_cases hj : j = 0
    · subst hj; exact ⟨p, by omega, pathBstep hp hq 0 k hlt⟩
    · obtain ⟨n, hn, h1⟩ := ih (by omega) (by omega)
      exact ⟨n + p, by omega, Path.trans h1 (D_ne_of_j hq (by omega) (by omega)) (pathBstep hp hq j k hlt)⟩

/-- third digit, one step: `(0,0,k) → (0,0,k+1)` -/
theorem pathCstep (k : Nat) : ∃ n, n ≤ 64 ∧ Path F g (D F g 0 0 k) (D F g 0 0 (k + 1)) n := by
  have hple := hp.le
  have hqle := hq.le
  have hpp := hp.pos
  have hqp := hq.pos
  -- reach (0, q-1, k)
  have h1 : ∃ n, n ≤ 56 ∧ (q = 1 ∨ (q ≠ 1 ∧ Path F g (D F g 0 0 k) (D F g 0 (q - 1) k) n)) := by
    by_cases hq1 : q = 1
    · exact ⟨0, by omega, Or.inl hq1⟩
    · obtain ⟨n, hn, h⟩ := pathB hp hq k (q - 1) (by omega) (by omega)
      exact ⟨n, by omega, Or.inr ⟨hq1, h⟩⟩
  -- from (0, q-1, k) to (0, 0, k+1)
  have h2 : ∃ m, m ≤ 8 ∧ Path F g (D F g 0 (q - 1) k) (D F g 0 0 (k + 1)) m := by
    by_cases hp1 : p = 1
    · exact ⟨1, by omega, Path.one (step_c hp hq (by omega) (by omega))⟩
    · have hA := pathA hp (q - 1) k (p - 1) (by omega) (by omega)
      exact ⟨p - 1 + 1, by omega,
        Path.trans hA (D_ne_of_i hp (by omega) (by omega)) (Path.one (step_c hp hq (by omega) (by omega)))⟩
  obtain ⟨n, hn, h1⟩ := h1
  obtain ⟨m, hm, h2⟩ := h2
  rcases h1 with hq1 | h1
  · have e : q - 1 = 0 := by omega
    rw [e] at h2
    exact ⟨m, by omega, h2⟩
  · obtain ⟨hq1, h1⟩ := h1
    exact ⟨n + m, by omega, Path.trans h1 (D_ne_of_j hq (by omega) (by omega)) h2⟩

include hr

/-- third digit: `0 → k` (`k = r` closes the cycle) -/
theorem pathC : ∀ k, 1 ≤ k → k ≤ r → ∃ n, n ≤ 64 * k ∧ Path F g (D F g 0 0 0) (D F g 0 0 k) n := by
  intro k
  induction k with
  | zero => intro h; omega
  | succ k ih =>
    intro _ hle
    obtain ⟨m, hm, h2⟩ := pathCstep hp hq k
    by_cases hk : k = 0
    · subst hk; exact ⟨m, by omega, h2⟩
    · obtain ⟨n, hn, h1⟩ := ih (by omega) (by omega)
      exact ⟨n + m, by omega, Path.trans h1 (D_ne_of_k hr (by omega) (by omega)) h2⟩

/-- every digit combination is produced by the loop -/
theorem D_mem_genLoop (i j k : Nat) (hi : i < p) (hj : j < q) (hk : k < r) :
    D F g i j k ∈ generateCaseNgrams F g := by
  unfold generateCaseNgrams
  have hrle := hr.le
  -- stage 1: (0,0,k)
  have s1 : D F g 0 0 k = g ∨ (D F g 0 0 k ≠ g ∧ ∃ n, n ≤ 512 ∧ Path F g g (D F g 0 0 k) n) := by
    by_cases hk0 : k = 0
    · subst hk0; exact Or.inl rfl
    · obtain ⟨n, hn, h⟩ := pathC hp hq hr k (by omega) (by omega)
      exact Or.inr ⟨D_ne_of_k hr (by omega) hk, n, by omega, h⟩
  -- stage 2: (0,j,k)
  have s2 : D F g 0 j k = g ∨ (D F g 0 j k ≠ g ∧ ∃ n, n ≤ 576 ∧ Path F g g (D F g 0 j k) n) := by
    by_cases hj0 : j = 0
    · subst hj0
      rcases s1 with e | ⟨hne, n, hn, h1⟩
      · exact Or.inl e
      · exact Or.inr ⟨hne, n, by omega, h1⟩
    · have hqle := hq.le
      obtain ⟨m, hm, h2⟩ := pathB hp hq k j (by omega) hj
      refine Or.inr ⟨D_ne_of_j hq (by omega) hj, ?_⟩
      rcases s1 with e | ⟨hne, n, hn, h1⟩
      · rw [e] at h2; exact ⟨m, by omega, h2⟩
      · exact ⟨n + m, by omega, Path.trans h1 hne h2⟩
  -- stage 3: (i,j,k)
  have s3 : D F g i j k = g ∨ (∃ n, n ≤ 584 ∧ Path F g g (D F g i j k) n) := by
    by_cases hi0 : i = 0
    · subst hi0
      rcases s2 with e | ⟨_, h⟩
      · exact Or.inl e
      · obtain ⟨n, hn, h⟩ := h; exact Or.inr ⟨n, by omega, h⟩
    · have hple := hp.le
      have h3 := pathA hp j k i (by omega) hi
      refine Or.inr ?_
      rcases s2 with e | ⟨hne, n, hn, h1⟩
      · rw [e] at h3; exact ⟨i, by omega, h3⟩
      · exact ⟨n + i, by omega, Path.trans h1 hne h3⟩
  rcases s3 with e | ⟨n, hn, h⟩
  · -- the original trigram itself: it closes the full cycle
    obtain ⟨n, hn, h⟩ := pathC hp hq hr r hr.pos (Nat.le_refl _)
    rw [D_full hr] at h
    rw [e]
    exact h.mem 4096 (by omega)
  · exact h.mem 4096 (by omega)

end paths

/-- every rune has a simple-fold period of at most 8 -/
def FoldCyclic (F : Fold) : Prop := ∀ a, ∃ p, Period F a p

/-- **`generateCaseNgrams` enumerates the product of the three orbits**, for every fold table whose orbits are cycles of
    length ≤ 8 (Go's have length ≤ 4). -/
theorem variantsComplete_of_cyclic (F : Fold) (hc : FoldCyclic F) : VariantsComplete F := by
  intro g t h1 h2 h3
  obtain ⟨p, hp⟩ := hc g.1
  obtain ⟨q, hq⟩ := hc g.2.1
  obtain ⟨r, hr⟩ := hc g.2.2
  obtain ⟨i, hi, e1⟩ := orbit_index hp (List.contains_iff_mem.mp h1)
  obtain ⟨j, hj, e2⟩ := orbit_index hq (List.contains_iff_mem.mp h2)
  obtain ⟨k, hk, e3⟩ := orbit_index hr (List.contains_iff_mem.mp h3)
  have : t = D F g i j k := by
    unfold D
    rw [← e1, ← e2, ← e3]
  rw [this]
  exact List.contains_iff_mem.mpr (D_mem_genLoop hp hq hr i j k hi hj hk)

end ZoektModel.C08
