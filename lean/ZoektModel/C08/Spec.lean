/-
C08 — executable statement: on one shard, the case-insensitive substring form and the equivalent regexp form of a
literal return the same files with the same match ranges.  Core Lean only.
-/
import ZoektModel.C08.Model
namespace ZoektModel.C08

/-- per document: list of `(byteOffset, byteSize)`; a document is returned iff its list is non-empty -/
abbrev Results := List (List (Nat × Nat))

/-- the property on the implementation's outputs for one (pattern, shard): identical results -/
def checkP (substr regex : Results) : Bool := substr == regex

/-- `d` is treated alike by the two paths when compared with pattern rune `c`:
    orbit membership (the regexp's test) coincides with the substring path's test on the lower-cased needle -/
def foldAgree (F : Fold) (c d : Nat) : Bool := (orbit F c).contains d == lowerEq F (F.lower c) d

/-- all pattern/text rune pairs of a case agree -/
def foldAgreeAll (F : Fold) (pat : List Nat) (docs : List (List Nat)) : Bool :=
  pat.all fun c => docs.all fun d => d.all fun x => foldAgree F c x

/-- the engine's report for one document is what simple folding prescribes -/
def engineIdeal (F : Fold) (pat text : List Nat) (spans : List (Nat × Nat)) : Bool := spans == idealEngine F pat text

end ZoektModel.C08
