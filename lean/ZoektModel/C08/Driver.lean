import ZoektModel.Basic.Proto
namespace ZoektModel.C08
/-- stub: no model driver for C08 yet -/
def main : IO Unit := ZoektModel.Proto.runLines (fun _ => ZoektModel.Proto.badCase "no model driver for C08")
end ZoektModel.C08
