import ZoektModel.Basic.Proto
import ZoektModel.C08.Spec
namespace ZoektModel.C08
open ZoektModel ZoektModel.Proto

def parseRunes (s : String) : Option (List Nat) :=
  if s == "-" || s == "" then some [] else (s.splitOn ".").mapM String.toNat?
def showRunes (l : List Nat) : String := if l.isEmpty then "-" else ".".intercalate (l.map toString)

/-- `r:x,r:x` or `-` -/
def parseTab (s : String) : Option (List (Nat × Nat)) :=
  if s == "-" || s == "" then some [] else
  (s.splitOn ",").mapM fun e =>
    match e.splitOn ":" with
    | [a, b] => do pure (← a.toNat?, ← b.toNat?)
    | _ => none

def tabFn (t : List (Nat × Nat)) (r : Nat) : Nat := match t.lookup r with | some x => x | none => r

def foldOf (f l : List (Nat × Nat)) : Fold := ⟨tabFn f, tabFn l⟩

def parseDocs (s : String) : Option (List (List Nat)) := (s.splitOn "|").mapM parseRunes

def showRes (r : Results) : String :=
  "|".intercalate (r.map fun d => if d.isEmpty then "-" else ",".intercalate (d.map fun (o, z) => s!"{o}:{z}"))

def parseRes (s : String) : Option Results :=
  (s.splitOn "|").mapM fun d =>
    if d == "-" || d == "" then some [] else
    (d.splitOn ",").mapM fun e =>
      match e.splitOn ":" with
      | [a, b] => do pure (← a.toNat?, ← b.toNat?)
      | _ => none

def stripPrefix? (p s : String) : Option String :=
  if s.startsWith p then some (s.drop p.length).toString else none

def showTri (t : Tri) : String := s!"{t.1}.{t.2.1}.{t.2.2}"

/-- all selections `first ≤ last` of pattern trigram indices -/
def allSels (n : Nat) : List (Nat × Nat) :=
  (List.range n).flatMap fun a => ((List.range n).filter (a ≤ ·)).map fun b => (a, b)

def modelSearch (F : Fold) (sel : Nat × Nat) (pat : List Nat) (docs : List (List Nat)) (engine : Results) : Results × Results :=
  (docs.map (substrSearch F sel pat docs), (docs.zip engine).map fun (d, e) => regexSearch F sel pat docs d e)

/--
ops (`f=` simpleFold table, `l=` ToLower table; identity where not listed)
  `var <a.b.c> f=…`                       → the variants of `generateCaseNgrams`, in order
  `cfe <pat> <text> <p> f=… l=…`          → `lower=<toLower(pat)> sz=<byteMatchSz> ok=<0|1>` of matchContent at rune offset p
  `rq <fold> <runes>`                      → `substring <runes>` | `regexp`: what `RegexpQuery` builds for a literal regexp
  `search <pat> <doc|doc|…> e=<engine's FindAllIndex per doc> f=… l=…` → `s=<results> r=<results>`: the model's results for the trigram selection that
                                            reproduces the implementation's output (the selection depends on shard statistics),
                                            for selection (0,0) if none does; verdict = checkP on the implementation's output
-/
def handle (line : String) : String :=
  let (inp, impl) := splitCase line
  match fields inp with
  | ["var", t, f] =>
    match parseRunes t, (stripPrefix? "f=" f).bind parseTab with
    | some [a, b, c], some ft =>
      answer (";".intercalate ((generateCaseNgrams (foldOf ft []) (a, b, c)).map showTri))
    | _, _ => badCase "var fields"
  | ["cfe", pat, text, p, f, l] =>
    match parseRunes pat, parseRunes text, p.toNat?, (stripPrefix? "f=" f).bind parseTab, (stripPrefix? "l=" l).bind parseTab with
    | some pat, some text, some p, some ft, some lt =>
      let F := foldOf ft lt
      let r := matchContentCI F pat text p
      answer s!"lower={showRunes (toLower F pat)} sz={r.1} ok={showBool r.2}"
    | _, _, _, _, _ => badCase "cfe fields"
  | ["search", pat, docs, e, f, l] =>
    match parseRunes pat, parseDocs docs, (stripPrefix? "e=" e).bind parseRes, (stripPrefix? "f=" f).bind parseTab,
      (stripPrefix? "l=" l).bind parseTab with
    | some pat, some docs, some engine, some ft, some lt =>
      if engine.length != docs.length then badCase "engine results" else
      let F := foldOf ft lt
      let render := fun (x : Results × Results) => s!"s={showRes x.1} r={showRes x.2}"
      let cands := (allSels (pat.length - 2)).map fun sel => render (modelSearch F sel pat docs engine)
      let model := match cands.find? (· == impl) with
        | some m => m
        | none => cands.headD "?"
      match fields impl with
      | [a, b] =>
        match (stripPrefix? "s=" a).bind parseRes, (stripPrefix? "r=" b).bind parseRes with
        | some s, some r => if checkP s r then answer model else specFail model "substring-vs-regexp-differ"
        | _, _ => badCase "search impl"
      | _ => badCase "search impl fields"
    | _, _, _, _, _ => badCase "search fields"
  | ["rq", fold, rs] =>
    match bool? fold, parseRunes rs with
    | some fold, some rs =>
      answer (match regexpQueryLit fold rs with
        | .substring p => s!"substring {showRunes p}"
        | .regexp => "regexp")
    | _, _ => badCase "rq fields"
  | _ => badCase "op"

def main : IO Unit := runLines handle
end ZoektModel.C08
