/-
C08 model: the case-insensitive substring path
  index/bits.go      : generateCaseNgrams, toLower, caseFoldingEqualsRunes
  index/matchiter.go : candidateMatch.matchContent (case-insensitive branch), ngramDocIterator.candidates (bounds)
  index/indexdata.go : iterateNgrams (every pattern trigram must occur in some case variant; two selected trigrams)
  index/eval.go      : gatherMatches' overlap removal
and the regexp path for the equivalent regexp `(?i)lit…` (index/matchtree.go newMatchTree: regexp engine ∧ the same
substring pre-filter).  Text is valid UTF-8, modelled as code points; byte offsets are computed with `utf8Len`.
`unicode.SimpleFold` and `unicode.ToLower` are parameters (`Fold`).  Core Lean only.
-/
namespace ZoektModel.C08

structure Fold where
  simpleFold : Nat → Nat
  lower : Nat → Nat

abbrev Tri := Nat × Nat × Nat

/-- the orbit of `r` under `simpleFold`: `r, f r, f (f r), …` until back at `r` (at most `fuel` further members) -/
def orbitAux (F : Fold) (start : Nat) : Nat → Nat → List Nat
  | 0, _ => []
  | fuel + 1, cur => if cur == start then [] else cur :: orbitAux F start fuel (F.simpleFold cur)
def orbit (F : Fold) (r : Nat) : List Nat := r :: orbitAux F r 8 (F.simpleFold r)

def utf8Len (r : Nat) : Nat := if r < 0x80 then 1 else if r < 0x800 then 2 else if r < 0x10000 then 3 else 4

/-! ### `generateCaseNgrams` -/

/-- one round of the inner `for i := range 3` loop: advance the odometer -/
def foldStep (F : Fold) (orig cur : Tri) : Tri :=
  let a := F.simpleFold cur.1
  if a != orig.1 then (a, cur.2.1, cur.2.2) else
  let b := F.simpleFold cur.2.1
  if b != orig.2.1 then (a, b, cur.2.2) else
  (a, b, F.simpleFold cur.2.2)

def genLoop (F : Fold) (orig : Tri) : Nat → Tri → List Tri
  | 0, _ => []
  | fuel + 1, cur =>
    let nxt := foldStep F orig cur
    nxt :: (if nxt == orig then [] else genLoop F orig fuel nxt)

/-- `generateCaseNgrams(g)`: the case variants of a trigram, in the order the Go loop produces them -/
def generateCaseNgrams (F : Fold) (g : Tri) : List Tri := genLoop F g 4096 g

/-! ### verification by lower-casing -/

/-- `toLower` on decoded text -/
def toLower (F : Fold) (pat : List Nat) : List Nat := pat.map F.lower

/-- `mb |= 0x20` for `'A'..'Z'` -/
def asciiLower (m : Nat) : Nat := if 65 ≤ m ∧ m ≤ 90 then m + 32 else m

/-- one step of `caseFoldingEqualsRunes`: needle rune `l` (already lower-cased) against text rune `m`:
    ASCII fast path when both are ASCII, `lr == unicode.ToLower(mr)` otherwise -/
def lowerEq (F : Fold) (l m : Nat) : Bool :=
  if l < 128 && m < 128 then l == asciiLower m else l == F.lower m

/-- `caseFoldingEqualsRunes(lower, mixed)` = (byte size of the match in `mixed`, matched) -/
def cfe (F : Fold) : List Nat → List Nat → Nat → Nat × Bool
  | [], _, acc => (acc, true)
  | _ :: _, [], acc => (acc, false)
  | l :: ls, m :: ms, acc => if lowerEq F l m then cfe F ls ms (acc + utf8Len m) else (0, false)

/-- `candidateMatch.matchContent`, case-insensitive: `(byteMatchSz, ok)` for a candidate at rune offset `p` -/
def matchContentCI (F : Fold) (pat text : List Nat) (p : Nat) : Nat × Bool :=
  cfe F (toLower F pat) (text.drop p) 0

/-! ### the two search paths on one document of a shard -/

def tri? (l : List Nat) (i : Nat) : Option Tri :=
  match l.drop i with
  | a :: b :: c :: _ => some (a, b, c)
  | _ => none

def byteOff (text : List Nat) (p : Nat) : Nat := ((text.take p).map utf8Len).sum

/-- the text trigram at `q` is a case variant of the pattern trigram at `k` -/
def triVariantAt (F : Fold) (pat text : List Nat) (k q : Nat) : Bool :=
  match tri? pat k, tri? text q with
  | some g, some t => (generateCaseNgrams F g).contains t
  | _, _ => false

/-- `iterateNgrams`' frequency check: every trigram of the pattern occurs, in some case variant, somewhere in the shard -/
def shardHasAllTrigrams (F : Fold) (pat : List Nat) (docs : List (List Nat)) : Bool :=
  (List.range (pat.length - 2)).all fun k =>
    docs.any fun d => (List.range (d.length - 2)).any fun q => triVariantAt F pat d k q

/-- candidate rune offsets of the trigram (distance) iterator for the selected pattern trigrams `first ≤ last`:
    inside the document, both selected trigrams present in some case variant -/
def candidateAt (F : Fold) (sel : Nat × Nat) (pat text : List Nat) (p : Nat) : Bool :=
  decide (p + pat.length ≤ text.length) &&
  triVariantAt F pat text sel.1 (p + sel.1) && triVariantAt F pat text sel.2 (p + sel.2)

/-- all verified candidates `(byteOffset, byteMatchSz)` of the substring path, in offset order -/
def substrAll (F : Fold) (sel : Nat × Nat) (pat text : List Nat) : List (Nat × Nat) :=
  (List.range (text.length + 1)).filterMap fun p =>
    if candidateAt F sel pat text p then
      let r := matchContentCI F pat text p
      if r.2 then some (byteOff text p, r.1) else none
    else none

/-- `gatherMatches`: candidates sorted by offset; one is kept iff it starts at or after the end of the last kept one -/
def nonOverlapAux : List (Nat × Nat) → Nat → List (Nat × Nat)
  | [], _ => []
  | (o, z) :: rest, lastEnd => if lastEnd ≤ o then (o, z) :: nonOverlapAux rest (o + z) else nonOverlapAux rest lastEnd
def nonOverlap (l : List (Nat × Nat)) : List (Nat × Nat) := nonOverlapAux l 0

/-- the substring form on document `text` of a shard `docs` -/
def substrSearch (F : Fold) (sel : Nat × Nat) (pat : List Nat) (docs : List (List Nat)) (text : List Nat) : List (Nat × Nat) :=
  if shardHasAllTrigrams F pat docs then nonOverlap (substrAll F sel pat text) else []

/-- the meaning of `(?i)` on a literal: rune by rune, the text rune is in the simple-fold orbit of the pattern rune -/
def orbitEqAt (F : Fold) : List Nat → List Nat → Bool
  | [], _ => true
  | _ :: _, [] => false
  | c :: cs, d :: ds => (orbit F c).contains d && orbitEqAt F cs ds

def spanBytes (text : List Nat) (p n : Nat) : Nat := (((text.drop p).take n).map utf8Len).sum

/-- every position at which the regexp `(?i)pat` matches, as `(byteOffset, byteSize)` -/
def regexAll (F : Fold) (pat text : List Nat) : List (Nat × Nat) :=
  (List.range (text.length + 1)).filterMap fun p =>
    if orbitEqAt F pat (text.drop p) then some (byteOff text p, spanBytes text p pat.length) else none

/-- what a regexp engine implementing `(?i)` by simple folding reports for the literal: `FindAllIndex` of a
    fixed-length literal = the leftmost non-overlapping occurrences -/
def idealEngine (F : Fold) (pat text : List Nat) : List (Nat × Nat) := nonOverlap (regexAll F pat text)

/-- the regexp form (`newMatchTree` for a `query.Regexp` that is not a bare literal): the regexp engine's
    `FindAllIndex` on the document (`engine`, a parameter: grafana/regexp on `(?i)` + the printed regexp), on documents
    that also pass the substring pre-filter the match tree conjoins with the regexp -/
def regexSearch (F : Fold) (sel : Nat × Nat) (pat : List Nat) (docs : List (List Nat)) (text : List Nat)
    (engine : List (Nat × Nat)) : List (Nat × Nat) :=
  if (substrSearch F sel pat docs text).isEmpty then [] else engine

/-! ### `newMatchTree` on a literal: which match tree evaluates it -/

/-- the match trees involved: the trigram-based substring tree, the regexp tree for a literal, and the conjunction
    `regexp ∧ (match everything)` that `newMatchTree` builds when the distilled pre-filter is not equivalent -/
inductive MTree where
  | substr (pat : List Nat) (caseSensitive : Bool)
  | regex (pat : List Nat) (fold caseSensitive : Bool)
  | regexAndAll (pat : List Nat) (fold caseSensitive : Bool)
  deriving DecidableEq, Repr

def byteLen (pat : List Nat) : Nat := (pat.map utf8Len).sum

/-- `newSubstringMatchTree`: fewer than 3 runes → a regexp tree for the literal -/
def newSubstringMatchTree (pat : List Nat) (cs : Bool) : MTree :=
  if pat.length < 3 then .regex pat false cs else .substr pat cs

/-- `newMatchTree` for `query.Substring` -/
def treeOfSubstring (pat : List Nat) (cs : Bool) : MTree := newSubstringMatchTree pat cs

/-- `newMatchTree` for a `query.Regexp` whose tree is the literal `rs` with FoldCase flag `fold`
    (`regexpToMatchTreeRecursive`: at least 3 *bytes* → the substring tree, marked equivalent and used alone) -/
def treeOfRegexpLit (rs : List Nat) (fold cs : Bool) : MTree :=
  if byteLen rs ≥ 3 then newSubstringMatchTree rs (!fold && cs) else .regexAndAll rs fold cs

/-! ### `query.RegexpQuery`: the literal-regexp → substring optimisation -/

/-- what `RegexpQuery` builds for an optimised regexp that is a literal with runes `rs` and `FoldCase` flag `fold` -/
inductive QAtom where
  | substring (pat : List Nat)
  | regexp
  deriving DecidableEq, Repr

/-- only a literal *without* the FoldCase flag becomes a `query.Substring`; `(?i)lit` stays a `query.Regexp`
    (the fixed code; before the fix every literal became a Substring holding the upper-cased runes) -/
def regexpQueryLit (fold : Bool) (rs : List Nat) : QAtom := if fold then .regexp else .substring rs

/-- `regexpToMatchTreeRecursive` on a literal: `CaseSensitive: !ignoreCase && caseSensitive` -/
def litCaseSensitive (fold qcase : Bool) : Bool := !fold && qcase

/-- the case sensitivity with which the literal is finally searched, `qcase` being the query's case setting -/
def atomCaseSensitive (fold qcase : Bool) : Bool :=
  match regexpQueryLit fold [] with
  | .substring _ => qcase
  | .regexp => litCaseSensitive fold qcase

end ZoektModel.C08
