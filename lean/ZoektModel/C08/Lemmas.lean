/-
C08 lemmas: under rune-wise agreement of orbit membership and the lower-casing test, verification by
`caseFoldingEqualsRunes` decides exactly the regexp's `(?i)` literal match, with the same byte size; an orbit-equal
occurrence always passes the trigram pre-filter (given that `generateCaseNgrams` enumerates the orbit product).
-/
import ZoektModel.C08.Spec
namespace ZoektModel.C08

variable {F : Fold}

/-- `generateCaseNgrams` enumerates (at least) the product of the three orbits — the role the function has in the
    design; validated against the real function and Go's tables on every run -/
def VariantsComplete (F : Fold) : Prop :=
  ∀ g t : Tri, (orbit F g.1).contains t.1 = true → (orbit F g.2.1).contains t.2.1 = true →
    (orbit F g.2.2).contains t.2.2 = true → (generateCaseNgrams F g).contains t = true

/-- pattern rune `c` and every rune of `m` are treated alike by the two paths -/
def AgreeOn (F : Fold) (pat m : List Nat) : Prop := ∀ c ∈ pat, ∀ x ∈ m, foldAgree F c x = true

theorem foldAgree_eq {c x : Nat} (h : foldAgree F c x = true) : lowerEq F (F.lower c) x = (orbit F c).contains x := by
  unfold foldAgree at h
  exact (beq_iff_eq.mp h).symm

theorem cfe_ok (pat : List Nat) : ∀ (m : List Nat) (acc : Nat), AgreeOn F pat m →
    (cfe F (pat.map F.lower) m acc).2 = orbitEqAt F pat m := by
  induction pat with
  | nil => intro m acc _; simp [cfe, orbitEqAt]
  | cons c cs ih =>
    intro m acc h
    cases m with
    | nil => simp [cfe, orbitEqAt]
    | cons d ds =>
      simp only [List.map_cons, cfe, orbitEqAt]
      rw [foldAgree_eq (h c List.mem_cons_self d List.mem_cons_self)]
      cases hc : (orbit F c).contains d
      · simp
      · simp only [if_true, Bool.true_and]
        exact ih ds _ (fun c' hc' x hx => h c' (List.mem_cons_of_mem _ hc') x (List.mem_cons_of_mem _ hx))

theorem cfe_size (pat : List Nat) : ∀ (m : List Nat) (acc : Nat), AgreeOn F pat m → orbitEqAt F pat m = true →
    (cfe F (pat.map F.lower) m acc).1 = acc + ((m.take pat.length).map utf8Len).sum := by
  induction pat with
  | nil => intro m acc _ _; simp [cfe]
  | cons c cs ih =>
    intro m acc h ho
    cases m with
    | nil => simp [orbitEqAt] at ho
    | cons d ds =>
      simp only [orbitEqAt, Bool.and_eq_true] at ho
      simp only [List.map_cons, cfe, List.length_cons, List.take_succ_cons, List.sum_cons]
      rw [foldAgree_eq (h c List.mem_cons_self d List.mem_cons_self), ho.1]
      simp only [if_true]
      rw [ih ds _ (fun c' hc' x hx => h c' (List.mem_cons_of_mem _ hc') x (List.mem_cons_of_mem _ hx)) ho.2]
      omega

theorem orbitEqAt_length : ∀ (pat m : List Nat), orbitEqAt F pat m = true → pat.length ≤ m.length
  | [], _, _ => by simp
  | _ :: _, [], h => by simp [orbitEqAt] at h
  | _ :: cs, _ :: ds, h => by
    simp only [orbitEqAt, Bool.and_eq_true] at h
    have := orbitEqAt_length cs ds h.2
    simp only [List.length_cons]; omega

/-- an orbit-equal occurrence carries every pattern trigram to a text trigram in the orbit product -/
theorem orbitEqAt_tri : ∀ (k : Nat) (pat m : List Nat) (g : Tri), orbitEqAt F pat m = true → tri? pat k = some g →
    ∃ t, tri? m k = some t ∧ (orbit F g.1).contains t.1 = true ∧ (orbit F g.2.1).contains t.2.1 = true ∧
      (orbit F g.2.2).contains t.2.2 = true
  | 0, pat, m, g, h, hg => by
    unfold tri? at hg
    simp only [List.drop_zero] at hg
    match pat, hg with
    | a :: b :: c :: rest, hg =>
      simp only [Option.some.injEq] at hg
      subst hg
      match m, h with
      | x :: y :: z :: _, h =>
        simp only [orbitEqAt, Bool.and_eq_true] at h
        exact ⟨(x, y, z), by simp [tri?], h.1, h.2.1, h.2.2.1⟩
      | [], h => simp [orbitEqAt] at h
      | [_], h => simp [orbitEqAt] at h
      | [_, _], h => simp [orbitEqAt] at h
  | k + 1, pat, m, g, h, hg => by
    match pat, m, h, hg with
    | [], _, _, hg => simp [tri?] at hg
    | _ :: _, [], h, _ => simp [orbitEqAt] at h
    | a :: pat', x :: m', h, hg =>
      simp only [orbitEqAt, Bool.and_eq_true] at h
      have hg' : tri? pat' k = some g := by simpa [tri?] using hg
      obtain ⟨t, ht, h1⟩ := orbitEqAt_tri k pat' m' g h.2 hg'
      exact ⟨t, by simpa [tri?] using ht, h1⟩

theorem tri?_drop (l : List Nat) (p k : Nat) : tri? (l.drop p) k = tri? l (p + k) := by
  simp [tri?, List.drop_drop]

theorem tri?_some_of_le (pat : List Nat) (k : Nat) (h : k + 3 ≤ pat.length) : ∃ g, tri? pat k = some g := by
  unfold tri?
  have hl : (pat.drop k).length = pat.length - k := List.length_drop
  match hd : pat.drop k with
  | a :: b :: c :: _ => exact ⟨_, rfl⟩
  | [] => rw [hd] at hl; simp at hl; omega
  | [_] => rw [hd] at hl; simp at hl; omega
  | [_, _] => rw [hd] at hl; simp at hl; omega

theorem triVariantAt_of_orbitEq (hv : VariantsComplete F) (pat text : List Nat) (p k : Nat)
    (h : orbitEqAt F pat (text.drop p) = true) (hk : k + 3 ≤ pat.length) :
    triVariantAt F pat text k (p + k) = true := by
  obtain ⟨g, hg⟩ := tri?_some_of_le pat k hk
  obtain ⟨t, ht, h1, h2, h3⟩ := orbitEqAt_tri k pat (text.drop p) g h hg
  rw [tri?_drop] at ht
  unfold triVariantAt
  rw [hg, ht]
  exact hv g t h1 h2 h3

theorem candidateAt_of_orbitEq (hv : VariantsComplete F) (sel : Nat × Nat) (pat text : List Nat) (p : Nat)
    (h1 : sel.1 + 3 ≤ pat.length) (h2 : sel.2 + 3 ≤ pat.length)
    (h : orbitEqAt F pat (text.drop p) = true) : candidateAt F sel pat text p = true := by
  unfold candidateAt
  have hl := orbitEqAt_length pat (text.drop p) h
  rw [List.length_drop] at hl
  simp only [Bool.and_eq_true, decide_eq_true_eq]
  exact ⟨⟨by omega, triVariantAt_of_orbitEq hv pat text p sel.1 h h1⟩, triVariantAt_of_orbitEq hv pat text p sel.2 h h2⟩

theorem agreeOn_drop {pat text : List Nat} (h : AgreeOn F pat text) (p : Nat) : AgreeOn F pat (text.drop p) :=
  fun c hc x hx => h c hc x (List.mem_of_mem_drop hx)

theorem filterMap_congr' {α β} {f g : α → Option β} : ∀ l : List α, (∀ x ∈ l, f x = g x) → l.filterMap f = l.filterMap g
  | [], _ => rfl
  | a :: l, h => by
    simp only [List.filterMap_cons]
    rw [h a List.mem_cons_self, filterMap_congr' l (fun x hx => h x (List.mem_cons_of_mem _ hx))]

/-- **the substring path's verified candidates are exactly the regexp's match positions, with the same sizes** -/
theorem substrAll_eq_regexAll (hv : VariantsComplete F) (sel : Nat × Nat) (pat text : List Nat)
    (h1 : sel.1 + 3 ≤ pat.length) (h2 : sel.2 + 3 ≤ pat.length) (ha : AgreeOn F pat text) :
    substrAll F sel pat text = regexAll F pat text := by
  unfold substrAll regexAll
  apply filterMap_congr'
  intro p _
  have hag := agreeOn_drop ha p
  have hok := cfe_ok pat (text.drop p) 0 hag
  cases ho : orbitEqAt F pat (text.drop p)
  · have : (matchContentCI F pat text p).2 = false := by unfold matchContentCI toLower; rw [hok, ho]
    simp [this]
  · have hc := candidateAt_of_orbitEq hv sel pat text p h1 h2 ho
    have h2' : (matchContentCI F pat text p).2 = true := by unfold matchContentCI toLower; rw [hok, ho]
    have h1' : (matchContentCI F pat text p).1 = spanBytes text p pat.length := by
      unfold matchContentCI toLower spanBytes
      rw [cfe_size pat (text.drop p) 0 hag ho]; omega
    simp [hc, h2', h1']

end ZoektModel.C08
