import ZoektModel.Basic.Proto
import ZoektModel.C13.Spec
import ZoektModel.C13.Sharded
namespace ZoektModel.C13
open ZoektModel ZoektModel.Proto

/-- tree: `path:blob:mode` separated by `,`; `-` = empty -/
def parseTree (s : String) : Option Tree :=
  if s == "-" then some [] else
  (s.splitOn ",").mapM fun e =>
    match e.splitOn ":" with
    | [p, x, m] => do pure (← p.toNat?, ⟨← x.toNat?, ← m.toNat?⟩)
    | _ => none

def parsePairs (s : String) : Option (List (Path × Blob)) :=
  if s == "-" then some [] else
  (s.splitOn ",").mapM fun e =>
    match e.splitOn ":" with
    | [p, x] => do pure (← p.toNat?, ← x.toNat?)
    | _ => none

def insertSorted (lt : α → α → Bool) (a : α) : List α → List α
  | [] => [a]
  | b :: r => if lt a b then a :: b :: r else b :: insertSorted lt a r

def sortBy (lt : α → α → Bool) (l : List α) : List α := l.foldr (insertSorted lt) []

def dedupSorted [BEq α] : List α → List α
  | [] => []
  | [a] => [a]
  | a :: b :: r => if a == b then dedupSorted (b :: r) else a :: dedupSorted (b :: r)

def natSet (l : List Nat) : List Nat := dedupSorted (sortBy (· < ·) l)

def pairLt (a b : Nat × Nat) : Bool := a.1 < b.1 || (a.1 == b.1 && a.2 < b.2)

/-- `p:x:b1+b2` entries sorted by (path, blob); branch lists as sorted sets -/
def showFiles (m : Files) : String :=
  let ds := sortBy (fun a b => pairLt (a.path, a.blob) (b.path, b.blob)) m
  showList (fun d => s!"{d.path}:{d.blob}:{"+".intercalate ((natSet d.branches).map toString)}") ds

def showPairs (v : List (Path × Blob)) : String :=
  showList (fun e => s!"{e.1}:{e.2}") (sortBy pairLt v)

structure St where
  repo : Repo
  idx : Index
  igp : Path                       -- path id of `.sourcegraph/ignore`
  tbl : List (Blob × List Path)    -- ignore-file blob ↦ the paths it excludes (computed by the real matcher)

def St.init (igp : Path) : St := ⟨[], Index.empty, igp, []⟩

/-- the ignore matcher of a tree: looked up by the blob of its ignore file; no file, no exclusions -/
def St.ignore (st : St) : Ignore :=
  ⟨st.igp, fun t p =>
    match fget t st.igp with
    | some e => ((st.tbl.lookup e.blob).getD []).contains p
    | none => false⟩

/--
ops (one history per `reset`):
  reset <ignore path id>
  igdef <blob> <paths>               the ignore file with this blob excludes these paths
  commit <b> <tree>
  index <delta 0|1> <thr> <brs> <cuts> impl/model: `delta|full files=… changed=… shards=<n>`
  view <b>                           impl: (path:blob) pairs the real branch-restricted search returned;
                                     model: its own view; verdict: `checkView` of the implementation's view
-/
def stepLine (st : St) (line : String) : St × String :=
  let (inp, impl) := splitCase line
  match fields inp with
  | ["reset", igp] =>
    match igp.toNat? with
    | some igp => (St.init igp, answer "ok")
    | none => (st, badCase "reset fields")
  | ["igdef", x, ps] =>
    match x.toNat?, natList? ps with
    | some x, some ps => ({ st with tbl := (x, ps) :: st.tbl }, answer "ok")
    | _, _ => (st, badCase "igdef fields")
  | ["commit", b, t] =>
    match b.toNat?, parseTree t with
    | some b, some t => ({ st with repo := (b, t) :: st.repo }, answer "ok")
    | _, _ => (st, badCase "commit fields")
  | ["index", d, thr, brs, cuts] =>
    match bool? d, thr.toNat?, natList? brs, natList? cuts with
    | some d, some thr, some brs, some cuts =>
      let I := st.ignore
      let isDelta := d && deltaOk st.idx thr brs && !mixedChange diffTrees st.idx.snap st.repo st.idx.brs &&
        !ignoreBlocksDelta I diffTrees st.idx.snap st.repo st.idx.brs
      -- `cuts`: the document counts of the shards the real run wrote (all but the last)
      let idx' := indexRunS I diffTrees st.idx st.repo d thr brs cuts
      let out :=
        if isDelta then
          let res := prepareDelta diffTrees st.idx.snap st.repo st.idx.brs
          s!"delta files={showFiles res.1} changed={showNatList (natSet res.2)} shards={idx'.shards.length}"
        else
          s!"full files={showFiles (collect I st.repo brs)} changed=- shards={idx'.shards.length}"
      ({ st with idx := idx' }, answer out)
    | _, _, _, _ => (st, badCase "index fields")
  | ["view", b] =>
    match b.toNat?, parsePairs impl with
    | some b, some iv =>
      let mv := showPairs (st.idx.view b)
      let t := head st.repo b
      if checkView t (st.ignore.ig t) iv then (st, answer mv) else (st, specFail mv "view-ne-head")
    | _, _ => (st, badCase "view fields")
  | _ => (st, badCase "op")

def main : IO Unit := runState (St.init 0) stepLine
end ZoektModel.C13
