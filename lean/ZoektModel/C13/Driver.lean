import ZoektModel.Basic.Proto
namespace ZoektModel.C13
/-- stub: no model driver for C13 yet -/
def main : IO Unit := ZoektModel.Proto.runLines (fun _ => ZoektModel.Proto.badCase "no model driver for C13")
end ZoektModel.C13
