/-
C13 — model of delta indexing of a Git repository:

* `gitindex/tree.go` `RepoWalker.handleEntry` folded over a tree walk (`collect`, the full build, with the
  tree's ignore matcher as an uninterpreted function of the tree — its meaning is C14's subject),
* `gitindex/index.go` `prepareDeltaBuild` (`prepareDelta`, `applyChange`, `addAllBranches`), including its
  fall-backs to a normal build (no shards, shard-number threshold, branch names differ, an ignore file present
  or touched, a file swapped with a submodule link),
* `index/builder.go` `Builder.Finish` for `IsDelta` (`deltaBuild`: changed paths are added to the tombstones of
  every older shard, the recorded branch versions are replaced, a new shard is stacked unless it would be empty),
* `index/eval.go` `indexData.Search`'s `FileTombstones` skip and the branch filter (`Shard.cnt`, `Shard.view`).

Abstraction: a commit is the tree it points to; a tree is an association list path ↦ (blob, mode) with distinct
paths, whose leaves are files (regular, executable, symlink) or submodule links (mode 3, never indexed: submodule
indexing is rejected for delta builds); paths, blobs and branch names are numbers (interned by the harness).  Go's maps `repos` / `rw.Files`
are association lists keyed by (path, blob).  A build writes one shard (ShardMax is not reached).
-/
namespace ZoektModel.C13

abbrev Path := Nat
abbrev Blob := Nat
abbrev Branch := Nat

/-- a leaf of a tree: object hash and mode (0 regular, 1 executable, 2 symlink; 3 = submodule link, not a file) -/
structure Ent where
  blob : Blob
  mode : Nat
  deriving Repr, DecidableEq, BEq

/-- go-git's `FileMode.IsFile` on the leaves that occur -/
def Ent.isFile (e : Ent) : Bool := e.mode != 3

/-- an entry as a file: what `Change.Files` / `Tree.File` give (nil / ErrFileNotFound for a submodule link) -/
def fileSide : Option Ent → Option Ent
  | some e => if e.isFile then some e else none
  | none => none

abbrev Tree := List (Path × Ent)

/-- `tree.File(path)` / `FindEntry` -/
def tget : Tree → Path → Option Ent
  | [], _ => none
  | (q, e) :: r, p => if q = p then some e else tget r p

/-- `tree.File(path)`: the file at `p`, if there is one -/
def fget (t : Tree) (p : Path) : Option Ent := fileSide (tget t p)

/-- content of the file at `p` -/
def fblob (t : Tree) (p : Path) : Option Blob := (fget t p).map (·.blob)

/-- repository state: the most recent commit of each branch first -/
abbrev Repo := List (Branch × Tree)

/-- tree of the head commit of branch `b` (empty for a branch without commits) -/
def head : Repo → Branch → Tree
  | [], _ => []
  | (c, t) :: r, b => if c = b then t else head r b

/-- one indexed document: `fileKey{Path, ID}` with its `BlobLocation.Branches` -/
structure Doc where
  path : Path
  blob : Blob
  branches : List Branch
  deriving Repr, DecidableEq, BEq

/-- Go's `map[fileKey]BlobLocation`, in insertion order -/
abbrev Files := List Doc

/-- `if existing, ok := m[key]; ok { existing.Branches = append(existing.Branches, b) } else { m[key] = {Branches: [b]} }` -/
def addBranch : Files → Path → Blob → Branch → Files
  | [], p, x, b => [⟨p, x, [b]⟩]
  | d :: r, p, x, b =>
    if d.path = p ∧ d.blob = x then ⟨d.path, d.blob, d.branches ++ [b]⟩ :: r
    else d :: addBranch r p x b

/-- the ignore file: its path, and which paths the ignore file of a tree excludes (`newIgnoreMatcher(tree)` then
    `Matcher.Match`; a tree without a file at `path` excludes nothing — hypothesis `Ignore.WF` of the theorems) -/
structure Ignore where
  path : Path
  ig : Tree → Path → Bool

/-- `CollectFiles` for one branch: `handleEntry` over every file entry of the tree -/
def collectTree (I : Ignore) (m : Files) (b : Branch) (t : Tree) : Files :=
  t.foldl (fun m e => if e.2.isFile && !I.ig t e.1 then addBranch m e.1 e.2.blob b else m) m

/-- `prepareNormalBuild`: all branches, in order, into one map -/
def collect (I : Ignore) (r : Repo) (brs : List Branch) : Files :=
  brs.foldl (fun m b => collectTree I m b (head r b)) []

/-- one element of go-git's tree diff without rename detection: `c.From` / `c.To` as files -/
structure Change where
  path : Path
  old : Option Ent
  new : Option Ent
  deriving Repr, DecidableEq

/-- exact tree diff: deletions and modifications in the order of the old tree, then insertions -/
def diffTrees (o n : Tree) : List Change :=
  (o.filterMap fun e => if tget n e.1 = some e.2 then none else some ⟨e.1, some e.2, tget n e.1⟩) ++
  (n.filterMap fun e => if tget o e.1 = none then some ⟨e.1, none, some e.2⟩ else none)

/-- body of `for b, currentTree := range branchToCurrentTree`: `currentTree.File(path)`, skip if not found -/
def addOneBranch (r : Repo) (p : Path) (m : Files) (b : Branch) : Files :=
  match fget (head r b) p with
  | some e => addBranch m p e.blob b
  | none => m

/-- "add ALL versions of the old file (across all branches) to the build" -/
def addAllBranches (r : Repo) (brs : List Branch) (m : Files) (p : Path) : Files :=
  brs.foldl (addOneBranch r p) m

/-- body of `for i, c := range changes` in `prepareDeltaBuild`, for the diff of branch `b` -/
def applyChange (r : Repo) (brs : List Branch) (b : Branch) (st : Files × List Path) (c : Change) :
    Files × List Path :=
  let m := match fileSide c.new with
    | some e => addBranch st.1 c.path e.blob b
    | none => st.1
  match fileSide c.old with
  | none => (m, st.2)
  | some _ => (addAllBranches r brs m c.path, st.2 ++ [c.path])

/-- `prepareDeltaBuild` after its checks: for every recorded branch, diff the recorded tree against the current one -/
def prepareDelta (diff : Tree → Tree → List Change) (snap r : Repo) (brs : List Branch) : Files × List Path :=
  brs.foldl (fun st b => (diff (head snap b) (head r b)).foldl (applyChange r brs b) st) ([], [])

structure Shard where
  docs : Files
  tombs : List Path
  deriving Repr, DecidableEq

/-- the index directory of one repository: shards oldest first, and what `Repository.Branches` records
    (branch names in order; the commit of each, represented by the repository state at indexing time) -/
structure Index where
  shards : List Shard
  brs : List Branch
  snap : Repo
  deriving Repr

def Index.empty : Index := ⟨[], [], []⟩

/-- a normal build replaces every shard -/
def fullBuild (I : Ignore) (r : Repo) (brs : List Branch) : Index :=
  ⟨[⟨collect I r brs, []⟩], brs, r⟩

/-- `Builder.Finish` with `IsDelta`: tombstones into every older shard, versions updated, new shard stacked
    (`flush` writes no shard when there is nothing to add and a shard already exists) -/
def deltaBuild (diff : Tree → Tree → List Change) (idx : Index) (r : Repo) : Index :=
  let res := prepareDelta diff idx.snap r idx.brs
  ⟨idx.shards.map (fun s => ⟨s.docs, s.tombs ++ res.2⟩) ++ (if res.1.isEmpty then [] else [⟨res.1, []⟩]),
   idx.brs, r⟩

/-- a modification with a file on one side and a submodule link on the other: `Change.Files` returns neither
    side; `prepareDeltaBuild` (after the fix) reports it as an error, i.e. falls back to a normal build -/
def Change.mixed (c : Change) : Bool :=
  match c.old, c.new with
  | some o, some n => o.isFile != n.isFile
  | _, _ => false

def mixedChange (diff : Tree → Tree → List Change) (snap r : Repo) (brs : List Branch) : Bool :=
  brs.any fun b => (diff (head snap b) (head r b)).any Change.mixed

/-- ignore files are not supported in delta builds: a current tree with an ignore file (after the fix), or a
    change whose old or new file is the ignore file, makes `prepareDeltaBuild` fail -/
def ignoreBlocksDelta (I : Ignore) (diff : Tree → Tree → List Change) (snap r : Repo) (brs : List Branch) : Bool :=
  brs.any (fun b => (fget (head r b) I.path).isSome) ||
  brs.any (fun b => (diff (head snap b) (head r b)).any fun c =>
    c.path == I.path && ((fileSide c.old).isSome || (fileSide c.new).isSome))

/-- does a requested delta build go ahead?  (`prepareDeltaBuild`'s fall-backs that involve only the index state) -/
def deltaOk (idx : Index) (thr : Nat) (brs : List Branch) : Bool :=
  !idx.shards.isEmpty && !(thr > 0 && idx.shards.length > thr) && idx.brs == brs

/-- one `IndexGitRepo` run -/
def indexRun (I : Ignore) (diff : Tree → Tree → List Change) (idx : Index) (r : Repo) (delta : Bool) (thr : Nat)
    (brs : List Branch) : Index :=
  if delta && deltaOk idx thr brs && !mixedChange diff idx.snap r idx.brs &&
      !ignoreBlocksDelta I diff idx.snap r idx.brs then deltaBuild diff idx r
  else fullBuild I r brs

/-- number of documents of `m` with path `p`, content `x`, on branch `b` -/
def cntFiles (m : Files) (b : Branch) (p : Path) (x : Blob) : Nat :=
  m.countP fun d => d.path = p ∧ d.blob = x ∧ b ∈ d.branches

/-- what a search restricted to branch `b` sees of one shard: path-tombstoned documents are skipped -/
def Shard.cnt (s : Shard) (b : Branch) (p : Path) (x : Blob) : Nat :=
  if p ∈ s.tombs then 0 else cntFiles s.docs b p x

def Index.cnt (idx : Index) (b : Branch) (p : Path) (x : Blob) : Nat :=
  (idx.shards.map fun s => s.cnt b p x).sum

/-- the documents a search restricted to branch `b` returns (path, content), shard by shard -/
def Shard.view (s : Shard) (b : Branch) : List (Path × Blob) :=
  (s.docs.filter fun d => !(s.tombs.contains d.path) && d.branches.contains b).map fun d => (d.path, d.blob)

def Index.view (idx : Index) (b : Branch) : List (Path × Blob) :=
  idx.shards.flatMap fun s => s.view b

/-- histories: commits (any new tree for a branch: add, modify, delete, rename, revert, chmod …) and indexing runs -/
inductive Ev where
  | commit (b : Branch) (t : Tree)
  | index (delta : Bool) (thr : Nat) (brs : List Branch)
  deriving Repr

def step (I : Ignore) (diff : Tree → Tree → List Change) : Repo × Index → Ev → Repo × Index
  | (r, idx), .commit b t => ((b, t) :: r, idx)
  | (r, idx), .index d thr brs => (r, indexRun I diff idx r d thr brs)

def runHistory (I : Ignore) (diff : Tree → Tree → List Change) (evs : List Ev) : Repo × Index :=
  evs.foldl (step I diff) ([], Index.empty)

end ZoektModel.C13
