/-
C13 — builds that spread their documents over several shards (`ShardMax`): the same runs as in Model.lean, with an
arbitrary list of cut sizes per run.  (A normal build always writes at least one shard; a delta build with nothing
to add writes none.)
-/
import ZoektModel.C13.Model
namespace ZoektModel.C13

/-- cut a document list into consecutive pieces of the given sizes; what is left goes into the last piece -/
def splitDocs : List Nat → Files → List Files
  | [], m => [m]
  | n :: ns, m => if m.length ≤ n then [m] else m.take n :: splitDocs ns (m.drop n)

def fullBuildS (I : Ignore) (r : Repo) (brs : List Branch) (cuts : List Nat) : Index :=
  ⟨(splitDocs cuts (collect I r brs)).map (fun d => ⟨d, []⟩), brs, r⟩

def deltaBuildS (diff : Tree → Tree → List Change) (idx : Index) (r : Repo) (cuts : List Nat) : Index :=
  let res := prepareDelta diff idx.snap r idx.brs
  ⟨idx.shards.map (fun s => ⟨s.docs, s.tombs ++ res.2⟩) ++
     (if res.1.isEmpty then [] else (splitDocs cuts res.1).map (fun d => ⟨d, []⟩)),
   idx.brs, r⟩

def indexRunS (I : Ignore) (diff : Tree → Tree → List Change) (idx : Index) (r : Repo) (delta : Bool) (thr : Nat)
    (brs : List Branch) (cuts : List Nat) : Index :=
  if delta && deltaOk idx thr brs && !mixedChange diff idx.snap r idx.brs &&
      !ignoreBlocksDelta I diff idx.snap r idx.brs then deltaBuildS diff idx r cuts
  else fullBuildS I r brs cuts

inductive EvS where
  | commit (b : Branch) (t : Tree)
  | index (delta : Bool) (thr : Nat) (brs : List Branch) (cuts : List Nat)
  deriving Repr

def stepS (I : Ignore) (diff : Tree → Tree → List Change) : Repo × Index → EvS → Repo × Index
  | (r, idx), .commit b t => ((b, t) :: r, idx)
  | (r, idx), .index d thr brs cuts => (r, indexRunS I diff idx r d thr brs cuts)

def runHistoryS (I : Ignore) (diff : Tree → Tree → List Change) (evs : List EvS) : Repo × Index :=
  evs.foldl (stepS I diff) ([], Index.empty)

end ZoektModel.C13
