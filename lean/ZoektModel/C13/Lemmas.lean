/-
C13 — lemmas: the (path, blob) ↦ branches maps as association lists with distinct keys, what `collect` and
`prepareDelta` put into them, and how counts behave under tombstoning.
-/
import ZoektModel.C13.Spec
namespace ZoektModel.C13

/-- document (p, x) of `m` lists branch `b` -/
def Has (m : Files) (b : Branch) (p : Path) (x : Blob) : Prop :=
  ∃ d ∈ m, d.path = p ∧ d.blob = x ∧ b ∈ d.branches

instance (m : Files) (b : Branch) (p : Path) (x : Blob) : Decidable (Has m b p x) := by
  unfold Has; infer_instance

/-- keys (path, blob) are distinct: a Go map has one entry per key -/
def KeysPW (m : Files) : Prop :=
  m.Pairwise fun d d' => ¬(d.path = d'.path ∧ d.blob = d'.blob)

theorem has_nil (b : Branch) (p : Path) (x : Blob) : ¬ Has [] b p x := by
  simp [Has]

theorem has_cons (d : Doc) (m : Files) (b : Branch) (p : Path) (x : Blob) :
    Has (d :: m) b p x ↔ (d.path = p ∧ d.blob = x ∧ b ∈ d.branches) ∨ Has m b p x := by
  simp [Has]

theorem has_addBranch (m : Files) (p : Path) (x : Blob) (b b' : Branch) (p' : Path) (x' : Blob) :
    Has (addBranch m p x b) b' p' x' ↔ Has m b' p' x' ∨ (p' = p ∧ x' = x ∧ b' = b) := by
  induction m with
  | nil => simp [addBranch, Has]; grind
  | cons d r ih =>
    unfold addBranch
    by_cases h : d.path = p ∧ d.blob = x
    · rw [if_pos h, has_cons, has_cons]
      simp only [List.mem_append, List.mem_singleton]
      grind
    · rw [if_neg h, has_cons, has_cons, ih]
      grind

theorem key_of_mem_addBranch (m : Files) (p : Path) (x : Blob) (b : Branch) (d : Doc)
    (hd : d ∈ addBranch m p x b) : (d.path = p ∧ d.blob = x) ∨ ∃ d' ∈ m, d'.path = d.path ∧ d'.blob = d.blob := by
  induction m with
  | nil => simp [addBranch] at hd; subst hd; simp
  | cons e r ih =>
    unfold addBranch at hd
    by_cases h : e.path = p ∧ e.blob = x
    · rw [if_pos h] at hd
      rcases List.mem_cons.mp hd with rfl | hd
      · left; exact h
      · right; exact ⟨d, by simp [hd], rfl, rfl⟩
    · rw [if_neg h] at hd
      rcases List.mem_cons.mp hd with rfl | hd
      · right; exact ⟨d, by simp, rfl, rfl⟩
      · rcases ih hd with h1 | ⟨d', hd', h2⟩
        · left; exact h1
        · right; exact ⟨d', by simp [hd'], h2⟩

theorem keys_addBranch (m : Files) (p : Path) (x : Blob) (b : Branch) (h : KeysPW m) :
    KeysPW (addBranch m p x b) := by
  induction m with
  | nil => simp [addBranch, KeysPW]
  | cons e r ih =>
    unfold KeysPW at h
    rw [List.pairwise_cons] at h
    unfold addBranch
    by_cases hk : e.path = p ∧ e.blob = x
    · rw [if_pos hk]
      unfold KeysPW
      rw [List.pairwise_cons]
      exact ⟨fun d' hd' => h.1 d' hd', h.2⟩
    · rw [if_neg hk]
      unfold KeysPW
      rw [List.pairwise_cons]
      refine ⟨?_, ih h.2⟩
      intro d' hd'
      rcases key_of_mem_addBranch r p x b d' hd' with h1 | ⟨d'', hd'', h2⟩
      · intro hc; exact hk ⟨hc.1.trans h1.1, hc.2.trans h1.2⟩
      · intro hc; exact h.1 d'' hd'' ⟨hc.1.trans h2.1.symm, hc.2.trans h2.2.symm⟩

/-- with distinct keys, the number of documents (p, x) on branch `b` is 1 or 0 -/
theorem cntFiles_eq (m : Files) (h : KeysPW m) (b : Branch) (p : Path) (x : Blob) :
    cntFiles m b p x = if Has m b p x then 1 else 0 := by
  induction m with
  | nil => simp [cntFiles, Has]
  | cons d r ih =>
    unfold KeysPW at h
    rw [List.pairwise_cons] at h
    have ih := ih h.2
    unfold cntFiles at ih ⊢
    rw [List.countP_cons, ih]
    by_cases hd : d.path = p ∧ d.blob = x ∧ b ∈ d.branches
    · have hno : ¬ Has r b p x := by
        rintro ⟨d', hd', h1, h2, _⟩
        exact h.1 d' hd' ⟨hd.1.trans h1.symm, hd.2.1.trans h2.symm⟩
      have hyes : Has (d :: r) b p x := (has_cons ..).mpr (Or.inl hd)
      simp [hno, hyes, hd]
    · have : Has (d :: r) b p x ↔ Has r b p x := by rw [has_cons]; simp [hd]
      simp only [this]
      simp [hd]

/-! trees -/

theorem tget_of_mem (t : Tree) (h : TreeWF t) (p : Path) (e : Ent) (hm : (p, e) ∈ t) : tget t p = some e := by
  induction t with
  | nil => simp at hm
  | cons a r ih =>
    obtain ⟨q, f⟩ := a
    unfold TreeWF at h
    simp only [List.map_cons, List.nodup_cons] at h
    unfold tget
    rcases List.mem_cons.mp hm with heq | hm
    · cases heq; simp
    · have : q ≠ p := by
        intro hqp; subst hqp
        exact h.1 (List.mem_map.mpr ⟨(q, e), hm, rfl⟩)
      rw [if_neg this]
      exact ih h.2 hm

theorem mem_of_tget (t : Tree) (p : Path) (e : Ent) (h : tget t p = some e) : (p, e) ∈ t := by
  induction t with
  | nil => simp [tget] at h
  | cons a r ih =>
    obtain ⟨q, f⟩ := a
    unfold tget at h
    by_cases hq : q = p
    · rw [if_pos hq] at h; cases h; subst hq; simp
    · rw [if_neg hq] at h; exact List.mem_cons_of_mem _ (ih h)

theorem fblob_eq_some (t : Tree) (p : Path) (x : Blob) :
    fblob t p = some x ↔ ∃ e, tget t p = some e ∧ e.isFile = true ∧ e.blob = x := by
  unfold fblob fget
  cases h : tget t p with
  | none => simp [fileSide]
  | some e =>
    by_cases hf : e.isFile = true <;> simp [fileSide, hf]

theorem fileSide_eq_some (o : Option Ent) (e : Ent) : fileSide o = some e ↔ o = some e ∧ e.isFile = true := by
  cases o with
  | none => simp [fileSide]
  | some f =>
    by_cases hf : f.isFile = true
    · simp [fileSide, hf]; intro h; subst h; exact hf
    · simp [fileSide, hf]; intro h; subst h; simpa using hf

/-! full build -/

theorem has_collectFold (ig0 : Path → Bool) (es : Tree) (m : Files) (b b' : Branch) (p : Path) (x : Blob) :
    Has (es.foldl (fun m e => if e.2.isFile && !ig0 e.1 then addBranch m e.1 e.2.blob b else m) m) b' p x ↔
      Has m b' p x ∨ (b' = b ∧ ∃ e, (p, e) ∈ es ∧ e.isFile = true ∧ ig0 p = false ∧ e.blob = x) := by
  induction es generalizing m with
  | nil => simp
  | cons a r ih =>
    rw [List.foldl_cons, ih]
    by_cases hf : (a.2.isFile && !ig0 a.1) = true
    · rw [if_pos hf, has_addBranch]
      simp only [Bool.and_eq_true, Bool.not_eq_true'] at hf
      constructor
      · rintro ((h | ⟨rfl, rfl, rfl⟩) | ⟨rfl, e, he, h1, h2⟩)
        · exact Or.inl h
        · exact Or.inr ⟨rfl, a.2, by simp, hf.1, hf.2, rfl⟩
        · exact Or.inr ⟨rfl, e, List.mem_cons_of_mem _ he, h1, h2⟩
      · rintro (h | ⟨rfl, e, he, h1, h2, h3⟩)
        · exact Or.inl (Or.inl h)
        · rcases List.mem_cons.mp he with heq | he
          · left; right
            have : a = (p, e) := heq.symm
            subst this
            exact ⟨rfl, h3.symm, rfl⟩
          · exact Or.inr ⟨rfl, e, he, h1, h2, h3⟩
    · rw [if_neg hf]
      constructor
      · rintro (h | ⟨rfl, e, he, h1, h2⟩)
        · exact Or.inl h
        · exact Or.inr ⟨rfl, e, List.mem_cons_of_mem _ he, h1, h2⟩
      · rintro (h | ⟨rfl, e, he, h1, h2, h3⟩)
        · exact Or.inl h
        · rcases List.mem_cons.mp he with heq | he
          · have : a = (p, e) := heq.symm
            subst this
            exfalso; apply hf
            simp [h1, h2]
          · exact Or.inr ⟨rfl, e, he, h1, h2, h3⟩

theorem has_collectTree (I : Ignore) (t : Tree) (m : Files) (b b' : Branch) (p : Path) (x : Blob) :
    Has (collectTree I m b t) b' p x ↔
      Has m b' p x ∨ (b' = b ∧ ∃ e, (p, e) ∈ t ∧ e.isFile = true ∧ I.ig t p = false ∧ e.blob = x) :=
  has_collectFold (I.ig t) t m b b' p x

theorem keys_collectTree (I : Ignore) (t : Tree) (m : Files) (b : Branch) (h : KeysPW m) :
    KeysPW (collectTree I m b t) := by
  unfold collectTree
  generalize I.ig t = ig0
  induction t generalizing m with
  | nil => exact h
  | cons a r ih =>
    rw [List.foldl_cons]
    apply ih
    split
    · exact keys_addBranch _ _ _ _ h
    · exact h

theorem has_collect_aux (I : Ignore) (r : Repo) (bs : List Branch) (m : Files) (b : Branch) (p : Path) (x : Blob) :
    Has (bs.foldl (fun m b => collectTree I m b (head r b)) m) b p x ↔
      Has m b p x ∨ (b ∈ bs ∧ ∃ e, (p, e) ∈ head r b ∧ e.isFile = true ∧ I.ig (head r b) p = false ∧ e.blob = x) := by
  induction bs generalizing m with
  | nil => simp
  | cons c cs ih =>
    rw [List.foldl_cons, ih, has_collectTree]
    constructor
    · rintro ((h | ⟨rfl, h⟩) | ⟨hb, h⟩)
      · exact Or.inl h
      · exact Or.inr ⟨by simp, h⟩
      · exact Or.inr ⟨List.mem_cons_of_mem _ hb, h⟩
    · rintro (h | ⟨hb, h⟩)
      · exact Or.inl (Or.inl h)
      · rcases List.mem_cons.mp hb with rfl | hb
        · exact Or.inl (Or.inr ⟨rfl, h⟩)
        · exact Or.inr ⟨hb, h⟩

theorem keys_collect_aux (I : Ignore) (r : Repo) (bs : List Branch) (m : Files) (h : KeysPW m) :
    KeysPW (bs.foldl (fun m b => collectTree I m b (head r b)) m) := by
  induction bs generalizing m with
  | nil => exact h
  | cons c cs ih => rw [List.foldl_cons]; exact ih _ (keys_collectTree _ _ _ _ h)

theorem keys_nil : KeysPW [] := List.Pairwise.nil

theorem keys_collect (I : Ignore) (r : Repo) (brs : List Branch) : KeysPW (collect I r brs) :=
  keys_collect_aux I r brs [] keys_nil

/-- the normal build lists branch `b` on document (p, x) exactly when `b` is indexed, has file `x` at `p`, and the
    ignore file of `b`'s tree does not exclude `p` -/
theorem has_collect (I : Ignore) (r : Repo) (brs : List Branch) (hwf : ∀ b, TreeWF (head r b)) (b : Branch)
    (p : Path) (x : Blob) :
    Has (collect I r brs) b p x ↔ b ∈ brs ∧ fblob (head r b) p = some x ∧ I.ig (head r b) p = false := by
  unfold collect
  rw [has_collect_aux, fblob_eq_some]
  constructor
  · rintro (h | ⟨hb, e, he, h1, h2, h3⟩)
    · exact absurd h (has_nil b p x)
    · exact ⟨hb, ⟨e, tget_of_mem _ (hwf b) _ _ he, h1, h3⟩, h2⟩
  · rintro ⟨hb, ⟨e, he, h1, h3⟩, h2⟩
    exact Or.inr ⟨hb, e, mem_of_tget _ _ _ he, h1, h2, h3⟩

/-! delta build -/

theorem has_addOneBranch (r : Repo) (p : Path) (m : Files) (c b' : Branch) (p' : Path) (x : Blob) :
    Has (addOneBranch r p m c) b' p' x ↔
      Has m b' p' x ∨ (p' = p ∧ b' = c ∧ fblob (head r c) p = some x) := by
  unfold addOneBranch fblob
  cases h : fget (head r c) p with
  | none => simp
  | some e =>
    simp only [has_addBranch, Option.map_some, Option.some.injEq]
    grind

theorem keys_addOneBranch (r : Repo) (p : Path) (m : Files) (c : Branch) (h : KeysPW m) :
    KeysPW (addOneBranch r p m c) := by
  unfold addOneBranch
  split
  · exact keys_addBranch _ _ _ _ h
  · exact h

theorem has_addAllBranches (r : Repo) (p : Path) (bs : List Branch) (m : Files) (b' : Branch) (p' : Path)
    (x : Blob) :
    Has (addAllBranches r bs m p) b' p' x ↔
      Has m b' p' x ∨ (p' = p ∧ b' ∈ bs ∧ fblob (head r b') p = some x) := by
  unfold addAllBranches
  induction bs generalizing m with
  | nil => simp
  | cons c cs ih =>
    rw [List.foldl_cons, ih, has_addOneBranch]
    simp only [List.mem_cons]
    grind

theorem keys_addAllBranches (r : Repo) (p : Path) (bs : List Branch) (m : Files) (h : KeysPW m) :
    KeysPW (addAllBranches r bs m p) := by
  unfold addAllBranches
  induction bs generalizing m with
  | nil => exact h
  | cons c cs ih => rw [List.foldl_cons]; exact ih _ (keys_addOneBranch _ _ _ _ h)

theorem has_applyChange (r : Repo) (brs : List Branch) (b : Branch) (st : Files × List Path) (c : Change)
    (b' : Branch) (p : Path) (x : Blob) :
    Has (applyChange r brs b st c).1 b' p x ↔
      Has st.1 b' p x
      ∨ (b' = b ∧ c.path = p ∧ ∃ e, fileSide c.new = some e ∧ e.blob = x)
      ∨ (c.path = p ∧ (fileSide c.old).isSome = true ∧ b' ∈ brs ∧ fblob (head r b') p = some x) := by
  unfold applyChange
  cases hn : fileSide c.new <;> cases ho : fileSide c.old <;>
    simp only [has_addAllBranches, has_addBranch, Option.isSome_none, Option.isSome_some] <;> grind

theorem changed_applyChange (r : Repo) (brs : List Branch) (b : Branch) (st : Files × List Path) (c : Change)
    (p : Path) :
    p ∈ (applyChange r brs b st c).2 ↔ p ∈ st.2 ∨ (c.path = p ∧ (fileSide c.old).isSome = true) := by
  unfold applyChange
  cases ho : fileSide c.old <;> simp <;> grind

theorem keys_applyChange (r : Repo) (brs : List Branch) (b : Branch) (st : Files × List Path) (c : Change)
    (h : KeysPW st.1) : KeysPW (applyChange r brs b st c).1 := by
  unfold applyChange
  have h1 : KeysPW (match fileSide c.new with
      | some e => addBranch st.1 c.path e.blob b
      | none => st.1) := by
    split
    · exact keys_addBranch _ _ _ _ h
    · exact h
  cases ho : fileSide c.old with
  | none => exact h1
  | some _ => exact keys_addAllBranches _ _ _ _ h1

theorem has_applyChanges (r : Repo) (brs : List Branch) (b : Branch) (cs : List Change) (st : Files × List Path)
    (b' : Branch) (p : Path) (x : Blob) :
    Has (cs.foldl (applyChange r brs b) st).1 b' p x ↔
      Has st.1 b' p x
      ∨ (b' = b ∧ ∃ c ∈ cs, c.path = p ∧ ∃ e, fileSide c.new = some e ∧ e.blob = x)
      ∨ ((∃ c ∈ cs, c.path = p ∧ (fileSide c.old).isSome = true) ∧ b' ∈ brs ∧ fblob (head r b') p = some x) := by
  induction cs generalizing st with
  | nil => simp
  | cons c cs ih =>
    rw [List.foldl_cons, ih, has_applyChange]
    simp only [List.mem_cons, exists_eq_or_imp]
    grind

theorem changed_applyChanges (r : Repo) (brs : List Branch) (b : Branch) (cs : List Change)
    (st : Files × List Path) (p : Path) :
    p ∈ (cs.foldl (applyChange r brs b) st).2 ↔
      p ∈ st.2 ∨ ∃ c ∈ cs, c.path = p ∧ (fileSide c.old).isSome = true := by
  induction cs generalizing st with
  | nil => simp
  | cons c cs ih =>
    rw [List.foldl_cons, ih, changed_applyChange]
    simp only [List.mem_cons, exists_eq_or_imp]
    grind

theorem keys_applyChanges (r : Repo) (brs : List Branch) (b : Branch) (cs : List Change)
    (st : Files × List Path) (h : KeysPW st.1) : KeysPW (cs.foldl (applyChange r brs b) st).1 := by
  induction cs generalizing st with
  | nil => exact h
  | cons c cs ih => rw [List.foldl_cons]; exact ih _ (keys_applyChange _ _ _ _ _ h)

/-- the outer loop of `prepareDeltaBuild` over the recorded branches `bs` (all branches: `brs`) -/
def prepareLoop (diff : Tree → Tree → List Change) (snap r : Repo) (brs bs : List Branch)
    (st : Files × List Path) : Files × List Path :=
  bs.foldl (fun st b => (diff (head snap b) (head r b)).foldl (applyChange r brs b) st) st

theorem prepareDelta_eq (diff : Tree → Tree → List Change) (snap r : Repo) (brs : List Branch) :
    prepareDelta diff snap r brs = prepareLoop diff snap r brs brs ([], []) := rfl

theorem has_prepareLoop (diff : Tree → Tree → List Change) (snap r : Repo) (brs bs : List Branch)
    (st : Files × List Path) (b' : Branch) (p : Path) (x : Blob) :
    Has (prepareLoop diff snap r brs bs st).1 b' p x ↔
      Has st.1 b' p x
      ∨ (b' ∈ bs ∧ ∃ c ∈ diff (head snap b') (head r b'), c.path = p ∧ ∃ e, fileSide c.new = some e ∧ e.blob = x)
      ∨ ((∃ b ∈ bs, ∃ c ∈ diff (head snap b) (head r b), c.path = p ∧ (fileSide c.old).isSome = true)
          ∧ b' ∈ brs ∧ fblob (head r b') p = some x) := by
  unfold prepareLoop
  induction bs generalizing st with
  | nil => simp
  | cons c cs ih =>
    rw [List.foldl_cons, ih, has_applyChanges]
    simp only [List.mem_cons, exists_eq_or_imp]
    grind

theorem changed_prepareLoop (diff : Tree → Tree → List Change) (snap r : Repo) (brs bs : List Branch)
    (st : Files × List Path) (p : Path) :
    p ∈ (prepareLoop diff snap r brs bs st).2 ↔
      p ∈ st.2 ∨ ∃ b ∈ bs, ∃ c ∈ diff (head snap b) (head r b), c.path = p ∧ (fileSide c.old).isSome = true := by
  unfold prepareLoop
  induction bs generalizing st with
  | nil => simp
  | cons c cs ih =>
    rw [List.foldl_cons, ih, changed_applyChanges]
    simp only [List.mem_cons, exists_eq_or_imp]
    grind

theorem keys_prepareLoop (diff : Tree → Tree → List Change) (snap r : Repo) (brs bs : List Branch)
    (st : Files × List Path) (h : KeysPW st.1) : KeysPW (prepareLoop diff snap r brs bs st).1 := by
  unfold prepareLoop
  induction bs generalizing st with
  | nil => exact h
  | cons c cs ih => rw [List.foldl_cons]; exact ih _ (keys_applyChanges _ _ _ _ _ h)

end ZoektModel.C13
