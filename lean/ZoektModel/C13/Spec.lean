/-
C13 — the property as an executable predicate.  Written from the statement: "a search restricted to any indexed
branch finds, for every file in that branch's head commit, exactly one document with the head content, and no
document for paths absent from the head".
-/
import ZoektModel.C13.Model
namespace ZoektModel.C13

/-- `view` is what the branch-restricted search returned, as (path, content) pairs; `t` is the head tree; `ign`
    tells which paths the head's ignore file excludes (a normal build leaves those out) -/
def checkView (t : Tree) (ign : Path → Bool) (view : List (Path × Blob)) : Bool :=
  t.all (fun e => !e.2.isFile || ign e.1 || view.count (e.1, e.2.blob) == 1) &&
  view.all (fun d => fblob t d.1 == some d.2 && !ign d.1)

/-- the same as a proposition about document counts: exactly one document (p, x) when the head has content `x`
    at `p`, none otherwise (absent path, or any other content) -/
def ViewIsHead (t : Tree) (cnt : Path → Blob → Nat) : Prop :=
  ∀ p x, cnt p x = if fblob t p = some x then 1 else 0

/-- the same with an ignore file: excluded paths have no document -/
def ViewIsHeadIg (t : Tree) (ign : Path → Bool) (cnt : Path → Blob → Nat) : Prop :=
  ∀ p x, cnt p x = if fblob t p = some x ∧ ign p = false then 1 else 0

/-- a tree without an ignore file excludes nothing -/
def Ignore.WF (I : Ignore) : Prop := ∀ t p, fget t I.path = none → I.ig t p = false

/-- trees have distinct paths -/
def TreeWF (t : Tree) : Prop := (t.map Prod.fst).Nodup

def EvWF : Ev → Prop
  | .commit _ t => TreeWF t
  | .index .. => True

/-- what is assumed of the tree diff (go-git's `DiffTreeWithOptions`, validated against the model's own exact
    `diffTrees` by correspondence): every reported change carries the two trees' entries at its path, and every
    path at which the trees differ is reported.  Spurious `Modify` changes (old = new) are allowed. -/
def ValidDiff (o n : Tree) (cs : List Change) : Prop :=
  (∀ c ∈ cs, c.old = tget o c.path ∧ c.new = tget n c.path) ∧
  (∀ p, tget o p ≠ tget n p → ∃ c ∈ cs, c.path = p)

end ZoektModel.C13
