/-
C34 — helper lemmas: what survives planPrune, what the forced loop establishes.
-/
import ZoektModel.C34.Spec
import ZoektModel.C33.Lemmas
namespace ZoektModel.C34
open ZoektModel.C33

/-! ### pruning -/

theorem mem_removeAll (paths : List String) (inv : Inv) (s : Shard) :
    s ∈ paths.foldl removePath inv ↔ s ∈ inv ∧ s.path ∉ paths := by
  induction paths generalizing inv with
  | nil => simp
  | cons p t ih =>
    rw [List.foldl_cons, ih]
    unfold removePath
    rw [List.mem_filter]
    simp only [ne_eq, decide_not, Bool.not_eq_eq_eq_not, Bool.not_true, decide_eq_false_iff_not, List.mem_cons, not_or]
    constructor
    · rintro ⟨⟨a, b⟩, c⟩; exact ⟨a, b, c⟩
    · rintro ⟨a, b, c⟩; exact ⟨⟨a, b⟩, c⟩

theorem pruneOne_shard {cwd : String} {d : List Repo} {s : Shard} {a : Action} (h : pruneOne cwd d s = some a) :
    a.shard = s.path := by
  unfold pruneOne at h
  dsimp only at h
  split at h
  · split at h
    · simp at h
    · simp only [Option.some.injEq] at h; rw [← h]
  · simp only [Option.some.injEq] at h; rw [← h]

theorem mem_planPrune {cwd : String} {d : List Repo} {inv : Inv} {a : Action} :
    a ∈ planPrune cwd d inv ↔ ∃ s ∈ inv, pruneOne cwd d s = some a := by
  unfold planPrune
  rw [(List.mergeSort_perm _ _).mem_iff, List.mem_filterMap]

/-- a shard that survives pruning carries the name and (normalised) source of a discovered repository -/
theorem survivor_wanted (cwd : String) (d : List Repo) (inv : Inv) (s : Shard) (hs : s ∈ inv)
    (hp : s.path ∉ (planPrune cwd d inv).map (·.shard)) : ∃ r ∈ d, ident cwd s = identR cwd r := by
  cases hpo : pruneOne cwd d s with
  | some a =>
    exfalso
    apply hp
    rw [List.mem_map]
    exact ⟨a, mem_planPrune.mpr ⟨s, hs, hpo⟩, pruneOne_shard hpo⟩
  | none =>
    unfold pruneOne at hpo
    dsimp only at hpo
    split at hpo
    · rename_i r hr
      split at hpo
      · rename_i hname
        unfold findDesired at hr
        have hmem := List.mem_of_find?_eq_some hr
        have hprop := List.find?_some hr
        refine ⟨r, by simpa using hmem, ?_⟩
        unfold ident identR
        simp only [decide_eq_true_eq] at hprop
        rw [hname, hprop]
      · simp at hpo
    · simp at hpo

/-! ### the forced loop -/

/-- every shard belongs to a discovered repository -/
def Good (cwd : String) (d : List Repo) (inv : Inv) : Prop := ∀ s ∈ inv, ∃ r ∈ d, ident cwd s = identR cwd r

/-- the repository is indexed at its first shard path, up to date, under its own name and source -/
def Present (cwd : String) (r : Repo) (inv : Inv) : Prop :=
  ∃ h s, r.head = some h ∧ lookup inv r.shard0 = some s ∧ freshShard r h s = true ∧ ident cwd s = identR cwd r

theorem Present_congr {cwd : String} {r : Repo} {i j : Inv} (h : lookup i r.shard0 = lookup j r.shard0) :
    Present cwd r i → Present cwd r j := by
  rintro ⟨hh, s, a, b, c, e⟩
  exact ⟨hh, s, a, h ▸ b, c, e⟩

theorem lookup_rebuild_self (inv : Inv) (r : Repo) (h : String) :
    lookup (rebuild inv r h) r.shard0 = some (newShard r h r.shard0) := by
  unfold rebuild
  rw [lookup_append]
  have h1 : lookup (inv.filter (fun s => decide (s.path ∉ allShards inv r ∧ s.path ∉ r.shard0 :: r.more.take r.nNew)))
      r.shard0 = none := by
    apply lookup_none_of_not_mem
    intro s hs
    rw [List.mem_filter] at hs
    intro hp
    have := hs.2
    simp [hp] at this
  rw [h1]
  simp [lookup_cons, newShard]

theorem good_rebuild (cwd : String) (d : List Repo) (inv : Inv) (r : Repo) (hr : r ∈ d) (h : String)
    (hg : Good cwd d inv) : Good cwd d (rebuild inv r h) := by
  intro s hs
  unfold rebuild at hs
  rw [List.mem_append] at hs
  rcases hs with hs | hs
  · exact hg s (List.mem_filter.mp hs).1
  · rw [List.mem_map] at hs
    obtain ⟨p, _, rfl⟩ := hs
    exact ⟨r, hr, rfl⟩

/-- names of the discovered repositories are pairwise different (guaranteed by discoverRepositories) -/
def NamesDistinct (d : List Repo) : Prop := ∀ a ∈ d, ∀ b ∈ d, a.name = b.name → a = b

/-- one step of the forced loop -/
theorem indexOne_step (cwd : String) (d : List Repo) (hn : NamesDistinct d) (st : Run) (r : Repo) (hr : r ∈ d)
    (hg : Good cwd d st.inv) :
    Good cwd d (indexOne false [] st r).inv ∧
    ((indexOne false [] st r).err = false → st.err = false ∧ Present cwd r (indexOne false [] st r).inv) ∧
    (st.err = true → (indexOne false [] st r).err = true) := by
  unfold indexOne
  cases hh : r.head with
  | none => simp [hg]
  | some h =>
    simp only [Bool.false_eq_true, ↓reduceIte]
    by_cases he : indexState st.inv r h = .equal
    · simp only [he, ↓reduceIte]
      refine ⟨hg, ?_, fun x => x⟩
      intro herr
      refine ⟨herr, h, ?_⟩
      -- the shard at r's first path is what IndexState judged equal
      unfold indexState at he
      split at he
      · simp at he
      · rename_i s hs
        split at he
        · simp at he
        · rename_i hname
          split at he
          · simp at he
          · rename_i hopt
            split at he
            · simp at he
            · rename_i hver
              split at he
              · simp at he
              · rename_i hmeta
                refine ⟨s, hh, hs, ?_, ?_⟩
                · simp only [ne_eq, Decidable.not_not] at hname hver
                  simp only [Bool.not_eq_true', Bool.not_eq_false] at hopt hmeta
                  simp [freshShard, hname, hver, hopt, hmeta]
                · obtain ⟨r', hr', hid⟩ := hg s (lookup_some_mem hs)
                  simp only [ne_eq, Decidable.not_not] at hname
                  have hnm : r'.name = r.name := by
                    have := congrArg Prod.fst hid
                    simp only [ident, identR] at this
                    rw [← this, hname]
                  have := hn r' hr' r hr hnm
                  rw [← this]; exact hid
    · simp only [he, ↓reduceIte]
      refine ⟨good_rebuild cwd d st.inv r hr h hg, ?_, fun x => x⟩
      intro herr
      refine ⟨herr, h, newShard r h r.shard0, hh, lookup_rebuild_self _ _ _, ?_, rfl⟩
      simp [freshShard, newShard]

/-- the whole forced loop -/
theorem loop_converges (cwd : String) (d : List Repo) (hn : NamesDistinct d) (repos : List Repo)
    (hsub : ∀ r ∈ repos, r ∈ d) (hw : WF repos) (st : Run) (hg : Good cwd d st.inv) :
    Good cwd d (repos.foldl (indexOne false []) st).inv ∧
    ((repos.foldl (indexOne false []) st).err = false → st.err = false ∧
      ∀ r ∈ repos, Present cwd r (repos.foldl (indexOne false []) st).inv) ∧
    (∀ q, (∀ r ∈ repos, q ∉ r.shard0 :: r.more) →
      lookup (repos.foldl (indexOne false []) st).inv q = lookup st.inv q) := by
  induction repos generalizing st with
  | nil => exact ⟨hg, fun h => ⟨h, by simp⟩, fun _ _ => rfl⟩
  | cons r t ih =>
    rw [List.foldl_cons]
    unfold WF at hw
    rw [List.pairwise_cons] at hw
    obtain ⟨s1, s2, s3⟩ := indexOne_step cwd d hn st r (hsub r (List.mem_cons_self ..)) hg
    obtain ⟨i1, i2, i3⟩ := ih (fun x hx => hsub x (List.mem_cons_of_mem _ hx)) hw.2 (indexOne false [] st r) s1
    refine ⟨i1, ?_, ?_⟩
    · intro herr
      obtain ⟨e1, pt⟩ := i2 herr
      obtain ⟨e0, pr⟩ := s2 e1
      refine ⟨e0, ?_⟩
      intro x hx
      rcases List.mem_cons.mp hx with rfl | hx
      · refine Present_congr ?_ pr
        exact (i3 x.shard0 (fun r' hr' => (hw.1 r' hr').1)).symm
      · exact pt x hx
    · intro q hq
      rw [i3 q (fun r' hr' => hq r' (List.mem_cons_of_mem _ hr'))]
      exact indexOne_force_lookup [] st r q (hq r (List.mem_cons_self ..))

/-! ### remove: records, selection -/

def mkRecord (cwd : String) (inv : Inv) (k : String × String) : Record :=
  ⟨k.1, k.2, ((inv.filter (fun s => keyOf cwd s = k)).map (·.path)).mergeSort leStr⟩

theorem mem_dedupKeys (l : List (String × String)) (k : String × String) : k ∈ dedupKeys l ↔ k ∈ l := by
  induction l with
  | nil => simp [dedupKeys]
  | cons a t ih =>
    simp only [dedupKeys, List.mem_cons, List.mem_filter, ih]
    by_cases h : k = a <;> simp [h]

theorem mem_mkRecord_shards (cwd : String) (inv : Inv) (k : String × String) (p : String) :
    p ∈ (mkRecord cwd inv k).shards ↔ ∃ s ∈ inv, ident cwd s = k ∧ s.path = p := by
  unfold mkRecord
  simp only
  rw [(List.mergeSort_perm _ _).mem_iff, List.mem_map]
  constructor
  · rintro ⟨s, hs, rfl⟩
    rw [List.mem_filter] at hs
    exact ⟨s, hs.1, of_decide_eq_true hs.2, rfl⟩
  · rintro ⟨s, hs, hk, rfl⟩
    exact ⟨s, List.mem_filter.mpr ⟨hs, decide_eq_true hk⟩, rfl⟩

/-- what `selectRecords` matches for a selector is, record for record, what the selector denotes -/
theorem matchesOf_spec (cwd : String) (inv : Inv) (sel : String) :
    ∃ L : List (String × String),
      matchesOf cwd (recordsFromShards cwd inv) sel = L.map (mkRecord cwd inv) ∧ L.Perm (denotes cwd inv sel) := by
  have hK := List.mergeSort_perm (dedupKeys (inv.map (keyOf cwd))) leKey
  have hrecs : recordsFromShards cwd inv =
      ((dedupKeys (inv.map (keyOf cwd))).mergeSort leKey).map (mkRecord cwd inv) := rfl
  have hids : identities cwd inv = dedupKeys (inv.map (keyOf cwd)) := rfl
  generalize (dedupKeys (inv.map (keyOf cwd))).mergeSort leKey = K at hK hrecs
  unfold matchesOf denotes
  rw [hrecs, hids]
  simp only [List.filter_map]
  have e1 : ((fun r : Record => decide (r.name = sel)) ∘ mkRecord cwd inv) = fun k => decide (k.1 = sel) := rfl
  have e2 : ((fun r : Record => decide (r.source ≠ "" ∧ r.source = normalizeSource cwd sel)) ∘ mkRecord cwd inv) =
      fun k => decide (k.2 ≠ "" ∧ k.2 = normalizeSource cwd sel) := rfl
  rw [e1, e2]
  have p1 := List.Perm.filter (fun k : String × String => decide (k.1 = sel)) hK
  have p2 := List.Perm.filter (fun k : String × String => decide (k.2 ≠ "" ∧ k.2 = normalizeSource cwd sel)) hK
  have hemp : (List.map (mkRecord cwd inv) (List.filter (fun k => decide (k.1 = sel)) K)).isEmpty =
      (List.filter (fun k => decide (k.1 = sel)) (dedupKeys (inv.map (keyOf cwd)))).isEmpty := by
    rw [← p1.isEmpty_eq]; simp
  rw [hemp]
  split
  · exact ⟨_, rfl, p2⟩
  · exact ⟨_, rfl, p1⟩

theorem mkRecord_inj (cwd : String) (inv : Inv) (a b : String × String) (h : mkRecord cwd inv a = mkRecord cwd inv b) :
    a = b := by
  have h1 := congrArg Record.name h
  have h2 := congrArg Record.source h
  simp only [mkRecord] at h1 h2
  exact Prod.ext h1 h2

/-- every member of the accumulator is a record of the inventory -/
def AccOK (cwd : String) (inv : Inv) (acc : List Record) : Prop := ∀ a ∈ acc, ∃ k, a = mkRecord cwd inv k

theorem any_acc_iff (cwd : String) (inv : Inv) (acc : List Record) (hacc : AccOK cwd inv acc) (k : String × String) :
    (acc.any fun r => decide (r.name = (mkRecord cwd inv k).name ∧ r.source = (mkRecord cwd inv k).source)) = true ↔
      mkRecord cwd inv k ∈ acc := by
  rw [List.any_eq_true]
  constructor
  · rintro ⟨a, ha, h⟩
    obtain ⟨k', rfl⟩ := hacc a ha
    have h' := of_decide_eq_true h
    have : k' = k := Prod.ext h'.1 h'.2
    rw [← this]; exact ha
  · intro h
    exact ⟨_, h, by simp⟩

/-- the loop of `selectRecords`: it succeeds iff every selector denotes exactly one repository, and then holds exactly
    the records of the denoted repositories (plus what it started with) -/
theorem selectLoop_spec (cwd : String) (inv : Inv) (sels : List String) (acc : List Record) (hacc : AccOK cwd inv acc) :
    (∀ res, selectLoop cwd (recordsFromShards cwd inv) sels acc = .ok res →
      (∀ sel ∈ sels, (denotes cwd inv sel).length = 1) ∧ AccOK cwd inv res ∧
      ∀ k, mkRecord cwd inv k ∈ res ↔ mkRecord cwd inv k ∈ acc ∨ ∃ sel ∈ sels, denotes cwd inv sel = [k]) ∧
    (∀ e, selectLoop cwd (recordsFromShards cwd inv) sels acc = .error e →
      ∃ sel ∈ sels, (denotes cwd inv sel).length ≠ 1) := by
  induction sels generalizing acc with
  | nil =>
    constructor
    · intro res h
      simp only [selectLoop, Except.ok.injEq] at h
      subst h
      exact ⟨by simp, hacc, by simp⟩
    · intro e h; simp [selectLoop] at h
  | cons sel rest ih =>
    obtain ⟨L, hL, hperm⟩ := matchesOf_spec cwd inv sel
    match L, hL, hperm with
    | [], hL, hperm =>
      have hd : denotes cwd inv sel = [] := (List.Perm.nil_eq hperm).symm
      constructor
      · intro res h; simp [selectLoop, hL] at h
      · intro e _; exact ⟨sel, List.mem_cons_self .., by simp [hd]⟩
    | [k], hL, hperm =>
      have hd : denotes cwd inv sel = [k] := List.perm_singleton.mp hperm.symm
      have hstep : selectLoop cwd (recordsFromShards cwd inv) (sel :: rest) acc =
          selectLoop cwd (recordsFromShards cwd inv) rest
            (if (acc.any fun r => decide (r.name = (mkRecord cwd inv k).name ∧ r.source = (mkRecord cwd inv k).source)) = true
              then acc else acc ++ [mkRecord cwd inv k]) := by
        simp [selectLoop, hL]
      have hany := any_acc_iff cwd inv acc hacc k
      have hacc' : AccOK cwd inv (if (acc.any fun r => decide (r.name = (mkRecord cwd inv k).name ∧
          r.source = (mkRecord cwd inv k).source)) = true then acc else acc ++ [mkRecord cwd inv k]) := by
        split
        · exact hacc
        · intro a ha
          rcases List.mem_append.mp ha with ha | ha
          · exact hacc a ha
          · exact ⟨k, by simpa using ha⟩
      obtain ⟨ih1, ih2⟩ := ih _ hacc'
      rw [hstep]
      constructor
      · intro res h
        obtain ⟨a1, a2, a3⟩ := ih1 res h
        refine ⟨?_, a2, ?_⟩
        · intro s hs
          rcases List.mem_cons.mp hs with rfl | hs
          · simp [hd]
          · exact a1 s hs
        · intro k'
          rw [a3 k']
          have hmem : mkRecord cwd inv k' ∈ (if (acc.any fun r => decide (r.name = (mkRecord cwd inv k).name ∧
              r.source = (mkRecord cwd inv k).source)) = true then acc else acc ++ [mkRecord cwd inv k]) ↔
              mkRecord cwd inv k' ∈ acc ∨ k' = k := by
            split
            · rename_i hc
              have hk := hany.mp hc
              constructor
              · exact fun h => Or.inl h
              · rintro (h | rfl)
                · exact h
                · exact hk
            · rw [List.mem_append, List.mem_singleton]
              constructor
              · rintro (h | h)
                · exact Or.inl h
                · exact Or.inr (mkRecord_inj cwd inv _ _ h)
              · rintro (h | rfl)
                · exact Or.inl h
                · exact Or.inr rfl
          rw [hmem]
          constructor
          · rintro ((h | rfl) | ⟨s, hs, hds⟩)
            · exact Or.inl h
            · exact Or.inr ⟨sel, List.mem_cons_self .., hd⟩
            · exact Or.inr ⟨s, List.mem_cons_of_mem _ hs, hds⟩
          · rintro (h | ⟨s, hs, hds⟩)
            · exact Or.inl (Or.inl h)
            · rcases List.mem_cons.mp hs with rfl | hs
              · rw [hd] at hds
                simp only [List.cons.injEq, and_true] at hds
                exact Or.inl (Or.inr hds.symm)
              · exact Or.inr ⟨s, hs, hds⟩
      · intro e h
        obtain ⟨s, hs, hne⟩ := ih2 e h
        exact ⟨s, List.mem_cons_of_mem _ hs, hne⟩
    | k1 :: k2 :: t, hL, hperm =>
      constructor
      · intro res h; simp [selectLoop, hL] at h
      · intro e _
        refine ⟨sel, List.mem_cons_self .., ?_⟩
        rw [← hperm.length_eq]; simp

theorem removeAll_eq_filter (paths : List String) (inv : Inv) :
    paths.foldl removePath inv = inv.filter (fun s => decide (s.path ∉ paths)) := by
  induction paths generalizing inv with
  | nil =>
    simp only [List.foldl_nil, List.not_mem_nil, not_false_eq_true, decide_true]
    exact (List.filter_eq_self.mpr (fun _ _ => rfl)).symm
  | cons p t ih =>
    rw [List.foldl_cons, ih]
    unfold removePath
    rw [List.filter_filter]
    apply List.filter_congr
    intro s _
    by_cases h1 : s.path = p <;> by_cases h2 : s.path ∈ t <;> simp [h1, h2]

/-! ### discovery: the walk finds exactly the outermost repositories -/

mutual
theorem walk_spec : ∀ (name : String) (t : Tree) (path : List String) (b : Bool),
    (path, b) ∈ walk name t ↔ TopRepo name t path b
  | name, .file, path, b => by
    cases path <;> simp [walk, TopRepo, kindOfT]
  | name, .other, path, b => by
    cases path <;> simp [walk, TopRepo, kindOfT]
  | name, .dir es, path, b => by
    have ih := walkList_spec es
    unfold walk
    by_cases hw : isWork es
    · cases path with
      | nil => simp [hw, TopRepo, kindOfT, kindOf]; 
      | cons n rest => simp [hw, TopRepo, kindOfT, kindOf]
    · by_cases hb : isBare name es
      · cases path with
        | nil => simp [hw, hb, TopRepo, kindOfT, kindOf]
        | cons n rest => simp [hw, hb, TopRepo, kindOfT, kindOf]
      · simp only [hw, hb, Bool.false_eq_true, ↓reduceIte]
        rw [ih path b]
        cases path with
        | nil => simp [TopRepo, kindOfT, kindOf, hw, hb]
        | cons n rest =>
          simp only [TopRepo, kindOfT, kindOf, hw, hb, Bool.false_eq_true, ↓reduceIte, true_and]
          constructor
          · rintro ⟨n', t', rest', hp, hm, ht⟩
            simp only [List.cons.injEq] at hp
            obtain ⟨rfl, rfl⟩ := hp
            exact ⟨es, t', rfl, hm, ht⟩
          · rintro ⟨es', t', he, hm, ht⟩
            simp only [Tree.dir.injEq] at he
            subst he
            exact ⟨n, t', rest, rfl, hm, ht⟩
theorem walkList_spec : ∀ (es : Entries) (path : List String) (b : Bool),
    (path, b) ∈ walkList es ↔ ∃ n t' rest, path = n :: rest ∧ (n, t') ∈ es ∧ TopRepo n t' rest b
  | [], path, b => by simp [walkList]
  | (n, t) :: rest, path, b => by
    have ih1 := walk_spec n t
    have ih2 := walkList_spec rest path b
    unfold walkList
    rw [List.mem_append, ih2, List.mem_map]
    constructor
    · rintro (⟨f, hf, hp⟩ | ⟨n', t', r', hp, hm, ht⟩)
      · obtain ⟨fp, fb⟩ := f
        simp only [Prod.mk.injEq] at hp
        obtain ⟨rfl, rfl⟩ := hp
        exact ⟨n, t, fp, rfl, List.mem_cons_self .., (ih1 fp fb).mp hf⟩
      · exact ⟨n', t', r', hp, List.mem_cons_of_mem _ hm, ht⟩
    · rintro ⟨n', t', r', hp, hm, ht⟩
      rcases List.mem_cons.mp hm with heq | hm
      · simp only [Prod.mk.injEq] at heq
        obtain ⟨rfl, rfl⟩ := heq
        exact Or.inl ⟨(r', b), (ih1 r' b).mpr ht, by simp [hp]⟩
      · exact Or.inr ⟨n', t', r', hp, hm, ht⟩
end

/-! ### discovery: duplicate checks -/

theorem nodup_snoc {α} (l : List α) (a : α) : (l ++ [a]).Nodup ↔ l.Nodup ∧ a ∉ l := by
  rw [List.nodup_append]
  simp only [List.nodup_cons, List.not_mem_nil, not_false_eq_true, List.nodup_nil, and_self, List.mem_singleton,
    true_and]
  constructor
  · rintro ⟨h1, h2⟩
    exact ⟨h1, fun hm => h2 a hm a rfl rfl⟩
  · rintro ⟨h1, h2⟩
    exact ⟨h1, fun x hx b hb he => h2 (hb ▸ he ▸ hx)⟩

theorem distinct_snoc (acc : List (String × String)) (r : String × String) (h : Distinct acc) :
    Distinct (acc ++ [r]) ↔ (acc.any (fun a => a.1 = r.1)) = false ∧ (acc.any (fun a => a.2 = r.2)) = false := by
  unfold Distinct at *
  simp only [List.map_append, List.map_cons, List.map_nil, nodup_snoc, h.1, h.2, true_and, List.mem_map, not_exists,
    not_and, List.any_eq_false, decide_eq_true_eq]
theorem distinct_of_append (a b : List (String × String)) (h : Distinct (a ++ b)) : Distinct a := by
  unfold Distinct at *
  simp only [List.map_append] at h
  exact ⟨(List.nodup_append.mp h.1).1, (List.nodup_append.mp h.2).1⟩

/-- the duplicate checks: starting from a duplicate-free accumulator, `addAll` succeeds with everything appended iff
    the result is duplicate-free, and fails otherwise -/
theorem addAll_spec (l acc : List (String × String)) (h : Distinct acc) :
    (addAll acc l = .ok (acc ++ l) ∧ Distinct (acc ++ l)) ∨ ((∃ e, addAll acc l = .error e) ∧ ¬ Distinct (acc ++ l)) := by
  induction l generalizing acc with
  | nil => left; simp [addAll, h]
  | cons r rest ih =>
    have hs := distinct_snoc acc r h
    have happ : acc ++ r :: rest = (acc ++ [r]) ++ rest := by simp
    unfold addAll
    by_cases h1 : (acc.any fun a => decide (a.1 = r.1)) = true
    · right
      simp only [h1, ↓reduceIte]
      refine ⟨⟨_, rfl⟩, fun hd => ?_⟩
      rw [happ] at hd
      have := (hs.mp (distinct_of_append _ _ hd)).1
      simp [h1] at this
    · by_cases h2 : (acc.any fun a => decide (a.2 = r.2)) = true
      · right
        simp only [h1, h2, ↓reduceIte]
        refine ⟨⟨_, rfl⟩, fun hd => ?_⟩
        rw [happ] at hd
        have := (hs.mp (distinct_of_append _ _ hd)).2
        simp [h2] at this
      · simp only [h1, h2, Bool.false_eq_true, ↓reduceIte]
        have hd : Distinct (acc ++ [r]) := hs.mpr ⟨Bool.eq_false_iff.mpr h1, Bool.eq_false_iff.mpr h2⟩
        rw [happ]
        exact ih (acc ++ [r]) hd

theorem discoverLoop_spec (roots : List (String × Tree)) (acc : List (String × String)) (h : Distinct acc) :
    (discoverLoop acc roots = .ok (acc ++ allFound roots) ∧ Distinct (acc ++ allFound roots)) ∨
    ((∃ e, discoverLoop acc roots = .error e) ∧ ¬ Distinct (acc ++ allFound roots)) := by
  induction roots generalizing acc with
  | nil => left; simp [discoverLoop, allFound, h]
  | cons rt rest ih =>
    obtain ⟨root, t⟩ := rt
    have happ : acc ++ allFound ((root, t) :: rest) = (acc ++ discoverRoot root t) ++ allFound rest := by
      simp [allFound]
    unfold discoverLoop
    rcases addAll_spec (discoverRoot root t) acc h with ⟨hok, hd⟩ | ⟨⟨e, he⟩, hnd⟩
    · rw [hok, happ]
      exact ih _ hd
    · right
      rw [he]
      refine ⟨⟨_, rfl⟩, fun hd => hnd ?_⟩
      rw [happ] at hd
      exact distinct_of_append _ _ hd

theorem hasDup_iff (l : List String) : hasDup l = false ↔ l.Nodup := by
  induction l with
  | nil => simp [hasDup]
  | cons a t ih => simp [hasDup, ih]


/-! ### exactly one -/

/-- shard files of one directory have different paths -/
def PathsUnique (inv : Inv) : Prop := ∀ a ∈ inv, ∀ b ∈ inv, a.path = b.path → a = b

/-- after the planned removals every remaining shard belongs to a discovered repository -/
theorem good_after_prune (cwd : String) (d : List Repo) (inv : Inv) :
    Good cwd d ((planPrune cwd d inv).foldl (fun i a => removePath i a.shard) inv) := by
  intro s hs
  rw [foldl_removePath_actions, mem_removeAll] at hs
  exact survivor_wanted cwd d inv s hs.1 hs.2

def Paths (r : Repo) : List String := r.shard0 :: r.more

/-- shard paths of different discovered repositories are disjoint, and those of one repository pairwise different -/
def WF2 (d : List Repo) : Prop :=
  d.Pairwise (fun a b => ∀ p ∈ Paths a, p ∉ Paths b) ∧ ∀ r ∈ d, (Paths r).Nodup

/-- prior state without stray shards: a shard that carries a discovered repository's name and source sits at that
    repository's first shard path -/
def NoStray (cwd : String) (d : List Repo) (inv : Inv) : Prop :=
  ∀ s ∈ inv, ∀ r ∈ d, ident cwd s = identR cwd r → s.path = r.shard0

theorem take_subset_takeWhile {α} (P : α → Bool) (l : List α) (n : Nat) (h : ∀ x ∈ l.take n, P x = true) :
    ∀ x ∈ l.take n, x ∈ l.takeWhile P := by
  induction l generalizing n with
  | nil => simp
  | cons a t ih =>
    cases n with
    | zero => simp
    | succ n =>
      simp only [List.take_succ_cons, List.mem_cons, forall_eq_or_imp] at h ⊢
      obtain ⟨ha, ht⟩ := h
      rw [List.takeWhile_cons_of_pos ha]
      exact ⟨List.mem_cons_self .., fun x hx => List.mem_cons_of_mem _ (ih n ht x hx)⟩

theorem takeWhile_congr' {α} (P Q : α → Bool) (l : List α) (h : ∀ x ∈ l, P x = Q x) :
    l.takeWhile P = l.takeWhile Q := by
  induction l with
  | nil => rfl
  | cons a t ih =>
    have ha := h a (List.mem_cons_self ..)
    have iht := ih (fun x hx => h x (List.mem_cons_of_mem _ hx))
    simp only [List.takeWhile_cons, ha, iht]

theorem allShards_congr (i j : Inv) (r : Repo) (h : ∀ q ∈ Paths r, lookup i q = lookup j q) :
    allShards i r = allShards j r := by
  unfold allShards hasPath
  rw [h r.shard0 (List.mem_cons_self ..)]
  rw [takeWhile_congr' (fun p => (lookup i p).isSome) (fun p => (lookup j p).isSome) r.more
    (fun x hx => by rw [h x (List.mem_cons_of_mem _ hx)])]

theorem lookup_unique {inv : Inv} (hu : PathsUnique inv) {s s' : Shard} (hs : s ∈ inv)
    (hl : lookup inv s.path = some s') : s' = s :=
  hu s' (lookup_some_mem hl) s hs (lookup_some_path hl)

theorem lookup_of_mem (inv : Inv) (s : Shard) (hs : s ∈ inv) : ∃ s', lookup inv s.path = some s' := by
  cases h : lookup inv s.path with
  | some s' => exact ⟨s', rfl⟩
  | none =>
    unfold lookup at h
    rw [List.find?_eq_none] at h
    have := h s hs
    simp at this

def Disj (a b : Repo) : Prop := ∀ p ∈ Paths a, p ∉ Paths b

structure Inv1 (cwd : String) (d done todo : List Repo) (inv : Inv) : Prop where
  uniq : PathsUnique inv
  good : Good cwd d inv
  todoAt : ∀ r ∈ todo, ∀ s ∈ inv, ident cwd s = identR cwd r → s.path = r.shard0
  doneOk : ∀ r ∈ done, ∃ h, r.head = some h ∧
    ∀ s ∈ inv, ident cwd s = identR cwd r → s.path ∈ allShards inv r ∧ freshShard r h s = true

theorem equal_fresh (inv : Inv) (r : Repo) (h : String) (he : indexState inv r h = .equal) :
    ∃ s0, lookup inv r.shard0 = some s0 ∧ freshShard r h s0 = true := by
  unfold indexState at he
  split at he
  · simp at he
  · rename_i s hs
    split at he
    · simp at he
    · rename_i hname
      split at he
      · simp at he
      · rename_i hopt
        split at he
        · simp at he
        · rename_i hver
          split at he
          · simp at he
          · rename_i hmeta
            refine ⟨s, hs, ?_⟩
            simp only [ne_eq, Decidable.not_not] at hname hver
            simp only [Bool.not_eq_true', Bool.not_eq_false] at hopt hmeta
            simp [freshShard, hname, hver, hopt, hmeta]

theorem shard0_mem_allShards (inv : Inv) (r : Repo) (h : (lookup inv r.shard0).isSome = true) :
    r.shard0 ∈ allShards inv r := by
  unfold allShards hasPath
  simp [h]

theorem ident_inj {cwd : String} {d : List Repo} (hn : NamesDistinct d) {a b : Repo} (ha : a ∈ d) (hb : b ∈ d)
    (h : identR cwd a = identR cwd b) : a = b :=
  hn a ha b hb (congrArg Prod.fst h)

theorem step_equal (cwd : String) (d done rest : List Repo) (r : Repo) (inv : Inv) (h : String) (hh : r.head = some h)
    (he : indexState inv r h = .equal) (I : Inv1 cwd d done (r :: rest) inv) : Inv1 cwd d (r :: done) rest inv := by
  refine ⟨I.uniq, I.good, fun r' hr' => I.todoAt r' (List.mem_cons_of_mem _ hr'), ?_⟩
  intro r0 hr0
  rcases List.mem_cons.mp hr0 with rfl | hr0
  · refine ⟨h, hh, ?_⟩
    intro s hs hid
    have hp := I.todoAt r0 (List.mem_cons_self ..) s hs hid
    obtain ⟨s0, hl, hf⟩ := equal_fresh inv r0 h he
    have : s0 = s := lookup_unique I.uniq hs (hp ▸ hl)
    subst this
    exact ⟨hp ▸ shard0_mem_allShards inv r0 (by simp [hl]), hf⟩
  · exact I.doneOk r0 hr0

theorem step_rebuild (cwd : String) (d done rest : List Repo) (hn : NamesDistinct d) (r : Repo) (hr : r ∈ d)
    (hrest : ∀ x ∈ rest, x ∈ d) (hdone : ∀ x ∈ done, x ∈ d)
    (hdr : ∀ r' ∈ rest, Disj r r') (hdd : ∀ r0 ∈ done, Disj r0 r) (hnd : (Paths r).Nodup)
    (inv : Inv) (h : String) (hh : r.head = some h) (I : Inv1 cwd d done (r :: rest) inv) :
    Inv1 cwd d (r :: done) rest (rebuild inv r h) := by
  have hmem : ∀ s, s ∈ rebuild inv r h ↔
      (s ∈ inv ∧ s.path ∉ allShards inv r ∧ s.path ∉ r.shard0 :: r.more.take r.nNew) ∨
      ∃ p ∈ r.shard0 :: r.more.take r.nNew, s = newShard r h p := by
    intro s
    unfold rebuild
    simp only [List.mem_append, List.mem_filter, decide_eq_true_eq, List.mem_map]
    constructor
    · rintro (h1 | ⟨p, hp, rfl⟩)
      · exact Or.inl h1
      · exact Or.inr ⟨p, hp, rfl⟩
    · rintro (h1 | ⟨p, hp, rfl⟩)
      · exact Or.inl h1
      · exact Or.inr ⟨p, hp, rfl⟩
  have hnewsub : ∀ p ∈ r.shard0 :: r.more.take r.nNew, p ∈ Paths r := newPaths_subset r
  refine ⟨?_, good_rebuild cwd d inv r hr h I.good, ?_, ?_⟩
  · -- paths stay unique
    intro a ha b hb hab
    rcases (hmem a).mp ha with ⟨ha1, _, ha3⟩ | ⟨p, hp, rfl⟩ <;> rcases (hmem b).mp hb with ⟨hb1, _, hb3⟩ | ⟨q, hq, rfl⟩
    · exact I.uniq a ha1 b hb1 hab
    · exfalso; apply ha3; rw [hab]; simpa [newShard] using hq
    · exfalso; apply hb3; rw [← hab]; simpa [newShard] using hp
    · have : p = q := by simpa [newShard] using hab
      rw [this]
  · -- repositories still to do: untouched
    intro r' hr' s hs hid
    rcases (hmem s).mp hs with ⟨hs1, _, _⟩ | ⟨p, _, rfl⟩
    · exact I.todoAt r' (List.mem_cons_of_mem _ hr') s hs1 hid
    · exfalso
      have : r = r' := ident_inj hn hr (hrest r' hr') hid
      subst this
      exact hdr r hr' r.shard0 (List.mem_cons_self ..) (List.mem_cons_self ..)
  · intro r0 hr0
    rcases List.mem_cons.mp hr0 with rfl | hr0
    · refine ⟨h, hh, ?_⟩
      intro s hs hid
      rcases (hmem s).mp hs with ⟨hs1, _, hs3⟩ | ⟨p, hp, rfl⟩
      · exfalso
        have := I.todoAt r0 (List.mem_cons_self ..) s hs1 hid
        apply hs3; rw [this]; exact List.mem_cons_self ..
      · constructor
        · -- the new shard set is contiguous from shard 0
          have hlk : ∀ q ∈ r0.shard0 :: r0.more.take r0.nNew, (lookup (rebuild inv r0 h) q).isSome = true := by
            intro q hq
            obtain ⟨s', hs'⟩ := lookup_of_mem (rebuild inv r0 h) (newShard r0 h q) ((hmem _).mpr (Or.inr ⟨q, hq, rfl⟩))
            have : (newShard r0 h q).path = q := rfl
            rw [this] at hs'
            simp [hs']
          unfold allShards hasPath
          rw [hlk r0.shard0 (List.mem_cons_self ..)]
          simp only [↓reduceIte]
          rcases List.mem_cons.mp hp with rfl | hp
          · exact List.mem_cons_self ..
          · apply List.mem_cons_of_mem
            exact take_subset_takeWhile _ _ _ (fun x hx => hlk x (List.mem_cons_of_mem _ hx)) _ hp
        · simp [freshShard, newShard]
    · obtain ⟨h0, hh0, hall⟩ := I.doneOk r0 hr0
      refine ⟨h0, hh0, ?_⟩
      intro s hs hid
      rcases (hmem s).mp hs with ⟨hs1, _, _⟩ | ⟨p, _, rfl⟩
      · obtain ⟨a, b⟩ := hall s hs1 hid
        refine ⟨?_, b⟩
        rw [allShards_congr (rebuild inv r h) inv r0 (fun q hq => lookup_rebuild_other inv r h q (hdd r0 hr0 q hq))]
        exact a
      · exfalso
        have : r = r0 := ident_inj hn hr (hdone r0 hr0) hid
        subst this
        exact hdd r hr0 r.shard0 (List.mem_cons_self ..) (List.mem_cons_self ..)

theorem loop_exact (cwd : String) (d : List Repo) (hn : NamesDistinct d) (todo : List Repo) :
    ∀ (done : List Repo) (st : Run), (∀ r ∈ todo, r ∈ d) → (∀ r ∈ done, r ∈ d) → todo.Pairwise Disj →
      (∀ a ∈ done, ∀ b ∈ todo, Disj a b) → (∀ r ∈ todo, (Paths r).Nodup) → (∀ r ∈ todo, r.head ≠ none) →
      Inv1 cwd d done todo st.inv →
      ∃ done', (∀ r, r ∈ done' ↔ r ∈ done ∨ r ∈ todo) ∧ Inv1 cwd d done' [] (todo.foldl (indexOne false []) st).inv := by
  induction todo with
  | nil => intro done st _ _ _ _ _ _ I; exact ⟨done, by simp, I⟩
  | cons r rest ih =>
    intro done st htodo hdone hpw hx hnd hheads I
    rw [List.pairwise_cons] at hpw
    rw [List.foldl_cons]
    have hr : r ∈ d := htodo r (List.mem_cons_self ..)
    cases hh : r.head with
    | none => exact absurd hh (hheads r (List.mem_cons_self ..))
    | some h =>
      have hstep : Inv1 cwd d (r :: done) rest (indexOne false [] st r).inv := by
        unfold indexOne
        simp only [hh, Bool.false_eq_true, ↓reduceIte]
        by_cases he : indexState st.inv r h = .equal
        · simp only [he, ↓reduceIte]
          exact step_equal cwd d done rest r st.inv h hh he I
        · simp only [he, ↓reduceIte]
          exact step_rebuild cwd d done rest hn r hr (fun x hx => htodo x (List.mem_cons_of_mem _ hx)) hdone
            hpw.1 (fun r0 hr0 => hx r0 hr0 r (List.mem_cons_self ..)) (hnd r (List.mem_cons_self ..)) st.inv h hh I
      obtain ⟨done', hd', I'⟩ := ih (r :: done) (indexOne false [] st r)
        (fun x hx => htodo x (List.mem_cons_of_mem _ hx))
        (fun x hx => by rcases List.mem_cons.mp hx with rfl | hx; exact hr; exact hdone x hx)
        hpw.2
        (fun a ha b hb => by
          rcases List.mem_cons.mp ha with rfl | ha
          · exact hpw.1 b hb
          · exact hx a ha b (List.mem_cons_of_mem _ hb))
        (fun x hx => hnd x (List.mem_cons_of_mem _ hx))
        (fun x hx => hheads x (List.mem_cons_of_mem _ hx)) hstep
      refine ⟨done', ?_, I'⟩
      intro x
      rw [hd' x, List.mem_cons, List.mem_cons]
      constructor
      · rintro ((rfl | h1) | h2)
        · exact Or.inr (Or.inl rfl)
        · exact Or.inl h1
        · exact Or.inr (Or.inr h2)
      · rintro (h1 | rfl | h2)
        · exact Or.inl (Or.inr h1)
        · exact Or.inl (Or.inl rfl)
        · exact Or.inr h2

theorem wf_of_wf2 (d : List Repo) (h : WF2 d) : WF d := by
  unfold WF
  refine List.Pairwise.imp ?_ h.1
  intro a b hab
  refine ⟨hab a.shard0 (List.mem_cons_self ..), fun hb => ?_⟩
  exact hab b.shard0 hb (List.mem_cons_self ..)

theorem inj_of_nodup_map {α β} (f : α → β) (l : List α) (h : (l.map f).Nodup) :
    ∀ x ∈ l, ∀ y ∈ l, f x = f y → x = y := by
  induction l with
  | nil => intro x hx; simp at hx
  | cons a t ih =>
    rw [List.map_cons, List.nodup_cons] at h
    intro x hx y hy hxy
    rcases List.mem_cons.mp hx with hxa | hxt
    · rcases List.mem_cons.mp hy with hya | hyt
      · rw [hxa, hya]
      · exact absurd (List.mem_map.mpr ⟨y, hyt, by rw [← hxy, hxa]⟩) h.1
    · rcases List.mem_cons.mp hy with hya | hyt
      · exact absurd (List.mem_map.mpr ⟨x, hxt, by rw [hxy, hya]⟩) h.1
      · exact ih h.2 x hxt y hyt hxy

/-! ### a second run -/

/-- sources of the discovered repositories are pairwise different after normalisation (guaranteed by discovery) -/
def SourcesDistinct (cwd : String) (d : List Repo) : Prop :=
  ∀ a ∈ d, ∀ b ∈ d, normalizeSource cwd a.source = normalizeSource cwd b.source → a = b

theorem pruneOne_none_of_good (cwd : String) (d : List Repo) (hsrc : SourcesDistinct cwd d) (s : Shard)
    (h : ∃ r ∈ d, ident cwd s = identR cwd r) : pruneOne cwd d s = none := by
  obtain ⟨r, hr, hid⟩ := h
  have h1 : s.name = r.name := congrArg Prod.fst hid
  have h2 : normalizeSource cwd s.source = normalizeSource cwd r.source := congrArg Prod.snd hid
  unfold pruneOne
  dsimp only
  cases hf : findDesired cwd d (normalizeSource cwd s.source) with
  | none =>
    exfalso
    unfold findDesired at hf
    rw [List.find?_eq_none] at hf
    have := hf r (by simpa using hr)
    simp [h2] at this
  | some r' =>
    unfold findDesired at hf
    have hmem : r' ∈ d := by simpa using List.mem_of_find?_eq_some hf
    have hp := List.find?_some hf
    simp only [decide_eq_true_eq] at hp
    have : r' = r := hsrc r' hmem r hr (hp.trans h2)
    subst this
    simp [h1]

theorem planPrune_nil_of_good (cwd : String) (d : List Repo) (hsrc : SourcesDistinct cwd d) (inv : Inv)
    (hg : Good cwd d inv) : planPrune cwd d inv = [] := by
  unfold planPrune
  have : inv.filterMap (pruneOne cwd d) = [] := by
    rw [List.filterMap_eq_nil_iff]
    intro s hs
    exact pruneOne_none_of_good cwd d hsrc s (hg s hs)
  rw [this]
  simp

theorem indexState_of_present (cwd : String) (r : Repo) (inv : Inv) (h : String) (hh : r.head = some h)
    (hp : Present cwd r inv) : indexState inv r h = .equal := by
  obtain ⟨h', s, hh', hl, hf, _⟩ := hp
  rw [hh] at hh'
  cases hh'
  unfold indexState
  rw [hl]
  simp only [freshShard, Bool.and_eq_true, decide_eq_true_eq] at hf
  obtain ⟨⟨⟨a, b⟩, c⟩, e⟩ := hf
  simp [a, b, c, e]

/-- a forced loop over repositories that are all present and up to date changes nothing and (re)indexes nothing -/
theorem loop_noop (cwd : String) (repos : List Repo) (st : Run) (hp : ∀ r ∈ repos, Present cwd r st.inv) :
    (repos.foldl (indexOne false []) st).inv = st.inv ∧
    performedIndexing (repos.foldl (indexOne false []) st).events = performedIndexing st.events := by
  induction repos generalizing st with
  | nil => exact ⟨rfl, rfl⟩
  | cons r t ih =>
    rw [List.foldl_cons]
    obtain ⟨h, s, hh, hl, hf, hi⟩ := hp r (List.mem_cons_self ..)
    have he := indexState_of_present cwd r st.inv h hh ⟨h, s, hh, hl, hf, hi⟩
    have hstep : (indexOne false [] st r).inv = st.inv ∧
        performedIndexing (indexOne false [] st r).events = performedIndexing st.events := by
      unfold indexOne
      simp only [hh, Bool.false_eq_true, ↓reduceIte, he]
      simp [performedIndexing]
    obtain ⟨a, b⟩ := ih (indexOne false [] st r) (fun x hx => by rw [hstep.1]; exact hp x (List.mem_cons_of_mem _ hx))
    exact ⟨a.trans hstep.1, b.trans hstep.2⟩

end ZoektModel.C34