/-
C34 — helper lemmas: what survives planPrune, what the forced loop establishes.
-/
import ZoektModel.C34.Spec
import ZoektModel.C33.Lemmas
namespace ZoektModel.C34
open ZoektModel.C33

/-! ### pruning -/

theorem mem_removeAll (paths : List String) (inv : Inv) (s : Shard) :
    s ∈ paths.foldl removePath inv ↔ s ∈ inv ∧ s.path ∉ paths := by
  induction paths generalizing inv with
  | nil => simp
  | cons p t ih =>
    rw [List.foldl_cons, ih]
    unfold removePath
    rw [List.mem_filter]
    simp only [ne_eq, decide_not, Bool.not_eq_eq_eq_not, Bool.not_true, decide_eq_false_iff_not, List.mem_cons, not_or]
    constructor
    · rintro ⟨⟨a, b⟩, c⟩; exact ⟨a, b, c⟩
    · rintro ⟨a, b, c⟩; exact ⟨⟨a, b⟩, c⟩

theorem pruneOne_shard {cwd : String} {d : List Repo} {s : Shard} {a : Action} (h : pruneOne cwd d s = some a) :
    a.shard = s.path := by
  unfold pruneOne at h
  dsimp only at h
  split at h
  · split at h
    · simp at h
    · simp only [Option.some.injEq] at h; rw [← h]
  · simp only [Option.some.injEq] at h; rw [← h]

theorem mem_planPrune {cwd : String} {d : List Repo} {inv : Inv} {a : Action} :
    a ∈ planPrune cwd d inv ↔ ∃ s ∈ inv, pruneOne cwd d s = some a := by
  unfold planPrune
  rw [(List.mergeSort_perm _ _).mem_iff, List.mem_filterMap]

/-- a shard that survives pruning carries the name and (normalised) source of a discovered repository -/
theorem survivor_wanted (cwd : String) (d : List Repo) (inv : Inv) (s : Shard) (hs : s ∈ inv)
    (hp : s.path ∉ (planPrune cwd d inv).map (·.shard)) : ∃ r ∈ d, ident cwd s = identR cwd r := by
  cases hpo : pruneOne cwd d s with
  | some a =>
    exfalso
    apply hp
    rw [List.mem_map]
    exact ⟨a, mem_planPrune.mpr ⟨s, hs, hpo⟩, pruneOne_shard hpo⟩
  | none =>
    unfold pruneOne at hpo
    dsimp only at hpo
    split at hpo
    · rename_i r hr
      split at hpo
      · rename_i hname
        unfold findDesired at hr
        have hmem := List.mem_of_find?_eq_some hr
        have hprop := List.find?_some hr
        refine ⟨r, by simpa using hmem, ?_⟩
        unfold ident identR
        simp only [decide_eq_true_eq] at hprop
        rw [hname, hprop]
      · simp at hpo
    · simp at hpo

/-! ### the forced loop -/

/-- every shard belongs to a discovered repository -/
def Good (cwd : String) (d : List Repo) (inv : Inv) : Prop := ∀ s ∈ inv, ∃ r ∈ d, ident cwd s = identR cwd r

/-- the repository is indexed at its first shard path, up to date, under its own name and source -/
def Present (cwd : String) (r : Repo) (inv : Inv) : Prop :=
  ∃ h s, r.head = some h ∧ lookup inv r.shard0 = some s ∧ freshShard r h s = true ∧ ident cwd s = identR cwd r

theorem Present_congr {cwd : String} {r : Repo} {i j : Inv} (h : lookup i r.shard0 = lookup j r.shard0) :
    Present cwd r i → Present cwd r j := by
  rintro ⟨hh, s, a, b, c, e⟩
  exact ⟨hh, s, a, h ▸ b, c, e⟩

theorem lookup_rebuild_self (inv : Inv) (r : Repo) (h : String) :
    lookup (rebuild inv r h) r.shard0 = some (newShard r h r.shard0) := by
  unfold rebuild
  rw [lookup_append]
  have h1 : lookup (inv.filter (fun s => decide (s.path ∉ allShards inv r ∧ s.path ∉ r.shard0 :: r.more.take r.nNew)))
      r.shard0 = none := by
    apply lookup_none_of_not_mem
    intro s hs
    rw [List.mem_filter] at hs
    intro hp
    have := hs.2
    simp [hp] at this
  rw [h1]
  simp [lookup_cons, newShard]

theorem good_rebuild (cwd : String) (d : List Repo) (inv : Inv) (r : Repo) (hr : r ∈ d) (h : String)
    (hg : Good cwd d inv) : Good cwd d (rebuild inv r h) := by
  intro s hs
  unfold rebuild at hs
  rw [List.mem_append] at hs
  rcases hs with hs | hs
  · exact hg s (List.mem_filter.mp hs).1
  · rw [List.mem_map] at hs
    obtain ⟨p, _, rfl⟩ := hs
    exact ⟨r, hr, rfl⟩

/-- names of the discovered repositories are pairwise different (guaranteed by discoverRepositories) -/
def NamesDistinct (d : List Repo) : Prop := ∀ a ∈ d, ∀ b ∈ d, a.name = b.name → a = b

/-- one step of the forced loop -/
theorem indexOne_step (cwd : String) (d : List Repo) (hn : NamesDistinct d) (st : Run) (r : Repo) (hr : r ∈ d)
    (hg : Good cwd d st.inv) :
    Good cwd d (indexOne false [] st r).inv ∧
    ((indexOne false [] st r).err = false → st.err = false ∧ Present cwd r (indexOne false [] st r).inv) ∧
    (st.err = true → (indexOne false [] st r).err = true) := by
  unfold indexOne
  cases hh : r.head with
  | none => simp [hg]
  | some h =>
    simp only [Bool.false_eq_true, ↓reduceIte]
    by_cases he : indexState st.inv r h = .equal
    · simp only [he, ↓reduceIte]
      refine ⟨hg, ?_, fun x => x⟩
      intro herr
      refine ⟨herr, h, ?_⟩
      -- the shard at r's first path is what IndexState judged equal
      unfold indexState at he
      split at he
      · simp at he
      · rename_i s hs
        split at he
        · simp at he
        · rename_i hname
          split at he
          · simp at he
          · rename_i hopt
            split at he
            · simp at he
            · rename_i hver
              split at he
              · simp at he
              · rename_i hmeta
                refine ⟨s, hh, hs, ?_, ?_⟩
                · simp only [ne_eq, Decidable.not_not] at hname hver
                  simp only [Bool.not_eq_true', Bool.not_eq_false] at hopt hmeta
                  simp [freshShard, hname, hver, hopt, hmeta]
                · obtain ⟨r', hr', hid⟩ := hg s (lookup_some_mem hs)
                  simp only [ne_eq, Decidable.not_not] at hname
                  have hnm : r'.name = r.name := by
                    have := congrArg Prod.fst hid
                    simp only [ident, identR] at this
                    rw [← this, hname]
                  have := hn r' hr' r hr hnm
                  rw [← this]; exact hid
    · simp only [he, ↓reduceIte]
      refine ⟨good_rebuild cwd d st.inv r hr h hg, ?_, fun x => x⟩
      intro herr
      refine ⟨herr, h, newShard r h r.shard0, hh, lookup_rebuild_self _ _ _, ?_, rfl⟩
      simp [freshShard, newShard]

/-- the whole forced loop -/
theorem loop_converges (cwd : String) (d : List Repo) (hn : NamesDistinct d) (repos : List Repo)
    (hsub : ∀ r ∈ repos, r ∈ d) (hw : WF repos) (st : Run) (hg : Good cwd d st.inv) :
    Good cwd d (repos.foldl (indexOne false []) st).inv ∧
    ((repos.foldl (indexOne false []) st).err = false → st.err = false ∧
      ∀ r ∈ repos, Present cwd r (repos.foldl (indexOne false []) st).inv) ∧
    (∀ q, (∀ r ∈ repos, q ∉ r.shard0 :: r.more) →
      lookup (repos.foldl (indexOne false []) st).inv q = lookup st.inv q) := by
  induction repos generalizing st with
  | nil => exact ⟨hg, fun h => ⟨h, by simp⟩, fun _ _ => rfl⟩
  | cons r t ih =>
    rw [List.foldl_cons]
    unfold WF at hw
    rw [List.pairwise_cons] at hw
    obtain ⟨s1, s2, s3⟩ := indexOne_step cwd d hn st r (hsub r (List.mem_cons_self ..)) hg
    obtain ⟨i1, i2, i3⟩ := ih (fun x hx => hsub x (List.mem_cons_of_mem _ hx)) hw.2 (indexOne false [] st r) s1
    refine ⟨i1, ?_, ?_⟩
    · intro herr
      obtain ⟨e1, pt⟩ := i2 herr
      obtain ⟨e0, pr⟩ := s2 e1
      refine ⟨e0, ?_⟩
      intro x hx
      rcases List.mem_cons.mp hx with rfl | hx
      · refine Present_congr ?_ pr
        exact (i3 x.shard0 (fun r' hr' => (hw.1 r' hr').1)).symm
      · exact pt x hx
    · intro q hq
      rw [i3 q (fun r' hr' => hq r' (List.mem_cons_of_mem _ hr'))]
      exact indexOne_force_lookup [] st r q (hq r (List.mem_cons_self ..))

/-! ### remove: records, selection -/

def mkRecord (cwd : String) (inv : Inv) (k : String × String) : Record :=
  ⟨k.1, k.2, ((inv.filter (fun s => keyOf cwd s = k)).map (·.path)).mergeSort leStr⟩

theorem mem_dedupKeys (l : List (String × String)) (k : String × String) : k ∈ dedupKeys l ↔ k ∈ l := by
  induction l with
  | nil => simp [dedupKeys]
  | cons a t ih =>
    simp only [dedupKeys, List.mem_cons, List.mem_filter, ih]
    by_cases h : k = a <;> simp [h]

theorem mem_mkRecord_shards (cwd : String) (inv : Inv) (k : String × String) (p : String) :
    p ∈ (mkRecord cwd inv k).shards ↔ ∃ s ∈ inv, ident cwd s = k ∧ s.path = p := by
  unfold mkRecord
  simp only
  rw [(List.mergeSort_perm _ _).mem_iff, List.mem_map]
  constructor
  · rintro ⟨s, hs, rfl⟩
    rw [List.mem_filter] at hs
    exact ⟨s, hs.1, of_decide_eq_true hs.2, rfl⟩
  · rintro ⟨s, hs, hk, rfl⟩
    exact ⟨s, List.mem_filter.mpr ⟨hs, decide_eq_true hk⟩, rfl⟩

/-- what `selectRecords` matches for a selector is, record for record, what the selector denotes -/
theorem matchesOf_spec (cwd : String) (inv : Inv) (sel : String) :
    ∃ L : List (String × String),
      matchesOf cwd (recordsFromShards cwd inv) sel = L.map (mkRecord cwd inv) ∧ L.Perm (denotes cwd inv sel) := by
  have hK := List.mergeSort_perm (dedupKeys (inv.map (keyOf cwd))) leKey
  have hrecs : recordsFromShards cwd inv =
      ((dedupKeys (inv.map (keyOf cwd))).mergeSort leKey).map (mkRecord cwd inv) := rfl
  have hids : identities cwd inv = dedupKeys (inv.map (keyOf cwd)) := rfl
  generalize (dedupKeys (inv.map (keyOf cwd))).mergeSort leKey = K at hK hrecs
  unfold matchesOf denotes
  rw [hrecs, hids]
  simp only [List.filter_map]
  have e1 : ((fun r : Record => decide (r.name = sel)) ∘ mkRecord cwd inv) = fun k => decide (k.1 = sel) := rfl
  have e2 : ((fun r : Record => decide (r.source ≠ "" ∧ r.source = normalizeSource cwd sel)) ∘ mkRecord cwd inv) =
      fun k => decide (k.2 ≠ "" ∧ k.2 = normalizeSource cwd sel) := rfl
  rw [e1, e2]
  have p1 := List.Perm.filter (fun k : String × String => decide (k.1 = sel)) hK
  have p2 := List.Perm.filter (fun k : String × String => decide (k.2 ≠ "" ∧ k.2 = normalizeSource cwd sel)) hK
  have hemp : (List.map (mkRecord cwd inv) (List.filter (fun k => decide (k.1 = sel)) K)).isEmpty =
      (List.filter (fun k => decide (k.1 = sel)) (dedupKeys (inv.map (keyOf cwd)))).isEmpty := by
    rw [← p1.isEmpty_eq]; simp
  rw [hemp]
  split
  · exact ⟨_, rfl, p2⟩
  · exact ⟨_, rfl, p1⟩

theorem mkRecord_inj (cwd : String) (inv : Inv) (a b : String × String) (h : mkRecord cwd inv a = mkRecord cwd inv b) :
    a = b := by
  have h1 := congrArg Record.name h
  have h2 := congrArg Record.source h
  simp only [mkRecord] at h1 h2
  exact Prod.ext h1 h2

/-- every member of the accumulator is a record of the inventory -/
def AccOK (cwd : String) (inv : Inv) (acc : List Record) : Prop := ∀ a ∈ acc, ∃ k, a = mkRecord cwd inv k

theorem any_acc_iff (cwd : String) (inv : Inv) (acc : List Record) (hacc : AccOK cwd inv acc) (k : String × String) :
    (acc.any fun r => decide (r.name = (mkRecord cwd inv k).name ∧ r.source = (mkRecord cwd inv k).source)) = true ↔
      mkRecord cwd inv k ∈ acc := by
  rw [List.any_eq_true]
  constructor
  · rintro ⟨a, ha, h⟩
    obtain ⟨k', rfl⟩ := hacc a ha
    have h' := of_decide_eq_true h
    have : k' = k := Prod.ext h'.1 h'.2
    rw [← this]; exact ha
  · intro h
    exact ⟨_, h, by simp⟩

/-- the loop of `selectRecords`: it succeeds iff every selector denotes exactly one repository, and then holds exactly
    the records of the denoted repositories (plus what it started with) -/
theorem selectLoop_spec (cwd : String) (inv : Inv) (sels : List String) (acc : List Record) (hacc : AccOK cwd inv acc) :
    (∀ res, selectLoop cwd (recordsFromShards cwd inv) sels acc = .ok res →
      (∀ sel ∈ sels, (denotes cwd inv sel).length = 1) ∧ AccOK cwd inv res ∧
      ∀ k, mkRecord cwd inv k ∈ res ↔ mkRecord cwd inv k ∈ acc ∨ ∃ sel ∈ sels, denotes cwd inv sel = [k]) ∧
    (∀ e, selectLoop cwd (recordsFromShards cwd inv) sels acc = .error e →
      ∃ sel ∈ sels, (denotes cwd inv sel).length ≠ 1) := by
  induction sels generalizing acc with
  | nil =>
    constructor
    · intro res h
      simp only [selectLoop, Except.ok.injEq] at h
      subst h
      exact ⟨by simp, hacc, by simp⟩
    · intro e h; simp [selectLoop] at h
  | cons sel rest ih =>
    obtain ⟨L, hL, hperm⟩ := matchesOf_spec cwd inv sel
    match L, hL, hperm with
    | [], hL, hperm =>
      have hd : denotes cwd inv sel = [] := (List.Perm.nil_eq hperm).symm
      constructor
      · intro res h; simp [selectLoop, hL] at h
      · intro e _; exact ⟨sel, List.mem_cons_self .., by simp [hd]⟩
    | [k], hL, hperm =>
      have hd : denotes cwd inv sel = [k] := List.perm_singleton.mp hperm.symm
      have hstep : selectLoop cwd (recordsFromShards cwd inv) (sel :: rest) acc =
          selectLoop cwd (recordsFromShards cwd inv) rest
            (if (acc.any fun r => decide (r.name = (mkRecord cwd inv k).name ∧ r.source = (mkRecord cwd inv k).source)) = true
              then acc else acc ++ [mkRecord cwd inv k]) := by
        simp [selectLoop, hL]
      have hany := any_acc_iff cwd inv acc hacc k
      have hacc' : AccOK cwd inv (if (acc.any fun r => decide (r.name = (mkRecord cwd inv k).name ∧
          r.source = (mkRecord cwd inv k).source)) = true then acc else acc ++ [mkRecord cwd inv k]) := by
        split
        · exact hacc
        · intro a ha
          rcases List.mem_append.mp ha with ha | ha
          · exact hacc a ha
          · exact ⟨k, by simpa using ha⟩
      obtain ⟨ih1, ih2⟩ := ih _ hacc'
      rw [hstep]
      constructor
      · intro res h
        obtain ⟨a1, a2, a3⟩ := ih1 res h
        refine ⟨?_, a2, ?_⟩
        · intro s hs
          rcases List.mem_cons.mp hs with rfl | hs
          · simp [hd]
          · exact a1 s hs
        · intro k'
          rw [a3 k']
          have hmem : mkRecord cwd inv k' ∈ (if (acc.any fun r => decide (r.name = (mkRecord cwd inv k).name ∧
              r.source = (mkRecord cwd inv k).source)) = true then acc else acc ++ [mkRecord cwd inv k]) ↔
              mkRecord cwd inv k' ∈ acc ∨ k' = k := by
            split
            · rename_i hc
              have hk := hany.mp hc
              constructor
              · exact fun h => Or.inl h
              · rintro (h | rfl)
                · exact h
                · exact hk
            · rw [List.mem_append, List.mem_singleton]
              constructor
              · rintro (h | h)
                · exact Or.inl h
                · exact Or.inr (mkRecord_inj cwd inv _ _ h)
              · rintro (h | rfl)
                · exact Or.inl h
                · exact Or.inr rfl
          rw [hmem]
          constructor
          · rintro ((h | rfl) | ⟨s, hs, hds⟩)
            · exact Or.inl h
            · exact Or.inr ⟨sel, List.mem_cons_self .., hd⟩
            · exact Or.inr ⟨s, List.mem_cons_of_mem _ hs, hds⟩
          · rintro (h | ⟨s, hs, hds⟩)
            · exact Or.inl (Or.inl h)
            · rcases List.mem_cons.mp hs with rfl | hs
              · rw [hd] at hds
                simp only [List.cons.injEq, and_true] at hds
                exact Or.inl (Or.inr hds.symm)
              · exact Or.inr ⟨s, hs, hds⟩
      · intro e h
        obtain ⟨s, hs, hne⟩ := ih2 e h
        exact ⟨s, List.mem_cons_of_mem _ hs, hne⟩
    | k1 :: k2 :: t, hL, hperm =>
      constructor
      · intro res h; simp [selectLoop, hL] at h
      · intro e _
        refine ⟨sel, List.mem_cons_self .., ?_⟩
        rw [← hperm.length_eq]; simp

theorem removeAll_eq_filter (paths : List String) (inv : Inv) :
    paths.foldl removePath inv = inv.filter (fun s => decide (s.path ∉ paths)) := by
  induction paths generalizing inv with
  | nil =>
    simp only [List.foldl_nil, List.not_mem_nil, not_false_eq_true, decide_true]
    exact (List.filter_eq_self.mpr (fun _ _ => rfl)).symm
  | cons p t ih =>
    rw [List.foldl_cons, ih]
    unfold removePath
    rw [List.filter_filter]
    apply List.filter_congr
    intro s _
    by_cases h1 : s.path = p <;> by_cases h2 : s.path ∈ t <;> simp [h1, h2]

end ZoektModel.C34