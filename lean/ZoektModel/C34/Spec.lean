/-
C34 — the property as executable predicates, written from the statement:

  "After `zoekt-local-sync -f` succeeds for a set of roots, the index holds exactly one up-to-date repository for each
   Git repository discovered under those roots, named by its path relative to its root, and nothing else; if two
   discovered repositories would get the same name the command fails before changing the index; `remove -f` deletes
   exactly the selected repository's shards."
-/
import ZoektModel.C34.Model
import ZoektModel.C33.Spec
namespace ZoektModel.C34
open ZoektModel.C33

/-! ### which directories are the repositories under a root (no walking order, no skipping: every directory is
    listed, then the outermost repositories are kept) -/

mutual
/-- every directory below (and including) an entry: path components, entry name, entries -/
def allDirs (pre : List String) (name : String) : Tree → List (List String × String × Entries)
  | .dir es => (pre, name, es) :: allDirsList pre es
  | .file => []
  | .other => []
def allDirsList (pre : List String) : Entries → List (List String × String × Entries)
  | [] => []
  | (n, t) :: rest => allDirs (pre ++ [n]) n t ++ allDirsList pre rest
end

/-- a directory is a Git repository: it has `.git` (work tree), or it is called `*.git` and has `objects/` (bare) -/
def kindOf (name : String) (es : Entries) : Option Bool :=
  if isWork es then some false else if isBare name es then some true else none

def isRepoDir (d : List String × String × Entries) : Bool := (kindOf d.2.1 d.2.2).isSome

/-- the repositories under a root: repository directories that do not lie inside another repository -/
def expectedFound (rootName : String) (t : Tree) : List Found :=
  let ds := allDirs [] rootName t
  ds.filterMap fun d =>
    match kindOf d.2.1 d.2.2 with
    | none => none
    | some b =>
      if ds.any (fun a => isRepoDir a && decide (a.1 ≠ d.1) && a.1.isPrefixOf d.1) then none else some (d.1, b)

def kindOfT (name : String) : Tree → Option Bool
  | .dir es => kindOf name es
  | _ => none

/-- the directory reached from `t` (an entry called `name`) along `path` is a Git repository (bare iff `b`) and no
    directory on the way to it is one: "a repository discovered under the root", nested ones excluded -/
def TopRepo : String → Tree → List String → Bool → Prop
  | name, t, [], b => kindOfT name t = some b
  | name, t, n :: rest, b => kindOfT name t = none ∧ ∃ es t', t = .dir es ∧ (n, t') ∈ es ∧ TopRepo n t' rest b

/-- no two names, no two sources -/
def Distinct (l : List (String × String)) : Prop := (l.map (·.1)).Nodup ∧ (l.map (·.2)).Nodup

/-- everything found under the roots, root by root -/
def allFound (roots : List (String × Tree)) : List (String × String) :=
  roots.flatMap fun rt => discoverRoot rt.1 rt.2

/-- named by the path relative to the root (the root itself by its base name; a bare `x.git` as `x`) -/
def expectedSpecs (roots : List (String × Tree)) : List (String × String) :=
  roots.flatMap fun rt => (expectedFound (baseName rt.1) rt.2).map (specOf rt.1)

def nodupB {α} [DecidableEq α] : List α → Bool
  | [] => true
  | a :: t => !(t.contains a) && nodupB t

/-- discovery must fail iff two repositories get the same name (or one repository is reached twice) -/
def discoveryMustFail (roots : List (String × Tree)) : Bool :=
  !(nodupB (roots.map (·.1))) || !(nodupB ((expectedSpecs roots).map (·.1))) || !(nodupB ((expectedSpecs roots).map (·.2)))

/-- `checkDiscover`: what the implementation returned (`none` = error) against the statement -/
def checkDiscover (roots : List (String × Tree)) (impl : Option (List (String × String))) : Bool :=
  match impl with
  | none => discoveryMustFail roots
  | some l => !(discoveryMustFail roots) && sameSet l (expectedSpecs roots) && nodupB l

/-! ### after a successful `sync -f` -/

def ident (cwd : String) (s : Shard) : String × String := (s.name, normalizeSource cwd s.source)
def identR (cwd : String) (r : Repo) : String × String := (r.name, normalizeSource cwd r.source)

def freshShard (r : Repo) (h : String) (s : Shard) : Bool :=
  decide (s.name = r.name) && decide (s.ver = h) && s.optOk && s.metaOk

/-- nothing else: every shard belongs to a discovered repository -/
def nothingElse (cwd : String) (desired : List Repo) (post : Inv) : Bool :=
  post.all fun s => desired.any fun r => decide (ident cwd s = identR cwd r)

/-- each discovered repository is there, at the path its name determines, and up to date -/
def eachPresent (cwd : String) (desired : List Repo) (post : Inv) : Bool :=
  desired.all fun r =>
    match r.head, lookup post r.shard0 with
    | some h, some s => freshShard r h s && decide (ident cwd s = identR cwd r)
    | _, _ => false

/-- exactly one: every shard that carries the repository's name and source is part of its one shard set and up to date -/
def exactlyOne (cwd : String) (desired : List Repo) (post : Inv) : Bool :=
  desired.all fun r =>
    match r.head with
    | none => false
    | some h =>
      (post.filter (fun s => decide (ident cwd s = identR cwd r))).all fun s =>
        decide (s.path ∈ allShards post r) && freshShard r h s

def converged (cwd : String) (desired : List Repo) (post : Inv) : Bool :=
  nothingElse cwd desired post && eachPresent cwd desired post && exactlyOne cwd desired post

/-! ### `remove -f` -/

/-- the repositories (name, normalised source) present in an inventory -/
def identities (cwd : String) (inv : Inv) : List (String × String) := dedupKeys (inv.map (ident cwd))

/-- what a selector denotes: the repositories with that name; if there is none, those with that source -/
def denotes (cwd : String) (inv : Inv) (sel : String) : List (String × String) :=
  let ids := identities cwd inv
  let byName := ids.filter (fun k => k.1 = sel)
  if byName.isEmpty then ids.filter (fun k => k.2 ≠ "" ∧ k.2 = normalizeSource cwd sel) else byName

/-- `remove -f`: if every selector denotes exactly one repository, exactly the shards of those repositories are gone;
    otherwise the command fails and nothing is gone -/
def removeExact (cwd : String) (sels : List String) (inv post : Inv) (failed : Bool) : Bool :=
  if sels.all (fun sel => (denotes cwd inv sel).length = 1) then
    !failed && decide (post = inv.filter (fun s => !(sels.any fun sel => denotes cwd inv sel = [ident cwd s])))
  else failed && decide (post = inv)

/-- `selectRecords` against the statement: it succeeds iff every selector denotes exactly one repository, and then
    returns exactly the denoted repositories, each with exactly its shards -/
def checkSelect (cwd : String) (sels : List String) (inv : Inv) (impl : Option (List Record)) : Bool :=
  let unique := sels.all (fun sel => (denotes cwd inv sel).length = 1)
  match impl with
  | none => !unique
  | some recs =>
    unique &&
    sameSet (recs.map fun r => (r.name, r.source)) (sels.flatMap (denotes cwd inv)) &&
    nodupB (recs.map fun r => (r.name, r.source)) &&
    recs.all fun r => sameSet r.shards ((inv.filter fun s => ident cwd s = (r.name, r.source)).map (·.path))

end ZoektModel.C34
