/-
C34 — model of cmd/zoekt-local-sync/discover.go (discoverRoot, discoverRepositories) and of the command-level order of
steps in main.go:runSync (discover → readInventory → planPrune → applyRemovals → indexRepositories).
The planning / execution model over inventories is shared with C33 (C33/Model.lean).  Core Lean only.

A root directory is a `Tree`: what `fs.WalkDir` + `fs.Stat` see below it (symlinks are not modelled: the harness
does not create any, and `os.Root` refuses the ones that leave the root).
-/
import ZoektModel.C33.Model
namespace ZoektModel.C34
open ZoektModel.C33

inductive Tree where
  | file : Tree
  | other : Tree                          -- exists, neither a regular file nor a directory
  | dir : List (String × Tree) → Tree     -- entries in the order `fs.WalkDir` visits them (sorted by name)
  deriving Repr

abbrev Entries := List (String × Tree)

/-- `fs.Stat(rootFS, path.Join(dir, name))` for a direct child -/
def child (es : Entries) (n : String) : Option Tree := (es.find? (fun e => e.1 = n)).map (·.2)

/-- `.git` exists and is a directory or a regular file -/
def isWork (es : Entries) : Bool :=
  match child es ".git" with
  | some .file => true
  | some (.dir _) => true
  | _ => false

/-- the directory is called `*.git` and `objects` in it is a directory -/
def isBare (entryName : String) (es : Entries) : Bool :=
  entryName.endsWith ".git" &&
  match child es "objects" with
  | some (.dir _) => true
  | _ => false

/-- a found repository: path components relative to the root (`[]` = the root itself) and whether it is bare -/
abbrev Found := List String × Bool

mutual
/-- the `fs.WalkDir` callback of `discoverRoot` at one entry called `entryName` (the root's base name for the root
    itself); found repositories are given by their path components relative to that entry -/
def walk (entryName : String) : Tree → List Found
  | .dir es =>
    if isWork es then [([], false)]            -- add(relativePath, false); fs.SkipDir
    else if isBare entryName es then [([], true)]
    else walkList es
  | .file => []
  | .other => []
def walkList : Entries → List Found
  | [] => []
  | (n, t) :: rest => (walk n t).map (fun f => (n :: f.1, f.2)) ++ walkList rest
end

def baseName (root : String) : String := (root.splitOn "/").getLast?.getD ""

def trimGit (s : String) : String := if s.endsWith ".git" then (s.dropEnd 4).toString else s

/-- `add` in `discoverRoot`: name and source of a found repository -/
def specOf (root : String) (f : Found) : String × String :=
  let rel := "/".intercalate f.1
  let name := if f.1 = [] then baseName root else rel
  (if f.2 then trimGit name else name, if f.1 = [] then root else root ++ "/" ++ rel)

/-- `discoverRoot` for a resolved root path -/
def discoverRoot (root : String) (t : Tree) : List (String × String) :=
  (walk (baseName root) t).map (specOf root)

inductive DiscErr where
  | dupRoot | dupName | dupSource
  deriving Repr, DecidableEq

/-- the duplicate checks of `discoverRepositories`, in its order (name first, then source) -/
def addAll : List (String × String) → List (String × String) → Except DiscErr (List (String × String))
  | acc, [] => .ok acc
  | acc, r :: rest =>
    if acc.any (fun a => a.1 = r.1) then .error .dupName
    else if acc.any (fun a => a.2 = r.2) then .error .dupSource
    else addAll (acc ++ [r]) rest

def discoverLoop : List (String × String) → List (String × Tree) → Except DiscErr (List (String × String))
  | acc, [] => .ok acc
  | acc, (root, t) :: rest =>
    match addAll acc (discoverRoot root t) with
    | .error e => .error e
    | .ok acc' => discoverLoop acc' rest

def leName (a b : String × String) : Bool := decide (a.1 ≤ b.1)

def hasDup : List String → Bool
  | [] => false
  | a :: t => t.contains a || hasDup t

/-- `discoverRepositories` for resolved roots -/
def discoverRepositories (roots : List (String × Tree)) : Except DiscErr (List (String × String)) :=
  if hasDup (roots.map (·.1)) then .error .dupRoot else
  (discoverLoop [] roots).map (·.mergeSort leName)

/-! ### the command: discovery first, then everything else -/

structure CmdRun where
  discErr : Option DiscErr
  run : Run
  deriving Repr

/-- `runSync` from the top. `mk` turns a discovered (name, source) into the model's `Repo` (resolved HEAD, shard paths:
    what IndexGitRepo and the builder derive — supplied by the harness). -/
def syncCmd (force : Bool) (cwd : String) (roots : List (String × Tree)) (mk : String × String → Repo) (inv : Inv) : CmdRun :=
  match discoverRepositories roots with
  | .error e => ⟨some e, ⟨[], inv, true⟩⟩
  | .ok specs => ⟨none, runSync force cwd (specs.map mk) inv⟩

end ZoektModel.C34
