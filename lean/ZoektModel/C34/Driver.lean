import ZoektModel.Basic.Proto
namespace ZoektModel.C34
/-- stub: no model driver for C34 yet -/
def main : IO Unit := ZoektModel.Proto.runLines (fun _ => ZoektModel.Proto.badCase "no model driver for C34")
end ZoektModel.C34
