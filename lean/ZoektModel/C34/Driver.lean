import ZoektModel.Basic.Proto
import ZoektModel.C33.Driver
import ZoektModel.C34.Spec
namespace ZoektModel.C34
open ZoektModel ZoektModel.Proto ZoektModel.C33

/-! ### trees: pre-order tokens separated by `,` — `d<nameHex>` opens a directory, `u` closes it, `f<nameHex>` a regular
    file, `o<nameHex>` anything else; `_` = empty directory -/

def tokName (tok : String) : Option String := hexStr? (tok.drop 1).toString

/-- parse entries until the matching `u` (or the end); fuel = number of tokens -/
def parseEntries : Nat → List String → Option (Entries × List String)
  | 0, toks => some ([], toks)
  | _ + 1, [] => some ([], [])
  | fuel + 1, tok :: rest =>
    if tok == "u" then some ([], rest)
    else if tok.startsWith "d" then do
      let n ← tokName tok
      let (sub, rest1) ← parseEntries fuel rest
      let (sibs, rest2) ← parseEntries fuel rest1
      pure ((n, Tree.dir sub) :: sibs, rest2)
    else if tok.startsWith "f" then do
      let n ← tokName tok
      let (sibs, rest1) ← parseEntries fuel rest
      pure ((n, Tree.file) :: sibs, rest1)
    else if tok.startsWith "o" then do
      let n ← tokName tok
      let (sibs, rest1) ← parseEntries fuel rest
      pure ((n, Tree.other) :: sibs, rest1)
    else none

def parseTree (s : String) : Option Tree :=
  if s == "_" then some (.dir []) else
  let toks := s.splitOn ","
  match parseEntries (toks.length + 1) toks with
  | some (es, []) => some (.dir es)
  | _ => none

/-- roots: `pathHex=tree` separated by `;` -/
def parseRoot (s : String) : Option (String × Tree) :=
  match s.splitOn "=" with
  | [p, t] => do pure (← hexStr? p, ← parseTree t)
  | _ => none

def showSpecs (l : List (String × String)) : String := showL ";" (fun p => strHex p.1 ++ ":" ++ strHex p.2) l

def parseSpec (s : String) : Option (String × String) :=
  match s.splitOn ":" with
  | [a, b] => do pure (← hexStr? a, ← hexStr? b)
  | _ => none

def showDisc : Except DiscErr (List (String × String)) → String
  | .ok l => "ok " ++ showSpecs l
  | .error .dupRoot => "err duproot"
  | .error .dupName => "err dupname"
  | .error .dupSource => "err dupsource"

def showRecord (r : Record) : String := strHex r.name ++ ":" ++ strHex r.source ++ ":" ++ showL "," strHex r.shards

def parseRecord (s : String) : Option Record :=
  match s.splitOn ":" with
  | [a, b, c] => do pure ⟨← hexStr? a, ← hexStr? b, ← list? "," hexStr? c⟩
  | _ => none

def showSel : Except SelErr (List Record) → String
  | .ok l => "ok " ++ showL ";" showRecord l
  | .error .notFound => "err notfound"
  | .error .ambiguous => "err ambiguous"

structure Impl where
  fc : List Event
  fcerr : String
  post : Inv

def parseImpl (s : String) : Option Impl :=
  match fields s with
  | [d, e, f] => do
    pure ⟨← list? "," parseEvent (← kv? "fc" d), ← kv? "fcerr" e, ← list? ";" parseShard (← kv? "post" f)⟩
  | _ => none

def renderF (fc : List Event) (fcerr : String) (post : Inv) : String :=
  s!"fc={showL "," showEvent fc} fcerr={fcerr} post={showL ";" showShard (sortInv post)}"

/-- class of a convergence failure. `stale-shard-kept` (the known finding) only if the shards to blame were already
    there before the run, carry a discovered repository's name and source and lay *outside* the contiguous shard run
    `FindAllShards` sees for that repository in the prior state minus the run's own removals (so neither IndexState nor Builder.Finish ever look at
    them), and the rest of the final inventory is as the statement demands. Anything else is `not-converged`. -/
def convergenceKey (cwd : String) (desired : List Repo) (inv : Inv) (removed : List String) (post : Inv) : String :=
  let inv1 := inv.filter fun s => !removed.contains s.path      -- the prior state after the run's own removals
  let stray := post.filter fun s => inv1.contains s && desired.any fun r =>
    decide (ident cwd s = identR cwd r) && !((allShards inv1 r).contains s.path)
  let post' := post.filter (fun s => !stray.contains s)
  if !stray.isEmpty && converged cwd desired post' then "stale-shard-kept" else "not-converged"

def handle (line : String) : String :=
  let (inp, impl) := splitCase line
  match fields inp with
  | ["discover", rs] =>
    match list? ";" parseRoot rs with
    | some roots =>
      let model := showDisc (discoverRepositories roots)
      let implRes : Option (Option (List (String × String))) :=
        match fields impl with
        | ["ok", l] => (list? ";" parseSpec l).map some
        | ["err", _] => some none
        | _ => none
      match implRes with
      | none => badCase "impl output"
      | some res => if checkDiscover roots res then answer model else specFail model "discover-spec"
    | none => badCase "fields"
  | ["fsync", cwd, ds, ss] =>
    match hexStr? cwd, list? ";" parseRepo ds, list? ";" parseShard ss with
    | some cwd, some desired, some inv =>
      if !apartAll desired then badCase "shard paths of two repositories interfere" else
      let f := runSync true cwd desired inv
      let model := renderF f.events (boolErr f.err) f.inv
      match parseImpl impl with
      | none => badCase "impl output"
      | some i =>
        if i.fcerr == "ok" && !(converged cwd desired (sortInv i.post)) then
          specFail model (convergenceKey cwd desired inv (performedRemovals i.fc) (sortInv i.post))
        else answer model
    | _, _, _ => badCase "fields"
  | ["fremove", cwd, sels, ss] =>
    match hexStr? cwd, list? "," hexStr? sels, list? ";" parseShard ss with
    | some cwd, some sels, some inv =>
      let f := runRemove true cwd sels inv
      let model := renderF f.events (showErr f.err) f.inv
      match parseImpl impl with
      | none => badCase "impl output"
      | some i =>
        if !(removeExact cwd sels (sortInv inv) (sortInv i.post) (i.fcerr != "ok")) then specFail model "remove-not-exact"
        else answer model
    | _, _, _ => badCase "fields"
  | ["select", cwd, sels, ss] =>
    match hexStr? cwd, list? "," hexStr? sels, list? ";" parseShard ss with
    | some cwd, some sels, some inv =>
      let model := showSel (selectRecords cwd (recordsFromShards cwd inv) sels)
      let implRes : Option (Option (List Record)) :=
        match fields impl with
        | ["ok", l] => (list? ";" parseRecord l).map some
        | ["err", _] => some none
        | _ => none
      match implRes with
      | none => badCase "impl output"
      | some res => if checkSelect cwd sels inv res then answer model else specFail model "select-spec"
    | _, _, _ => badCase "fields"
  | ["norm", cwd, src] =>
    match hexStr? cwd, hexStr? src with
    | some cwd, some src => answer (strHex (normalizeSource cwd src))
    | _, _ => badCase "fields"
  | _ => badCase "op"

def main : IO Unit := runLines handle
end ZoektModel.C34
