import ZoektModel.Basic.Proto
import ZoektModel.C05.Spec
import ZoektModel.C05.Codec
namespace ZoektModel.C05
open ZoektModel ZoektModel.Proto ZoektModel.Query

/-- failure class of a non-equivalent rewrite: `branch-empty-pattern` when reading `Branch ""` as TRUE in the
    original makes the two trees agree (the known degenerate class), `not-equivalent` otherwise -/
def failKey (same : Q → Q → Bool) (q q' : Q) : String :=
  if hasEmptyBranch q && same (map emptyBranchAsTrue q) q' then "branch-empty-pattern" else "not-equivalent"

def pCtx : P (List Shard) := pCounted pShard

/-- shard-independent rewrites: `<op> <ctx> <q>`, impl = rewritten tree -/
def rewriteOp (f : Q → Q) (r : List String) (impl : String) : String :=
  match pCtx r with
  | none => badCase "ctx"
  | some (ctx, r) =>
    match pTree r with
    | some (q, []) =>
      let model := showQ (f q)
      match parseQ? impl with
      | none => badCase "impl tree"
      | some q' =>
        if checkP ctx q q' then answer model else specFail model (failKey (sameDocs ctx) q q')
    | _ => badCase "query"

def handle (line : String) : String :=
  let (inp, impl) := splitCase line
  match fields inp with
  | "ec" :: r => rewriteOp evalConstants r impl
  | "simp" :: r => rewriteOp simplify r impl
  | "exp" :: r => rewriteOp expand r impl
  | "strip" :: r => rewriteOp stripCaseScopes r impl
  | "fl" :: r =>
    -- one flatten step: impl = `<changed> <tree>`
    match pCtx r with
    | none => badCase "ctx"
    | some (ctx, r) =>
      match pTree r with
      | some (q, []) =>
        let m := flatten q
        let model := s!"{flag m.2} {showQ m.1}"
        match fields impl with
        | c :: t =>
          match bool? c, pTree t with
          | some _, some (q', []) =>
            if checkP ctx q q' then answer model else specFail model (failKey (sameDocs ctx) q q')
          | _, _ => badCase "impl tree"
        | _ => badCase "impl"
      | _ => badCase "query"
  | "ss" :: r =>
    -- per-shard simplification: `ss <ctx> <i> <q>`, impl = rewritten tree
    match pCtx r with
    | none => badCase "ctx"
    | some (ctx, r) =>
      match pNat r with
      | none => badCase "shard index"
      | some (i, r) =>
        match ctx[i]?, pTree r with
        | some s, some (q, []) =>
          let model := showQ (shardSimplify s q)
          match parseQ? impl with
          | none => badCase "impl tree"
          | some q' =>
            if checkPShard ctx s q q' then answer model
            else specFail model (failKey (sameDocsIn ctx s) q q')
        | _, _ => badCase "query"
  | "search" :: r =>
    -- end to end: `search <ctx> <i> <q>`, impl = positions of the documents the real shard search returned
    match pCtx r with
    | none => badCase "ctx"
    | some (ctx, r) =>
      match pNat r with
      | none => badCase "shard index"
      | some (i, r) =>
        match ctx[i]?, pTree r with
        | some s, some (q, []) =>
          -- what the code does: simplify against the shard, expand, evaluate
          let model := showNatList (selected ctx s (expand (shardSimplify s q)))
          match natList? impl with
          | none => badCase "impl docs"
          | some docs =>
            if docs == selected ctx s q then answer model
            else
              let alt := selected ctx s (map emptyBranchAsTrue q)
              specFail model (if hasEmptyBranch q && docs == alt then "branch-empty-pattern" else "search-differs")
        | _, _ => badCase "query"
  | _ => badCase "op"

def main : IO Unit := runLines handle
end ZoektModel.C05
