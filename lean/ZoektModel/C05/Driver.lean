import ZoektModel.Basic.Proto
namespace ZoektModel.C05
/-- stub: no model driver for C05 yet -/
def main : IO Unit := ZoektModel.Proto.runLines (fun _ => ZoektModel.Proto.badCase "no model driver for C05")
end ZoektModel.C05
