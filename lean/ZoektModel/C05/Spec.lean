/-
C05 — the property as an executable predicate: a rewritten tree selects exactly the documents the original
selects, on every live document of the corpus.  Written from the statement; evaluated by the driver on the
*implementation's* rewritten tree and used verbatim in Props/C05.lean.
-/
import ZoektModel.C05.Model
namespace ZoektModel.Query

/-- `q` and `q'` select the same live documents of shard `s` (corpus `ctx`) -/
def sameDocsIn (ctx : List Shard) (s : Shard) (q q' : Q) : Bool :=
  s.docs.all fun d => !s.live d || eval q ctx s d == eval q' ctx s d

/-- … of every shard of the corpus -/
def sameDocs (ctx : List Shard) (q q' : Q) : Bool :=
  ctx.all fun s => sameDocsIn ctx s q q'

/-- C05 for a shard-independent rewrite (constant folding, flattening, Simplify, file/content expansion,
    case-scope stripping) -/
def checkP (ctx : List Shard) (q q' : Q) : Bool := sameDocs ctx q q'

/-- C05 for the per-shard simplification of shard `s` -/
def checkPShard (ctx : List Shard) (s : Shard) (q q' : Q) : Bool := sameDocsIn ctx s q q'

/-- the documents (by position) of `s` that a search for `q` must return -/
def selected (ctx : List Shard) (s : Shard) (q : Q) : List Nat :=
  (List.range s.docs.length).filter fun i =>
    match s.docs[i]? with
    | some d => s.live d && eval q ctx s d
    | none => false

/-! the input class on which the full statement is false on the unchanged tree (DESIGN §8): a `Branch` atom with
    an empty pattern is folded to TRUE, but evaluates to "the document is on a branch whose name contains/equals
    the empty string".  `wf nb nt q`: with `nb = true` no `Branch` atom with an empty pattern anywhere the rewrites reach; with
    `nt = true` no `type:repo` node (the shape of every query that reaches a shard: `typeRepoSearcher`
    has replaced those nodes before). -/
mutual
def wf (nb nt : Bool) : Q → Bool
  | .and cs => wfL nb nt cs
  | .or cs => wfL nb nt cs
  | .not c => wf nb nt c
  | .type t c => (!nt || t != 2) && wf nb nt c
  | .boost _ c => wf nb nt c
  | .caseScope c => wf nb nt c
  | .branch pat _ => !nb || !pat.isEmpty
  | _ => true
def wfL (nb nt : Bool) : List Q → Bool
  | [] => true
  | c :: cs => wf nb nt c && wfL nb nt cs
end

def hasEmptyBranch (q : Q) : Bool := !wf true false q

/-- read `Branch ""` as TRUE (the reading under which folding it is harmless) -/
def emptyBranchAsTrue : Q → Q
  | .branch pat e => if pat.isEmpty then .const true else .branch pat e
  | q => q

end ZoektModel.Query
