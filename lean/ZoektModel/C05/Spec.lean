/-
C05 — the property as an executable predicate: a rewritten tree selects exactly the documents the original
selects, on every live document of the corpus.  Written from the statement; evaluated by the driver on the
*implementation's* rewritten tree and used verbatim in Props/C05.lean.
-/
import ZoektModel.C05.Model
namespace ZoektModel.Query

/-- `q` and `q'` select the same live documents of shard `s` (corpus `ctx`) -/
def sameDocsIn (ctx : List Shard) (s : Shard) (q q' : Q) : Bool :=
  s.docs.all fun d => !s.live d || eval q ctx s d == eval q' ctx s d

/-- … of every shard of the corpus -/
def sameDocs (ctx : List Shard) (q q' : Q) : Bool :=
  ctx.all fun s => sameDocsIn ctx s q q'

/-- C05 for a shard-independent rewrite (constant folding, flattening, Simplify, file/content expansion,
    case-scope stripping) -/
def checkP (ctx : List Shard) (q q' : Q) : Bool := sameDocs ctx q q'

/-- C05 for the per-shard simplification of shard `s` -/
def checkPShard (ctx : List Shard) (s : Shard) (q q' : Q) : Bool := sameDocsIn ctx s q q'

/-- the documents (by position) of `s` that a search for `q` must return -/
def selected (ctx : List Shard) (s : Shard) (q : Q) : List Nat :=
  (List.range s.docs.length).filter fun i =>
    match s.docs[i]? with
    | some d => s.live d && eval q ctx s d
    | none => false

/-! the input class on which the full statement is false on the unchanged tree (DESIGN §8): a `Branch` atom with
    an empty pattern is folded to TRUE, but evaluates to "the document is on a branch whose name contains/equals
    the empty string".  `wf pb nt q`: every `Branch` atom the rewrites reach satisfies `pb pattern exact`; with
    `nt = true` no `type:repo` node (the shape of every query that reaches a shard: `typeRepoSearcher`
    has replaced those nodes before). -/
mutual
def wf (pb : Str → Bool → Bool) (nt : Bool) : Q → Bool
  | .and cs => wfL pb nt cs
  | .or cs => wfL pb nt cs
  | .not c => wf pb nt c
  | .type t c => (!nt || t != 2) && wf pb nt c
  | .boost _ c => wf pb nt c
  | .caseScope c => wf pb nt c
  | .branch pat e => pb pat e
  | _ => true
def wfL (pb : Str → Bool → Bool) (nt : Bool) : List Q → Bool
  | [] => true
  | c :: cs => wf pb nt c && wfL pb nt cs
end

/-- admit every `Branch` atom -/
def anyBranch : Str → Bool → Bool := fun _ _ => true
/-- admit `Branch` atoms with a non-empty pattern only -/
def noEmpty : Str → Bool → Bool := fun pat _ => !pat.isEmpty
/-- admit all `Branch` atoms except `Branch{Pattern: "", Exact: true}` -/
def noExactEmpty : Str → Bool → Bool := fun pat e => !(pat.isEmpty && e)

def hasEmptyBranch (q : Q) : Bool := !wf noEmpty false q

/-- read `Branch ""` as TRUE (the reading under which folding it is harmless) -/
def emptyBranchAsTrue : Q → Q
  | .branch pat e => if pat.isEmpty then .const true else .branch pat e
  | q => q

end ZoektModel.Query
