/-
C05 — executable model of the query rewrites, transcribed from the Go code as written:
  query/query.go : evalConstants, evalAndOrConstants, invertConst, flatten, flattenAndOr, Simplify, Map,
                   ExpandFileContent          query/parse.go : stripCaseScopes
  index/eval.go  : indexData.simplify, simplifyMultiRepo
Core Lean only (linked into the driver).
-/
import ZoektModel.C05.Query
namespace ZoektModel.Query

/-! ### constant folding -/

/-- the loop of `evalAndOrConstants` over the already folded children: a constant equal to `isAnd` is skipped,
    the other constant is returned at once, anything else is kept. `none` = "returned that constant". -/
def foldConsts (isAnd : Bool) : List Q → Option (List Q)
  | [] => some []
  | .const v :: r => if v == isAnd then foldConsts isAnd r else none
  | c :: r => (foldConsts isAnd r).map (c :: ·)

def andOrConstants (isAnd : Bool) (folded : List Q) : Q :=
  match foldConsts isAnd folded with
  | none => .const (!isAnd)
  | some [] => .const isAnd
  | some l => if isAnd then .and l else .or l

def invertConst : Q → Q
  | .const v => .const (!v)
  | q => q

/-- `BranchesRepos` folds to FALSE when every bitmap is empty -/
def allEmpty (l : List (Str × List Nat)) : Bool := l.all fun br => br.2.isEmpty

/-! `query.Map(q, f)`: rebuild bottom-up, then apply `f` to the rebuilt node (descends into And, Or, Not, Type,
    Boost only — not into `Symbol.Expr`, not into the parser's `caseScopeQ`) -/
mutual
def map (f : Q → Q) : Q → Q
  | .and cs => f (.and (mapL f cs))
  | .or cs => f (.or (mapL f cs))
  | .not c => f (.not (map f c))
  | .type t c => f (.type t (map f c))
  | .boost w c => f (.boost w (map f c))
  | q => f q
def mapL (f : Q → Q) : List Q → List Q
  | [] => []
  | c :: cs => map f c :: mapL f cs
end

/-- `evalConstants`, as written: the children of And/Or are folded with `mapQueryList(children, evalConstants)`,
    i.e. with `Map(child, evalConstants)` (every node of the child is folded bottom-up, then the rebuilt child is
    folded again), whereas Not/Type/Boost call `evalConstants` on their child directly.  The recursion through
    `Map` is not structural, so the model carries fuel; `fuel > depth q` is never exhausted
    (`evalConstants_fuel_stable`), and the driver runs it with `size q + 1`. -/
def evalConstantsF : Nat → Q → Q
  | 0, q => q
  | n + 1, .and cs => andOrConstants true (mapL (evalConstantsF n) cs)
  | n + 1, .or cs => andOrConstants false (mapL (evalConstantsF n) cs)
  | n + 1, .not c =>
    match evalConstantsF n c with
    | .const v => .const (!v)
    | ch => .not ch
  | n + 1, .type t c =>
    match evalConstantsF n c with
    | .const v => .const v
    | ch => .type t ch
  | n + 1, .boost w c =>
    match evalConstantsF n c with
    | .const v => .const v
    | ch => .boost w ch
  | _ + 1, .substr pat cs fn ct => if pat.isEmpty then .const true else .substr pat cs fn ct
  | _ + 1, .regex src e cs fn ct => if e then .const true else .regex src e cs fn ct
  | _ + 1, .branch pat exact => if pat.isEmpty then .const true else .branch pat exact
  | _ + 1, .branchesRepos l => if allEmpty l then .const false else .branchesRepos l
  | _ + 1, .repoIDs ids => if ids.isEmpty then .const false else .repoIDs ids
  | _ + 1, .repoSet set => if set.isEmpty then .const false else .repoSet set
  | _ + 1, .fileNameSet names => if names.isEmpty then .const false else .fileNameSet names
  | _ + 1, q => q

def evalConstants (q : Q) : Q := evalConstantsF (size q + 1) q

/-! ### flattening -/

/-- splice step of `flattenAndOr` for one already flattened child -/
def spliceOne (isAnd : Bool) (ch : Q) : List Q × Bool :=
  match isAnd, ch with
  | true, .and sub => (sub, true)
  | false, .or sub => (sub, true)
  | _, ch => ([ch], false)

mutual
def flatten : Q → Q × Bool
  | .and cs =>
    match cs with
    | [c] => (c, true)
    | cs => let r := flattenL true cs; (.and r.1, r.2)
  | .or cs =>
    match cs with
    | [c] => (c, true)
    | cs => let r := flattenL false cs; (.or r.1, r.2)
  | .not c => let r := flatten c; (.not r.1, r.2)
  | .type t c => let r := flatten c; (.type t r.1, r.2)
  | .boost w c => let r := flatten c; (.boost w r.1, r.2)
  | q => (q, false)
/-- `flattenAndOr(children, typ)` -/
def flattenL (isAnd : Bool) : List Q → List Q × Bool
  | [] => ([], false)
  | c :: cs =>
    let r := flatten c
    let sp := spliceOne isAnd r.1
    let rest := flattenL isAnd cs
    (sp.1 ++ rest.1, r.2 || sp.2 || rest.2)
end

/-- the `for { q, changed = flatten(q); if !changed { break } }` loop with explicit fuel -/
def flattenLoop : Nat → Q → Q
  | 0, q => q
  | n + 1, q => let r := flatten q; if r.2 then flattenLoop n r.1 else r.1

/-- `query.Simplify`; the fuel `size + 1` is never exhausted (`Simplify_terminates`) -/
def simplify (q : Q) : Q :=
  let q := evalConstants q
  flattenLoop (size q + 1) q

/-! ### Map, ExpandFileContent, stripCaseScopes -/

def expandFileContent : Q → Q
  | .substr pat cs fn ct =>
    if fn == ct then .or [.substr pat cs true false, .substr pat cs false true] else .substr pat cs fn ct
  | .regex src e cs fn ct =>
    if fn == ct then .or [.regex src e cs true false, .regex src e cs false true] else .regex src e cs fn ct
  | q => q

def expand (q : Q) : Q := map expandFileContent q

mutual
def stripCaseScopes : Q → Q
  | .and cs => .and (stripCaseScopesL cs)
  | .or cs => .or (stripCaseScopesL cs)
  | .not c => .not (stripCaseScopes c)
  | .type t c => .type t (stripCaseScopes c)
  | .boost w c => .boost w (stripCaseScopes c)
  | .caseScope c => stripCaseScopes c
  | q => q
def stripCaseScopesL : List Q → List Q
  | [] => []
  | c :: cs => stripCaseScopes c :: stripCaseScopesL cs
end

/-! ### per-shard simplification -/

/-- `simplifyMultiRepo`: `count` = non-tombstoned repositories satisfying the predicate, `alive` = non-tombstoned
    repositories. (All tombstoned ⇒ `count == alive == 0` ⇒ TRUE, as in the Go code.) -/
def simplifyMultiRepo (repos : List Repo) (q : Q) (pred : Repo → Bool) : Q :=
  let aliveRepos := repos.filter (fun r => !r.tombstone)
  let count := (aliveRepos.filter pred).length
  if count == aliveRepos.length then .const true
  else if count > 0 then q
  else .const false

/-- the predicates `indexData.simplify` hands to `simplifyMultiRepo` -/
def repoSetPred (set : List (Str × Bool)) (r : Repo) : Bool := lookup r.name set == some true

/-- the function `indexData.simplify` maps over the tree.  The legacy branch for `IndexFeatureVersion < 12`
    (approximate a missing language by file extensions) is outside the model: `Language` on such a shard is
    left as it is (`WFShard` requires `featureVersion ≥ 12`). -/
def shardAtom (s : Shard) : Q → Q
  | .repo p => simplifyMultiRepo s.repos (.repo p) fun r => p.test r.name
  | .repoRegexp p => simplifyMultiRepo s.repos (.repoRegexp p) fun r => p.test r.name
  | .branchesRepos l =>
    if s.repos.any (fun r => l.any fun br => br.2.contains r.id) then .branchesRepos l else .const false
  | .repoSet set => simplifyMultiRepo s.repos (.repoSet set) (repoSetPred set)
  | .rawConfig mask => simplifyMultiRepo s.repos (.rawConfig mask) fun r => evalRawConfig r mask
  | .repoIDs ids => simplifyMultiRepo s.repos (.repoIDs ids) fun r => ids.contains r.id
  | .language l =>
    if s.langs.contains l then .language l
    else if s.featureVersion < 12 then .language l
    else .const false
  | .metaQ f p => simplifyMultiRepo s.repos (.metaQ f p) fun r => evalMeta r f p
  | q => q

/-- `indexData.simplify` -/
def shardSimplify (s : Shard) (q : Q) : Q := simplify (map (shardAtom s) q)

end ZoektModel.Query
