/-
C05 — helper lemmas for Props/C05.lean (and reused by C18).
-/
import ZoektModel.C05.Spec
namespace ZoektModel.Query

/-! ### induction principle for the nested tree -/

def isLeaf : Q → Bool
  | .const _ | .and _ | .or _ | .not _ | .type _ _ | .boost _ _ | .caseScope _ => false
  | _ => true

theorem Q.ind {P : Q → Prop}
    (hconst : ∀ v, P (.const v))
    (hand : ∀ cs, (∀ c ∈ cs, P c) → P (.and cs))
    (hor : ∀ cs, (∀ c ∈ cs, P c) → P (.or cs))
    (hnot : ∀ c, P c → P (.not c))
    (htype : ∀ t c, P c → P (.type t c))
    (hboost : ∀ w c, P c → P (.boost w c))
    (hcs : ∀ c, P c → P (.caseScope c))
    (hleaf : ∀ q, isLeaf q = true → P q) : ∀ q, P q := by
  intro q
  induction q using Q.rec (motive_2 := fun cs => ∀ c ∈ cs, P c) with
  | const v => exact hconst v
  | and cs ih => exact hand cs ih
  | or cs ih => exact hor cs ih
  | not c ih => exact hnot c ih
  | type t c ih => exact htype t c ih
  | boost w c ih => exact hboost w c ih
  | caseScope c ih => exact hcs c ih
  | nil => rename_i c hc; cases hc
  | cons h t ih1 ih2 =>
    rename_i c hc
    rcases List.mem_cons.mp hc with rfl | h'
    · exact ih1
    · exact ih2 c h'
  | _ => exact hleaf _ rfl

/-! ### list versions are `all` / `any` / `map` -/

theorem any_congr_mem {α} {l : List α} {p q : α → Bool} (h : ∀ x ∈ l, p x = q x) : l.any p = l.any q := by
  induction l with
  | nil => rfl
  | cons a t ih =>
    simp only [List.any_cons]
    rw [h a (by simp), ih (fun x hx => h x (by simp [hx]))]

theorem all_congr_mem {α} {l : List α} {p q : α → Bool} (h : ∀ x ∈ l, p x = q x) : l.all p = l.all q := by
  induction l with
  | nil => rfl
  | cons a t ih =>
    simp only [List.all_cons]
    rw [h a (by simp), ih (fun x hx => h x (by simp [hx]))]

theorem evalAll_eq (cs : List Q) (ctx s d) : evalAll cs ctx s d = cs.all (fun c => eval c ctx s d) := by
  induction cs with
  | nil => simp [evalAll]
  | cons c cs ih => simp [evalAll, ih]

theorem evalAny_eq (cs : List Q) (ctx s d) : evalAny cs ctx s d = cs.any (fun c => eval c ctx s d) := by
  induction cs with
  | nil => simp [evalAny]
  | cons c cs ih => simp [evalAny, ih]

theorem mapL_eq (f : Q → Q) (cs : List Q) : mapL f cs = cs.map (map f) := by
  induction cs with
  | nil => simp [mapL]
  | cons c cs ih => simp [mapL, ih]

theorem wfL_eq (pb : Str → Bool → Bool) (nt : Bool) (cs : List Q) : wfL pb nt cs = cs.all (wf pb nt) := by
  induction cs with
  | nil => simp [wfL]
  | cons c cs ih => simp [wfL, ih]

theorem sizeL_eq (cs : List Q) : sizeL cs = (cs.map size).sum := by
  induction cs with
  | nil => simp [sizeL]
  | cons c cs ih => simp [sizeL, ih]

theorem stripL_eq (cs : List Q) : stripCaseScopesL cs = cs.map stripCaseScopes := by
  induction cs with
  | nil => simp [stripCaseScopesL]
  | cons c cs ih => simp [stripCaseScopesL, ih]

theorem eval_leaf (q : Q) (h : isLeaf q = true) (ctx s d) :
    eval q ctx s d = match s.repoOf d with
      | some r => evalAtom s r d q
      | none => false := by
  cases q <;> first | rfl | simp [isLeaf] at h

/-! ### the scope in which a rewrite is claimed to preserve meaning -/

/-- a document of the corpus that the search loop looks at -/
def InCorpus (ctx : List Shard) (s : Shard) (d : Doc) : Prop := s ∈ ctx ∧ d ∈ s.docs ∧ s.live d = true

/-- `D` is a legitimate set of documents for statements about trees satisfying `wf pb nt`: if `type:repo` nodes are
    allowed (`nt = false`), `D` must be exactly the live documents of the corpus, because `type:repo` evaluates
    its child on all of them -/
def ScopeOK (ctx : List Shard) (nt : Bool) (D : Shard → Doc → Prop) : Prop :=
  nt = false → ∀ s d, D s d ↔ InCorpus ctx s d

/-- `f` keeps `wf pb nt` and preserves the reference evaluation on `D` -/
def Pres (ctx : List Shard) (pb : Str → Bool → Bool) (nt : Bool) (D : Shard → Doc → Prop) (f : Q → Q) : Prop :=
  ∀ q, wf pb nt q = true → wf pb nt (f q) = true ∧ ∀ s d, D s d → eval (f q) ctx s d = eval q ctx s d

/-- the `Branch` atoms admitted by `pb` that have an empty pattern are true on `D` (what folding them to TRUE needs) -/
def BranchOK (ctx : List Shard) (pb : Str → Bool → Bool) (D : Shard → Doc → Prop) : Prop :=
  ∀ pat e, pb pat e = true → pat.isEmpty = true → ∀ s d, D s d → eval (.branch pat e) ctx s d = true

theorem branchOK_noEmpty (ctx : List Shard) (D : Shard → Doc → Prop) : BranchOK ctx noEmpty D := by
  intro pat e h hp
  simp [noEmpty, hp] at h

theorem scope_incorpus (ctx : List Shard) : ScopeOK ctx false (InCorpus ctx) := fun _ _ _ => Iff.rfl

theorem scope_nt (ctx : List Shard) (D) : ScopeOK ctx true D := fun h => by cases h

/-- evaluation of `type:repo` only depends on the child's value on `D` -/
theorem eval_type_congr {ctx pb nt D} (hD : ScopeOK ctx nt D) (t : Nat) (c c' : Q)
    (hwf : wf pb nt (.type t c) = true)
    (h : ∀ s d, D s d → eval c' ctx s d = eval c ctx s d) :
    ∀ s d, D s d → eval (.type t c') ctx s d = eval (.type t c) ctx s d := by
  intro s d hd
  simp only [eval]
  split
  · rename_i ht
    have hnt : nt = false := by
      cases nt with
      | false => rfl
      | true => simp [wf] at hwf; simp_all
    have hD' := hD hnt
    cases hr : s.repoOf d with
    | none => rfl
    | some r =>
      simp only
      refine any_congr_mem (fun s' hs' => ?_)
      refine any_congr_mem (fun d' hd' => ?_)
      cases hl : s'.live d' with
      | false => simp
      | true =>
        have : D s' d' := (hD' s' d').2 ⟨hs', hd', hl⟩
        rw [h s' d' this]
  · exact h s d hd

theorem map_leaf (f : Q → Q) (q : Q) (h : isLeaf q = true) : map f q = f q := by
  cases q <;> first | rfl | simp [isLeaf] at h

/-- `Map(q, f)` preserves meaning when `f` does -/
theorem map_pres {ctx pb nt D} (hD : ScopeOK ctx nt D) (f : Q → Q) (hf : Pres ctx pb nt D f) :
    Pres ctx pb nt D (map f) := by
  intro q
  induction q using Q.ind with
  | hconst v => intro h; exact hf _ h
  | hand cs ih =>
    intro h
    have hw : ∀ c ∈ cs, wf pb nt c = true := by
      simpa [wf, wfL_eq] using h
    have h1 : wf pb nt (.and (mapL f cs)) = true := by
      simp only [wf, wfL_eq, mapL_eq, List.all_map, List.all_eq_true]
      intro c hc; exact (ih c hc (hw c hc)).1
    obtain ⟨h2, h3⟩ := hf _ h1
    refine ⟨by simpa [map] using h2, ?_⟩
    intro s d hd
    have := h3 s d hd
    simp only [map]
    rw [this]
    simp only [eval, evalAll_eq, mapL_eq, List.all_map]
    exact all_congr_mem (fun c hc => (ih c hc (hw c hc)).2 s d hd)
  | hor cs ih =>
    intro h
    have hw : ∀ c ∈ cs, wf pb nt c = true := by
      simpa [wf, wfL_eq] using h
    have h1 : wf pb nt (.or (mapL f cs)) = true := by
      simp only [wf, wfL_eq, mapL_eq, List.all_map, List.all_eq_true]
      intro c hc; exact (ih c hc (hw c hc)).1
    obtain ⟨h2, h3⟩ := hf _ h1
    refine ⟨by simpa [map] using h2, ?_⟩
    intro s d hd
    have := h3 s d hd
    simp only [map]
    rw [this]
    simp only [eval, evalAny_eq, mapL_eq, List.any_map]
    exact any_congr_mem (fun c hc => (ih c hc (hw c hc)).2 s d hd)
  | hnot c ih =>
    intro h
    have hw : wf pb nt c = true := by simpa [wf] using h
    obtain ⟨i1, i2⟩ := ih hw
    have h1 : wf pb nt (.not (map f c)) = true := by simpa [wf] using i1
    obtain ⟨h2, h3⟩ := hf _ h1
    refine ⟨by simpa [map] using h2, ?_⟩
    intro s d hd
    simp only [map]
    rw [h3 s d hd]
    simp only [eval, i2 s d hd]
  | htype t c ih =>
    intro h
    have hw : wf pb nt c = true := by
      simp only [wf, Bool.and_eq_true] at h; exact h.2
    obtain ⟨i1, i2⟩ := ih hw
    have h1 : wf pb nt (.type t (map f c)) = true := by
      simp only [wf, Bool.and_eq_true] at h ⊢; exact ⟨h.1, i1⟩
    obtain ⟨h2, h3⟩ := hf _ h1
    refine ⟨by simpa [map] using h2, ?_⟩
    intro s d hd
    simp only [map]
    rw [h3 s d hd]
    exact eval_type_congr hD t c (map f c) h i2 s d hd
  | hboost w c ih =>
    intro h
    have hw : wf pb nt c = true := by simpa [wf] using h
    obtain ⟨i1, i2⟩ := ih hw
    have h1 : wf pb nt (.boost w (map f c)) = true := by simpa [wf] using i1
    obtain ⟨h2, h3⟩ := hf _ h1
    refine ⟨by simpa [map] using h2, ?_⟩
    intro s d hd
    simp only [map]
    rw [h3 s d hd]
    simp only [eval, i2 s d hd]
  | hcs c _ => intro h; exact hf _ h
  | hleaf q hl => intro h; rw [map_leaf f q hl]; exact hf _ h

/-! ### constant folding -/

theorem foldConsts_and (l : List Q) (ctx s d) :
    match foldConsts true l with
    | none => l.all (fun c => eval c ctx s d) = false
    | some l' => l'.all (fun c => eval c ctx s d) = l.all (fun c => eval c ctx s d) ∧ ∀ c ∈ l', c ∈ l := by
  induction l with
  | nil => simp [foldConsts]
  | cons c r ih =>
    cases c with
    | const v =>
      cases v with
      | true =>
        simp only [foldConsts, beq_self_eq_true, if_true]
        split at ih <;> rename_i h
        · simp [eval, ih]
        · refine ⟨by simp [eval, ih.1], fun c hc => List.mem_cons_of_mem _ (ih.2 c hc)⟩
      | false => simp [foldConsts, eval]
    | _ =>
      simp only [foldConsts]
      split at ih <;> rename_i h <;> simp only [h, Option.map]
      · simp [ih]
      · refine ⟨by simp [ih.1], ?_⟩
        intro c hc
        rcases List.mem_cons.mp hc with rfl | hc
        · simp
        · exact List.mem_cons_of_mem _ (ih.2 c hc)

theorem foldConsts_or (l : List Q) (ctx s d) :
    match foldConsts false l with
    | none => l.any (fun c => eval c ctx s d) = true
    | some l' => l'.any (fun c => eval c ctx s d) = l.any (fun c => eval c ctx s d) ∧ ∀ c ∈ l', c ∈ l := by
  induction l with
  | nil => simp [foldConsts]
  | cons c r ih =>
    cases c with
    | const v =>
      cases v with
      | false =>
        simp only [foldConsts, beq_self_eq_true, if_true]
        split at ih <;> rename_i h
        · simp [eval, ih]
        · refine ⟨by simp [eval, ih.1], fun c hc => List.mem_cons_of_mem _ (ih.2 c hc)⟩
      | true => simp [foldConsts, eval]
    | _ =>
      simp only [foldConsts]
      split at ih <;> rename_i h <;> simp only [h, Option.map]
      · simp [ih]
      · refine ⟨by simp [ih.1], ?_⟩
        intro c hc
        rcases List.mem_cons.mp hc with rfl | hc
        · simp
        · exact List.mem_cons_of_mem _ (ih.2 c hc)

theorem andOrConstants_and (l : List Q) (pb : Str → Bool → Bool) (nt : Bool) (hw : ∀ c ∈ l, wf pb nt c = true) (ctx s d) :
    wf pb nt (andOrConstants true l) = true ∧
    eval (andOrConstants true l) ctx s d = l.all (fun c => eval c ctx s d) := by
  have h := foldConsts_and l ctx s d
  unfold andOrConstants
  split <;> rename_i hf <;> simp only [hf] at h
  · simp [wf, eval, h]
  · simp [wf, eval, ← h.1]
  · rename_i l' hne
    simp only [if_true]
    refine ⟨?_, by simp [eval, evalAll_eq, h.1]⟩
    simp only [wf, wfL_eq, List.all_eq_true]
    exact fun c hc => hw c (h.2 c hc)

theorem andOrConstants_or (l : List Q) (pb : Str → Bool → Bool) (nt : Bool) (hw : ∀ c ∈ l, wf pb nt c = true) (ctx s d) :
    wf pb nt (andOrConstants false l) = true ∧
    eval (andOrConstants false l) ctx s d = l.any (fun c => eval c ctx s d) := by
  have h := foldConsts_or l ctx s d
  unfold andOrConstants
  split <;> rename_i hf <;> simp only [hf] at h
  · simp [wf, eval, h]
  · simp [wf, eval, ← h.1]
  · rename_i l' hne
    simp only [Bool.false_eq_true, if_false]
    refine ⟨?_, by simp [eval, evalAny_eq, h.1]⟩
    simp only [wf, wfL_eq, List.all_eq_true]
    exact fun c hc => hw c (h.2 c hc)

theorem live_repoOf {s : Shard} {d : Doc} (h : s.live d = true) : ∃ r, s.repoOf d = some r ∧ r.tombstone = false := by
  unfold Shard.live at h
  cases hr : s.repoOf d with
  | none => simp [hr] at h
  | some r => exact ⟨r, rfl, by simpa [hr] using h⟩

/-- a `Type` node over a child that is constant on `D` has that constant value on `D` -/
theorem eval_type_const {ctx pb nt D} (hD : ScopeOK ctx nt D) (t : Nat) (c : Q) (v : Bool)
    (hwf : wf pb nt (.type t c) = true)
    (h : ∀ s d, D s d → eval c ctx s d = v) :
    ∀ s d, D s d → eval (.type t c) ctx s d = v := by
  intro s d hd
  simp only [eval]
  split
  · rename_i ht
    have hnt : nt = false := by
      cases nt with
      | false => rfl
      | true => simp [wf] at hwf; simp_all
    have hD' := hD hnt
    obtain ⟨hs, hdm, hl⟩ := (hD' s d).1 hd
    obtain ⟨r, hr, _⟩ := live_repoOf hl
    simp only [hr]
    cases v with
    | false =>
      rw [List.any_eq_false]
      intro s' hs'
      rw [Bool.not_eq_true, List.any_eq_false]
      intro d' hd'
      cases hl' : s'.live d' with
      | false => simp
      | true => simp [h s' d' ((hD' s' d').2 ⟨hs', hd', hl'⟩)]
    | true =>
      rw [List.any_eq_true]
      refine ⟨s, hs, ?_⟩
      rw [List.any_eq_true]
      exact ⟨d, hdm, by simp [hl, hr, h s d hd]⟩
  · exact h s d hd

theorem eval_const (v : Bool) (ctx s d) : eval (.const v) ctx s d = v := by simp [eval]

theorem evalConstantsF_pres {ctx pb nt D} (hbr : BranchOK ctx pb D) (hD : ScopeOK ctx nt D) (hlive : ∀ s d, D s d → s.live d = true) (n : Nat) :
    Pres ctx pb nt D (evalConstantsF n) := by
  induction n with
  | zero => intro q h; exact ⟨by simpa [evalConstantsF] using h, fun s d _ => by simp [evalConstantsF]⟩
  | succ n ih =>
    have ihm := map_pres hD _ ih
    intro q h
    cases q with
    | and cs =>
      have hw : ∀ c ∈ cs, wf pb nt c = true := by simpa [wf, wfL_eq] using h
      have hw' : ∀ c ∈ mapL (evalConstantsF n) cs, wf pb nt c = true := by
        intro c hc
        rw [mapL_eq, List.mem_map] at hc
        obtain ⟨c0, hc0, rfl⟩ := hc
        exact (ihm c0 (hw c0 hc0)).1
      simp only [evalConstantsF]
      refine ⟨(andOrConstants_and _ pb nt hw' ctx default default).1, ?_⟩
      intro s d hd
      rw [(andOrConstants_and _ pb nt hw' ctx s d).2]
      simp only [eval, evalAll_eq, mapL_eq, List.all_map]
      exact all_congr_mem (fun c hc => (ihm c (hw c hc)).2 s d hd)
    | or cs =>
      have hw : ∀ c ∈ cs, wf pb nt c = true := by simpa [wf, wfL_eq] using h
      have hw' : ∀ c ∈ mapL (evalConstantsF n) cs, wf pb nt c = true := by
        intro c hc
        rw [mapL_eq, List.mem_map] at hc
        obtain ⟨c0, hc0, rfl⟩ := hc
        exact (ihm c0 (hw c0 hc0)).1
      simp only [evalConstantsF]
      refine ⟨(andOrConstants_or _ pb nt hw' ctx default default).1, ?_⟩
      intro s d hd
      rw [(andOrConstants_or _ pb nt hw' ctx s d).2]
      simp only [eval, evalAny_eq, mapL_eq, List.any_map]
      exact any_congr_mem (fun c hc => (ihm c (hw c hc)).2 s d hd)
    | not c =>
      have hw : wf pb nt c = true := by simpa [wf] using h
      obtain ⟨i1, i2⟩ := ih c hw
      simp only [evalConstantsF]
      split
      · rename_i v hv
        refine ⟨by simp [wf], fun s d hd => ?_⟩
        have := i2 s d hd
        rw [hv] at this
        simp [eval, ← this]
      · refine ⟨by simpa [wf] using i1, fun s d hd => by simp [eval, i2 s d hd]⟩
    | type t c =>
      have hw : wf pb nt c = true := by
        simp only [wf, Bool.and_eq_true] at h; exact h.2
      obtain ⟨i1, i2⟩ := ih c hw
      simp only [evalConstantsF]
      split
      · rename_i v hv
        refine ⟨by simp [wf], fun s d hd => ?_⟩
        rw [eval_const]
        refine (eval_type_const hD t c v h ?_ s d hd).symm
        intro s' d' hd'
        have := i2 s' d' hd'
        rw [hv, eval_const] at this
        exact this.symm
      · refine ⟨?_, fun s d hd => eval_type_congr hD t c _ h i2 s d hd⟩
        simp only [wf, Bool.and_eq_true] at h ⊢; exact ⟨h.1, i1⟩
    | boost w c =>
      have hw : wf pb nt c = true := by simpa [wf] using h
      obtain ⟨i1, i2⟩ := ih c hw
      simp only [evalConstantsF]
      split
      · rename_i v hv
        refine ⟨by simp [wf], fun s d hd => ?_⟩
        have := i2 s d hd
        rw [hv] at this
        simp [eval, ← this]
      · refine ⟨by simpa [wf] using i1, fun s d hd => by simp [eval, i2 s d hd]⟩
    | substr pat cs fn ct =>
      simp only [evalConstantsF]
      split
      · rename_i hp
        refine ⟨by simp [wf], fun s d hd => ?_⟩
        obtain ⟨r, hr, _⟩ := live_repoOf (hlive s d hd)
        simp [eval, hr, evalAtom, hp]
      · exact ⟨h, fun _ _ _ => rfl⟩
    | regex src e cs fn ct =>
      simp only [evalConstantsF]
      split
      · rename_i hp
        refine ⟨by simp [wf], fun s d hd => ?_⟩
        obtain ⟨r, hr, _⟩ := live_repoOf (hlive s d hd)
        simp [eval, hr, evalAtom, hp]
      · exact ⟨h, fun _ _ _ => rfl⟩
    | branch pat exact =>
      simp only [evalConstantsF]
      split
      · rename_i hp
        refine ⟨by simp [wf], fun s d hd => ?_⟩
        rw [eval_const]
        exact (hbr pat exact (by simpa [wf] using h) hp s d hd).symm
      · exact ⟨h, fun _ _ _ => rfl⟩
    | branchesRepos l =>
      simp only [evalConstantsF]
      split
      · rename_i hp
        refine ⟨by simp [wf], fun s d hd => ?_⟩
        obtain ⟨r, hr, _⟩ := live_repoOf (hlive s d hd)
        simp only [eval, hr, evalAtom, evalBranchesRepos]
        symm
        rw [List.any_eq_false]
        intro br hbr
        have : br.2.isEmpty = true := by
          unfold allEmpty at hp
          exact List.all_eq_true.mp hp br hbr
        have : br.2 = [] := List.isEmpty_iff.mp this
        simp [this]
      · exact ⟨h, fun _ _ _ => rfl⟩
    | repoIDs ids =>
      simp only [evalConstantsF]
      split
      · rename_i hp
        refine ⟨by simp [wf], fun s d hd => ?_⟩
        obtain ⟨r, hr, _⟩ := live_repoOf (hlive s d hd)
        have : ids = [] := List.isEmpty_iff.mp hp
        simp [eval, hr, evalAtom, this]
      · exact ⟨h, fun _ _ _ => rfl⟩
    | repoSet set =>
      simp only [evalConstantsF]
      split
      · rename_i hp
        refine ⟨by simp [wf], fun s d hd => ?_⟩
        obtain ⟨r, hr, _⟩ := live_repoOf (hlive s d hd)
        have : set = [] := List.isEmpty_iff.mp hp
        simp [eval, hr, evalAtom, this, evalRepoSet, lookup]
      · exact ⟨h, fun _ _ _ => rfl⟩
    | fileNameSet names =>
      simp only [evalConstantsF]
      split
      · rename_i hp
        refine ⟨by simp [wf], fun s d hd => ?_⟩
        obtain ⟨r, hr, _⟩ := live_repoOf (hlive s d hd)
        have : names = [] := List.isEmpty_iff.mp hp
        simp [eval, hr, evalAtom, this]
      · exact ⟨h, fun _ _ _ => rfl⟩
    | _ => exact ⟨by simpa [evalConstantsF] using h, fun _ _ _ => by simp [evalConstantsF]⟩

/-! ### the fuel of `evalConstantsF` is never exhausted: any fuel above the depth gives the same tree -/

mutual
def depth : Q → Nat
  | .and cs => 1 + depthL cs
  | .or cs => 1 + depthL cs
  | .not c => 1 + depth c
  | .type _ c => 1 + depth c
  | .boost _ c => 1 + depth c
  | _ => 0
def depthL : List Q → Nat
  | [] => 0
  | c :: cs => max (depth c) (depthL cs)
end

theorem depthL_le {cs : List Q} {c : Q} (h : c ∈ cs) : depth c ≤ depthL cs := by
  induction cs with
  | nil => cases h
  | cons a t ih =>
    simp only [depthL]
    rcases List.mem_cons.mp h with rfl | h
    · omega
    · have := ih h; omega

theorem depthL_bound {cs : List Q} {D : Nat} (h : ∀ c ∈ cs, depth c ≤ D) : depthL cs ≤ D := by
  induction cs with
  | nil => simp [depthL]
  | cons a t ih =>
    simp only [depthL]
    have := h a (by simp)
    have := ih (fun c hc => h c (by simp [hc]))
    omega

theorem depth_leaf (q : Q) (h : isLeaf q = true) : depth q = 0 := by
  cases q <;> first | rfl | simp [isLeaf] at h

/-- `Map(q, f)` does not deepen the tree when `f` does not -/
theorem map_depth (f : Q → Q) (hf : ∀ x, depth (f x) ≤ depth x) (q : Q) : depth (map f q) ≤ depth q := by
  induction q using Q.ind with
  | hconst v => simpa [map] using hf (.const v)
  | hand cs ih =>
    have h1 := hf (.and (mapL f cs))
    have h2 : depthL (mapL f cs) ≤ depthL cs := by
      apply depthL_bound
      intro c hc
      rw [mapL_eq, List.mem_map] at hc
      obtain ⟨c0, hc0, rfl⟩ := hc
      exact Nat.le_trans (ih c0 hc0) (depthL_le hc0)
    simp only [map, depth] at h1 ⊢
    omega
  | hor cs ih =>
    have h1 := hf (.or (mapL f cs))
    have h2 : depthL (mapL f cs) ≤ depthL cs := by
      apply depthL_bound
      intro c hc
      rw [mapL_eq, List.mem_map] at hc
      obtain ⟨c0, hc0, rfl⟩ := hc
      exact Nat.le_trans (ih c0 hc0) (depthL_le hc0)
    simp only [map, depth] at h1 ⊢
    omega
  | hnot c ih => have h1 := hf (.not (map f c)); simp only [map, depth] at h1 ⊢; omega
  | htype t c ih => have h1 := hf (.type t (map f c)); simp only [map, depth] at h1 ⊢; omega
  | hboost w c ih => have h1 := hf (.boost w (map f c)); simp only [map, depth] at h1 ⊢; omega
  | hcs c _ => simpa [map] using hf (.caseScope c)
  | hleaf q hl => rw [map_leaf f q hl]; exact hf q

/-- two functions that agree on trees of depth ≤ `D` give the same `Map` on such trees -/
theorem map_congr_depth (f g : Q → Q) (D : Nat) (hfg : ∀ x, depth x ≤ D → f x = g x)
    (hf : ∀ x, depth (f x) ≤ depth x) (q : Q) (hq : depth q ≤ D) : map f q = map g q := by
  induction q using Q.ind with
  | hconst v => simpa [map] using hfg (.const v) hq
  | hand cs ih =>
    simp only [depth] at hq
    have hl : mapL f cs = mapL g cs := by
      rw [mapL_eq, mapL_eq]
      apply List.map_congr_left
      intro c hc
      exact ih c hc (by have := depthL_le hc; omega)
    have hd : depth (.and (mapL f cs)) ≤ D := by
      have : depthL (mapL f cs) ≤ depthL cs := by
        apply depthL_bound
        intro c hc
        rw [mapL_eq, List.mem_map] at hc
        obtain ⟨c0, hc0, rfl⟩ := hc
        exact Nat.le_trans (map_depth f hf c0) (depthL_le hc0)
      simp only [depth]; omega
    simp only [map]
    rw [← hl]
    exact hfg _ hd
  | hor cs ih =>
    simp only [depth] at hq
    have hl : mapL f cs = mapL g cs := by
      rw [mapL_eq, mapL_eq]
      apply List.map_congr_left
      intro c hc
      exact ih c hc (by have := depthL_le hc; omega)
    have hd : depth (.or (mapL f cs)) ≤ D := by
      have : depthL (mapL f cs) ≤ depthL cs := by
        apply depthL_bound
        intro c hc
        rw [mapL_eq, List.mem_map] at hc
        obtain ⟨c0, hc0, rfl⟩ := hc
        exact Nat.le_trans (map_depth f hf c0) (depthL_le hc0)
      simp only [depth]; omega
    simp only [map]
    rw [← hl]
    exact hfg _ hd
  | hnot c ih =>
    simp only [depth] at hq
    have hc := ih (by omega)
    have hd : depth (.not (map f c)) ≤ D := by
      have := map_depth f hf c
      simp only [depth]; omega
    simp only [map]; rw [← hc]; exact hfg _ hd
  | htype t c ih =>
    simp only [depth] at hq
    have hc := ih (by omega)
    have hd : depth (.type t (map f c)) ≤ D := by
      have := map_depth f hf c
      simp only [depth]; omega
    simp only [map]; rw [← hc]; exact hfg _ hd
  | hboost w c ih =>
    simp only [depth] at hq
    have hc := ih (by omega)
    have hd : depth (.boost w (map f c)) ≤ D := by
      have := map_depth f hf c
      simp only [depth]; omega
    simp only [map]; rw [← hc]; exact hfg _ hd
  | hcs c _ => simpa [map] using hfg (.caseScope c) hq
  | hleaf q hl => rw [map_leaf f q hl, map_leaf g q hl]; exact hfg q hq

theorem foldConsts_sub (b : Bool) (l l' : List Q) (h : foldConsts b l = some l') : ∀ c ∈ l', c ∈ l := by
  induction l generalizing l' with
  | nil => simp [foldConsts] at h; subst h; simp
  | cons c r ih =>
    cases c with
    | const v =>
      simp only [foldConsts] at h
      split at h
      · exact fun x hx => List.mem_cons_of_mem _ (ih l' h x hx)
      · cases h
    | _ =>
      simp only [foldConsts] at h
      cases hf : foldConsts b r with
      | none => simp [hf] at h
      | some r' =>
        simp only [hf, Option.map, Option.some.injEq] at h
        subst h
        intro x hx
        rcases List.mem_cons.mp hx with rfl | hx
        · simp
        · exact List.mem_cons_of_mem _ (ih r' hf x hx)

theorem andOrConstants_depth (b : Bool) (l : List Q) : depth (andOrConstants b l) ≤ 1 + depthL l := by
  unfold andOrConstants
  split
  · simp [depth]
  · simp [depth]
  · rename_i l' _ hf
    have hsub := foldConsts_sub b l l' hf
    have : depthL l' ≤ depthL l := depthL_bound (fun c hc => depthL_le (hsub c hc))
    cases b <;> simp only [depth, Bool.false_eq_true, if_false, if_true] <;> omega

theorem evalConstantsF_depth (n : Nat) : ∀ q, depth (evalConstantsF n q) ≤ depth q := by
  induction n with
  | zero => intro q; simp [evalConstantsF]
  | succ n ih =>
    have hm := fun c => map_depth (evalConstantsF n) ih c
    have hl : ∀ cs, depthL (mapL (evalConstantsF n) cs) ≤ depthL cs := by
      intro cs
      apply depthL_bound
      intro c hc
      rw [mapL_eq, List.mem_map] at hc
      obtain ⟨c0, hc0, rfl⟩ := hc
      exact Nat.le_trans (hm c0) (depthL_le hc0)
    intro q
    cases q with
    | and cs =>
      simp only [evalConstantsF, depth]
      have := andOrConstants_depth true (mapL (evalConstantsF n) cs)
      have := hl cs
      omega
    | or cs =>
      simp only [evalConstantsF, depth]
      have := andOrConstants_depth false (mapL (evalConstantsF n) cs)
      have := hl cs
      omega
    | not c =>
      simp only [evalConstantsF]
      have := ih c
      split
      · simp [depth]
      · rename_i ch _; simp only [depth]; omega
    | type t c =>
      simp only [evalConstantsF]
      have := ih c
      split
      · simp [depth]
      · simp only [depth]; omega
    | boost w c =>
      simp only [evalConstantsF]
      have := ih c
      split
      · simp [depth]
      · simp only [depth]; omega
    | substr pat cs fn ct => simp only [evalConstantsF]; split <;> simp [depth]
    | regex src e cs fn ct => simp only [evalConstantsF]; split <;> simp [depth]
    | branch pat exact => simp only [evalConstantsF]; split <;> simp [depth]
    | branchesRepos l => simp only [evalConstantsF]; split <;> simp [depth]
    | repoIDs ids => simp only [evalConstantsF]; split <;> simp [depth]
    | repoSet set => simp only [evalConstantsF]; split <;> simp [depth]
    | fileNameSet names => simp only [evalConstantsF]; split <;> simp [depth]
    | _ => simp [evalConstantsF]

/-- one more unit of fuel changes nothing once the fuel exceeds the depth -/
theorem evalConstantsF_step (n : Nat) : ∀ q, depth q < n → evalConstantsF (n + 1) q = evalConstantsF n q := by
  induction n with
  | zero => intro q h; omega
  | succ n ih =>
    intro q h
    have hmap : ∀ c, depth c < n → map (evalConstantsF (n + 1)) c = map (evalConstantsF n) c := by
      intro c hc
      cases n with
      | zero => omega
      | succ k =>
        exact map_congr_depth _ _ k (fun x hx => ih x (by omega)) (evalConstantsF_depth _) c (by omega)
    have hmapL : ∀ cs, depthL cs < n → mapL (evalConstantsF (n + 1)) cs = mapL (evalConstantsF n) cs := by
      intro cs hcs
      rw [mapL_eq, mapL_eq]
      apply List.map_congr_left
      intro c hc
      exact hmap c (by have := depthL_le hc; omega)
    cases q with
    | and cs =>
      simp only [depth] at h
      simp only [evalConstantsF]
      rw [hmapL cs (by omega)]
    | or cs =>
      simp only [depth] at h
      simp only [evalConstantsF]
      rw [hmapL cs (by omega)]
    | not c =>
      simp only [depth] at h
      simp only [evalConstantsF]
      rw [ih c (by omega)]
    | type t c =>
      simp only [depth] at h
      simp only [evalConstantsF]
      rw [ih c (by omega)]
    | boost w c =>
      simp only [depth] at h
      simp only [evalConstantsF]
      rw [ih c (by omega)]
    | _ => simp [evalConstantsF]

theorem evalConstantsF_stable (q : Q) (n m : Nat) (hn : depth q < n) (hm : n ≤ m) :
    evalConstantsF m q = evalConstantsF n q := by
  induction m with
  | zero => have : n = 0 := by omega
            subst this; rfl
  | succ m ih =>
    by_cases h : n = m + 1
    · subst h; rfl
    · rw [evalConstantsF_step m q (by omega), ih (by omega)]

theorem depth_le_size (q : Q) : depth q ≤ size q := by
  induction q using Q.ind with
  | hconst v => simp [depth, size]
  | hand cs ih =>
    simp only [depth, size]
    have : depthL cs ≤ sizeL cs := by
      induction cs with
      | nil => simp [depthL]
      | cons c r ihr =>
        simp only [depthL, sizeL]
        have := ih c (by simp)
        have := ihr (fun x hx => ih x (by simp [hx]))
        omega
    omega
  | hor cs ih =>
    simp only [depth, size]
    have : depthL cs ≤ sizeL cs := by
      induction cs with
      | nil => simp [depthL]
      | cons c r ihr =>
        simp only [depthL, sizeL]
        have := ih c (by simp)
        have := ihr (fun x hx => ih x (by simp [hx]))
        omega
    omega
  | hnot c ih => simp only [depth, size]; omega
  | htype t c ih => simp only [depth, size]; omega
  | hboost w c ih => simp only [depth, size]; omega
  | hcs c _ => simp [depth]
  | hleaf q hl => rw [depth_leaf q hl]; omega

/-! ### flattening -/

theorem flatten_and_single (c : Q) : flatten (.and [c]) = (c, true) := by simp [flatten]
theorem flatten_or_single (c : Q) : flatten (.or [c]) = (c, true) := by simp [flatten]
theorem flatten_and_multi (cs : List Q) (h : cs.length ≠ 1) :
    flatten (.and cs) = (.and (flattenL true cs).1, (flattenL true cs).2) := by
  rcases cs with _ | ⟨c, _ | ⟨c2, r⟩⟩
  · simp [flatten]
  · simp at h
  · simp [flatten]
theorem flatten_or_multi (cs : List Q) (h : cs.length ≠ 1) :
    flatten (.or cs) = (.or (flattenL false cs).1, (flattenL false cs).2) := by
  rcases cs with _ | ⟨c, _ | ⟨c2, r⟩⟩
  · simp [flatten]
  · simp at h
  · simp [flatten]

theorem flatten_leaf (q : Q) (h : isLeaf q = true) : flatten q = (q, false) := by
  cases q <;> first | rfl | simp [isLeaf] at h

def evalList (b : Bool) (l : List Q) (ctx : List Shard) (s : Shard) (d : Doc) : Bool :=
  if b then l.all (fun c => eval c ctx s d) else l.any (fun c => eval c ctx s d)

theorem evalList_append (b l1 l2 ctx s d) :
    evalList b (l1 ++ l2) ctx s d = (if b then evalList b l1 ctx s d && evalList b l2 ctx s d
      else evalList b l1 ctx s d || evalList b l2 ctx s d) := by
  cases b <;> simp [evalList]

theorem spliceOne_spec (b : Bool) (ch : Q) (pb : Str → Bool → Bool) (nt : Bool) (hw : wf pb nt ch = true) (ctx s d) :
    (∀ c ∈ (spliceOne b ch).1, wf pb nt c = true) ∧
    evalList b (spliceOne b ch).1 ctx s d = eval ch ctx s d := by
  unfold spliceOne
  split
  · rename_i sub
    refine ⟨?_, by simp [evalList, eval, evalAll_eq]⟩
    simpa [wf, wfL_eq] using hw
  · rename_i sub
    refine ⟨?_, by simp [evalList, eval, evalAny_eq]⟩
    simpa [wf, wfL_eq] using hw
  · refine ⟨by simpa using hw, ?_⟩
    cases b <;> simp [evalList]

theorem flattenL_spec {ctx pb nt} {D : Shard → Doc → Prop} (b : Bool) (cs : List Q)
    (hch : ∀ c ∈ cs, wf pb nt c = true → wf pb nt (flatten c).1 = true ∧ ∀ s d, D s d → eval (flatten c).1 ctx s d = eval c ctx s d)
    (hw : ∀ c ∈ cs, wf pb nt c = true) :
    (∀ c ∈ (flattenL b cs).1, wf pb nt c = true) ∧
    ∀ s d, D s d → evalList b (flattenL b cs).1 ctx s d = evalList b cs ctx s d := by
  induction cs with
  | nil => simp [flattenL]
  | cons c r ih =>
    obtain ⟨i1, i2⟩ := ih (fun x hx => hch x (by simp [hx])) (fun x hx => hw x (by simp [hx]))
    obtain ⟨c1, c2⟩ := hch c (by simp) (hw c (by simp))
    simp only [flattenL]
    constructor
    · intro x hx
      rcases List.mem_append.mp hx with hx | hx
      · exact (spliceOne_spec b _ pb nt c1 ctx default default).1 x hx
      · exact i1 x hx
    · intro s d hd
      rw [evalList_append, (spliceOne_spec b _ pb nt c1 ctx s d).2, i2 s d hd, c2 s d hd]
      cases b <;> simp [evalList]

theorem flatten_pres {ctx pb nt D} (hD : ScopeOK ctx nt D) : Pres ctx pb nt D (fun q => (flatten q).1) := by
  intro q
  induction q using Q.ind with
  | hconst v => intro h; exact ⟨by simpa [flatten] using h, fun _ _ _ => by simp [flatten]⟩
  | hand cs ih =>
    intro h
    have hw : ∀ c ∈ cs, wf pb nt c = true := by simpa [wf, wfL_eq] using h
    by_cases h1 : cs.length = 1
    · obtain ⟨c, rfl⟩ := List.length_eq_one_iff.mp h1
      simp only [flatten_and_single]
      exact ⟨hw c (by simp), fun s d _ => by simp [eval, evalAll]⟩
    · simp only [flatten_and_multi cs h1]
      obtain ⟨f1, f2⟩ := flattenL_spec (ctx := ctx) (D := D) true cs ih hw
      refine ⟨by simpa [wf, wfL_eq] using f1, fun s d hd => ?_⟩
      have := f2 s d hd
      simpa [evalList, eval, evalAll_eq] using this
  | hor cs ih =>
    intro h
    have hw : ∀ c ∈ cs, wf pb nt c = true := by simpa [wf, wfL_eq] using h
    by_cases h1 : cs.length = 1
    · obtain ⟨c, rfl⟩ := List.length_eq_one_iff.mp h1
      simp only [flatten_or_single]
      exact ⟨hw c (by simp), fun s d _ => by simp [eval, evalAny]⟩
    · simp only [flatten_or_multi cs h1]
      obtain ⟨f1, f2⟩ := flattenL_spec (ctx := ctx) (D := D) false cs ih hw
      refine ⟨by simpa [wf, wfL_eq] using f1, fun s d hd => ?_⟩
      have := f2 s d hd
      simpa [evalList, eval, evalAny_eq] using this
  | hnot c ih =>
    intro h
    have hw : wf pb nt c = true := by simpa [wf] using h
    obtain ⟨i1, i2⟩ := ih hw
    simp only [flatten]
    exact ⟨by simpa [wf] using i1, fun s d hd => by simp [eval, i2 s d hd]⟩
  | htype t c ih =>
    intro h
    have hw : wf pb nt c = true := by
      simp only [wf, Bool.and_eq_true] at h; exact h.2
    obtain ⟨i1, i2⟩ := ih hw
    simp only [flatten]
    refine ⟨?_, fun s d hd => eval_type_congr hD t c _ h i2 s d hd⟩
    simp only [wf, Bool.and_eq_true] at h ⊢; exact ⟨h.1, i1⟩
  | hboost w c ih =>
    intro h
    have hw : wf pb nt c = true := by simpa [wf] using h
    obtain ⟨i1, i2⟩ := ih hw
    simp only [flatten]
    exact ⟨by simpa [wf] using i1, fun s d hd => by simp [eval, i2 s d hd]⟩
  | hcs c _ => intro h; exact ⟨by simpa [flatten] using h, fun _ _ _ => by simp [flatten]⟩
  | hleaf q hl => intro h; simp [flatten_leaf q hl, h]

theorem flattenLoop_pres {ctx pb nt D} (hD : ScopeOK ctx nt D) (n : Nat) : Pres ctx pb nt D (flattenLoop n) := by
  induction n with
  | zero => intro q h; exact ⟨by simpa [flattenLoop] using h, fun _ _ _ => by simp [flattenLoop]⟩
  | succ n ih =>
    intro q h
    obtain ⟨f1, f2⟩ := flatten_pres hD q h
    simp only [flattenLoop]
    split
    · obtain ⟨g1, g2⟩ := ih _ f1
      exact ⟨g1, fun s d hd => by rw [g2 s d hd, f2 s d hd]⟩
    · exact ⟨f1, f2⟩

theorem simplify_pres {ctx pb nt D} (hbr : BranchOK ctx pb D) (hD : ScopeOK ctx nt D) (hlive : ∀ s d, D s d → s.live d = true) :
    Pres ctx pb nt D simplify := by
  intro q h
  obtain ⟨e1, e2⟩ := evalConstantsF_pres hbr hD hlive (size q + 1) q h
  obtain ⟨f1, f2⟩ := flattenLoop_pres hD (size (evalConstants q) + 1) (evalConstants q) e1
  exact ⟨f1, fun s d hd => by
    show eval (flattenLoop (size (evalConstants q) + 1) (evalConstants q)) ctx s d = _
    rw [f2 s d hd]; exact e2 s d hd⟩

/-! ### termination of `Simplify`'s loop: a changing `flatten` step removes a node -/

theorem sizeL_append (a b : List Q) : sizeL (a ++ b) = sizeL a + sizeL b := by
  induction a with
  | nil => simp [sizeL]
  | cons c r ih => simp [sizeL, ih]; omega

theorem size_leaf (q : Q) (h : isLeaf q = true) : size q = 1 := by
  cases q <;> first | rfl | simp [isLeaf] at h

theorem spliceOne_size (b : Bool) (ch : Q) :
    sizeL (spliceOne b ch).1 ≤ size ch ∧ ((spliceOne b ch).2 = true → sizeL (spliceOne b ch).1 < size ch) := by
  unfold spliceOne
  split
  · simp [size]
  · simp [size]
  · simp [sizeL]

theorem spliceOne_unchanged (b : Bool) (ch : Q) (h : (spliceOne b ch).2 = false) : (spliceOne b ch).1 = [ch] := by
  unfold spliceOne at h ⊢
  split <;> simp_all

theorem flattenL_size (b : Bool) (cs : List Q)
    (hch : ∀ c ∈ cs, size (flatten c).1 ≤ size c ∧ ((flatten c).2 = true → size (flatten c).1 < size c)) :
    sizeL (flattenL b cs).1 ≤ sizeL cs ∧ ((flattenL b cs).2 = true → sizeL (flattenL b cs).1 < sizeL cs) := by
  induction cs with
  | nil => simp [flattenL, sizeL]
  | cons c r ih =>
    obtain ⟨i1, i2⟩ := ih (fun x hx => hch x (by simp [hx]))
    obtain ⟨c1, c2⟩ := hch c (by simp)
    obtain ⟨s1, s2⟩ := spliceOne_size b (flatten c).1
    simp only [flattenL, sizeL, sizeL_append]
    refine ⟨by omega, ?_⟩
    intro hchg
    simp only [Bool.or_eq_true] at hchg
    rcases hchg with (h | h) | h
    · have := c2 h; omega
    · have := s2 h; omega
    · have := i2 h; omega

theorem flatten_size (q : Q) :
    size (flatten q).1 ≤ size q ∧ ((flatten q).2 = true → size (flatten q).1 < size q) := by
  induction q using Q.ind with
  | hconst v => simp [flatten]
  | hand cs ih =>
    by_cases h1 : cs.length = 1
    · obtain ⟨c, rfl⟩ := List.length_eq_one_iff.mp h1
      simp [flatten_and_single, size, sizeL]
    · simp only [flatten_and_multi cs h1, size]
      obtain ⟨a, b⟩ := flattenL_size true cs ih
      exact ⟨by omega, fun h => by have := b h; omega⟩
  | hor cs ih =>
    by_cases h1 : cs.length = 1
    · obtain ⟨c, rfl⟩ := List.length_eq_one_iff.mp h1
      simp [flatten_or_single, size, sizeL]
    · simp only [flatten_or_multi cs h1, size]
      obtain ⟨a, b⟩ := flattenL_size false cs ih
      exact ⟨by omega, fun h => by have := b h; omega⟩
  | hnot c ih =>
    simp only [flatten, size]
    obtain ⟨a, b⟩ := ih
    exact ⟨by omega, fun h => by have := b h; omega⟩
  | htype t c ih =>
    simp only [flatten, size]
    obtain ⟨a, b⟩ := ih
    exact ⟨by omega, fun h => by have := b h; omega⟩
  | hboost w c ih =>
    simp only [flatten, size]
    obtain ⟨a, b⟩ := ih
    exact ⟨by omega, fun h => by have := b h; omega⟩
  | hcs c _ => simp [flatten]
  | hleaf q hl => simp [flatten_leaf q hl]

theorem flattenL_unchanged (b : Bool) (cs : List Q)
    (hch : ∀ c ∈ cs, (flatten c).2 = false → (flatten c).1 = c) (h : (flattenL b cs).2 = false) :
    (flattenL b cs).1 = cs := by
  induction cs with
  | nil => simp [flattenL]
  | cons c r ih =>
    simp only [flattenL, Bool.or_eq_false_iff] at h ⊢
    obtain ⟨⟨h1, h2⟩, h3⟩ := h
    rw [spliceOne_unchanged b _ h2, hch c (by simp) h1, ih (fun x hx => hch x (by simp [hx])) h3]
    rfl

theorem flatten_unchanged (q : Q) : (flatten q).2 = false → (flatten q).1 = q := by
  induction q using Q.ind with
  | hconst v => simp [flatten]
  | hand cs ih =>
    by_cases h1 : cs.length = 1
    · obtain ⟨c, rfl⟩ := List.length_eq_one_iff.mp h1
      simp [flatten_and_single]
    · simp only [flatten_and_multi cs h1]
      intro h
      rw [flattenL_unchanged true cs ih h]
  | hor cs ih =>
    by_cases h1 : cs.length = 1
    · obtain ⟨c, rfl⟩ := List.length_eq_one_iff.mp h1
      simp [flatten_or_single]
    · simp only [flatten_or_multi cs h1]
      intro h
      rw [flattenL_unchanged false cs ih h]
  | hnot c ih => simp only [flatten]; intro h; rw [ih h]
  | htype t c ih => simp only [flatten]; intro h; rw [ih h]
  | hboost w c ih => simp only [flatten]; intro h; rw [ih h]
  | hcs c _ => simp [flatten]
  | hleaf q hl => simp [flatten_leaf q hl]

/-- with fuel above the node count the loop ends at a tree that `flatten` leaves unchanged -/
theorem flattenLoop_fixpoint (n : Nat) (q : Q) (h : size q < n) : (flatten (flattenLoop n q)).2 = false := by
  induction n generalizing q with
  | zero => omega
  | succ n ih =>
    simp only [flattenLoop]
    split
    · rename_i hc
      have := (flatten_size q).2 hc
      exact ih _ (by omega)
    · rename_i hc
      have hc' : (flatten q).2 = false := by simpa using hc
      rw [flatten_unchanged q hc']
      exact hc'

/-! ### file/content expansion, case scopes -/

theorem expandFileContent_pres {ctx pb nt D} : Pres ctx pb nt D expandFileContent := by
  intro q h
  cases q with
  | substr pat cs fn ct =>
    simp only [expandFileContent]
    split
    · rename_i hfc
      refine ⟨by simp [wf, wfL], fun s d _ => ?_⟩
      simp only [eval, evalAny]
      cases s.repoOf d with
      | none => rfl
      | some r =>
        simp only [evalAtom, atomKey, fileContent]
        have : fn = ct := by simpa using hfc
        subst this
        cases pat.isEmpty <;> cases fn <;> simp
    · exact ⟨h, fun _ _ _ => rfl⟩
  | regex src e cs fn ct =>
    simp only [expandFileContent]
    split
    · rename_i hfc
      refine ⟨by simp [wf, wfL], fun s d _ => ?_⟩
      simp only [eval, evalAny]
      cases s.repoOf d with
      | none => rfl
      | some r =>
        simp only [evalAtom, atomKey, fileContent]
        have : fn = ct := by simpa using hfc
        subst this
        cases e <;> cases fn <;> simp
    · exact ⟨h, fun _ _ _ => rfl⟩
  | _ => exact ⟨by simpa [expandFileContent] using h, fun _ _ _ => by simp [expandFileContent]⟩

theorem expand_pres {ctx pb nt D} (hD : ScopeOK ctx nt D) : Pres ctx pb nt D expand :=
  map_pres hD _ expandFileContent_pres

theorem strip_leaf (q : Q) (h : isLeaf q = true) : stripCaseScopes q = q := by
  cases q <;> first | rfl | simp [isLeaf] at h

theorem strip_pres {ctx pb nt D} (hD : ScopeOK ctx nt D) : Pres ctx pb nt D stripCaseScopes := by
  intro q
  induction q using Q.ind with
  | hconst v => intro h; exact ⟨by simpa [stripCaseScopes] using h, fun _ _ _ => by simp [stripCaseScopes]⟩
  | hand cs ih =>
    intro h
    have hw : ∀ c ∈ cs, wf pb nt c = true := by simpa [wf, wfL_eq] using h
    simp only [stripCaseScopes, stripL_eq]
    refine ⟨?_, fun s d hd => ?_⟩
    · simp only [wf, wfL_eq, List.all_map, List.all_eq_true]
      exact fun c hc => (ih c hc (hw c hc)).1
    · simp only [eval, evalAll_eq, List.all_map]
      exact all_congr_mem (fun c hc => (ih c hc (hw c hc)).2 s d hd)
  | hor cs ih =>
    intro h
    have hw : ∀ c ∈ cs, wf pb nt c = true := by simpa [wf, wfL_eq] using h
    simp only [stripCaseScopes, stripL_eq]
    refine ⟨?_, fun s d hd => ?_⟩
    · simp only [wf, wfL_eq, List.all_map, List.all_eq_true]
      exact fun c hc => (ih c hc (hw c hc)).1
    · simp only [eval, evalAny_eq, List.any_map]
      exact any_congr_mem (fun c hc => (ih c hc (hw c hc)).2 s d hd)
  | hnot c ih =>
    intro h
    have hw : wf pb nt c = true := by simpa [wf] using h
    obtain ⟨i1, i2⟩ := ih hw
    simp only [stripCaseScopes]
    exact ⟨by simpa [wf] using i1, fun s d hd => by simp [eval, i2 s d hd]⟩
  | htype t c ih =>
    intro h
    have hw : wf pb nt c = true := by
      simp only [wf, Bool.and_eq_true] at h; exact h.2
    obtain ⟨i1, i2⟩ := ih hw
    simp only [stripCaseScopes]
    refine ⟨?_, fun s d hd => eval_type_congr hD t c _ h i2 s d hd⟩
    simp only [wf, Bool.and_eq_true] at h ⊢; exact ⟨h.1, i1⟩
  | hboost w c ih =>
    intro h
    have hw : wf pb nt c = true := by simpa [wf] using h
    obtain ⟨i1, i2⟩ := ih hw
    simp only [stripCaseScopes]
    exact ⟨by simpa [wf] using i1, fun s d hd => by simp [eval, i2 s d hd]⟩
  | hcs c ih =>
    intro h
    have hw : wf pb nt c = true := by simpa [wf] using h
    obtain ⟨i1, i2⟩ := ih hw
    simp only [stripCaseScopes]
    exact ⟨i1, fun s d hd => by simp [eval, i2 s d hd]⟩
  | hleaf q hl => intro h; simp [strip_leaf q hl, h]

/-! ### per-shard simplification -/

theorem filter_length_eq {α} (l : List α) (p : α → Bool) (h : (l.filter p).length = l.length) :
    ∀ x ∈ l, p x = true := by
  simpa using h

theorem filter_length_zero {α} (l : List α) (p : α → Bool) (h : ¬ (l.filter p).length > 0) :
    ∀ x ∈ l, p x = false := by
  intro x hx
  cases hp : p x with
  | false => rfl
  | true =>
    have : x ∈ l.filter p := List.mem_filter.mpr ⟨hx, hp⟩
    have : (l.filter p).length > 0 := List.length_pos_of_mem this
    contradiction

/-- `simplifyMultiRepo` is right on every document of a non-tombstoned repository of the shard, when the query
    evaluates on such a document to the predicate of its repository -/
theorem simplifyMultiRepo_eval (repos : List Repo) (q : Q) (pred : Repo → Bool) (r : Repo)
    (hr : r ∈ repos) (ht : r.tombstone = false) (ctx s d)
    (hq : eval q ctx s d = pred r) :
    eval (simplifyMultiRepo repos q pred) ctx s d = eval q ctx s d := by
  have hmem : r ∈ repos.filter (fun r => !r.tombstone) := List.mem_filter.mpr ⟨hr, by simp [ht]⟩
  unfold simplifyMultiRepo
  simp only
  split
  · rename_i h
    have := filter_length_eq _ pred (by simpa using h) r hmem
    rw [hq, this, eval_const]
  · split
    · rfl
    · rename_i h
      have := filter_length_zero _ pred h r hmem
      rw [hq, this, eval_const]

theorem simplifyMultiRepo_wf (repos : List Repo) (q : Q) (pred : Repo → Bool) (pb : Str → Bool → Bool) (nt : Bool) (h : wf pb nt q = true) :
    wf pb nt (simplifyMultiRepo repos q pred) = true := by
  unfold simplifyMultiRepo
  simp only
  split
  · simp [wf]
  · split
    · exact h
    · simp [wf]

theorem repoOf_mem {s : Shard} {d : Doc} {r : Repo} (h : s.repoOf d = some r) : r ∈ s.repos := by
  unfold Shard.repoOf at h
  exact List.mem_of_getElem? h

/-- documents of shard `s` the search loop looks at -/
def InShard (s : Shard) : Shard → Doc → Prop := fun s' d => s' = s ∧ s.live d = true

theorem shardAtom_pres (ctx : List Shard) (pb : Str → Bool → Bool) (s : Shard) (hv : s.featureVersion ≥ 12) :
    Pres ctx pb true (InShard s) (shardAtom s) := by
  intro q h
  have key : ∀ (pred : Repo → Bool),
      (∀ r d, s.repoOf d = some r → eval q ctx s d = pred r) →
      wf pb true (simplifyMultiRepo s.repos q pred) = true ∧
      ∀ s' d, InShard s s' d → eval (simplifyMultiRepo s.repos q pred) ctx s' d = eval q ctx s' d := by
    intro pred hq
    refine ⟨simplifyMultiRepo_wf _ _ _ _ _ h, ?_⟩
    rintro s' d ⟨rfl, hl⟩
    obtain ⟨r, hr, ht⟩ := live_repoOf hl
    exact simplifyMultiRepo_eval _ _ _ r (repoOf_mem hr) ht ctx _ d (hq r d hr)
  cases q with
  | repo p => exact key _ (fun r d hr => by simp [eval, hr, evalAtom])
  | repoRegexp p => exact key _ (fun r d hr => by simp [eval, hr, evalAtom])
  | repoSet set => exact key _ (fun r d hr => by simp [eval, hr, evalAtom, evalRepoSet, repoSetPred])
  | rawConfig mask => exact key _ (fun r d hr => by simp [eval, hr, evalAtom])
  | repoIDs ids => exact key _ (fun r d hr => by simp [eval, hr, evalAtom])
  | metaQ f p => exact key _ (fun r d hr => by simp [eval, hr, evalAtom])
  | branchesRepos l =>
    simp only [shardAtom]
    split
    · exact ⟨h, fun _ _ _ => rfl⟩
    · rename_i hn
      refine ⟨by simp [wf], ?_⟩
      rintro s' d ⟨rfl, hl⟩
      obtain ⟨r, hr, _⟩ := live_repoOf hl
      simp only [eval, hr, evalAtom, evalBranchesRepos]
      symm
      rw [List.any_eq_false]
      intro br hbr
      have h1 : (s'.repos.any fun r => l.any fun br => br.2.contains r.id) = false := by simpa using hn
      rw [List.any_eq_false] at h1
      have h2 := h1 r (repoOf_mem hr)
      rw [Bool.not_eq_true, List.any_eq_false] at h2
      have h3 := h2 br hbr
      have h4 : r.id ∉ br.2 := by simpa using h3
      simp [h4]
  | language l =>
    simp only [shardAtom]
    split
    · exact ⟨h, fun _ _ _ => rfl⟩
    · split
      · omega
      · rename_i hn _
        refine ⟨by simp [wf], ?_⟩
        rintro s' d ⟨rfl, hl⟩
        obtain ⟨r, hr, _⟩ := live_repoOf hl
        have h4 : l ∉ s'.langs := by simpa using hn
        simp [eval, hr, evalAtom, h4]
  | _ => exact ⟨by simpa [shardAtom] using h, fun _ _ _ => by simp [shardAtom]⟩

theorem shardSimplify_pres (ctx : List Shard) {pb : Str → Bool → Bool} (s : Shard) (hbr : BranchOK ctx pb (InShard s))
    (hv : s.featureVersion ≥ 12) :
    Pres ctx pb true (InShard s) (shardSimplify s) := by
  intro q h
  obtain ⟨m1, m2⟩ := map_pres (scope_nt ctx _) _ (shardAtom_pres ctx pb s hv) q h
  obtain ⟨s1, s2⟩ := simplify_pres hbr (scope_nt ctx (InShard s)) (fun _ d hd => by obtain ⟨rfl, hl⟩ := hd; exact hl) _ m1
  exact ⟨s1, fun s' d hd => by
    show eval (simplify (map (shardAtom s) q)) ctx s' d = _
    rw [s2 s' d hd, m2 s' d hd]⟩

end ZoektModel.Query
