/-
Wire encoding of query trees and shard descriptions for the line protocol (core Lean only).
Tokens are separated by single spaces; byte strings are hex (`-` = empty); a tree is written in prefix form.

  T | F | A n q… | O n q… | N q | Y t q | B w q | K q | S pat csfnct | X src e csfnct | M q | H pat exact
  BR n (branch ids)… | RI ids | RS n (name 0|1)… | RP src n yes… | RX src n yes… | RC mask | L lang
  ME field src n yes… | FS n name…
  shard: SH fv nl lang… nr repo… nd doc…
  repo : name id tomb rawmask nb branch… nm (key value)…
  doc  : repoIdx branchIdxs name lang nn key… nc key… ns key…
-/
import ZoektModel.Basic.Proto
import ZoektModel.C05.Query
namespace ZoektModel.Query
open ZoektModel.Proto

def hx (s : Str) : String := bytesToHex s
def flag (b : Bool) : String := if b then "1" else "0"

def showPred (p : NamePred) : String :=
  s!"{hx p.src} {p.yes.length}" ++ String.join (p.yes.map fun y => " " ++ hx y)

mutual
def showQ : Q → String
  | .const true => "T"
  | .const false => "F"
  | .and cs => s!"A {cs.length}" ++ showQL cs
  | .or cs => s!"O {cs.length}" ++ showQL cs
  | .not c => "N " ++ showQ c
  | .type t c => s!"Y {t} " ++ showQ c
  | .boost w c => s!"B {w} " ++ showQ c
  | .caseScope c => "K " ++ showQ c
  | .substr pat cs fn ct => s!"S {hx pat} {flag cs}{flag fn}{flag ct}"
  | .regex src e cs fn ct => s!"X {hx src} {flag e}{flag cs}{flag fn}{flag ct}"
  | .symbol e => "M " ++ showQ e
  | .branch pat exact => s!"H {hx pat} {flag exact}"
  | .branchesRepos l => s!"BR {l.length}" ++ String.join (l.map fun br => s!" {hx br.1} {showNatList br.2}")
  | .repoIDs ids => s!"RI {showNatList ids}"
  | .repoSet set => s!"RS {set.length}" ++ String.join (set.map fun e => s!" {hx e.1} {flag e.2}")
  | .repo p => "RP " ++ showPred p
  | .repoRegexp p => "RX " ++ showPred p
  | .rawConfig mask => s!"RC {mask}"
  | .language l => s!"L {hx l}"
  | .metaQ f p => s!"ME {hx f} " ++ showPred p
  | .fileNameSet names => s!"FS {names.length}" ++ String.join (names.map fun n => " " ++ hx n)
def showQL : List Q → String
  | [] => ""
  | c :: cs => " " ++ showQ c ++ showQL cs
end

/-! parsing: a cursor over the token list -/
abbrev P (α : Type) := List String → Option (α × List String)

def tok : P String
  | [] => none
  | t :: r => some (t, r)

def pNat : P Nat := fun ts => do
  let (t, r) ← tok ts
  let n ← t.toNat?
  pure (n, r)

def pStr : P Str := fun ts => do
  let (t, r) ← tok ts
  let b ← hexToBytes? t
  pure (b, r)

def pNatList : P (List Nat) := fun ts => do
  let (t, r) ← tok ts
  let l ← natList? t
  pure (l, r)

def pBool : P Bool := fun ts => do
  let (t, r) ← tok ts
  let b ← bool? t
  pure (b, r)

def pFlags (n : Nat) : P (List Bool) := fun ts => do
  let (t, r) ← tok ts
  let cs := t.toList
  if cs.length != n then none else
  let bs ← cs.mapM fun c => if c == '1' then some true else if c == '0' then some false else none
  pure (bs, r)

/-- `n` repetitions -/
def pMany {α} (p : P α) : Nat → P (List α)
  | 0 => fun ts => some ([], ts)
  | n + 1 => fun ts => do
    let (a, r) ← p ts
    let (l, r) ← pMany p n r
    pure (a :: l, r)

def pCounted {α} (p : P α) : P (List α) := fun ts => do
  let (n, r) ← pNat ts
  pMany p n r

def pPair {α β} (p : P α) (q : P β) : P (α × β) := fun ts => do
  let (a, r) ← p ts
  let (b, r) ← q r
  pure ((a, b), r)

def pPred : P NamePred := fun ts => do
  let (src, r) ← pStr ts
  let (yes, r) ← pCounted pStr r
  pure (⟨src, yes⟩, r)

/-- the tree parser recurses on the token list; fuel = number of tokens -/
def pQ : Nat → P Q
  | 0 => fun _ => none
  | fuel + 1 => fun ts => do
    let (t, r) ← tok ts
    match t with
    | "T" => pure (.const true, r)
    | "F" => pure (.const false, r)
    | "A" => do let (cs, r) ← pCounted (pQ fuel) r; pure (.and cs, r)
    | "O" => do let (cs, r) ← pCounted (pQ fuel) r; pure (.or cs, r)
    | "N" => do let (c, r) ← pQ fuel r; pure (.not c, r)
    | "Y" => do let (n, r) ← pNat r; let (c, r) ← pQ fuel r; pure (.type n c, r)
    | "B" => do let (n, r) ← pNat r; let (c, r) ← pQ fuel r; pure (.boost n c, r)
    | "K" => do let (c, r) ← pQ fuel r; pure (.caseScope c, r)
    | "S" => do
      let (pat, r) ← pStr r
      let (fl, r) ← pFlags 3 r
      match fl with
      | [a, b, c] => pure (.substr pat a b c, r)
      | _ => none
    | "X" => do
      let (src, r) ← pStr r
      let (fl, r) ← pFlags 4 r
      match fl with
      | [e, a, b, c] => pure (.regex src e a b c, r)
      | _ => none
    | "M" => do let (c, r) ← pQ fuel r; pure (.symbol c, r)
    | "H" => do let (pat, r) ← pStr r; let (e, r) ← pBool r; pure (.branch pat e, r)
    | "BR" => do let (l, r) ← pCounted (pPair pStr pNatList) r; pure (.branchesRepos l, r)
    | "RI" => do let (l, r) ← pNatList r; pure (.repoIDs l, r)
    | "RS" => do let (l, r) ← pCounted (pPair pStr pBool) r; pure (.repoSet l, r)
    | "RP" => do let (p, r) ← pPred r; pure (.repo p, r)
    | "RX" => do let (p, r) ← pPred r; pure (.repoRegexp p, r)
    | "RC" => do let (n, r) ← pNat r; pure (.rawConfig n, r)
    | "L" => do let (l, r) ← pStr r; pure (.language l, r)
    | "ME" => do let (f, r) ← pStr r; let (p, r) ← pPred r; pure (.metaQ f p, r)
    | "FS" => do let (l, r) ← pCounted pStr r; pure (.fileNameSet l, r)
    | _ => none

def pRepo : P Repo := fun ts => do
  let (name, r) ← pStr ts
  let (id, r) ← pNat r
  let (tomb, r) ← pBool r
  let (raw, r) ← pNat r
  let (brs, r) ← pCounted pStr r
  let (md, r) ← pCounted (pPair pStr pStr) r
  pure (⟨name, id, brs, raw, md, tomb⟩, r)

def pDoc : P Doc := fun ts => do
  let (repo, r) ← pNat ts
  let (brs, r) ← pNatList r
  let (name, r) ← pStr r
  let (lang, r) ← pStr r
  let (nh, r) ← pCounted pStr r
  let (ch, r) ← pCounted pStr r
  let (sh, r) ← pCounted pStr r
  pure (⟨repo, brs, name, lang, nh, ch, sh⟩, r)

def pShard : P Shard := fun ts => do
  let (t, r) ← tok ts
  if t != "SH" then none else
  let (fv, r) ← pNat r
  let (langs, r) ← pCounted pStr r
  let (repos, r) ← pCounted pRepo r
  let (docs, r) ← pCounted pDoc r
  pure (⟨repos, langs, fv, docs⟩, r)

def pTree : P Q := fun ts => pQ (ts.length + 1) ts

/-- parse a whole string as one tree -/
def parseQ? (s : String) : Option Q :=
  match pTree (fields s) with
  | some (q, []) => some q
  | _ => none

end ZoektModel.Query
