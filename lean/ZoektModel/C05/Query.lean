/-
The zoekt query tree (package `query`), repository metadata of a shard, and the *reference evaluation* of a
query on a document.  Shared by C05 (rewrites preserve meaning) and C18 (sharded searcher).  Core Lean only.

Strings are byte lists (`Str`): Go's `==`, `strings.Contains` and map lookups are byte-wise.

A regular expression over repository names / metadata values (`Repo`, `RepoRegexp`, `Meta`) is abstract: the
model carries its printed source and the finite table of strings on which it matches.  Every corpus has finitely
many names, so a theorem for all tables is a theorem for all regular expressions on all corpora; the harness
fills the table by running the real engine on every name of the case.

Content atoms (`Substring`, `Regexp`, `Symbol`) are abstract in the same way: a document lists the keys of the
atoms that hit its name / its content / its symbols, except that an *empty* pattern hits everywhere (the empty
string is a substring of every string), which is the fact constant folding relies on.
-/
namespace ZoektModel.Query

abbrev Str := List UInt8

/-- "HEAD" -/
def HEAD : Str := [72, 69, 65, 68]

/-- Go `strings.Contains(s, sub)` on bytes -/
def containsSub : (s sub : Str) → Bool
  | [], sub => sub.isEmpty
  | c :: cs, sub => sub.isPrefixOf (c :: cs) || containsSub cs sub

structure NamePred where
  src : Str
  yes : List Str
deriving Repr, DecidableEq, Inhabited

def NamePred.test (p : NamePred) (s : Str) : Bool := p.yes.contains s

/-- `query.Q`.  `type.t`: 0 = filematch, 1 = filename, 2 = repo.  `boost.w` is the float's bit pattern (opaque).
    `caseScope` is the parser's unexported `caseScopeQ` wrapper. -/
inductive Q where
  | const (v : Bool)
  | and (cs : List Q)
  | or (cs : List Q)
  | not (c : Q)
  | type (t : Nat) (c : Q)
  | boost (w : Nat) (c : Q)
  | caseScope (c : Q)
  | substr (pat : Str) (cs fn ct : Bool)
  | regex (src : Str) (emptyOp : Bool) (cs fn ct : Bool)
  | symbol (e : Q)
  | branch (pat : Str) (exact : Bool)
  | branchesRepos (l : List (Str × List Nat))
  | repoIDs (ids : List Nat)
  | repoSet (set : List (Str × Bool))
  | repo (p : NamePred)
  | repoRegexp (p : NamePred)
  | rawConfig (mask : Nat)
  | language (l : Str)
  | metaQ (field : Str) (p : NamePred)
  | fileNameSet (names : List Str)
deriving Repr, Inhabited

/-- `zoekt.Repository` as far as queries look at it.  `rawMask` = `encodeRawConfig(RawConfig)`. -/
structure Repo where
  name : Str
  id : Nat
  branches : List Str
  rawMask : Nat
  metadata : List (Str × Str)
  tombstone : Bool
deriving Repr, DecidableEq, Inhabited

/-- a document: index of its repository in the shard, the indices of its branches (set bits of the branch mask),
    name, language, and the keys of the content atoms that hit it -/
structure Doc where
  repo : Nat
  branches : List Nat
  name : Str
  lang : Str
  nameHits : List Str
  contentHits : List Str
  symHits : List Str
deriving Repr, DecidableEq, Inhabited

/-- `indexData` as far as query rewriting and evaluation look at it -/
structure Shard where
  repos : List Repo
  langs : List Str          -- keys of `metaData.LanguageMap`
  featureVersion : Nat      -- `metaData.IndexFeatureVersion`
  docs : List Doc
deriving Repr, Inhabited

def Shard.repoOf (s : Shard) (d : Doc) : Option Repo := s.repos[d.repo]?

/-- a document the search loop looks at: its repository exists and is not tombstoned -/
def Shard.live (s : Shard) (d : Doc) : Bool :=
  match s.repoOf d with
  | some r => !r.tombstone
  | none => false

/-- key of a content atom in a document's hit tables -/
def atomKey : Q → Str
  | .substr pat cs _ _ => (if cs then 1 else 0) :: 0 :: pat
  | .regex src _ cs _ _ => (if cs then 1 else 0) :: 1 :: src
  | _ => []

/-- map lookup `m[k]` (first binding) -/
def lookup {β} (k : Str) : List (Str × β) → Option β
  | [] => none
  | (k', v) :: r => if k' == k then some v else lookup k r

/-! ### atoms, as `newMatchTree` evaluates them on a document of repository `r` -/

/-- `Branch`: pattern "HEAD" means the first branch (mask 1), whatever it is called; otherwise the branches
    whose name equals / contains the pattern -/
def evalBranch (r : Repo) (d : Doc) (pat : Str) (exact : Bool) : Bool :=
  if pat == HEAD then d.branches.contains 0
  else d.branches.any fun i =>
    match r.branches[i]? with
    | some nm => if exact then nm == pat else containsSub nm pat
    | none => false

/-- `BranchesRepos`: the document is on a branch *named* `br.Branch` for some entry whose set holds the repo id -/
def evalBranchesRepos (r : Repo) (d : Doc) (l : List (Str × List Nat)) : Bool :=
  l.any fun br => br.2.contains r.id &&
    d.branches.any fun i => r.branches[i]? == some br.1

/-- `RepoSet` in `newMatchTree`: `_, ok := s.Set[r.Name]` (after the `fix:` commit: `s.Set[r.Name]`) -/
def evalRepoSet (r : Repo) (set : List (Str × Bool)) : Bool :=
  lookup r.name set == some true

def evalMeta (r : Repo) (field : Str) (p : NamePred) : Bool :=
  match lookup field r.metadata with
  | some v => p.test v
  | none => false

def evalRawConfig (r : Repo) (mask : Nat) : Bool :=
  (mask % 256) &&& r.rawMask == mask % 256

def fileContent (fn ct : Bool) (nameHit contentHit : Bool) : Bool :=
  if fn == ct then nameHit || contentHit else if fn then nameHit else contentHit

/-- atoms other than the composite kinds; `none` for composites -/
def evalAtom (s : Shard) (r : Repo) (d : Doc) : Q → Bool
  | .substr pat cs fn ct =>
    pat.isEmpty || fileContent fn ct (d.nameHits.contains (atomKey (.substr pat cs fn ct)))
      (d.contentHits.contains (atomKey (.substr pat cs fn ct)))
  | .regex src e cs fn ct =>
    e || fileContent fn ct (d.nameHits.contains (atomKey (.regex src e cs fn ct)))
      (d.contentHits.contains (atomKey (.regex src e cs fn ct)))
  | .symbol e => d.symHits.contains (atomKey e)
  | .branch pat exact => evalBranch r d pat exact
  | .branchesRepos l => evalBranchesRepos r d l
  | .repoIDs ids => ids.contains r.id
  | .repoSet set => evalRepoSet r set
  | .repo p => p.test r.name
  | .repoRegexp p => p.test r.name
  | .rawConfig mask => evalRawConfig r mask
  | .language l => s.langs.contains l && d.lang == l
  | .metaQ f p => evalMeta r f p
  | .fileNameSet names => names.contains d.name
  | _ => false

/-! ### reference evaluation

`eval q ctx s d`: does document `d` of shard `s` match `q`, the corpus being the shards `ctx`.  The corpus is
only consulted by `type:repo`, whose meaning is "the document's repository (by name) has a live document,
anywhere, that matches the child". `type:filematch`/`type:filename` and `Boost` only change presentation. -/
mutual
def eval : Q → List Shard → Shard → Doc → Bool
  | .const v, _, _, _ => v
  | .and cs, ctx, s, d => evalAll cs ctx s d
  | .or cs, ctx, s, d => evalAny cs ctx s d
  | .not c, ctx, s, d => !eval c ctx s d
  | .type t c, ctx, s, d =>
    if t == 2 then
      match s.repoOf d with
      | none => false
      | some r => ctx.any fun s' => s'.docs.any fun d' =>
          s'.live d' && ((s'.repoOf d').map (·.name) == some r.name) && eval c ctx s' d'
    else eval c ctx s d
  | .boost _ c, ctx, s, d => eval c ctx s d
  | .caseScope c, ctx, s, d => eval c ctx s d
  | q, _, s, d =>
    match s.repoOf d with
    | some r => evalAtom s r d q
    | none => false
def evalAll : List Q → List Shard → Shard → Doc → Bool
  | [], _, _, _ => true
  | c :: cs, ctx, s, d => eval c ctx s d && evalAll cs ctx s d
def evalAny : List Q → List Shard → Shard → Doc → Bool
  | [], _, _, _ => false
  | c :: cs, ctx, s, d => eval c ctx s d || evalAny cs ctx s d
end

/-! number of nodes (termination measure of `Simplify`'s loop) -/
mutual
def size : Q → Nat
  | .and cs => 1 + sizeL cs
  | .or cs => 1 + sizeL cs
  | .not c => 1 + size c
  | .type _ c => 1 + size c
  | .boost _ c => 1 + size c
  | .caseScope c => 1 + size c
  | _ => 1
def sizeL : List Q → Nat
  | [] => 0
  | c :: cs => size c + sizeL cs
end

def isConst : Q → Bool
  | .const _ => true
  | _ => false

end ZoektModel.Query
