import ZoektModel.Basic.Proto
namespace ZoektModel.C31
/-- stub: no model driver for C31 yet -/
def main : IO Unit := ZoektModel.Proto.runLines (fun _ => ZoektModel.Proto.badCase "no model driver for C31")
end ZoektModel.C31
