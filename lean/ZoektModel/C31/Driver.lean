import ZoektModel.Basic.Proto
import ZoektModel.C31.Spec
namespace ZoektModel.C31
open ZoektModel ZoektModel.Proto

/-! `trace <goroutines> <events>` (or `spec …`: statement only) — events, comma separated: `c<g>:W<name>` / `c<g>:G` (call), `b<g>` (f began),
    `e<g>` (f about to return), `t<g>` / `f<g>` (With returned true / false), `r<g>` (Global returned).
    Answer: `admitted left=<|running|> free=<0|1>` if the trace is a trace of the model (and the final state),
    `stuck@<k>` otherwise; verdict = the statement evaluated on the trace. -/

def parseEv (s : String) : Option Ev :=
  match s.toList with
  | 'c' :: rest =>
    match (String.ofList rest).splitOn ":" with
    | [g, o] => do
      let g ← g.toNat?
      if o == "G" then pure (.call g .g)
      else if o.startsWith "W" then pure (.call g (.w (← (o.drop 1).toString.toNat?)))
      else none
    | _ => none
  | 'b' :: rest => (String.ofList rest).toNat?.map .begin
  | 'e' :: rest => (String.ofList rest).toNat?.map .fin
  | 't' :: rest => (String.ofList rest).toNat?.map (.ret · true)
  | 'f' :: rest => (String.ofList rest).toNat?.map (.ret · false)
  | 'r' :: rest => (String.ofList rest).toNat?.map (.ret · true)
  | _ => none

def showEv : Ev → String
  | .call g (.w n) => s!"call{g}:W{n}"
  | .call g .g => s!"call{g}:G"
  | .begin g => s!"begin{g}"
  | .fin g => s!"end{g}"
  | .ret g b => s!"ret{g}:{b}"

def handle (line : String) : String :=
  let (inp, _) := splitCase line
  match fields inp with
  | [op, n, evs] =>
    match n.toNat?, (if evs == "-" then some [] else (evs.splitOn ",").mapM parseEv) with
    | some n, some tr =>
      let model :=
        if op == "spec" then "spec-only" else   -- large workloads: the statement only, no admission search
        match admitTrace n tr with
        | .error k => s!"stuck@{k}"
        | .ok finals =>
          match finals with
          | s :: _ => s!"admitted left={s.running.length} free={showBool (!s.writer && s.readers == 0)}"
          | [] => "stuck@end"
      if !traceOK n tr then
        match firstBad (List.replicate n .idle) 0 tr with
        | some (_, .begin _) => specFail model "overlap"
        | some (_, .ret _ true) => specFail model "misreported"
        | some (_, .ret _ false) => specFail model "skip-misreported-or-unjustified"
        | _ => specFail model "malformed"
      else if !skipsJustified tr then specFail model "skip-unjustified"
      else answer model
    | _, _ => badCase "fields"
  | _ => badCase "op"

def main : IO Unit := runLines handle
end ZoektModel.C31
