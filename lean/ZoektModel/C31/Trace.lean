/-
C31 — lemmas: preservation of the invariant by every step, the phase abstraction with its "reason to skip" flags,
the simulation of model executions by the executable statement, and a schedule runner for concrete executions.
-/
import ZoektModel.C31.Lemmas
namespace ZoektModel.C31

theorem step_cnt (s : State) (g : Nat) (old new : Pc) (hg : g < s.gs.length) (hp : pcAt s g = old) (p : Pc → Bool) :
    cnt p (s.gs.set g new) + b2n (p old) = cnt p s.gs + b2n (p new) := by
  have := cnt_set p s.gs g new hg
  rw [show at_ s.gs g = old from hp] at this
  exact this

theorem b2n_le (b : Bool) : b2n b ≤ 1 := by cases b <;> simp

/-- every hidden step preserves the invariant -/
theorem inv_hidden {s s' : State} (g : Nat) (hi : Inv s) (h : hidden s g = some s') : Inv s' := by
  unfold hidden at h
  split at h
  case isFalse => simp at h
  case isTrue hg =>
  obtain ⟨h1, h2, h3, h4⟩ := hi
  cases hp : pcAt s g <;> simp only [hp] at h
  case wCall n =>
    split at h
    · simp at h
    · rename_i hw
      injection h with h; subst h
      have c := step_cnt s g _ (.wLocked n) hg hp
      refine ⟨?_, ?_, ?_, ?_⟩
      · have := c readHeld; simp [readHeld, setPc] at this ⊢; omega
      · have := c writeHeld; simp [writeHeld, setPc] at this ⊢; omega
      · intro hw'; simp [setPc] at hw'; exact absurd hw' hw
      · intro m
        have := c (busy m)
        simp only [busy, b2n_false, Nat.add_zero] at this
        show cnt (busy m) (s.gs.set g _) = b2n (s.running.contains m)
        rw [this]; exact h4 m
  case wLocked n =>
    split at h
    · rename_i hc
      injection h with h; subst h
      have c := step_cnt s g _ (.wSkip n) hg hp
      refine ⟨?_, ?_, ?_, ?_⟩
      · have := c readHeld; simp [readHeld, setPc] at this ⊢; omega
      · have := c writeHeld; simp [writeHeld, setPc] at this ⊢; omega
      · simpa [setPc] using h3
      · intro m
        have := c (busy m)
        simp only [busy, b2n_false, Nat.add_zero] at this
        show cnt (busy m) (s.gs.set g _) = b2n (s.running.contains m)
        rw [this]; exact h4 m
    · rename_i hc
      injection h with h; subst h
      have c := step_cnt s g _ (.wRun n) hg hp
      refine ⟨?_, ?_, ?_, ?_⟩
      · have := c readHeld; simp [readHeld, setPc] at this ⊢; omega
      · have := c writeHeld; simp [writeHeld, setPc] at this ⊢; omega
      · simpa [setPc] using h3
      · intro m
        have := c (busy m)
        simp only [busy, b2n_false, Nat.add_zero] at this
        show cnt (busy m) (s.gs.set g _) = b2n ((n :: s.running).contains m)
        rw [this, h4 m, List.contains_cons]
        by_cases hm : m = n
        · subst hm
          have h0 : s.running.contains m = false := by simpa using hc
          rw [h0]; simp
        · have e1 : (m == n) = false := by simpa using hm
          have e2 : (n == m) = false := by simpa using (fun h => hm h.symm)
          rw [e1, e2]; simp
  case wSkip n =>
    injection h with h; subst h
    have c := step_cnt s g _ (.wRetF n) hg hp
    have hpos := cnt_pos_of_mem readHeld s.gs g hg (by rw [show at_ s.gs g = .wSkip n from hp]; rfl)
    refine ⟨?_, ?_, ?_, ?_⟩
    · have := c readHeld; simp [readHeld, setPc] at this ⊢; omega
    · have := c writeHeld; simp [writeHeld, setPc] at this ⊢; omega
    · intro hw; simp [setPc] at hw; have := h3 hw; omega
    · intro m
      have := c (busy m)
      simp only [busy, b2n_false, Nat.add_zero] at this
      show cnt (busy m) (s.gs.set g _) = b2n (s.running.contains m)
      rw [this]; exact h4 m
  case wDone n =>
    injection h with h; subst h
    have c := step_cnt s g _ (.wCleared n) hg hp
    refine ⟨?_, ?_, ?_, ?_⟩
    · have := c readHeld; simp [readHeld, setPc] at this ⊢; omega
    · have := c writeHeld; simp [writeHeld, setPc] at this ⊢; omega
    · simpa [setPc] using h3
    · intro m
      have := c (busy m)
      simp only [busy, b2n_false, Nat.add_zero] at this
      show cnt (busy m) (s.gs.set g _) = b2n ((s.running.filter (· ≠ n)).contains m)
      rw [contains_filter_ne]
      have h4m := h4 m
      generalize s.running.contains m = cm at h4m ⊢
      by_cases hm : m = n
      · subst hm
        have hpos := cnt_pos_of_mem (busy m) s.gs g hg (by rw [show at_ s.gs g = .wDone m from hp]; simp [busy])
        have hle := b2n_le cm
        have e1 : (m == m) = true := by simp
        rw [e1] at this
        simp at this ⊢
        omega
      · have e2 : (n == m) = false := by simpa using (fun h => hm h.symm)
        rw [e2] at this
        simp [hm] at this ⊢
        omega
  case wCleared n =>
    injection h with h; subst h
    have c := step_cnt s g _ (.wRetT n) hg hp
    have hpos := cnt_pos_of_mem readHeld s.gs g hg (by rw [show at_ s.gs g = .wCleared n from hp]; rfl)
    refine ⟨?_, ?_, ?_, ?_⟩
    · have := c readHeld; simp [readHeld, setPc] at this ⊢; omega
    · have := c writeHeld; simp [writeHeld, setPc] at this ⊢; omega
    · intro hw; simp [setPc] at hw; have := h3 hw; omega
    · intro m
      have := c (busy m)
      simp only [busy, b2n_false, Nat.add_zero] at this
      show cnt (busy m) (s.gs.set g _) = b2n (s.running.contains m)
      rw [this]; exact h4 m
  case gCall =>
    split at h
    · simp at h
    · rename_i hw
      injection h with h; subst h
      have c := step_cnt s g _ .gLocked hg hp
      simp at hw
      refine ⟨?_, ?_, ?_, ?_⟩
      · have := c readHeld; simp [readHeld, setPc] at this ⊢; omega
      · have := c writeHeld; simp [writeHeld, setPc, hw.1] at this h2 ⊢; omega
      · intro _; simpa [setPc] using hw.2
      · intro m
        have := c (busy m)
        simp only [busy, b2n_false, Nat.add_zero] at this
        show cnt (busy m) (s.gs.set g _) = b2n (s.running.contains m)
        rw [this]; exact h4 m
  case gDone =>
    injection h with h; subst h
    have c := step_cnt s g _ .gRet hg hp
    have hpos := cnt_pos_of_mem writeHeld s.gs g hg (by rw [show at_ s.gs g = .gDone from hp]; rfl)
    refine ⟨?_, ?_, ?_, ?_⟩
    · have := c readHeld; simp [readHeld, setPc] at this ⊢; omega
    · have := c writeHeld
      have hle := b2n_le s.writer
      simp [writeHeld, setPc] at this ⊢
      omega
    · intro hw; simp [setPc] at hw
    · intro m
      have := c (busy m)
      simp only [busy, b2n_false, Nat.add_zero] at this
      show cnt (busy m) (s.gs.set g _) = b2n (s.running.contains m)
      rw [this]; exact h4 m
  all_goals simp at h

/-- changing one goroutine's program point to one with the same lock/running status preserves the invariant -/
theorem inv_setPc {s : State} (g : Nat) (old new : Pc) (hi : Inv s) (hg : g < s.gs.length) (hp : pcAt s g = old)
    (hr : readHeld old = readHeld new) (hw : writeHeld old = writeHeld new) (hb : ∀ m, busy m old = busy m new) :
    Inv (setPc s g new) := by
  obtain ⟨h1, h2, h3, h4⟩ := hi
  have c := step_cnt s g old new hg hp
  refine ⟨?_, ?_, ?_, ?_⟩
  · have := c readHeld; rw [hr] at this; simp only [setPc]; omega
  · have := c writeHeld; rw [hw] at this; simp only [setPc]; omega
  · simpa [setPc] using h3
  · intro m; have := c (busy m); rw [hb m] at this; have := h4 m; simp only [setPc]; omega

/-- every logged step preserves the invariant -/
theorem inv_visible {s s' : State} (e : Ev) (hi : Inv s) (h : visible s e = some s') : Inv s' := by
  cases e with
  | call g o =>
    simp only [visible] at h
    split at h
    case isFalse => simp at h
    case isTrue hg =>
      cases hp : pcAt s g <;> cases o <;> simp only [hp] at h <;> try (simp at h)
      all_goals (subst h; exact inv_setPc g _ _ hi hg hp rfl rfl (fun _ => rfl))
  | begin g =>
    simp only [visible] at h
    split at h
    case isFalse => simp at h
    case isTrue hg =>
      cases hp : pcAt s g <;> simp only [hp] at h <;> try (simp at h)
      all_goals (subst h; exact inv_setPc g _ _ hi hg hp rfl rfl (fun _ => rfl))
  | fin g =>
    simp only [visible] at h
    split at h
    case isFalse => simp at h
    case isTrue hg =>
      cases hp : pcAt s g <;> simp only [hp] at h <;> try (simp at h)
      all_goals (subst h; exact inv_setPc g _ _ hi hg hp rfl rfl (fun _ => rfl))
  | ret g ran =>
    simp only [visible] at h
    split at h
    case isFalse => simp at h
    case isTrue hg =>
      cases hp : pcAt s g <;> cases ran <;> simp only [hp] at h <;> try (simp at h)
      all_goals (subst h; exact inv_setPc g _ _ hi hg hp rfl rfl (fun _ => rfl))

/-- the invariant holds in every reachable state: any number of goroutines, any interleaving -/
theorem inv_reach {s : State} (h : Reach s) : Inv s := by
  induction h with
  | init n => exact inv_init n
  | tau g _ hs ih => exact inv_hidden g ih hs
  | vis e _ hs ih => exact inv_visible e ih hs

/-! ### trace level: every logged trace of every execution satisfies the statement -/

/-- the phase of a goroutine, given its program point and its "a reason to skip has been seen" flag -/
def phaseOfF (pc : Pc) (b : Bool) : Phase :=
  match pc with
  | .idle => .idle
  | .wCall n | .wLocked n | .wSkip n | .wRetF n | .wRun n => .called (.w n) b
  | .wIn n => .inside (.w n)
  | .wDone n | .wCleared n | .wRetT n => .finished (.w n)
  | .gCall | .gLocked => .called .g false
  | .gIn => .inside .g
  | .gDone | .gRet => .finished .g

def absPhF (s : State) (fl : List Bool) : List Phase := List.zipWith phaseOfF s.gs fl

def flAt (fl : List Bool) (g : Nat) : Bool := fl.getD g false

/-- goroutine's program point belongs to a `With` for repository `n` -/
def inFlightPc (n : Nat) : Pc → Bool
  | .wCall m | .wLocked m | .wSkip m | .wRetF m | .wRun m | .wIn m | .wDone m | .wCleared m | .wRetT m => m == n
  | _ => false

theorem inFlightW_phaseOfF (n : Nat) (pc : Pc) (b : Bool) : inFlightW n (phaseOfF pc b) = inFlightPc n pc := by
  cases pc <;> rfl

theorem phAt_absF (s : State) (fl : List Bool) (hl : fl.length = s.gs.length) (j : Nat) :
    phAt (absPhF s fl) j = phaseOfF (pcAt s j) (flAt fl j) := by
  simp only [phAt, absPhF, pcAt, flAt, List.getD_eq_getElem?_getD, List.getElem?_zipWith]
  by_cases hj : j < s.gs.length
  · have hj' : j < fl.length := by omega
    simp [List.getElem?_eq_getElem hj, List.getElem?_eq_getElem hj']
  · have h1 : s.gs[j]? = none := List.getElem?_eq_none (by omega)
    simp [h1, phaseOfF]

theorem absF_length (s : State) (fl : List Bool) (hl : fl.length = s.gs.length) : (absPhF s fl).length = s.gs.length := by
  simp [absPhF, hl]

theorem zipWith_set {α β γ} (f : α → β → γ) (l : List α) (m : List β) (g : Nat) (x : α) (b : β) :
    List.zipWith f (l.set g x) (m.set g b) = (List.zipWith f l m).set g (f x b) := by
  apply List.ext_getElem?
  intro i
  simp only [List.getElem?_zipWith, List.getElem?_set, List.length_zipWith]
  by_cases hi : g = i
  · subst hi
    by_cases h1 : g < l.length <;> by_cases h2 : g < m.length <;> simp [h1, h2, List.getElem?_eq_none] <;> omega
  · simp [hi]

theorem absF_setPc (s : State) (fl : List Bool) (g : Nat) (pc : Pc) (b : Bool) :
    absPhF (setPc s g pc) (fl.set g b) = (absPhF s fl).set g (phaseOfF pc b) := by
  simp only [absPhF, setPc, zipWith_set]

theorem set_getD_self (fl : List Bool) (g : Nat) : fl.set g (flAt fl g) = fl := by
  apply List.ext_getElem?
  intro i
  simp only [List.getElem?_set, flAt, List.getD_eq_getElem?_getD]
  by_cases hi : g = i
  · subst hi
    by_cases h : g < fl.length
    · simp [h, List.getElem?_eq_getElem h]
    · simp [h, List.getElem?_eq_none (Nat.le_of_not_lt h)]
  · simp [hi]

/-- what the flags must record, relative to the model state -/
structure Good (s : State) (fl : List Bool) : Prop where
  len : fl.length = s.gs.length
  skip : ∀ g n, (pcAt s g = .wSkip n ∨ pcAt s g = .wRetF n) → flAt fl g = true
  wait : ∀ g n, (pcAt s g = .wCall n ∨ pcAt s g = .wLocked n) →
    (∃ j, j ≠ g ∧ j < s.gs.length ∧ inFlightPc n (pcAt s j) = true) → flAt fl g = true

theorem pcAt_setPc (s : State) (g j : Nat) (pc : Pc) (hg : g < s.gs.length) :
    pcAt (setPc s g pc) j = if j = g then pc else pcAt s j := by
  simp only [pcAt, setPc, List.getD_eq_getElem?_getD, List.getElem?_set]
  by_cases h : g = j
  · subst h; simp [hg]
  · have : ¬ j = g := fun e => h e.symm
    simp [h, this]

theorem cnt_exists (p : Pc → Bool) (l : List Pc) (h : 1 ≤ cnt p l) : ∃ i, i < l.length ∧ p (at_ l i) = true := by
  induction l with
  | nil => simp [cnt] at h
  | cons a r ih =>
    cases hp : p a
    · simp only [cnt, hp, b2n_false, Nat.zero_add] at h
      obtain ⟨i, hi, hpi⟩ := ih h
      exact ⟨i + 1, by simpa using hi, by simpa using hpi⟩
    · exact ⟨0, by simp, by simpa using hp⟩

/-- a hidden step changes neither the phases nor what the flags must record -/
theorem good_hidden {s s' : State} (fl : List Bool) (g : Nat) (hr : Reach s) (hgd : Good s fl) (h : hidden s g = some s') :
    Good s' fl ∧ absPhF s' fl = absPhF s fl := by
  have inv := inv_reach hr
  unfold hidden at h
  split at h
  case isFalse => simp at h
  case isTrue hg =>
  -- every hidden step is `setPc s g pc'` (plus lock/running bookkeeping) with pc' in the same operation and phase
  have key : ∀ (pc' : Pc) (s1 : State), s1.gs = s.gs.set g pc' →
      (∀ b, phaseOfF pc' b = phaseOfF (pcAt s g) b) → (∀ n, inFlightPc n pc' = inFlightPc n (pcAt s g)) →
      (∀ n, (pc' = .wSkip n ∨ pc' = .wRetF n) → flAt fl g = true) →
      (∀ n, (pc' = .wCall n ∨ pc' = .wLocked n) → (pcAt s g = .wCall n ∨ pcAt s g = .wLocked n)) →
      Good s1 fl ∧ absPhF s1 fl = absPhF s fl := by
    intro pc' s1 hgs hph hfl hsk hwt
    have hpc : ∀ j, pcAt s1 j = if j = g then pc' else pcAt s j := by
      intro j
      have := pcAt_setPc s g j pc' hg
      simp only [pcAt, setPc] at this ⊢
      rw [hgs]; exact this
    have hlen : s1.gs.length = s.gs.length := by rw [hgs]; simp
    refine ⟨⟨by rw [hlen]; exact hgd.len, ?_, ?_⟩, ?_⟩
    · intro j n hj
      rw [hpc] at hj
      by_cases hjg : j = g
      · subst hjg; simp only [if_true] at hj; exact hsk n hj
      · simp only [hjg, if_false] at hj; exact hgd.skip j n hj
    · intro j n hj ⟨k, hkj, hk, hin⟩
      rw [hpc] at hj
      rw [hlen] at hk
      have hin' : inFlightPc n (pcAt s k) = true := by
        rw [hpc] at hin
        by_cases hkg : k = g
        · subst hkg; simp only [if_true] at hin; rw [hfl] at hin; exact hin
        · simpa [hkg] using hin
      by_cases hjg : j = g
      · subst hjg
        simp only [if_true] at hj
        exact hgd.wait j n (hwt n hj) ⟨k, hkj, hk, hin'⟩
      · simp only [hjg, if_false] at hj
        exact hgd.wait j n hj ⟨k, hkj, hk, hin'⟩
    · have : absPhF s1 fl = absPhF (setPc s g pc') (fl.set g (flAt fl g)) := by
        rw [set_getD_self]; simp only [absPhF, setPc, hgs]
      rw [this, absF_setPc, hph, ← phAt_absF s fl hgd.len g]
      apply List.ext_getElem
      · simp
      · intro i h1 h2
        by_cases hi : g = i
        · subst hi; simp [phAt, List.getD_eq_getElem?_getD, List.getElem?_eq_getElem h2]
        · simp [List.getElem_set, hi]
  cases hp : pcAt s g <;> simp only [hp] at h
  case wCall n =>
    split at h
    · simp at h
    · injection h with h; subst h
      exact key (.wLocked n) _ rfl (by rw [hp]; intro b; rfl) (by rw [hp]; intro m; rfl) (by intro m hm; rcases hm with hm | hm <;> cases hm)
        (by intro m hm; rw [hp]; rcases hm with hm | hm
            · cases hm
            · injection hm with hm; subst hm; exact Or.inl rfl)
  case wLocked n =>
    split at h
    · rename_i hc
      injection h with h; subst h
      -- skipped: some other goroutine has running[n], so the flag of g is set
      have hflag : flAt fl g = true := by
        apply hgd.wait g n (Or.inr hp)
        have h1 : 1 ≤ cnt (busy n) s.gs := by rw [inv.running n, hc]; simp
        obtain ⟨j, hj, hb⟩ := cnt_exists (busy n) s.gs h1
        refine ⟨j, ?_, hj, ?_⟩
        · intro e; subst e
          rw [show at_ s.gs j = .wLocked n from hp] at hb; simp [busy] at hb
        · have : pcAt s j = at_ s.gs j := rfl
          rw [this]
          cases hpj : at_ s.gs j <;> rw [hpj] at hb <;> simp [busy] at hb <;> simp [inFlightPc, hb]
      exact key (.wSkip n) _ rfl (by rw [hp]; intro b; rfl) (by rw [hp]; intro m; rfl) (fun _ _ => hflag)
        (by intro m hm; rcases hm with hm | hm <;> cases hm)
    · injection h with h; subst h
      exact key (.wRun n) _ rfl (by rw [hp]; intro b; rfl) (by rw [hp]; intro m; rfl) (by intro m hm; rcases hm with hm | hm <;> cases hm)
        (by intro m hm; rcases hm with hm | hm <;> cases hm)
  case wSkip n =>
    injection h with h; subst h
    exact key (.wRetF n) _ rfl (by rw [hp]; intro b; rfl) (by rw [hp]; intro m; rfl) (fun _ _ => hgd.skip g n (Or.inl hp))
      (by intro m hm; rcases hm with hm | hm <;> cases hm)
  case wDone n =>
    injection h with h; subst h
    exact key (.wCleared n) _ rfl (by rw [hp]; intro b; rfl) (by rw [hp]; intro m; rfl) (by intro m hm; rcases hm with hm | hm <;> cases hm)
      (by intro m hm; rcases hm with hm | hm <;> cases hm)
  case wCleared n =>
    injection h with h; subst h
    exact key (.wRetT n) _ rfl (by rw [hp]; intro b; rfl) (by rw [hp]; intro m; rfl) (by intro m hm; rcases hm with hm | hm <;> cases hm)
      (by intro m hm; rcases hm with hm | hm <;> cases hm)
  case gCall =>
    split at h
    · simp at h
    · injection h with h; subst h
      exact key .gLocked _ rfl (by rw [hp]; intro b; rfl) (by rw [hp]; intro m; rfl) (by intro m hm; rcases hm with hm | hm <;> cases hm)
        (by intro m hm; rcases hm with hm | hm <;> cases hm)
  case gDone =>
    injection h with h; subst h
    exact key .gRet _ rfl (by rw [hp]; intro b; rfl) (by rw [hp]; intro m; rfl) (by intro m hm; rcases hm with hm | hm <;> cases hm)
      (by intro m hm; rcases hm with hm | hm <;> cases hm)
  all_goals simp at h

/-- in a reachable state, the goroutine that is about to run `f` may do so according to the statement -/
theorem mayRun_of_reach {s : State} (h : Reach s) (fl : List Bool) (hl : fl.length = s.gs.length) (g : Nat) (hg : g < s.gs.length) (o : Op)
    (hp : (∃ n, o = .w n ∧ pcAt s g = .wRun n) ∨ (o = .g ∧ pcAt s g = .gLocked)) :
    mayRun (absPhF s fl) g o = true := by
  have inv := inv_reach h
  unfold mayRun
  rw [List.all_eq_true]
  intro j hj
  rw [List.mem_range, absF_length s fl hl] at hj
  by_cases hjg : j = g
  · simp [hjg]
  · have hne : (j == g) = false := by simpa using hjg
    rw [hne, Bool.false_or, phAt_absF s fl hl]
    rcases hp with ⟨n, rfl, hp⟩ | ⟨rfl, hp⟩
    · have hr := cnt_pos_of_mem readHeld s.gs g hg (by rw [show at_ s.gs g = .wRun n from hp]; rfl)
      cases hpj : pcAt s j <;> simp only [phaseOfF]
      case wIn m =>
        show (m != n) = true
        by_cases hmn : m = n
        · subst hmn
          have hle : cnt (busy m) s.gs ≤ 1 := by rw [inv.running m]; exact b2n_le _
          exact absurd (cnt_le_one_unique (busy m) s.gs hle j g hj hg
            (by rw [show at_ s.gs j = .wIn m from hpj]; simp [busy]) (by rw [show at_ s.gs g = .wRun m from hp]; simp [busy])) hjg
        · simpa using hmn
      case gIn =>
        exfalso
        have hw := cnt_pos_of_mem writeHeld s.gs j hj (by rw [show at_ s.gs j = .gIn from hpj]; rfl)
        have : s.writer = true := by
          cases hw' : s.writer
          · have := inv.writer; rw [hw'] at this; simp at this; omega
          · rfl
        have := inv.excl this
        have := inv.readers
        omega
    · have hw := cnt_pos_of_mem writeHeld s.gs g hg (by rw [show at_ s.gs g = .gLocked from hp]; rfl)
      have hwr : s.writer = true := by
        cases hw' : s.writer
        · have := inv.writer; rw [hw'] at this; simp at this; omega
        · rfl
      cases hpj : pcAt s j <;> simp only [phaseOfF]
      case wIn m =>
        exfalso
        have := cnt_pos_of_mem readHeld s.gs j hj (by rw [show at_ s.gs j = .wIn m from hpj]; rfl)
        have := inv.excl hwr
        have := inv.readers
        omega
      case gIn =>
        exfalso
        have hle : cnt writeHeld s.gs ≤ 1 := by rw [inv.writer]; exact b2n_le _
        exact hjg (cnt_le_one_unique writeHeld s.gs hle j g hj hg
          (by rw [show at_ s.gs j = .gIn from hpj]; rfl) (by rw [show at_ s.gs g = .gLocked from hp]; rfl))

/-- flag update of `markOne` seen from the program point -/
def markFlag (n : Nat) (pc : Pc) (b : Bool) : Bool :=
  match pc with
  | .wCall m | .wLocked m | .wSkip m | .wRetF m | .wRun m => b || m == n
  | _ => b

theorem markOne_phaseOfF (n : Nat) (pc : Pc) (b : Bool) : markOne n (phaseOfF pc b) = phaseOfF pc (markFlag n pc b) := by
  cases pc <;> rfl

theorem map_markOne_absF (n : Nat) (s : State) (fl : List Bool) :
    (absPhF s fl).map (markOne n) = absPhF s (List.zipWith (markFlag n) s.gs fl) := by
  apply List.ext_getElem?
  intro i
  simp only [absPhF, List.getElem?_map, List.getElem?_zipWith]
  cases h1 : s.gs[i]? <;> cases h2 : fl[i]? <;> simp [markOne_phaseOfF]

theorem flAt_zipMark (n : Nat) (s : State) (fl : List Bool) (hl : fl.length = s.gs.length) (j : Nat) :
    flAt (List.zipWith (markFlag n) s.gs fl) j = markFlag n (pcAt s j) (flAt fl j) := by
  simp only [flAt, pcAt, List.getD_eq_getElem?_getD, List.getElem?_zipWith]
  by_cases hj : j < s.gs.length
  · have hj' : j < fl.length := by omega
    simp [List.getElem?_eq_getElem hj, List.getElem?_eq_getElem hj']
  · have h1 : s.gs[j]? = none := List.getElem?_eq_none (by omega)
    have h2 : fl[j]? = none := List.getElem?_eq_none (by omega)
    simp [h1, h2, markFlag]

theorem flAt_set (fl : List Bool) (g j : Nat) (b : Bool) (hg : g < fl.length) : flAt (fl.set g b) j = if j = g then b else flAt fl j := by
  simp only [flAt, List.getD_eq_getElem?_getD, List.getElem?_set]
  by_cases h : g = j
  · subst h; simp [hg]
  · have : ¬ j = g := fun e => h e.symm
    simp [h, this]

theorem markFlag_mono (n : Nat) (pc : Pc) (b : Bool) (h : b = true) : markFlag n pc b = true := by
  subst h; cases pc <;> simp [markFlag]

theorem anyOther_inFlight {s : State} (fl : List Bool) (hl : fl.length = s.gs.length) (g n : Nat) :
    anyOther (absPhF s fl) g (inFlightW n) = true ↔ ∃ j, j ≠ g ∧ j < s.gs.length ∧ inFlightPc n (pcAt s j) = true := by
  simp only [anyOther, List.any_eq_true, List.mem_range, absF_length s fl hl, Bool.and_eq_true, bne_iff_ne, ne_eq]
  constructor
  · rintro ⟨j, hj, hne, hin⟩
    rw [phAt_absF s fl hl, inFlightW_phaseOfF] at hin
    exact ⟨j, hne, hj, hin⟩
  · rintro ⟨j, hne, hj, hin⟩
    exact ⟨j, hj, hne, by rw [phAt_absF s fl hl, inFlightW_phaseOfF]; exact hin⟩

/-- a logged step of the model is a step the statement allows, and the flags keep recording what they must -/
theorem spec_visible {s s' : State} (fl : List Bool) (e : Ev) (hr : Reach s) (hgd : Good s fl) (h : visible s e = some s') :
    ∃ fl', specStep (absPhF s fl) e = some (absPhF s' fl') ∧ Good s' fl' := by
  have hl := hgd.len
  -- the generic part: `s' = setPc s g pc'`, flags `fl'`
  have good_set : ∀ (g : Nat) (pc' : Pc) (fl' : List Bool), g < s.gs.length → fl'.length = fl.length →
      (∀ j, j ≠ g → flAt fl j = true → flAt fl' j = true) →
      (∀ n, (pc' = .wSkip n ∨ pc' = .wRetF n) → flAt fl' g = true) →
      (∀ n, (pc' = .wCall n ∨ pc' = .wLocked n) → (∃ j, j ≠ g ∧ j < s.gs.length ∧ inFlightPc n (pcAt s j) = true) → flAt fl' g = true) →
      (∀ j n, j ≠ g → (pcAt s j = .wCall n ∨ pcAt s j = .wLocked n) → inFlightPc n pc' = true →
        (∀ k, k ≠ j → k < s.gs.length → inFlightPc n (pcAt s k) = false ∨ k = g) → inFlightPc n (pcAt s g) = false → flAt fl' j = true) →
      Good (setPc s g pc') fl' := by
    intro g pc' fl' hg hlen hmono hsk hwt hnew
    have hpc := fun j => pcAt_setPc s g j pc' hg
    refine ⟨by simp [setPc, hlen, hl], ?_, ?_⟩
    · intro j n hj
      rw [hpc] at hj
      by_cases hjg : j = g
      · subst hjg; simp only [if_true] at hj; exact hsk n hj
      · simp only [hjg, if_false] at hj; exact hmono j hjg (hgd.skip j n hj)
    · intro j n hj ⟨k, hkj, hk, hin⟩
      rw [hpc] at hj hin
      have hk' : k < s.gs.length := by simpa [setPc] using hk
      by_cases hjg : j = g
      · subst hjg
        simp only [if_true] at hj
        have hkg : k ≠ j := hkj
        simp only [hkg, if_false] at hin
        exact hwt n hj ⟨k, hkj, hk', hin⟩
      · simp only [hjg, if_false] at hj
        by_cases hold : ∃ k', k' ≠ j ∧ k' < s.gs.length ∧ inFlightPc n (pcAt s k') = true
        · exact hmono j hjg (hgd.wait j n hj hold)
        · -- the only witness is the new operation of g
          have hkg : k = g := by
            by_cases hkg : k = g
            · exact hkg
            · simp only [hkg, if_false] at hin; exact absurd ⟨k, hkj, hk', hin⟩ hold
          subst hkg
          simp only [if_true] at hin
          apply hnew j n hjg hj hin
          · intro k' hk'j hk'l
            cases hc : inFlightPc n (pcAt s k')
            · exact Or.inl rfl
            · exact absurd ⟨k', hk'j, hk'l, hc⟩ hold
          · cases hc : inFlightPc n (pcAt s k)
            · rfl
            · exact absurd ⟨k, hkj, hk', hc⟩ hold
  cases e with
  | call g o =>
    simp only [visible] at h
    split at h
    case isFalse => simp at h
    case isTrue hg =>
      have hgfl : g < fl.length := by omega
      cases hp : pcAt s g <;> cases o <;> simp only [hp] at h <;> try (simp at h)
      case idle.w n =>
        subst h
        refine ⟨(List.zipWith (markFlag n) s.gs fl).set g (anyOther (absPhF s fl) g (inFlightW n)), ?_, ?_⟩
        · have hidle : phAt (absPhF s fl) g = .idle := by rw [phAt_absF s fl hl, hp]; rfl
          simp only [specStep, absF_length s fl hl, hg, hidle, decide_true, beq_self_eq_true, Bool.and_self, if_true]
          rw [absF_setPc, map_markOne_absF]; rfl
        · apply good_set g (.wCall n) _ hg (by simp [hl])
          · intro j hjg hj
            rw [flAt_set _ _ _ _ (by simp [hl]; omega), if_neg hjg, flAt_zipMark n s fl hl]
            exact markFlag_mono n _ _ hj
          · intro m hm; rcases hm with hm | hm <;> cases hm
          · intro m hm hex
            have : m = n := by
              rcases hm with hm | hm
              · injection hm with hm; exact hm.symm
              · cases hm
            subst this
            rw [flAt_set _ _ _ _ (by simp [hl]; omega), if_pos rfl]
            exact (anyOther_inFlight fl hl g m).mpr hex
          · intro j m hjg hj hin _ _
            rw [flAt_set _ _ _ _ (by simp [hl]; omega), if_neg hjg, flAt_zipMark n s fl hl]
            have hnm : (n == m) = true := hin
            have hmn : (m == n) = true := by rw [beq_iff_eq] at hnm ⊢; exact hnm.symm
            rcases hj with hj | hj <;> rw [hj] <;> simp [markFlag, hmn]
      case idle.g =>
        subst h
        refine ⟨fl.set g false, ?_, ?_⟩
        · have hidle : phAt (absPhF s fl) g = .idle := by rw [phAt_absF s fl hl, hp]; rfl
          simp only [specStep, absF_length s fl hl, hg, hidle, decide_true, beq_self_eq_true, Bool.and_self, if_true]
          rw [absF_setPc]; rfl
        · apply good_set g .gCall _ hg (by simp)
          · intro j hjg hj; rw [flAt_set _ _ _ _ hgfl, if_neg hjg]; exact hj
          · intro m hm; rcases hm with hm | hm <;> cases hm
          · intro m hm; rcases hm with hm | hm <;> cases hm
          · intro j m _ _ hin; simp [inFlightPc] at hin
  | begin g =>
    simp only [visible] at h
    split at h
    case isFalse => simp at h
    case isTrue hg =>
      have hgfl : g < fl.length := by omega
      cases hp : pcAt s g <;> simp only [hp] at h <;> try (simp at h)
      case wRun n =>
        subst h
        have hm := mayRun_of_reach hr fl hl g hg (.w n) (Or.inl ⟨n, rfl, hp⟩)
        refine ⟨fl.set g (flAt fl g), ?_, ?_⟩
        · have hph : phAt (absPhF s fl) g = .called (.w n) (flAt fl g) := by rw [phAt_absF s fl hl, hp]; rfl
          simp only [specStep, hph, hm, if_true]
          rw [absF_setPc]; rfl
        · rw [set_getD_self]
          apply good_set g (.wIn n) fl hg rfl (fun _ _ h => h)
          · intro m hm; rcases hm with hm | hm <;> cases hm
          · intro m hm; rcases hm with hm | hm <;> cases hm
          · intro j m _ _ hin _ hnot; rw [hp] at hnot; simp [inFlightPc] at hin hnot; first | exact absurd hin hnot | exact absurd hin.symm hnot | exact absurd rfl hnot
      case gLocked =>
        subst h
        have hm := mayRun_of_reach hr fl hl g hg .g (Or.inr ⟨rfl, hp⟩)
        refine ⟨fl.set g (flAt fl g), ?_, ?_⟩
        · have hph : phAt (absPhF s fl) g = .called .g false := by rw [phAt_absF s fl hl, hp]; rfl
          simp only [specStep, hph, hm, if_true]
          rw [absF_setPc]; rfl
        · rw [set_getD_self]
          apply good_set g .gIn fl hg rfl (fun _ _ h => h)
          · intro m hm; rcases hm with hm | hm <;> cases hm
          · intro m hm; rcases hm with hm | hm <;> cases hm
          · intro j m _ _ hin; simp [inFlightPc] at hin
  | fin g =>
    simp only [visible] at h
    split at h
    case isFalse => simp at h
    case isTrue hg =>
      cases hp : pcAt s g <;> simp only [hp] at h <;> try (simp at h)
      case wIn n =>
        subst h
        refine ⟨fl.set g (flAt fl g), ?_, ?_⟩
        · have hph : phAt (absPhF s fl) g = .inside (.w n) := by rw [phAt_absF s fl hl, hp]; rfl
          simp only [specStep, hph]
          rw [absF_setPc]; rfl
        · rw [set_getD_self]
          apply good_set g (.wDone n) fl hg rfl (fun _ _ h => h)
          · intro m hm; rcases hm with hm | hm <;> cases hm
          · intro m hm; rcases hm with hm | hm <;> cases hm
          · intro j m _ _ hin _ hnot; rw [hp] at hnot; simp [inFlightPc] at hin hnot; first | exact absurd hin hnot | exact absurd hin.symm hnot | exact absurd rfl hnot
      case gIn =>
        subst h
        refine ⟨fl.set g (flAt fl g), ?_, ?_⟩
        · have hph : phAt (absPhF s fl) g = .inside .g := by rw [phAt_absF s fl hl, hp]; rfl
          simp only [specStep, hph]
          rw [absF_setPc]; rfl
        · rw [set_getD_self]
          apply good_set g .gDone fl hg rfl (fun _ _ h => h)
          · intro m hm; rcases hm with hm | hm <;> cases hm
          · intro m hm; rcases hm with hm | hm <;> cases hm
          · intro j m _ _ hin; simp [inFlightPc] at hin
  | ret g ran =>
    simp only [visible] at h
    split at h
    case isFalse => simp at h
    case isTrue hg =>
      have fin_ret : ∀ (ph0 : Phase) (ran : Bool), phAt (absPhF s fl) g = ph0 →
          (match ph0, ran with
            | .finished _, true => some ((absPhF s fl).set g .idle)
            | .called (.w _) true, false => some ((absPhF s fl).set g .idle)
            | _, _ => none) = some ((absPhF s fl).set g .idle) →
          ∃ fl', specStep (absPhF s fl) (.ret g ran) = some (absPhF (setPc s g .idle) fl') ∧ Good (setPc s g .idle) fl' := by
        intro ph0 ran hph hmatch
        refine ⟨fl.set g (flAt fl g), ?_, ?_⟩
        · simp only [specStep, hph]
          rw [absF_setPc]; exact hmatch
        · rw [set_getD_self]
          apply good_set g .idle fl hg rfl (fun _ _ h => h)
          · intro m hm; rcases hm with hm | hm <;> cases hm
          · intro m hm; rcases hm with hm | hm <;> cases hm
          · intro j m _ _ hin; simp [inFlightPc] at hin
      cases hp : pcAt s g <;> cases ran <;> simp only [hp] at h <;> try (simp at h)
      case wRetF.false n =>
        subst h
        exact fin_ret (.called (.w n) true) false (by rw [phAt_absF s fl hl, hp, hgd.skip g n (Or.inr hp)]; rfl) rfl
      case wRetT.true n =>
        subst h
        exact fin_ret (.finished (.w n)) true (by rw [phAt_absF s fl hl, hp]; rfl) rfl
      case gRet.true =>
        subst h
        exact fin_ret (.finished .g) true (by rw [phAt_absF s fl hl, hp]; rfl) rfl

theorem specRun_snoc (ph : List Phase) (tr : List Ev) (e : Ev) :
    specRun ph (tr ++ [e]) = (specRun ph tr).bind (specStep · e) := by
  induction tr generalizing ph with
  | nil => simp [specRun]; cases specStep ph e <;> simp [specRun]
  | cons a r ih =>
    simp only [List.cons_append, specRun]
    cases specStep ph a with
    | none => simp
    | some ph' => exact ih ph'

theorem exec_spec {s0 s : State} {tr : List Ev} (h : Exec s0 tr s) (h0 : Reach s0) (fl0 : List Bool) (hg0 : Good s0 fl0) :
    Reach s ∧ ∃ fl, Good s fl ∧ specRun (absPhF s0 fl0) tr = some (absPhF s fl) := by
  induction h with
  | nil => exact ⟨h0, fl0, hg0, rfl⟩
  | tau g _ hs ih =>
    obtain ⟨hr, fl, hgd, hrun⟩ := ih
    have := good_hidden fl g hr hgd hs
    exact ⟨Reach.tau g hr hs, fl, this.1, by rw [hrun, this.2]⟩
  | vis e _ hs ih =>
    obtain ⟨hr, fl, hgd, hrun⟩ := ih
    obtain ⟨fl', h1, h2⟩ := spec_visible fl e hr hgd hs
    exact ⟨Reach.vis e hr hs, fl', h2, by rw [specRun_snoc, hrun]; exact h1⟩

def runSched (s : State) : List (Nat ⊕ Ev) → Option (State × List Ev)
  | [] => some (s, [])
  | .inl g :: r => match hidden s g with
    | some s' => runSched s' r
    | none => none
  | .inr e :: r => match visible s e with
    | some s' => (runSched s' r).map fun p => (p.1, e :: p.2)
    | none => none

theorem exec_trans_tau {s0 s s' : State} {tr : List Ev} (g : Nat) (h1 : hidden s0 g = some s) (h : Exec s tr s') :
    Exec s0 tr s' := by
  induction h with
  | nil => exact Exec.tau g (Exec.nil _) h1
  | tau g' _ hs ih => exact Exec.tau g' ih hs
  | vis e _ hs ih => exact Exec.vis e ih hs

theorem exec_trans_vis {s0 s s' : State} {tr : List Ev} (e : Ev) (h1 : visible s0 e = some s) (h : Exec s tr s') :
    Exec s0 (e :: tr) s' := by
  induction h with
  | nil => exact Exec.vis (tr := []) e (Exec.nil _) h1
  | tau g' _ hs ih => exact Exec.tau g' ih hs
  | vis e' _ hs ih => exact Exec.vis (tr := e :: _) e' ih hs

theorem runSched_exec (sched : List (Nat ⊕ Ev)) (s s' : State) (tr : List Ev) (h : runSched s sched = some (s', tr)) :
    Exec s tr s' := by
  induction sched generalizing s tr with
  | nil => simp [runSched] at h; obtain ⟨rfl, rfl⟩ := h; exact Exec.nil _
  | cons a r ih =>
    cases a with
    | inl g =>
      simp only [runSched] at h
      cases hh : hidden s g with
      | none => simp [hh] at h
      | some s1 => rw [hh] at h; simp only at h; exact exec_trans_tau g hh (ih s1 tr h)
    | inr e =>
      simp only [runSched] at h
      cases hv : visible s e with
      | none => simp [hv] at h
      | some s1 =>
        rw [hv] at h
        simp only at h
        cases hr : runSched s1 r with
        | none => simp [hr] at h
        | some p =>
          rw [hr] at h
          simp at h
          obtain ⟨rfl, rfl⟩ := h
          exact exec_trans_vis e hv (ih s1 p.2 (by rw [hr]))

end ZoektModel.C31
