/-
C31 — the property as an executable predicate on a logged trace (critical-section occupancy):

  two indexing operations for the same repository never run at the same time, a global operation never
  runs while any other operation runs, and an operation skipped because its repository is busy is
  reported as skipped.

`traceOK` replays the events keeping, per goroutine, only the phase of its current operation; it is
evaluated on traces of the real `indexMutex` and proved of every trace of the model (Props/C31.lean).
-/
import ZoektModel.C31.Model
namespace ZoektModel.C31

inductive Phase where
  | idle
  | called (o : Op) (just : Bool)   -- With / Global called, f not (yet) running; `just`: another operation for the same
                                    -- repository has been in flight at some moment since the call
  | inside (o : Op)     -- f is running
  | finished (o : Op)   -- f has run
  deriving DecidableEq, Repr

def phAt (ph : List Phase) (g : Nat) : Phase := ph.getD g .idle

/-- may `f` of operation `o` start now, given what the *other* goroutines are doing? -/
def mayRun (ph : List Phase) (g : Nat) (o : Op) : Bool :=
  (List.range ph.length).all fun j =>
    j == g ||
    match phAt ph j, o with
    | .inside .g, _ => false          -- a global operation is running: nothing else may run
    | .inside (.w _), .g => false     -- a global operation never starts while a repository operation runs
    | .inside (.w m), .w n => m != n  -- two operations for the same repository never run at the same time
    | _, _ => true

/-- a `With` for repository `n` is in flight (called and not yet returned) -/
def inFlightW (n : Nat) : Phase → Bool
  | .called (.w m) _ | .inside (.w m) | .finished (.w m) => m == n
  | _ => false

def anyOther (ph : List Phase) (g : Nat) (p : Phase → Bool) : Bool :=
  (List.range ph.length).any fun j => j != g && p (phAt ph j)

/-- a new `With n` is in flight: every `With n` that is waiting now has a reason to be skipped -/
def markOne (n : Nat) : Phase → Phase
  | .called (.w m) j => .called (.w m) (j || m == n)
  | p => p

def specStep (ph : List Phase) : Ev → Option (List Phase)
  | .call g o =>
    if g < ph.length && phAt ph g == .idle then
      match o with
      | .w n => some ((ph.map (markOne n)).set g (.called (.w n) (anyOther ph g (inFlightW n))))
      | .g => some (ph.set g (.called .g false))
    else none
  | .begin g =>
    match phAt ph g with
    | .called o _ => if mayRun ph g o then some (ph.set g (.inside o)) else none
    | _ => none
  | .fin g =>
    match phAt ph g with
    | .inside o => some (ph.set g (.finished o))
    | _ => none
  | .ret g ran =>
    match phAt ph g, ran with
    | .finished _, true => some (ph.set g .idle)             -- reported as run ⇒ f ran to completion
    | .called (.w _) true, false => some (ph.set g .idle)    -- reported as skipped ⇒ f did not run, and another operation
                                                             -- for the same repository was in flight meanwhile
    | _, _ => none

def specRun (ph : List Phase) : List Ev → Option (List Phase)
  | [] => some ph
  | e :: r => match specStep ph e with
    | some ph' => specRun ph' r
    | none => none

/-- the whole statement for a trace of `n` goroutines -/
def traceOK (n : Nat) (tr : List Ev) : Bool := (specRun (List.replicate n .idle) tr).isSome

/-- index of the first event that violates the statement (for the failure key) -/
def firstBad (ph : List Phase) (k : Nat) : List Ev → Option (Nat × Ev)
  | [] => none
  | e :: r => match specStep ph e with
    | some ph' => firstBad ph' (k + 1) r
    | none => some (k, e)

/-- "skipped because its repository is busy", a second time and independently of the `just` flags of `specStep`: a
    `With` that returned false overlapped, between its call and its return, a `With` for the same repository by another
    goroutine. Evaluated on whole traces (interval formulation). -/
def callIdx (tr : List Ev) (g : Nat) (upto : Nat) : Option (Nat × Op) :=
  (List.range upto).foldl (fun acc i =>
    match tr.getD i (.begin 0) with
    | .call g' o => if g' == g then some (i, o) else acc
    | _ => acc) none

def retIdx (tr : List Ev) (g : Nat) (from_ : Nat) : Nat :=
  ((List.range tr.length).find? fun i => i > from_ &&
    match tr.getD i (.begin 0) with
    | .ret g' _ => g' == g
    | _ => false).getD tr.length

def skipsJustified (tr : List Ev) : Bool :=
  (List.range tr.length).all fun k =>
    match tr.getD k (.begin 0) with
    | .ret g false =>
      match callIdx tr g k with
      | some (c, .w n) =>
        -- some other goroutine has a With n whose [call, ret] interval meets [c, k]
        (List.range tr.length).any fun i =>
          match tr.getD i (.begin 0) with
          | .call g' (.w m) => g' != g && m == n && i < k && retIdx tr g' i > c
          | _ => false
      | _ => false
    | _ => true

def checkP (n : Nat) (tr : List Ev) : Bool := traceOK n tr && skipsJustified tr

end ZoektModel.C31
