/-
C31 — small-step model of cmd/zoekt-sourcegraph-indexserver/index_mutex.go: `indexMutex.With` and
`indexMutex.Global` executed by any number of goroutines.

Atomic actions (one per synchronisation operation of the Go text):

  With(name, f):   call ─▸ RLock ─▸ {runningMu: alreadyRunning := name ∈ running; running[name] = {}} ─▸
                     alreadyRunning:  RUnlock ─▸ return false
                     otherwise:       f begins ─▸ f ends ─▸ {runningMu: delete(running, name)} ─▸ RUnlock ─▸ return true
  Global(f):       call ─▸ Lock ─▸ f begins ─▸ f ends ─▸ Unlock ─▸ return

`sync.RWMutex` is taken with its documented sequential specification: `RLock` is enabled when no writer
holds the lock, `Lock` when nobody holds it (Go's writer preference only removes schedules, so it is
irrelevant for safety).  The `runningMu` critical sections are single atomic steps (a `sync.Mutex`
makes them so).  Visible events are what the Go driver can log without touching the source: `call`,
`begin`/`end` (logged from inside `f`) and `ret`; everything else is a hidden step.
-/
namespace ZoektModel.C31

inductive Op where
  | w (n : Nat)   -- With(name n, f)
  | g             -- Global(f)
  deriving DecidableEq, Repr

inductive Pc where
  | idle
  | wCall (n : Nat)      -- With called, before RLock
  | wLocked (n : Nat)    -- read lock held, before the check-and-set of running[n]
  | wSkip (n : Nat)      -- alreadyRunning; read lock still held
  | wRetF (n : Nat)      -- read lock released; about to return false
  | wRun (n : Nat)       -- running[n] set by this goroutine; about to call f
  | wIn (n : Nat)        -- inside f
  | wDone (n : Nat)      -- f returned; running[n] still set
  | wCleared (n : Nat)   -- running[n] deleted; read lock still held
  | wRetT (n : Nat)      -- read lock released; about to return true
  | gCall                -- Global called, before Lock
  | gLocked              -- write lock held; about to call f
  | gIn                  -- inside f
  | gDone                -- f returned; write lock still held
  | gRet                 -- write lock released; about to return
  deriving DecidableEq, Repr

structure State where
  gs : List Pc           -- one entry per goroutine
  readers : Nat          -- RWMutex: number of read locks held
  writer : Bool          -- RWMutex: write lock held
  running : List Nat     -- keys of the `running` map
  deriving DecidableEq, Repr

def init (n : Nat) : State := ⟨List.replicate n .idle, 0, false, []⟩

def pcAt (s : State) (g : Nat) : Pc := s.gs.getD g .idle

def setPc (s : State) (g : Nat) (pc : Pc) : State := { s with gs := s.gs.set g pc }

/-- the hidden (unlogged) step goroutine `g` can take, if any -/
def hidden (s : State) (g : Nat) : Option State :=
  if g < s.gs.length then
    match pcAt s g with
    | .wCall n => if s.writer then none else some { setPc s g (.wLocked n) with readers := s.readers + 1 }
    | .wLocked n =>
      if s.running.contains n then some (setPc s g (.wSkip n))
      else some { setPc s g (.wRun n) with running := n :: s.running }
    | .wSkip n => some { setPc s g (.wRetF n) with readers := s.readers - 1 }
    | .wDone n => some { setPc s g (.wCleared n) with running := s.running.filter (· ≠ n) }
    | .wCleared n => some { setPc s g (.wRetT n) with readers := s.readers - 1 }
    | .gCall => if s.writer || s.readers != 0 then none else some { setPc s g .gLocked with writer := true }
    | .gDone => some { setPc s g .gRet with writer := false }
    | _ => none
  else none

inductive Ev where
  | call (g : Nat) (o : Op)
  | begin (g : Nat)
  | fin (g : Nat)
  | ret (g : Nat) (ran : Bool)   -- With: its result; Global: `true`
  deriving DecidableEq, Repr

/-- a logged step -/
def visible (s : State) : Ev → Option State
  | .call g o =>
    if g < s.gs.length then
      match pcAt s g, o with
      | .idle, .w n => some (setPc s g (.wCall n))
      | .idle, .g => some (setPc s g .gCall)
      | _, _ => none
    else none
  | .begin g =>
    if g < s.gs.length then
      match pcAt s g with
      | .wRun n => some (setPc s g (.wIn n))
      | .gLocked => some (setPc s g .gIn)
      | _ => none
    else none
  | .fin g =>
    if g < s.gs.length then
      match pcAt s g with
      | .wIn n => some (setPc s g (.wDone n))
      | .gIn => some (setPc s g .gDone)
      | _ => none
    else none
  | .ret g ran =>
    if g < s.gs.length then
      match pcAt s g, ran with
      | .wRetF _, false => some (setPc s g .idle)
      | .wRetT _, true => some (setPc s g .idle)
      | .gRet, true => some (setPc s g .idle)
      | _, _ => none
    else none

/-- states reachable by any interleaving of any goroutines' steps, from `n` idle goroutines -/
inductive Reach : State → Prop where
  | init (n : Nat) : Reach (init n)
  | tau {s s' : State} (g : Nat) : Reach s → hidden s g = some s' → Reach s'
  | vis {s s' : State} (e : Ev) : Reach s → visible s e = some s' → Reach s'

/-- executions with their logged trace -/
inductive Exec : State → List Ev → State → Prop where
  | nil (s : State) : Exec s [] s
  | tau {s s' s'' : State} {tr : List Ev} (g : Nat) : Exec s tr s' → hidden s' g = some s'' → Exec s tr s''
  | vis {s s' s'' : State} {tr : List Ev} (e : Ev) : Exec s tr s' → visible s' e = some s'' → Exec s (tr ++ [e]) s''

/-! ### trace admission (used by the driver): is the logged trace a trace of the model? -/

def insertNew (s : State) (l : List State) : List State := if l.contains s then l else s :: l

/-- close a set of states under hidden steps (fuel bounds the number of rounds) -/
def tauClose (fuel : Nat) (l : List State) : List State :=
  match fuel with
  | 0 => l
  | fuel + 1 =>
    let next := l.foldl (fun acc s =>
      (List.range s.gs.length).foldl (fun acc g =>
        match hidden s g with
        | some s' => insertNew s' acc
        | none => acc) acc) l
    if next.length = l.length then l else tauClose fuel next

/-- all model states compatible with the trace so far; `none` with the index of the first event no model
    execution can produce -/
def admitTrace (n : Nat) (tr : List Ev) : Except Nat (List State) :=
  let fuel := 4 * n + 4
  let rec go (k : Nat) (cur : List State) : List Ev → Except Nat (List State)
    | [] => .ok cur
    | e :: rest =>
      let nxt := cur.foldl (fun acc s => match visible s e with | some s' => insertNew s' acc | none => acc) []
      if nxt.isEmpty then .error k else go (k + 1) (tauClose fuel nxt) rest
  go 0 (tauClose fuel [init n]) tr

end ZoektModel.C31
